"""`./check <ID> [--tier quick|thorough] [--replay file]` — see DESIGN.md §2.

Per run: (1) translator regenerates Generated/*.lean from /repo/src; (2) `lake build` of the property's
theorem modules and model driver (kernel re-checks every theorem; axiom audit; forbidden-token grep);
(3) `cargo build` of the executor against /repo's current working tree; (4) generated request lines
are run through the real Rust code and through the Lean model at `Float`, replies compared bit for
bit; (5) the property oracle is evaluated on the implementation's replies; (6) verdict + evidence."""
import fcntl
import hashlib
import glob
import importlib
import json
import os
import sys
import time
import traceback
import re

from . import common
from .common import VERIF, LEAN, EXEC, OUT, EVID, Rng, Failure, sh, parse_reply


def strip_lean_comments(src):
    out = []
    i, n, depth = 0, len(src), 0
    while i < n:
        if src.startswith("/-", i):
            depth += 1
            i += 2
        elif depth > 0 and src.startswith("-/", i):
            depth -= 1
            i += 2
        elif depth > 0:
            if src[i] == "\n":
                out.append("\n")
            i += 1
        elif src.startswith("--", i):
            while i < n and src[i] != "\n":
                i += 1
        else:
            out.append(src[i])
            i += 1
    return "".join(out)


class Run:
    def __init__(self, mod, tier, seed):
        self.mod = mod
        self.pid = mod.ID
        self.tier = tier
        self.seed = seed
        self.outdir = os.path.join(OUT, self.pid + ("-alt" if common.ALT else ""))
        os.makedirs(self.outdir, exist_ok=True)
        self.proof_alarms = []     # (name, detail)
        self.theorems = []         # (name, [axioms])
        self.t0 = time.time()
        self.log = []

    def say(self, s):
        print(s, flush=True)

    # ---------------------------------------------------------------- build / proof engine
    def extract(self):
        fn = getattr(self.mod, "EXTRACT", None)
        self.tie_notes = []
        files = {}
        if fn:
            try:
                files = dict(fn(common.REPO))
            except common.SourceDrift as e:  # part of the source left the translated subset: correspondence-only for it
                files = dict(e.files)
                self.tie_notes = [x for x in str(e).split(" || ") if x]
                for n in self.tie_notes:
                    self.say("NOTE property=%s source tie not re-established (this run relies on the bit-exact correspondence for it): %s" % (self.pid, n[:300]))
            except Exception as e:  # translator could not read the source
                self.proof_alarms.append(("translator", "extraction failed: %r" % (e,)))
                return
        # Generated files in this property's import closure that OTHER properties' translators own (wiring tables, constants,
        # special-function tables the shared model files import): regenerate them too, so that this check never builds its
        # model over a stale table left behind by a run of another check against a different tree.
        closure_gen = {m for m in self.module_closure() if m.startswith("Compute.Generated.")}
        have = {"Compute." + r[len("Compute/"):-len(".lean")].replace("/", ".") for r in files if r.startswith("Compute/")}
        missing = closure_gen - have
        if missing:
            for k in range(1, 21):
                oid = "c%02d" % k
                if oid == self.pid.lower() or not missing:
                    continue
                try:
                    om = importlib.import_module("tools.cv." + oid)
                    ofn = getattr(om, "EXTRACT", None)
                    if not ofn:
                        continue
                    try:
                        ofiles = dict(ofn(common.REPO))
                    except common.SourceDrift as e:
                        ofiles = dict(e.files)
                except Exception as e:
                    owned = [m for m in missing if m.split(".")[-1].upper().find(oid.upper()) >= 0]
                    if owned:
                        self.proof_alarms.append(("translator(%s)" % oid.upper(), "extraction of %s (imported by this property's model) failed: %r" % (", ".join(sorted(owned)), e)))
                        missing -= set(owned)
                    continue
                for r, content in ofiles.items():
                    mname = "Compute." + r[len("Compute/"):-len(".lean")].replace("/", ".") if r.startswith("Compute/") else None
                    if mname in missing:
                        files[r] = content
                        missing.discard(mname)
            for mname in sorted(missing):
                self.say("NOTE property=%s generated module %s in the import closure has no translator that regenerates it in this run; the committed copy is used" % (self.pid, mname))
        for rel, content in files.items():
            path = os.path.join(LEAN, rel)
            old = open(path).read() if os.path.exists(path) else None
            if old != content and common.ALT:
                if getattr(self, "alt_can_rebuild", False):
                    # seed testing with the build lock held: swap the regenerated file in, re-check the theorems over
                    # it, and swap the committed copy back afterwards (restore_generated)
                    self.alt_restore = getattr(self, "alt_restore", {})
                    self.alt_restore[path] = old
                    # crash safety: keep the committed copy on disk until it has been swapped back
                    bpath = os.path.join(OUT, "alt-backup", rel.replace(os.sep, "__"))
                    os.makedirs(os.path.dirname(bpath), exist_ok=True)
                    with open(bpath, "w") as bf:
                        bf.write(old if old is not None else "")
                    with open(path, "w") as f:
                        f.write(content)
                    self.say("[alt] regenerated %s from %s (will be restored)" % (rel, common.REPO))
                else:
                    self.proof_alarms.append(("generated:" + rel, "the file regenerated from %s differs from the committed one (a table, constant, wiring row or translated formula changed in the source); theorems over it are not re-checked (build lock busy)" % common.REPO))
                continue
            if old != content:
                os.makedirs(os.path.dirname(path), exist_ok=True)
                with open(path, "w") as f:
                    f.write(content)
                self.say("[extract] regenerated %s" % rel)

    def module_closure(self):
        """Files of this property's theorem modules and driver, with their transitive `Compute.*` imports."""
        todo = list(self.mod.PROOF_MODULES) + ["Compute.Drv." + self.pid]
        seen = {}
        while todo:
            m = todo.pop()
            if m in seen:
                continue
            path = os.path.join(LEAN, *m.split(".")) + ".lean"
            if not os.path.exists(path):
                continue
            seen[m] = path
            for mm in re.findall(r"^\s*(?:public\s+)?import\s+(Compute\.[\w.]+)", open(path).read(), re.M):
                todo.append(mm)
        return seen

    def restore_generated(self):
        rest = getattr(self, "alt_restore", {})
        if not rest:
            return
        for path, old in rest.items():
            if old is None:
                os.remove(path)
            else:
                with open(path, "w") as f:
                    f.write(old)
        self.alt_restore = {}
        bdir = os.path.join(OUT, "alt-backup")
        if os.path.isdir(bdir):
            for fn in os.listdir(bdir):
                os.remove(os.path.join(bdir, fn))
        targets = list(self.mod.PROOF_MODULES) + ["cv_" + self.mod.BIN]
        rc, _ = sh(["lake", "build"] + targets, cwd=LEAN, timeout=3600)
        self.alt_restored_build = (rc == 0)

    def forbidden_scan(self):
        hits = []
        for path in sorted(self.module_closure().values()):
            src = strip_lean_comments(open(path).read())
            rel = os.path.relpath(path, LEAN)
            src_lines = src.split("\n")
            for m in common.FORBIDDEN_RE.finditer(src):
                line = src.count("\n", 0, m.start()) + 1
                tok = m.group(0).strip()
                if (rel, src_lines[line - 1].strip()) in common.FORBIDDEN_ALLOW:
                    continue
                if rel.startswith("Compute/Drv/") and tok.startswith("partial"):
                    continue
                hits.append("%s:%d: %s" % (os.path.relpath(path, LEAN), line, tok))
        if hits:
            self.proof_alarms.append(("forbidden-token", "; ".join(hits[:10])))

    def lake_build(self):
        targets = list(self.mod.PROOF_MODULES) + ["cv_" + self.mod.BIN]
        rc, out = sh(["lake", "build"] + targets, cwd=LEAN, timeout=3600)
        self.lake_out = out
        if rc != 0:
            errs = [l for l in out.splitlines() if "error" in l.lower()][:12]
            self.proof_alarms.append(("lake-build", "lake build %s failed: %s" % (" ".join(targets), " | ".join(errs))))
            return False
        return True

    def audit(self):
        import hashlib

        h = hashlib.sha256()
        libdir = os.path.join(LEAN, ".lake", "build", "lib", "lean", "Compute")
        for path in sorted(glob.glob(os.path.join(libdir, "**", "*.olean"), recursive=True)):
            h.update(path.encode())
            h.update(open(path, "rb").read())
        h.update(open(os.path.join(LEAN, "AuditMain.lean"), "rb").read())
        h.update(" ".join(self.mod.PROOF_MODULES).encode())
        cdir = os.path.join(OUT, "audit-cache")
        os.makedirs(cdir, exist_ok=True)
        cpath = os.path.join(cdir, h.hexdigest()[:32] + ".txt")
        if os.path.exists(cpath):
            out = open(cpath).read()
        else:
            rc, out = sh(["lake", "env", "lean", "--run", "AuditMain.lean"] + list(self.mod.PROOF_MODULES),
                         cwd=LEAN, timeout=3600)
            if rc != 0:
                self.proof_alarms.append(("audit", "axiom audit failed: " + out[-600:]))
                return
            with open(cpath, "w") as f:
                f.write(out)
        for line in out.splitlines():
            if line.startswith("THEOREM "):
                parts = line.split()
                name = parts[1]
                if re.search(r"\.(eq_\d+|eq_def|eq_unfold|match_\d+\S*|proof_\d+|_\S*|induct\S*|fun_cases\S*)$", name) or "._" in name:
                    continue
                axs = parts[3].split(",") if len(parts) > 3 and parts[3] else []
                self.theorems.append((name, axs))
                extra = [a for a in axs if a not in common.ALLOWED_AXIOMS]
                if extra:
                    self.proof_alarms.append((name, "depends on axioms outside the trusted set: " + ",".join(extra)))
        if not self.theorems:
            self.proof_alarms.append(("audit", "no theorems found in " + " ".join(self.mod.PROOF_MODULES)))
        want = getattr(self.mod, "REQUIRED_THEOREMS", [])
        have = {n for n, _ in self.theorems}
        for w in want:
            if w not in have:
                self.proof_alarms.append((w, "required property theorem is missing from the compiled module"))

    def leanchecker(self):
        for m in self.mod.PROOF_MODULES:
            rc, out = sh(["lake", "env", "leanchecker", m], cwd=LEAN, timeout=3600)
            if rc != 0:
                self.proof_alarms.append(("leanchecker", "%s: %s" % (m, out[-400:])))

    def exec_dir(self):
        if not common.ALT:
            return EXEC
        import hashlib
        d = os.path.join(OUT, "altexec-" + hashlib.sha256(common.REPO.encode()).hexdigest()[:10])
        os.makedirs(d, exist_ok=True)
        sh(["rsync", "-a", "--delete", "--exclude", "target", EXEC + "/", d + "/"])
        ct = open(os.path.join(d, "Cargo.toml")).read().replace('path = "/repo"', 'path = "%s"' % common.REPO)
        open(os.path.join(d, "Cargo.toml"), "w").write(ct)
        return d

    def repo_source_hash(self):
        h = hashlib.sha256()
        for base in ("Cargo.toml", "Cargo.lock"):
            fp = os.path.join(common.REPO, base)
            if os.path.exists(fp):
                h.update(base.encode() + b"\0" + open(fp, "rb").read())
        for root, dirs, files in sorted(os.walk(os.path.join(common.REPO, "src"))):
            dirs.sort()
            for fn in sorted(files):
                fp = os.path.join(root, fn)
                h.update(os.path.relpath(fp, common.REPO).encode() + b"\0" + open(fp, "rb").read())
        return h.hexdigest()

    def cargo_build(self):
        self.execd = self.exec_dir()
        # cargo decides freshness of the path dependency by modification times; a tree restored with older time stamps would leave
        # a stale `compute` library behind the executor.  Pin it by content: when the source hash differs from the one the
        # library was last built from, drop the library before building.
        try:
            hfile = os.path.join(self.execd, "target", ".cv-compute-srchash")
            cur = self.repo_source_hash()
            old = open(hfile).read().strip() if os.path.exists(hfile) else None
            if old != cur:
                if old is not None or os.path.isdir(os.path.join(self.execd, "target", "debug", "deps")):
                    sh(["cargo", "clean", "--offline", "-p", "compute"], cwd=self.execd, timeout=600)
                    self.say("[cargo] /repo sources changed since the executor library was built: rebuilding it")
        except Exception as e:  # noqa
            cur, hfile = None, None
        rc, out = sh(["cargo", "build", "--offline", "--bin", self.mod.BIN], cwd=self.execd, timeout=3600)
        if rc == 0 and cur and hfile:
            try:
                os.makedirs(os.path.dirname(hfile), exist_ok=True)
                with open(hfile, "w") as f:
                    f.write(cur)
            except Exception:
                pass
        if rc != 0:
            self.say(out[-3000:])
            self.say("INFRA-ERROR property=%s: executor (and /repo) failed to compile" % self.pid)
            return False
        return True

    # ---------------------------------------------------------------- executors
    def run_impl(self, lines, tag="ops", timeout=None):
        ops = os.path.join(self.outdir, tag + ".txt")
        outp = os.path.join(self.outdir, tag + ".impl.out")
        with open(ops, "w") as f:
            f.write("\n".join(lines) + "\n")
        if os.path.exists(outp):
            os.remove(outp)
        timeout = timeout or getattr(self.mod, "IMPL_TIMEOUT", 600)
        timed_out = False
        try:
            rc, out = sh([os.path.join(getattr(self, "execd", EXEC), "target", "debug", self.mod.BIN), ops, outp], timeout=timeout)
        except Exception:
            timed_out = True
            rc = -1
        replies = open(outp).read().splitlines() if os.path.exists(outp) else []
        if len(replies) < len(lines):
            # the executor died or hung at line len(replies)
            k = len(replies)
            replies.append("! timeout" if timed_out else "! crashed")
            replies += ["# not-run"] * (len(lines) - k - 1)
        return replies

    def run_model(self, lines, tag="ops", timeout=None):
        ops = os.path.join(self.outdir, tag + ".model.txt")
        outp = os.path.join(self.outdir, tag + ".model.out")
        with open(ops, "w") as f:
            f.write("\n".join(lines) + "\n")
        if os.path.exists(outp):
            os.remove(outp)
        exe = os.path.join(LEAN, ".lake", "build", "bin", "cv_" + self.mod.BIN)
        try:
            rc, out = sh([exe, ops, outp], timeout=timeout or getattr(self.mod, "MODEL_TIMEOUT", 900))
        except Exception:
            rc = -1
        replies = open(outp).read().splitlines() if os.path.exists(outp) else []
        if len(replies) < len(lines):
            k = len(replies)
            replies.append("! model-crashed")
            replies += ["# not-run"] * (len(lines) - k - 1)
        return replies

    def model_line(self, line):
        """Translate a request line for the model (default: identical). A module may drop
        implementation-only tokens (e.g. ownership form) or return None to skip the model."""
        fn = getattr(self.mod, "model_line", None)
        return fn(line) if fn else line

    def compare(self, lines, impl, model_lines, model):
        """-> list of indices (into lines) where model and implementation disagree."""
        diffs = []
        cmp_fn = getattr(self.mod, "replies_agree", None)
        j = 0
        for i, line in enumerate(lines):
            if model_lines[i] is None:
                continue
            a = impl[i].strip()
            b = model[j].strip()
            j += 1
            if a.startswith("# not-run") or b.startswith("# not-run"):
                continue
            agree = cmp_fn(line, a, b) if cmp_fn else (a == b)
            if not agree:
                diffs.append(i)
        return diffs


def write_replay(run, kind, payload):
    path = os.path.join(run.outdir, "replay-%s-%s-%d.json" % (kind, run.tier, run.seed))
    payload = dict(payload)
    payload.update({"property": run.pid, "kind": kind, "seed": run.seed, "tier": run.tier})
    with open(path, "w") as f:
        json.dump(payload, f, indent=1)
    return path



def safe_oracle(run, mod, lines, impl, tag="oracle"):
    """The oracle is Python written against well-formed replies; a reply it cannot digest (NaN where a rational is expected, a short
    reply, a panic where a value is expected) must not crash the check without a verdict: the exception becomes a proof-style alarm,
    which the verdict logic turns into a VIOLATION with a replay (no-failing-input-found unless the search finds one)."""
    try:
        return list(mod.oracle(lines, impl))
    except Exception as e:  # noqa
        import traceback
        tb = traceback.format_exc()
        run.proof_alarms.append(("%s-exception" % tag, "the oracle could not digest the implementation's replies: %r\n%s" % (e, tb[-1500:])))
        return []



def replay_ctx(mod, lines, idx):
    """Indices of the request lines a replay needs to reproduce the failure at `idx`: the module's own `replay_context(lines, idx)`
    (session prefix, the other members of a relational check) when it defines one; otherwise the failing line alone; a failure that
    is not attached to one line (idx None) keeps the whole batch (capped)."""
    fn = getattr(mod, "replay_context", None)
    if fn is not None:
        try:
            c = sorted(set(int(i) for i in fn(lines, idx) if 0 <= int(i) < len(lines)))
            if c:
                return c[:20000]
        except Exception:
            pass
    if idx is None:
        return list(range(min(len(lines), 20000)))
    # default: the request lines of a run are executed in order by ONE executor process (sessions span lines, and state kept between
    # calls - caches, thread-local scratch, object histories - is part of what the checks observe), so the context of a failure is the
    # prefix of the batch up to the failing line (capped; the failing line is always the last one)
    lo = max(0, idx - 20000)
    return list(range(lo, idx + 1))


def execute(run, lines):
    """Run lines through implementation and model; return (impl, model_lines, model, diffs)."""
    impl = run.run_impl(lines)
    mlines = [run.model_line(l) for l in lines]
    model_in = [l for l in mlines if l is not None]
    model = run.run_model(model_in) if model_in else []
    diffs = run.compare(lines, impl, mlines, model)
    return impl, mlines, model, diffs


def model_reply_at(mlines, model, i):
    j = sum(1 for l in mlines[:i] if l is not None)
    return model[j] if mlines[i] is not None and j < len(model) else None


def _main(argv):
    import argparse

    ap = argparse.ArgumentParser()
    ap.add_argument("pid")
    ap.add_argument("--tier", default=os.environ.get("VERIF_TIER", "quick"))
    ap.add_argument("--replay", default=None)
    ap.add_argument("--no-build", action="store_true", help="(development) skip lake/cargo builds")
    args = ap.parse_args(argv)
    pid = args.pid.upper()
    tier = args.tier if args.tier in ("quick", "thorough") else "quick"
    try:
        seed = int(os.environ.get("VERIF_SEED", "20260926"))
    except ValueError:
        seed = 20260926
    mod = importlib.import_module("tools.cv." + pid.lower())
    run = Run(mod, tier, seed)
    os.makedirs(OUT, exist_ok=True)

    # -------- build phase (serialised across concurrent checks)
    build_ok = True
    if not args.no_build:
        with open(os.path.join(OUT, ".build.lock"), "w") as lk:
            got = True
            if common.ALT:
                # seed testing against a scratch worktree: the Lean side is unchanged, so when the build lock is
                # busy for long (other builds running) use the binaries that are already there
                got = False
                t_end = time.time() + 90
                while time.time() < t_end:
                    try:
                        fcntl.flock(lk, fcntl.LOCK_EX | fcntl.LOCK_NB)
                        got = True
                        break
                    except OSError:
                        time.sleep(3)
            else:
                fcntl.flock(lk, fcntl.LOCK_EX)
            try:
                if got:
                    # leftovers of an interrupted CV_REPO run: put the committed generated files back first
                    bdir = os.path.join(OUT, "alt-backup")
                    if os.path.isdir(bdir):
                        for fn in os.listdir(bdir):
                            dst = os.path.join(LEAN, fn.replace("__", os.sep))
                            with open(os.path.join(bdir, fn)) as bf, open(dst, "w") as df:
                                df.write(bf.read())
                            os.remove(os.path.join(bdir, fn))
                            run.say("[recover] restored %s from an interrupted CV_REPO run" % fn)
                run.alt_can_rebuild = bool(common.ALT and got)
                run.extract()
                run.forbidden_scan()
                if not got:
                    run.say("[alt] build lock busy: lake build skipped, using existing model binaries")
                    run.audit()
                elif run.lake_build():
                    run.audit()
                    if tier == "thorough":
                        run.leanchecker()
                else:
                    build_ok = False
                run.restore_generated()
                if not run.cargo_build():
                    return 2
            finally:
                try:
                    run.restore_generated()
                finally:
                    fcntl.flock(lk, fcntl.LOCK_UN)
    model_exe = os.path.join(LEAN, ".lake", "build", "bin", "cv_" + mod.BIN)
    have_model = os.path.exists(model_exe) and (build_ok or getattr(run, "alt_restored_build", False))

    # -------- replay mode
    if args.replay:
        rp = json.load(open(args.replay))
        lines = rp.get("lines", [])
        impl = run.run_impl(lines, tag="replay")
        mlines = [run.model_line(l) for l in lines]
        model = run.run_model([l for l in mlines if l is not None], tag="replay") if have_model else []
        fails = safe_oracle(run, mod, lines, impl)
        for i, l in enumerate(lines):
            print("REQ   ", l[:300])
            print("IMPL  ", impl[i][:300])
            mr = model_reply_at(mlines, model, i) if have_model else None
            if mr is not None:
                print("MODEL ", mr[:300])
        for f in fails:
            print("ORACLE-FAIL line=%s key=%s %s" % (f.idx, f.key, f.msg))
        rdiffs = run.compare(lines, impl, mlines, model) if have_model else []
        for i in rdiffs[:20]:
            print("MODEL-DIFF line=%d" % i)
        if fails:
            print("VIOLATION property=%s replay=%s" % (pid, args.replay))
            return 1
        if rdiffs or run.proof_alarms:
            print("VIOLATION property=%s replay=%s no-failing-input-found" % (pid, args.replay))
            return 1
        return 0

    # -------- generate, execute, compare, oracle
    rng = Rng(seed)
    corpus = list(mod.corpus()) if hasattr(mod, "corpus") else []
    gen_lines, cover = mod.gen(rng.fork("gen"), tier)
    lines = corpus + list(gen_lines)
    if have_model:
        impl, mlines, model, diffs = execute(run, lines)
    else:
        impl = run.run_impl(lines)
        mlines, model, diffs = [None] * len(lines), [], []
    fails = safe_oracle(run, mod, lines, impl)
    infra = [i for i, r in enumerate(impl) if r.startswith("! bad-op")]
    if infra:
        run.say("INFRA-ERROR property=%s: executor rejected request line %d: %s" % (pid, infra[0], lines[infra[0]][:200]))
        return 2

    known = common.load_known(pid)
    known_hit = {}
    new_fails = []
    for f in fails:
        if f.key in known:
            known_hit.setdefault(f.key, f)
        else:
            new_fails.append(f)

    violations = []  # (replay path, suffix)
    if new_fails:
        f = new_fails[0]
        ctx = replay_ctx(mod, lines, f.idx)
        path = write_replay(run, "oracle", {
            "message": f.msg, "key": f.key, "expected": f.expected, "failing_line_is_last_of": len(ctx),
            "lines": [lines[i] for i in ctx],
            "impl": [impl[i] for i in ctx],
            "model": [model_reply_at(mlines, model, i) for i in ctx],
            "all_failures": [x.to_json() for x in new_fails[:50]],
            "n_failures": len(new_fails),
        })
        violations.append((path, ""))
    elif diffs or run.proof_alarms:
        # a proof obligation or the correspondence broke, and the oracle is quiet on this batch:
        # intensified search for a failing input on the implementation
        found = None
        rounds = getattr(mod, "INTENSIFY_ROUNDS", {"quick": 4, "thorough": 16})[tier]
        focus = [lines[i].split()[0] for i in diffs[:50]]
        for k in range(rounds):
            r2 = rng.fork("intensify-%d" % k)
            if hasattr(mod, "gen_focus"):
                l2, _ = mod.gen_focus(r2, tier, focus)
            else:
                l2, _ = mod.gen(r2, tier)
            i2 = run.run_impl(list(l2), tag="intensify")
            f2 = [f for f in safe_oracle(run, mod, list(l2), i2, 'oracle(intensify)') if f.key not in known]
            if f2:
                found = (l2, i2, f2)
                break
        if found:
            l2, i2, f2 = found
            f = f2[0]
            ctx = replay_ctx(mod, l2, f.idx)
            path = write_replay(run, "oracle", {
                "message": f.msg, "key": f.key, "expected": f.expected,
                "lines": [l2[i] for i in ctx], "impl": [i2[i] for i in ctx],
                "found_by": "intensified search after a broken proof obligation / correspondence",
                "proof_alarms": run.proof_alarms[:10],
                "correspondence_diffs": len(diffs),
            })
            violations.append((path, ""))
        else:
            d = diffs[:5] if diffs else replay_ctx(mod, lines, None)[:2000]
            path = write_replay(run, "unproved", {
                "message": "the property is no longer shown to hold: " +
                           ("proof obligation(s) no longer check: %s. " % "; ".join(n for n, _ in run.proof_alarms[:8]) if run.proof_alarms else "") +
                           ("correspondence between model and implementation broke on %d request line(s)" % len(diffs) if diffs else ""),
                "theorems_or_obligations_failing": [{"name": n, "detail": dt} for n, dt in run.proof_alarms[:20]],
                "lines": [lines[i] for i in d],
                "impl": [impl[i] for i in d],
                "model": [model_reply_at(mlines, model, i) for i in d],
                "n_correspondence_diffs": len(diffs),
                "intensified_rounds_without_failing_input": rounds,
            })
            violations.append((path, " no-failing-input-found"))

    # -------- a source-tie note (part of the source left the translated subset, so that part is tied by the correspondence
    # only in this run): deepen the correspondence and the search with fresh generator rounds before accepting the run
    drift_rounds_done = 0
    if not violations and getattr(run, "tie_notes", None) and have_model:
        rounds = getattr(mod, "DRIFT_ROUNDS", {"quick": 3, "thorough": 1})[tier]
        for k in range(rounds):
            r2 = rng.fork("drift-%d" % k)
            l2, _ = mod.gen(r2, tier)
            l2 = list(l2)
            i2, ml2, m2, d2 = execute(run, l2)
            drift_rounds_done += 1
            f2 = [f for f in safe_oracle(run, mod, l2, i2, 'oracle(deepen)') if f.key not in known]
            if f2:
                f = f2[0]
                ctx = replay_ctx(mod, l2, f.idx)
                path = write_replay(run, "oracle", {
                    "message": f.msg, "key": f.key, "expected": f.expected,
                    "lines": [l2[i] for i in ctx], "impl": [i2[i] for i in ctx],
                    "model": [model_reply_at(ml2, m2, i) for i in ctx],
                    "found_by": "deepened search after a source-tie note (%s)" % "; ".join(run.tie_notes)[:400],
                })
                violations.append((path, ""))
                break
            if not d2 and any(n.startswith("oracle(deepen)") for n, _ in run.proof_alarms):
                d2 = list(range(min(5, len(l2))))
            if d2:
                d = d2[:5]
                path = write_replay(run, "unproved", {
                    "message": "the property is no longer shown to hold: the source tie could not be re-established (%s) and the deepened "
                               "correspondence between model and implementation broke on %d request line(s)" % ("; ".join(run.tie_notes)[:400], len(d2)),
                    "lines": [l2[i] for i in d], "impl": [i2[i] for i in d],
                    "model": [model_reply_at(ml2, m2, i) for i in d],
                    "n_correspondence_diffs": len(d2),
                })
                violations.append((path, " no-failing-input-found"))
                break
        if not violations:
            run.say("NOTE property=%s deepened correspondence after the source-tie note: %d extra generator round(s), no difference, no oracle failure"
                    % (pid, drift_rounds_done))

    for key, f in known_hit.items():
        run.say("KNOWN-FINDING: property=%s key=%s %s" % (pid, key, known[key]))

    # -------- evidence
    nontriv = set()
    ntf = getattr(mod, "nontrivial", None)
    panics = 0
    hist = {}
    for i, l in enumerate(lines):
        op = l.split()[0] if l.split() else "#"
        hist[op] = hist.get(op, 0) + 1
        if impl[i].startswith("! panic"):
            panics += 1
        k = ntf(l, impl[i]) if ntf else (l if not impl[i].startswith("#") else None)
        if k is not None:
            nontriv.add(k)
    obligations = len(run.theorems)
    bad_thms = {n for n, _ in run.proof_alarms}
    discharged = len([1 for n, _ in run.theorems if n not in bad_thms]) if build_ok else 0
    sample_idx = sorted({0, len(lines) // 3, (2 * len(lines)) // 3, len(lines) - 1}) if lines else []
    compared = sum(1 for l in mlines if l is not None)
    ev = {
        "property_id": pid,
        "tier": tier,
        "seed": seed,
        "level": "proof",
        "coverage": {
            "obligations": max(obligations, 1) if build_ok else max(obligations, 1),
            "discharged": discharged,
            "checker_cmd": "cd /verif/lean && lake build %s && lake env lean --run AuditMain.lean %s%s" % (
                " ".join(mod.PROOF_MODULES), " ".join(mod.PROOF_MODULES),
                " && lake env leanchecker " + " ".join(mod.PROOF_MODULES) if tier == "thorough" else ""),
            "trusted_base": getattr(mod, "TRUSTED", []) + [
                "Lean 4.33 kernel; axioms per theorem audited to be within {propext, Classical.choice, Quot.sound}",
                "hand-written Lean model of the anchored Rust code, tied by bit-exact differential execution (this run)",
                "Lean compiled Float arithmetic and glibc libm (shared with the Rust build)",
            ],
            "theorems": ([t for t in getattr(mod, "REQUIRED_THEOREMS", []) if t in {n for n, _ in run.theorems}]
                         + [n for n, _ in run.theorems if n not in set(getattr(mod, "REQUIRED_THEOREMS", []))])[:1500],
            "required_theorems": len(getattr(mod, "REQUIRED_THEOREMS", [])),
            "axioms_used": sorted({a for _, axs in run.theorems for a in axs}),
            "not_proved": getattr(mod, "NOT_PROVED", []),
            "evaluations": len(lines),
            "distinct_nontrivial": len(nontriv),
            "rule": getattr(mod, "RULE", "generated request lines; non-trivial = distinct request with a reply"),
            "samples": [{"request": lines[i][:400], "impl": impl[i][:400],
                         "model": (model_reply_at(mlines, model, i) or "")[:400]} for i in sample_idx],
            "traces_validated_against_impl": compared,
            "correspondence_disagreements": len(diffs),
            "oracle_failures": len(fails),
            "known_findings_reproduced": sorted(known_hit.keys()),
            "panicking_requests": panics,
            "op_histogram": hist,
            "generator_coverage": cover,
            "proof_alarms": [{"name": n, "detail": d[:300]} for n, d in run.proof_alarms[:20]],
            "source_tie_notes": [n[:300] for n in getattr(run, "tie_notes", [])][:20],
            "source_tie_deepening_rounds": drift_rounds_done,
            "exhaustive": bool(getattr(mod, "EXHAUSTIVE", {}).get(tier, False)),
        },
        "assumptions": getattr(mod, "ASSUMPTIONS", []),
        "wall_s": round(time.time() - run.t0, 2),
        "violations": len(violations),
    }
    if discharged == 0:
        # nothing was proved in this run (the theorem modules did not build): describe the run as what it was
        ev["coverage"].pop("obligations", None)
        ev["coverage"].pop("discharged", None)
        ev["coverage"]["explanation"] = "the theorem modules did not build in this run; only the differential execution below was carried out"
    evdir = os.path.join(OUT, "alt-evidence") if (common.ALT or args.no_build) else EVID   # development runs never touch evidence/
    os.makedirs(evdir, exist_ok=True)
    with open(os.path.join(evdir, pid + ".json"), "w") as f:
        json.dump(ev, f, indent=1)

    run.say("[%s %s seed=%d] theorems=%d discharged=%d requests=%d compared=%d diffs=%d oracle_failures=%d known=%d wall=%.1fs" % (
        pid, tier, seed, obligations, discharged, len(lines), compared, len(diffs), len(fails), len(known_hit), time.time() - run.t0))
    if violations:
        for path, suffix in violations:
            print("VIOLATION property=%s replay=%s%s" % (pid, path, suffix), flush=True)
        return 1
    return 0


def main(argv):
    """The interface knows two outcomes: exit 0 (held on everything explored) and exit 1 with a VIOLATION line.  Anything else that can
    happen to a run - the executor no longer compiles against /repo, a tool times out, an executor rejects a request, an unexpected
    exception anywhere in the machinery - means that this run did NOT show the property to hold, and is reported as such: a replay
    file naming what broke, evidence describing the (non-)coverage, `VIOLATION ... no-failing-input-found`, exit 1."""
    import traceback
    pid = (argv[0].upper() if argv else "C00")
    tier = os.environ.get("VERIF_TIER", "quick")
    for i, a in enumerate(argv):
        if a == "--tier" and i + 1 < len(argv):
            tier = argv[i + 1]
    tier = tier if tier in ("quick", "thorough") else "quick"
    try:
        seed = int(os.environ.get("VERIF_SEED", "20260926"))
    except ValueError:
        seed = 20260926
    t0 = time.time()
    detail = None
    try:
        rc = _main(argv)
        if rc in (0, 1):
            return rc
        detail = "the check could not run to a verdict (internal status %r): see the INFRA-ERROR line above" % (rc,)
    except SystemExit as e:
        if e.code in (0, 1):
            return e.code
        detail = "the check exited with status %r" % (e.code,)
    except BaseException as e:  # noqa
        detail = "the machinery raised %r\n%s" % (e, traceback.format_exc()[-3000:])
    outdir = os.path.join(OUT, pid + ("-alt" if common.ALT else ""))
    os.makedirs(outdir, exist_ok=True)
    path = os.path.join(outdir, "replay-unproved-%s-%d.json" % (tier, seed))
    with open(path, "w") as f:
        json.dump({"property": pid, "kind": "unproved", "seed": seed, "tier": tier,
                   "message": "the property is no longer shown to hold: the check could not be carried out on this tree", "detail": detail,
                   "theorems_or_obligations_failing": [{"name": "check-machinery", "detail": detail}], "lines": [],
                   "note": "no request line is attached: the run ended before a verdict; re-run the check itself to reproduce"}, f, indent=1)
    no_build = "--no-build" in argv
    evdir = os.path.join(OUT, "alt-evidence") if (common.ALT or no_build) else EVID
    os.makedirs(evdir, exist_ok=True)
    ev = {"property_id": pid, "tier": tier, "seed": seed, "level": "proof",
          "coverage": {"evaluations": 0, "distinct_nontrivial": 0,
                       "rule": "no case was explored: the check could not run to a verdict on this tree (see explanation)",
                       "samples": [{"what_broke": (detail or "")[:1000]}], "explanation": (detail or "")[:3000], "exhaustive": False},
          "assumptions": [], "wall_s": round(time.time() - t0, 2), "violations": 1}
    with open(os.path.join(evdir, pid + ".json"), "w") as f:
        json.dump(ev, f, indent=1)
    print("VIOLATION property=%s replay=%s no-failing-input-found" % (pid, path), flush=True)
    return 1
