import Compute.Lemmas.LuCorrect
import Mathlib.Algebra.BigOperators.Intervals
/-
`lu_solve` (model `Cv.LA.luSolve`) in exact arithmetic: the permutation step, the column-oriented
forward elimination with the unit lower triangle and the column-oriented back substitution with the
upper triangle of the packed factor.
-/
set_option linter.unusedSectionVars false
set_option linter.unusedVariables false
namespace Cv.LA.Lu
open Finset

/-- induction over folds of `(List.range n).reverse` (indexed by the number of remaining elements) -/
theorem foldl_range_rev_ind {σ : Type} (P : Nat → σ → Prop) (f : σ → Nat → σ) (s0 : σ) (n : Nat)
    (h0 : P n s0) (hs : ∀ m s, m < n → P (m + 1) s → P m (f s m)) :
    P 0 ((List.range n).reverse.foldl f s0) := by
  have : ∀ m, m ≤ n → ∀ s, P m s → P 0 ((List.range m).reverse.foldl f s) := by
    intro m
    induction m with
    | zero => intro _ s hs0; simpa using hs0
    | succ m ih =>
      intro hm s hP
      rw [List.range_succ, List.reverse_append, List.reverse_singleton, List.singleton_append,
        List.foldl_cons]
      exact ih (by omega) _ (hs m s (by omega) hP)
  exact this n (Nat.le_refl n) s0 h0

section solve
variable {α : Type} [Field α]

/-- `rd` of a list after `set`, vector version -/
theorem rd_set_vec (x : List α) (k i : Nat) (v : α) (hk : k < x.length) :
    rd (x.set k v) i = if i = k then v else rd x i := rd_set x k i v hk

/-- the permutation step -/
theorem luPermute_spec (piv : List Nat) (b : List α) (n : Nat) (hb : b.length = n) (hp : piv.length = n)
    (hlt : ∀ p ∈ piv, p < n) :
    ∃ x, luPermute piv b = some x ∧ x.length = n ∧ ∀ i, i < n → rd x i = rd b (piv.getD i 0) := by
  refine ⟨piv.map (rd b), ?_, by simpa using hp, ?_⟩
  · subst hb
    have h2 : (piv.any fun p => decide (b.length ≤ p)) = false := by
      rw [List.any_eq_false]
      intro p hpm
      have := hlt p hpm
      simp; omega
    simp only [luPermute, hp, Nat.lt_irrefl, h2, if_false, Bool.false_eq_true, Nat.sub_self,
      List.replicate_zero, List.append_nil]
  · intro i hi
    have hi' : i < piv.length := by omega
    rw [rd_eq_getElem _ _ (by simpa using hi')]
    simp [List.getD_eq_getElem?_getD, List.getElem?_eq_getElem hi']

/-- inner loop of the forward elimination for column `k` -/
theorem fwdInner_spec (n k : Nat) (f x : List α) (hx : x.length = n) (hk : k < n) :
    ((List.range' (k + 1) (n - (k + 1))).foldl
      (fun x i => x.set i (rd x i - rd x k * rd f (i * n + k))) x).length = n ∧
    ∀ i, i < n → rd ((List.range' (k + 1) (n - (k + 1))).foldl
      (fun x i => x.set i (rd x i - rd x k * rd f (i * n + k))) x) i =
        if k < i then rd x i - rd x k * ent n f i k else rd x i := by
  have key := foldl_range'_ind
    (fun m (s : List α) => s.length = n ∧ ∀ i, i < n → rd s i =
      if k < i ∧ i < k + 1 + m then rd x i - rd x k * ent n f i k else rd x i)
    (fun x i => x.set i (rd x i - rd x k * rd f (i * n + k))) x (k + 1) (n - (k + 1))
    ⟨hx, fun i _ => by rw [if_neg (by omega)]⟩
    (by
      intro m s hm ⟨hl, hs⟩
      refine ⟨by simpa using hl, ?_⟩
      intro i hi
      have hv : rd s (k + 1 + m) - rd s k * rd f ((k + 1 + m) * n + k) =
          rd x (k + 1 + m) - rd x k * ent n f (k + 1 + m) k := by
        rw [hs (k + 1 + m) (by omega), hs k hk, if_neg (by omega), if_neg (by omega), ent_def]
      rw [rd_set_vec _ _ _ _ (by omega), hv]
      by_cases h1 : i = k + 1 + m
      · subst h1; rw [if_pos rfl, if_pos ⟨by omega, by omega⟩]
      · rw [if_neg h1, hs i hi]
        by_cases h2 : k < i ∧ i < k + 1 + m
        · rw [if_pos h2, if_pos ⟨h2.1, by omega⟩]
        · rw [if_neg h2, if_neg (fun h => h2 ⟨h.1, by omega⟩)])
  obtain ⟨h1, h2⟩ := key
  refine ⟨h1, fun i hi => ?_⟩
  rw [h2 i hi]
  by_cases h3 : k < i
  · rw [if_pos ⟨h3, by omega⟩, if_pos h3]
  · rw [if_neg (fun h => h3 h.1), if_neg h3]

/-- **forward elimination**: `y = luFwd n f x` solves `L·y = x` for the unit lower triangle of `f`:
`y[i] = x[i] − Σ_{k<i} f[i,k]·y[k]`. -/
theorem luFwd_spec (n : Nat) (f x : List α) (hx : x.length = n) :
    (luFwd n f x).length = n ∧
    ∀ i, i < n → rd (luFwd n f x) i = rd x i - ∑ k ∈ range i, ent n f i k * rd (luFwd n f x) k := by
  unfold luFwd
  have key := foldl_range_ind
    (fun m (s : List α) => s.length = n ∧ ∀ i, i < n →
      rd s i = rd x i - ∑ k ∈ range (min i m), ent n f i k * rd s k)
    (fun x k => (List.range' (k + 1) (n - (k + 1))).foldl
      (fun x i => x.set i (rd x i - rd x k * rd f (i * n + k))) x) x n
    ⟨hx, fun i _ => by simp⟩
    (by
      intro m s hm ⟨hl, hs⟩
      obtain ⟨hl', he'⟩ := fwdInner_spec n m f s hl hm
      refine ⟨hl', ?_⟩
      intro i hi
      set s' := (List.range' (m + 1) (n - (m + 1))).foldl
        (fun x i => x.set i (rd x i - rd x m * rd f (i * n + m))) s with hs'
      have hsame : ∀ k, k ≤ m → rd s' k = rd s k := by
        intro k hk
        rw [he' k (by omega), if_neg (by omega)]
      by_cases hmi : m < i
      · rw [he' i hi, if_pos hmi, hs i hi]
        have h1 : min i m = m := by omega
        have h2 : min i (m + 1) = m + 1 := by omega
        rw [h1, h2, Finset.sum_range_succ, hsame m (Nat.le_refl m)]
        have : ∑ k ∈ range m, ent n f i k * rd s' k = ∑ k ∈ range m, ent n f i k * rd s k := by
          apply Finset.sum_congr rfl
          intro k hk
          rw [hsame k (by have := Finset.mem_range.mp hk; omega)]
        rw [this]
        ring
      · rw [he' i hi, if_neg hmi, hs i hi]
        have h1 : min i m = i := by omega
        have h2 : min i (m + 1) = i := by omega
        rw [h1, h2]
        congr 1
        apply Finset.sum_congr rfl
        intro k hk
        rw [hsame k (by have := Finset.mem_range.mp hk; omega)])
  obtain ⟨h1, h2⟩ := key
  refine ⟨h1, fun i hi => ?_⟩
  have := h2 i hi
  rwa [show min i n = i by omega] at this

/-- inner loop of the back substitution for column `k` -/
theorem bwdInner_spec (n k : Nat) (f x : List α) (hx : x.length = n) (hk : k < n) :
    ((List.range k).foldl (fun x i => x.set i (rd x i - rd x k * rd f (i * n + k))) x).length = n ∧
    ∀ i, i < n → rd ((List.range k).foldl
      (fun x i => x.set i (rd x i - rd x k * rd f (i * n + k))) x) i =
        if i < k then rd x i - rd x k * ent n f i k else rd x i := by
  have key := foldl_range_ind
    (fun m (s : List α) => s.length = n ∧ ∀ i, i < n → rd s i =
      if i < m then rd x i - rd x k * ent n f i k else rd x i)
    (fun x i => x.set i (rd x i - rd x k * rd f (i * n + k))) x k
    ⟨hx, fun i _ => by rw [if_neg (by omega)]⟩
    (by
      intro m s hm ⟨hl, hs⟩
      refine ⟨by simpa using hl, ?_⟩
      intro i hi
      have hv : rd s m - rd s k * rd f (m * n + k) = rd x m - rd x k * ent n f m k := by
        rw [hs m (by omega), hs k hk, if_neg (by omega), if_neg (by omega), ent_def]
      rw [rd_set_vec _ _ _ _ (by omega), hv]
      by_cases h1 : i = m
      · subst h1; rw [if_pos rfl, if_pos (by omega)]
      · rw [if_neg h1, hs i hi]
        by_cases h2 : i < m
        · rw [if_pos h2, if_pos (by omega)]
        · rw [if_neg h2, if_neg (by omega)])
  exact key

/-- **back substitution**: `z = luBwd n f y` solves `U·z = y` for the upper triangle of `f`, provided
the diagonal of `f` has no zero. -/
theorem luBwd_spec (n : Nat) (f y : List α) (hy : y.length = n)
    (hd : ∀ k, k < n → ent n f k k ≠ 0) :
    (luBwd n f y).length = n ∧
    ∀ i, i < n → ent n f i i * rd (luBwd n f y) i +
      ∑ k ∈ Ico (i + 1) n, ent n f i k * rd (luBwd n f y) k = rd y i := by
  unfold luBwd
  have key := foldl_range_rev_ind
    (fun m (s : List α) => s.length = n ∧
      (∀ i, i < m → rd s i = rd y i - ∑ k ∈ Ico m n, ent n f i k * rd s k) ∧
      (∀ i, m ≤ i → i < n → ent n f i i * rd s i + ∑ k ∈ Ico (i + 1) n, ent n f i k * rd s k = rd y i))
    (fun x k =>
      let x := x.set k (rd x k / rd f (k * n + k))
      (List.range k).foldl (fun x i => x.set i (rd x i - rd x k * rd f (i * n + k))) x) y n
    ⟨hy, fun i _ => by simp, fun i h1 h2 => by omega⟩
    (by
      intro m s hm ⟨hl, hlow, hhigh⟩
      dsimp only
      set s1 := s.set m (rd s m / rd f (m * n + m)) with hs1
      have hl1 : s1.length = n := by simpa [hs1] using hl
      obtain ⟨hl', he'⟩ := bwdInner_spec n m f s1 hl1 hm
      set s' := (List.range m).foldl (fun x i => x.set i (rd x i - rd x m * rd f (i * n + m))) s1 with hs'
      have hs1m : rd s1 m = rd s m / ent n f m m := by
        rw [hs1, rd_set_vec _ _ _ _ (by omega), if_pos rfl, ent_def]
      have hs1o : ∀ i, i ≠ m → rd s1 i = rd s i := by
        intro i hi
        rw [hs1, rd_set_vec _ _ _ _ (by omega), if_neg hi]
      have hm' : rd s' m = rd s m / ent n f m m := by
        rw [he' m hm, if_neg (by omega), hs1m]
      have hgt : ∀ k, m < k → k < n → rd s' k = rd s k := by
        intro k h1 h2
        rw [he' k h2, if_neg (by omega), hs1o k (by omega)]
      have hsumgt : ∀ i, ∑ k ∈ Ico (m + 1) n, ent n f i k * rd s' k =
          ∑ k ∈ Ico (m + 1) n, ent n f i k * rd s k := by
        intro i
        apply Finset.sum_congr rfl
        intro k hk
        have := Finset.mem_Ico.mp hk
        rw [hgt k (by omega) (by omega)]
      have hmm := hlow m (Nat.lt_succ_self m)
      refine ⟨hl', ?_, ?_⟩
      · intro i hi
        rw [Finset.sum_eq_sum_Ico_succ_bot hm, hsumgt, hm', he' i (by omega), if_pos hi,
          hs1o i (by omega), hs1m, hlow i (by omega)]
        ring
      · intro i h1 h2
        by_cases him : i = m
        · subst him
          rw [hsumgt, hm', hmm]
          have := hd i hm
          field_simp
          ring
        · have : ∑ k ∈ Ico (i + 1) n, ent n f i k * rd s' k =
              ∑ k ∈ Ico (i + 1) n, ent n f i k * rd s k := by
            apply Finset.sum_congr rfl
            intro k hk
            have := Finset.mem_Ico.mp hk
            rw [hgt k (by omega) (by omega)]
          rw [this, hgt i (by omega) h2]
          exact hhigh i (by omega) h2)
  obtain ⟨h1, -, h3⟩ := key
  exact ⟨h1, fun i hi => h3 i (Nat.zero_le i) hi⟩

variable [BEq α] [LawfulBEq α] [LT α] [DecidableLT α] [Transc α]

/-- `L·y` over the full index range -/
theorem lower_full (n : Nat) (f : List α) (y x : Nat → α) (i : Nat) (hi : i < n)
    (h : y i = x i - ∑ k ∈ range i, ent n f i k * y k) :
    ∑ k ∈ range n, Lent n f i k * y k = x i := by
  have hsub : ∑ k ∈ range n, Lent n f i k * y k = ∑ k ∈ range (i + 1), Lent n f i k * y k := by
    symm
    apply Finset.sum_subset (Finset.range_subset_range.mpr (by omega))
    intro k hk hk'
    have h2 : ¬ k < i + 1 := fun e => hk' (Finset.mem_range.mpr e)
    have h3 : ¬ k < i := by omega
    have h4 : ¬ k = i := by omega
    simp [Lent, h3, h4]
  have hlow : ∑ k ∈ range i, Lent n f i k * y k = ∑ k ∈ range i, ent n f i k * y k := by
    apply Finset.sum_congr rfl
    intro k hk
    have hk' := Finset.mem_range.mp hk
    simp [Lent, hk']
  rw [hsub, Finset.sum_range_succ, hlow, h]
  simp [Lent]

/-- `U·z` over the full index range -/
theorem upper_full (n : Nat) (f : List α) (z : Nat → α) (yi : α) (i : Nat) (hi : i < n)
    (h : ent n f i i * z i + ∑ k ∈ Ico (i + 1) n, ent n f i k * z k = yi) :
    ∑ k ∈ range n, Uent n f i k * z k = yi := by
  rw [← Finset.sum_range_add_sum_Ico _ (Nat.le_of_lt hi), Finset.sum_eq_sum_Ico_succ_bot hi]
  have h0 : ∑ k ∈ range i, Uent n f i k * z k = 0 := by
    apply Finset.sum_eq_zero
    intro k hk
    have hk' := Finset.mem_range.mp hk
    have : ¬ i ≤ k := by omega
    simp [Uent, this]
  have h1 : ∑ k ∈ Ico (i + 1) n, Uent n f i k * z k = ∑ k ∈ Ico (i + 1) n, ent n f i k * z k := by
    apply Finset.sum_congr rfl
    intro k hk
    have := Finset.mem_Ico.mp hk
    have h2 : i ≤ k := by omega
    simp [Uent, h2]
  rw [h0, h1, zero_add, ← h]
  simp [Uent]

end solve
end Cv.LA.Lu
