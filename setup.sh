#!/bin/sh
# Build the framework from files on disk only (offline): Lean library + model drivers, Rust executor.
set -e
cd "$(dirname "$0")"
export CARGO_NET_OFFLINE=true
mkdir -p out evidence
(cd lean && lake build)
(cd exec && cargo build --offline)
