"""Shared machinery of /verif/check: PRNG, float codecs, running both executors, comparison,
known-findings, verdict and evidence.  Python 3 standard library only (oracles may import
mpmath/scipy/numpy from the tooling venv; `check` re-executes itself under python3-vt)."""
import json
import os
import struct
import subprocess
import sys
import time
import hashlib
import re
from fractions import Fraction

VERIF = os.path.dirname(os.path.dirname(os.path.dirname(os.path.abspath(__file__))))
LEAN = os.path.join(VERIF, "lean")
EXEC = os.path.join(VERIF, "exec")
OUT = os.path.join(VERIF, "out")
EVID = os.path.join(VERIF, "evidence")
REPO = os.environ.get("CV_REPO", "/repo")   # CV_REPO: run the same machinery against a scratch worktree (seed testing)
ALT = REPO != "/repo"
ALLOWED_AXIOMS = {"propext", "Classical.choice", "Quot.sound"}
FORBIDDEN_RE = re.compile(
    r"\b(sorry|admit|native_decide|bv_decide|implemented_by)\b|^\s*axiom\s|\bunsafe\s|maxHeartbeats\s+0\b"
    r"|@\[[^\]]*\bextern\b|@\[[^\]]*\bcsimp\b|\battribute\s*\[[^\]]*\b(?:extern|csimp|implemented_by)\b"
    r"|^\s*(?:private\s+|protected\s+|noncomputable\s+)*opaque\s|\bpartial\s+def\b",
    re.M,
)
# The only foreign bindings the models may contain: three libm functions at `Float` that Lean's core does not expose, declared
# `opaque` (no Lean body, so no theorem can unfold them; they exist only in the Float drivers).  Drivers (Compute/Drv/*) are
# executables, not theorem inputs, and may use `partial def`.
FORBIDDEN_ALLOW = {
    ("Compute/Model/Scalar.lean", '@[extern "log1p"] opaque log1pF : Float → Float'),
    ("Compute/Model/Scalar.lean", '@[extern "expm1"] opaque expm1F : Float → Float'),
    ("Compute/Model/VopsScalar.lean", '@[extern "hypot"] opaque hypotF : Float → Float → Float'),
}

MASK = (1 << 64) - 1


class Rng:
    """splitmix64; every random choice of a run derives from VERIF_SEED through this."""

    def __init__(self, seed):
        self.s = seed & MASK

    def u64(self):
        self.s = (self.s + 0x9E3779B97F4A7C15) & MASK
        z = self.s
        z = ((z ^ (z >> 30)) * 0xBF58476D1CE4E5B9) & MASK
        z = ((z ^ (z >> 27)) * 0x94D049BB133111EB) & MASK
        return z ^ (z >> 31)

    def fork(self, tag):
        h = hashlib.sha256(("%d/%s" % (self.s, tag)).encode()).digest()
        return Rng(int.from_bytes(h[:8], "little"))

    def random(self):
        return (self.u64() >> 11) * (1.0 / (1 << 53))

    def uniform(self, a, b):
        return a + (b - a) * self.random()

    def randint(self, a, b):
        """inclusive"""
        return a + self.u64() % (b - a + 1)

    def choice(self, xs):
        return xs[self.u64() % len(xs)]

    def chance(self, p):
        return self.random() < p

    def normal(self):
        import math

        u1 = max(self.random(), 1e-300)
        u2 = self.random()
        return math.sqrt(-2 * math.log(u1)) * math.cos(2 * math.pi * u2)

    def loguniform(self, a, b):
        import math

        return math.exp(self.uniform(math.log(a), math.log(b)))

    def shuffle(self, xs):
        for i in range(len(xs) - 1, 0, -1):
            j = self.u64() % (i + 1)
            xs[i], xs[j] = xs[j], xs[i]
        return xs


def f2h(x):
    x = float(x)
    if x != x:
        return "nan"
    return "%016x" % struct.unpack("<Q", struct.pack("<d", x))[0]


def h2f(s):
    if s == "nan":
        return float("nan")
    return struct.unpack("<d", struct.pack("<Q", int(s, 16)))[0]


def fs(xs):
    return " ".join(f2h(x) for x in xs)


def vec(xs):
    xs = list(xs)
    return "0" if not xs else "%d %s" % (len(xs), fs(xs))


def frac(x):
    return Fraction(float(x))


def ulp(x):
    import math

    return math.ulp(x)


def parse_reply(line):
    """-> ('ok', [tokens]) | ('panic', []) | ('diverged', []) | ('bad', []) | ('skip', [])"""
    line = line.strip()
    if line.startswith("="):
        return ("ok", line[1:].split())
    if line.startswith("! panic"):
        return ("panic", [])
    if line.startswith("! diverged"):
        return ("diverged", [])
    if line.startswith("#"):
        return ("skip", [])
    return ("bad", [line])


def floats(tokens):
    return [h2f(t) for t in tokens]


def sh(cmd, cwd=None, timeout=None, env=None):
    e = dict(os.environ)
    e["CARGO_NET_OFFLINE"] = "true"
    if env:
        e.update(env)
    p = subprocess.run(cmd, cwd=cwd, shell=isinstance(cmd, str), stdout=subprocess.PIPE,
                       stderr=subprocess.STDOUT, timeout=timeout, env=e)
    return p.returncode, p.stdout.decode("utf-8", "replace")


class SourceDrift(Exception):
    """Raised by a translator when the source no longer has the textual shape it expects for a part that is ONLY a
    convenience tie (line-presence / body-shape checks, a function that left the subset of tools/rs2lean.py), while
    everything it could still regenerate is passed along in `files`.  The runner regenerates those files, records the
    message as a note in the evidence (`source_tie_notes`) and relies on the bit-exact correspondence for the part
    that could not be re-translated; it is NOT by itself a proof alarm (no proof obligation failed to check)."""

    def __init__(self, msg, files=None):
        super().__init__(msg)
        self.files = files or {}


class Failure:
    """An oracle failure: the property predicate is false on an implementation output."""

    def __init__(self, idx, key, msg, expected=None):
        self.idx = idx      # index of the request line (or None)
        self.key = key      # stable key (matched against known_findings.txt)
        self.msg = msg
        self.expected = expected

    def to_json(self):
        return {"line_index": self.idx, "key": self.key, "message": self.msg, "expected": self.expected}


def load_known(pid):
    """known_findings.txt: `finding: property=<id> key=<key> <text>` / `fixed: property=<id> <commit> <text>`"""
    path = os.path.join(VERIF, "known_findings.txt")
    open_f = {}
    if os.path.exists(path):
        for line in open(path):
            line = line.strip()
            m = re.match(r"finding:\s+property=(\S+)\s+key=(\S+)\s+(.*)", line)
            if m and m.group(1) == pid:
                open_f[m.group(2)] = m.group(3)
    return open_f
