import Compute.Lemmas.LuCorrect
/-
Scalar-generic structure of `lu_solve` (model `Cv.LA.luSolve`): closed-form, per-entry fold
expressions for the in-place column-oriented triangular solves `luFwd`, `luBwd`, and for
`luPermute`, `luSolve`.  Only the operation type classes `[Zero α] [Sub α] [Mul α] [Div α]` are
assumed: no algebraic law is used, the loops are merely unfolded (order and association of the
operations are exactly those of the model).  Intended for rounding-error analyses in scalar types
that are not fields.
-/
set_option linter.unusedSectionVars false
set_option linter.unusedVariables false
namespace Cv.LA.LuS
open Cv.LA Cv.LA.Lu

variable {α : Type} [Zero α] [Sub α] [Mul α] [Div α]

/-- induction over folds of `(List.range n).reverse` (indexed by the number of remaining elements) -/
theorem foldl_rangeRev_ind {σ : Type} (P : Nat → σ → Prop) (f : σ → Nat → σ) (s0 : σ) (n : Nat)
    (h0 : P n s0) (hs : ∀ m s, m < n → P (m + 1) s → P m (f s m)) :
    P 0 ((List.range n).reverse.foldl f s0) := by
  have : ∀ m, m ≤ n → ∀ s, P m s → P 0 ((List.range m).reverse.foldl f s) := by
    intro m
    induction m with
    | zero => intro _ s hs0; simpa using hs0
    | succ m ih =>
      intro hm s hP
      rw [List.range_succ, List.reverse_append, List.reverse_singleton, List.singleton_append,
        List.foldl_cons]
      exact ih (by omega) _ (hs m s (by omega) hP)
  exact this n (Nat.le_refl n) s0 h0

/-- congruence of the update fold in the multiplier `f` (pointwise on the list) -/
theorem foldl_sub_congr (l : List Nat) (f f' g : Nat → α) (a : α) (h : ∀ k, k ∈ l → f k = f' k) :
    l.foldl (fun y k => y - f k * g k) a = l.foldl (fun y k => y - f' k * g k) a := by
  induction l generalizing a with
  | nil => rfl
  | cons k l ih =>
    rw [List.foldl_cons, List.foldl_cons, h k (List.mem_cons_self ..)]
    exact ih _ (fun j hj => h j (List.mem_cons_of_mem _ hj))

/-- congruence of the update fold over `List.range r` -/
theorem foldl_sub_congr_range (r : Nat) (f f' g : Nat → α) (a : α) (h : ∀ k, k < r → f k = f' k) :
    (List.range r).foldl (fun y k => y - f k * g k) a =
      (List.range r).foldl (fun y k => y - f' k * g k) a :=
  foldl_sub_congr _ f f' g a (fun k hk => h k (List.mem_range.mp hk))

/-- inner loop of the forward elimination for column `k` -/
theorem fwdInner_spec (n k : Nat) (f x : List α) (hx : x.length = n) (hk : k < n) :
    ((List.range' (k + 1) (n - (k + 1))).foldl
      (fun x i => x.set i (rd x i - rd x k * rd f (i * n + k))) x).length = n ∧
    ∀ i, i < n → rd ((List.range' (k + 1) (n - (k + 1))).foldl
      (fun x i => x.set i (rd x i - rd x k * rd f (i * n + k))) x) i =
        if k < i then rd x i - rd x k * ent n f i k else rd x i := by
  have key := foldl_range'_ind
    (fun m (s : List α) => s.length = n ∧ ∀ i, i < n → rd s i =
      if k < i ∧ i < k + 1 + m then rd x i - rd x k * ent n f i k else rd x i)
    (fun x i => x.set i (rd x i - rd x k * rd f (i * n + k))) x (k + 1) (n - (k + 1))
    ⟨hx, fun i _ => by rw [if_neg (by omega)]⟩
    (by
      intro m s hm ⟨hl, hs⟩
      refine ⟨by simpa using hl, ?_⟩
      intro i hi
      have hv : rd s (k + 1 + m) - rd s k * rd f ((k + 1 + m) * n + k) =
          rd x (k + 1 + m) - rd x k * ent n f (k + 1 + m) k := by
        rw [hs (k + 1 + m) (by omega), hs k hk, if_neg (by omega), if_neg (by omega), ent_def]
      rw [rd_set _ _ _ _ (by omega), hv]
      by_cases h1 : i = k + 1 + m
      · subst h1; rw [if_pos rfl, if_pos ⟨by omega, by omega⟩]
      · rw [if_neg h1, hs i hi]
        by_cases h2 : k < i ∧ i < k + 1 + m
        · rw [if_pos h2, if_pos ⟨h2.1, by omega⟩]
        · rw [if_neg h2, if_neg (fun h => h2 ⟨h.1, by omega⟩)])
  obtain ⟨h1, h2⟩ := key
  refine ⟨h1, fun i hi => ?_⟩
  rw [h2 i hi]
  by_cases h3 : k < i
  · rw [if_pos ⟨h3, by omega⟩, if_pos h3]
  · rw [if_neg (fun h => h3 h.1), if_neg h3]

/-- forward elimination (unit lower triangular, column oriented): entry i receives the updates
`y ← y - x[k]*lu[i,k]` for k = 0,1,…,i-1 in this order, where x[k] is the FINAL value of entry k -/
theorem luFwd_spec (n : Nat) (lu x : List α) (hx : x.length = n) :
    (luFwd n lu x).length = n ∧ ∀ i, i < n →
      rd (luFwd n lu x) i =
        (List.range i).foldl (fun y k => y - rd (luFwd n lu x) k * ent n lu i k) (rd x i) := by
  unfold luFwd
  have key := foldl_range_ind
    (fun m (s : List α) => s.length = n ∧ ∀ i, i < n →
      rd s i = (List.range (min i m)).foldl (fun y k => y - rd s k * ent n lu i k) (rd x i))
    (fun x k => (List.range' (k + 1) (n - (k + 1))).foldl
      (fun x i => x.set i (rd x i - rd x k * rd lu (i * n + k))) x) x n
    ⟨hx, fun i _ => by simp⟩
    (by
      intro m s hm ⟨hl, hs⟩
      obtain ⟨hl', he'⟩ := fwdInner_spec n m lu s hl hm
      refine ⟨hl', ?_⟩
      intro i hi
      generalize hs' : (List.range' (m + 1) (n - (m + 1))).foldl
        (fun x i => x.set i (rd x i - rd x m * rd lu (i * n + m))) s = s' at hl' he' ⊢
      have hsame : ∀ k, k ≤ m → rd s' k = rd s k := by
        intro k hk
        rw [he' k (by omega), if_neg (by omega)]
      by_cases hmi : m < i
      · rw [he' i hi, if_pos hmi, hs i hi]
        have h1 : min i m = m := by omega
        have h2 : min i (m + 1) = m + 1 := by omega
        rw [h1, h2, List.range_succ, List.foldl_append, List.foldl_cons, List.foldl_nil,
          hsame m (Nat.le_refl m)]
        rw [foldl_sub_congr_range m (fun k => rd s' k) (fun k => rd s k) (fun k => ent n lu i k)
          (rd x i) (fun k hk => hsame k (by omega))]
      · rw [he' i hi, if_neg hmi, hs i hi]
        have h1 : min i m = i := by omega
        have h2 : min i (m + 1) = i := by omega
        rw [h1, h2]
        rw [foldl_sub_congr_range i (fun k => rd s' k) (fun k => rd s k) (fun k => ent n lu i k)
          (rd x i) (fun k hk => hsame k (by omega))])
  obtain ⟨h1, h2⟩ := key
  refine ⟨h1, fun i hi => ?_⟩
  have := h2 i hi
  rwa [show min i n = i by omega] at this

/-- inner loop of the back substitution for column `k` -/
theorem bwdInner_spec (n k : Nat) (f x : List α) (hx : x.length = n) (hk : k < n) :
    ((List.range k).foldl (fun x i => x.set i (rd x i - rd x k * rd f (i * n + k))) x).length = n ∧
    ∀ i, i < n → rd ((List.range k).foldl
      (fun x i => x.set i (rd x i - rd x k * rd f (i * n + k))) x) i =
        if i < k then rd x i - rd x k * ent n f i k else rd x i := by
  have key := foldl_range_ind
    (fun m (s : List α) => s.length = n ∧ ∀ i, i < n → rd s i =
      if i < m then rd x i - rd x k * ent n f i k else rd x i)
    (fun x i => x.set i (rd x i - rd x k * rd f (i * n + k))) x k
    ⟨hx, fun i _ => by rw [if_neg (by omega)]⟩
    (by
      intro m s hm ⟨hl, hs⟩
      refine ⟨by simpa using hl, ?_⟩
      intro i hi
      have hv : rd s m - rd s k * rd f (m * n + k) = rd x m - rd x k * ent n f m k := by
        rw [hs m (by omega), hs k hk, if_neg (by omega), if_neg (by omega), ent_def]
      rw [rd_set _ _ _ _ (by omega), hv]
      by_cases h1 : i = m
      · subst h1; rw [if_pos rfl, if_pos (by omega)]
      · rw [if_neg h1, hs i hi]
        by_cases h2 : i < m
        · rw [if_pos h2, if_pos (by omega)]
        · rw [if_neg h2, if_neg (by omega)])
  exact key

/-- back substitution (column oriented): entry i receives the updates `y ← y - x[k]*lu[i,k]` for
k = n-1, n-2, …, i+1 in this order (x[k] final values), and is then divided by lu[i,i] -/
theorem luBwd_spec (n : Nat) (lu x : List α) (hx : x.length = n) :
    (luBwd n lu x).length = n ∧ ∀ i, i < n →
      rd (luBwd n lu x) i =
        ((List.range' (i + 1) (n - (i + 1))).reverse.foldl
          (fun y k => y - rd (luBwd n lu x) k * ent n lu i k) (rd x i)) / ent n lu i i := by
  unfold luBwd
  have key := foldl_rangeRev_ind
    (fun m (s : List α) => s.length = n ∧
      (∀ i, i < m → rd s i = (List.range' m (n - m)).reverse.foldl
        (fun y k => y - rd s k * ent n lu i k) (rd x i)) ∧
      (∀ i, m ≤ i → i < n → rd s i = ((List.range' (i + 1) (n - (i + 1))).reverse.foldl
        (fun y k => y - rd s k * ent n lu i k) (rd x i)) / ent n lu i i))
    (fun x k =>
      let x := x.set k (rd x k / rd lu (k * n + k))
      (List.range k).foldl (fun x i => x.set i (rd x i - rd x k * rd lu (i * n + k))) x) x n
    ⟨hx, fun i _ => by simp, fun i h1 h2 => by omega⟩
    (by
      intro m s hm ⟨hl, hlow, hhigh⟩
      dsimp only
      generalize hs1 : s.set m (rd s m / rd lu (m * n + m)) = s1
      have hl1 : s1.length = n := by simpa [← hs1] using hl
      obtain ⟨hl', he'⟩ := bwdInner_spec n m lu s1 hl1 hm
      generalize hs' : (List.range m).foldl
        (fun x i => x.set i (rd x i - rd x m * rd lu (i * n + m))) s1 = s' at hl' he' ⊢
      have hs1m : rd s1 m = rd s m / ent n lu m m := by
        rw [← hs1, rd_set _ _ _ _ (by omega), if_pos rfl, ent_def]
      have hs1o : ∀ i, i ≠ m → rd s1 i = rd s i := by
        intro i hi
        rw [← hs1, rd_set _ _ _ _ (by omega), if_neg hi]
      have hm' : rd s' m = rd s m / ent n lu m m := by
        rw [he' m hm, if_neg (by omega), hs1m]
      have hgt : ∀ k, m < k → k < n → rd s' k = rd s k := by
        intro k h1 h2
        rw [he' k h2, if_neg (by omega), hs1o k (by omega)]
      -- the fold over columns `≥ j+1 > m` does not see the difference between `s'` and `s`
      have hcongr : ∀ (i j : Nat) (a : α), m ≤ j →
          (List.range' (j + 1) (n - (j + 1))).reverse.foldl
            (fun y k => y - rd s' k * ent n lu i k) a =
          (List.range' (j + 1) (n - (j + 1))).reverse.foldl
            (fun y k => y - rd s k * ent n lu i k) a := by
        intro i j a hj
        apply foldl_sub_congr _ (fun k => rd s' k) (fun k => rd s k) (fun k => ent n lu i k)
        intro k hk
        rw [List.mem_reverse, List.mem_range'_1] at hk
        exact hgt k (by omega) (by omega)
      have hmm := hlow m (Nat.lt_succ_self m)
      refine ⟨hl', ?_, ?_⟩
      · intro i hi
        rw [show n - m = (n - (m + 1)) + 1 by omega, List.range'_succ, List.reverse_cons,
          List.foldl_append, List.foldl_cons, List.foldl_nil, hcongr i m _ (Nat.le_refl m),
          ← hlow i (by omega), he' i (by omega), if_pos hi, hs1o i (by omega), hm', hs1m]
      · intro i h1 h2
        by_cases him : i = m
        · subst him
          rw [hcongr i i _ (Nat.le_refl i), hm', hmm]
        · rw [hcongr i i _ h1, hgt i (by omega) h2]
          exact hhigh i (by omega) h2)
  obtain ⟨h1, -, h3⟩ := key
  exact ⟨h1, fun i hi => h3 i (Nat.zero_le i) hi⟩

/-- the permutation step: a successful `luPermute` gathers `b` through the pivot vector -/
theorem luPermute_spec (piv : List Nat) (b x : List α) (n : Nat) (hp : piv.length = n) (hb : b.length = n)
    (h : luPermute piv b = some x) : x.length = n ∧ ∀ i, i < n → rd x i = rd b (piv.getD i 0) := by
  unfold luPermute at h
  simp only [hp, hb, Nat.lt_irrefl, if_false, Nat.sub_self, List.replicate_zero,
    List.append_nil] at h
  split at h
  · exact absurd h (by simp)
  · have hx : x = piv.map (rd b) := by
      injection h with h; exact h.symm
    subst hx
    refine ⟨by simpa using hp, ?_⟩
    intro i hi
    have hi' : i < piv.length := by omega
    simp [rd, List.getD_eq_getElem?_getD, List.getElem?_eq_getElem hi', List.getElem?_map]

/-- `luSolve` = shape guard, permutation, forward elimination, back substitution -/
theorem luSolve_spec (f : List α) (piv : List Nat) (b x : List α) (n : Nat) (hp : piv.length = n)
    (hb : b.length = n) (h : luSolve f piv b = some x) :
    f.length = n * n ∧ ∃ x0 : List α, x0.length = n ∧ (∀ i, i < n → rd x0 i = rd b (piv.getD i 0)) ∧
      x = luBwd n f (luFwd n f x0) := by
  unfold luSolve at h
  simp only [hb] at h
  by_cases hf : f.length = n * n
  · rw [if_neg (by simpa using hf)] at h
    cases hx0 : luPermute piv b with
    | none => rw [hx0] at h; exact absurd h (by simp)
    | some x0 =>
      rw [hx0] at h
      obtain ⟨hl, he⟩ := luPermute_spec piv b x0 n hp hb hx0
      refine ⟨hf, x0, hl, he, ?_⟩
      have : some (luBwd n f (luFwd n f x0)) = some x := h
      injection this with this
      exact this.symm
  · rw [if_pos (by simpa using hf)] at h
    exact absurd h (by simp)

/-- non-vacuity, in a scalar type that is not a field (`Int`, truncating division): the hypothesis
of `luSolve_spec` is satisfiable on a 3 × 3 system with a non-trivial pivot vector -/
example : luSolve ([2, 1, 1, 3, 2, 1, 1, 2, 4] : List Int) [1, 2, 0] [7, 5, 9] = some [3, -5, 3] := by
  decide +kernel

example : ∃ x0 : List Int, x0.length = 3 ∧ (∀ i, i < 3 → rd x0 i = rd [7, 5, 9] ([1, 2, 0].getD i 0)) ∧
    ([3, -5, 3] : List Int) = luBwd 3 [2, 1, 1, 3, 2, 1, 1, 2, 4] (luFwd 3 [2, 1, 1, 3, 2, 1, 1, 2, 4] x0) :=
  (luSolve_spec [2, 1, 1, 3, 2, 1, 1, 2, 4] [1, 2, 0] [7, 5, 9] [3, -5, 3] 3 rfl rfl
    (by decide +kernel)).2

end Cv.LA.LuS
