import Compute.Props.C11LuDet
import Compute.Props.C11Parity
import Compute.Props.C01Solve
import Compute.Props.C01Review
import Mathlib.LinearAlgebra.Matrix.Determinant.Basic
/-
C11 (review round)

* `matrix_det_eq_det`: `Matrix::det m = det A` (Mathlib's determinant of the stored matrix), for every
  well-formed square matrix over an ordered field — the link `det(P·A) = sign(π)·det A` through
  `PAmat = submatrix (permOfList piv) id` and `Matrix.det_permute'`.
* `posDef_of_cholFactor`: a lower-triangular `L` with positive diagonal and `L·Lᵀ = A` makes `A` positive
  definite; `cholesky_rejects_not_posDef`: an exactly symmetric matrix that is NOT positive definite is
  rejected (`cholesky a = none`, `Matrix::cholesky = none`), for every order, over any ordered field whose
  `sqrt` is positive and exact on positives (e.g. `ℝ`).
-/
set_option linter.unusedSectionVars false
namespace Cv.C11Review
open Cv Cv.LA Cv.LA.Lu Cv.C11 Cv.C11Lu Finset Equiv

section det
variable {F : Type} [Field F] [LinearOrder F] [IsStrictOrderedRing F] [Transc F] [BEq F] [LawfulBEq F]

/-- the row-permuted input of `lu` is the stored matrix with its rows re-indexed by the pivot permutation -/
theorem PAmat_eq_submatrix (n : Nat) (a : List F) (p : List Nat) (hp : p.Perm (List.range n)) :
    PAmat n a p = (toMatrix n a).submatrix (permOfList p n hp) id := by
  ext i j
  simp only [PAmat, Matrix.of_apply, Matrix.submatrix_apply, toMatrix, id]
  have hl := (perm_range_get_lt hp i).1
  have : p.getD i.1 0 = ((permOfList p n hp i : Fin n) : ℕ) := by
    rw [permOfList_apply]
    simp [List.getD_eq_getElem?_getD, List.getElem?_eq_getElem hl]
  rw [this]

theorem det_PAmat_eq (n : Nat) (a : List F) (p : List Nat) (hp : p.Perm (List.range n)) :
    (PAmat n a p).det = (((Perm.sign (permOfList p n hp) : ℤˣ) : ℤ) : F) * (toMatrix n a).det := by
  rw [PAmat_eq_submatrix n a p hp, Matrix.det_permute]

/-- **`Matrix::det` is the determinant.**  For every well-formed square matrix over an ordered field
(singular ones included) `Matrix::det` returns Mathlib's `Matrix.det` of the stored matrix. -/
theorem matrix_det_eq_det (habs : ∀ x : F, Transc.abs x = |x|) (m : Mat F) (hw : m.WF)
    (hsq : m.nrows = m.ncols) : M.det m = some (toMatrix m.ncols m.data).det := by
  obtain ⟨data, r, c⟩ := m
  simp only at hsq
  subst hsq
  obtain ⟨fd, piv, hlu, h2⟩ := C01Review.matrix_lu_some (⟨data, r, r⟩ : Mat F) hw rfl
  obtain ⟨hp, hdet⟩ := det_sign_correct_field (⟨data, r, r⟩ : Mat F) _ piv h2
  rw [hdet]
  have hml : data.length = r * r := hw
  have hprod : M.prod (M.diag (⟨fd, r, r⟩ : Mat F)) = (PAmat r data piv).det := by
    rw [lu_det habs r data fd piv hml hlu]
    simp only [M.diag, Nat.min_self]
    rw [prod_foldl_eq (fun i => rd fd (i * r + i)) r, Finset.prod_range (fun i => rd fd (i * r + i))]
  simp only at hp
  rw [hprod, det_PAmat_eq r data piv hp]
  congr 1
  rcases Int.units_eq_one_or (Perm.sign (permOfList piv r hp)) with h1 | h1 <;> simp [h1]

/-- the same statement for `lu` followed by `lu_det` (the other public route) -/
theorem matrix_lu_det_eq_det (habs : ∀ x : F, Transc.abs x = |x|) (m f : Mat F) (piv : List Nat) (hw : m.WF)
    (hsq : m.nrows = m.ncols) (h : M.lu m = some (f, piv)) :
    M.luDet f (piv.map Int.ofNat) = some (toMatrix m.ncols m.data).det := by
  have hfsq : f.nrows = f.ncols := by
    unfold M.lu at h; split at h
    · cases h
    · simp only [Option.some.injEq, Prod.mk.injEq] at h; rw [← h.1]; exact hsq
  rw [← matrix_det_eq_det habs m hw hsq, C11.det_spec, h, C11.lu_det_spec f _ hfsq]
  rfl

example : M.det (⟨exA, 3, 3⟩ : Mat ℚ) = some (toMatrix 3 exA).det :=
  matrix_det_eq_det abs_rat ⟨exA, 3, 3⟩ (by decide) rfl

/-- hence the determinant of the 3×3 example matrix (one row swap cycle, `det = −3`) -/
example : (toMatrix 3 exA).det = -3 := by
  have h := matrix_det_eq_det abs_rat (⟨exA, 3, 3⟩ : Mat ℚ) (by decide) rfl
  have h2 : M.det (⟨exA, 3, 3⟩ : Mat ℚ) = some (-3) := by decide +kernel
  rw [h2] at h
  exact (Option.some.inj h).symm

/-- the `lu` + `lu_det` route on the same matrix -/
example : M.luDet (⟨exF, 3, 3⟩ : Mat ℚ) (exP.map Int.ofNat) = some (toMatrix 3 exA).det :=
  matrix_lu_det_eq_det abs_rat ⟨exA, 3, 3⟩ ⟨exF, 3, 3⟩ exP (by decide) rfl ex_matrix_lu

end det

section chol
variable {F : Type} [Field F] [LinearOrder F] [IsStrictOrderedRing F] [Transc F] [BEq F] [LawfulBEq F]

/-- A lower-triangular `L` with positive diagonal and `L·Lᵀ = A` makes `A` positive definite:
`vᵀAv = ‖Lᵀv‖²`, and `Lᵀv = 0` forces `v = 0` by back substitution. -/
theorem posDef_of_cholFactor (n : Nat) (a l : List F)
    (hlow : ∀ r c, r < n → c < n → r < c → rd l (r * n + c) = 0)
    (hdiag : ∀ r, r < n → 0 < rd l (r * n + r))
    (hprod : ∀ i j, i < n → j < n → ∑ k ∈ range n, rd l (i * n + k) * rd l (j * n + k) = rd a (i * n + j)) :
    PosDefFlat n a := by
  intro v hv
  set w : Nat → F := fun k => ∑ p ∈ range n, v p * rd l (p * n + k) with hw
  have hQ : ∑ p ∈ range n, ∑ q ∈ range n, v p * rd a (p * n + q) * v q = ∑ k ∈ range n, w k * w k := by
    calc ∑ p ∈ range n, ∑ q ∈ range n, v p * rd a (p * n + q) * v q
        = ∑ p ∈ range n, ∑ q ∈ range n, ∑ k ∈ range n, (v p * rd l (p * n + k)) * (v q * rd l (q * n + k)) := by
          apply Finset.sum_congr rfl; intro p hp
          apply Finset.sum_congr rfl; intro q hq
          rw [← hprod p q (Finset.mem_range.mp hp) (Finset.mem_range.mp hq), Finset.mul_sum, Finset.sum_mul]
          apply Finset.sum_congr rfl; intro k _; ring
      _ = ∑ k ∈ range n, ∑ p ∈ range n, ∑ q ∈ range n, (v p * rd l (p * n + k)) * (v q * rd l (q * n + k)) := by
          rw [Finset.sum_congr rfl (fun p _ => Finset.sum_comm)]
          exact Finset.sum_comm
      _ = ∑ k ∈ range n, w k * w k := by
          apply Finset.sum_congr rfl; intro k _
          rw [hw]; simp only; rw [Finset.sum_mul_sum]
  rw [hQ]
  by_contra hneg
  have hnn : ∀ k ∈ range n, 0 ≤ w k * w k := fun k _ => mul_self_nonneg _
  have hz : ∑ k ∈ range n, w k * w k = 0 :=
    le_antisymm (not_lt.mp hneg) (Finset.sum_nonneg hnn)
  have hwz : ∀ k, k < n → w k = 0 := fun k hk =>
    mul_self_eq_zero.mp ((Finset.sum_eq_zero_iff_of_nonneg hnn).mp hz k (Finset.mem_range.mpr hk))
  -- back substitution through the upper triangular `Lᵀ`
  have hv0 : ∀ d j, j + d + 1 = n → v j = 0 := by
    intro d
    induction d using Nat.strong_induction_on with
    | _ d ih =>
      intro j hj
      have hjn : j < n := by omega
      have := hwz j hjn
      simp only [hw] at this
      rw [Finset.sum_eq_single j] at this
      · exact (mul_eq_zero.mp this).resolve_right (ne_of_gt (hdiag j hjn))
      · intro p hp hpj
        have hpn := Finset.mem_range.mp hp
        rcases Nat.lt_or_gt_of_ne hpj with h | h
        · rw [hlow p j hpn hjn h, mul_zero]
        · rw [ih (n - p - 1) (by omega) p (by omega), zero_mul]
      · intro h; exact absurd (Finset.mem_range.mpr hjn) h
  obtain ⟨j, hjn, hvj⟩ := hv
  exact hvj (hv0 (n - j - 1) j (by omega))

/-- **Universal rejection (F02, every order).**  Over an ordered field whose `sqrt` is positive and exact
on positives, an exactly symmetric `n × n` matrix that is not positive definite is rejected by `cholesky`
(a panic); `Matrix::cholesky` rejects it as well.  (Contrapositive of `cholesky_correct`: a returned factor
would make the matrix positive definite.) -/
theorem cholesky_rejects_not_posDef (hpos : ∀ x : F, 0 < x → 0 < Transc.sqrt x)
    (hs : ∀ x : F, 0 < x → Transc.sqrt x * Transc.sqrt x = x) (a : List F) (n : Nat) (ha : a.length = n * n)
    (hsym : C01Solve.ExactlySymmetric n a) (hnpd : ¬ PosDefFlat n a) :
    LA.cholesky a = none ∧ ∀ r c, M.cholesky (⟨a, r, c⟩ : Mat F) = none := by
  have h1 : LA.cholesky a = none := by
    cases h : LA.cholesky a with
    | none => rfl
    | some l =>
      exfalso
      have hsq : SqrtExactOn n a l := fun r hr =>
        hs _ ((C01Solve.cholesky_cells a l n ha h).1 r hr).1
      obtain ⟨-, hlow, hdiag, -, hfull⟩ := C01Solve.cholesky_correct hpos a l n ha h hsq
      exact hnpd (posDef_of_cholFactor n a l hlow hdiag (hfull hsym))
  refine ⟨h1, fun r c => ?_⟩
  rw [C11.matrix_cholesky_eq_slice, h1]
  split <;> rfl

/-- over `ℝ` with the real square root -/
theorem cholesky_rejects_not_posDef_real [Transc ℝ] [BEq ℝ] [LawfulBEq ℝ]
    (hsqrt : ∀ x : ℝ, Transc.sqrt x = Real.sqrt x) (a : List ℝ) (n : Nat) (ha : a.length = n * n)
    (hsym : C01Solve.ExactlySymmetric n a) (hnpd : ¬ PosDefFlat n a) : LA.cholesky a = none :=
  (cholesky_rejects_not_posDef (fun x hx => by rw [hsqrt]; exact Real.sqrt_pos.mpr hx)
    (fun x hx => by rw [hsqrt]; exact Real.mul_self_sqrt (le_of_lt hx)) a n ha hsym hnpd).1

end chol

/-! non-vacuity over `ℝ`: `[[1,2],[2,1]]` is exactly symmetric and not positive definite (`v = (1,−1)`) -/
section examples
noncomputable local instance instTranscRealRev : Cv.Transc ℝ where
  sqrt := Real.sqrt
  exp x := x
  ln x := x
  pow x _ := x
  sin x := x
  cos x := x
  tan x := x
  abs x := |x|
  floor x := x
  ceil x := x

open Classical in
noncomputable local instance : BEq ℝ := ⟨fun a b => decide (a = b)⟩
local instance : LawfulBEq ℝ where
  eq_of_beq h := by simpa [BEq.beq] using h
  rfl := by simp [BEq.beq]

theorem ex_not_posDef : ¬ PosDefFlat 2 ([1, 2, 2, 1] : List ℝ) := by
  intro h
  have := h (fun k => if k = 0 then 1 else -1) ⟨0, by omega, by simp⟩
  simp only [Finset.sum_range_succ, Finset.sum_range_zero, rd] at this
  norm_num at this

example : LA.cholesky ([1, 2, 2, 1] : List ℝ) = none :=
  cholesky_rejects_not_posDef_real (fun _ => rfl) [1, 2, 2, 1] 2 rfl
    (by
      intro i j hi hj
      have hi' : i = 0 ∨ i = 1 := by omega
      have hj' : j = 0 ∨ j = 1 := by omega
      rcases hi' with rfl | rfl <;> rcases hj' with rfl | rfl <;> simp [rd])
    ex_not_posDef

/-- `posDef_of_cholFactor` on the factor `[[2,0],[1,1]]` of `[[4,2],[2,2]]` (all three hypotheses checked) -/
example : PosDefFlat 2 ([4, 2, 2, 2] : List ℚ) := by
  apply posDef_of_cholFactor 2 [4, 2, 2, 2] ([2, 0, 1, 1] : List ℚ)
  · intro r c hr hc hrc
    have : r = 0 ∧ c = 1 := by omega
    obtain ⟨rfl, rfl⟩ := this
    simp [rd]
  · intro r hr
    have : r = 0 ∨ r = 1 := by omega
    rcases this with rfl | rfl <;> norm_num [rd]
  · intro i j hi hj
    have hi' : i = 0 ∨ i = 1 := by omega
    have hj' : j = 0 ∨ j = 1 := by omega
    rcases hi' with rfl | rfl <;> rcases hj' with rfl | rfl <;>
      norm_num [Finset.sum_range_succ, rd]

end examples
end Cv.C11Review
