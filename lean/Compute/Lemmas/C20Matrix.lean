import Compute.Model.GpKernels
import Compute.Lemmas.Mat
import Compute.Lemmas.C04Kernels
import Compute.Lemmas.C04Maps
import Compute.Lemmas.C05Spec
import Compute.Props.C05
import Compute.Props.C12
/-
C20 — the matrix `forward` of the covariance kernels, step by step, for an ARBITRARY scalar type (no
algebraic law is used): every intermediate matrix of the expression

    (-(x.powi(2).reshape(-1,1) + y.powi(2).reshape(1,-1) - 2. * x.dot_t(y)) / (2. * l.powi(2))).exp() * var

is the `n × m` table of an explicit entry function.  The pieces come from the colleagues' theorems:
`C12.broadcast_spec` (broadcast classifier), `C05L.matmul_entry` + `C05.dotMM_unfold` (`dot_t` through the
wiring table and `matmul`), `C04.v*_eq` (the unrolled element-wise kernels are maps).
-/
namespace Cv.C20
open Cv Cv.Gp Cv.Mat Cv.Vops

set_option linter.unusedSectionVars false

variable {α : Type} [Inhabited α]

/-- `M` is the `n × m` table of `f` (shape, data invariant, every entry). -/
def IsTab (M : Mat α) (n m : Nat) (f : Nat → Nat → α) : Prop :=
  M.nrows = n ∧ M.ncols = m ∧ M.WF ∧ ∀ i j, i < n → j < m → M.get i j = f i j

theorem IsTab.congr {M : Mat α} {n m : Nat} {f g : Nat → Nat → α} (h : IsTab M n m f)
    (hfg : ∀ i j, i < n → j < m → f i j = g i j) : IsTab M n m g :=
  ⟨h.1, h.2.1, h.2.2.1, fun i j hi hj => (h.2.2.2 i j hi hj).trans (hfg i j hi hj)⟩

/-- `Matrix::new` around an element-wise map of the data keeps the shape; entries are mapped. -/
theorem wrap_map (M : Mat α) (n m : Nat) (f : Nat → Nat → α) (g : α → α) (h : IsTab M n m f) :
    ∃ M', wrap (M.data.map g) M.nrows M.ncols = some M' ∧ IsTab M' n m (fun i j => g (f i j)) := by
  obtain ⟨hn, hm, hw, he⟩ := h
  have hw' : M.data.length = M.nrows * M.ncols := hw
  refine ⟨⟨M.data.map g, M.nrows, M.ncols⟩, ?_, hn, hm, ?_, ?_⟩
  · simp [wrap, DotT.matrixNew, hw']
  · simp [Mat.WF, hw']
  · intro i j hi hj
    have hk : i * M.ncols + j < M.data.length := by
      rw [hw']; exact idx_lt (hn ▸ hi) (hm ▸ hj)
    rw [get_mk_map g M.data M.nrows M.ncols i j hk]
    exact congrArg g (he i j hi hj)

/-! ### reshape -/

theorem vecReshape_col (v : List α) : Shape.vecReshape v (-1) 1 = some ⟨v, v.length, 1⟩ := by
  simp [Shape.vecReshape, Shape.mnew, Shape.reshapeMut, Shape.reshapeDims, Nat.mod_one]

theorem reshape_col (M : Mat α) (hw : M.WF) : Shape.reshape M (-1) 1 = some ⟨M.data, M.data.length, 1⟩ := by
  have hw' : M.data.length = M.nrows * M.ncols := hw
  have h0 : (0 : Int) ≤ ↑M.nrows * ↑M.ncols := Int.mul_nonneg (Int.natCast_nonneg _) (Int.natCast_nonneg _)
  have h1 : ((M.nrows : Int) * M.ncols).toNat = M.nrows * M.ncols := by rw [← Int.natCast_mul, Int.toNat_natCast]
  simp [Shape.reshape, Shape.mnew, Shape.reshapeMut, Shape.reshapeDims, hw', h0, h1]

theorem reshape_row (M : Mat α) (hw : M.WF) : Shape.reshape M 1 (-1) = some ⟨M.data, 1, M.data.length⟩ := by
  have hw' : M.data.length = M.nrows * M.ncols := hw
  have h0 : (0 : Int) ≤ ↑M.nrows * ↑M.ncols := Int.mul_nonneg (Int.natCast_nonneg _) (Int.natCast_nonneg _)
  have h1 : ((M.nrows : Int) * M.ncols).toNat = M.nrows * M.ncols := by rw [← Int.natCast_mul, Int.toNat_natCast]
  simp [Shape.reshape, Shape.mnew, Shape.reshapeMut, Shape.reshapeDims, hw', h0, h1]

/-- Well-formed point set: a `Matrix` argument satisfies the data invariant (any shape `r × c`). -/
def PtsWF : Pts α → Prop
  | .vec _ => True
  | .mat m => m.WF

theorem pts_reshape_col (p : Pts α) (hp : PtsWF p) :
    p.reshape (-1) 1 = some ⟨p.points, p.points.length, 1⟩ := by
  cases p with
  | vec v => exact vecReshape_col v
  | mat m => exact reshape_col m hp

/-! ### `powi(2)` -/

theorem vunArgI_length (mul : α → α → α) (f : α → Int → α) (n : Int) (x : List α) :
    (vunArgI mul f n x).length = x.length := by
  rw [C04.vunArgI_spec]
  simp only [List.length_append, List.length_map, List.length_take, List.length_drop]
  omega

section ops
variable [Add α] [Sub α] [Mul α] [Div α] [Neg α] [Zero α] [One α] [NatCast α] [Transc α]

/-- `v.powi(2)` as the kernel computes it (`x*x` inside full chunks of 8, `x.powi(2)` in the remainder). -/
def sq (v : List α) : List α := vunArgI (· * ·) powi 2 v

theorem sq_length (v : List α) : (sq v).length = v.length := vunArgI_length _ _ _ _

theorem mpowi_col (v : List α) : mpowi ⟨v, v.length, 1⟩ 2 = some ⟨sq v, v.length, 1⟩ := by
  simp [mpowi, wrap, DotT.matrixNew, sq, vunArgI_length]

/-! ### broadcast steps -/

theorem bget_eq_get (M : Mat α) {i j : Nat} (hi : i < M.nrows) (hj : j < M.ncols) :
    C12.bget M i j = M.get i j := by
  unfold C12.bget
  have a1 : (if M.nrows = 1 then 0 else i) = i := by split <;> omega
  have a2 : (if M.ncols = 1 then 0 else j) = j := by split <;> omega
  rw [a1, a2]

/-- `Matrix ∘ Matrix` on two tables of the same shape. -/
theorem bcast_same (op : α → α → α) (A B : Mat α) (n m : Nat) (f g : Nat → Nat → α)
    (hn : 0 < n) (hm : 0 < m) (hA : IsTab A n m f) (hB : IsTab B n m g) :
    ∃ R, broadcastOp op A B = some R ∧ IsTab R n m (fun i j => op (f i j) (g i j)) := by
  obtain ⟨an, am, aw, ae⟩ := hA
  obtain ⟨bn, bm, bw, be⟩ := hB
  have gA : C12.Good A := ⟨aw, by omega, by omega⟩
  have gB : C12.Good B := ⟨bw, by omega, by omega⟩
  have hc : C12.Compat A.nrows A.ncols B.nrows B.ncols := ⟨Or.inl (by omega), Or.inl (by omega)⟩
  obtain ⟨R, hR, rn, rm, rw_, re⟩ := C12.broadcast_spec op A B gA gB hc
  have rn' : R.nrows = n := by rw [rn, an, bn]; simp
  have rm' : R.ncols = m := by rw [rm, am, bm]; simp
  refine ⟨R, hR, rn', rm', rw_, ?_⟩
  intro i j hi hj
  rw [re i j (by omega) (by omega), bget_eq_get A (by omega) (by omega), bget_eq_get B (by omega) (by omega),
    ae i j hi hj, be i j hi hj]

/-- `column ∘ row`: an `n × 1` against a `1 × m` matrix gives the `n × m` outer table. -/
theorem bcast_col_row (op : α → α → α) (a b : List α) (hn : 0 < a.length) (hm : 0 < b.length) :
    ∃ R, broadcastOp op ⟨a, a.length, 1⟩ ⟨b, 1, b.length⟩ = some R ∧
      IsTab R a.length b.length (fun i j => op a[i]! b[j]!) := by
  have gA : C12.Good (⟨a, a.length, 1⟩ : Mat α) := ⟨by simp [Mat.WF], hn, by simp⟩
  have gB : C12.Good (⟨b, 1, b.length⟩ : Mat α) := ⟨by simp [Mat.WF], by simp, hm⟩
  have hc : C12.Compat a.length 1 1 b.length := ⟨Or.inr (Or.inr rfl), Or.inr (Or.inl rfl)⟩
  obtain ⟨R, hR, rn, rm, rw_, re⟩ := C12.broadcast_spec op _ _ gA gB hc
  simp only at rn rm
  have rn' : R.nrows = a.length := by rw [rn]; omega
  have rm' : R.ncols = b.length := by rw [rm]; omega
  refine ⟨R, hR, rn', rm', rw_, ?_⟩
  intro i j hi hj
  rw [re i j (by omega) (by omega)]
  simp only [C12.bget, Mat.get]
  have e1 : (if a.length = 1 then 0 else i) = i := by split <;> omega
  have e2 : (if b.length = 1 then 0 else j) = j := by split <;> omega
  simp [e1, e2]

/-! ### `x.dot_t(y)` on two columns -/

theorem dotT_cols (a b : List α) (hn : 0 < a.length) (hm : 0 < b.length) :
    ∃ D, DotT.dotMM .dotT ⟨a, a.length, 1⟩ ⟨b, b.length, 1⟩ = some D ∧
      IsTab D a.length b.length (fun i j => 0 + a[i]! * b[j]!) := by
  obtain ⟨c, hc, hl, he⟩ := C05L.matmul_entry a b a.length 1 b.length 1 false true (by simp) (by simp) hn hm (by simp)
  simp only [Bool.false_eq_true, if_false, if_true, Bool.false_and] at hl he
  refine ⟨⟨c, a.length, b.length⟩, ?_, rfl, rfl, hl, ?_⟩
  · rw [C05.dotMM_unfold]
    simp [C05.flagA, C05.flagB, hc, DotT.matrixNew, hl]
  · intro i j hi hj
    show c[i * b.length + j]! = _
    rw [he i j hi hj]
    simp [C05L.cellFold, C05L.opEntry]

/-! ### the squared-distance table and the two kernels -/

/-- Entry `(i, j)` of `x.powi(2).reshape(-1,1) + y.powi(2).reshape(1,-1) - 2. * x.dot_t(y)` as evaluated. -/
def sqDistEntry (xs ys : List α) (i j : Nat) : α :=
  (sq xs)[i]! + (sq ys)[j]! - two * (0 + xs[i]! * ys[j]!)

theorem sqDist_tab (x y : Pts α) (hx : PtsWF x) (hy : PtsWF y) (hxn : 0 < x.points.length) (hyn : 0 < y.points.length) :
    ∃ T, sqDist x y = some T ∧ IsTab T x.points.length y.points.length (sqDistEntry x.points y.points) := by
  obtain ⟨S, hS, tS⟩ := bcast_col_row (· + ·) (sq x.points) (sq y.points) (by rw [sq_length]; exact hxn) (by rw [sq_length]; exact hyn)
  rw [sq_length, sq_length] at hS tS
  obtain ⟨D, hD, tD⟩ := dotT_cols x.points y.points hxn hyn
  obtain ⟨D2, hD2, tD2⟩ := wrap_map D _ _ _ (fun v => two * v) tD
  obtain ⟨T, hT, tT⟩ := bcast_same (· - ·) S D2 _ _ _ _ hxn hyn tS tD2
  refine ⟨T, ?_, tT⟩
  have r1 : Shape.reshape (⟨sq x.points, x.points.length, 1⟩ : Mat α) (-1) 1 = some ⟨sq x.points, x.points.length, 1⟩ := by
    have := reshape_col (⟨sq x.points, x.points.length, 1⟩ : Mat α) (by simp [Mat.WF, sq_length])
    simpa [sq_length] using this
  have r2 : Shape.reshape (⟨sq y.points, y.points.length, 1⟩ : Mat α) 1 (-1) = some ⟨sq y.points, 1, y.points.length⟩ := by
    have := reshape_row (⟨sq y.points, y.points.length, 1⟩ : Mat α) (by simp [Mat.WF, sq_length])
    simpa [sq_length] using this
  simp only [sqDist, pts_reshape_col x hx, pts_reshape_col y hy, mpowi_col, r1, r2, hS, hD, C04.sv_eq, hD2, hT,
    Option.bind_eq_bind, Option.bind_some]

/-- Entry `(i, j)` of the RBF matrix form as evaluated. -/
def rbfEntry (k : RBF α) (xs ys : List α) (i j : Nat) : α :=
  exp ((-(sqDistEntry xs ys i j)) / k.denom) * k.var

/-- Entry `(i, j)` of the RQ matrix form as evaluated. -/
def rqEntry (k : RQ α) (xs ys : List α) (i j : Nat) : α :=
  pow (1 + sqDistEntry xs ys i j / k.denom) (-k.alpha) * k.var

/-- **RBF matrix form, any scalar type**: never panics on non-empty well-formed point sets; the result is
the `n × m` table of `rbfEntry`. -/
theorem rbf_fwdM_tab (k : RBF α) (x y : Pts α) (hx : PtsWF x) (hy : PtsWF y)
    (hxn : 0 < x.points.length) (hyn : 0 < y.points.length) :
    ∃ R, k.fwdM x y = some R ∧ IsTab R x.points.length y.points.length (rbfEntry k x.points y.points) := by
  obtain ⟨T, hT, tT⟩ := sqDist_tab x y hx hy hxn hyn
  obtain ⟨N, hN, tN⟩ := wrap_map T _ _ _ (fun v => -v) tT
  obtain ⟨Q, hQ, tQ⟩ := wrap_map N _ _ _ (fun v => v / k.denom) tN
  obtain ⟨E, hE, tE⟩ := wrap_map Q _ _ _ exp tQ
  obtain ⟨R, hR, tR⟩ := wrap_map E _ _ _ (fun v => v * k.var) tE
  refine ⟨R, ?_, tR⟩
  simp only [RBF.fwdM, hT, hN, C04.vs_eq, hQ, C04.vun_eq, hE, hR, Option.bind_eq_bind, Option.bind_some]

/-- **RQ matrix form, any scalar type.** -/
theorem rq_fwdM_tab (k : RQ α) (x y : Pts α) (hx : PtsWF x) (hy : PtsWF y)
    (hxn : 0 < x.points.length) (hyn : 0 < y.points.length) :
    ∃ R, k.fwdM x y = some R ∧ IsTab R x.points.length y.points.length (rqEntry k x.points y.points) := by
  obtain ⟨T, hT, tT⟩ := sqDist_tab x y hx hy hxn hyn
  obtain ⟨Q, hQ, tQ⟩ := wrap_map T _ _ _ (fun v => v / k.denom) tT
  obtain ⟨P, hP, tP⟩ := wrap_map Q _ _ _ (fun v => 1 + v) tQ
  obtain ⟨W, hW, tW⟩ := wrap_map P _ _ _ (fun v => pow v (-k.alpha)) tP
  obtain ⟨R, hR, tR⟩ := wrap_map W _ _ _ (fun v => v * k.var) tW
  refine ⟨R, ?_, tR⟩
  simp only [RQ.fwdM, hT, C04.vs_eq, hQ, C04.sv_eq, hP, C04.vunArgF_eq, hW, hR, Option.bind_eq_bind, Option.bind_some]

/-- An empty point set makes the matrix form panic (`is_matrix` divides by the row count 0 inside `dot_t`,
if nothing panicked before). -/
theorem sqDist_empty_left (x y : Pts α) (hx : PtsWF x) (hxn : x.points = []) : sqDist x y = none := by
  have hc := pts_reshape_col x hx
  rw [hxn] at hc
  simp only [List.length_nil] at hc
  simp only [sqDist, hc, Option.bind_eq_bind, Option.bind_some]
  cases hy : y.reshape (-1) 1 with
  | none => simp
  | some yc =>
    simp only [Option.bind_some]
    have hd : DotT.dotMM .dotT (⟨[], 0, 1⟩ : Mat α) yc = none := by
      rw [C05.dotMM_unfold]
      simp [C05.flagA, C05.flagB, matmul, matmulChecks, isMatrix]
    cases mpowi (⟨[], 0, 1⟩ : Mat α) 2 <;> simp
    rename_i x2
    cases Shape.reshape x2 (-1) 1 <;> simp
    cases mpowi yc 2 <;> simp
    rename_i y2
    cases Shape.reshape y2 1 (-1) <;> simp
    rename_i x2c y2r
    cases broadcastOp (· + ·) x2c y2r <;> simp [hd]

theorem matmulChecks_zero_right (a b : List α) (ra : Nat) (ta tb : Bool) :
    matmulChecks a b ra 0 ta tb = none := by
  unfold matmulChecks
  rw [C05L.isMatrix_zero b]
  cases isMatrix a ra <;> rfl

theorem matmul_zero_right (a b : List α) (ra : Nat) (ta tb : Bool) : matmul a b ra 0 ta tb = none := by
  simp [matmul, matmulChecks_zero_right]

theorem sqDist_empty_right (x y : Pts α) (hy : PtsWF y) (hyn : y.points = []) : sqDist x y = none := by
  have hc := pts_reshape_col y hy
  rw [hyn] at hc
  simp only [List.length_nil] at hc
  simp only [sqDist, hc, Option.bind_eq_bind, Option.bind_some]
  cases hx : x.reshape (-1) 1 with
  | none => simp
  | some xc =>
    simp only [Option.bind_some]
    have hd : DotT.dotMM .dotT xc (⟨[], 0, 1⟩ : Mat α) = none := by
      rw [C05.dotMM_unfold]
      simp [C05.flagA, C05.flagB, matmul_zero_right]
    cases mpowi xc 2 <;> simp
    rename_i x2
    cases Shape.reshape x2 (-1) 1 <;> simp
    cases mpowi (⟨[], 0, 1⟩ : Mat α) 2 <;> simp
    rename_i y2
    cases Shape.reshape y2 1 (-1) <;> simp
    rename_i x2c y2r
    cases broadcastOp (· + ·) x2c y2r <;> simp [hd]

end ops
end Cv.C20
