import Compute.Model.Tape
import Compute.Model.Kernels
import Compute.Model.Matmul
import Compute.Model.Decomp
/-
Model of `src/optimize/{mod,adam,sgd,lm}.rs`.

* `relChange` — `optimize::rel_change` (the signed test of fix F29), `statMax` — `statistics::max`
  (`fold(NAN, f64::max)`), `converged` — the stop test shared by Adam and SGD.
* `runLoop` — the `while t < maxsteps && !converged { t += 1; … }` skeleton shared by Adam and SGD,
  generic in the per-step function; `adamG` / `sgdG` instantiate it for an arbitrary gradient oracle
  (`none` = the objective closure panicked); `adam` / `sgd` plug in the gradient that the `reverse`
  tape produces for an RPN objective (`Model/Tape.lean`), with the tape cleared and re-seeded every
  step exactly as the source does (for Nesterov the look-ahead points are extra tape nodes).
* `lmG` — the Levenberg–Marquardt loop, generic in an evaluator (`LMEval`: residuals / Jacobian
  through some tape discipline); `tapeEval` is the evaluator of the source: one tape shared by all
  data points of an iteration (and by the initial evaluation and the first iteration), gradients
  swept over the whole tape; `lm` = `lmG tapeEval`.  Linear algebra through the shared models:
  `Cv.matmul` (`Matrix::t_dot`), `Cv.LA.lu` / `Cv.LA.luSolve` (`Matrix::lu`, `lu_solve`; the matrix
  methods run the same loops as the slice functions), `dot8` / `sum8`.

`none` = panic.  Core Lean only, generic in the scalar.
-/
namespace Cv.Opt
open Cv Cv.AD

/-- `f64::max` as a class so that the same model runs on `Float` (NaN-ignoring) and on ordered fields. -/
class FMax (α : Type) where
  fmax : α → α → α

instance : FMax Float := ⟨Cv.fmax⟩

variable {α : Type}

/-- `f64::EPSILON` = 2⁻⁵². -/
def machEps [Div α] [One α] [NatCast α] : α := 1 / ((4503599627370496 : Nat) : α)

/-- `x as i32` for `x : usize` (two's complement truncation to 32 bits). -/
def asI32 (t : Nat) : Int := ((t + 2147483648) % 4294967296 : Nat) - 2147483648

section stop
variable [Sub α] [Div α] [Zero α] [One α] [NatCast α] [BEq α] [LT α] [DecidableLT α] [Transc α] [FMax α]

/-- `optimize::rel_change(new, old)`. -/
def relChange (new old : α) : α :=
  if new == old then 0 else Transc.abs (new - old) / FMax.fmax (Transc.abs new) (Transc.abs old)

/-- `statistics::max`: `data.iter().fold(f64::NAN, |acc, i| f64::max(acc, *i))`; `none` = the NaN
of the empty fold (`f64::max(NAN, x) = x`, so the fold over `x :: xs` starts from `x`). -/
def statMax : List α → Option α
  | [] => none
  | x :: xs => some (xs.foldl FMax.fmax x)

/-- `max(&(0..n).map(|i| rel_change(params[i], prev[i])).collect()) < f64::EPSILON`. -/
def converged (new old : List α) : Bool :=
  match statMax (List.zipWith relChange new old) with
  | none => false
  | some m => decide (m < machEps)

end stop

/-! ### the loop skeleton of Adam and SGD -/

/-- `while t < maxsteps && !converged { t += 1; prev = params.clone(); <step t>; converged = test }`
with `fuel = maxsteps - t`. -/
def runLoop {σ : Type} (step : Nat → σ → Option σ) (stopped : σ → σ → Bool) :
    Nat → Nat → σ → Option σ
  | 0, _, s => some s
  | fuel + 1, t, s =>
    match step (t + 1) s with
    | none => none
    | some s' => if stopped s' s then some s' else runLoop step stopped fuel (t + 1) s'

/-! ### Adam -/

structure AdamHP (α : Type) where
  stepsize : α
  beta1 : α
  beta2 : α
  epsilon : α

structure AdamSt (α : Type) where
  θ : List α
  m : List α
  v : List α

section adam
variable [Add α] [Sub α] [Mul α] [Div α] [Neg α] [Zero α] [One α] [Transc α]

/-- the body of `for p in 0..param_len` for one coordinate; `params[p] - x` on a `Var` is
`self.add(x.neg())`, i.e. `val + (-x)`. -/
def adamCoord (h : AdamHP α) (t : Nat) (θ m v g : α) : α × α × α :=
  let m' := h.beta1 * m + (1 - h.beta1) * g
  let v' := h.beta2 * v + (1 - h.beta2) * g * g
  let mhat := m' / (1 - powi h.beta1 (asI32 t))
  let vhat := v' / (1 - powi h.beta2 (asI32 t))
  (θ + -(h.stepsize * mhat / (Transc.sqrt vhat + h.epsilon)), m', v')

def adamUpd (h : AdamHP α) (t : Nat) : List α → List α → List α → List α → AdamSt α
  | θ :: θs, m :: ms, v :: vs, g :: gs =>
    let r := adamCoord h t θ m v g
    let s := adamUpd h t θs ms vs gs
    ⟨r.1 :: s.θ, r.2.1 :: s.m, r.2.2 :: s.v⟩
  | _, _, _, _ => ⟨[], [], []⟩

/-- one pass of the loop body: gradient at the current point, then the coordinate updates
(`grad[p]` for `p ≥ grad.len()` would be an index panic). -/
def adamStep (g : List α → Option (List α)) (h : AdamHP α) (t : Nat) (s : AdamSt α) : Option (AdamSt α) :=
  match g s.θ with
  | none => none
  | some gr => if gr.length = s.θ.length then some (adamUpd h t s.θ s.m s.v gr) else none

variable [NatCast α] [BEq α] [LT α] [DecidableLT α] [FMax α]

/-- `Adam::optimize` for an arbitrary gradient oracle. -/
def adamG (g : List α → Option (List α)) (h : AdamHP α) (θ0 : List α) (maxsteps : Nat) : Option (List α) :=
  (runLoop (adamStep g h) (fun s' s => converged s'.θ s.θ) maxsteps 0
    ⟨θ0, List.replicate θ0.length 0, List.replicate θ0.length 0⟩).map (·.θ)

/-- `Adam::new` asserts `beta1 > 0`, `beta2 > 0`. -/
def adamNewOk (h : AdamHP α) : Bool := decide (0 < h.beta1) && decide (0 < h.beta2)

/-- `Adam::new(..).optimize(f, θ0, &[], maxsteps)` for the RPN objective `prog`. -/
def adam [IntCast α] (prog : List (Op α)) (h : AdamHP α) (θ0 : List α) (maxsteps : Nat) : Option (List α) :=
  if adamNewOk h then adamG (gradAt prog) h θ0 maxsteps else none

end adam

/-! ### SGD (plain, momentum, Nesterov) -/

structure SgdHP (α : Type) where
  stepsize : α
  momentum : α
  nesterov : Bool

structure SgdSt (α : Type) where
  θ : List α
  u : List α

section sgd
variable [Add α] [Sub α] [Mul α] [Div α] [Neg α] [Zero α] [One α] [Transc α]

def sgdUpd (h : SgdHP α) : List α → List α → List α → SgdSt α
  | θ :: θs, u :: us, g :: gs =>
    let u' := h.momentum * u + h.stepsize * g
    let s := sgdUpd h θs us gs
    ⟨(θ + -u') :: s.θ, u' :: s.u⟩
  | _, _, _ => ⟨[], []⟩

/-- one pass of the loop body; `G θ u` is the gradient the step uses. -/
def sgdStep (G : List α → List α → Option (List α)) (h : SgdHP α) (_t : Nat) (s : SgdSt α) : Option (SgdSt α) :=
  match G s.θ s.u with
  | none => none
  | some gr => if gr.length = s.θ.length then some (sgdUpd h s.θ s.u gr) else none

/-- the look-ahead point `θ − momentum·u` (`*p - self.momentum * u` on `Var`s: `val + (-(m*u))`). -/
def lookPoint (mom : α) (θ u : List α) : List α := List.zipWith (fun p u => p + -(mom * u)) θ u

/-- the gradient oracle of the source in terms of a gradient function `g`: at the look-ahead point
for Nesterov, at the current point otherwise. -/
def sgdOracle (g : List α → Option (List α)) (h : SgdHP α) : List α → List α → Option (List α) :=
  fun θ u => if h.nesterov then g (lookPoint h.momentum θ u) else g θ

variable [NatCast α] [BEq α] [LT α] [DecidableLT α] [FMax α]

/-- `SGD::optimize` for an arbitrary oracle `G θ u`. -/
def sgdG (G : List α → List α → Option (List α)) (h : SgdHP α) (θ0 : List α) (maxsteps : Nat) : Option (List α) :=
  (runLoop (sgdStep G h) (fun s' s => converged s'.θ s.θ) maxsteps 0
    ⟨θ0, List.replicate θ0.length 0⟩).map (·.θ)

/-- the tape gradients of the source -/
def sgdTapeOracle [IntCast α] (prog : List (Op α)) (h : SgdHP α) : List α → List α → Option (List α) :=
  fun θ u => if h.nesterov then gradAtLookAhead prog h.momentum θ u else gradAt prog θ

/-- `SGD::new(stepsize, momentum, nesterov).optimize(f, θ0, &[], maxsteps)` for the RPN objective. -/
def sgd [IntCast α] (prog : List (Op α)) (h : SgdHP α) (θ0 : List α) (maxsteps : Nat) : Option (List α) :=
  sgdG (sgdTapeOracle prog h) h θ0 maxsteps

end sgd

/-! ### Levenberg–Marquardt -/

structure LMHP (α : Type) where
  eps1 : α
  eps2 : α
  tau : α

/-- How residuals and Jacobians are obtained (`σ` = tape state with the current parameter `Var`s). -/
structure LMEval (σ α : Type) where
  /-- initial evaluation: tape state, residuals `y - f(θ, x)`, Jacobian of `f` (n × p, row-major) -/
  init : List α → Option (σ × List α × List α)
  /-- values of the current parameter variables -/
  vals : σ → List α
  /-- `new_params = params + delta` on the tape and the new residuals -/
  try_ : σ → List α → Option (σ × List α)
  /-- Jacobian at the current variables of `σ` (continuing on the same tape) -/
  jac : σ → Option (List α)
  /-- `tape.clear(); params = add_var(x.val())` -/
  fresh : σ → σ
  /-- number of data points -/
  n : Nat

structure LMSt (σ α : Type) where
  tp : σ
  res : List α
  jtj : List α
  jtr : List α
  mu : α
  nu : α
  stop : Bool

section lm
variable [Add α] [Sub α] [Mul α] [Div α] [Neg α] [Zero α] [One α] [NatCast α] [Inhabited α]
  [LT α] [DecidableLT α] [LE α] [DecidableLE α] [BEq α] [Transc α] [FMax α]

def half : α := 1 / ((2 : Nat) : α)

/-- `Vector::norm` = `dot(x, x).sqrt()`. -/
def norm2 (x : List α) : α := Transc.sqrt (dot8 x x)

/-- `jtr.inf_norm()` for the `1 × p` matrix `jtr`: `abs().sum_rows().max()` = the one row sum. -/
def infNormRow (x : List α) : α := sum8 (x.map Transc.abs)

/-- `jtj.diag()` of a `p × p` matrix. -/
def diagOf (p : Nat) (a : List α) : List α := (List.range p).map fun i => a.getD (i * p + i) 0

/-- `for i in 0..p { damped[[i, i]] += mu * jtj[[i, i]] }`. -/
def damp (p : Nat) (mu : α) (a : List α) : List α :=
  (List.range (p * p)).map fun k =>
    if k / p = k % p then a.getD k 0 + mu * a.getD k 0 else a.getD k 0

/-- `damped.solve(jtr.data())` = `lu()` then `lu_solve`. -/
def luSolveVec (a b : List α) : Option (List α) :=
  match LA.lu a with
  | none => none
  | some (f, piv) => LA.luSolve f piv b

/-- `J.t_dot(&J)` (`p × p`) and `J.t_dot(&r)` (`p`), `J` being `n × p`. -/
def jtjOf (n : Nat) (j : List α) : Option (List α) := matmul j j n n true false
def jtrOf (n : Nat) (j r : List α) : Option (List α) := matmul j r n n true false

/-- `m.inv()` = `solve(&eye(p))`: one `lu_solve` per column of the identity, results laid out as the
columns of the inverse. -/
def invOf (p : Nat) (a : List α) : Option (List α) :=
  match LA.lu a with
  | none => none
  | some (f, piv) =>
    let cols := (List.range p).map fun c =>
      LA.luSolve f piv ((List.range p).map fun i => if i = c then (1 : α) else 0)
    if cols.all Option.isSome then
      let cs := (cols.map fun o => (o.getD []).toArray).toArray
      some ((List.range (p * p)).map fun k => (cs.getD (k % p) #[]).getD (k / p) 0)
    else none

/-- state after the initial evaluation (before the loop) -/
def lmStart {σ : Type} (E : LMEval σ α) (h : LMHP α) (θ0 : List α) : Option (LMSt σ α) :=
  match E.init θ0 with
  | none => none
  | some (tp, res, jac) =>
    let p := θ0.length
    if jac.length ≠ E.n * p then none   -- `Matrix::new(.., n, p)`: invalid shape
    else
      match jtjOf E.n jac, jtrOf E.n jac res with
      | some jtj, some jtr =>
        let mu := h.tau * (statMax (diagOf p jtj)).getD (0 / 0)
        some ⟨tp, res, jtj, jtr, mu, ((2 : Nat) : α), decide (infNormRow jtr ≤ h.eps1)⟩
      | _, _ => none

/-- one pass of the `loop { … }` body below the `step > maxsteps || stop` test -/
def lmBody {σ : Type} (E : LMEval σ α) (h : LMHP α) (s : LMSt σ α) : Option (LMSt σ α) :=
  let θ := E.vals s.tp
  let p := θ.length
  match luSolveVec (damp p s.mu s.jtj) s.jtr with
  | none => none
  | some δ =>
    if norm2 δ ≤ h.eps2 * (norm2 θ + h.eps2) then some { s with stop := true }
    else
      match E.try_ s.tp δ with
      | none => none
      | some (tp', res') =>
        let rss := dot8 s.res s.res
        let rss' := dot8 res' res'
        let pred := dot8 δ (List.zipWith (· + ·) (δ.map (s.mu * ·)) s.jtr)
        let rho := (rss - rss') / (half * pred)
        if 0 < rho then
          match E.jac tp' with
          | none => none
          | some jac =>
            if jac.length ≠ E.n * p then none
            else
              match jtjOf E.n jac, jtrOf E.n jac res' with
              | some jtj, some jtr =>
                if infNormRow jtr ≤ h.eps1 then some ⟨tp', res', jtj, jtr, s.mu, s.nu, true⟩
                else
                  let mu := FMax.fmax (1 / ((3 : Nat) : α))
                    (1 - powi (((2 : Nat) : α) * rho - 1) 3)
                  some ⟨E.fresh tp', res', jtj, jtr, mu, ((2 : Nat) : α), false⟩
              | _, _ => none
        else
          some { s with tp := E.fresh s.tp, mu := s.mu * s.nu, nu := s.nu * ((2 : Nat) : α) }

/-- `loop { step += 1; if step > maxsteps || stop { break } … }` with `fuel = maxsteps - step + 1`. -/
def lmLoop {σ : Type} (E : LMEval σ α) (h : LMHP α) : Nat → LMSt σ α → Option (LMSt σ α)
  | 0, s => some s
  | fuel + 1, s =>
    if s.stop then some s
    else
      match lmBody E h s with
      | none => none
      | some s' => lmLoop E h fuel s'

/-- the returned pair: parameter values and `res·res / (n - p) * jtj.inv()` (`n - p` on `usize`). -/
def lmFinish {σ : Type} (E : LMEval σ α) (s : LMSt σ α) : Option (List α × List α) :=
  let θ := E.vals s.tp
  let p := θ.length
  if E.n < p then none
  else
    match invOf p s.jtj with
    | none => none
    | some inv =>
      let c := dot8 s.res s.res / ((E.n - p : Nat) : α)
      some (θ, inv.map (c * ·))

/-- `LM::optimize` for an arbitrary evaluator. -/
def lmG {σ : Type} (E : LMEval σ α) (h : LMHP α) (θ0 : List α) (maxsteps : Nat) : Option (List α × List α) :=
  match lmStart E h θ0 with
  | none => none
  | some s0 =>
    match lmLoop E h maxsteps s0 with
    | none => none
    | some s => lmFinish E s

/-! #### the evaluator of the source: one shared `reverse` tape -/

abbrev TapeSt (α : Type) := Tape α × List (Var α)

variable [IntCast α]

/-- `xs.zip(ys).map(|(x, y)| { let val = f(&params, &[&[x]]); ((y - val).val(), val.grad().wrt(&params)) })` -/
def evalInit (prog : List (Op α)) (ps : List (Var α)) :
    List α → List α → Tape α → Option (Tape α × List α × List α)
  | x :: xs, y :: ys, t =>
    match evalProg prog ps (some x) t with
    | none => none
    | some (val, t) =>
      let (r, t) := subCV t y val
      let g := wrt (grad t val) ps
      match evalInit prog ps xs ys t with
      | none => none
      | some (t, rs, js) => some (t, r.val :: rs, g ++ js)
  | _, _, t => some (t, [], [])

/-- `xs.zip(ys).map(|(x, y)| y - f(&new_params, &[&[x]]).val())` (plain `f64` subtraction). -/
def evalRes (prog : List (Op α)) (ps : List (Var α)) :
    List α → List α → Tape α → Option (Tape α × List α)
  | x :: xs, y :: ys, t =>
    match evalProg prog ps (some x) t with
    | none => none
    | some (val, t) =>
      match evalRes prog ps xs ys t with
      | none => none
      | some (t, rs) => some (t, (y - val.val) :: rs)
  | _, _, t => some (t, [])

/-- `xs.map(|x| f(&new_params, &[&[x]]).grad().wrt(&new_params)).flatten()` -/
def evalJac (prog : List (Op α)) (ps : List (Var α)) : List α → Tape α → Option (List α)
  | x :: xs, t =>
    match evalProg prog ps (some x) t with
    | none => none
    | some (val, t) =>
      let g := wrt (grad t val) ps
      match evalJac prog ps xs t with
      | none => none
      | some js => some (g ++ js)
  | [], _ => some []

/-- `params.iter().zip(&delta).map(|(&x, &d)| x + d)` on the tape -/
def addDelta (t : Tape α) : List (Var α) → List α → List (Var α) × Tape α
  | p :: ps, d :: ds =>
    let (q, t) := addVC t p d
    let (qs, t) := addDelta t ps ds
    (q :: qs, t)
  | _, _ => ([], t)

def tapeEval (prog : List (Op α)) (xs ys : List α) : LMEval (TapeSt α) α where
  init θ :=
    let (ps, t) := addVars (#[] : Tape α) θ
    match evalInit prog ps xs ys t with
    | none => none
    | some (t, rs, js) => some ((t, ps), rs, js)
  vals s := s.2.map (·.val)
  try_ s δ :=
    let (qs, t) := addDelta s.1 s.2 δ
    match evalRes prog qs xs ys t with
    | none => none
    | some (t, rs) => some ((t, qs), rs)
  jac s := evalJac prog s.2 xs s.1
  fresh s := let (ps, t) := addVars (#[] : Tape α) (s.2.map (·.val)); (t, ps)
  n := xs.length

/-- `LM::new(eps1, eps2, tau).optimize(f, θ0, &[xs, ys], maxsteps)` for the RPN model function `prog`
(`assert_eq!(xs.len(), ys.len())`). -/
def lm (prog : List (Op α)) (h : LMHP α) (θ0 xs ys : List α) (maxsteps : Nat) : Option (List α × List α) :=
  if xs.length ≠ ys.length then none else lmG (tapeEval prog xs ys) h θ0 maxsteps

end lm
end Cv.Opt
