"""C10 — optimizers follow their published update rules; Levenberg-Marquardt descends."""
import math
from .common import Failure, f2h, h2f, parse_reply

ID = "C10"
BIN = "c10"
PROOF_MODULES = ["Compute.Props.C10", "Compute.Lemmas.C10", "Compute.Lemmas.C10LM", "Compute.Lemmas.C10LMAlg",
                 "Compute.Lemmas.C10Tape", "Compute.Props.C10Review"]
REQUIRED_THEOREMS = ["Cv.C10.adam_refines", "Cv.C10.adam_prefix", "Cv.C10.sgd_refines", "Cv.C10.sgd_prefix",
                     "Cv.C10.stop_only_when_still", "Cv.C10.runLoop_eq_iter", "Cv.C10.lm_accept_decreases",
                     "Cv.C10.lm_pred_nonneg",
                     # review B1: lm_descends / lm_never_worse / lm_covariance assumed EvalLaws (unsatisfiable for the tape
                     # evaluator); renamed *_idealEval, no longer required; replaced by the C10R theorems below
                     "Cv.C10R.lm_core_sublevel", "Cv.C10R.lmG_descends_on_sublevel",
                     "Cv.C10R.lm_descends_on_sublevel_of_nonsingular", "Cv.C10R.lm_descends_on_sublevel",
                     "Cv.C10R.lmFinish_at_n_eq_p", "Cv.C10R.invOf_right_inverse", "Cv.C10R.lm_covariance_is_inverse",
                     "Cv.C10R.adam_follows_published_rule_on_run", "Cv.C10R.sgd_follows_published_rule_on_run",
                     "Cv.C10.tape_gradient_correct_partial", "Cv.AD.gradAt_ring_correct"]
RULE = ("trajectories: optimize with maxsteps = 1..K (K up to 200 quick / 2000 thorough) for Adam and SGD "
        "(plain, momentum, Nesterov) on convex / non-convex quadratics in 1..8 dimensions, Rosenbrock, least-squares "
        "losses over exp/sin/powi/division nodes and random RPN programs; LM on linear / exponential / logistic fits "
        "with noise, 5..200 points, 1..5 parameters, poor starts; tape gradients of random programs; "
        "non-trivial = distinct (optimizer, objective family, dimension, regime) class")
EXHAUSTIVE = {"quick": False, "thorough": False}
NOT_PROVED = [
    "LM convergence ('reaches the least-squares solution on models linear in the parameters'): searched by the oracle "
    "against an exact solve, not proved",
    "chain rule of the tape for the node kinds / powi exp sin (and the wrong weight of constant/variable: finding "
    "reverse:f64-div-var-weight); the tape theorem covers + - * neg, constants, data point and parameters",
    "that tapeEval satisfies EvalLaws (residuals / Jacobian are functions of the parameter values only) and that the "
    "LU solve is exact: hypotheses of lm_descends_idealEval (an idealised evaluator; the tape evaluator does NOT satisfy them)",
    "floating-point rounding: theorems are about the model over fields / ordered fields / commutative rings; the f64 "
    "behaviour is covered by the bit-exact correspondence and the oracle",
]
TRUSTED = ["Lean Float + - * / sqrt exp sin cos and square-and-multiply powi agree bit for bit with Rust f64 (measured)",
           "shared models Cv.matmul (C05) and Cv.LA.lu / luSolve (C01/C11) for Matrix::t_dot, Matrix::lu, lu_solve"]
ASSUMPTIONS = ["budgets below 2^31 steps (t as i32 wraps beyond; hypothesis of adam_refines)",
               "default cargo features (no blas/lapack)",
               "LM theorems require p < n (at n = p the code divides by (n - p) as f64 = 0: inf/NaN covariance, "
               "lmFinish_at_n_eq_p; n < p panics) and tau >= 0",
               "stop_only_when_still is a theorem over ordered fields (abs, max as in StopLaws); in f64 a NaN relative "
               "change is dropped by f64::max (statistics::max folds from NaN), so a run can stop while a coordinate is "
               "inf/NaN (witness in corpus(): SGD lr 1 on 1e200 p0^2 + (p1-1)^2 from [1e200, 1] returns [-inf, 1] for "
               "every budget); overflowed runs are outside the quantifier and are tied by correspondence only",
               "determinism is a statement about the real code (a RefCell tape inside the optimizer object could leak "
               "between calls): it is observed, not proved -- repeated requests, and the routes used_clone / reuse "
               "(second call on a used object) must give bit-identical replies; the model is a function"]
IMPL_TIMEOUT = 1200
MODEL_TIMEOUT = 1800

# ----------------------------------------------------------------------------- expressions -> RPN


def P(i):
    return ("p", i)


def C(c):
    return ("c", float(c))


X = ("x",)


def add(a, b):
    return ("add", a, b)


def sub(a, b):
    return ("sub", a, b)


def mul(a, b):
    return ("mul", a, b)


def div(a, b):
    return ("div", a, b)


def neg(a):
    return ("neg", a)


def powi(a, n):
    return ("powi", a, int(n))


def exp(a):
    return ("exp", a)


def sin(a):
    return ("sin", a)


def total(terms):
    """`iter.sum()` of `Var`s: reduce(|a, b| a + b)"""
    r = terms[0]
    for t in terms[1:]:
        r = add(r, t)
    return r


def rpn(e, out=None):
    out = [] if out is None else out
    k = e[0]
    if k == "p":
        out.append("p%d" % e[1])
    elif k == "c":
        out.append("c" + f2h(e[1]))
    elif k == "x":
        out.append("x")
    elif k == "powi":
        rpn(e[1], out)
        out.append("powi%d" % e[2])
    elif k in ("neg", "exp", "sin"):
        rpn(e[1], out)
        out.append(k)
    else:
        rpn(e[1], out)
        rpn(e[2], out)
        out.append(k)
    return out


def prog_str(e):
    toks = rpn(e)
    return "%d %s" % (len(toks), " ".join(toks))


def parse_prog(toks):
    """tokens (after the count) -> expression tree"""
    st = []
    for t in toks:
        if t == "x":
            st.append(X)
        elif t in ("add", "sub", "mul", "div"):
            b = st.pop()
            a = st.pop()
            st.append((t, a, b))
        elif t in ("neg", "exp", "sin"):
            st.append((t, st.pop()))
        elif t.startswith("powi"):
            st.append(("powi", st.pop(), int(t[4:])))
        elif t.startswith("p"):
            st.append(("p", int(t[1:])))
        elif t.startswith("c"):
            st.append(("c", h2f(t[1:])))
        else:
            raise ValueError(t)
    assert len(st) == 1
    return st[0]


def has_cdivv(e):
    """does the program reach `impl Div<Var> for f64` (constant divided by a variable)?"""
    def isvar(e):
        k = e[0]
        if k == "p":
            return True
        if k in ("c", "x"):
            return False
        return any(isvar(s) for s in e[1:] if isinstance(s, tuple))

    def walk(e):
        if e[0] == "div" and not isvar(e[1]) and isvar(e[2]):
            return True
        return any(walk(s) for s in e[1:] if isinstance(s, tuple))
    return walk(e)


# ----------------------------------------------------------------------------- objective catalogue


def quadratic(rng, n, convex):
    """sum_{i<=j} a_ij p_i p_j + sum b_i p_i + c, written the way one writes it with `Var`s"""
    import numpy as np
    M = [[rng.normal() for _ in range(n)] for _ in range(n)]
    if convex:
        A = (np.array(M).T @ np.array(M) + np.eye(n) * rng.uniform(0.05, 1.0)).tolist()
    else:
        A = [[(M[i][j] + M[j][i]) / 2 for j in range(n)] for i in range(n)]
    terms = []
    for i in range(n):
        for j in range(i, n):
            a = A[i][j] if i == j else 2 * A[i][j]
            a = round(a, 3)
            if a == 0:
                continue
            form = rng.randint(0, 2)
            if i == j and form == 0:
                terms.append(mul(C(a), powi(P(i), 2)))
            elif form == 1:
                terms.append(mul(mul(C(a), P(i)), P(j)))
            else:
                terms.append(mul(mul(P(i), P(j)), C(a)))
    for i in range(n):
        b = round(rng.normal() * 2, 3)
        terms.append(mul(C(b), P(i)) if rng.chance(0.5) else mul(P(i), C(b)))
    e = total(terms)
    if rng.chance(0.7):
        e = add(e, C(round(rng.normal(), 2)))
    return e


def rosenbrock(a=1.0, b=100.0):
    return add(powi(sub(C(a), P(0)), 2), mul(C(b), powi(sub(P(1), powi(P(0), 2)), 2)))


def lsq(rng, kind, npts):
    """sum_i (model(p, x_i) - y_i)^2 with inline constants"""
    xs = [round(rng.uniform(-1.5, 1.5), 2) for _ in range(npts)]
    terms = []
    if kind == "exp":
        t0, t1 = rng.uniform(0.5, 2), rng.uniform(-1, 1)
        model = lambda x: mul(P(0), exp(mul(P(1), C(x))))
        truth = lambda x: t0 * math.exp(t1 * x)
        npar = 2
    elif kind == "sin":
        t0, t1, t2 = rng.uniform(0.5, 2), rng.uniform(0.5, 2), rng.uniform(-1, 1)
        model = lambda x: mul(P(0), sin(add(mul(C(x), P(1)), P(2))))
        truth = lambda x: t0 * math.sin(t1 * x + t2)
        npar = 3
    elif kind == "rational":
        t0, t1 = rng.uniform(0.5, 2), rng.uniform(0.1, 0.5)
        model = lambda x: div(P(0), add(C(1.0), mul(powi(P(1), 2), C(x * x))))
        truth = lambda x: t0 / (1 + t1 * t1 * x * x)
        npar = 2
    elif kind == "divc":
        t0, t1 = rng.uniform(0.5, 2), rng.uniform(-1, 1)
        model = lambda x: add(div(P(0), C(1.0 + x * x)), mul(P(1), C(x)))
        truth = lambda x: t0 / (1 + x * x) + t1 * x
        npar = 2
    elif kind == "logistic_cv":   # 1.0 / (1 + exp(-p0 (x - p1))) : reaches `f64 / Var`
        t0, t1 = rng.uniform(1, 3), rng.uniform(-0.5, 0.5)
        model = lambda x: div(C(1.0), add(C(1.0), exp(mul(neg(P(0)), sub(C(x), P(1))))))
        truth = lambda x: 1 / (1 + math.exp(-t0 * (x - t1)))
        npar = 2
    else:
        raise ValueError(kind)
    for x in xs:
        y = round(truth(x) + 0.05 * rng.normal(), 3)
        terms.append(powi(sub(model(x), C(y)), 2))
    return total(terms), npar


def random_expr(rng, npar, depth, allow_x=False, cdivv=False):
    if depth == 0 or rng.chance(0.15):
        r = rng.random()
        if r < 0.6:
            return P(rng.randint(0, npar - 1))
        if allow_x and r < 0.7:
            return X
        return C(round(rng.normal() * 2, 2))
    k = rng.choice(["add", "sub", "mul", "div", "add", "sub", "mul", "neg", "powi", "exp", "sin"])
    if k in ("add", "sub", "mul"):
        return (k, random_expr(rng, npar, depth - 1, allow_x, cdivv), random_expr(rng, npar, depth - 1, allow_x, cdivv))
    if k == "div":
        a = random_expr(rng, npar, depth - 1, allow_x, cdivv)
        b = random_expr(rng, npar, depth - 1, allow_x, cdivv)
        e = ("div", a, b)
        if not cdivv and has_cdivv(e):
            return ("div", b, C(round(rng.uniform(0.5, 3), 2)))
        return e
    if k == "powi":
        return powi(random_expr(rng, npar, depth - 1, allow_x, cdivv), rng.choice([2, 3, 2, -1, 4, 0, 1, -2]))
    return (k, random_expr(rng, npar, depth - 1, allow_x, cdivv))


def uses_param(e):
    return e[0] == "p" or any(uses_param(s) for s in e[1:] if isinstance(s, tuple))


def top_is_var(e):
    return uses_param(e)


# ----------------------------------------------------------------------------- request lines


def vec(xs):
    xs = list(xs)
    return "0" if not xs else "%d %s" % (len(xs), " ".join(f2h(x) for x in xs))


def ks_str(ks):
    ks = list(ks)
    return "%d %s" % (len(ks), " ".join(str(k) for k in ks))


def line_grad(theta, x, e):
    return "grad %s %s %s" % (vec(theta), "-" if x is None else f2h(x), prog_str(e))


def line_adam(a, b1, b2, eps, theta, ks, e):
    return "adam %s %s %s %s %s %s %s" % (f2h(a), f2h(b1), f2h(b2), f2h(eps), vec(theta), ks_str(ks), prog_str(e))


def line_sgd(a, m, nest, theta, ks, e):
    return "sgd %s %s %d %s %s %s" % (f2h(a), f2h(m), 1 if nest else 0, vec(theta), ks_str(ks), prog_str(e))


def line_lm(e1, e2, tau, theta, xs, ys, ks, e):
    return "lm %s %s %s %s %d %s %s %s %s" % (f2h(e1), f2h(e2), f2h(tau), vec(theta), len(xs),
                                              " ".join(f2h(x) for x in xs), " ".join(f2h(y) for y in ys),
                                              ks_str(ks), prog_str(e))


ROUTED = {"adamr": "adam", "sgdr": "sgd", "lmr": "lm"}


def unroute(line):
    """`adamr <route> …` -> `adam …`: the model (and the oracle) see the directly constructed optimizer with the
    hyper-parameters the request carries; the executor builds it through the named public route"""
    t = line.split(" ", 2)
    if t[0] in ROUTED:
        return ROUTED[t[0]] + " " + t[2]
    return line


def model_line(line):
    return unroute(line)


def routed(line, route):
    t = line.split(" ", 1)
    return "%sr %s %s" % (t[0], route, t[1])


def corpus():
    L = []
    sq = powi(P(0), 2)
    # F29 witness: x -> x^2, SGD step size 1: theta flips sign every step and must never be declared converged
    L.append(line_sgd(1.0, 0.0, False, [3.0], range(1, 13), sq))
    # exact convergence in one step, then the stop test fires (theta' = c, next change 0)
    L.append(line_sgd(0.5, 0.0, False, [3.0], range(1, 8), powi(sub(P(0), C(1.25)), 2)))
    # geometric convergence: the relative change drops below 2^-52 after ~53 steps
    L.append(line_sgd(0.25, 0.0, False, [3.0], range(1, 80), powi(sub(P(0), C(1.25)), 2)))
    L.append(line_sgd(0.2, 0.3, True, [3.0, -1.0], range(1, 120),
                      add(powi(sub(P(0), C(1.25)), 2), mul(C(2.0), powi(add(P(1), C(0.5)), 2)))))
    # Adam started at the optimum: zero gradient, zero step, stop at t = 1
    L.append(line_adam(0.1, 0.9, 0.999, 1e-8, [1.25], range(1, 6), powi(sub(P(0), C(1.25)), 2)))
    # Adam defaults on Rosenbrock (doc example), first steps
    L.append(line_adam(5e-4, 0.9, 0.999, 1e-8, [0.0, 0.0], range(1, 41), rosenbrock()))
    L.append(line_sgd(1e-3, 0.9, True, [0.0, 0.0], range(1, 41), rosenbrock()))
    # exact landing (seeded change C10b): eps = 0, betas 0.5, lr 0.25, f = x^2, x0 = 0.25: x1 = 0 exactly, gradient
    # exactly 0 at step 2 while m, v != 0 -- the published recurrence moves on to -0.1443...
    L.append(line_adam(0.25, 0.5, 0.5, 0.0, [0.25], range(1, 13), sq))
    L.append(line_adam(0.125, 0.9, 0.999, 2.0 ** -70, [1.125, -0.5], range(1, 13), sepquad([1.0, 2.0], [1.0, -0.125])))
    L.append(line_adam(0.25, 0.75, 0.5, 0.0, [0.75, 1.0, 0.5], range(1, 13),
                       add(mul(powi(sub(P(0), C(0.5)), 2), add(C(1.0), mul(C(1.0), P(1)))), powi(sub(P(2), C(1.5)), 2))))
    L.append(line_sgd(0.25, 0.5, False, [3.0, -1.0], range(1, 13), sepquad([2.0, 2.0], [1.25, 0.5])))
    L.append(line_sgd(0.25, 0.5, True, [3.0, -1.0], range(1, 13), sepquad([2.0, 1.0], [1.25, 0.5])))
    # past oracle false alarms, kept as regressions: noise-free linear fit converged to rss ~ 1e-21 (covariance
    # tolerance must account for the rounding of y - f), and g^2 overflowing f64 (v = inf, step 0, stop)
    L.append('lm 3ddb7cdfd9d7bdbb 3d719799812dea11 3f847ae147ae147b 2 401299999999999a 4037dc28f5c28f5c 6 3fc20c49ba5e353f 3fe30a3d70a3d70a 3fe753f7ced91687 3febef9db22d0e56 3ffad916872b020c 3ffe5e353f7ced91 3fe74fdf3b645a1d 3fa851eb851eb852 bfc3a5e353f7ced9 bfd7a5e353f7ced9 bff93b645a1cac08 bffe83126e978d50 1 400 7 p0 c3ff0000000000000 mul x p1 mul add')
    L.append('adam 3fb2bc419fe72c3b 3fd7278b90d99d13 3fd50b4f1fcea930 3f50624dd2f1a9fc 3 bfbeb851eb851eb8 3fc851eb851eb852 bff851eb851eb852 100 1 2 3 4 5 6 7 8 9 10 11 12 13 14 15 16 17 18 19 20 21 22 23 24 25 26 27 28 29 30 31 32 33 34 35 36 37 38 39 40 41 42 43 44 45 46 47 48 49 50 51 52 53 54 55 56 57 58 59 60 61 62 63 64 65 66 67 68 69 70 71 72 73 74 75 76 77 78 79 80 81 82 83 84 85 86 87 88 89 90 91 92 93 94 95 96 97 98 99 100 12 p0 exp exp c3fe2e147ae147ae1 sin mul cbff8cccccccccccd c400c666666666666 neg sin div mul')
    # seeded change C10d (rel_change with an absolute floor): plain SGD halving towards the origin must run all 200
    # steps (2^-200), never "converge"; a 1e-14 start must not stop after the first step
    L.append(line_sgd(0.125, 0.0, False, [0.75, -1.5], range(1, 201), add(mul(C(2.0), powi(P(0), 2)), mul(C(3.0), powi(P(1), 2)))))
    L.append(line_sgd(0.125, 0.5, True, [3.0], range(1, 121), mul(C(2.0), powi(P(0), 2))))
    L.append(line_sgd(1e-3, 0.0, False, [3e-14, -1e-14], range(1, 41), add(powi(P(0), 2), mul(C(2.25), powi(P(1), 2)))))
    L.append(line_adam(1e-17, 0.9, 0.999, 1e-8, [1e-14], range(1, 31), powi(P(0), 2)))
    # seeded change C10g (hand-written Clone resetting the betas): a configured Adam, directly and through .clone()
    L.append('adam 3fb466c9d7fbb6e1 3fe5b8a255db2cab 3fd079cdf25fd3b7 3ddb7cdfd9d7bdbb 1 3ff75c28f5c28f5c 15 1 2 3 4 5 6 7 8 9 10 11 12 13 14 15 6 c3ff0000000000000 p0 c3fe0000000000000 sub powi2 mul')
    L.append('adamr clone 3fb466c9d7fbb6e1 3fe5b8a255db2cab 3fd079cdf25fd3b7 3ddb7cdfd9d7bdbb 1 3ff75c28f5c28f5c 15 1 2 3 4 5 6 7 8 9 10 11 12 13 14 15 6 c3ff0000000000000 p0 c3fe0000000000000 sub powi2 mul')
    # seeded change C10f (NaN gain ratio accepted): exp fit whose first trial overflows / whose Jacobian vanishes
    L.append(line_lm(0.0, 0.0, 1e-300, [2.1, 100.0], [1.67, 5.7, 12.81, 28.06, 33.5], [2.0, 1.9, 1.7, 1.4, 1.3], range(0, 6),
                     mul(P(0), exp(mul(P(1), X)))))
    L.append(line_lm(1e-6, 1e-6, 1e-2, [1.5, -200.0], [4.5, 5.0, 6.25, 7.0, 9.0, 11.5], [2.0, 1.9, 1.7, 1.6, 1.3, 1.1], range(0, 6),
                     mul(P(0), exp(mul(P(1), X)))))
    # seeded change C10m (`<=` instead of `<` in SGD's stop test): 1.0 -> 1 - 2^-52 is a relative change of exactly
    # 2^-52; the run must go on (x_k = 1 - k 2^-52), also with momentum, and for 2^51 -> 2^51 - 0.5
    L.append(line_sgd(0.5, 0.0, False, [1.0], range(1, 11), mul(C(2.0 ** -51), P(0))))
    L.append(line_sgd(0.5, 0.5, False, [2.0 ** 51], range(1, 11), mul(C(1.0), P(0))))
    L.append(line_sgd(0.5, 0.0, False, [4.0], range(1, 11), mul(C(2.0 ** -52), powi(P(0), 2))))
    # review C3: `f64::max` drops a NaN relative change: p0 overflows to -inf at step 1 (rel_change = inf/inf = NaN)
    # while p1 sits on its minimiser, so the run "converges" at step 1 and returns [-inf, 1] for every budget although
    # the recurrence would go on to NaN; covered by correspondence only (the ordered-field theorem has no NaN)
    L.append(line_sgd(1.0, 0.0, False, [1e200, 1.0], range(1, 6), add(mul(C(1e200), powi(P(0), 2)), powi(sub(P(1), C(1.0)), 2))))
    # Adam::new rejects beta <= 0
    L.append(line_adam(0.1, 0.0, 0.999, 1e-8, [1.0], [1], sq))
    L.append(line_adam(0.1, 0.9, -0.5, 1e-8, [1.0], [1], sq))
    # LM doc example: straight line through noise-free points
    xs = [1., 2., 3., 4., 5., 6., 7., 8., 9.]
    ys = [11., 22., 33., 44., 55., 66., 77., 88., 99.]
    L.append(line_lm(1e-6, 1e-6, 1e-2, [1., 2.], xs, ys, range(0, 12), add(mul(X, P(0)), P(1))))
    # LM: fewer points than parameters: `n - param_len` underflows
    L.append(line_lm(1e-6, 1e-6, 1e-2, [1., 2., 3.], [1., 2.], [1., 2.], [3], add(add(mul(X, P(0)), P(1)), mul(P(2), powi(X, 2)))))
    # tape: every operator form once
    L.append(line_grad([1.5, -0.75], 0.5, add(mul(P(0), X), sub(div(P(1), P(0)), div(P(0), C(3.0))))))
    L.append(line_grad([1.5, -0.75], None, sub(C(2.0), mul(neg(P(0)), powi(P(1), 3)))))
    # finding reverse:f64-div-var-weight: d/dp (3/p) at p = 2 is -0.75; the crate's weight -1/x gives -0.5
    L.append(line_grad([2.0], None, div(C(3.0), P(0))))
    return L


def hyper_adam(rng):
    a = rng.loguniform(1e-4, 0.5)
    if rng.chance(0.3):
        b1, b2 = 0.9, 0.999
    else:
        b1, b2 = rng.uniform(0.01, 0.99), rng.uniform(0.01, 0.999)
    eps = rng.choice([1e-8, 1e-8, 1e-6, 1e-3, 1e-10])
    return a, b1, b2, eps


def hyper_sgd(rng):
    a = rng.loguniform(1e-4, 0.5)
    mode = rng.choice(["plain", "momentum", "nesterov", "nesterov"])
    m = 0.0 if mode == "plain" else rng.choice([rng.uniform(0, 0.99), 0.9, 0.5, 0.99])
    return a, m, mode == "nesterov", mode


def objective(rng, cover, allow_cdivv):
    fam = rng.choice(["quad_convex", "quad_convex", "quad_nonconvex", "rosenbrock", "lsq_exp", "lsq_sin",
                      "lsq_rational", "lsq_divc", "rpn"] + (["lsq_logistic_cv"] if allow_cdivv else []))
    if fam.startswith("quad"):
        n = rng.randint(1, 8)
        e = quadratic(rng, n, fam == "quad_convex")
        theta = [round(rng.normal() * 2, 2) for _ in range(n)]
    elif fam == "rosenbrock":
        e = rosenbrock(round(rng.uniform(0.5, 2), 1), rng.choice([100.0, 10.0, 1.0]))
        n = 2
        theta = [round(rng.normal(), 2), round(rng.normal(), 2)]
    elif fam.startswith("lsq"):
        e, n = lsq(rng, fam[4:], rng.randint(3, 8))
        theta = [round(rng.uniform(0.2, 1.5), 2) for _ in range(n)]
    else:
        n = rng.randint(1, 4)
        while True:
            e = random_expr(rng, n, rng.randint(2, 4))
            if uses_param(e):
                break
        theta = [round(rng.normal(), 2) for _ in range(n)]
    cover["obj:" + fam] = cover.get("obj:" + fam, 0) + 1
    return fam, n, e, theta


def lm_problem(rng, cover):
    fam = rng.choice(["linear", "linear", "exponential", "logistic"])
    n = rng.choice([5, 6, 8, 10, 12, 15, 20, 20, 30, 40, 60]) if not rng.chance(0.06) else rng.choice([100, 200])
    lo, hi = (0.0, 2.0) if fam != "logistic" else (-3.0, 3.0)
    xs = sorted(round(rng.uniform(lo, hi), 3) for _ in range(n))
    noise = rng.choice([0.0, 0.01, 0.05, 0.2])
    if fam == "linear":
        p = rng.randint(1, 5)
        basis = rng.choice(["poly", "mixed"])
        truth = [round(rng.normal() * 2, 2) for _ in range(p)]

        def phi(j, x):
            if basis == "poly":
                return x ** j
            return [1.0, x, math.sin(2 * x), math.exp(-x), x * x][j]

        def phi_e(j):
            if basis == "poly":
                return [C(1.0), X, powi(X, 2), powi(X, 3), powi(X, 4)][j]
            return [C(1.0), X, sin(mul(C(2.0), X)), exp(neg(X)), mul(X, X)][j]
        terms = []
        for j in range(p):
            if j == 0 and rng.chance(0.5):
                terms.append(P(0))            # bare parameter
            else:
                terms.append(mul(phi_e(j), P(j)) if rng.chance(0.5) else mul(P(j), phi_e(j)))
        e = total(terms)
        ys = [sum(truth[j] * phi(j, x) for j in range(p)) + noise * rng.normal() for x in xs]
        start = [round(t + rng.normal() * rng.choice([0.1, 3.0, 30.0]), 2) for t in truth]
        fam = "linear_" + basis
    elif fam == "exponential":
        p = rng.choice([2, 3])
        truth = [rng.uniform(0.5, 3), rng.uniform(-1.5, 1.0), rng.uniform(-1, 1)][:p]
        e = mul(P(0), exp(mul(P(1), X)))
        if p == 3:
            e = add(e, P(2))
        ys = [truth[0] * math.exp(truth[1] * x) + (truth[2] if p == 3 else 0.0) + noise * rng.normal() for x in xs]
        start = [round(t * rng.choice([1.1, 0.3, 3.0]) + rng.choice([0.0, 0.5]), 2) for t in truth]
    else:
        p = 3
        truth = [rng.uniform(1, 4), rng.uniform(0.8, 3), rng.uniform(-1, 1)]
        e = div(P(0), add(C(1.0), exp(mul(neg(P(1)), sub(X, P(2))))))
        ys = [truth[0] / (1 + math.exp(-truth[1] * (x - truth[2]))) + noise * rng.normal() for x in xs]
        start = [round(truth[0] * rng.choice([1.2, 0.5, 2.0]), 2), round(truth[1] * rng.choice([1.2, 0.4, 2.5]), 2),
                 round(truth[2] + rng.choice([0.1, -1.0, 1.5]), 2)]
    ys = [round(y, 4) for y in ys]
    cover["lm:" + fam] = cover.get("lm:" + fam, 0) + 1
    cover["lm:p=%d" % p] = cover.get("lm:p=%d" % p, 0) + 1
    return fam, e, start, xs, ys


def sepquad(a, c):
    """sum_j a_j (p_j - c_j)^2 in the form `a * (p - c).powi(2)`"""
    return total([mul(C(a[j]), powi(sub(P(j), C(c[j])), 2)) for j in range(len(a))])


def exact_landing(rng, count, cover):
    """All data dyadic, gradients at the start powers of two, so every quantity of the first steps is exact in f64."""
    L = []
    dy_beta = [0.5, 0.75, 0.875, 0.9375, 0.25]
    for i in range(count):
        kind = ["adam_a", "adam_a", "adam_b", "sgd_c", "sgd_c", "adam_benign"][i % 6]
        n = rng.randint(1, 4)
        lr = rng.choice([0.5, 0.25, 0.125, 0.0625])
        K = rng.choice([6, 12, 20])
        if kind == "adam_a":
            # |x0 - c| = lr: with eps = 0 (or absorbed by |g|) Adam's first step is exactly lr for any betas, so x1 = c:
            # gradient exactly 0 at step 2 with non-zero moments
            a = [rng.choice([0.5, 1.0, 2.0, 4.0]) for _ in range(n)]
            c = [rng.randint(-32, 32) / 8.0 for _ in range(n)]
            land = [rng.chance(0.7) or j == 0 for j in range(n)]   # the other coordinates start elsewhere and move
            x0 = [c[j] + rng.choice([-1, 1]) * (lr if land[j] else lr * rng.choice([2, 3, 5])) for j in range(n)]
            b1, b2 = rng.choice([(rng.choice(dy_beta), rng.choice(dy_beta)), (0.9, 0.999), (0.5, 0.5)])
            eps = rng.choice([0.0, 0.0, 2.0 ** -70, 2.0 ** -80])
            L.append(line_adam(lr, b1, b2, eps, x0, range(1, K + 1), sepquad(a, c)))
        elif kind == "adam_b":
            # f = (x - c)^2 (a + w y) + sum_j b_j (z_j - d_j)^2: step 1 is exactly (-+lr, -lr), so x1 = c and then
            # df/dx = 2 (x-c)(a + w y) = 0 and df/dy = w (x-c)^2 = 0 exactly, both with non-zero moments, z moves
            c = rng.randint(-16, 16) / 8.0
            a, w, y0 = rng.choice([(1.0, 1.0, 1.0), (2.0, 1.0, 2.0), (1.0, 0.5, 2.0), (3.0, 1.0, 1.0)])
            nz = rng.randint(0, 2)
            e = mul(powi(sub(P(0), C(c)), 2), add(C(a), mul(C(w), P(1))))
            x0 = [c + rng.choice([-1, 1]) * lr, y0]
            for j in range(nz):
                d = rng.randint(-16, 16) / 8.0
                e = add(e, mul(C(rng.choice([0.5, 1.0, 2.0])), powi(sub(P(2 + j), C(d)), 2)))
                x0.append(d + rng.choice([-3, 2, 5]) * 0.125)
            b1, b2 = rng.choice([(rng.choice(dy_beta), rng.choice(dy_beta)), (0.9, 0.999)])
            L.append(line_adam(lr, b1, b2, rng.choice([0.0, 2.0 ** -70]), x0, range(1, K + 1), e))
        elif kind == "adam_benign":
            # a coordinate that starts on its centre with zero moments: 0/(0+eps) = 0, it must never move
            a = [rng.choice([0.5, 1.0, 2.0]) for _ in range(n + 1)]
            c = [rng.randint(-32, 32) / 8.0 for _ in range(n + 1)]
            x0 = [c[0]] + [c[j] + rng.choice([-1, 1]) * lr * rng.choice([1, 3]) for j in range(1, n + 1)]
            L.append(line_adam(lr, rng.choice(dy_beta + [0.9]), rng.choice(dy_beta + [0.999]),
                               rng.choice([1e-8, 2.0 ** -70]), x0, range(1, K + 1), sepquad(a, c)))
        else:
            # f = sum a_j (x_j - c_j)^2 with lr = 1/(2a): lr * gradient lands exactly on the minimiser; with momentum
            # the velocity is non-zero there, so the next step moves although the gradient is exactly 0
            a0 = rng.choice([0.5, 1.0, 2.0, 4.0])
            lr = 1.0 / (2 * a0)
            a = [a0 if (j == 0 or rng.chance(0.5)) else a0 * rng.choice([0.5, 0.25]) for j in range(n)]
            c = [rng.randint(-32, 32) / 8.0 for _ in range(n)]
            x0 = [c[j] + rng.choice([-1, 1]) * rng.choice([0.5, 1.0, 1.5, 2.0, 0.375]) for j in range(n)]
            mode = ["plain", "momentum", "nesterov"][(i // 6) % 3]
            mom = 0.0 if mode == "plain" else rng.choice([0.5, 0.25, 0.75, 0.875])
            L.append(line_sgd(lr, mom, mode == "nesterov", x0, range(1, K + 1), sepquad(a, c)))
            kind = "sgd_c:" + mode
        cover["exact-landing:" + kind] = cover.get("exact-landing:" + kind, 0) + 1
    return L


def contraction_to_origin(rng, count, cover, Kmax):
    """Quadratics sum a_j p_j^2 (minimiser exactly 0) with stepsize * a_j such that plain SGD multiplies coordinate j
    by the constant r_j = 1 - 2 lr a_j in {1/2, 1/4, -1/2, 0.9}: the iterates run down to 1e-60 .. subnormal while the
    relative change stays |1 - r|; momentum / Nesterov variants; tiny-magnitude starts with minimisers at 0 and at tiny
    non-zero values (there the relative test legitimately fires after ~53 halvings); Adam with tiny starts and steps."""
    L = []
    LA = {0.5: 0.25, 0.25: 0.375, -0.5: 0.75, 0.9: 0.05}     # r -> lr * a
    for i in range(count):
        kind = ["origin", "origin", "tiny", "tiny_centre", "adam_tiny", "origin"][i % 6]
        mode = ["plain", "momentum", "nesterov"][(i // 6) % 3]
        n = rng.randint(1, 4)
        lr = rng.choice([0.125, 0.25, 0.0625, 0.2])
        rs = [rng.choice([0.5, 0.25, -0.5, 0.9, 0.5]) for _ in range(n)]
        a = [LA[r] / lr for r in rs]
        mom = 0.0 if mode == "plain" else rng.choice([0.25, 0.5, 0.125])
        K = Kmax if i % 3 == 0 else rng.choice([60, 120, Kmax])
        if kind == "origin":
            x0 = [rng.choice([0.75, -1.5, 3.0, 0.3, -0.011, 1.0, 1e-3]) for _ in range(n)]
            e = total([mul(C(a[j]), powi(P(j), 2)) if rng.chance(0.5) else mul(mul(P(j), P(j)), C(a[j])) for j in range(n)])
            L.append(line_sgd(lr, mom, mode == "nesterov", x0, range(1, K + 1), e))
        elif kind == "tiny":
            mag = rng.choice([1e-14, 1e-30, 1e-200, 2.0 ** -50, 1e-300])
            x0 = [mag * rng.choice([1.0, -2.5, 0.3]) for _ in range(n)]
            e = total([mul(C(a[j]), powi(P(j), 2)) for j in range(n)])
            L.append(line_sgd(lr, mom, mode == "nesterov", x0, range(1, min(K, 120) + 1), e))
        elif kind == "tiny_centre":
            mag = rng.choice([1e-14, 1e-30, 1e-200])
            c = [mag * rng.choice([0.3, -0.1, 1.0]) for _ in range(n)]
            x0 = [mag * rng.choice([1.0, -2.5, 3.0]) for _ in range(n)]
            rs2 = [r if r != 0.9 else 0.5 for r in rs]          # converge inside the budget: legit relative stop
            a2 = [LA[r] / lr for r in rs2]
            L.append(line_sgd(lr, mom, mode == "nesterov", x0, range(1, min(K, 120) + 1), sepquad(a2, c)))
        else:
            # Adam moves by about its stepsize per step: tiny start, stepsize a fraction of it (far below 2.2e-16)
            mag = rng.choice([1e-14, 1e-30, 1e-100])
            x0 = [mag * rng.choice([1.0, -2.5, 0.3]) for _ in range(n)]
            c = [0.0 if rng.chance(0.5) else mag * rng.choice([0.3, -0.1]) for _ in range(n)]
            b1, b2 = rng.choice([(0.9, 0.999), (0.5, 0.5), (0.75, 0.9)])
            L.append(line_adam(mag * rng.choice([1e-3, 0.1, 0.01]), b1, b2, rng.choice([1e-8, 2.0 ** -70, 1e-10]), x0,
                               range(1, min(K, 60) + 1), sepquad([rng.choice([0.5, 1.0, 2.0]) for _ in range(n)], c)))
            mode = "adam"
        cover["contraction:%s:%s" % (kind, mode)] = cover.get("contraction:%s:%s" % (kind, mode), 0) + 1
    return L


ADAM_ROUTES_CFG = ["clone", "clone2", "used_clone", "reuse", "set_stepsize", "clone_set"]
ADAM_ROUTES_DEF = ["default", "with_stepsize", "default_set", "with_stepsize_clone"]
SGD_ROUTES_CFG = ["clone", "used_clone", "reuse", "set_stepsize", "clone_set"]
SGD_ROUTES_DEF = ["default", "default_set", "default_clone"]
LM_ROUTES_CFG = ["clone", "reuse", "fields", "fields_clone"]
LM_ROUTES_DEF = ["default", "default_clone"]


def route_lines(rng, count, cover):
    """Every problem is run through the direct constructor and through each peripheral route; the model is always the
    directly constructed optimizer with the hyper-parameters of the request."""
    L = []
    for i in range(count):
        which = ["adam", "sgd", "lm"][i % 3]
        if which == "adam":
            n = rng.randint(1, 3)
            e = quadratic(rng, n, True) if rng.chance(0.6) else sepquad([1.0] * n, [0.5] * n)
            th = [round(rng.normal() * 2, 2) for _ in range(n)]
            a = rng.loguniform(1e-3, 0.3)
            b1, b2, eps = rng.uniform(0.05, 0.85), rng.uniform(0.05, 0.95), rng.choice([1e-6, 1e-3, 1e-10])
            ks = range(1, 16)
            base = line_adam(a, b1, b2, eps, th, ks, e)
            L.append(base)
            for r in ADAM_ROUTES_CFG:
                L.append(routed(base, r))
            L.append(routed(line_adam(0.001, 0.9, 0.999, 1e-8, th, ks, e), "default"))
            for r in ADAM_ROUTES_DEF[1:]:
                L.append(routed(line_adam(a, 0.9, 0.999, 1e-8, th, ks, e), r))
        elif which == "sgd":
            n = rng.randint(1, 3)
            e = quadratic(rng, n, True)
            th = [round(rng.normal() * 2, 2) for _ in range(n)]
            a, m, nest, _ = hyper_sgd(rng)
            a = min(a, 0.05)
            ks = range(1, 16)
            base = line_sgd(a, m, nest, th, ks, e)
            L.append(base)
            for r in SGD_ROUTES_CFG:
                L.append(routed(base, r))
            L.append(routed(line_sgd(1e-5, 0.9, True, th, ks, e), "default"))
            L.append(routed(line_sgd(1e-5, 0.9, True, th, ks, e), "default_clone"))
            L.append(routed(line_sgd(a, 0.9, True, th, ks, e), "default_set"))
        else:
            fam, e, start, xs, ys = lm_problem(rng, {})
            xs, ys = xs[:12], ys[:12]
            e1, e2, tau = rng.choice([(1e-9, 1e-9, 1e-3), (1e-4, 1e-8, 1.0), (1e-7, 1e-5, 0.1)])
            ks = range(0, 9)
            base = line_lm(e1, e2, tau, start, xs, ys, ks, e)
            L.append(base)
            for r in LM_ROUTES_CFG:
                L.append(routed(base, r))
            for r in LM_ROUTES_DEF:
                L.append(routed(line_lm(1e-6, 1e-6, 1e-2, start, xs, ys, ks, e), r))
        cover["routes:" + which] = cover.get("routes:" + which, 0) + 1
    return L


def exact_boundary(cover):
    """Deterministic enumeration.  Linear objectives c*x and quadratics a*x^2 with power-of-two step sizes and
    coefficients, starts on powers of two and their ulp-neighbours, so that the first step changes the parameter by
    exactly 0, 2^-54, 2^-53, 2^-52 (the tie of `max rel_change < EPSILON`), 2^-51, 2^-50 relative, towards and away
    from zero, for k = 1..10; plain / momentum / Nesterov SGD and Adam; zero gradients, zero and signed-zero
    parameters; LM: ties of the eps1 / eps2 tests, gain ratio exactly 0, 0/0 and 1/2."""
    L = []

    def cnt(k):
        cover["boundary:" + k] = cover.get("boundary:" + k, 0) + 1
    ks = range(1, 11)
    modes = [("plain", 0.0, False), ("momentum", 0.5, False), ("nesterov", 0.5, True)]
    lr = 0.5
    JS = [None, -54, -53, -52, -51, -50]
    for e in (0, 2, 51, -10):
        Pw = 2.0 ** e
        for sgn in (1.0, -1.0):
            for j in JS:
                for away in ((False,) if j is None else (False, True)):
                    delta = 0.0 if j is None else 2.0 ** (e + j)
                    # x' = x - lr*c : towards zero means lr*c has the sign of x
                    c = (sgn if not away else -sgn) * delta / lr
                    for name, mom, nest in modes:
                        L.append(line_sgd(lr, mom, nest, [sgn * Pw], ks, mul(C(c), P(0)) if e != 2 else mul(P(0), C(c))))
                        cnt("sgd-linear:%s:%s" % (name, "0" if j is None else "2^%d" % j))
    # quadratics a x^2 from x0 = 4 * 2^e: lr * 2 a x0 = x0 * 2^j
    for e in (0, 2):
        x0 = 4.0 * 2.0 ** e
        for j in JS[1:]:
            a = 2.0 ** j / (2 * lr)
            for name, mom, nest in modes:
                L.append(line_sgd(lr, mom, nest, [x0], ks, mul(C(a), powi(P(0), 2))))
                cnt("sgd-quadratic:%s:2^%d" % (name, j))
    # ulp-neighbours of a power of two as starts
    for e in (0, 51):
        Pw = 2.0 ** e
        for x0 in (Pw - 2.0 ** (e - 53), Pw + 2.0 ** (e - 52), Pw - 2.0 ** (e - 52)):
            for d in (2.0 ** (e - 53), -2.0 ** (e - 53), 2.0 ** (e - 52), -2.0 ** (e - 52), 2.0 ** (e - 54)):
                for name, mom, nest in modes[:2]:
                    L.append(line_sgd(lr, mom, nest, [x0], ks, mul(C(d / lr), P(0))))
                    cnt("sgd-ulp-neighbour:" + name)
    # two coordinates: the first sits on the tie, the second moves by 0 / less / more
    for c1 in (0.0, 2.0 ** -60, 2.0 ** -40):
        for name, mom, nest in modes:
            L.append(line_sgd(lr, mom, nest, [1.0, 1.0], ks, add(mul(C(2.0 ** -51), P(0)), mul(C(c1), P(1)))))
            cnt("sgd-2d-tie:" + name)
    # zero gradient at the start, zero and signed-zero parameters (denominator of the relative change)
    for x0 in (0.0, -0.0):
        for c in (0.0, -0.0, 2.0 ** -60, -1.0, 2.0 ** -1074):
            for name, mom, nest in modes:
                L.append(line_sgd(lr, mom, nest, [x0], ks, mul(C(c), P(0))))
                cnt("sgd-zero-param:" + name)
        for name, mom, nest in modes:
            L.append(line_sgd(lr, mom, nest, [x0, 1.0], ks, add(mul(C(2.0), powi(P(0), 2)), powi(sub(P(1), C(1.0)), 2))))
            cnt("sgd-zero-gradient:" + name)
    for name, mom, nest in modes:
        L.append(line_sgd(0.25, mom, nest, [1.25, -3.0], ks, sepquad([1.0, 2.0], [1.25, -3.0])))
        cnt("sgd-zero-gradient:" + name)
    # Adam: with eps = 0 (or absorbed) and a power-of-two gradient the first step is exactly the step size
    for e in (0, 51):
        Pw = 2.0 ** e
        for sgn in (1.0, -1.0):
            for j in JS[1:]:
                for away in (False, True):
                    for (b1, b2) in ((0.5, 0.5), (0.9, 0.999)):
                        for eps in (0.0, 2.0 ** -70):
                            c = sgn if not away else -sgn
                            L.append(line_adam(2.0 ** (e + j), b1, b2, eps, [sgn * Pw], ks, mul(C(c), P(0))))
                            cnt("adam-linear:2^%d" % j)
    for x0 in (1.0, 0.0, -0.0):
        for eps in (2.0 ** -70, 1e-8, 0.0):
            L.append(line_adam(0.125, 0.5, 0.5, eps, [x0], ks, mul(C(0.0), P(0))))     # eps = 0: 0/0
            cnt("adam-zero-gradient")
    L.append(line_adam(0.125, 0.9, 0.999, 1e-8, [0.0, 1.0], ks, add(powi(P(0), 2), powi(sub(P(1), C(1.0)), 2))))
    cnt("adam-zero-gradient")
    # ---- LM: model `p0` (Jacobian of ones), two points
    lk = range(0, 5)
    one = [P(0)] and P(0)
    up = lambda x: math.nextafter(x, math.inf)
    dn = lambda x: math.nextafter(x, -math.inf)
    for eps1 in (dn(1.0), 1.0, up(1.0)):            # |J^T r|_1 = 1 exactly: `<= eps1`
        L.append(line_lm(eps1, 0.0, 0.5, [1.0], [0.0, 1.0], [1.0, 2.0], lk, one))
        cnt("lm-eps1-tie")
    for y2 in (dn(6.25), 6.25, up(6.25)):           # |delta| = 0.8125 = eps2 (|theta| + eps2) exactly: `<=`
        L.append(line_lm(0.0, 0.25, 0.5, [3.0], [0.0, 1.0], [3.0, y2], lk, one))
        cnt("lm-eps2-tie")
    for y2 in (dn(2.0), 2.0, up(2.0)):              # mu = -1/2: the trial point mirrors the start, rss' = rss, rho = 0
        L.append(line_lm(0.0, 0.0, -0.25, [1.0], [0.0, 1.0], [1.0, y2], lk, one))
        cnt("lm-rho-zero")
    for tau in (-0.25 * (1 + 2.0 ** -30), -0.25 * (1 - 2.0 ** -30)):   # just short of / beyond the mirror point
        L.append(line_lm(0.0, 0.0, tau, [1.0], [0.0, 1.0], [1.0, 2.0], lk, one))
        cnt("lm-rho-zero")
    for th0 in (1.5, dn(1.5), up(1.5)):             # start on the optimum, negative tolerances: delta = 0, rho = 0/0
        L.append(line_lm(-1.0, -1.0, 0.5, [th0], [0.0, 1.0], [1.0, 2.0], lk, one))
        cnt("lm-rho-nan")
    for y1 in (dn(1.25), 1.25, up(1.25)):           # model p0*x, sum x^2 = 1/8, mu = 3: rho = 1/2 exactly, mu := 1
        L.append(line_lm(0.0, 0.0, 24.0, [1.0], [0.25, 0.25], [y1, 0.25], lk, mul(P(0), X)))
        cnt("lm-rho-half")
    return L


def lm_hostile(rng, count, cover):
    """Starts from which the first trial points overflow (exp), produce inf - inf / 0 * inf / x/0, or where a Jacobian
    column underflows to 0 (singular damped normal matrix, NaN step): the gain ratio is NaN and the step must be
    rejected; whatever happens the result must stay finite with rss <= rss(start)."""
    L = []
    for i in range(count):
        kind = ["exp_over", "exp_vanish", "logistic_steep", "rational", "exp_diff", "exp_over", "logistic_steep",
                "exp_prod"][i % 8]
        n = rng.choice([5, 6, 8, 10, 12, 20])
        noise = rng.choice([0.0, 0.01, 0.1])
        if kind in ("exp_over", "exp_vanish", "exp_diff", "exp_prod"):
            xmax = rng.choice([50.0, 140.0, 700.0, 8.0])
            xs = sorted(round(rng.uniform(0.0, xmax), 2) for _ in range(n))
            a_t, b_t = rng.uniform(0.5, 3), rng.uniform(-2.0, 0.5) / xmax
            ys = [a_t * math.exp(b_t * x) + noise * rng.normal() for x in xs]
            if kind == "exp_over":
                e = mul(P(0), exp(mul(P(1), X)))
                start = [round(a_t * rng.choice([1.0, 3.0, 0.2]), 2), rng.choice([5.0, 20.0, 100.0, 1.0, 0.5]) * rng.choice([1, 1, 0.1])]
            elif kind == "exp_vanish":
                e = mul(P(0), exp(mul(P(1), X))) if rng.chance(0.5) else add(mul(P(0), exp(mul(P(1), X))), mul(P(2), C(0.0)))
                start = [round(a_t * rng.choice([1.0, 3.0]), 2), rng.choice([-200.0, -1000.0, -50.0])]
                if e[0] == "add":
                    start.append(1.0)
                xs = [x + 4.0 for x in xs]
            elif kind == "exp_diff":      # a exp(b x) - c exp(d x): inf - inf
                e = sub(mul(P(0), exp(mul(P(1), X))), mul(P(2), exp(mul(P(3), X))))
                start = [round(a_t * 2, 2), rng.choice([1.0, 5.0, 20.0]), round(a_t, 2), rng.choice([1.0, 5.0, 19.0])]
            else:                          # a exp(b x) exp(-c x): inf * 0
                e = mul(mul(P(0), exp(mul(P(1), X))), exp(neg(mul(P(2), X))))
                start = [round(a_t, 2), rng.choice([5.0, 20.0, 100.0]), rng.choice([5.0, 20.0, 99.0])]
        elif kind == "logistic_steep":
            xs = sorted(round(rng.uniform(-3.0, 3.0), 2) for _ in range(n))
            t = [rng.uniform(1, 4), rng.uniform(0.8, 3), rng.uniform(-1, 1)]
            ys = [t[0] / (1 + math.exp(-t[1] * (x - t[2]))) + noise * rng.normal() for x in xs]
            e = div(P(0), add(C(1.0), exp(mul(neg(P(1)), sub(X, P(2))))))
            start = [round(t[0] * rng.choice([1.2, 0.5]), 2), rng.choice([50.0, 150.0, 500.0, 20.0]), round(t[2] + rng.choice([0.1, -1.0, 1.5]), 2)]
        else:                              # a / (x - c) with c0 inside the data range (sometimes on a data point)
            xs = sorted(round(rng.uniform(1.0, 5.0), 2) for _ in range(n))
            a_t, c_t = rng.uniform(0.5, 3), rng.uniform(-1.0, 0.5)
            ys = [a_t / (x - c_t) + noise * rng.normal() for x in xs]
            e = div(P(0), sub(X, P(1)))
            start = [round(a_t * rng.choice([1.0, 3.0]), 2), rng.choice([xs[n // 2], (xs[1] + xs[2]) / 2, xs[0] + 1e-9, round(rng.uniform(1.5, 4.5), 2)])]
        ys = [round(y, 4) for y in ys]
        e1, e2 = rng.choice([(1e-6, 1e-6), (0.0, 0.0), (1e-300, 1e-300), (1e-12, 1e-14)])
        tau = rng.choice([1e-2, 1e-2, 1e-300, 1e-12, 1e6, 1e300, 1.0])
        L.append(line_lm(e1, e2, tau, start, xs, ys, range(0, rng.choice([8, 15, 25]) + 1), e))
        cover["lm-hostile:" + kind] = cover.get("lm-hostile:" + kind, 0) + 1
    return L


def gen(rng, tier):
    lines = []
    cover = {}
    thorough = tier == "thorough"
    # tape gradients of random programs (including the data point x)
    for _ in range(400 if not thorough else 5000):
        n = rng.randint(1, 4)
        while True:
            e = random_expr(rng, n, rng.randint(1, 5), allow_x=True, cdivv=rng.chance(0.1))
            if uses_param(e):
                break
        theta = [round(rng.normal() * 1.5, 2) if rng.chance(0.9) else rng.choice([0.0, 1.0, -1.0, 1e-3, 30.0]) for _ in range(n)]
        lines.append(line_grad(theta, round(rng.normal(), 2), e))
        cover["grad"] = cover.get("grad", 0) + 1
    # Adam / SGD trajectories
    ntraj = 70 if not thorough else 500
    for i in range(ntraj):
        fam, n, e, theta = objective(rng, cover, allow_cdivv=rng.chance(0.08))
        if thorough:
            K = rng.choice([200, 200, 100, 50, 400]) if i % 80 else 2000
        else:
            K = rng.choice([200, 100, 60, 40, 25]) if i % 10 else 200
        if rng.chance(0.5):
            a, b1, b2, eps = hyper_adam(rng)
            lines.append(line_adam(a, b1, b2, eps, theta, range(1, K + 1), e))
            cover["adam"] = cover.get("adam", 0) + 1
        else:
            a, m, nest, mode = hyper_sgd(rng)
            if fam in ("quad_nonconvex", "rosenbrock", "rpn"):
                a = min(a, 0.02)
            lines.append(line_sgd(a, m, nest, theta, range(1, K + 1), e))
            cover["sgd:" + mode] = cover.get("sgd:" + mode, 0) + 1
        if rng.chance(0.1):
            lines.append(lines[-1])    # determinism: the same request twice
    # early-stop regime: well-conditioned convex problems with large steps converge inside the budget
    for i in range(10 if not thorough else 60):
        n = rng.randint(1, 3)
        c = [round(rng.uniform(0.5, 3) * rng.choice([-1, 1]), 2) for _ in range(n)]
        w = [rng.choice([1.0, 2.0, 0.5]) for _ in range(n)]
        e = total([mul(C(w[j]), powi(sub(P(j), C(c[j])), 2)) for j in range(n)])
        theta = [round(rng.normal() * 2, 2) for _ in range(n)]
        a = rng.choice([0.25, 0.2, 0.125, 0.3])
        mode = rng.choice(["plain", "momentum", "nesterov"])
        m = 0.0 if mode == "plain" else rng.choice([0.1, 0.3, 0.5])
        lines.append(line_sgd(a, m, mode == "nesterov", theta, range(1, 201), e))
        cover["sgd-earlystop:" + mode] = cover.get("sgd-earlystop:" + mode, 0) + 1
    # exact-landing stratum: dyadic data such that an iterate lands bit-exactly on a stationary coordinate while the
    # moments / the velocity are non-zero (gradient component exactly 0.0 on a step that must still move)
    for l in exact_landing(rng, 40 if not thorough else 400, cover):
        lines.append(l)
    # geometric contraction to the origin / tiny magnitudes: the RELATIVE stop test must not fire although the absolute
    # changes run far below 1e-16
    for l in contraction_to_origin(rng, 36 if not thorough else 300, cover, 200 if not thorough else 400):
        lines.append(l)
    # peripheral routes to a configured optimizer: clone, Default, with_stepsize, set_stepsize, public fields
    for l in route_lines(rng, 12 if not thorough else 80, cover):
        lines.append(l)
    # exact boundaries of every stop / accept test
    for l in exact_boundary(cover):
        lines.append(l)
    # LM from hostile starts: overflow / NaN trial points, vanishing Jacobian columns, extreme damping
    for l in lm_hostile(rng, 40 if not thorough else 400, cover):
        lines.append(l)
    # Levenberg-Marquardt
    for i in range(60 if not thorough else 450):
        fam, e, start, xs, ys = lm_problem(rng, cover)
        n = len(xs)
        K = 25 if n <= 20 else (12 if n <= 60 else 5)
        if thorough and n <= 20:
            K = 50
        e1, e2, tau = rng.choice([(1e-6, 1e-6, 1e-2), (1e-6, 1e-6, 1e-2), (1e-9, 1e-9, 1e-3), (1e-4, 1e-8, 1.0)])
        lines.append(line_lm(e1, e2, tau, start, xs, ys, range(0, K + 1), e))
        if rng.chance(0.1):
            lines.append(lines[-1])
    # LM run to convergence on models linear in the parameters (least-squares solution reached)
    for i in range(25 if not thorough else 120):
        while True:
            fam, e, start, xs, ys = lm_problem(rng, cover)
            if fam.startswith("linear") and len(xs) <= 40:
                break
        e1, e2, tau = rng.choice([(1e-6, 1e-6, 1e-2), (1e-9, 1e-9, 1e-3), (1e-10, 1e-12, 1e-2)])
        lines.append(line_lm(e1, e2, tau, start, xs, ys, [400 if not thorough else 1500], e))
        cover["lm-converge"] = cover.get("lm-converge", 0) + 1
    return lines, cover


def nontrivial(line, reply):
    t0 = line.split(" ", 2)
    pre = ""
    if t0[0] in ROUTED:
        pre = t0[1] + ":"
        line = unroute(line)
        r = nontrivial(line, reply)
        return None if r is None else pre + r
    t = line.split()
    if not reply.startswith("="):
        return t[0] + ":panic"
    if t[0] == "grad":
        return "grad:%s:%s" % (t[1], t[-1])
    if t[0] == "adam":
        return "adam:%s:%d" % (t[5], len(t))
    if t[0] == "sgd":
        return "sgd:%s:%s:%d" % (t[3], t[4], len(t))
    return "lm:%s:%d" % (t[4], len(t))


# ----------------------------------------------------------------------------- oracle
# Independent evaluation of the property on the implementation's replies:
#  * true values / derivatives of the objective by textbook differentiation rules on the expression tree, in
#    outward-rounded 53-bit interval arithmetic (mpmath.iv): the interval encloses the exact real value and its
#    radius measures how far a correctly rounded evaluation may be from it (conditioning included);
#  * the published recurrences (Kingma-Ba Adam with bias correction; SGD with momentum / Nesterov look-ahead)
#    applied one step at a time to the implementation's own previous iterate (errors cannot compound chaotically);
#  * the stop rule evaluated exactly with rationals;
#  * LM: residual sums of squares / Jacobians / least-squares solutions at 200-bit precision.
TOL_K = 16384.0       # multiples of the interval radius (calibration: observed maximum 106 over 12 seeds + thorough)
TOL_ULP = 512.0       # plus this many eps of the magnitudes involved
EPS = 2.0 ** -52


def _post(e, nodes):
    k = e[0]
    if k in ("p", "c", "x"):
        nodes.append((k, e[1] if k != "x" else None))
    elif k == "powi":
        a = _post(e[1], nodes)
        nodes.append((k, a, e[2]))
    elif k in ("neg", "exp", "sin"):
        a = _post(e[1], nodes)
        nodes.append((k, a))
    else:
        a = _post(e[1], nodes)
        b = _post(e[2], nodes)
        nodes.append((k, a, b))
    return len(nodes) - 1


class Prog:
    """expression tree flattened once; value + gradient by reverse accumulation with the textbook rules"""

    def __init__(self, e):
        self.nodes = []
        _post(e, self.nodes)
        self.isvar = []
        for nd in self.nodes:
            k = nd[0]
            if k == "p":
                self.isvar.append(True)
            elif k in ("c", "x"):
                self.isvar.append(False)
            elif k in ("add", "sub", "mul", "div"):
                self.isvar.append(self.isvar[nd[1]] or self.isvar[nd[2]])
            else:
                self.isvar.append(self.isvar[nd[1]])

    def valgrad(self, theta, x, F, crate_rule=False):
        """crate_rule=True: differentiate `constant / variable` the way reverse 0.2.2 does (weight -1/x), used only
        to attribute a failure to the known finding reverse:f64-div-var-weight"""
        """theta: list of numbers of context F (F.num converts floats); returns (value, [d/dtheta_i])"""
        nodes = self.nodes
        val = [None] * len(nodes)
        for i, nd in enumerate(nodes):
            k = nd[0]
            if k == "p":
                val[i] = theta[nd[1]]
            elif k == "c":
                val[i] = F.num(nd[1])
            elif k == "x":
                val[i] = x
            elif k == "add":
                val[i] = val[nd[1]] + val[nd[2]]
            elif k == "sub":
                val[i] = val[nd[1]] - val[nd[2]]
            elif k == "mul":
                val[i] = val[nd[1]] * val[nd[2]]
            elif k == "div":
                val[i] = val[nd[1]] / val[nd[2]]
            elif k == "neg":
                val[i] = -val[nd[1]]
            elif k == "powi":
                val[i] = F.powi(val[nd[1]], nd[2])
            elif k == "exp":
                val[i] = F.exp(val[nd[1]])
            elif k == "sin":
                val[i] = F.sin(val[nd[1]])
        F.guard(val)
        adj = [None] * len(nodes)
        adj[-1] = F.num(1.0)
        g = [F.num(0.0) for _ in theta]

        def acc(j, v):
            adj[j] = v if adj[j] is None else adj[j] + v
        for i in range(len(nodes) - 1, -1, -1):
            a = adj[i]
            if a is None:
                continue
            nd = nodes[i]
            k = nd[0]
            if k == "p":
                g[nd[1]] = g[nd[1]] + a
            elif k == "add":
                acc(nd[1], a)
                acc(nd[2], a)
            elif k == "sub":
                acc(nd[1], a)
                acc(nd[2], -a)
            elif k == "mul":
                acc(nd[1], a * val[nd[2]])
                acc(nd[2], a * val[nd[1]])
            elif k == "div":
                acc(nd[1], a / val[nd[2]])
                if crate_rule and not self.isvar[nd[1]] and self.isvar[nd[2]]:
                    acc(nd[2], -a / val[nd[2]])
                else:
                    acc(nd[2], -(a * val[nd[1]]) / F.powi(val[nd[2]], 2))
            elif k == "neg":
                acc(nd[1], -a)
            elif k == "powi":
                n = nd[2]
                if n != 0:
                    acc(nd[1], a * F.num(float(n)) * F.powi(val[nd[1]], n - 1))
            elif k == "exp":
                acc(nd[1], a * val[i])
            elif k == "sin":
                acc(nd[1], a * F.cos(val[nd[1]]))
        F.guard(adj)
        return val[-1], g


class OutOfRange(Exception):
    """a quantity leaves the range in which f64 behaves like real arithmetic (overflow): out of the oracle's scope"""


class IV:
    """53-bit outward-rounded intervals"""
    def __init__(self):
        from mpmath import iv
        iv.prec = 53
        self.iv = iv
        self.exp, self.sin, self.cos, self.sqrt = iv.exp, iv.sin, iv.cos, iv.sqrt

    def num(self, x):
        return self.iv.mpf(x)

    def powi(self, a, n):
        return a ** n

    @staticmethod
    def ok(a):
        return math.isfinite(float(a.a)) and math.isfinite(float(a.b))

    @staticmethod
    def guard(vals):
        """f64 overflows where the interval evaluation (unbounded exponent) does not: such runs are not judged"""
        for a in vals:
            if a is not None and not (abs(float(a.a)) < 1e150 and abs(float(a.b)) < 1e150):
                raise OutOfRange()

    @staticmethod
    def mid_rad(a):
        lo, hi = float(a.a), float(a.b)
        return (lo + hi) / 2, (hi - lo) / 2 + 2 ** -1070


class MP:
    """200-bit floating point (treated as exact)"""
    def __init__(self):
        import mpmath
        self.mp = mpmath.mp.clone()
        self.mp.prec = 200
        self.exp, self.sin, self.cos, self.sqrt = self.mp.exp, self.mp.sin, self.mp.cos, self.mp.sqrt

    def num(self, x):
        return self.mp.mpf(x)

    def powi(self, a, n):
        return a ** n

    @staticmethod
    def guard(vals):
        pass


def within(impl, ival, extra_mag=0.0, stats=None):
    """is the float `impl` compatible with a correctly rounded evaluation of the quantity enclosed by `ival`?"""
    m, r = IV.mid_rad(ival)
    tol = TOL_K * r + TOL_ULP * EPS * (abs(m) + extra_mag)
    d = abs(impl - m)
    if stats is not None and 0 < d <= tol:
        # observed distance in units of (radius + eps*magnitude): the calibration statistic
        stats["maxratio"] = max(stats.get("maxratio", 0.0), d / (r + EPS * (abs(m) + extra_mag) + 1e-300))
    return d <= tol


def rel_change_exact(new, old):
    from fractions import Fraction
    if new == old:
        return Fraction(0)
    n, o = Fraction(new), Fraction(old)
    return abs(n - o) / max(abs(n), abs(o))


def stopped_exact(new, old):
    from fractions import Fraction
    if any(not math.isfinite(v) for v in new + old):
        return None
    return max(rel_change_exact(a, b) for a, b in zip(new, old)) < Fraction(1, 2 ** 52)


def check_traj(kind, t, reply_toks, F, stats, crate_rule=False):
    """-> (key, message) or None"""
    if kind == "adam":
        a, b1, b2, eps = [h2f(v) for v in t[1:5]]
        pos = 5
    else:
        a, mom, nest = h2f(t[1]), h2f(t[2]), t[3] == "1"
        pos = 4
    n = int(t[pos])
    theta0 = [h2f(v) for v in t[pos + 1:pos + 1 + n]]
    pos += 1 + n
    nk = int(t[pos])
    ks = [int(v) for v in t[pos + 1:pos + 1 + nk]]
    pos += 1 + nk
    e = parse_prog(t[pos + 1:])
    if kind == "adam" and not (b1 > 0 and b2 > 0):
        return ("adam-new-accepts-nonpositive-beta", "Adam::new accepted beta1=%r beta2=%r" % (b1, b2))
    if len(reply_toks) != nk * n:
        return (kind + "-reply-shape", "expected %d values, got %d" % (nk * n, len(reply_toks)))
    if ks != list(range(1, nk + 1)):
        return None
    its = [theta0] + [[h2f(v) for v in reply_toks[i * n:(i + 1) * n]] for i in range(nk)]
    P_ = Prog(e)
    cdv = has_cdivv(e)
    one = F.num(1.0)
    m = [F.num(0.0)] * n
    v = [F.num(0.0)] * n
    u = [F.num(0.0)] * n
    stopped = False
    for tt in range(1, nk + 1):
        prev, cur = its[tt - 1], its[tt]
        if stopped:
            if [f2h(x) for x in cur] != [f2h(x) for x in prev]:
                return (kind + "-moves-after-stop", "maxsteps=%d: parameters changed although the stop test had fired before" % tt)
            stats["after_stop"] = stats.get("after_stop", 0) + 1
            continue
        if any(not math.isfinite(x) for x in prev + cur):
            stats["nonfinite"] = stats.get("nonfinite", 0) + 1
            return None
        th = [F.num(x) for x in prev]
        try:
            if kind == "adam":
                _, g = P_.valgrad(th, None, F, crate_rule)
                exp_ = []
                for i in range(n):
                    m[i] = F.num(b1) * m[i] + (one - F.num(b1)) * g[i]
                    v[i] = F.num(b2) * v[i] + (one - F.num(b2)) * g[i] ** 2
                    mhat = m[i] / (one - F.num(b1) ** tt)
                    vhat = v[i] / (one - F.num(b2) ** tt)
                    F.guard([m[i], v[i], mhat, vhat])
                    exp_.append((th[i] - F.num(a) * mhat / (F.sqrt(vhat) + F.num(eps)), F.num(a) * mhat))
            else:
                pt = [th[i] - F.num(mom) * u[i] for i in range(n)] if nest else th
                _, g = P_.valgrad(pt, None, F, crate_rule)
                exp_ = []
                for i in range(n):
                    u[i] = F.num(mom) * u[i] + F.num(a) * g[i]
                    F.guard([u[i]])
                    exp_.append((th[i] - u[i], u[i]))
        except OutOfRange:
            stats["out_of_range"] = stats.get("out_of_range", 0) + 1
            return None
        except Exception:
            return None
        for i in range(n):
            E, S = exp_[i]
            if not (IV.ok(E) and IV.ok(S)):
                stats["unbounded"] = stats.get("unbounded", 0) + 1
                return None
            if not within(cur[i], E, abs(prev[i]), stats):
                mid, rad = IV.mid_rad(E)
                key = kind + "-recurrence"
                if cdv and not crate_rule:
                    # attribute to the known finding only if the re-check with the crate's `f64 / Var` weight actually
                    # RAN THROUGH this step and accepted it (an aborted re-check -- non-finite, unbounded, exception --
                    # also returns None and must not earn the key)
                    st2 = {}
                    if check_traj(kind, t, reply_toks, F, st2, True) is None and st2.get("last_ok_step", 0) >= tt:
                        key = "reverse:f64-div-var-weight"
                return (key, "maxsteps=%d parameter %d: returned %r, published recurrence from the previous iterate gives %r (+-%g)"
                        % (tt, i, cur[i], mid, rad))
        # exact rule: the stop test (evaluated exactly) had not fired before this step, yet the run returned the previous
        # iterate bit for bit although the published step provably moves a parameter (the enclosure of the new value
        # excludes the old one by more than 8 of its widths): the run stopped while the parameters were still moving
        if [f2h(x) for x in cur] == [f2h(x) for x in prev]:
            for i in range(n):
                lo, hi = float(exp_[i][0].a), float(exp_[i][0].b)
                gap = lo - prev[i] if lo > prev[i] else (prev[i] - hi if hi < prev[i] else 0.0)
                if gap > 8 * (hi - lo) + 2.0 ** -1060:
                    return (kind + "-stopped-while-moving",
                            "maxsteps=%d returns the iterate of maxsteps=%d (%r) although the stop test max rel_change < 2^-52 "
                            "had not fired and the published step moves parameter %d to [%r, %r]" % (tt, tt - 1, prev, i, lo, hi))
        stats["steps"] = stats.get("steps", 0) + 1
        stats["last_ok_step"] = tt
        st = stopped_exact(cur, prev)
        if st:
            stopped = True
            stats["stops"] = stats.get("stops", 0) + 1
    return None


def check_grad(t, reply_toks, F, stats):
    n = int(t[1])
    theta = [h2f(v) for v in t[2:2 + n]]
    x = None if t[2 + n] == "-" else h2f(t[2 + n])
    e = parse_prog(t[4 + n:])
    out = [h2f(v) for v in reply_toks]
    if len(out) != n + 1:
        return ("grad-reply-shape", "expected %d values" % (n + 1))
    if any(not math.isfinite(v) for v in out):
        stats["grad_nonfinite"] = stats.get("grad_nonfinite", 0) + 1
        return None
    try:
        V, G = Prog(e).valgrad([F.num(v) for v in theta], None if x is None else F.num(x), F)
    except Exception:
        return None
    if not (IV.ok(V) and all(IV.ok(g) for g in G)):
        stats["grad_unbounded"] = stats.get("grad_unbounded", 0) + 1
        return None
    if not within(out[0], V, 0.0, stats):
        return ("tape-value", "value %r, expected %r" % (out[0], IV.mid_rad(V)))
    for i in range(n):
        if not within(out[1 + i], G[i], 0.0, stats):
            key = "tape-gradient"
            if has_cdivv(e):
                try:
                    _, G2 = Prog(e).valgrad([F.num(v) for v in theta], None if x is None else F.num(x), F, True)
                    if all(IV.ok(g2) and within(out[1 + j], g2) for j, g2 in enumerate(G2)):
                        key = "reverse:f64-div-var-weight"   # explained entirely by the crate's `f64 / Var` weight
                except Exception:
                    pass
            return (key, "d/dp%d = %r, the derivative is %r (+-%g)" % ((i, out[1 + i]) + IV.mid_rad(G[i])))
    stats["grads"] = stats.get("grads", 0) + 1
    return None


COV_FACTOR = 512.0


def check_lm(t, reply_toks, M, stats, FI=None):
    import numpy as np
    e1, e2, tau = [h2f(v) for v in t[1:4]]
    p = int(t[4])
    theta0 = [h2f(v) for v in t[5:5 + p]]
    pos = 5 + p
    n = int(t[pos])
    xs = [h2f(v) for v in t[pos + 1:pos + 1 + n]]
    ys = [h2f(v) for v in t[pos + 1 + n:pos + 1 + 2 * n]]
    pos += 1 + 2 * n
    nk = int(t[pos])
    ks = [int(v) for v in t[pos + 1:pos + 1 + nk]]
    pos += 1 + nk
    e = parse_prog(t[pos + 1:])
    if len(reply_toks) != nk * (p + p * p):
        return ("lm-reply-shape", "expected %d values, got %d" % (nk * (p + p * p), len(reply_toks)))
    P_ = Prog(e)
    mp = M.mp

    def resjac(theta):
        th = [M.num(v) for v in theta]
        r, J = [], []
        for x, y in zip(xs, ys):
            v, g = P_.valgrad(th, M.num(x), M)
            r.append(M.num(y) - v)
            J.append(g)
        return r, J

    def rss_of(theta):
        r, _ = resjac(theta)
        return sum(v * v for v in r)
    hostile = False
    try:
        rss0 = rss_of(theta0)
        if not mp.isfinite(rss0) or rss0 > mp.mpf(10) ** 300:
            hostile = True
    except Exception:
        hostile = True   # the model is not even defined at the start (division by zero): only finiteness is judged
    if not (tau >= 0):
        hostile = True   # negative damping (boundary lines only): descent is not promised, only finiteness is judged
    if hostile:
        stats["lm_hostile_start"] = stats.get("lm_hostile_start", 0) + 1
    prev_rss = None
    if not hostile and nk == 1 and ks[0] >= 100 and n > p:
        r = check_lm_ls(M, P_, resjac, theta0, [h2f(v) for v in reply_toks[:p]], ks[0], n, p, e1, e2, tau, stats)
        if r is not None:
            return r
    w = p + p * p
    for idx, k in enumerate(ks):
        th = [h2f(v) for v in reply_toks[idx * w:idx * w + p]]
        cov = [h2f(v) for v in reply_toks[idx * w + p:(idx + 1) * w]]
        if any(not math.isfinite(v) for v in th):
            return ("lm-descent:nan", "maxsteps=%d returned non-finite parameters %r from the finite start %r (a NaN/inf "
                    "trial point was accepted: its rss is not <= the rss at the start)" % (k, th, theta0))
        if hostile:
            continue
        try:
            r, J = resjac(th)
            rss = sum(v * v for v in r)
            if not mp.isfinite(rss):
                raise ValueError
        except Exception:
            stats["lm_undefined_point"] = stats.get("lm_undefined_point", 0) + 1
            prev_rss = None
            continue
        # (1) never above the start (relative slack: the accept test compares rounded sums of n squares)
        slack = 64 * (n + 8) * EPS
        if rss > rss0 * (1 + slack) + mp.mpf(2) ** -1000:
            return ("lm-rss-above-start", "maxsteps=%d: rss %s > rss at the start %s" % (k, mp.nstr(rss, 17), mp.nstr(rss0, 17)))
        if prev_rss is not None and ks[idx - 1] + 1 == k and rss > prev_rss * (1 + slack) + mp.mpf(2) ** -1000:
            return ("lm-rss-increases", "maxsteps=%d: rss %s > rss after one step less %s" % (k, mp.nstr(rss, 17), mp.nstr(prev_rss, 17)))
        prev_rss = rss
        stats["lm_points"] = stats.get("lm_points", 0) + 1
        # (2) covariance = rss/(n-p) (J^T J)^-1 at the returned point
        if n > p and all(math.isfinite(v) for v in cov):
            A = mp.matrix(p, p)
            for a in range(p):
                for b in range(p):
                    A[a, b] = sum(J[i][a] * J[i][b] for i in range(n))
            Af = np.array([[float(A[a, b]) for b in range(p)] for a in range(p)])
            try:
                cond = float(np.linalg.cond(Af))
            except Exception:
                cond = float("inf")
            if math.isfinite(cond) and cond < 1e12:
                try:
                    Ai = A ** -1
                except Exception:
                    Ai = None
                if Ai is not None:
                    s2 = rss / (n - p)
                    Amax = max(abs(float(Ai[a, b])) for a in range(p) for b in range(p))
                    scale = float(s2) * Amax
                    # (a) J^T J is formed in floating point from n terms and inverted: eps * cond, relative;
                    # (b) the stored residuals y - f(theta, x) carry the rounding error of f (interval radius of a
                    #     53-bit evaluation) which does not shrink with the residual: absolute error of rss.
                    drss = mp.mpf(0)
                    thI = [FI.num(v) for v in th]
                    for i_, (x_, y_) in enumerate(zip(xs, ys)):
                        try:
                            fv, _ = P_.valgrad(thI, FI.num(x_), FI)
                        except Exception:     # out of the f64 range somewhere inside the model: not judged
                            drss = None
                            break
                        if not IV.ok(fv):
                            drss = None
                            break
                        fm, fr = IV.mid_rad(fv)
                        dr = 4 * fr + 4 * EPS * (abs(y_) + abs(fm))
                        drss += 2 * abs(r[i_]) * dr + dr * dr
                    if drss is None:
                        continue
                    unit = (n + p + 8) * EPS * cond * scale + float(drss) / (n - p) * Amax * (1 + (n + p) * EPS * cond)
                    tol = COV_FACTOR * unit + 1e-300
                    for a in range(p):
                        for b in range(p):
                            d = abs(cov[a * p + b] - float(s2 * Ai[a, b]))
                            stats["covratio"] = max(stats.get("covratio", 0.0), d / (unit + 1e-300))
                            if d > tol:
                                return ("lm-covariance", "maxsteps=%d: cov[%d][%d] = %r, s^2 (J^T J)^-1 at the returned point = %r (cond %g)"
                                        % (k, a, b, cov[a * p + b], float(s2 * Ai[a, b]), cond))
                    stats["lm_cov"] = stats.get("lm_cov", 0) + 1
    return None


LS_FACTOR = 1000.0


def check_lm_ls(M, P_, resjac, theta0, thK, K, n, p, e1, e2, tau, stats):
    """models linear in the parameters: after K iterations the returned point is the least-squares solution, up to
    what the stop criteria, the contraction rate of the damped iteration and rounding allow"""
    import numpy as np
    mp = M.mp
    if any(not math.isfinite(v) for v in thK):
        return None
    ra, Ja = resjac([0.0] * p)
    rb, Jb = resjac([1.0 + 0.5 * i for i in range(p)])
    if any(abs(Ja[i][a] - Jb[i][a]) > mp.mpf(10) ** -40 * (1 + abs(Ja[i][a])) for i in range(n) for a in range(p)):
        return None   # not linear in the parameters
    A = mp.matrix(p, p)
    b = mp.matrix(p, 1)
    for a in range(p):
        b[a] = sum(Ja[i][a] * ra[i] for i in range(n))      # J^T (y - f(0, x))
        for c in range(p):
            A[a, c] = sum(Ja[i][a] * Ja[i][c] for i in range(n))
    Af = np.array([[float(A[a, c]) for c in range(p)] for a in range(p)])
    d = np.diag(Af).copy()
    if not np.all(d > 0):
        return None
    try:
        ls = mp.lu_solve(A, b)
    except Exception:
        return None
    ls = [ls[a] for a in range(p)]
    eig = np.linalg.eigvalsh(Af)
    smin = float(eig[0])
    At = Af / np.sqrt(np.outer(d, d))
    lmin = float(np.linalg.eigvalsh(At)[0])
    if not (smin > 0 and lmin > 0):
        return None
    cond = float(eig[-1]) / smin
    mu0 = tau * float(d.max())
    c = 2.0 / (lmin + 2.0)
    c0 = mu0 / (lmin + mu0) if mu0 > 0 else 0.0
    e0 = math.sqrt(sum(float(d[a]) * float(theta0[a] - ls[a]) ** 2 for a in range(p)))
    nrm = math.sqrt(sum(v * v for v in thK))
    AinvD = float(np.linalg.norm(np.linalg.solve(Af, np.diag(d)), 2))
    rK, _ = resjac(thK)
    rssK = float(sum(v * v for v in rK))
    B1 = c0 * c ** (K - 1) * e0 / math.sqrt(float(d.min()))            # contraction of accepted steps
    B2 = e1 / smin                                                     # stop: |J^T r|_1 <= eps1
    B3 = (1 + max(2.0, mu0) * AinvD) * e2 * (nrm + e2)                 # stop: |delta| <= eps2 (|theta| + eps2)
    B4 = math.sqrt((n + 8) * EPS * max(rssK, 1e-300) / smin) / (1 - c)  # rho is decided on rounded sums of squares
    B5 = (n + 8) * EPS * cond * (nrm + 1e-300)                         # rounding in J^T J and the solves
    B = B1 + B2 + B3 + B4 + B5
    err = math.sqrt(sum(float(thK[a] - ls[a]) ** 2 for a in range(p)))
    stats["ls_checked"] = stats.get("ls_checked", 0) + 1
    stats["ls_ratio"] = max(stats.get("ls_ratio", 0.0), err / B)
    if B1 < 1e-3 * (nrm + 1):
        stats["ls_sharp"] = stats.get("ls_sharp", 0) + 1
    if err > LS_FACTOR * B:
        return ("lm-least-squares", "linear model, maxsteps=%d: returned %r, least-squares solution %r (distance %g, bound %g)"
                % (K, thK, [float(v) for v in ls], err, LS_FACTOR * B))
    return None


def oracle(lines, impl):
    fails = []
    F = IV()
    M = MP()
    stats = {}
    seen = {}
    for i, (l, rep) in enumerate(zip(lines, impl)):
        route = l.split(" ", 2)[1] if l.split(" ", 1)[0] in ROUTED else "new"
        l = unroute(l)
        t = l.split()
        st, toks = parse_reply(rep)
        if st == "skip":
            continue
        # determinism / route independence: the same optimizer on the same problem gives the same reply, however the
        # optimizer object was obtained (new, clone, default, with_stepsize, set_stepsize, public fields)
        if l in seen and impl[seen[l]].strip() != rep.strip() and not impl[seen[l]].startswith("#"):
            key = t[0] + ("-nondeterministic" if route == "new" else "-route-dependent")
            fails.append(Failure(i, key, "same optimizer and problem as line %d, obtained through route `%s`: different reply" % (seen[l], route)))
            continue
        seen.setdefault(l, i)
        kind = t[0]
        if st != "ok":
            if kind == "adam" and not (h2f(t[2]) > 0 and h2f(t[3]) > 0) and st == "panic":
                continue   # Adam::new rejects non-positive betas
            if kind == "lm" and st == "panic" and int(t[5 + int(t[4])]) < int(t[4]):
                continue   # fewer points than parameters: n - p underflows (documented panic)
            fails.append(Failure(i, kind + "-" + st, "request yielded %s instead of a value" % st))
            continue
        try:
            if kind == "grad":
                r = check_grad(t, toks, F, stats)
            elif kind in ("adam", "sgd"):
                r = check_traj(kind, t, toks, F, stats)
            elif kind == "lm":
                r = check_lm(t, toks, M, stats, F)
            else:
                r = None
        except Exception as ex:   # an oracle bug must not pass silently
            r = ("oracle-error", "oracle raised %r" % (ex,))
        if r is not None:
            fails.append(Failure(i, r[0], r[1]))
    oracle.stats = stats
    import os
    if os.environ.get("C10_STATS"):
        print("[C10 oracle stats]", stats)
    return fails

# --- deep theorems (C10Deep)
PROOF_MODULES = PROOF_MODULES + ['Compute.Props.C10Deep', 'Compute.Lemmas.C10DeepTape', 'Compute.Lemmas.C10DeepDiff', 'Compute.Lemmas.C10DeepEval', 'Compute.Lemmas.C10DeepLM', 'Compute.Lemmas.C10DeepOpt']
REQUIRED_THEOREMS = REQUIRED_THEOREMS + ['Cv.C10D.'+x for x in ['tape_gradient_correct','tape_gradient_correct_gradAt','tape_const_div_var_wrong','evalProg_sem','sEval_diff','tapeEval_laws','tapeEval_not_evalLaws','lm_descends_of_nonsingular','lm_descends_unconditional','damped_nonsingular','adam_follows_published_rule','sgd_follows_published_rule']]
_np = [x for x in NOT_PROVED if not any(k in str(x) for k in ("chain rule", "EvalLaws", "exact LU", "LU is exact"))]
NOT_PROVED = _np + [
    "the tape chain-rule theorem (Props/C10Deep: the reverse sweep returns the Frechet derivative of the objective for every node kind of the catalogue) excludes `f64 / Var` nodes: for those the dependency records the weight -1/x instead of -c/x^2 (the open finding, itself proved as tape_const_div_var_wrong)",
    "adam/sgd_follows_published_rule assume the objective's domain condition (non-zero divisors, non-zero bases of negative powers) at every point, not only along the trajectory",
    "LM descent is unconditional for tau > 0, p >= 1 and no vanishing Jacobian column (damped normal matrix positive definite, LU solve exact by Props/C11Lu); LM convergence to the least-squares solution is still searched, not proved",
]

# --- source tie, in-place mutation / nested loops / decision trees (tools/rs2lean.py mut=True: regenerated from /repo/src into
# Generated/SrcC10Mut.lean and proved equal to the hand model in Props/SrcTieC10Mut.lean)
from . import srctie
srctie.wire_mut(globals(), 'C10')

# --- deep theorems (Rounding7, wired by the lead)
PROOF_MODULES = PROOF_MODULES + [m for m in ['Compute.Lemmas.Rounding7', 'Compute.Props.Rounding7'] if m not in PROOF_MODULES]
REQUIRED_THEOREMS = REQUIRED_THEOREMS + ['Cv.Rounding7.LM.lm_fixed_iff', 'Cv.Rounding7.LM.lm_rss_decrease', 'Cv.Rounding7.LM.lm_linear_rho_pos', 'Cv.Rounding7.LM.lm_mu_update_lt_two', 'Cv.Rounding7.LM.lm_error_recursion', 'Cv.Rounding7.LM.lm_contraction', 'Cv.Rounding7.LM.lm_geometric', 'Cv.Rounding7.LM.lm_rate_lt_one', 'Cv.Rounding7.LM.step_of_model']
NOT_PROVED = [x for x in NOT_PROVED if not str(x).startswith('LM convergence')] + ['LM convergence on models linear in the parameters IS proved over the reals with the exact solver (Props/Rounding7, namespace LM): the fixed points of a step are exactly the least-squares solutions; every step strictly decreases the residual unless theta is one, and is accepted (gain ratio > 0), so the damping stays in [1/3, 2) after the first step; error recursion (A + lam D)(theta+ - theta*) = lam D (theta - theta*) and geometric convergence ||theta_k - theta*||^2_A <= (Lam kappa/(1+Lam kappa))^k ||theta_0 - theta*||^2_A for D <= kappa J^T J (full column rank) and lam <= Lam; one step of lmBody is tied to this (step_of_model); the stop tests (eps1/eps2), nonlinear models and floating point are oracle only']

# --- deep theorems (Rounding8, wired by the lead)
PROOF_MODULES = PROOF_MODULES + [m for m in ['Compute.Lemmas.Rounding8', 'Compute.Props.Rounding8'] if m not in PROOF_MODULES]
REQUIRED_THEOREMS = REQUIRED_THEOREMS + ["Cv.Rounding8.LMrun.lmBody_cases'", 'Cv.Rounding8.LMrun.pass_step', 'Cv.Rounding8.LMrun.pass_linear', 'Cv.Rounding8.LMrun.lmLoop_linear', 'Cv.Rounding8.LMrun.linInv_start', 'Cv.Rounding8.LMrun.stop_eps1', 'Cv.Rounding8.LMrun.stop_eps2', 'Cv.Rounding8.LMrun.errA_le_of_grad', 'Cv.Rounding8.LMrun.weighted_cs']
NOT_PROVED = list(NOT_PROVED) + ["the model's LM loop itself is covered on linear models (Props/Rounding8, namespace LMrun): for an evaluator that is a linear model (LinModel) every pass of lmBody keeps the invariant mu <= max(mu_0, 2), a step is rejected only at a least-squares solution, and lmLoop returns a state with ||theta - theta*||^2_A <= q^fuel ||theta_0 - theta*||^2_A, q = Lam kappa/(1+Lam kappa), unless a stop test fired; stopped by eps1: sum |J^T(y - J theta)| <= eps1, stopped by eps2: (J^T r)_i^2 <= ||B_i||^2 (eps2(||theta|| + eps2))^2, both giving ||theta - theta*||^2_A <= kappa sum g_i^2/d_i; kappa (D <= kappa J^T J, i.e. full column rank) is a hypothesis; nonlinear models and floating point are oracle only"]

# --- FINAL metadata (C10 owner; after review-b.md and review2-a.md).  The blocks above append to / filter the lists;
# what counts is assigned here as literal lists.
REQUIRED_THEOREMS = REQUIRED_THEOREMS + [x for x in ["Cv.C10R.lm_linear_contraction",
                                                      "Cv.Rounding8.LMrun.tapeEval_linModel",
                                                      "Cv.Rounding8.LMrun.lmLoop_linear",
                                                      "Cv.Rounding8.LMrun.linInv_start"] if x not in REQUIRED_THEOREMS]
NOT_PROVED = [
    "floating-point rounding: every theorem is about the model over a field / ordered field / commutative ring / the "
    "reals; the f64 behaviour is covered by the bit-exact correspondence and the oracle only",
    "the tape chain-rule theorem (Props/C10Deep: the reverse sweep returns the Frechet derivative of the objective for "
    "every node kind of the catalogue) excludes `f64 / Var` nodes: for those the dependency records the weight -1/x "
    "instead of -c/x^2 (the open finding reverse:f64-div-var-weight, itself proved as tape_const_div_var_wrong)",
    "Adam / SGD with the TRUE gradient (adam/sgd_follows_published_rule_on_run): the objective must be inside its domain "
    "of differentiability (non-zero divisors, non-zero bases of negative powers) at the points where the run takes a "
    "gradient (iterates 0..k-1, look-ahead points for Nesterov); this is a hypothesis, not derived from the start",
    "LM descent (rss(result) <= rss(start); result = (theta, rss/(n-p) * invOf(J^T J)) at the returned point) for the "
    "tape evaluator of the source is proved under hypotheses on the SUBLEVEL SET rss(theta) <= rss(start) only "
    "(C10R.lm_descends_on_sublevel: tau > 0, 1 <= p < n, no vanishing Jacobian column there; "
    "C10R.lm_descends_on_sublevel_of_nonsingular: damped normal matrix non-singular there); any start whose sublevel set "
    "contains a parameter vector with a vanishing Jacobian column (p0*exp(p1*x) with p0 = 0 reachable, logistic with "
    "L = 0 reachable) is NOT covered by a theorem; invOf is the inverse only for a non-singular J^T J "
    "(C10R.invOf_right_inverse); the older C10D.lm_descends_unconditional / _of_nonsingular need their hypotheses at "
    "EVERY parameter vector and state the covariance factor with n - p without requiring p < n (at n = p the factor is "
    "rss/0: C10R.lmFinish_at_n_eq_p)",
    "LM on models linear in the parameters IS proved for the tape evaluator of the source, in exact arithmetic over the "
    "reals, as a CONDITIONAL CONTRACTION (C10R.lm_linear_contraction through Rounding8.LMrun.tapeEval_linModel, "
    "linInv_start, lmLoop_linear): whatever lm returns after budget k belongs to a loop state in which either a stop "
    "test fired or ||theta - theta*||^2_A <= (Lam kappa/(1 + Lam kappa))^k ||theta_0 - theta*||^2_A, Lam = max(mu_0, 2); "
    "kappa (D <= kappa J^T J, i.e. full column rank) and the existence of the least-squares solution theta* are "
    "hypotheses; when eps1 / eps2 fired the gradient is bounded (stop_eps1 / stop_eps2, the firing itself a hypothesis); "
    "this is not 'reaches the least-squares solution' as an unconditional limit statement, and nothing is proved for "
    "nonlinear models or for f64 -- there the clause is searched by the oracle (200-bit exact solve, contraction-rate "
    "bound)",
    "the *_idealEval theorems of Props/C10.lean / Lemmas/C10LMAlg.lean assume EvalLaws for ALL evaluator states, which "
    "the tape evaluator does not satisfy (tapeEval_not_evalLaws); they are kept as the generic skeleton and are not "
    "required",
    "determinism of the real code (RefCell tape inside the optimizer object) and the behaviour of overflowed runs (a NaN "
    "relative change is dropped by f64::max, so a run can stop with an inf/NaN coordinate) are observed by "
    "correspondence, not proved",
]
ASSUMPTIONS = [
    "budgets below 2^31 steps (t as i32 wraps beyond; hypothesis of adam_refines and adam_follows_published_rule_on_run)",
    "default cargo features (no blas/lapack)",
    "p < n is a hypothesis of the C10R LM theorems (lmG_descends_on_sublevel, lm_descends_on_sublevel, "
    "lm_descends_on_sublevel_of_nonsingular); the C10D theorems lm_descends_unconditional / lm_descends_of_nonsingular do "
    "not require it and at n = p speak about the junk factor rss/0 of a field (f64: inf/NaN, lmFinish_at_n_eq_p); "
    "n < p panics; tau >= 0",
    "stop_only_when_still is a theorem over ordered fields with abs and max as in StopLaws; in f64 a NaN relative change "
    "is dropped by f64::max (witness in corpus(): SGD lr 1 on 1e200 p0^2 + (p1-1)^2 from [1e200, 1] returns [-inf, 1] "
    "for every budget); overflowed runs are outside the quantifier",
    "determinism: repeated requests and the routes used_clone / reuse (second call on a used object) must reply "
    "bit-identically; the model is a function",
]
