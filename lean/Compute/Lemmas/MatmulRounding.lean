import Compute.Props.Rounding
import Compute.Lemmas.C05Spec
import Compute.Props.C05
import Mathlib.Algebra.BigOperators.Ring.Finset
import Mathlib.Algebra.Order.BigOperators.Group.Finset
/-
Worst-case rounding-error analysis (standard model, `Lemmas/FlModel.lean`) of the matrix-product kernels
of `Model/Matmul.lean` (`matmul` for the four transpose-flag pairs, `matmulBlocked` for every block
size, `xtx`), instantiated at the rounded scalar type `Fl M`.

Every cell of the result is (for *both* kernels: `C05L.mmLoop_cell`, `C05L.mmBlockedLoop_eq`) the left
fold `((0 + p₀) + p₁) + … + p_{l−1}` of the `l` rounded products `p_k = fl(op(A)[i,k]·op(B)[k,j])`
(`C05L.cellFold`).  The first addition `0 + p₀` is a rounded operation of the model as well:

* bare standard model: product `k` carries `1 + (l − k)` roundings, at most `l + 1`  →  `γ_{l+1}`
  (`matmul_error_succ`; the constant is attained in `FlModel.inflate`, see `Props/Rounding3.lean`);
* idempotent rounding (every rounding *function onto a grid*): `p₀` is representable, `0 + p₀` is
  exact, at most `l` roundings  →  `γ_l`, Higham (3.13)  (`matmul_error`).
-/
namespace Cv.Rounding3
open Cv Cv.FlModel Cv.Rounding Cv.C05L

variable {M : FlModel}

/-- `x[i]!` on lists of rounded reals: the default element is `0` (never reached by the theorems). -/
scoped instance flInhabited : Inhabited (Fl M) := ⟨⟨0⟩⟩

@[simp] theorem fl_default_val : (default : Fl M).val = 0 := rfl

/-! ### one cell -/

theorem cellFold_eq_foldl_map (f : Nat → Fl M) (l : Nat) :
    cellFold f l = ((List.range l).map f).foldl (· + ·) 0 := by
  unfold cellFold
  rw [List.foldl_map]

/-- one rounding per product `x k * y k` -/
theorem map_mul_factor (x y : Nat → Fl M) (L : List Nat) :
    ∃ gs : List ℝ, gs.length = (L.map fun k => (x k).val * (y k).val).length ∧ (∀ g ∈ gs, M.Fac 1 g) ∧
      vals (L.map fun k => x k * y k) =
        List.zipWith (· * ·) (L.map fun k => (x k).val * (y k).val) gs := by
  induction L with
  | nil => exact ⟨[], by simp, by simp, by simp⟩
  | cons k L ih =>
    obtain ⟨gs, hl, hg, he⟩ := ih
    obtain ⟨δ, hδ, hr⟩ := M.std ((x k).val * (y k).val)
    refine ⟨(1 + δ) :: gs, by simpa using hl, ?_, ?_⟩
    · intro g hgm
      rcases List.mem_cons.mp hgm with rfl | hgm
      · exact Fac.one_add hδ
      · exact hg g hgm
    · simp only [vals, List.map_cons, List.zipWith_cons_cons, Fl.mul_val] at he ⊢
      rw [he, hr]

/-- **structure of a computed cell** (standard model only): `Σ_k x_k y_k·f_k`, every `f_k` a product of
at most `l + 1` rounding factors (the product, the leading `0 + p₀`, and `l − 1` further additions). -/
theorem cellFold_pert (x y : Nat → Fl M) (l : Nat) :
    M.Pert (l + 1) (cellFold (fun k => x k * y k) l).val
      ((List.range l).map fun k => (x k).val * (y k).val) := by
  obtain ⟨gs, hl, hg, he⟩ := map_mul_factor x y (List.range l)
  have hp := foldl_pert ((List.range l).map fun k => x k * y k) (0 : Fl M) 0 [] (Pert.nil 0)
  simp only [Nat.zero_add, List.nil_append, List.length_map, List.length_range] at hp
  rw [he] at hp
  rw [cellFold_eq_foldl_map, Nat.add_comm]
  exact Pert.comp _ gs _ hl hg hp

/-- a left fold from `0` over representable values: the leading `0 + a` is exact -/
theorem foldl_zero_pert_rep (ps : List (Fl M)) (hrep : ∀ a ∈ ps, a.Rep) :
    M.Pert (ps.length - 1) (ps.foldl (· + ·) 0).val (vals ps) := by
  cases ps with
  | nil => simpa using Pert.nil (M := M) 0
  | cons a l =>
    rw [List.foldl_cons, Fl.zero_add_of_rep (hrep a (by simp))]
    simpa using foldl_pert l a 0 [a.val] (Pert.single 0 a.val)

/-- **structure of a computed cell, idempotent rounding**: at most `l` rounding factors per product. -/
theorem cellFold_pert_idem (hid : M.Idem) (x y : Nat → Fl M) (l : Nat) :
    M.Pert l (cellFold (fun k => x k * y k) l).val
      ((List.range l).map fun k => (x k).val * (y k).val) := by
  cases l with
  | zero => simpa [cellFold] using Pert.nil (M := M) 0
  | succ l =>
    obtain ⟨gs, hl, hg, he⟩ := map_mul_factor x y (List.range (l + 1))
    have hrep : ∀ a ∈ (List.range (l + 1)).map fun k => x k * y k, a.Rep := by
      intro a ha
      obtain ⟨k, _, rfl⟩ := List.mem_map.mp ha
      exact rep_mul hid _ _
    have hp := foldl_zero_pert_rep _ hrep
    simp only [List.length_map, List.length_range, Nat.add_sub_cancel] at hp
    rw [he] at hp
    rw [cellFold_eq_foldl_map]
    have := Pert.comp _ gs _ hl hg hp
    rwa [Nat.add_comm 1 l] at this

theorem sum_map_range (g : Nat → ℝ) (l : Nat) :
    ((List.range l).map g).sum = ∑ k ∈ Finset.range l, g k := by
  induction l with
  | zero => simp
  | succ l ih =>
    rw [List.range_succ, List.map_append, List.sum_append, ih, Finset.sum_range_succ]
    simp

/-- forward error of one cell from a structure result of depth `d` -/
theorem cell_error_of_pert (x y : Nat → Fl M) (l d : Nat) (v : ℝ)
    (hp : M.Pert d v ((List.range l).map fun k => (x k).val * (y k).val)) (h : (d : ℝ) * M.u < 1) :
    |v - ∑ k ∈ Finset.range l, (x k).val * (y k).val| ≤
      M.γ d * ∑ k ∈ Finset.range l, |(x k).val| * |(y k).val| := by
  have := hp.error h
  rw [List.map_map, sum_map_range, sum_map_range] at this
  simpa [Function.comp_def, abs_mul] using this

/-- **one cell, standard model only**: `γ_{l+1}` -/
theorem cellFold_error_succ (x y : Nat → Fl M) (l : Nat) (h : ((l + 1 : Nat) : ℝ) * M.u < 1) :
    |(cellFold (fun k => x k * y k) l).val - ∑ k ∈ Finset.range l, (x k).val * (y k).val| ≤
      M.γ (l + 1) * ∑ k ∈ Finset.range l, |(x k).val| * |(y k).val| :=
  cell_error_of_pert x y l (l + 1) _ (cellFold_pert x y l) h

/-- **one cell, idempotent rounding**: `γ_l` (Higham (3.5) for the inner product in textbook order) -/
theorem cellFold_error (hid : M.Idem) (x y : Nat → Fl M) (l : Nat) (h : (l : ℝ) * M.u < 1) :
    |(cellFold (fun k => x k * y k) l).val - ∑ k ∈ Finset.range l, (x k).val * (y k).val| ≤
      M.γ l * ∑ k ∈ Finset.range l, |(x k).val| * |(y k).val| :=
  cell_error_of_pert x y l l _ (cellFold_pert_idem hid x y l) h

/-! ### the kernels -/

/-- exact entry `Σ_k op(A)[i,k]·op(B)[k,j]` of the product of the stored operands (`l` = inner dimension) -/
noncomputable def exactCell (a b : List (Fl M)) (ca cb : Nat) (ta tb : Bool) (l i j : Nat) : ℝ :=
  ∑ k ∈ Finset.range l, (opEntry a ca ta i k).val * (opEntry b cb tb k j).val

/-- entry `Σ_k |op(A)[i,k]|·|op(B)[k,j]|` of `|op(A)|·|op(B)|` -/
noncomputable def absCell (a b : List (Fl M)) (ca cb : Nat) (ta tb : Bool) (l i j : Nat) : ℝ :=
  ∑ k ∈ Finset.range l, |(opEntry a ca ta i k).val| * |(opEntry b cb tb k j).val|

theorem absCell_nonneg (a b : List (Fl M)) (ca cb : Nat) (ta tb : Bool) (l i j : Nat) :
    0 ≤ absCell a b ca cb ta tb l i j :=
  Finset.sum_nonneg fun _ _ => mul_nonneg (abs_nonneg _) (abs_nonneg _)

/-- a depth `d` valid for every cell of inner dimension `l` -/
def CellDepth (M : FlModel) (l d : Nat) : Prop :=
  ∀ x y : Nat → Fl M, M.Pert d (cellFold (fun k => x k * y k) l).val
    ((List.range l).map fun k => (x k).val * (y k).val)

theorem cellDepth_std (l : Nat) : CellDepth M l (l + 1) := fun x y => cellFold_pert x y l
theorem cellDepth_idem (hid : M.Idem) (l : Nat) : CellDepth M l l :=
  fun x y => cellFold_pert_idem hid x y l

/-- the cell of `matmul` (either order of the two factors of each product) obeys the bound -/
theorem matmul_cell_error {l d : Nat} (hd : CellDepth M l d) (h : (d : ℝ) * M.u < 1)
    (a b : List (Fl M)) (ca cb : Nat) (ta tb : Bool) (i j : Nat) (sw : Bool) :
    |(cellFold (fun k => if sw then opEntry b cb tb k j * opEntry a ca ta i k
                         else opEntry a ca ta i k * opEntry b cb tb k j) l).val
        - exactCell a b ca cb ta tb l i j| ≤ M.γ d * absCell a b ca cb ta tb l i j := by
  cases sw with
  | false =>
    simp only [Bool.false_eq_true, if_false]
    exact cell_error_of_pert (fun k => opEntry a ca ta i k) (fun k => opEntry b cb tb k j) l d _
      (hd _ _) h
  | true =>
    simp only [if_true]
    have := cell_error_of_pert (fun k => opEntry b cb tb k j) (fun k => opEntry a ca ta i k) l d _
      (hd _ _) h
    unfold exactCell absCell
    rw [Finset.sum_congr rfl (fun k _ => mul_comm (opEntry a ca ta i k).val (opEntry b cb tb k j).val),
      Finset.sum_congr rfl (fun k _ => mul_comm |(opEntry a ca ta i k).val| |(opEntry b cb tb k j).val|)]
    exact this

/-- `matmul`, any depth analysis of the cells -/
theorem matmul_error_of_depth (a b : List (Fl M)) (ra ca rb cb : Nat) (ta tb : Bool) (d : Nat)
    (ha : a.length = ra * ca) (hb : b.length = rb * cb) (hra : 0 < ra) (hrb : 0 < rb)
    (hin : (if ta then ra else ca) = (if tb then cb else rb))
    (hd : CellDepth M (if ta then ra else ca) d) (h : (d : ℝ) * M.u < 1) :
    ∃ c, matmul a b ra rb ta tb = some c ∧
      c.length = (if ta then ca else ra) * (if tb then rb else cb) ∧
      ∀ i j, i < (if ta then ca else ra) → j < (if tb then rb else cb) →
        |(c[i * (if tb then rb else cb) + j]!).val
            - exactCell a b ca cb ta tb (if ta then ra else ca) i j| ≤
          M.γ d * absCell a b ca cb ta tb (if ta then ra else ca) i j := by
  obtain ⟨c, h1, h2, h3⟩ := matmul_entry a b ra ca rb cb ta tb ha hb hra hrb hin
  refine ⟨c, h1, h2, fun i j hi hj => ?_⟩
  rw [h3 i j hi hj]
  exact matmul_cell_error hd h a b ca cb ta tb i j (ta && tb)

/-- `matmulBlocked`, any depth analysis of the cells -/
theorem matmulBlocked_error_of_depth (a b : List (Fl M)) (ra ca rb cb : Nat) (ta tb : Bool)
    (bsize d : Nat) (hbs : 0 < bsize)
    (ha : a.length = ra * ca) (hb : b.length = rb * cb) (hra : 0 < ra) (hrb : 0 < rb)
    (hin : (if ta then ra else ca) = (if tb then cb else rb))
    (hd : CellDepth M (if ta then ra else ca) d) (h : (d : ℝ) * M.u < 1) :
    ∃ c, matmulBlocked a b ra rb ta tb bsize = some c ∧
      c.length = (if ta then ca else ra) * (if tb then rb else cb) ∧
      ∀ i j, i < (if ta then ca else ra) → j < (if tb then rb else cb) →
        |(c[i * (if tb then rb else cb) + j]!).val
            - exactCell a b ca cb ta tb (if ta then ra else ca) i j| ≤
          M.γ d * absCell a b ca cb ta tb (if ta then ra else ca) i j := by
  obtain ⟨c, h1, h2, h3⟩ := matmulBlocked_entry a b ra ca rb cb ta tb bsize hbs ha hb hra hrb hin
  refine ⟨c, h1, h2, fun i j hi hj => ?_⟩
  rw [h3 i j hi hj]
  exact matmul_cell_error hd h a b ca cb ta tb i j false

/-- **Forward error of `matmul`, Higham (3.13)** — all four transpose-flag pairs, idempotent rounding.
For an `ra × ca` and an `rb × cb` operand whose inner dimensions after applying the flags agree
(`op(A)` is `m × l`, `op(B)` is `l × n`), `matmul` returns `Ĉ` with `m·n` entries and

  `|Ĉ[i,j] − Σ_k op(A)[i,k]·op(B)[k,j]| ≤ γ_l · Σ_k |op(A)[i,k]|·|op(B)[k,j]|`,

i.e. `|Ĉ − op(A)op(B)| ≤ γ_l·|op(A)||op(B)|` component-wise. -/
theorem matmul_error (hid : M.Idem) (a b : List (Fl M)) (ra ca rb cb : Nat) (ta tb : Bool)
    (ha : a.length = ra * ca) (hb : b.length = rb * cb) (hra : 0 < ra) (hrb : 0 < rb)
    (hin : (if ta then ra else ca) = (if tb then cb else rb))
    (h : ((if ta then ra else ca : Nat) : ℝ) * M.u < 1) :
    ∃ c, matmul a b ra rb ta tb = some c ∧
      c.length = (if ta then ca else ra) * (if tb then rb else cb) ∧
      ∀ i j, i < (if ta then ca else ra) → j < (if tb then rb else cb) →
        |(c[i * (if tb then rb else cb) + j]!).val
            - exactCell a b ca cb ta tb (if ta then ra else ca) i j| ≤
          M.γ (if ta then ra else ca) * absCell a b ca cb ta tb (if ta then ra else ca) i j :=
  matmul_error_of_depth a b ra ca rb cb ta tb _ ha hb hra hrb hin (cellDepth_idem hid _) h

/-- **… in the bare standard model** (no idempotence: the leading `0 + p₀` counts): `γ_{l+1}`. -/
theorem matmul_error_succ (a b : List (Fl M)) (ra ca rb cb : Nat) (ta tb : Bool)
    (ha : a.length = ra * ca) (hb : b.length = rb * cb) (hra : 0 < ra) (hrb : 0 < rb)
    (hin : (if ta then ra else ca) = (if tb then cb else rb))
    (h : (((if ta then ra else ca) + 1 : Nat) : ℝ) * M.u < 1) :
    ∃ c, matmul a b ra rb ta tb = some c ∧
      c.length = (if ta then ca else ra) * (if tb then rb else cb) ∧
      ∀ i j, i < (if ta then ca else ra) → j < (if tb then rb else cb) →
        |(c[i * (if tb then rb else cb) + j]!).val
            - exactCell a b ca cb ta tb (if ta then ra else ca) i j| ≤
          M.γ ((if ta then ra else ca) + 1) * absCell a b ca cb ta tb (if ta then ra else ca) i j :=
  matmul_error_of_depth a b ra ca rb cb ta tb _ ha hb hra hrb hin (cellDepth_std _) h

/-- **Forward error of `matmul_blocked`**: the same bound for every block size `≥ 1` (each cell
accumulates the same products in the same order). -/
theorem matmulBlocked_error (hid : M.Idem) (a b : List (Fl M)) (ra ca rb cb : Nat) (ta tb : Bool)
    (bsize : Nat) (hbs : 0 < bsize)
    (ha : a.length = ra * ca) (hb : b.length = rb * cb) (hra : 0 < ra) (hrb : 0 < rb)
    (hin : (if ta then ra else ca) = (if tb then cb else rb))
    (h : ((if ta then ra else ca : Nat) : ℝ) * M.u < 1) :
    ∃ c, matmulBlocked a b ra rb ta tb bsize = some c ∧
      c.length = (if ta then ca else ra) * (if tb then rb else cb) ∧
      ∀ i j, i < (if ta then ca else ra) → j < (if tb then rb else cb) →
        |(c[i * (if tb then rb else cb) + j]!).val
            - exactCell a b ca cb ta tb (if ta then ra else ca) i j| ≤
          M.γ (if ta then ra else ca) * absCell a b ca cb ta tb (if ta then ra else ca) i j :=
  matmulBlocked_error_of_depth a b ra ca rb cb ta tb bsize _ hbs ha hb hra hrb hin
    (cellDepth_idem hid _) h

theorem matmulBlocked_error_succ (a b : List (Fl M)) (ra ca rb cb : Nat) (ta tb : Bool)
    (bsize : Nat) (hbs : 0 < bsize)
    (ha : a.length = ra * ca) (hb : b.length = rb * cb) (hra : 0 < ra) (hrb : 0 < rb)
    (hin : (if ta then ra else ca) = (if tb then cb else rb))
    (h : (((if ta then ra else ca) + 1 : Nat) : ℝ) * M.u < 1) :
    ∃ c, matmulBlocked a b ra rb ta tb bsize = some c ∧
      c.length = (if ta then ca else ra) * (if tb then rb else cb) ∧
      ∀ i j, i < (if ta then ca else ra) → j < (if tb then rb else cb) →
        |(c[i * (if tb then rb else cb) + j]!).val
            - exactCell a b ca cb ta tb (if ta then ra else ca) i j| ≤
          M.γ ((if ta then ra else ca) + 1) * absCell a b ca cb ta tb (if ta then ra else ca) i j :=
  matmulBlocked_error_of_depth a b ra ca rb cb ta tb bsize _ hbs ha hb hra hrb hin
    (cellDepth_std _) h

/-! ### the four flag pairs spelled out on the stored operands -/

/-- `A·B`, `A : m × l`, `B : l × n` -/
theorem matmul_error_NN (hid : M.Idem) (a b : List (Fl M)) (m l n : Nat) (ha : a.length = m * l)
    (hb : b.length = l * n) (hm : 0 < m) (hl : 0 < l) (h : (l : ℝ) * M.u < 1) :
    ∃ c, matmul a b m l false false = some c ∧ c.length = m * n ∧
      ∀ i j, i < m → j < n →
        |(c[i * n + j]!).val - ∑ k ∈ Finset.range l, (a[i * l + k]!).val * (b[k * n + j]!).val| ≤
          M.γ l * ∑ k ∈ Finset.range l, |(a[i * l + k]!).val| * |(b[k * n + j]!).val| := by
  simpa [exactCell, absCell, opEntry] using
    matmul_error hid a b m l l n false false ha hb hm hl (by simp) (by simpa using h)

/-- `Aᵀ·B`, `A : l × m`, `B : l × n` -/
theorem matmul_error_TN (hid : M.Idem) (a b : List (Fl M)) (m l n : Nat) (ha : a.length = l * m)
    (hb : b.length = l * n) (hl : 0 < l) (h : (l : ℝ) * M.u < 1) :
    ∃ c, matmul a b l l true false = some c ∧ c.length = m * n ∧
      ∀ i j, i < m → j < n →
        |(c[i * n + j]!).val - ∑ k ∈ Finset.range l, (a[k * m + i]!).val * (b[k * n + j]!).val| ≤
          M.γ l * ∑ k ∈ Finset.range l, |(a[k * m + i]!).val| * |(b[k * n + j]!).val| := by
  simpa [exactCell, absCell, opEntry] using
    matmul_error hid a b l m l n true false ha hb hl hl (by simp) (by simpa using h)

/-- `A·Bᵀ`, `A : m × l`, `B : n × l` -/
theorem matmul_error_NT (hid : M.Idem) (a b : List (Fl M)) (m l n : Nat) (ha : a.length = m * l)
    (hb : b.length = n * l) (hm : 0 < m) (hn : 0 < n) (h : (l : ℝ) * M.u < 1) :
    ∃ c, matmul a b m n false true = some c ∧ c.length = m * n ∧
      ∀ i j, i < m → j < n →
        |(c[i * n + j]!).val - ∑ k ∈ Finset.range l, (a[i * l + k]!).val * (b[j * l + k]!).val| ≤
          M.γ l * ∑ k ∈ Finset.range l, |(a[i * l + k]!).val| * |(b[j * l + k]!).val| := by
  simpa [exactCell, absCell, opEntry] using
    matmul_error hid a b m l n l false true ha hb hm hn (by simp) (by simpa using h)

/-- `Aᵀ·Bᵀ` (computed as `(B·A)ᵀ`), `A : l × m`, `B : n × l` -/
theorem matmul_error_TT (hid : M.Idem) (a b : List (Fl M)) (m l n : Nat) (ha : a.length = l * m)
    (hb : b.length = n * l) (hl : 0 < l) (hn : 0 < n) (h : (l : ℝ) * M.u < 1) :
    ∃ c, matmul a b l n true true = some c ∧ c.length = m * n ∧
      ∀ i j, i < m → j < n →
        |(c[i * n + j]!).val - ∑ k ∈ Finset.range l, (a[k * m + i]!).val * (b[j * l + k]!).val| ≤
          M.γ l * ∑ k ∈ Finset.range l, |(a[k * m + i]!).val| * |(b[j * l + k]!).val| := by
  simpa [exactCell, absCell, opEntry] using
    matmul_error hid a b l m n l true true ha hb hl hn (by simp) (by simpa using h)

/-- **Forward error of `xtx`** (`XᵀX` for a `k × p` matrix): `|Ĝ[i,j] − Σ_r X[r,i]X[r,j]| ≤
γ_k·Σ_r |X[r,i]||X[r,j]|`; on the diagonal the error is *relative* (`Σ_r X[r,i]²` on both sides). -/
theorem xtx_error (hid : M.Idem) (x : List (Fl M)) (k p : Nat) (hx : x.length = k * p) (hk : 0 < k)
    (h : (k : ℝ) * M.u < 1) :
    ∃ c, xtx x k = some c ∧ c.length = p * p ∧
      (∀ i j, i < p → j < p →
        |(c[i * p + j]!).val - ∑ r ∈ Finset.range k, (x[r * p + i]!).val * (x[r * p + j]!).val| ≤
          M.γ k * ∑ r ∈ Finset.range k, |(x[r * p + i]!).val| * |(x[r * p + j]!).val|) ∧
      (∀ i, i < p →
        |(c[i * p + i]!).val - ∑ r ∈ Finset.range k, (x[r * p + i]!).val ^ 2| ≤
          M.γ k * ∑ r ∈ Finset.range k, (x[r * p + i]!).val ^ 2) := by
  obtain ⟨c, h1, h2, h3⟩ := matmul_error_TN hid x x p k p hx hx hk h
  refine ⟨c, h1, h2, h3, fun i hi => ?_⟩
  have := h3 i i hi hi
  simpa [pow_two, abs_mul_abs_self] using this

/-! ### norm-wise corollary (∞-norm) -/

/-- **`‖Ĉ − op(A)op(B)‖_∞ ≤ γ_d·‖op(A)‖_∞·‖op(B)‖_∞`**, in "for every bound" form: if every absolute row
sum of `op(A)` is `≤ N_A` and every absolute row sum of `op(B)` is `≤ N_B`, and the cells obey the
component-wise bound with constant `γ`, then every absolute row sum of `Ĉ − op(A)op(B)` is `≤ γ·N_A·N_B`. -/
theorem infnorm_of_componentwise (a b : List (Fl M)) (ca cb : Nat) (ta tb : Bool) (l n : Nat)
    (E : Nat → Nat → ℝ) (γ NA NB : ℝ) (hγ : 0 ≤ γ) (hNB : 0 ≤ NB) (i : Nat)
    (hE : ∀ j, j < n → |E i j| ≤ γ * absCell a b ca cb ta tb l i j)
    (hA : ∑ k ∈ Finset.range l, |(opEntry a ca ta i k).val| ≤ NA)
    (hB : ∀ k, k < l → ∑ j ∈ Finset.range n, |(opEntry b cb tb k j).val| ≤ NB) :
    ∑ j ∈ Finset.range n, |E i j| ≤ γ * NA * NB := by
  have h1 : ∑ j ∈ Finset.range n, |E i j| ≤
      ∑ j ∈ Finset.range n, γ * absCell a b ca cb ta tb l i j :=
    Finset.sum_le_sum fun j hj => hE j (Finset.mem_range.mp hj)
  have h2 : ∑ j ∈ Finset.range n, γ * absCell a b ca cb ta tb l i j =
      γ * ∑ k ∈ Finset.range l, |(opEntry a ca ta i k).val| *
        ∑ j ∈ Finset.range n, |(opEntry b cb tb k j).val| := by
    rw [← Finset.mul_sum]
    congr 1
    unfold absCell
    rw [Finset.sum_comm]
    exact Finset.sum_congr rfl fun k _ => (Finset.mul_sum _ _ _).symm
  have h3 : ∑ k ∈ Finset.range l, |(opEntry a ca ta i k).val| *
        ∑ j ∈ Finset.range n, |(opEntry b cb tb k j).val| ≤
      ∑ k ∈ Finset.range l, |(opEntry a ca ta i k).val| * NB :=
    Finset.sum_le_sum fun k hk =>
      mul_le_mul_of_nonneg_left (hB k (Finset.mem_range.mp hk)) (abs_nonneg _)
  rw [← Finset.sum_mul] at h3
  have h4 : (∑ k ∈ Finset.range l, |(opEntry a ca ta i k).val|) * NB ≤ NA * NB :=
    mul_le_mul_of_nonneg_right hA hNB
  calc ∑ j ∈ Finset.range n, |E i j|
      ≤ γ * (∑ k ∈ Finset.range l, |(opEntry a ca ta i k).val| *
          ∑ j ∈ Finset.range n, |(opEntry b cb tb k j).val|) := by rw [← h2]; exact h1
    _ ≤ γ * (NA * NB) := mul_le_mul_of_nonneg_left (le_trans h3 h4) hγ
    _ = γ * NA * NB := by ring

/-- **∞-norm forward error of `matmul`** (idempotent rounding): every absolute row sum of
`Ĉ − op(A)op(B)` is at most `γ_l·‖op(A)‖_∞·‖op(B)‖_∞` (stated for arbitrary upper bounds `N_A`, `N_B`
of the absolute row sums, `N_B ≥ 0`). -/
theorem matmul_error_infnorm (hid : M.Idem) (a b : List (Fl M)) (ra ca rb cb : Nat) (ta tb : Bool)
    (ha : a.length = ra * ca) (hb : b.length = rb * cb) (hra : 0 < ra) (hrb : 0 < rb)
    (hin : (if ta then ra else ca) = (if tb then cb else rb))
    (h : ((if ta then ra else ca : Nat) : ℝ) * M.u < 1) (NA NB : ℝ) (hNB : 0 ≤ NB)
    (hA : ∀ i, i < (if ta then ca else ra) →
      ∑ k ∈ Finset.range (if ta then ra else ca), |(opEntry a ca ta i k).val| ≤ NA)
    (hB : ∀ k, k < (if ta then ra else ca) →
      ∑ j ∈ Finset.range (if tb then rb else cb), |(opEntry b cb tb k j).val| ≤ NB) :
    ∃ c, matmul a b ra rb ta tb = some c ∧
      ∀ i, i < (if ta then ca else ra) →
        ∑ j ∈ Finset.range (if tb then rb else cb),
          |(c[i * (if tb then rb else cb) + j]!).val
            - exactCell a b ca cb ta tb (if ta then ra else ca) i j| ≤
          M.γ (if ta then ra else ca) * NA * NB := by
  obtain ⟨c, h1, _, h3⟩ := matmul_error hid a b ra ca rb cb ta tb ha hb hra hrb hin h
  refine ⟨c, h1, fun i hi => ?_⟩
  exact infnorm_of_componentwise a b ca cb ta tb _ _
    (fun i j => (c[i * (if tb then rb else cb) + j]!).val
      - exactCell a b ca cb ta tb (if ta then ra else ca) i j)
    _ NA NB (M.γ_nonneg _ h) hNB i (fun j hj => h3 i j hi hj) (hA i hi) hB

/-! ### matrix–vector products (the uses of `matmul` by the regressions: C06 `eta = X·β`, C14 `Xᵀy`,
`(XᵀX)⁻¹·Xᵀy`, C13 `R⁻¹·r`) -/

/-- **`A·v`** (`matmul(a, v, m, l, false, false)` with `v` an `l × 1` matrix):
`|ŷ[i] − Σ_k A[i,k]v[k]| ≤ γ_l·Σ_k |A[i,k]||v[k]|` -/
theorem matvec_error (hid : M.Idem) (a v : List (Fl M)) (m l : Nat) (ha : a.length = m * l)
    (hv : v.length = l) (hm : 0 < m) (hl : 0 < l) (h : (l : ℝ) * M.u < 1) :
    ∃ c, matmul a v m l false false = some c ∧ c.length = m ∧
      ∀ i, i < m →
        |(c[i]!).val - ∑ k ∈ Finset.range l, (a[i * l + k]!).val * (v[k]!).val| ≤
          M.γ l * ∑ k ∈ Finset.range l, |(a[i * l + k]!).val| * |(v[k]!).val| := by
  obtain ⟨c, h1, h2, h3⟩ := matmul_error_NN hid a v m l 1 ha (by simpa using hv) hm hl h
  refine ⟨c, h1, by simpa using h2, fun i hi => ?_⟩
  simpa using h3 i 0 hi (by norm_num)

/-- **`Aᵀ·v`** (`matmul(a, v, l, l, true, false)`, `A : l × m`, `v : l × 1`; the normal-equation right-hand
side `Xᵀy`): `|ŷ[i] − Σ_r A[r,i]v[r]| ≤ γ_l·Σ_r |A[r,i]||v[r]|` -/
theorem matTvec_error (hid : M.Idem) (a v : List (Fl M)) (m l : Nat) (ha : a.length = l * m)
    (hv : v.length = l) (hl : 0 < l) (h : (l : ℝ) * M.u < 1) :
    ∃ c, matmul a v l l true false = some c ∧ c.length = m ∧
      ∀ i, i < m →
        |(c[i]!).val - ∑ r ∈ Finset.range l, (a[r * m + i]!).val * (v[r]!).val| ≤
          M.γ l * ∑ r ∈ Finset.range l, |(a[r * m + i]!).val| * |(v[r]!).val| := by
  obtain ⟨c, h1, h2, h3⟩ := matmul_error_TN hid a v m l 1 ha (by simpa using hv) hl h
  refine ⟨c, h1, by simpa using h2, fun i hi => ?_⟩
  simpa using h3 i 0 hi (by norm_num)

/-! ### the `Dot` trait (`dot`, `t_dot`, `dot_t`, `t_dot_t` on `Matrix`) -/

open Cv.DotT Cv.C05 Cv.C05W in
/-- **Forward error of the Matrix·Matrix `Dot` methods**: for well-formed operands whose inner dimensions
(after the method's flags) agree, the method returns the `m × n` matrix `Ĉ` with
`|Ĉ[i,j] − Σ_k op(self)[i,k]·op(other)[k,j]| ≤ γ_l·Σ_k |op(self)[i,k]||op(other)[k,j]|`. -/
theorem dotMM_error (hid : M.Idem) (meth : Meth) (s o : Mat (Fl M)) (hs : s.WF) (ho : o.WF)
    (hsr : 0 < s.nrows) (hor : 0 < o.nrows)
    (hin : (if flagA meth then s.nrows else s.ncols) = (if flagB meth then o.ncols else o.nrows))
    (h : ((if flagA meth then s.nrows else s.ncols : Nat) : ℝ) * M.u < 1) :
    ∃ r, dotMM meth s o = some r ∧
      r.nrows = (if flagA meth then s.ncols else s.nrows) ∧
      r.ncols = (if flagB meth then o.nrows else o.ncols) ∧ r.WF ∧
      ∀ i j, i < r.nrows → j < r.ncols →
        |(r.get i j).val - exactCell s.data o.data s.ncols o.ncols (flagA meth) (flagB meth)
            (if flagA meth then s.nrows else s.ncols) i j| ≤
          M.γ (if flagA meth then s.nrows else s.ncols) *
            absCell s.data o.data s.ncols o.ncols (flagA meth) (flagB meth)
              (if flagA meth then s.nrows else s.ncols) i j := by
  obtain ⟨c, h1, h2, h3⟩ := matmul_error hid s.data o.data s.nrows s.ncols o.nrows o.ncols
    (flagA meth) (flagB meth) hs ho hsr hor hin h
  refine ⟨⟨c, if flagA meth then s.ncols else s.nrows, if flagB meth then o.nrows else o.ncols⟩,
    ?_, rfl, rfl, h2, ?_⟩
  · rw [dotMM_unfold]; simp [hin, h1, matrixNew, h2]
  · intro i j hi hj
    exact h3 i j hi hj

end Cv.Rounding3
