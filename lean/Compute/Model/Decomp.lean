import Compute.Model.Kernels
/-
Slice-level factorisations and triangular solves of
  src/linalg/decomposition/{lu,cholesky,substitution}.rs
and the small shape helpers of src/linalg/utils.rs they call (`is_square`, `is_matrix`,
`is_symmetric`, `transpose`).  Row-major `List α`, generic in the scalar; `none` = panic.
Loop order and association are those of the source, so the `Float` instance is bit-identical.
Everything lives in `Cv.LA`; `Cv.solve`, `Cv.solveSys`, `Cv.invertMatrix` are exported by
`Model/Solve.lean`.  Core Lean only.
-/
namespace Cv.LA

/-- `v.swap(i, j)` (both indices are in range at every call site of the model). -/
def swapIdx {β : Type} (l : List β) (i j : Nat) : List β :=
  match l[i]?, l[j]? with
  | some x, some y => (l.set i y).set j x
  | _, _ => l

/-- `is_square`: the order `n` with `n*n = len` (`None → unwrap` panics otherwise).  The source takes
an `f32` square root; for `len < 2^24` that is exact on perfect squares and never integral on
non-squares (recorded assumption; the generators stay below order 64). -/
def isSquare (len : Nat) : Option Nat := (List.range (len + 1)).find? (fun n => n * n == len)

/-- `is_matrix(m, nrows)`: `ncols = len / nrows` (division by zero panics) when `nrows*ncols = len`. -/
def isMatrix (len nrows : Nat) : Option Nat :=
  if nrows = 0 then none else if nrows * (len / nrows) = len then some (len / nrows) else none

variable {α : Type} [Add α] [Sub α] [Mul α] [Div α] [Zero α] [One α] [NatCast α]
  [LT α] [DecidableLT α] [LE α] [DecidableLE α] [BEq α] [Transc α]

/-- Indexed read; every index is in range by the asserts of the enclosing function. -/
@[inline] def rd (a : List α) (i : Nat) : α := a.getD i 0

/-- `f64::EPSILON = 2^-52` (exact in every instance: `1 / 2^52`). -/
def eps : α := 1 / ((4503599627370496 : Nat) : α)

/-- `x.is_nan()` (`x != x`). -/
def isNan (x : α) : Bool := !(x == x)

/-- `transpose(a, nrows)`: pushes `a[i*ncols+j]` for `j` outer, `i` inner. -/
def transpose (a : List α) (nrows : Nat) : Option (List α) := do
  let ncols ← isMatrix a.length nrows
  pure ((List.range a.length).map fun k => rd a ((k % nrows) * ncols + k / nrows))

/-- `is_symmetric`: absolute test `|m_ij - m_ji| > EPSILON` over the upper triangle, early `false`. -/
def isSymmetric (m : List α) : Option Bool := do
  let n ← isSquare m.length
  pure ((List.range n).all fun i => (List.range' i (n - i)).all fun j =>
    !(decide ((eps : α) < Transc.abs (rd m (i * n + j) - rd m (j * n + i)))))

/-! ### LU (column-oriented, in place, first-maximum partial pivoting) -/

/-- `s = 0; for k in 0..min(i,j) { s += lu[i*n+k] * lu[k*n+j] }`. -/
def luDot (n : Nat) (lu : List α) (i j : Nat) : α :=
  (List.range (min i j)).foldl (fun s k => s + rd lu (i * n + k) * rd lu (k * n + j)) 0

/-- `for i in 0..n { lu[i*n+j] -= s_i }` (row `i` sees the already updated rows `< i`). -/
def luColumn (n j : Nat) (lu : List α) : List α :=
  (List.range n).foldl (fun lu i => lu.set (i * n + j) (rd lu (i * n + j) - luDot n lu i j)) lu

/-- first row `p ≥ j` of maximal `|lu[p,j]|` (strict `>` keeps the first maximum). -/
def luPivot (n j : Nat) (lu : List α) : Nat :=
  (List.range' (j + 1) (n - (j + 1))).foldl
    (fun p i => if Transc.abs (rd lu (p * n + j)) < Transc.abs (rd lu (i * n + j)) then i else p) j

/-- `for k in 0..n { lu.swap(p*n+k, j*n+k) }`. -/
def swapRows (n p j : Nat) (lu : List α) : List α :=
  (List.range n).foldl (fun lu k => swapIdx lu (p * n + k) (j * n + k)) lu

/-- `if j < n && lu[j,j] != 0 { for i in j+1..n { lu[i,j] /= lu[j,j] } }`. -/
def luScale (n j : Nat) (lu : List α) : List α :=
  if decide (j < n) && (rd lu (j * n + j) != 0) then
    (List.range' (j + 1) (n - (j + 1))).foldl
      (fun lu i => lu.set (i * n + j) (rd lu (i * n + j) / rd lu (j * n + j))) lu
  else lu

/-- one iteration of the `for j in 0..n` loop of `lu`. -/
def luStep (n : Nat) (st : List α × List Nat) (j : Nat) : List α × List Nat :=
  let lu := luColumn n j st.1
  let p := luPivot n j lu
  let lu' := if p != j then swapRows n p j lu else lu
  let piv := if p != j then swapIdx st.2 p j else st.2
  (luScale n j lu', piv)

/-- `lu(matrix)`: packed factors and the pivot vector. -/
def lu (a : List α) : Option (List α × List Nat) := do
  let n ← isSquare a.length
  pure ((List.range n).foldl (luStep n) (a, List.range n))

/-- forward elimination of `lu_solve`: `for k { for i in k+1..n { x[i] -= x[k]*lu[i,k] } }`. -/
def luFwd (n : Nat) (lu x : List α) : List α :=
  (List.range n).foldl (fun x k =>
    (List.range' (k + 1) (n - (k + 1))).foldl
      (fun x i => x.set i (rd x i - rd x k * rd lu (i * n + k))) x) x

/-- back substitution of `lu_solve`: `for k rev { x[k] /= lu[k,k]; for i in 0..k { x[i] -= x[k]*lu[i,k] } }`. -/
def luBwd (n : Nat) (lu x : List α) : List α :=
  (List.range n).reverse.foldl (fun x k =>
    let x := x.set k (rd x k / rd lu (k * n + k))
    (List.range k).foldl (fun x i => x.set i (rd x i - rd x k * rd lu (i * n + k))) x) x

/-- `x = vec![0; n]; for i in 0..pivots.len() { x[i] = b[pivots[i]] }` — `none` when an index is
out of range. -/
def luPermute (piv : List Nat) (b : List α) : Option (List α) :=
  let n := b.length
  if n < piv.length then none
  else if piv.any (fun p => decide (n ≤ p)) then none
  else some (piv.map (rd b) ++ List.replicate (n - piv.length) 0)

/-- `lu_solve(lu, pivots, b)`. -/
def luSolve (lu : List α) (piv : List Nat) (b : List α) : Option (List α) :=
  let n := b.length
  if lu.length ≠ n * n then none
  else do
    let x ← luPermute piv b
    pure (luBwd n lu (luFwd n lu x))

/-! ### Cholesky–Banachiewicz -/

/-- One cell `(i,j)`, `j ≤ i`, of the row sweep; `none` = a pivot is not positive (or NaN). -/
def cholCell (n : Nat) (a l : List α) (i j : Nat) : Option (List α) :=
  let s := dot8 ((l.drop (j * n)).take j) ((l.drop (i * n)).take j)
  if i = j then
    let pivot := rd a (i * n + i) - s
    if pivot ≤ 0 ∨ isNan pivot = true then none
    else some (l.set (i * n + j) (Transc.sqrt pivot))
  else some (l.set (i * n + j) ((rd a (i * n + j) - s) / rd l (j * n + j)))

def cholRow (n : Nat) (a l : List α) (i : Nat) : Option (List α) :=
  (List.range (i + 1)).foldlM (fun l j => cholCell n a l i j) l

/-- the loops of `try_cholesky` for order `n`; `none` = `None` (not positive definite). -/
def cholLoops (n : Nat) (a : List α) : Option (List α) :=
  (List.range n).foldlM (fun l i => cholRow n a l i) (List.replicate (n * n) 0)

/-- `try_cholesky`: outer `none` = panic (`assert!(is_symmetric)`, `is_square().unwrap()`),
inner `none` = the function's `None`. -/
def tryCholesky (a : List α) : Option (Option (List α)) := do
  let sym ← isSymmetric a
  if !sym then none
  else
    let n ← isSquare a.length
    pure (cholLoops n a)

/-- `cholesky` = `try_cholesky(a).expect(..)`. -/
def cholesky (a : List α) : Option (List α) := (tryCholesky a).join

/-! ### triangular solves -/

/-- `forward_substitution(l, b)`; `x` is built left to right (`x[..i]` is the list so far). -/
def forwardSubstitution (l b : List α) : Option (List α) := do
  let n ← isSquare l.length
  if b.length ≠ n then none
  else pure ((List.range n).foldl (fun x i =>
    x ++ [(rd b i - dot8 ((l.drop (i * n)).take i) x) / rd l (i * n + i)]) [])

/-- `backward_substitution(u, b)`; `x` is built right to left (`x[i+1..]` is the list so far). -/
def backwardSubstitution (u b : List α) : Option (List α) := do
  let n ← isSquare u.length
  if b.length ≠ n then none
  else pure ((List.range n).reverse.foldl (fun x i =>
    ((rd b i - dot8 ((u.drop (i * n + i + 1)).take (n - (i + 1))) x) / rd u (i * n + i)) :: x) [])

/-- `cholesky_solve(l, b)`: forward solve, transpose, backward solve. -/
def choleskySolve (l b : List α) : Option (List α) := do
  let n ← isSquare l.length
  if b.length ≠ n then none
  else
    let y ← forwardSubstitution l b
    let lt ← transpose l n
    backwardSubstitution lt y

end Cv.LA
