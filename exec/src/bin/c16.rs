//! C16 executor: `interp1d_linear` / `interp1d_linear_unchecked` of `compute::functions`.
//! Request: `interp <chk|unc> <panic|fill l r|extrap> <xvec> <yvec> <tvec>`
use compute::functions::{interp1d_linear, interp1d_linear_unchecked, ExtrapolationMode};
use cvexec::*;

fn step(_: &mut (), t: &mut Toks) -> R<String> {
    match t.tok()? {
        "interp" => {
            let variant = t.tok()?;
            let mode = match t.tok()? {
                "panic" => ExtrapolationMode::Panic,
                "extrap" => ExtrapolationMode::Extrapolate,
                "fill" => {
                    let (l, r) = (t.f64()?, t.f64()?);
                    ExtrapolationMode::Fill(l, r)
                }
                _ => return Err(BadOp),
            };
            let x = t.vec()?;
            let y = t.vec()?;
            let tg = t.vec()?;
            t.end()?;
            let res = match variant {
                "chk" => interp1d_linear(&x, &y, &tg, mode),
                "unc" => interp1d_linear_unchecked(&x, &y, &tg, mode),
                _ => return Err(BadOp),
            };
            Ok(ok(show_vec(&res)))
        }
        "interp_alias" => {
            // x and tgt are windows of ONE buffer: x = &buf[xa..xa+n], tgt = &buf[tb..tb+k] (aliasing must be invisible)
            let variant = t.tok()?;
            let mode = match t.tok()? {
                "panic" => ExtrapolationMode::Panic,
                "extrap" => ExtrapolationMode::Extrapolate,
                "fill" => {
                    let (l, r) = (t.f64()?, t.f64()?);
                    ExtrapolationMode::Fill(l, r)
                }
                _ => return Err(BadOp),
            };
            let (xa, n, tb, k) = (t.usize()?, t.usize()?, t.usize()?, t.usize()?);
            let buf = t.vec()?;
            let y = t.vec()?;
            t.end()?;
            if xa + n > buf.len() || tb + k > buf.len() {
                return Err(BadOp);
            }
            let x = &buf[xa..xa + n];
            let tg = &buf[tb..tb + k];
            let res = match variant {
                "chk" => interp1d_linear(x, &y, tg, mode),
                "unc" => interp1d_linear_unchecked(x, &y, tg, mode),
                _ => return Err(BadOp),
            };
            Ok(ok(show_vec(&res)))
        }
        _ => Err(BadOp),
    }
}

fn main() {
    run((), step);
}
