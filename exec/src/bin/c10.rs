//! C10 executor: Adam / SGD / LM of `compute::optimize` on objectives given as RPN programs that are
//! interpreted with `reverse::Var` through the real operator impls of the `reverse` crate.
//! Protocol: see /verif/lean/Compute/Drv/C10.lean.
use compute::optimize::{Adam, Gradient, Optimizer, Tape, Var, LM, SGD};
use cvexec::*;

#[derive(Clone, Debug)]
enum Op {
    Param(usize),
    Const(f64),
    X,
    Add,
    Sub,
    Mul,
    Div,
    Neg,
    Powi(i32),
    Exp,
    Sin,
}

#[derive(Clone, Copy)]
enum Item<'a> {
    C(f64),
    V(Var<'a>),
}

fn parse_op(s: &str) -> R<Op> {
    Ok(match s {
        "x" => Op::X,
        "add" => Op::Add,
        "sub" => Op::Sub,
        "mul" => Op::Mul,
        "div" => Op::Div,
        "neg" => Op::Neg,
        "exp" => Op::Exp,
        "sin" => Op::Sin,
        _ => {
            if let Some(r) = s.strip_prefix("powi") {
                Op::Powi(r.parse().map_err(|_| BadOp)?)
            } else if let Some(r) = s.strip_prefix('p') {
                Op::Param(r.parse().map_err(|_| BadOp)?)
            } else if let Some(r) = s.strip_prefix('c') {
                if r == "nan" {
                    Op::Const(f64::NAN)
                } else if r.len() == 16 {
                    Op::Const(f64::from_bits(u64::from_str_radix(r, 16).map_err(|_| BadOp)?))
                } else {
                    return Err(BadOp);
                }
            } else {
                return Err(BadOp);
            }
        }
    })
}

fn parse_prog(t: &mut Toks) -> R<Vec<Op>> {
    let n = t.usize()?;
    (0..n).map(|_| parse_op(t.tok()?)).collect()
}

macro_rules! binop {
    ($st:expr, $op:tt) => {{
        let b = $st.pop().expect("stack underflow");
        let a = $st.pop().expect("stack underflow");
        $st.push(match (a, b) {
            (Item::C(a), Item::C(b)) => Item::C(a $op b),
            (Item::V(a), Item::C(b)) => Item::V(a $op b),
            (Item::C(a), Item::V(b)) => Item::V(a $op b),
            (Item::V(a), Item::V(b)) => Item::V(a $op b),
        });
    }};
}

macro_rules! unop {
    ($st:expr, $a:ident, $e:expr) => {{
        let it = $st.pop().expect("stack underflow");
        $st.push(match it {
            Item::C($a) => Item::C($e),
            Item::V($a) => Item::V($e),
        });
    }};
}

/// The objective closure body: `f(params, data)`.
fn eval<'a>(prog: &[Op], p: &[Var<'a>], d: &[&[f64]]) -> Var<'a> {
    let mut st: Vec<Item<'a>> = Vec::with_capacity(16);
    for op in prog {
        match op {
            Op::Param(i) => st.push(Item::V(p[*i])),
            Op::Const(c) => st.push(Item::C(*c)),
            Op::X => st.push(Item::C(d[0][0])),
            Op::Add => binop!(st, +),
            Op::Sub => binop!(st, -),
            Op::Mul => binop!(st, *),
            Op::Div => binop!(st, /),
            Op::Neg => unop!(st, a, -a),
            Op::Powi(n) => unop!(st, a, a.powi(*n)),
            Op::Exp => unop!(st, a, a.exp()),
            Op::Sin => unop!(st, a, a.sin()),
        }
    }
    if st.len() != 1 {
        panic!("program must leave exactly one value");
    }
    match st[0] {
        Item::V(v) => v,
        Item::C(_) => panic!("program result is a constant"),
    }
}

fn objective<F>(f: F) -> F
where
    F: for<'a> Fn(&[Var<'a>], &[&[f64]]) -> Var<'a>,
{
    f
}

/// Construct the optimizer through one of the public routes.  The request always carries the hyper-parameters the
/// optimizer is supposed to end up with (the model is the directly constructed optimizer with exactly those).
fn mk_adam(route: &str, a: f64, b1: f64, b2: f64, e: f64) -> R<Adam> {
    Ok(match route {
        "new" => Adam::new(a, b1, b2, e),
        "clone" => Adam::new(a, b1, b2, e).clone(),
        "clone2" => {
            let o = Adam::new(a, b1, b2, e);
            let c = o.clone();
            drop(o);
            c.clone()
        }
        "used_clone" => {
            // the original has been run (its tape holds nodes) before it is cloned
            let o = Adam::new(a, b1, b2, e);
            let f = objective(|p: &[Var], _d: &[&[f64]]| p[0] * p[0]);
            let _ = o.optimize(f, &[1.0], &[], 2);
            o.clone()
        }
        "reuse" => {
            // second call on the same object: the tape (a RefCell inside the optimizer) holds the nodes of the
            // first run when the second `optimize` starts
            let o = Adam::new(a, b1, b2, e);
            let f = objective(|p: &[Var], _d: &[&[f64]]| p[0] * p[0] + p[0].exp());
            let _ = o.optimize(f, &[1.0], &[], 3);
            o
        }
        "set_stepsize" => {
            let mut o = Adam::new(a * 3. + 1., b1, b2, e);
            o.set_stepsize(a);
            o
        }
        "clone_set" => {
            let mut o = Adam::new(a * 3. + 1., b1, b2, e).clone();
            o.set_stepsize(a);
            o
        }
        // the following ignore b1, b2, e (and a): the request carries the documented defaults
        "default" => Adam::default(),
        "with_stepsize" => Adam::with_stepsize(a),
        "default_set" => {
            let mut o = Adam::default();
            o.set_stepsize(a);
            o
        }
        "with_stepsize_clone" => Adam::with_stepsize(a).clone(),
        _ => return Err(BadOp),
    })
}

fn mk_sgd(route: &str, a: f64, m: f64, nest: bool) -> R<SGD> {
    Ok(match route {
        "new" => SGD::new(a, m, nest),
        "clone" => SGD::new(a, m, nest).clone(),
        "used_clone" => {
            let o = SGD::new(a, m, nest);
            let f = objective(|p: &[Var], _d: &[&[f64]]| p[0] * p[0]);
            let _ = o.optimize(f, &[1.0], &[], 2);
            o.clone()
        }
        "reuse" => {
            let o = SGD::new(a, m, nest);
            let f = objective(|p: &[Var], _d: &[&[f64]]| p[0] * p[0] + p[0].exp());
            let _ = o.optimize(f, &[1.0], &[], 3);
            o
        }
        "set_stepsize" => {
            let mut o = SGD::new(a * 3. + 1., m, nest);
            o.set_stepsize(a);
            o
        }
        "clone_set" => {
            let mut o = SGD::new(a * 3. + 1., m, nest).clone();
            o.set_stepsize(a);
            o
        }
        "default" => SGD::default(),
        "default_set" => {
            let mut o = SGD::default();
            o.set_stepsize(a);
            o
        }
        "default_clone" => SGD::default().clone(),
        _ => return Err(BadOp),
    })
}

fn mk_lm(route: &str, e1: f64, e2: f64, tau: f64) -> R<LM> {
    Ok(match route {
        "new" => LM::new(e1, e2, tau),
        "clone" => LM::new(e1, e2, tau).clone(),
        "reuse" => {
            let o = LM::new(e1, e2, tau);
            let f = objective(|p: &[Var], d: &[&[f64]]| p[0] * d[0][0] + p[1]);
            let _ = o.optimize(f, &[1.0, 0.5], &[&[0., 1., 2.], &[1., 3., 4.]], 3);
            o
        }
        "fields" => {
            let mut o = LM::default();
            o.eps1 = e1;
            o.eps2 = e2;
            o.tau = tau;
            o
        }
        "fields_clone" => {
            let mut o = LM::new(e1 + 1., e2 * 2., tau * 0.5);
            o.eps1 = e1;
            o.eps2 = e2;
            o.tau = tau;
            o.clone()
        }
        "default" => LM::default(),
        "default_clone" => LM::default().clone(),
        _ => return Err(BadOp),
    })
}

fn ks(t: &mut Toks) -> R<Vec<usize>> {
    t.usizes()
}

fn step(_: &mut (), t: &mut Toks) -> R<String> {
    let op = t.tok()?;
    let route = if op == "adamr" || op == "sgdr" || op == "lmr" { t.tok()? } else { "new" };
    match op {
        "grad" => {
            let theta = t.vec()?;
            let xs = t.tok()?;
            let x: Option<f64> = if xs == "-" {
                None
            } else if xs == "nan" {
                Some(f64::NAN)
            } else if xs.len() == 16 {
                Some(f64::from_bits(u64::from_str_radix(xs, 16).map_err(|_| BadOp)?))
            } else {
                return Err(BadOp);
            };
            let prog = parse_prog(t)?;
            t.end()?;
            let tape = Tape::new();
            let params = tape.add_vars(&theta);
            let xv: Vec<f64> = x.into_iter().collect();
            let data: Vec<&[f64]> = if x.is_some() { vec![&xv[..]] } else { vec![] };
            let res = eval(&prog, &params, &data);
            let g = res.grad().wrt(&params);
            let mut out = vec![res.val()];
            out.extend(g);
            Ok(ok(show_fs(&out)))
        }
        "adam" | "adamr" => {
            let (a, b1, b2, e) = (t.f64()?, t.f64()?, t.f64()?, t.f64()?);
            let theta = t.vec()?;
            let ks = ks(t)?;
            let prog = parse_prog(t)?;
            t.end()?;
            let mut out = Vec::new();
            for k in ks {
                let optim = mk_adam(route, a, b1, b2, e)?;
                let f = objective(|p, d| eval(&prog, p, d));
                let r = optim.optimize(f, &theta, &[], k);
                out.extend(r.iter().copied());
            }
            Ok(ok(show_fs(&out)))
        }
        "sgd" | "sgdr" => {
            let (a, m, nest) = (t.f64()?, t.f64()?, t.usize()?);
            let theta = t.vec()?;
            let ks = ks(t)?;
            let prog = parse_prog(t)?;
            t.end()?;
            let mut out = Vec::new();
            for k in ks {
                let optim = mk_sgd(route, a, m, nest != 0)?;
                let f = objective(|p, d| eval(&prog, p, d));
                let r = optim.optimize(f, &theta, &[], k);
                out.extend(r.iter().copied());
            }
            Ok(ok(show_fs(&out)))
        }
        "lm" | "lmr" => {
            let (e1, e2, tau) = (t.f64()?, t.f64()?, t.f64()?);
            let theta = t.vec()?;
            let n = t.usize()?;
            let xs = t.f64s(n)?;
            let ys = t.f64s(n)?;
            let ks = ks(t)?;
            let prog = parse_prog(t)?;
            t.end()?;
            let mut out = Vec::new();
            for k in ks {
                let optim = mk_lm(route, e1, e2, tau)?;
                let f = objective(|p, d| eval(&prog, p, d));
                let (popt, pcov) = optim.optimize(f, &theta, &[&xs, &ys], k);
                out.extend(popt.iter().copied());
                out.extend(pcov.data.iter().copied());
            }
            Ok(ok(show_fs(&out)))
        }
        _ => Err(BadOp),
    }
}

extern "C" {
    fn dup2(oldfd: i32, newfd: i32) -> i32;
}

fn main() {
    // Adam and Nesterov-SGD print one line per step on stderr; send it to /dev/null.
    if let Ok(f) = std::fs::OpenOptions::new().write(true).open("/dev/null") {
        use std::os::unix::io::AsRawFd;
        unsafe {
            dup2(f.as_raw_fd(), 2);
        }
        std::mem::forget(f);
    }
    run((), step);
}
