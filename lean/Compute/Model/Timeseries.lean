import Compute.Model.Scalar
import Compute.Model.Kernels
import Compute.Model.Matmul
import Compute.Model.Solve
/-
Model of `src/timeseries/functions.rs` (`acovf`, `acf`, `difference`) and
`src/timeseries/autoregressive.rs` (`AR::{new, fit, predict_one, predict}`, forecasting as repaired
by F23 and F42), with `toeplitz` of `src/linalg/utils.rs` and `mean` of `src/statistics/moments.rs`.
`none` = panic.  Core Lean only.

* `Iterator::sum::<f64>()` is a left fold from `-0.0` (`iterSum`); `statistics::mean` is the 8-way
  unrolled `utils::sum` divided by the length.
* `(|k|..n).map(|i| (ts[i] - m) * (ts[i - |k|] - m))` is `zipWith` over `ts.drop |k|` and `ts`
  (same terms in the same order; empty when `|k| ≥ n`).
* The AR state is `(coeffs, intercept)`; `coeffs` is stored reversed (`coeffs[0] = φ_p`).
-/
namespace Cv.TS

variable {α : Type}

section basic
variable [Add α] [Sub α] [Mul α] [Div α] [Neg α] [Zero α] [One α] [NatCast α]

/-- `Iterator::sum::<f64>()`: left fold from `-0.0`. -/
def iterSum (l : List α) : α := l.foldl (· + ·) (-0)

/-- `statistics::mean`: `utils::sum(data) / data.len() as f64`. -/
def mean (data : List α) : α := sum8 data / (data.length : α)

/-- The terms `(ts[i] - m) * (ts[i - k] - m)`, `i = k..n-1`. -/
def lagProducts (ts : List α) (m : α) (k : Nat) : List α :=
  List.zipWith (fun a b => (a - m) * (b - m)) (ts.drop k) ts

/-- `acovf(ts, k)`: `1. / n as f64 * Σ_{i=|k|}^{n-1} (ts[i] - mean)(ts[i-|k|] - mean)`. -/
def acovf (ts : List α) (k : Int) : α :=
  1 / (ts.length : α) * iterSum (lagProducts ts (mean ts) k.natAbs)

/-- `acf(ts, k)`: the same numerator over `Σ (ts[i] - mean).powi(2) / n`. -/
def acf (ts : List α) (k : Int) : α :=
  let m := mean ts
  let numerator := 1 / (ts.length : α) * iterSum (lagProducts ts m k.natAbs)
  let denominator := iterSum (ts.map fun x => powi (x - m) 2) / (ts.length : α)
  numerator / denominator

/-- `difference(v)`: `(0..v.len() - 1).map(|i| v[i+1] - v[i])`; `0 - 1` underflows on an empty vector. -/
def difference (v : List α) : Option (List α) :=
  if v.isEmpty then none else some (List.zipWith (fun a b => b - a) v v.tail)

end basic

/-- `toeplitz(x)`: `v[i*n + j] = x[|i - j|]`. -/
def toeplitz [Inhabited α] (x : List α) : List α :=
  (Mat.build x.length x.length fun i j => x[if j ≤ i then i - j else j - i]!).data

section ar
variable [Add α] [Sub α] [Mul α] [Div α] [Neg α] [Zero α] [One α] [NatCast α]
  [LT α] [DecidableLT α] [LE α] [DecidableLE α] [BEq α] [Transc α] [Inhabited α]

/-- The autocorrelations `acf(adjusted, 0..=p)` of the mean-adjusted data that `AR::fit` computes. -/
def fitAcf (p : Nat) (data : List α) : List α :=
  let adjusted := data.map (· - mean data)
  (List.range (p + 1)).map fun (t : Nat) => acf adjusted (t : Int)

/-- `AR::new(p).fit(data)`: returns `(intercept, coeffs)` with `coeffs` reversed as stored.
`assert!(p > 0)`; `r = ac[1..]`, `R = invert_matrix(toeplitz(ac[..p]))`, `coeffs = matmul(R, r, p, p)`. -/
def arFit (p : Nat) (data : List α) : Option (α × List α) :=
  if p = 0 then none
  else do
    let ac := fitAcf p data
    let rinv ← invertMatrix (toeplitz (ac.take p))
    let c ← matmul rinv (ac.drop 1) p p false false
    pure (mean data, c.reverse)

end ar

section predict
variable [Add α] [Sub α] [Mul α] [Zero α]

/-- `predict_one_centred(data)`: `dot` of the last `coeffs.len()` values with `coeffs`; for a history
shorter than that, `dot(data, &coeffs[coeff_len - n..])` (the latest values meet the lowest lags, F42). -/
def predictOneCentred (coeffs d : List α) : α :=
  let n := d.length
  let cl := coeffs.length
  if cl ≤ n then dot8 (d.drop (n - cl)) coeffs else dot8 d (coeffs.drop (cl - n))

/-- `AR::predict_one(data)`: centre the last `coeffs.len()` values (all of them if fewer), apply the
recursion, add the intercept back. -/
def predictOne (coeffs : List α) (intercept : α) (data : List α) : α :=
  let start := data.length - coeffs.length
  predictOneCentred coeffs ((data.drop start).map (· - intercept)) + intercept

/-- The forecasting loop of `predict` on the centred window `w` (the last `coeffs.len()` entries of
`d[..i]`): `d[i] = predict_one_centred(&d[..i])`. -/
def predictGo (coeffs : List α) : Nat → List α → List α
  | 0, _ => []
  | h + 1, w =>
    let f := dot8 w coeffs
    f :: predictGo coeffs h (w.drop 1 ++ [f])

/-- `AR::predict(data, n)`; `data.len() - coeffs.len()` underflows (panics) for a short history. -/
def predict (coeffs : List α) (intercept : α) (data : List α) (n : Nat) : Option (List α) :=
  if data.length < coeffs.length then none
  else
    let w := (data.drop (data.length - coeffs.length)).map (· - intercept)
    some ((predictGo coeffs n w).map (· + intercept))

end predict

end Cv.TS
