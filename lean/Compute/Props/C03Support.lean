import Compute.Lemmas.C03Support
/-
C03 — samplers: support of the rejection samplers (model `Compute/Model/Samplers.lean` instantiated at `ℝ` with the
instances of `Cv.C09` / `Cv.C03L`, the same ones `Props/C03.lean` uses).

Property: "every draw lies in the support (integer-valued for discrete laws)".

* Poisson / PTRS (`ptrs_support_partial`, `poisson_sample_support_partial`): every returned value is a natural number.
  Which test guarantees `k ≥ 0`?  In the slow path the explicit rejection `k < 0`.  In the FAST-ACCEPTANCE branch
  (`us ≥ 0.07 && V ≤ vr`) there is NO test on `k`: non-negativity is arithmetic (`|U| ≤ 0.43` and `λ ≥ 4` give
  `(2a/us + b)·U + λ + 0.43 ≥ 0`).  The hypothesis `4 ≤ λ` is implied by the routing of `Poisson::sample` (`λ ≥ 10`);
  without it the fast branch does return `−1`: `ptrs_small_lambda_returns_negative` (λ = 1/9, a concrete generator state).
* Binomial / BTPE (`btpe_support_partial`, `binomial_sample_support_partial`): every returned value is an integer in `[0, n]`, also after the
  `p > ½` flip (the checked subtraction `n − r` never panics).  Triangle and parallelogram candidates are not range-tested by
  the code: `[0, n]` follows from `(xl, xr] ⊆ [0, n]`, i.e. from the set-up arithmetic under `0 < p ≤ ½`, `n p > 30` (what the
  routing guarantees); the tails are guarded by the explicit tests `y < 0` / `y > n` on one side and by `ln v ≤ 0` on the other.
* Ziggurat (`zig_strip_nonneg`, `zig_wedge_tail_nonneg`, `zig_out` — PARTIAL: per accepting branch, not as one statement about
  `Normal.sample`): every accepting branch returns `Normal.out μ σ s x = μ ± x σ` with a real `x ≥ 0` (strip / wedge:
  `x = j·W[i]`, all 128 widths `≥ 0`; tail: `x ≥ R > 0` and the argument of `ln_1p` is `> −1`, so the logarithm is finite).
  The loop-level unfolding is available since the model writes `Normal.sample` through `Normal.next` on the projections of
  `g.u64` (`Props/C03Witness.lean`: `sample_succ`, `normal_fast`); a single loop-level support statement for `Normal.sample`
  has not been assembled from the per-branch lemmas.
* Compositions (`chi_squared_pos_partial`, `t_support_partial`, `beta_support_partial`): χ² draws are `> 0` for every `dof ≥ 1`; Student-t divides by
  `√G` with `G > 0` for every `ν > 0` (both after repair F54: the boosting uniform of a gamma draw below shape 1 is redrawn
  while it is `0`; before it χ²(1) returned exactly `0` and t returned `±∞` at those states); Beta draws lie in `[0, 1]` in
  every branch (re-export of `C03.beta_sample_support_partial`).
-/
set_option linter.unusedSectionVars false
set_option linter.unusedSimpArgs false
set_option linter.unusedVariables false

namespace Cv.C03Support
open Cv Cv.C03L Cv.C09
open scoped Cv.C09 Cv.C03L

/-! ## Poisson -/

/-- **PTRS support.** For `λ ≥ 4` every value returned by `sample_ptrs` is a non-negative integer. -/
theorem ptrs_support_partial (fuel : ℕ) (lam : ℝ) (hl : 4 ≤ lam) (g g' : Rng) (k : ℝ)
    (h : Poisson.samplePtrs fuel lam g = some (k, g')) : ∃ n : ℕ, k = (n : ℝ) :=
  ptrsLoop_nat lam hl fuel g g' k h

/-- **Poisson support.** Every draw of `Poisson::sample` (any rate) is a non-negative integer: the multiplication count
below rate 10, PTRS from 10 on. -/
theorem poisson_sample_support_partial (fuel : ℕ) (lam : ℝ) (g g' : Rng) (x : ℝ)
    (h : Poisson.sample fuel lam g = some (x, g')) : ∃ n : ℕ, x = (n : ℝ) := by
  by_cases hl : lam < 10
  · rw [(C03.poisson_routing fuel lam g).1 hl] at h
    obtain ⟨k, hk, _⟩ := C03.poisson_mult_count fuel lam g g' x h
    exact ⟨k, hk⟩
  · rw [(C03.poisson_routing fuel lam g).2 (not_lt.mp hl)] at h
    exact ptrs_support_partial fuel lam (by linarith [not_lt.mp hl]) g g' x h

theorem ptrs_lits2 :
    ((927 / 1000 : ℝ) ≤ ofLit C03T.ptrsV0 ∧ (ofLit C03T.ptrsV0 : ℝ) ≤ 928 / 1000) ∧
    ((362 / 100 : ℝ) ≤ ofLit C03T.ptrsV1 ∧ (ofLit C03T.ptrsV1 : ℝ) ≤ 363 / 100) ∧
    ((93 / 100 : ℝ) ≤ ofLit C03T.ptrsB0 ∧ (ofLit C03T.ptrsB0 : ℝ) ≤ 932 / 1000) ∧
    ((252 / 100 : ℝ) ≤ ofLit C03T.ptrsB1 ∧ (ofLit C03T.ptrsB1 : ℝ) ≤ 254 / 100) ∧
    ((589 / 10000 : ℝ) ≤ ofLit C03T.ptrsA0 ∧ (ofLit C03T.ptrsA0 : ℝ) ≤ 591 / 10000) ∧
    ((248 / 10000 : ℝ) ≤ ofLit C03T.ptrsA1 ∧ (ofLit C03T.ptrsA1 : ℝ) ≤ 249 / 10000) ∧
    ((4299 / 10000 : ℝ) ≤ ofLit C03T.ptrsK0 ∧ (ofLit C03T.ptrsK0 : ℝ) ≤ 4301 / 10000) ∧
    ((69 / 1000 : ℝ) ≤ ofLit C03T.ptrsUs1 ∧ (ofLit C03T.ptrsUs1 : ℝ) ≤ 701 / 10000) := by
  simp only [ofLit_real, C03T.ptrsV0, C03T.ptrsV1, C03T.ptrsB0, C03T.ptrsB1, C03T.ptrsA0, C03T.ptrsA1, C03T.ptrsK0,
    C03T.ptrsUs1]
  norm_num

theorem sqrt_sixteen : Real.sqrt 16 = 4 := by
  rw [show (16 : ℝ) = 4 ^ 2 by norm_num]; exact Real.sqrt_sq (by norm_num)

theorem sqrt_ninth : Real.sqrt (1 / 9) = 1 / 3 := by
  rw [show (1 / 9 : ℝ) = (1 / 3) ^ 2 by norm_num]; exact Real.sqrt_sq (by norm_num)

theorem f53_seed1 : (Rng.f53 ⟨1⟩).1 = 7245656313577245 ∧ (Rng.f53 (Rng.f53 ⟨1⟩).2).1 = 3442408929071957 := by
  decide +kernel

theorem f53_seed138 : (Rng.f53 ⟨138⟩).1 = 670113350814517 := by decide +kernel

theorem f64_snd (g : Rng) : (g.f64 (α := ℝ)).2 = (g.f53).2 := rfl

/-- Non-vacuity of `ptrs_support_partial` / `poisson_sample_support_partial`: at rate 16, from the generator state `1`, PTRS returns in its
first iteration (fast acceptance) — and the value is a natural number. -/
theorem ptrs_returns_witness : 4 ≤ (16 : ℝ) ∧ ∃ (n : ℕ) (g' : Rng), Poisson.sample 1 (16 : ℝ) ⟨1⟩ = some ((n : ℝ), g') := by
  refine ⟨by norm_num, ?_⟩
  obtain ⟨⟨hV0, _⟩, ⟨_, hV1⟩, ⟨hB0, _⟩, ⟨hB1, _⟩, _, _, _, ⟨_, hU1⟩⟩ := ptrs_lits2
  have hret : ∃ k g', Poisson.sample 1 (16 : ℝ) ⟨1⟩ = some (k, g') := by
    rw [(C03.poisson_routing 1 16 ⟨1⟩).2 (by norm_num)]
    unfold Poisson.samplePtrs
    rw [ptrsLoop_succ]
    simp only []
    have hf1 : ((⟨1⟩ : Rng).f64 (α := ℝ)).1 = 7245656313577245 / 2 ^ 53 := by
      rw [f64_eq, f53_seed1.1]; norm_num
    have hV : (((⟨1⟩ : Rng).f64 (α := ℝ)).2.f64 (α := ℝ)).1 = 3442408929071957 / 2 ^ 53 := by
      rw [f64_snd, f64_eq, f53_seed1.2]; norm_num
    have hb : (Poisson.ptrsSetup (16 : ℝ)).b = ofLit C03T.ptrsB0 + ofLit C03T.ptrsB1 * 4 := by
      show ofLit C03T.ptrsB0 + ofLit C03T.ptrsB1 * Real.sqrt 16 = _
      rw [sqrt_sixteen]
    have hvr : (Poisson.ptrsSetup (16 : ℝ)).vr =
        ofLit C03T.ptrsV0 - ofLit C03T.ptrsV1 / ((Poisson.ptrsSetup (16 : ℝ)).b - 2) := by
      show ofLit C03T.ptrsV0 - ofLit C03T.ptrsV1 / ((Poisson.ptrsSetup (16 : ℝ)).b - ((2 : Nat) : ℝ)) = _
      norm_num
    have hcond : (decide ((ofLit C03T.ptrsUs1 : ℝ) ≤ halfC - Transc.abs (((⟨1⟩ : Rng).f64 (α := ℝ)).1 - halfC)) &&
        decide ((((⟨1⟩ : Rng).f64 (α := ℝ)).2.f64 (α := ℝ)).1 ≤ (Poisson.ptrsSetup (16 : ℝ)).vr)) = true := by
      simp only [Bool.and_eq_true, decide_eq_true_eq]
      constructor
      · rw [hf1, halfC_real, abs_def, abs_of_nonneg (by norm_num)]
        have : (1 / 2 : ℝ) - (7245656313577245 / 2 ^ 53 - 1 / 2) ≥ 19 / 100 := by norm_num
        linarith
      · rw [hV, hvr, hb]
        have hd : (893 / 100 : ℝ) ≤ (ofLit C03T.ptrsB0 : ℝ) + ofLit C03T.ptrsB1 * 4 - 2 := by linarith
        have hq : (ofLit C03T.ptrsV1 : ℝ) / (ofLit C03T.ptrsB0 + ofLit C03T.ptrsB1 * 4 - 2) ≤ 41 / 100 := by
          rw [div_le_iff₀ (by linarith)]
          nlinarith
        have : (3442408929071957 / 2 ^ 53 : ℝ) ≤ 39 / 100 := by norm_num
        linarith
    rw [if_pos hcond]
    exact ⟨_, _, rfl⟩
  obtain ⟨k, g', hk⟩ := hret
  obtain ⟨n, hn⟩ := poisson_sample_support_partial 1 16 ⟨1⟩ g' k hk
  exact ⟨n, g', by rw [hk, hn]⟩

/-- **The fast-acceptance test of PTRS does not by itself guarantee `k ≥ 0`.**  At rate `λ = 1/9` (`√λ = 1/3` exactly; never
routed to PTRS by `Poisson::sample`, which requires `λ ≥ 10`) and from the generator state `138` (first uniform
`≈ 0.0744`, so `us ≈ 0.0744 ≥ 0.07`; `vr ≈ 17 > 1 > V`), `sample_ptrs` accepts in its first iteration and returns `−1`. -/
theorem ptrs_small_lambda_returns_negative :
    ∃ g' : Rng, Poisson.samplePtrs 1 (1 / 9 : ℝ) ⟨138⟩ = some (-1, g') := by
  obtain ⟨⟨hV0, _⟩, ⟨hV1, _⟩, ⟨hB0, hB0'⟩, ⟨hB1, hB1'⟩, ⟨hA0, hA0'⟩, ⟨hA1, hA1'⟩, ⟨hK0, hK0'⟩, ⟨_, hU1⟩⟩ := ptrs_lits2
  unfold Poisson.samplePtrs
  rw [ptrsLoop_succ]
  simp only []
  have hf1 : ((⟨138⟩ : Rng).f64 (α := ℝ)).1 = 670113350814517 / 2 ^ 53 := by
    rw [f64_eq, f53_seed138]; norm_num
  have hflo : (71 / 1000 : ℝ) ≤ 670113350814517 / 2 ^ 53 := by norm_num
  have hfhi : (670113350814517 / 2 ^ 53 : ℝ) ≤ 79 / 1000 := by norm_num
  obtain ⟨f, hf⟩ : ∃ f : ℝ, f = 670113350814517 / 2 ^ 53 := ⟨_, rfl⟩
  rw [← hf] at hf1 hflo hfhi
  have hus : halfC - Transc.abs (((⟨138⟩ : Rng).f64 (α := ℝ)).1 - halfC) = f := by
    rw [hf1, halfC_real, abs_def, abs_of_neg (by linarith)]; ring
  have hb : (Poisson.ptrsSetup (1 / 9 : ℝ)).b = ofLit C03T.ptrsB0 + ofLit C03T.ptrsB1 * (1 / 3) := by
    show ofLit C03T.ptrsB0 + ofLit C03T.ptrsB1 * Real.sqrt (1 / 9) = _
    rw [sqrt_ninth]
  have ha : (Poisson.ptrsSetup (1 / 9 : ℝ)).a = -ofLit C03T.ptrsA0 + ofLit C03T.ptrsA1 * (Poisson.ptrsSetup (1 / 9 : ℝ)).b := rfl
  have hvr : (Poisson.ptrsSetup (1 / 9 : ℝ)).vr =
      ofLit C03T.ptrsV0 - ofLit C03T.ptrsV1 / ((Poisson.ptrsSetup (1 / 9 : ℝ)).b - 2) := by
    show ofLit C03T.ptrsV0 - ofLit C03T.ptrsV1 / ((Poisson.ptrsSetup (1 / 9 : ℝ)).b - ((2 : Nat) : ℝ)) = _
    norm_num
  have hlam : (Poisson.ptrsSetup (1 / 9 : ℝ)).lam = 1 / 9 := rfl
  obtain ⟨b, hbdef⟩ : ∃ b : ℝ, b = (Poisson.ptrsSetup (1 / 9 : ℝ)).b := ⟨_, rfl⟩
  obtain ⟨a, hadef⟩ : ∃ a : ℝ, a = (Poisson.ptrsSetup (1 / 9 : ℝ)).a := ⟨_, rfl⟩
  rw [← hbdef] at hb ha hvr
  rw [← hadef] at ha
  have hb1 : 177 / 100 ≤ b := by rw [hb]; linarith
  have hb2 : b ≤ 17787 / 10000 := by rw [hb]; linarith
  have ha1 : -15204 / 1000000 ≤ a := by rw [ha]; nlinarith
  have ha2 : a ≤ -146 / 10000 := by rw [ha]; nlinarith
  have hcond : (decide ((ofLit C03T.ptrsUs1 : ℝ) ≤ halfC - Transc.abs (((⟨138⟩ : Rng).f64 (α := ℝ)).1 - halfC)) &&
      decide ((((⟨138⟩ : Rng).f64 (α := ℝ)).2.f64 (α := ℝ)).1 ≤ (Poisson.ptrsSetup (1 / 9 : ℝ)).vr)) = true := by
    simp only [Bool.and_eq_true, decide_eq_true_eq]
    constructor
    · rw [hus]; linarith
    · have hV := (f64_mem ((⟨138⟩ : Rng).f64 (α := ℝ)).2).2
      rw [hvr]
      have hd : 0 < 2 - b := by linarith
      have : (ofLit C03T.ptrsV1 : ℝ) / (b - 2) = -(ofLit C03T.ptrsV1 / (2 - b)) := by
        rw [show b - 2 = -(2 - b) by ring, div_neg]
      rw [this]
      have : 1 ≤ ofLit C03T.ptrsV1 / (2 - b) := by
        rw [le_div_iff₀ hd]; linarith
      linarith
  rw [if_pos hcond]
  refine ⟨(((⟨138⟩ : Rng).f64 (α := ℝ)).2.f64 (α := ℝ)).2, ?_⟩
  congr 2
  rw [hus, hf1, halfC_real, hlam, floor_def]
  have e2 : ((2 : Nat) : ℝ) = 2 := by norm_num
  rw [e2]
  have hfl : ⌊(2 * a / f + b) * (f - 1 / 2) + 1 / 9 + ofLit C03T.ptrsK0⌋ = -1 := by
    rw [Int.floor_eq_iff]
    have hf0 : 0 < f := by linarith
    have hd1 : -a / f ≤ 2142 / 10000 := by
      rw [div_le_iff₀ hf0]; nlinarith
    have hd0 : 0 ≤ -a / f := div_nonneg (by linarith) hf0.le
    have hexp : (2 * a / f + b) * (f - 1 / 2) = 2 * a + -a / f + b * f - b / 2 := by
      field_simp; ring
    have hbf : b * f ≤ 17787 / 10000 * (79 / 1000) := mul_le_mul hb2 hfhi hf0.le (by norm_num)
    have hbf0 : 0 ≤ b * f := mul_nonneg (by linarith) hf0.le
    rw [hexp]
    constructor
    · push_cast; linarith
    · push_cast; linarith
  rw [← hadef, ← hbdef, hfl]; norm_num

/-! ## Binomial -/

theorem btpeSetup_r_of_le (n : ℕ) (p : ℝ) (hp : p ≤ 1 / 2) : (Binomial.btpeSetup n p).r = p := by
  show (if p ≤ halfC then p else 1 - p) = p
  rw [halfC_real, if_pos hp]

theorem btpeSetup_r_of_gt (n : ℕ) (p : ℝ) (hp : 1 / 2 < p) : (Binomial.btpeSetup n p).r = 1 - p := by
  show (if p ≤ halfC then p else 1 - p) = 1 - p
  rw [halfC_real, if_neg (not_le.mpr hp)]

theorem toU64_natCast (j : ℕ) : ToU64.toU64 ((j : ℝ)) ≤ j := by
  show min ⌊(j : ℝ)⌋₊ (2 ^ 64 - 1) ≤ j
  rw [Nat.floor_natCast]; exact Nat.min_le_left _ _

/-- **BTPE support.** With `r = min(p, 1 − p)`, `0 < r` and `n r > 30`: every count returned by `binomial_btpe(n, p)` is at
most `n` (it is a `u64`, so a non-negative integer by type), and it is the exact image of an integer-valued candidate
`y ∈ [0, n]` (`y` itself for `p ≤ ½`, `n − y` for `p > ½`). -/
theorem btpe_support_partial (fuel ifuel n : ℕ) (p : ℝ) (h0 : 0 < (Binomial.btpeSetup n p).r) (h1 : (Binomial.btpeSetup n p).r ≤ 1 / 2)
    (hn : 30 < (n : ℝ) * (Binomial.btpeSetup n p).r) (g g' : Rng) (k : ℕ)
    (h : Binomial.btpe fuel ifuel n p g = some (k, g')) : k ≤ n := by
  have hgood := btpeSetup_good n p h0 h1 hn
  unfold Binomial.btpe at h
  simp only [] at h
  by_cases hp4 : (Binomial.btpeSetup n p).p4 < 0
  · rw [if_pos hp4] at h; simp at h
  rw [if_neg hp4] at h
  cases hl : Binomial.btpeLoop (Binomial.btpeSetup n p) ifuel fuel g with
  | none => rw [hl] at h; simp at h
  | some r =>
    obtain ⟨y, g1⟩ := r
    rw [hl] at h
    simp only [Option.some.injEq, Prod.mk.injEq] at h
    obtain ⟨j, hj, hjn⟩ := btpeLoop_inRange hgood (not_lt.mp hp4) ifuel fuel g g1 y hl
    rw [← h.1, hgood.nf, hj]
    by_cases hp : (halfC : ℝ) < p
    · rw [if_pos hp]
      have : ((n : ℝ) - (j : ℝ)) = ((n - j : ℕ) : ℝ) := by rw [Nat.cast_sub hjn]
      rw [this]
      exact le_trans (toU64_natCast _) (Nat.sub_le _ _)
    · rw [if_neg hp]
      exact le_trans (toU64_natCast _) hjn

/-- The routed sampler (inversion for `n p' ≤ 30`, BTPE otherwise) at `0 < p' ≤ ½` returns a count `≤ n`. -/
theorem binomialRoute_le (fuel ifuel n : ℕ) (p : ℝ) (hp0 : 0 < p) (hp : p ≤ 1 / 2) (g g' : Rng) (k : ℕ)
    (h : C03.binomialRoute fuel ifuel n p g = some (k, g')) : k ≤ n := by
  unfold C03.binomialRoute at h
  split_ifs at h with h30
  · exact C03.binomial_inversion_le fuel n p hp0 (by linarith) g g' k h
  · have hr := btpeSetup_r_of_le n p hp
    exact btpe_support_partial fuel ifuel n p (by rw [hr]; exact hp0) (by rw [hr]; exact hp)
      (by rw [hr]; have := not_le.mp h30; linarith [mul_comm p (n : ℝ)]) g g' k h

/-- **Binomial support.** For every `n` and every valid `p ∈ [0, 1]`, every draw of `Binomial::sample` is an integer in
`[0, n]` — degenerate parameters, inversion, BTPE, and the `p > ½` flip (whose checked subtraction therefore never panics). -/
theorem binomial_sample_support_partial (fuel ifuel n : ℕ) (p : ℝ) (hp0 : 0 ≤ p) (hp1 : p ≤ 1) (g g' : Rng) (x : ℝ)
    (h : Binomial.sample fuel ifuel n p g = some (x, g')) : ∃ j : ℕ, x = (j : ℝ) ∧ j ≤ n := by
  by_cases hn : n = 0
  · subst hn
    rw [(C03.binomial_degenerate fuel ifuel 0 p g).1] at h
    simp only [Option.some.injEq, Prod.mk.injEq] at h
    exact ⟨0, by rw [← h.1]; simp, le_refl _⟩
  have hnpos : 0 < n := Nat.pos_of_ne_zero hn
  by_cases hpz : p = 0
  · subst hpz
    rw [(C03.binomial_degenerate fuel ifuel n 0 g).2.1] at h
    simp only [Option.some.injEq, Prod.mk.injEq] at h
    exact ⟨0, by rw [← h.1]; simp, Nat.zero_le _⟩
  have hppos : 0 < p := lt_of_le_of_ne hp0 (Ne.symm hpz)
  by_cases he : |p - 1| ≤ (epsC : ℝ)
  · have e0 : (p < 0 ∨ 0 < p) := Or.inr hppos
    have : Binomial.sample fuel ifuel n p g = some ((n : ℝ), g) := by
      simp [Binomial.sample, hn, e0, Transc.abs, he]
    rw [this] at h
    simp only [Option.some.injEq, Prod.mk.injEq] at h
    exact ⟨n, h.1.symm, le_refl _⟩
  · by_cases h2 : p ≤ 1 / 2
    · rw [C03.binomial_routing fuel ifuel n p g hnpos hppos h2] at h
      cases hr : C03.binomialRoute fuel ifuel n p g with
      | none => rw [hr] at h; simp at h
      | some r =>
        rw [hr] at h
        simp only [Option.map_some, Option.some.injEq, Prod.mk.injEq] at h
        exact ⟨r.1, h.1.symm, binomialRoute_le fuel ifuel n p hppos h2 g r.2 r.1 hr⟩
    · have h2' : 1 / 2 < p := not_le.mp h2
      have hlt1 : p < 1 := by
        rcases lt_or_eq_of_le hp1 with h | h
        · exact h
        · exfalso; apply he; rw [h]; simp [epsC]
      rw [C03.binomial_flip fuel ifuel n p g hnpos h2' (not_le.mp he)] at h
      cases hr : C03.binomialRoute fuel ifuel n (1 - p) g with
      | none => rw [hr] at h; simp at h
      | some r =>
        rw [hr] at h
        have hle := binomialRoute_le fuel ifuel n (1 - p) (by linarith) (by linarith) g r.2 r.1 hr
        simp only [Option.bind_some, if_pos hle, Option.some.injEq, Prod.mk.injEq] at h
        exact ⟨n - r.1, h.1.symm, Nat.sub_le _ _⟩

/-- The flip of `Binomial::sample` never panics: whenever the routed sampler returns, so does `sample`. -/
theorem binomial_flip_total (fuel ifuel n : ℕ) (p : ℝ) (hn : 0 < n) (h2 : 1 / 2 < p) (hp1 : p < 1) (h1 : (epsC : ℝ) < |p - 1|)
    (g g1 : Rng) (r : ℕ) (hr : C03.binomialRoute fuel ifuel n (1 - p) g = some (r, g1)) :
    Binomial.sample fuel ifuel n p g = some (((n - r : ℕ) : ℝ), g1) := by
  rw [C03.binomial_flip fuel ifuel n p g hn h2 h1, hr]
  have hle := binomialRoute_le fuel ifuel n (1 - p) (by linarith) (by linarith) g g1 r hr
  simp [hle]

/-- Non-vacuity of the BTPE hypotheses: `n = 100`, `p = ½` (`n p = 50 > 30`) — the set-up constants are good. -/
example : Good 100 (Binomial.btpeSetup 100 (1 / 2 : ℝ)) := by
  have hr := btpeSetup_r_of_le 100 (1 / 2 : ℝ) (le_refl _)
  exact btpeSetup_good 100 (1 / 2) (by rw [hr]; norm_num) (by rw [hr]) (by rw [hr]; norm_num)

/-! ## Ziggurat -/

/-- **Ziggurat, fast strip**: `x = j·W[i] ≥ 0` for every layer index produced by the mask `u & 0x7F`. -/
theorem zig_strip_nonneg (u : UInt64) (j : ℕ) : 0 ≤ (j : ℝ) * Normal.zW (u &&& 0x7F).toNat :=
  mul_nonneg (Nat.cast_nonneg j) (zW_nonneg _ (layer_lt u))

/-- **Ziggurat, wedge and tail**: the candidate abscissa is a real `≥ 0`; in the tail it is `≥ R > 0` and the argument of
`ln_1p` is `> −1` (finite logarithm) for every generator state. -/
theorem zig_wedge_tail_nonneg (u : UInt64) (j : ℕ) (g : Rng) :
    0 ≤ (Normal.wedgeOrTail (α := ℝ) (u &&& 0x7F).toNat j g).1 ∧
      (¬ (u &&& 0x7F).toNat < 127 →
        Normal.zR ≤ (Normal.wedgeOrTail (α := ℝ) (u &&& 0x7F).toNat j g).1 ∧ 0 < 1 + -(g.f64 (α := ℝ)).1) :=
  wedgeOrTail_nonneg _ j (layer_lt u) g

/-- **Ziggurat, returned value**: every accepting branch returns `Normal.out μ σ s x = s·x·σ + μ` with `s = ±1`. -/
theorem zig_out (mu sigma x : ℝ) (u : UInt64) :
    ∃ s : ℝ, (s = 1 ∨ s = -1) ∧
      Normal.out mu sigma (if u &&& 0x80 != 0 then (1 : ℝ) else -1) x = s * x * sigma + mu :=
  ⟨_, sign_pm u, rfl⟩

example : (0 : ℝ) < Normal.zR := zR_pos

/-! ## Compositions -/

/-- **Chi-squared draws are `> 0`**, every `dof ≥ 1` and every returning call (after repair F54 the boosting uniform of
`dof = 1` is redrawn while it is `0`; before it the draw was exactly `0` there). -/
theorem chi_squared_pos_partial (fuel k : ℕ) (hk : 0 < k) (g g' : Rng) (x : ℝ)
    (h : ChiSquared.sample (α := ℝ) fuel k g = some (x, g')) : 0 < x :=
  C03.chi_squared_support_partial fuel k hk g g' x h

/-- **Student t**: the draw is `√(ν/2)·Z/√G` with `G > 0`: the denominator `√G` is `> 0` for every `ν > 0`, so the quotient
is an honest real division (after repair F54 also at the zero-uniform states, where it used to be `±∞`). -/
theorem t_support_partial (fuel : ℕ) (nu : ℝ) (hnu : 0 < nu) (g g' : Rng) (t : ℝ) (h : T.sample fuel nu g = some (t, g')) :
    ∃ (z gm : ℝ) (g1 : Rng), Normal.sample fuel (0 : ℝ) 1 g = some (z, g1) ∧ Gamma.sample fuel (nu / 2) 1 g1 = some (gm, g') ∧
      t = Real.sqrt (nu / 2) * z / Real.sqrt gm ∧ 0 < gm ∧ 0 < Real.sqrt gm := by
  cases hz : Normal.sample fuel (0 : ℝ) 1 g with
  | none => simp [T.sample, hz] at h
  | some r =>
    obtain ⟨z, g1⟩ := r
    cases hg : Gamma.sample fuel (nu / 2) 1 g1 with
    | none =>
      have hv : Gamma.valid (nu / ((2 : Nat) : ℝ)) (1 : ℝ) = true := by simpa [Gamma.valid] using hnu
      have e : nu / ((2 : Nat) : ℝ) = nu / 2 := by norm_num
      simp only [T.sample, hz, hv, if_true, e, hg] at h
      simp at h
    | some r2 =>
      obtain ⟨gm, g2⟩ := r2
      rw [C03.t_formula fuel nu hnu g g1 g2 z gm hz hg] at h
      simp only [Option.some.injEq, Prod.mk.injEq] at h
      obtain ⟨ht, hg2⟩ := h
      subst hg2
      have hnu2 : 0 < nu / 2 := by positivity
      have hgm := C03.gamma_support_pos_partial fuel _ 1 hnu2 one_pos g1 g2 gm hg
      exact ⟨z, gm, g1, rfl, hg, ht.symm, hgm, Real.sqrt_pos.mpr hgm⟩

/-- **Beta support** (both branches, the underflow branch `x + y = 0` included): re-export of `C03.beta_sample_support_partial`. -/
theorem beta_support_partial (fuel : ℕ) (a b : ℝ) (ha : 0 < a) (hb : 0 < b) (g g' : Rng) (v : ℝ)
    (h : Beta.sample fuel a b g = some (v, g')) : 0 ≤ v ∧ v ≤ 1 :=
  C03.beta_sample_support_partial fuel a b ha hb g g' v h

end Cv.C03Support
