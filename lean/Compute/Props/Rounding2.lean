import Compute.Lemmas.StatRounding
import Compute.Lemmas.WelfordRounding
import Compute.Lemmas.NormRounding
import Compute.Lemmas.InterpRounding
import Compute.Props.C16
import Mathlib.Tactic.NormNum
/-
Worst-case rounding-error theorems, second batch: statistics (C08), norms (C04), interpolation (C16),
for the *same* model terms that are tied bit for bit to the Rust code at `Float`, instantiated at the
scalar type `Fl M` of `Lemmas/FlModel.lean` (standard model `rnd x = x(1+δ)`, `|δ| ≤ u`).

TRUSTED LINK (stated, not proved), as in `Props/Rounding.lean`: IEEE-754 binary64 round-to-nearest
satisfies the standard model with `u = 2⁻⁵³` barring overflow/underflow; `sqrt` is correctly rounded
(`SqrtStd.ofRnd`); rounding is idempotent, `1` and the data are representable (only used where stated).

Headline theorems (proved in the `Lemmas/*Rounding.lean` files of this namespace, all in `Cv.Rounding2`):

* C08 two-pass covariance (`Lemmas/StatRounding.lean`)
  - `shiftedCo_eq`       Σ(xᵢ−a)(yᵢ−b) = Σ(xᵢ−x̄)(yᵢ−ȳ) + n(x̄−a)(ȳ−b)   (exact)
  - `coMoment_pert`      computed co-moment = Σ (xᵢ−m̂x)(yᵢ−m̂y)·fᵢ, `Fac (n+3) fᵢ`
  - `coMoment_div_error` general bound in terms of the two mean errors
  - `covariance_error`, `sampleCovariance_error`, `covariance_self_error`
        |ĉ − cov| ≤ γ_{n+5}·A/n + (1+γ_{n+5})·εx·εy + γ_{n+5}(εy·Sx + εx·Sy)/n,  ε = γ_{n+2}·mean|·|
  - `absComoment_shift`, `absDev_shift`: the first-order scale `A`, `S` is shift invariant
* C08 Welford (`Lemmas/WelfordRounding.lean`)
  - `welfordM2_invariant` (the recurrence, solved), `welfordM2_error`, `var_error`, `sampleVar_error`
        |M̂2 − M2| ≤ γ_{n+3}·M2 + (1+γ_{n+3})·n·(2RE + E²),   E ≈ (n/2+6.5)·u·max|xᵢ|
  - `welford_mean_term_necessary` (this file): no bound `K·u·(M2 + n·max|xᵢ−x̄|²)` can hold for
    Welford in the standard model — the term proportional to the size of the data is inherent
* C04 norms (`Lemmas/NormRounding.lean`)
  - `normL_error` (γ_{⌊n/2⌋+2}, bare model), `normL_error_idem` (γ_{⌈n/2⌉+1}), relative to ‖x‖₂
  - `infNormL_error` (γ_{ncols}, relative; the max is exact)
* C16 interpolation (`Lemmas/InterpRounding.lean`)
  - `interiorF_error`, `interpOne_error`   |v̂ − line(t)| ≤ γ₈·max(|y_{i−1}|,|y_i|)
  - `interiorF_left/right`, `interpOne_knot_exact`   v̂ = y_k exactly at the knots

This file: numeric corollaries at `u = 2⁻⁵³` and the non-vacuity examples (`namespace Examples`).
-/
namespace Cv.Rounding2
open Cv Cv.FlModel Cv.Rounding Cv.C08 Cv.C16

variable {M : FlModel}

/-- `γ_k ≤ 2·k·u` as soon as `2·k·u ≤ 1` -/
theorem γ_le_two_mul (M : FlModel) (k : Nat) (h : 2 * ((k : ℝ) * M.u) ≤ 1) : M.γ k ≤ 2 * (k * M.u) := by
  unfold FlModel.γ
  have hku : 0 ≤ (k : ℝ) * M.u := mul_nonneg (Nat.cast_nonneg k) M.u_nonneg
  rw [div_le_iff₀ (by linarith)]
  nlinarith

/-- **the C16 oracle's tolerance is a theorem**: in any model with `16·u ≤ 1` (e.g. `u = 2⁻⁵³`) the
computed interior value is within `16·u·max(|y_{i−1}|,|y_i|)` of the chord. -/
theorem interpOne_error_16u (x y : List (Fl M)) (mode : ExtrapMode (Fl M)) (t : Fl M)
    (hk : Knots (vals x) (vals y))
    (h0 : (vals x)[0]'(by have := hk.two; omega) ≤ t.val)
    (h1 : t.val ≤ (vals x)[(vals x).length - 1]'(by have := hk.two; omega))
    (h : 16 * M.u ≤ 1) :
    ∃ v, interpOne x y mode t = some v ∧
      |v.val - lineAt (vals x) (vals y) (idxOf (vals x) t.val) t.val| ≤
        16 * M.u * max |(vals y)[idxOf (vals x) t.val - 1]!| |(vals y)[idxOf (vals x) t.val]!| := by
  have h8 : ((8 : Nat) : ℝ) * M.u < 1 := by push_cast; linarith
  obtain ⟨v, hv, he⟩ := interpOne_error x y mode t hk h0 h1 h8
  refine ⟨v, hv, le_trans he (mul_le_mul_of_nonneg_right ?_ (le_trans (abs_nonneg _) (le_max_left _ _)))⟩
  have := γ_le_two_mul M 8 (by push_cast; linarith)
  push_cast at this
  linarith

/-- **C16 "hence between their ordinates", rounded arithmetic**: the computed interior value lies
between the two neighbouring ordinates up to the rounding bound `γ₈·max(|y_{i−1}|,|y_i|)`. -/
theorem interpOne_between_rounded (x y : List (Fl M)) (mode : ExtrapMode (Fl M)) (t : Fl M)
    (hk : Knots (vals x) (vals y))
    (h0 : (vals x)[0]'(by have := hk.two; omega) ≤ t.val)
    (h1 : t.val ≤ (vals x)[(vals x).length - 1]'(by have := hk.two; omega))
    (h : ((8 : Nat) : ℝ) * M.u < 1) :
    ∃ v, interpOne x y mode t = some v ∧
      min (vals y)[idxOf (vals x) t.val - 1]! (vals y)[idxOf (vals x) t.val]!
          - M.γ 8 * max |(vals y)[idxOf (vals x) t.val - 1]!| |(vals y)[idxOf (vals x) t.val]!| ≤ v.val ∧
      v.val ≤ max (vals y)[idxOf (vals x) t.val - 1]! (vals y)[idxOf (vals x) t.val]!
          + M.γ 8 * max |(vals y)[idxOf (vals x) t.val - 1]!| |(vals y)[idxOf (vals x) t.val]!| := by
  obtain ⟨v, hv, he⟩ := interpOne_error x y mode t hk h0 h1 h
  obtain ⟨hi0, hi1, hb0, hb1⟩ := bracket_le hk t.val h0 h1
  obtain ⟨l1, l2⟩ := lineAt_between hk t.val _ hi0 hi1 hb0 hb1
  have := abs_le.mp he
  exact ⟨v, hv, by linarith [this.1], by linarith [this.2]⟩

/-- at `u = 2⁻⁵³` the relative error of `norm` for vectors of length `≤ 10⁴` is below `5.6·10⁻¹³`.
PROVISO: a theorem of the idealised standard model (`fl(x) = x(1+δ)` for EVERY operation, library functions of relative error `≤ uf` for EVERY argument), instantiated at `u = 2⁻⁵³`; it is a statement about IEEE binary64 only where no operation overflows or underflows (for `exp`: arguments in `[−708.39, 709.78]`). -/
theorem normL_stdmodel_note (M : FlModel) [SqrtStd M] (hu : M.u = 1 / 2 ^ 53) (x : List (Fl M))
    (hn : x.length ≤ 10000) :
    |(VecOps.normL x).val - norm2 (vals x)| ≤ 5.6e-13 * norm2 (vals x) := by
  have hk : x.length / 2 + 2 ≤ 5002 := by omega
  have h4 : ((5002 : Nat) : ℝ) * M.u < 1 := by rw [hu]; norm_num
  have hlt : ((x.length / 2 + 2 : Nat) : ℝ) * M.u < 1 :=
    lt_of_le_of_lt (mul_le_mul_of_nonneg_right (Nat.cast_le.mpr hk) M.u_nonneg) h4
  refine le_trans (normL_error x hlt) (mul_le_mul_of_nonneg_right ?_ (norm2_nonneg _))
  refine le_trans (M.γ_mono hk h4) ?_
  unfold FlModel.γ
  rw [hu]
  norm_num


/-! ### necessity of the mean-dependent term in the Welford bound -/

section necessity
variable (p c : ℝ) (hc0 : 0 ≤ c) (hc1 : c < 1)

theorem bump_rnd_ne {x : ℝ} (h : x ≠ p) : (FlModel.bump p c hc0 hc1).rnd x = x := if_neg h
theorem bump_rnd_self : (FlModel.bump p c hc0 hc1).rnd p = p * (1 + c) := if_pos rfl

/-- Welford on the two points `p − 2`, `p + 2` in the model whose only rounding error is
`rnd p = p(1+c)` (idempotent, `u = c`, `rnd 1 = 1`, data representable): the running mean `p` is hit
exactly, and the computed `M2` is `8 − 4·p·c` while the exact one is `8`. -/
theorem welford_bump_value (hp : 8 < p) :
    (welfordStatistics ([⟨p - 2⟩, ⟨p + 2⟩] : List (Fl (FlModel.bump p c hc0 hc1)))).2.2.val
      = 8 - 4 * p * c ∧ m2 [p - 2, p + 2] = 8 := by
  set M := FlModel.bump p c hc0 hc1 with hM
  have r (x : ℝ) (h : x ≠ p) : M.rnd x = x := bump_rnd_ne p c hc0 hc1 h
  have rp : M.rnd p = p * (1 + c) := bump_rnd_self p c hc0 hc1
  have hpc : 0 ≤ p * c := mul_nonneg (by linarith) hc0
  constructor
  · -- first point
    have s1 : welfordUpdate ((0 : Nat), (0 : Fl M), (0 : Fl M)) ⟨p - 2⟩ = (1, ⟨p - 2⟩, ⟨0⟩) := by
      have hm : M.rnd ((0 : ℝ) + M.rnd (M.rnd (p - 2 - 0) / M.rnd (((0 + 1 : Nat) : ℝ)))) = p - 2 := by
        have e1 : (p - 2 - 0 : ℝ) = p - 2 := by ring
        have e2 : (((0 + 1 : Nat) : ℝ)) = 1 := by norm_num
        rw [e1, e2, r (p - 2) (by linarith), r 1 (by linarith), div_one, r (p - 2) (by linarith),
          zero_add, r (p - 2) (by linarith)]
      refine Prod.ext rfl (Prod.ext (Fl.ext hm) (Fl.ext ?_))
      show M.rnd ((0 : ℝ) + M.rnd (M.rnd (p - 2 - 0) * M.rnd (p - 2 -
        M.rnd ((0 : ℝ) + M.rnd (M.rnd (p - 2 - 0) / M.rnd (((0 + 1 : Nat) : ℝ))))))) = 0
      rw [hm, sub_self, M.rnd_zero, mul_zero, M.rnd_zero, add_zero, M.rnd_zero]
    have s2 : welfordUpdate ((1 : Nat), (⟨p - 2⟩ : Fl M), (⟨0⟩ : Fl M)) ⟨p + 2⟩ =
        (2, ⟨p * (1 + c)⟩, ⟨8 - 4 * p * c⟩) := by
      have hm : M.rnd ((p - 2 : ℝ) + M.rnd (M.rnd (p + 2 - (p - 2)) / M.rnd (((1 + 1 : Nat) : ℝ))))
          = p * (1 + c) := by
        have e1 : (p + 2 - (p - 2) : ℝ) = 4 := by ring
        have e2 : (((1 + 1 : Nat) : ℝ)) = 2 := by norm_num
        have e3 : (4 : ℝ) / 2 = 2 := by norm_num
        have e4 : (p - 2 + 2 : ℝ) = p := by ring
        rw [e1, e2, r 4 (by linarith), r 2 (by linarith), e3, r 2 (by linarith), e4, rp]
      refine Prod.ext rfl (Prod.ext (Fl.ext hm) (Fl.ext ?_))
      show M.rnd ((0 : ℝ) + M.rnd (M.rnd (p + 2 - (p - 2)) * M.rnd (p + 2 -
        M.rnd ((p - 2 : ℝ) + M.rnd (M.rnd (p + 2 - (p - 2)) / M.rnd (((1 + 1 : Nat) : ℝ))))))) = 8 - 4 * p * c
      have e1 : (p + 2 - (p - 2) : ℝ) = 4 := by ring
      have e5 : (p + 2 - p * (1 + c) : ℝ) = 2 - p * c := by ring
      have e6 : (4 : ℝ) * (2 - p * c) = 8 - 4 * p * c := by ring
      rw [hm, e1, r 4 (by linarith), e5, r (2 - p * c) (by linarith), e6,
        r (8 - 4 * p * c) (by nlinarith), zero_add, r (8 - 4 * p * c) (by nlinarith)]
    show (welfordUpdate (welfordUpdate ((0 : Nat), (0 : Fl M), (0 : Fl M)) ⟨p - 2⟩) ⟨p + 2⟩).2.2.val = _
    rw [s1]
    show (welfordUpdate ((1 : Nat), (⟨p - 2⟩ : Fl M), (⟨0⟩ : Fl M)) ⟨p + 2⟩).2.2.val = _
    rw [s2]
  · simp [m2, mu]
    ring

/-- **the mean-dependent term of `welfordM2_error` is necessary**: no bound of the shift-invariant form
`|M̂2 − M2| ≤ K·u·(M2 + n·max|xᵢ−x̄|²)` holds for Welford's algorithm in the standard model, whatever
the constant `K` — even for `n = 2`, idempotent rounding, `rnd 1 = 1` and representable data.  (Witness:
the points `p ± 2` with `p = 4|K| + 9` in the model whose only rounding error is `rnd p = 1.01·p`; the
running mean hits `p`.)  The two-pass algorithm does satisfy such a bound to first order
(`covariance_self_error`). -/
theorem welford_mean_term_necessary (K : ℝ) : ∃ (M : FlModel) (data : List (Fl M)),
    M.Idem ∧ M.rnd 1 = 1 ∧ (∀ a ∈ data, a.Rep) ∧ ((4 * data.length : Nat) : ℝ) * M.u < 1 ∧
    (∀ a ∈ data, |a.val - mu (vals data)| ≤ 2) ∧
    K * M.u * (m2 (vals data) + data.length * 2 ^ 2) <
      |(welfordStatistics data).2.2.val - m2 (vals data)| := by
  set p : ℝ := 4 * |K| + 9 with hp
  have hK := abs_nonneg K
  have hKle := le_abs_self K
  have hp8 : 8 < p := by linarith
  have h0 : (0 : ℝ) ≤ 1 / 100 := by norm_num
  have h1 : (1 : ℝ) / 100 < 1 := by norm_num
  obtain ⟨hv, hm2⟩ := welford_bump_value p (1 / 100) h0 h1 hp8
  refine ⟨FlModel.bump p (1 / 100) h0 h1, [⟨p - 2⟩, ⟨p + 2⟩], FlModel.bump_idem _ _ _ _,
    bump_rnd_ne p _ h0 h1 (by linarith), ?_, ?_, ?_, ?_⟩
  · intro a ha
    simp only [List.mem_cons, List.not_mem_nil, or_false] at ha
    rcases ha with rfl | rfl
    · exact bump_rnd_ne p _ h0 h1 (by show p - 2 ≠ p; linarith)
    · exact bump_rnd_ne p _ h0 h1 (by show p + 2 ≠ p; linarith)
  · show ((4 * 2 : Nat) : ℝ) * (1 / 100) < 1
    norm_num
  · have hmu : mu (vals ([⟨p - 2⟩, ⟨p + 2⟩] : List (Fl (FlModel.bump p (1 / 100) h0 h1)))) = p := by
      simp [mu, vals]
    intro a ha
    rw [hmu]
    simp only [List.mem_cons, List.not_mem_nil, or_false] at ha
    rcases ha with rfl | rfl
    · show |p - 2 - p| ≤ 2
      rw [show p - 2 - p = -2 by ring]; norm_num
    · show |p + 2 - p| ≤ 2
      rw [show p + 2 - p = 2 by ring]; norm_num
  · have hvals : vals ([⟨p - 2⟩, ⟨p + 2⟩] : List (Fl (FlModel.bump p (1 / 100) h0 h1))) = [p - 2, p + 2] := by
      simp [vals]
    rw [hvals, hv, hm2]
    show K * (1 / 100) * (8 + ((2 : Nat) : ℝ) * 2 ^ 2) < |8 - 4 * p * (1 / 100) - 8|
    rw [show (8 : ℝ) - 4 * p * (1 / 100) - 8 = -(4 * p * (1 / 100)) by ring, abs_neg,
      abs_of_nonneg (by positivity)]
    push_cast
    nlinarith

end necessity

/-! ### Non-vacuity: concrete models and concrete inputs -/

namespace Examples
open Cv.Rounding.Examples

/-- exact except that `3` is rounded to `3.03` (`u = 1/100`); idempotent, `rnd 1 = 1` -/
noncomputable abbrev Mb : FlModel := FlModel.bump 3 (1 / 100) (by norm_num) (by norm_num)
theorem Mb_u : Mb.u = 1 / 100 := rfl
theorem Mb_rnd (x : ℝ) : Mb.rnd x = if x = 3 then 3 * (1 + 1 / 100) else x := rfl
theorem Mb_one : Mb.rnd 1 = 1 := by rw [Mb_rnd]; norm_num
theorem Mb_idem : Mb.Idem := FlModel.bump_idem _ _ _ _

/-! #### two-pass covariance (1 % model `Minf`: every operation overestimates by 1 %) -/

noncomputable abbrev xs : List (Fl Minf) := [⟨1⟩, ⟨3⟩]
noncomputable abbrev ys : List (Fl Minf) := [⟨2⟩, ⟨6⟩]

/-- `covariance_error`: the hypotheses hold (`(2+5)·u = 0.07 < 1`) -/
example : ∃ c, covariance xs ys = some c ∧
      |c.val - comoment (vals xs) (vals ys) / xs.length| ≤
        Minf.γ (xs.length + 5) * absComoment (vals xs) (vals ys) / xs.length
        + (1 + Minf.γ (xs.length + 5)) *
            ((Minf.γ (xs.length + 2) * meanAbs (vals xs)) * (Minf.γ (ys.length + 2) * meanAbs (vals ys)))
        + Minf.γ (xs.length + 5) *
            ((Minf.γ (ys.length + 2) * meanAbs (vals ys)) * absDev (vals xs)
              + (Minf.γ (xs.length + 2) * meanAbs (vals xs)) * absDev (vals ys)) / xs.length :=
  covariance_error xs ys rfl (by simp) (by rw [Minf_u]; norm_num)

/-- … and the computed covariance really differs from the exact one (`2`) in this model -/
example : ∃ c, covariance xs ys = some c ∧ c.val ≠ 2 ∧ comoment (vals xs) (vals ys) / 2 = 2 := by
  refine ⟨_, rfl, ?_, ?_⟩
  · simp only [coMoment, mean, iterSum, sum8, sum8Go, xs, ys, List.zipWith_cons_cons,
      List.zipWith_nil_right, List.foldl_cons, List.foldl_nil, Fl.add_val, Fl.mul_val, Fl.sub_val,
      Fl.div_val, Fl.zero_val, Fl.neg_val, Fl.natCast_val, Minf_rnd, List.length_cons, List.length_nil]
    norm_num
  · simp [comoment, mu, vals]
    norm_num

/-- `sampleCovariance_error`, `covariance_self_error`: hypotheses hold -/
example : ∃ c, sampleCovariance xs ys = some c := by
  obtain ⟨c, hc, _⟩ := sampleCovariance_error xs ys rfl (by simp) (by rw [Minf_u]; norm_num)
  exact ⟨c, hc⟩
example : ∃ c, covariance xs xs = some c ∧ |c.val - m2 (vals xs) / xs.length| ≤
      Minf.γ (xs.length + 5) * m2 (vals xs) / xs.length
      + (1 + Minf.γ (xs.length + 5)) * (Minf.γ (xs.length + 2) * meanAbs (vals xs)) ^ 2
      + 2 * Minf.γ (xs.length + 5) * ((Minf.γ (xs.length + 2) * meanAbs (vals xs)) * absDev (vals xs))
          / xs.length :=
  covariance_self_error xs (by simp) (by rw [Minf_u]; norm_num)

/-- shift invariance of the first-order scale, on concrete data -/
example : absComoment ([1, 3].map (· + 1000)) ([2, 6].map (· + 5000)) = absComoment [1, 3] [2, 6] :=
  absComoment_shift _ _ _ _

/-! #### Welford (idempotent model `Mb`) -/

noncomputable abbrev w15 : List (Fl Mb) := [⟨1⟩, ⟨5⟩]

theorem w15_rep : ∀ a ∈ w15, a.Rep := by
  intro a ha
  simp only [w15, List.mem_cons, List.not_mem_nil, or_false] at ha
  rcases ha with rfl | rfl <;> simp [Fl.Rep, Mb_rnd]

theorem w15_X : ∀ a ∈ w15, |a.val| ≤ 5 := by
  intro a ha
  simp only [w15, List.mem_cons, List.not_mem_nil, or_false] at ha
  rcases ha with rfl | rfl <;> norm_num

theorem w15_R : ∀ a ∈ w15, ∀ b ∈ w15, |a.val - b.val| ≤ 4 := by
  intro a ha b hb
  simp only [w15, List.mem_cons, List.not_mem_nil, or_false] at ha hb
  rcases ha with rfl | rfl <;> rcases hb with rfl | rfl <;> norm_num

/-- `welfordM2_error`: the hypotheses hold; the running mean `3` is rounded to `3.03`, the computed
`M2` is `7.88`, the exact one `8`, and the difference is within the proved bound -/
example : (welfordStatistics w15).2.2.val = 788 / 100 ∧ m2 (vals w15) = 8 ∧
    |(welfordStatistics w15).2.2.val - m2 (vals w15)| ≤
      Mb.γ 5 * m2 (vals w15) + (1 + Mb.γ 5) * (2 * (2 * 4 * wE Mb 2 5 + wE Mb 2 5 ^ 2)) := by
  refine ⟨?_, ?_, ?_⟩
  · simp only [welfordStatistics, welfordUpdate, w15, List.foldl_cons, List.foldl_nil, Fl.add_val,
      Fl.mul_val, Fl.sub_val, Fl.div_val, Fl.zero_val, Fl.natCast_val, Mb_rnd]
    norm_num
  · simp [m2, mu, vals]
    norm_num
  · have := welfordM2_error w15 5 4 w15_X w15_R Mb_one w15_rep (by simp) (by rw [Mb_u]; norm_num)
    simpa using this

/-- `var_error`, `sampleVar_error`: hypotheses hold -/
example : |(var w15).val - m2 (vals w15) / 2| ≤
      (Mb.γ 2 * m2 (vals w15) + (1 + Mb.γ 2) *
        (Mb.γ 5 * m2 (vals w15) + (1 + Mb.γ 5) * (2 * (2 * 4 * wE Mb 2 5 + wE Mb 2 5 ^ 2)))) / 2 := by
  have := var_error w15 5 4 w15_X w15_R Mb_one w15_rep (by simp) (by rw [Mb_u]; norm_num)
  simpa using this
example : ∃ v, sampleVar w15 = some v := by
  obtain ⟨v, hv, _⟩ := sampleVar_error w15 5 4 w15_X w15_R Mb_one w15_rep (by simp)
    (by rw [Mb_u]; norm_num)
  exact ⟨v, hv⟩

/-! #### norms -/

/-- correctly rounded square roots -/
noncomputable local instance : SqrtStd Minf := SqrtStd.ofRnd Minf
noncomputable local instance : SqrtStd Mb := SqrtStd.ofRnd Mb

noncomputable abbrev v34 : List (Fl Minf) := [⟨3⟩, ⟨4⟩]

/-- `normL_error`: exact norm `5`; the hypothesis `(⌊2/2⌋+2)·u < 1` holds -/
example : norm2 (vals v34) = 5 ∧
    |(VecOps.normL v34).val - norm2 (vals v34)| ≤ Minf.γ 3 * norm2 (vals v34) := by
  refine ⟨?_, normL_error v34 (by rw [Minf_u]; norm_num)⟩
  simp only [norm2, vals, v34, List.map_cons, List.map_nil, List.sum_cons, List.sum_nil]
  rw [show (3 : ℝ) * 3 + (4 * 4 + 0) = 5 ^ 2 by norm_num]
  exact Real.sqrt_sq (by norm_num)

/-- `normL_error_idem` in the idempotent model -/
example : |(VecOps.normL w15).val - norm2 (vals w15)| ≤ Mb.γ 2 * norm2 (vals w15) :=
  normL_error_idem Mb_idem w15 (by rw [Mb_u]; norm_num)

/-- a NaN test on `Fl M` that is true of the seed `-1` and false of every non-negative value -/
noncomputable def isNaNneg (a : Fl Minf) : Bool := @decide (a.val < 0) (Classical.propDecidable _)

noncomputable abbrev m22 : List (Fl Minf) := [⟨1⟩, ⟨-2⟩, ⟨3⟩, ⟨4⟩]

theorem rowAbs_m22_0 : rowAbs m22 2 0 = 3 := by
  simp [rowAbs, m22, List.range_succ]
  norm_num
theorem rowAbs_m22_1 : rowAbs m22 2 1 = 7 := by
  simp [rowAbs, m22, List.range_succ]
  norm_num

/-- `infNormL_error` on the 2×2 matrix `[[1,-2],[3,4]]`: exact infinity norm `7` -/
example : ∃ v, VecOps.infNormL isNaNneg ⟨-1⟩ m22 2 = some v ∧ |v.val - 7| ≤ Minf.γ 2 * 7 := by
  have := infNormL_error isNaNneg ⟨-1⟩ (by simp [isNaNneg]) (by
      intro a ha; simp [isNaNneg, not_lt.mpr ha]) m22 2 (by norm_num) (by simp)
    (by rw [Minf_u]; norm_num) 7
    (by
      intro i hi
      have : i = 0 ∨ i = 1 := by omega
      rcases this with rfl | rfl
      · show rowAbs m22 2 0 ≤ 7; rw [rowAbs_m22_0]; norm_num
      · show rowAbs m22 2 1 ≤ 7; rw [rowAbs_m22_1])
    ⟨1, by norm_num, rowAbs_m22_1⟩
  simpa using this

/-! #### interpolation -/

noncomputable abbrev kx : List (Fl Minf) := [⟨0⟩, ⟨1⟩, ⟨2⟩]
noncomputable abbrev ky : List (Fl Minf) := [⟨0⟩, ⟨10⟩, ⟨20⟩]

theorem knots_inf : Knots (vals kx) (vals ky) :=
  ⟨by simp [vals], by simp [vals], by simp [vals]⟩

/-- `interpOne_error` in the 1 % model, target `t = 1/2` inside the first interval -/
example : ∃ v, interpOne kx ky ExtrapMode.panic (⟨1 / 2⟩ : Fl Minf) = some v ∧
    |v.val - lineAt (vals kx) (vals ky) (idxOf (vals kx) (1 / 2)) (1 / 2)| ≤
      Minf.γ 8 * max |(vals ky)[idxOf (vals kx) (1 / 2) - 1]!| |(vals ky)[idxOf (vals kx) (1 / 2)]!| :=
  interpOne_error kx ky ExtrapMode.panic ⟨1 / 2⟩ knots_inf (by simp [vals]) (by simp [vals]; norm_num)
    (by rw [Minf_u]; norm_num)

/-- `interpOne_error_16u`: `16·u = 0.16 ≤ 1` -/
example : ∃ v, interpOne kx ky ExtrapMode.panic (⟨1 / 2⟩ : Fl Minf) = some v ∧
    |v.val - lineAt (vals kx) (vals ky) (idxOf (vals kx) (1 / 2)) (1 / 2)| ≤
      16 * Minf.u * max |(vals ky)[idxOf (vals kx) (1 / 2) - 1]!| |(vals ky)[idxOf (vals kx) (1 / 2)]!| :=
  interpOne_error_16u kx ky ExtrapMode.panic ⟨1 / 2⟩ knots_inf (by simp [vals])
    (by simp [vals]; norm_num) (by rw [Minf_u]; norm_num)

/-- … and the computed value really is off the chord there (exact value `5`) -/
example : ∃ v, interpOne kx ky ExtrapMode.panic (⟨1 / 2⟩ : Fl Minf) = some v ∧ v.val ≠ 5 := by
  have hidx : scanIdx (⟨1 / 2⟩ : Fl Minf) (kx.take (kx.length - 1)) = 1 := by
    rw [idx_val]
    simp [idxOf, vals, scanIdx]
    norm_num
  refine ⟨_, interpOne_interior kx ky _ _ (by simp) (by rw [hidx]; simp) (by simp; norm_num), ?_⟩
  rw [hidx]
  simp only [interiorF, kx, ky, Fl.add_val, Fl.mul_val, Fl.sub_val, Fl.div_val, Fl.one_val, Minf_rnd]
  norm_num

noncomputable abbrev bx : List (Fl Mb) := [⟨0⟩, ⟨1⟩, ⟨2⟩]
noncomputable abbrev by' : List (Fl Mb) := [⟨0⟩, ⟨10⟩, ⟨20⟩]

theorem knots_b : Knots (vals bx) (vals by') :=
  ⟨by simp [vals], by simp [vals], by simp [vals]⟩

/-- `interpOne_knot_exact` in the idempotent model: every knot returns its ordinate -/
example : ∀ k, k < 3 → interpOne bx by' ExtrapMode.panic bx[k]! = some by'[k]! := by
  intro k hk
  apply interpOne_knot_exact bx by' _ knots_b k (by simpa using hk) Mb_one
  have : k = 0 ∨ k = 1 ∨ k = 2 := by omega
  rcases this with rfl | rfl | rfl <;> simp [Fl.Rep, Mb_rnd]

/-- the `f64` notes are about a satisfiable hypothesis -/
example : ∃ M : FlModel, M.u = 1 / 2 ^ 53 ∧ 16 * M.u ≤ 1 :=
  ⟨FlModel.inflate (1 / 2 ^ 53) (by norm_num) (by norm_num), rfl, by
    show 16 * (1 / 2 ^ 53 : ℝ) ≤ 1
    norm_num⟩

end Examples

end Cv.Rounding2
