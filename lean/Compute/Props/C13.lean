import Compute.Model.Timeseries
import Compute.Lemmas.C13
import Compute.Lemmas.C14
import Compute.Lemmas.Mat
import Compute.Props.C14
import Mathlib.Algebra.BigOperators.Ring.Finset
import Mathlib.Algebra.BigOperators.Intervals
import Mathlib.Algebra.BigOperators.Field
import Mathlib.Algebra.Order.BigOperators.Ring.Finset
import Mathlib.Algebra.Order.BigOperators.Group.Finset
import Mathlib.Algebra.Order.Field.Basic
import Mathlib.Tactic.Ring
import Mathlib.Tactic.Linarith
import Mathlib.Tactic.FieldSimp
/-
C13 — autocorrelation, AR fitting and forecasting are consistent.

Theorems about the executable model `Cv.TS.*` (Model/Timeseries.lean, the definitions the `Float` driver
runs) instantiated at an ordered field.  The inverse of the autocorrelation matrix is abstract (hypothesis
`IsInverse`), exactly as in C14.  Floating-point rounding and the convergence of forecasts to the mean are
outside these theorems (NOT_PROVED in tools/cv/c13.py).
-/
namespace Cv.C13
open Cv Cv.TS Cv.C13L

/-! ## textbook definitions (biased estimators) -/

section spec
variable {α : Type} [Field α] [Inhabited α]

/-- sample mean -/
def meanS (ts : List α) : α := (∑ i ∈ Finset.range ts.length, ts[i]!) / ts.length

/-- biased autocovariance at lag `k ≥ 0`: `(1/n) Σ_{i=k}^{n-1} (x_i − x̄)(x_{i−k} − x̄)` (index shifted by `k`). -/
def acovS (ts : List α) (k : Nat) : α :=
  (∑ i ∈ Finset.range (ts.length - k), (ts[i + k]! - meanS ts) * (ts[i]! - meanS ts)) / ts.length

theorem mean_def (ts : List α) : mean ts = meanS ts := by
  rw [mean, sum8_eq, list_sum_eq_range, meanS]

/-- Algebraic form of `acovf` in a field, all series and lags.  For the empty series both sides are the field's
junk value of a division by zero (the code returns NaN there): the property statement is `acovf_def` below. -/
theorem acovf_field (ts : List α) (k : Int) : acovf ts k = acovS ts k.natAbs := by
  rw [acovf, iterSum_eq, lagProducts_sum, mean_def, acovS, one_div, inv_mul_eq_div]

/-- **acovf_def.**  For every non-empty series and every lag, `acovf` is the biased autocovariance estimator at lag
`|k|`.  (The guard is exactly where the code returns a number: for `n = 0` it forms `1/0 · (−0)`, see `acovf_empty`.) -/
theorem acovf_def (ts : List α) (k : Int) (_hn : ts ≠ []) : acovf ts k = acovS ts k.natAbs := acovf_field ts k

theorem sq_sum_eq (ts : List α) (m : α) :
    iterSum (ts.map fun x => powi (x - m) 2) = ∑ i ∈ Finset.range (ts.length - 0), (ts[i + 0]! - m) * (ts[i]! - m) := by
  rw [iterSum_eq, list_sum_eq_range, List.length_map]
  apply Finset.sum_congr rfl
  intro i hi
  have hi' := Finset.mem_range.mp hi
  have h1 : i < (ts.map fun x => powi (x - m) 2).length := by simpa using hi'
  rw [getElem!_pos (ts.map fun x => powi (x - m) 2) i h1, List.getElem_map, getElem!_pos ts i hi']
  have : powi (ts[i] - m) (2 : Int) = (ts[i] - m) ^ 2 := by
    simpa using C14L.powi_natCast (ts[i] - m) 2 (by norm_num)
  simp only [Nat.add_zero]
  rw [getElem!_pos ts i hi', this, pow_two]

/-- numerator of `acf` as the code forms it: `1/n · Σ (tsᵢ − m)(ts_{i−|k|} − m)` -/
def acfNum (ts : List α) (k : Int) : α := 1 / (ts.length : α) * iterSum (lagProducts ts (mean ts) k.natAbs)

/-- denominator of `acf` as the code forms it: `Σ (tsᵢ − m).powi(2) / n` -/
def acfDen (ts : List α) : α := iterSum (ts.map fun x => powi (x - mean ts) 2) / (ts.length : α)

/-- `acf` is literally the quotient of these two expressions (any series, any lag). -/
theorem acf_eq_num_div_den (ts : List α) (k : Int) : acf ts k = acfNum ts k / acfDen ts := rfl

theorem acfNum_eq (ts : List α) (k : Int) : acfNum ts k = acovS ts k.natAbs := acovf_field ts k

theorem acfDen_eq (ts : List α) : acfDen ts = acovS ts 0 := by
  rw [acfDen, sq_sum_eq, mean_def]; rfl

/-- Algebraic form of `acf` in a field (junk value `x/0 = 0` of the field when the variance vanishes; the property
statement is `acf_def`). -/
theorem acf_field (ts : List α) (k : Int) : acf ts k = acovS ts k.natAbs / acovS ts 0 := by
  rw [acf_eq_num_div_den, acfNum_eq, acfDen_eq]

/-- **acf_def.**  For every series of non-zero variance (in particular non-empty) and every lag, `acf` is the ratio of
the lag-`|k|` and lag-0 biased autocovariances.  For zero variance the code divides `0` by `0` (`acf_degenerate`). -/
theorem acf_def (ts : List α) (k : Int) (_hv : acovS ts 0 ≠ 0) : acf ts k = acovS ts k.natAbs / acovS ts 0 :=
  acf_field ts k

/-- **acf_zero.**  The autocorrelation at lag 0 is 1 whenever the variance is non-zero. -/
theorem acf_zero (ts : List α) (hv : acovS ts 0 ≠ 0) : acf ts 0 = 1 := by
  rw [acf_def ts 0 hv]; exact div_self hv

/-- **acovf_large_lag.**  Lags with `|k| ≥ n` give 0 (empty sum): `acovf` for every non-empty series, `acf` for every
series of non-zero variance (for a constant series the code returns `−0/0`, see `acf_degenerate`). -/
theorem acovf_large_lag (ts : List α) (k : Int) (h : ts.length ≤ k.natAbs) :
    (ts ≠ [] → acovf ts k = 0) ∧ (acovS ts 0 ≠ 0 → acf ts k = 0) := by
  have h0 : acovS ts k.natAbs = 0 := by
    rw [acovS, Nat.sub_eq_zero_of_le h]; simp
  exact ⟨fun hn => by rw [acovf_def ts k hn, h0], fun hv => by rw [acf_def ts k hv, h0, zero_div]⟩

/-- **acovf_empty / acf_empty.**  What the code forms on an empty series, in any scalar type: `1/0 · (−0)` for `acovf`
and `(1/0 · (−0)) / ((−0)/0)` for `acf` with `0 = (0 : usize) as f64` — NaN in IEEE arithmetic (corpus lines
`acovf empty`, `acf empty`). -/
theorem acovf_empty {β : Type} [Add β] [Sub β] [Mul β] [Div β] [Neg β] [Zero β] [One β] [NatCast β] (k : Int) :
    acovf ([] : List β) k = 1 / ((0 : Nat) : β) * (-0) ∧
      acf ([] : List β) k = (1 / ((0 : Nat) : β) * (-0)) / ((-0) / ((0 : Nat) : β)) := by
  constructor <;> simp [acovf, acf, lagProducts, iterSum]

end spec

/-! ## evenness in the lag (any scalar type, the `Float` instance included) -/

section even
variable {α : Type} [Add α] [Sub α] [Mul α] [Div α] [Neg α] [Zero α] [One α] [NatCast α]

/-- **acovf_even.** -/
theorem acovf_even (ts : List α) (k : Int) : acovf ts (-k) = acovf ts k := by
  simp [acovf, Int.natAbs_neg]

/-- **acf_even.** -/
theorem acf_even (ts : List α) (k : Int) : acf ts (-k) = acf ts k := by
  simp [acf, Int.natAbs_neg]

end even

/-! ## the autocorrelation never exceeds 1 in magnitude -/

section bound
variable {α : Type} [Field α] [LinearOrder α] [IsStrictOrderedRing α] [Inhabited α]

omit [Inhabited α] in
theorem abs_mul_le_half_sq (a b : α) : |a * b| ≤ (a ^ 2 + b ^ 2) / 2 := by
  rw [abs_mul]
  have := two_mul_le_add_sq |a| |b|
  rw [sq_abs, sq_abs] at this
  linarith

omit [Inhabited α] in
/-- `|Σ_{i<n-k} a_{i+k} a_i| ≤ Σ_{i<n} a_i²` -/
theorem lag_sum_le (a : Nat → α) (n k : Nat) :
    |∑ i ∈ Finset.range (n - k), a (i + k) * a i| ≤ ∑ i ∈ Finset.range n, a i ^ 2 := by
  have h1 : ∑ i ∈ Finset.range (n - k), a (i + k) ^ 2 ≤ ∑ i ∈ Finset.range n, a i ^ 2 := by
    have : ∑ i ∈ Finset.range (n - k), a (i + k) ^ 2 = ∑ i ∈ Finset.Ico k n, a i ^ 2 := by
      rw [Finset.sum_Ico_eq_sum_range]
      exact Finset.sum_congr rfl fun i _ => by rw [Nat.add_comm]
    rw [this]
    apply Finset.sum_le_sum_of_subset_of_nonneg
    · intro i hi
      exact Finset.mem_range.mpr (Finset.mem_Ico.mp hi).2
    · intro i _ _; exact sq_nonneg _
  have h2 : ∑ i ∈ Finset.range (n - k), a i ^ 2 ≤ ∑ i ∈ Finset.range n, a i ^ 2 := by
    apply Finset.sum_le_sum_of_subset_of_nonneg
    · intro i hi
      exact Finset.mem_range.mpr (lt_of_lt_of_le (Finset.mem_range.mp hi) (Nat.sub_le n k))
    · intro i _ _; exact sq_nonneg _
  calc |∑ i ∈ Finset.range (n - k), a (i + k) * a i|
      ≤ ∑ i ∈ Finset.range (n - k), |a (i + k) * a i| := Finset.abs_sum_le_sum_abs _ _
    _ ≤ ∑ i ∈ Finset.range (n - k), (a (i + k) ^ 2 + a i ^ 2) / 2 :=
        Finset.sum_le_sum fun i _ => abs_mul_le_half_sq _ _
    _ = (∑ i ∈ Finset.range (n - k), a (i + k) ^ 2 + ∑ i ∈ Finset.range (n - k), a i ^ 2) / 2 := by
        rw [← Finset.sum_add_distrib, Finset.sum_div]
    _ ≤ ∑ i ∈ Finset.range n, a i ^ 2 := by linarith

/-- **acf_abs_le_one.**  `|acf ts k| ≤ 1` for every lag (Cauchy–Schwarz in the form `2|ab| ≤ a² + b²`), whenever
the variance is non-zero (for zero variance the code divides 0 by 0). -/
theorem acf_abs_le_one (ts : List α) (k : Int) (hv : acovS ts 0 ≠ 0) : |acf ts k| ≤ 1 := by
  rw [acf_def ts k hv]
  have hn : (ts.length : α) ≠ 0 := by
    intro h; apply hv; rw [acovS, h, div_zero]
  have hnpos : (0 : α) < ts.length := by
    have : (0 : α) ≤ ts.length := Nat.cast_nonneg _
    exact lt_of_le_of_ne this (Ne.symm hn)
  have hle := lag_sum_le (fun i => ts[i]! - meanS ts) ts.length k.natAbs
  have h0 : acovS ts 0 = (∑ i ∈ Finset.range ts.length, (ts[i]! - meanS ts) ^ 2) / ts.length := by
    rw [acovS]; simp [pow_two]
  have hD : 0 < acovS ts 0 := by
    apply lt_of_le_of_ne _ (Ne.symm hv)
    rw [h0]
    exact div_nonneg (Finset.sum_nonneg fun i _ => sq_nonneg _) hnpos.le
  rw [abs_div, abs_of_pos hD, div_le_one hD, acovS, abs_div, abs_of_pos hnpos, h0]
  exact div_le_div_of_nonneg_right hle hnpos.le

/-- **acf_degenerate.**  The complementary case: when the variance is zero (constant or empty series) the numerator
the code forms is `0` for every lag and the denominator is `0`, so `acf` evaluates the quotient `0/0` — NaN in IEEE
arithmetic (observed on the implementation: corpus line `acf constant`), the junk value `0` in a field. -/
theorem acf_degenerate (ts : List α) (k : Int) (hv : acovS ts 0 = 0) :
    acfNum ts k = 0 ∧ acfDen ts = 0 ∧ acf ts k = acfNum ts k / acfDen ts := by
  refine ⟨?_, by rw [acfDen_eq, hv], rfl⟩
  rw [acfNum_eq]
  by_cases hn : (ts.length : α) = 0
  · rw [acovS, hn, div_zero]
  have hle := lag_sum_le (fun i => ts[i]! - meanS ts) ts.length k.natAbs
  have h0 : ∑ i ∈ Finset.range ts.length, (ts[i]! - meanS ts) ^ 2 = 0 := by
    have : acovS ts 0 = (∑ i ∈ Finset.range ts.length, (ts[i]! - meanS ts) ^ 2) / ts.length := by
      rw [acovS]; simp [pow_two]
    rw [this, div_eq_zero_iff] at hv
    exact hv.resolve_right hn
  rw [h0] at hle
  have : ∑ i ∈ Finset.range (ts.length - k.natAbs), (ts[i + k.natAbs]! - meanS ts) * (ts[i]! - meanS ts) = 0 :=
    abs_eq_zero.mp (le_antisymm hle (abs_nonneg _))
  rw [acovS, this, zero_div]

example : acf ([5 / 2, 5 / 2, 5 / 2] : List ℚ) 1 = acfNum [5 / 2, 5 / 2, 5 / 2] 1 / acfDen [5 / 2, 5 / 2, 5 / 2] ∧
    acfNum ([5 / 2, 5 / 2, 5 / 2] : List ℚ) 1 = 0 ∧ acfDen ([5 / 2, 5 / 2, 5 / 2] : List ℚ) = 0 := by
  refine ⟨rfl, by decide +kernel, by decide +kernel⟩

end bound

/-! ## differencing is the inverse of cumulative summation -/

section diff
variable {α : Type} [AddCommGroup α]

/-- cumulative sums: `cumsum a [d₁, d₂, …] = [a, a + d₁, a + d₁ + d₂, …]` (the crate has no such function; this is
the textbook operation `difference` inverts). -/
def cumsum (a : α) : List α → List α
  | [] => [a]
  | d :: ds => a :: cumsum (a + d) ds

theorem cumsum_ne_nil (a : α) (ds : List α) : cumsum a ds ≠ [] := by cases ds <;> simp [cumsum]

theorem cumsum_head (a : α) (ds : List α) : ∃ t, cumsum a ds = a :: t := by cases ds <;> simp [cumsum]

/-- **difference_cumsum.**  Differencing the cumulative sums of `ds` (from any start value) returns `ds`. -/
theorem difference_cumsum (a : α) (ds : List α) : difference (cumsum a ds) = some ds := by
  induction ds generalizing a with
  | nil => simp [cumsum, difference]
  | cons d ds ih =>
    have h := ih (a + d)
    obtain ⟨t, ht⟩ := cumsum_head (a + d) ds
    simp only [cumsum, difference, ht, List.isEmpty_cons, Bool.false_eq_true, if_false, List.tail_cons,
      List.zipWith_cons_cons, Option.some.injEq] at h ⊢
    rw [h]; simp

/-- **cumsum_difference.**  Conversely, cumulative summation of the differences from the first value recovers the vector. -/
theorem cumsum_difference (a : α) (v d : List α) (h : difference (a :: v) = some d) : cumsum a d = a :: v := by
  induction v generalizing a d with
  | nil =>
    simp [difference] at h; subst h; rfl
  | cons b v ih =>
    simp only [difference, List.isEmpty_cons, Bool.false_eq_true, if_false, List.tail_cons,
      List.zipWith_cons_cons, Option.some.injEq] at h
    subst h
    have := ih b (List.zipWith (fun a b => b - a) (b :: v) v) (by simp [difference])
    simp only [cumsum]
    rw [add_sub_cancel, this]

/-- `0 - 1` underflows: differencing an empty vector panics. -/
theorem difference_empty : difference ([] : List α) = none := by simp [difference]

example : difference (cumsum (5 : Int) [1, -2, 7]) = some [1, -2, 7] := by decide

end diff

/-! ## the AR model: intercept, shift equivariance of the fit, Yule–Walker -/

section ar
variable {α : Type} [Field α] [LinearOrder α] [IsStrictOrderedRing α] [BEq α] [Transc α] [Inhabited α]

omit [BEq α] [Transc α] [Inhabited α] in
theorem sum_map_add_const (l : List α) (c : α) : (l.map (· + c)).sum = l.sum + l.length * c := by
  induction l with
  | nil => simp
  | cons x xs ih => simp only [List.map_cons, List.sum_cons, ih, List.length_cons, Nat.cast_succ]; ring

omit [BEq α] [Transc α] [Inhabited α] in
/-- the mean of a shifted (non-empty) series is the shifted mean -/
theorem mean_shift (ts : List α) (c : α) (h : ts ≠ []) : mean (ts.map (· + c)) = mean ts + c := by
  have hn : (ts.length : α) ≠ 0 := by
    have : 0 < ts.length := List.length_pos_iff.mpr h
    exact_mod_cast this.ne'
  rw [mean, mean, sum8_eq, sum8_eq, sum_map_add_const, List.length_map]
  field_simp

omit [BEq α] [Transc α] [Inhabited α] in
/-- the autocorrelations `fit` computes do not change when a constant is added to the series -/
theorem fitAcf_shift (p : Nat) (ts : List α) (c : α) (h : ts ≠ []) :
    fitAcf p (ts.map (· + c)) = fitAcf p ts := by
  unfold fitAcf
  rw [mean_shift ts c h, List.map_map]
  have : ((fun x => x - (mean ts + c)) ∘ fun x => x + c) = fun x => x - mean ts := by
    funext x; simp only [Function.comp]; ring
  rw [this]

omit [IsStrictOrderedRing α] in
theorem arFit_eq (p : Nat) (data : List α) (hp : p ≠ 0) :
    arFit p data =
      (invertMatrix (toeplitz ((fitAcf p data).take p))).bind fun rinv =>
        (matmul rinv ((fitAcf p data).drop 1) p p false false).bind fun c => some (mean data, c.reverse) := by
  unfold arFit; rw [if_neg hp]; rfl

omit [IsStrictOrderedRing α] in
theorem arFit_zero (data : List α) : arFit 0 data = none := by simp [arFit]

omit [IsStrictOrderedRing α] in
/-- **fit_intercept.**  The intercept of a fitted model is the series mean. -/
theorem fit_intercept (p : Nat) (data : List α) (ic : α) (co : List α) (h : arFit p data = some (ic, co)) :
    ic = meanS data := by
  by_cases hp : p = 0
  · subst hp; rw [arFit_zero] at h; cases h
  rw [arFit_eq p data hp] at h
  cases h1 : invertMatrix (toeplitz ((fitAcf p data).take p)) with
  | none => rw [h1] at h; cases h
  | some rinv =>
    cases h2 : matmul rinv ((fitAcf p data).drop 1) p p false false with
    | none => rw [h1, Option.bind_some, h2] at h; cases h
    | some c =>
      rw [h1, Option.bind_some, h2, Option.bind_some] at h
      have := (Prod.mk.inj (Option.some.inj h)).1
      rw [← this, mean_def]

/-- **fit_shift.**  Adding a constant to a (non-empty) series leaves the fitted coefficients unchanged and adds the
constant to the intercept. -/
theorem fit_shift (p : Nat) (data : List α) (c : α) (h : data ≠ []) :
    arFit p (data.map (· + c)) = (arFit p data).map fun r => (r.1 + c, r.2) := by
  by_cases hp : p = 0
  · subst hp; simp [arFit_zero]
  rw [arFit_eq _ _ hp, arFit_eq _ _ hp, fitAcf_shift p data c h, mean_shift data c h]
  cases h1 : invertMatrix (toeplitz ((fitAcf p data).take p)) with
  | none => rfl
  | some rinv =>
    cases h2 : matmul rinv ((fitAcf p data).drop 1) p p false false with
    | none => simp only [Option.bind_some, h2]; rfl
    | some c' => simp only [Option.bind_some, h2, Option.map_some]

omit [Field α] [LinearOrder α] [IsStrictOrderedRing α] [BEq α] [Transc α] in
theorem toeplitz_get (x : List α) (i j : Nat) (hi : i < x.length) (hj : j < x.length) :
    (toeplitz x).length = x.length * x.length ∧
      (toeplitz x)[i * x.length + j]! = x[if j ≤ i then i - j else j - i]! := by
  refine ⟨by simp [toeplitz, Mat.build], ?_⟩
  have := Mat.build_get (fun i j => x[if j ≤ i then i - j else j - i]!) hi hj
  simpa [Mat.get, toeplitz] using this

omit [BEq α] [Transc α] [Inhabited α] in
/-- shift invariance of the autocorrelation -/
theorem acf_sub_const (ts : List α) (c : α) (k : Int) (h : ts ≠ []) : acf (ts.map (· - c)) k = acf ts k := by
  have hm : mean (ts.map (· - c)) = mean ts - c := by
    have := mean_shift ts (-c) h
    simpa [sub_eq_add_neg] using this
  have hmap : (ts.map (· - c)).map (fun x => powi (x - (mean ts - c)) 2) =
      ts.map (fun x => powi (x - mean ts) 2) := by
    rw [List.map_map]
    apply List.map_congr_left
    intro x _
    simp only [Function.comp]
    congr 1
    ring
  simp only [acf, hm, lagProducts_shift, List.length_map, hmap]

omit [BEq α] [Transc α] in
theorem fitAcf_get (p : Nat) (data : List α) (t : Nat) (ht : t ≤ p) (h : data ≠ []) :
    (fitAcf p data).length = p + 1 ∧ (fitAcf p data)[t]! = acf data (t : Int) := by
  unfold fitAcf
  refine ⟨by simp, ?_⟩
  rw [getElem!_pos _ t (by simp; omega)]
  simp only [List.getElem_map, List.getElem_range]
  exact acf_sub_const data (mean data) t h

omit [BEq α] [Transc α] in
/-- the matrix `fit` inverts is the Toeplitz matrix of the series' autocorrelations: entry `(a, b)` is `r_{|a−b|}` -/
theorem fit_toeplitz_entry (p : Nat) (data : List α) (hd : data ≠ []) (a b : Nat) (ha : a < p) (hb : b < p) :
    (toeplitz ((fitAcf p data).take p)).length = p * p ∧
    (toeplitz ((fitAcf p data).take p))[a * p + b]! = acf data ((if b ≤ a then a - b else b - a : Nat) : Int) := by
  have hlen := (fitAcf_get p data 0 (Nat.zero_le _) hd).1
  have htl : ((fitAcf p data).take p).length = p := by simp [hlen]
  have h1 := toeplitz_get ((fitAcf p data).take p) a b (by rw [htl]; exact ha) (by rw [htl]; exact hb)
  rw [htl] at h1
  refine ⟨h1.1, ?_⟩
  rw [h1.2]
  have hidx : (if b ≤ a then a - b else b - a) < p := by split <;> omega
  rw [getElem!_pos _ _ (by rw [htl]; exact hidx), List.getElem_take,
    ← getElem!_pos (fitAcf p data) _ (by rw [hlen]; omega)]
  exact (fitAcf_get p data _ (by omega) hd).2

/-- **fit_yule_walker.**  If `invert_matrix` returned an exact inverse of the Toeplitz autocorrelation matrix, the
stored coefficients, un-reversed (`φ_j = coeffs[p−1−j]`, the weight of lag `j+1`), solve the Yule–Walker equations of
the series' autocorrelations: `Σ_j φ_j r_{|i−j|} = r_{i+1}`, `i = 0 … p−1`, with `r_k = acf data k`. -/
theorem fit_yule_walker (p : Nat) (data rinv : List α) (hd : data ≠ []) (hp : 0 < p)
    (hinv : invertMatrix (toeplitz ((fitAcf p data).take p)) = some rinv)
    (hI : C14.IsInverse p (toeplitz ((fitAcf p data).take p)) rinv) :
    ∃ ic co, arFit p data = some (ic, co) ∧ co.length = p ∧
      ∀ i, i < p →
        ∑ j ∈ Finset.range p, acf data ((if j ≤ i then i - j else j - i : Nat) : Int) * co.reverse[j]! =
          acf data ((i + 1 : Nat) : Int) := by
  have hlen := (fitAcf_get p data 0 (Nat.zero_le _) hd).1
  have hr : ((fitAcf p data).drop 1).length = p * 1 := by simp [hlen]
  obtain ⟨c, hc1, hc2, hc3⟩ := C05.matmul_spec_NN rinv ((fitAcf p data).drop 1) p p 1 hI.1 hr hp hp
  refine ⟨mean data, c.reverse, ?_, by simpa using hc2, fun i hi => ?_⟩
  · rw [arFit_eq p data (Nat.ne_of_gt hp)]
    simp only [hinv, hc1, Option.bind_some]
  · rw [List.reverse_reverse]
    have htl : ((fitAcf p data).take p).length = p := by simp [hlen]
    -- entries of the Toeplitz matrix and of the right-hand side
    have hT : ∀ a b, a < p → b < p →
        (toeplitz ((fitAcf p data).take p))[a * p + b]! = acf data ((if b ≤ a then a - b else b - a : Nat) : Int) := by
      intro a b ha hb
      have h1 := (toeplitz_get ((fitAcf p data).take p) a b (by rw [htl]; exact ha) (by rw [htl]; exact hb)).2
      rw [htl] at h1
      rw [h1]
      have hidx : (if b ≤ a then a - b else b - a) < p := by split <;> omega
      rw [getElem!_pos _ _ (by rw [htl]; exact hidx), List.getElem_take,
        ← getElem!_pos (fitAcf p data) _ (by rw [hlen]; omega)]
      exact (fitAcf_get p data _ (by omega) hd).2
    have hR : ∀ k, k < p → ((fitAcf p data).drop 1)[k]! = acf data ((k + 1 : Nat) : Int) := by
      intro k hk
      rw [getElem!_pos _ _ (by rw [hr]; omega), List.getElem_drop,
        ← getElem!_pos (fitAcf p data) _ (by rw [hlen]; omega), Nat.add_comm]
      exact (fitAcf_get p data _ (by omega) hd).2
    have := C14.mul_inv_apply (fun a b => (toeplitz ((fitAcf p data).take p))[a * p + b]!)
      (fun a b => rinv[a * p + b]!) (fun m => ((fitAcf p data).drop 1)[m]!) i hi (fun m hm => hI.2 i m hi hm)
    rw [hR i hi] at this
    rw [← this]
    apply Finset.sum_congr rfl
    intro j hj
    have hj' := Finset.mem_range.mp hj
    have h1 := hc3 j 0 hj' (by norm_num)
    simp only [Nat.mul_one, Nat.add_zero] at h1
    rw [hT i j hi hj', h1]

end ar

/-! ### non-vacuity: an exact AR(1) fit over ℚ -/

section witness

/-- exact rationals; `sqrt` is only taken of the pivot `1` below -/
local instance instTranscRatC13 : Cv.Transc ℚ where
  sqrt x := x
  exp x := x
  ln x := x
  pow x _ := x
  sin x := x
  cos x := x
  tan x := x
  abs x := |x|
  floor x := x
  ceil x := x

/-- On `1, 2, 4, 3` the model computes mean `5/2`, `r₁ = 3/20`, inverts the 1×1 autocorrelation matrix exactly and
stores `φ₁ = r₁`; the hypotheses of `fit_yule_walker` hold for this run. -/
example : fitAcf 1 ([1, 2, 4, 3] : List ℚ) = [1, 3 / 20] ∧
    invertMatrix (toeplitz ([1] : List ℚ)) = some [1] ∧
    arFit 1 ([1, 2, 4, 3] : List ℚ) = some (5 / 2, [3 / 20]) := by
  refine ⟨by decide +kernel, by decide +kernel, by decide +kernel⟩

example : C14.IsInverse 1 (toeplitz ([1] : List ℚ)) [1] := by
  refine ⟨rfl, ?_⟩
  intro i j hi hj
  have hi' : i = 0 := by omega
  have hj' : j = 0 := by omega
  subst hi' hj'
  norm_num [Finset.sum_range_succ, toeplitz, Mat.build]

/-! Order 2, where the coefficient reversal and the `|i − j|` indexing are visible: `1, 0, −1, 0` has `r₁ = 0`,
`r₂ = −1/2`; the Toeplitz matrix is the identity (pivots 1), and the stored coefficients are `[φ₂, φ₁] = [−1/2, 0]`. -/

theorem ex2_acf : fitAcf 2 ([1, 0, -1, 0] : List ℚ) = [1, 0, -1 / 2] := by decide +kernel
theorem ex2_inv : invertMatrix (toeplitz ([1, 0] : List ℚ)) = some [1, 0, 0, 1] := by decide +kernel
theorem ex2_fit : arFit 2 ([1, 0, -1, 0] : List ℚ) = some (0, [-1 / 2, 0]) := by decide +kernel

theorem ex2_isInverse : C14.IsInverse 2 (toeplitz ((fitAcf 2 ([1, 0, -1, 0] : List ℚ)).take 2)) [1, 0, 0, 1] := by
  rw [ex2_acf]
  refine ⟨rfl, ?_⟩
  intro i j hi hj
  have hi' : i = 0 ∨ i = 1 := by omega
  have hj' : j = 0 ∨ j = 1 := by omega
  rcases hi' with rfl | rfl <;> rcases hj' with rfl | rfl <;>
    norm_num [Finset.sum_range_succ, toeplitz, Mat.build]

/-- `fit_yule_walker` instantiated at `p = 2` with every hypothesis discharged. -/
example : ∃ ic co, arFit 2 ([1, 0, -1, 0] : List ℚ) = some (ic, co) ∧ co.length = 2 ∧
    ∀ i, i < 2 →
      ∑ j ∈ Finset.range 2, acf ([1, 0, -1, 0] : List ℚ) ((if j ≤ i then i - j else j - i : Nat) : Int) * co.reverse[j]! =
        acf ([1, 0, -1, 0] : List ℚ) ((i + 1 : Nat) : Int) :=
  fit_yule_walker 2 ([1, 0, -1, 0] : List ℚ) [1, 0, 0, 1] (by simp) (by norm_num)
    (by rw [ex2_acf]; exact ex2_inv) ex2_isInverse

/-- and the forecasts of that fit: `x̂₁ = φ₁·0 + φ₂·(−1) = 1/2`, `x̂₂ = φ₁·(1/2) + φ₂·0 = 0`, `x̂₃ = φ₂·(1/2) = −1/4`. -/
example : predict ([-1 / 2, 0] : List ℚ) 0 [1, 0, -1, 0] 3 = some [1 / 2, 0, -1 / 4] := by decide +kernel

end witness

/-! ## forecasting -/

section forecast
variable {α : Type} [CommRing α]

/-- One step of the textbook AR recursion on a mean-centred history stored newest first:
`φ₁ z_t + φ₂ z_{t−1} + … + φ_p z_{t−p+1}`. -/
def arStep (φ past : List α) : α := (List.zipWith (· * ·) φ past).sum

/-- `h` steps of the recursion, each forecast becoming the newest value of the history. -/
def arExtend (φ : List α) : Nat → List α → List α
  | 0, past => past
  | h + 1, past => arExtend φ h (arStep φ past :: past)

theorem arExtend_append (φ : List α) (h : Nat) (past : List α) :
    ∃ l, l.length = h ∧ arExtend φ h past = l ++ past := by
  induction h generalizing past with
  | zero => exact ⟨[], rfl, rfl⟩
  | succ h ih =>
    obtain ⟨l, hl, he⟩ := ih (arStep φ past :: past)
    exact ⟨l ++ [arStep φ past], by simp [hl], by simp [arExtend, he]⟩

omit [CommRing α] in
theorem zipWith_take_left {β γ : Type} (f : α → β → γ) (l : List α) (l' : List β) (n : Nat) (h : l'.length ≤ n) :
    List.zipWith f (l.take n) l' = List.zipWith f l l' := by
  induction l generalizing n l' with
  | nil => simp
  | cons x xs ih =>
    cases l' with
    | nil => simp
    | cons y ys =>
      cases n with
      | zero => simp at h
      | succ n => simp [ih ys n (by simpa using h)]

/-- the stored (reversed) coefficients against the window (oldest first) = the recursion step -/
theorem dot_window (coeffs past : List α) (hp : coeffs.length ≤ past.length) :
    dot8 ((past.take coeffs.length).reverse) coeffs = arStep coeffs.reverse past := by
  rw [dot8_eq, arStep]
  have hl : (past.take coeffs.length).length = coeffs.reverse.length := by simp [hp]
  have h1 : List.zipWith (· * ·) (past.take coeffs.length).reverse coeffs =
      (List.zipWith (· * ·) (past.take coeffs.length) coeffs.reverse).reverse := by
    rw [List.reverse_zipWith hl, List.reverse_reverse]
  have hc : (fun (b a : α) => a * b) = (fun x1 x2 => x1 * x2) := by funext a b; exact mul_comm _ _
  rw [h1, List.sum_reverse, zipWith_take_left _ _ _ _ (by simp), List.zipWith_comm, hc]

omit [CommRing α] in
theorem window_step (past : List α) (f : α) (p : Nat) (hp : 0 < p) (hl : p ≤ past.length) :
    ((past.take p).reverse).drop 1 ++ [f] = ((f :: past).take p).reverse := by
  obtain ⟨q, rfl⟩ : ∃ q, p = q + 1 := ⟨p - 1, by omega⟩
  have e : past.take (q + 1) = past.take q ++ [past[q]] := List.take_succ_eq_append_getElem (by omega)
  rw [e, List.reverse_append, List.reverse_singleton, List.singleton_append, List.drop_one, List.tail_cons,
    List.take_succ_cons, List.reverse_cons]

/-- the forecasting loop of `predict` is the textbook recursion -/
theorem predictGo_spec (coeffs : List α) (hp : 0 < coeffs.length) (h : Nat) (past : List α)
    (hl : coeffs.length ≤ past.length) :
    predictGo coeffs h ((past.take coeffs.length).reverse) =
      ((arExtend coeffs.reverse h past).take h).reverse := by
  induction h generalizing past with
  | zero => simp [predictGo]
  | succ h ih =>
    simp only [predictGo, arExtend]
    rw [dot_window coeffs past hl, window_step past _ coeffs.length hp hl,
      ih (arStep coeffs.reverse past :: past) (by rw [List.length_cons]; omega)]
    obtain ⟨l, hl', he⟩ := arExtend_append coeffs.reverse h (arStep coeffs.reverse past :: past)
    rw [he]
    have e1 : (l ++ arStep coeffs.reverse past :: past).take (h + 1) = l ++ [arStep coeffs.reverse past] := by
      rw [show l ++ arStep coeffs.reverse past :: past = (l ++ [arStep coeffs.reverse past]) ++ past by simp]
      exact List.take_left' (by simp [hl'])
    have e2 : (l ++ arStep coeffs.reverse past :: past).take h = l := List.take_left' hl'
    rw [e1, e2]; simp

/-- the mean-centred last `p` values of the history, newest first -/
def centredRev (p : Nat) (ic : α) (data : List α) : List α :=
  ((data.drop (data.length - p)).map (· - ic)).reverse

/-- **predict_spec.**  For a history at least as long as the order, the `h` forecasts are
`intercept + z`, `z` the AR recursion (`φ_j = coeffs[p−1−j]` weighting the value `j+1` steps back) applied to the
mean-centred last `p` values, each forecast feeding the next. -/
theorem predict_spec (coeffs : List α) (ic : α) (data : List α) (h : Nat) (hp : 0 < coeffs.length)
    (hl : coeffs.length ≤ data.length) :
    predict coeffs ic data h =
      some ((((arExtend coeffs.reverse h (centredRev coeffs.length ic data)).take h).reverse).map (· + ic)) := by
  unfold predict
  rw [if_neg (by omega)]
  have hlen : (centredRev coeffs.length ic data).length = coeffs.length := by simp [centredRev]; omega
  have hw : (data.drop (data.length - coeffs.length)).map (· - ic) =
      ((centredRev coeffs.length ic data).take coeffs.length).reverse := by
    rw [List.take_of_length_le (by omega)]; simp [centredRev]
  simp only [hw]
  rw [predictGo_spec coeffs hp h _ (by omega)]

/-- `predict` on a history shorter than the order panics (`usize` underflow of `data.len() - coeffs.len()`). -/
theorem predict_short_history (coeffs : List α) (ic : α) (data : List α) (h : Nat)
    (hl : data.length < coeffs.length) : predict coeffs ic data h = none := by
  unfold predict; rw [if_pos hl]

/-- a history no longer than the order against the tail of the stored coefficients = the recursion step on the
available values (lag `j` weighted by `φ_j`) -/
theorem dot_aligned (coeffs d : List α) (h : d.length ≤ coeffs.length) :
    dot8 d (coeffs.drop (coeffs.length - d.length)) = arStep coeffs.reverse d.reverse := by
  rw [dot8_eq, arStep]
  have e : coeffs.drop (coeffs.length - d.length) = ((coeffs.reverse).take d.length).reverse := by
    have := List.drop_reverse (xs := coeffs.reverse) (i := coeffs.length - d.length)
    rw [List.reverse_reverse, List.length_reverse] at this
    rw [this]
    congr 2
    omega
  have hl : d.reverse.length = (coeffs.reverse.take d.length).length := by simp; omega
  have h1 : List.zipWith (· * ·) d ((coeffs.reverse).take d.length).reverse =
      (List.zipWith (· * ·) d.reverse ((coeffs.reverse).take d.length)).reverse := by
    rw [List.reverse_zipWith hl, List.reverse_reverse]
  have hc : (fun (b a : α) => a * b) = (fun x1 x2 => x1 * x2) := by funext a b; exact mul_comm _ _
  rw [e, h1, List.sum_reverse, List.zipWith_comm, zipWith_take_left _ _ _ _ (by simp), hc]

/-- **predictOne_spec.**  `predict_one` is the mean plus one step of the AR recursion on the mean-centred history:
the value `j` steps back is weighted by `φ_j = coeffs[p−j]`.  For a history at least as long as the order this is the
first forecast of `predict`; for a shorter history the recursion runs over the values that exist (F42). -/
theorem predictOne_spec (coeffs : List α) (ic : α) (data : List α) :
    predictOne coeffs ic data = arStep coeffs.reverse (centredRev coeffs.length ic data) + ic := by
  unfold predictOne predictOneCentred
  by_cases hl : coeffs.length ≤ data.length
  · have hlen : ((data.drop (data.length - coeffs.length)).map (· - ic)).length = coeffs.length := by simp; omega
    simp only [hlen, Nat.sub_self, List.drop_zero, le_refl, if_true]
    have := dot_window coeffs (centredRev coeffs.length ic data) (by simp [centredRev]; omega)
    rw [List.take_of_length_le (by simp [centredRev]; omega)] at this
    rw [← this]; simp [centredRev]
  · have h0 : data.length - coeffs.length = 0 := by omega
    simp only [centredRev, h0, List.drop_zero, List.length_map]
    rw [if_neg hl]
    have := dot_aligned coeffs (data.map (· - ic)) (by simp; omega)
    rw [List.length_map] at this
    rw [this]

/-- F42 witness: stored coefficients `[φ₃, φ₂, φ₁] = [1/8, 1/4, 1/2]`, history `[1]`, mean 0: the forecast is
`φ₁ · 1 = 1/2` (the legacy code returned `φ₃ = 1/8`). -/
example : predictOne ([1 / 8, 1 / 4, 1 / 2] : List ℚ) 0 [1] = 1 / 2 := by decide +kernel

/-- **predict_shift.**  Adding a constant to the history and to the intercept adds the same constant to every
forecast (with `fit_shift`: to every forecast of the model fitted to the shifted series). -/
theorem predict_shift (coeffs : List α) (ic c : α) (data : List α) (h : Nat) :
    predict coeffs (ic + c) (data.map (· + c)) h = (predict coeffs ic data h).map (·.map (· + c)) := by
  unfold predict
  simp only [List.length_map]
  split
  · rfl
  · have hw : ((data.map (· + c)).drop (data.length - coeffs.length)).map (· - (ic + c)) =
        (data.drop (data.length - coeffs.length)).map (· - ic) := by
      rw [← List.map_drop, List.map_map]
      apply List.map_congr_left
      intro x _
      simp only [Function.comp]; ring
    rw [hw]
    simp only [Option.map_some, List.map_map]
    congr 2
    funext x
    simp only [Function.comp]; ring

/-- `predict_one` is shift-equivariant as well (every history length). -/
theorem predictOne_shift (coeffs : List α) (ic c : α) (data : List α) :
    predictOne coeffs (ic + c) (data.map (· + c)) = predictOne coeffs ic data + c := by
  unfold predictOne
  simp only [List.length_map]
  have hw : ((data.map (· + c)).drop (data.length - coeffs.length)).map (· - (ic + c)) =
      (data.drop (data.length - coeffs.length)).map (· - ic) := by
    rw [← List.map_drop, List.map_map]
    apply List.map_congr_left
    intro x _
    simp only [Function.comp]; ring
  rw [hw]; ring

example : predict ([1, 2] : List Int) 10 [9, 12, 14] 2 = some [20, 34] := by decide +kernel

end forecast

/-! ## fit and forecast together -/

section together
variable {α : Type} [Field α] [LinearOrder α] [IsStrictOrderedRing α] [BEq α] [Transc α] [Inhabited α]

/-- **forecast_shift.**  Fitting the model to `series + c` and forecasting from it gives the forecasts of the model
fitted to `series`, each moved by exactly `c` (same panics), for every order, horizon and non-empty series. -/
theorem forecast_shift (p h : Nat) (data : List α) (c : α) (hd : data ≠ []) :
    ((arFit p (data.map (· + c))).bind fun r => predict r.2 r.1 (data.map (· + c)) h) =
      ((arFit p data).bind fun r => predict r.2 r.1 data h).map (·.map (· + c)) := by
  rw [fit_shift p data c hd]
  cases arFit p data with
  | none => rfl
  | some r =>
    simp only [Option.map_some, Option.bind_some]
    exact predict_shift r.2 r.1 c data h

end together

end Cv.C13
