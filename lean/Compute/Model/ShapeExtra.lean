import Compute.Model.Mat
import Compute.Model.Kernels
import Compute.Model.Shape
/-
C15 (coverage extension): the remaining public constructors / accessors / reductions of
`src/linalg/array/matrix.rs` and `src/linalg/array/vec.rs`:

  Matrix::{shape, size, with_shape, with_capacity, data_mut (element writes), sum_rows, sum_cols}
  Vector::{new, empty, empty_n, zeros, ones, with_capacity, sort}

`none` = panic.  Only what is observable is modelled: the capacity of a `Vec` is not, and the contents
of the uninitialised buffers of `empty_n` / `with_shape` are a parameter `g` (any list of the right
length).  `data_mut` hands out `&mut Vector`; only length-preserving element writes through it are
modelled (`push`/`truncate` through that reference break the invariant by construction, exactly like
writing the public field `data`).  No Mathlib imports.
-/
namespace Cv
namespace ShapeX
open Cv.Shape
variable {α : Type}

/-! ### accessors -/

/-- `Matrix::shape`. -/
def shape (m : Mat α) : Nat × Nat := (m.nrows, m.ncols)

/-- `Matrix::size` = `nrows * ncols` (not `data.len()`). -/
def size (m : Mat α) : Nat := m.nrows * m.ncols

/-! ### `Vector` constructors -/

/-- `Vector::new(v)` / `Vector::from(v)`. -/
def vecNew (d : List α) : List α := d

/-- `Vector::empty()`. -/
def vecEmpty : List α := []

/-- `Vector::with_capacity(n)`: an empty vector (the capacity is not observable). -/
def vecWithCapacity (_n : Nat) : List α := []

/-- `Vector::zeros(n)`. -/
def vecZeros [Zero α] (n : Nat) : List α := List.replicate n 0

/-- `Vector::ones(n)`. -/
def vecOnes [One α] (n : Nat) : List α := List.replicate n 1

/-- `Vector::empty_n(n)`: `n` uninitialised values; `g` stands for whatever the buffer holds. -/
def vecEmptyN (g : Nat → α) (n : Nat) : List α := (List.range n).map g

/-! ### `Matrix` constructors -/

/-- `Matrix::with_shape(r, c)` = `Matrix::new(Vector::empty_n(r*c), r, c)`. -/
def withShape (g : Nat → α) (r c : Nat) : Option (Mat α) := mnewN (vecEmptyN g (r * c)) r c

/-- `with_shape` followed by overwriting every element through `data_mut()`. -/
def withShapeFill (g : Nat → α) (r c : Nat) (v : α) : Option (Mat α) :=
  (withShape g r c).map fun m => ⟨m.data.map fun _ => v, m.nrows, m.ncols⟩

/-- `Matrix::with_capacity(r, c)` = `Matrix::new(Vector::with_capacity(r*c), r, c)`: the vector is
*empty*, so `reshape_mut` accepts the request only when `r * c = 0`. -/
def withCapacity (r c : Nat) : Option (Mat α) := mnewN (vecWithCapacity (r * c) : List α) r c

/-! ### element write through `data_mut()` -/

/-- `m.data_mut()[k] = v` (`Vec` indexing: panics for `k ≥ data.len()`). -/
def dataMutSet (m : Mat α) (k : Nat) (v : α) : Option (Mat α) :=
  if k < m.data.length then some ⟨m.data.set k v, m.nrows, m.ncols⟩ else none

/-! ### `Vector::sort` -/
section sort
variable [LE α] [DecidableLE α]

/-- Insert before the first element that is not smaller (keeps equal elements in input order). -/
def insertLe (x : α) : List α → List α
  | [] => [x]
  | y :: ys => if x ≤ y then x :: y :: ys else y :: insertLe x ys

/-- The stable sort of a list by `≤` (for a total preorder the result of every stable sort, in
particular of `slice::sort_by`, is this list). -/
def stableSort (l : List α) : List α := l.foldr insertLe []

/-- `Vector::sort` = `sort_by(|a, b| a.partial_cmp(b).unwrap())`: every element of a slice of length
≥ 2 takes part in a comparison, and a comparison with a NaN (`¬ x ≤ x`) unwraps `None`: panic.
`-0.0` and `0.0` compare `Equal` and keep their input order. -/
def vecSort (l : List α) : Option (List α) :=
  if 2 ≤ l.length ∧ l.any (fun x => !(decide (x ≤ x))) then none else some (stableSort l)

/-- `m.data_mut().sort()`: the flat data sorted in place, shape unchanged. -/
def sortData (m : Mat α) : Option (Mat α) := (vecSort m.data).map fun d => ⟨d, m.nrows, m.ncols⟩

end sort

/-! ### row and column sums -/
section sums
variable [Add α] [Zero α]

/-- `Matrix::sum_rows`: `sums[i] = Vector::from(&self[i]).sum()` — the 8-way unrolled `sum`. -/
def sumRows (m : Mat α) : List α := (List.range m.nrows).map fun i => sum8 (row m i)

/-- `Matrix::sum_cols`: `sums = zeros(ncols); for row { for col { sums[col] += self[row][col] } }` —
per column a left fold over the rows starting from `0.0`. -/
def sumCols [Inhabited α] (m : Mat α) : List α :=
  (List.range m.ncols).map fun j => (List.range m.nrows).foldl (fun s i => s + m.get i j) 0

end sums

/-! ### programs including the extra operations -/

/-- The state-changing operations of `Shape.Op` plus the ones of this file. -/
inductive OpX (α : Type) where
  | base (op : Op α)
  | sortData                                   -- `m.data_mut().sort()`
  | dataMutSet (k : Nat) (v : α)               -- `m.data_mut()[k] = v`
  | withShapeFill (r c : Nat) (v : α)          -- `m = Matrix::with_shape(r, c)`, every element := v
  | withCapacity (r c : Nat)                   -- `m = Matrix::with_capacity(r, c)`
  | sumRowsToMatrix                            -- `m = m.sum_rows().to_matrix()`
  | sumColsToMatrix                            -- `m = m.sum_cols().to_matrix()`

def applyOpX [Inhabited α] [Add α] [Zero α] [LE α] [DecidableLE α] (g : Nat → α) : OpX α → Mat α → Option (Mat α)
  | .base op, m => applyOp op m
  | .sortData, m => sortData m
  | .dataMutSet k v, m => dataMutSet m k v
  | .withShapeFill r c v, _ => withShapeFill g r c v
  | .withCapacity r c, _ => withCapacity r c
  | .sumRowsToMatrix, m => vecToMatrix (sumRows m)
  | .sumColsToMatrix, m => vecToMatrix (sumCols m)

def runX [Inhabited α] [Add α] [Zero α] [LE α] [DecidableLE α] (g : Nat → α) : List (OpX α) → Mat α → Option (Mat α)
  | [], m => some m
  | op :: ops, m => (applyOpX g op m).bind (runX g ops)

def runKeepX [Inhabited α] [Add α] [Zero α] [LE α] [DecidableLE α] (g : Nat → α) : List (OpX α) → Mat α → Mat α
  | [], m => m
  | op :: ops, m => runKeepX g ops ((applyOpX g op m).getD m)

end ShapeX
end Cv
