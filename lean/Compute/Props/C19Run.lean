import Compute.Props.C19
import Compute.Lemmas.C19Run
/-
# C19, termination-relative totality and the law of each drawn index

`Props/C19.lean` states the resampling facts for every run that returns (`*_partial`).  This file closes the distance to
the full statement as far as it can be closed without proving that Lemire's rejection loop terminates:

* `bootstrap_eq`, `shuffle_eq`, `shuffle_two_eq` (unconditional equalities): each function IS a sequence of
  `DiscreteUniform(0, n-1)` index draws of the run itself — draw `j` evaluated at the generator state left by draws
  `0 … j-1` — followed by a total post-processing that cannot panic (`pickAll`, `applySwaps`; for `shuffle_two` the SAME
  transposition list is applied to both arrays).
* `*_isSome_iff`, `*_returns`: the call returns iff its own index draws all return; in particular it returns for every
  generator state for which each of its Lemire draws returns within the fuel.
* `*_none`: if the call does not return (non-empty input, equal lengths) there is a `j` below the number of draws of
  the call such that the first `j` draws of THIS run return, reaching state `gj`, and Lemire's loop for bound `n` runs
  out of fuel AT `gj`.
* `idxDraw_eq_lemire` + `bootstrap_draw_law`, `shuffle_draw_law`: for `n ≥ 2` every drawn index is
  `u64_less_than(n)` evaluated at the state of the run at that draw, and (`u64LessThan_first_accepted`) equals
  `mulHi r n` for the FIRST word `r` of the generator's stream from that state that `lemireAccept` accepts; `lemire_uniform`
  counts exactly `⌊2^64/n⌋` accepted words per index value.  (The step from these two facts to "uniform positions for an
  ideal iid-uniform word source" is the standard rejection-sampling argument and is not formalised: no probability space.)
* kernel-evaluated runs on inputs of length 3 and 5 instantiate every `= some` hypothesis of the `_partial` theorems.
-/
namespace Cv.C19
open Cv Cv.Rng Cv.Resample

variable {α β : Type}

/-! ## One index draw -/

/-- For `2 ≤ n < 2^63` the index draw of a length-`n` input is Lemire's bounded draw `u64_less_than(n)` (value read as an
integer, same next state); for `n = 1` it is the constant `0` without touching the generator (`sampleInt_eq`). -/
theorem idxDraw_eq_lemire (fuel : Nat) {n : Nat} (hn : 2 ≤ n) (hn' : n < 2 ^ 63) (g : Rng) :
    idxDraw fuel n g = (u64LessThan fuel (UInt64.ofNat n) g).map fun p => ((p.1.toNat : Int), p.2) := by
  have hU : asU64 ((n : Int) - 1 + 1 - 0) = UInt64.ofNat n := by
    unfold asU64
    have : ((n : Int) - 1 + 1 - 0) % 2 ^ 64 = (n : Int) := by
      rw [Int.emod_eq_of_lt (by omega) (by omega)]; omega
    rw [this]; rfl
  have hnat : (UInt64.ofNat n).toNat = n := toNat_ofNat_lt (by omega)
  unfold idxDraw DiscreteUniform.sampleInt i64InRange i64LessThan
  rw [if_neg (by omega), if_pos (by omega), if_pos (by omega), hU, Option.map_map]
  cases hu : u64LessThan fuel (UInt64.ofNat n) g with
  | none => rfl
  | some p =>
    have hlt := Rng.u64LessThan_lt (show u64LessThan fuel (UInt64.ofNat n) g = some (p.1, p.2) from hu)
      (by rw [UInt64.lt_iff_toNat_lt, hnat]; show 0 < n; omega)
    rw [UInt64.lt_iff_toNat_lt, hnat] at hlt
    have h63 : p.1.toNat < 2 ^ 63 := by omega
    simp only [Option.map_some, Function.comp, asI64, if_pos h63, Int.zero_add]

/-- The index draw of a length-`n` input (`1 ≤ n < 2^63`) fails at a state only if Lemire's loop for bound `n` runs out
of fuel at that state (no assert, no overflow). -/
theorem idxDraw_none {fuel : Nat} {n : Nat} (hn : 1 ≤ n) (hn' : n < 2 ^ 63) {g : Rng} (h : idxDraw fuel n g = none) :
    u64LessThan fuel (UInt64.ofNat n) g = none := by
  by_cases h1 : n = 1
  · subst h1; simp [idxDraw, DiscreteUniform.sampleInt] at h
  · rw [idxDraw_eq_lemire fuel (by omega) hn', Option.map_eq_none_iff] at h; exact h

/-- A drawn index lies in `[0, n)`. -/
theorem idxDraw_range {fuel n : Nat} {g g' : Rng} {i : Int} (h : idxDraw fuel n g = some (i, g')) :
    0 ≤ i ∧ i < n := by
  have := DiscreteUniform.sampleInt_range h; omega

/-- A run of `k` index draws fails only at one of its own states, by fuel exhaustion of Lemire's loop there. -/
theorem draws_none {fuel n k : Nat} {g : Rng} (hn : 1 ≤ n) (hn' : n < 2 ^ 63) (h : drawN? (idxDraw fuel n) k g = none) :
    ∃ j, j < k ∧ ∃ gj, stateAfter (idxDraw fuel n) j g = some gj ∧ u64LessThan fuel (UInt64.ofNat n) gj = none := by
  obtain ⟨j, hj, gj, hs, hf⟩ := drawN?_none_at h
  exact ⟨j, hj, gj, hs, idxDraw_none hn hn' hf⟩

/-- A run of `k` index draws returns as soon as Lemire's loop returns within the fuel at each state of the run. -/
theorem draws_isSome {fuel n k : Nat} {g : Rng} (hn : 1 ≤ n) (hn' : n < 2 ^ 63)
    (h : ∀ j, j < k → ∀ gj, stateAfter (idxDraw fuel n) j g = some gj → (u64LessThan fuel (UInt64.ofNat n) gj).isSome) :
    (drawN? (idxDraw fuel n) k g).isSome := by
  apply drawN?_isSome
  intro j hj gj hs
  cases hf : idxDraw fuel n gj with
  | some r => rfl
  | none =>
    have := h j hj gj hs
    rw [idxDraw_none hn hn' hf] at this
    exact this

/-- In a returning run of index draws, for `n ≥ 2` the `j`-th index is `u64_less_than(n)` evaluated at the `j`-th state
of the run, and it is `mulHi (word k) n` for the FIRST word of the generator's stream from that state (offsets `0, 1, 2, …`)
that `lemireAccept` accepts, the `k` earlier words being rejected and exactly `k + 1` words consumed
(`u64LessThan_first_accepted`); by `lemire_uniform` each of the `n` possible values has the same number `⌊2^64/n⌋` of
accepted raw words. -/
theorem draws_law {fuel n k : Nat} {g g' : Rng} {idxs : List Int} (hn : 2 ≤ n) (hn' : n < 2 ^ 63)
    (h : drawN? (idxDraw fuel n) k g = some (idxs, g')) (j : Nat) (hj : j < idxs.length) :
    ∃ gj gj' v, stateAfter (idxDraw fuel n) j g = some gj ∧
      u64LessThan fuel (UInt64.ofNat n) gj = some (v, gj') ∧ idxs[j] = (v.toNat : Int) ∧ v.toNat < n ∧
      ∃ k, k ≤ fuel ∧ (∀ i, i < k → ¬ lemireAccept (UInt64.ofNat n) (word gj i)) ∧
        lemireAccept (UInt64.ofNat n) (word gj k) ∧ v = mulHi (word gj k) (UInt64.ofNat n) ∧ gj' = nthState gj (k + 1) := by
  obtain ⟨gj, gj', hs, hf⟩ := drawN?_getElem h j hj
  rw [idxDraw_eq_lemire fuel hn hn', Option.map_eq_some_iff] at hf
  obtain ⟨p, hp, he⟩ := hf
  simp only [Prod.mk.injEq] at he
  have hp' : u64LessThan fuel (UInt64.ofNat n) gj = some (p.1, gj') := by rw [hp, ← he.2]
  have hnat : (UInt64.ofNat n).toNat = n := toNat_ofNat_lt (by omega)
  have hlt := Rng.u64LessThan_lt hp' (by rw [UInt64.lt_iff_toNat_lt, hnat]; show 0 < n; omega)
  rw [UInt64.lt_iff_toNat_lt, hnat] at hlt
  exact ⟨gj, gj', p.1, hs, hp', he.1.symm, hlt, Rng.u64LessThan_first_accepted hp'⟩

/-- **First accepted word** (restated from `Lemmas/C19Draws.lean`): a returning `u64_less_than(m)` from state `g` rejected
the words at offsets `0 … k-1` of the stream from `g`, accepted the word at offset `k ≤ fuel`, returned its high product
`mulHi (word g k) m`, and consumed exactly `k + 1` words. -/
theorem u64LessThan_first_accepted {fuel : Nat} {m : UInt64} {g g' : Rng} {v : UInt64}
    (h : u64LessThan fuel m g = some (v, g')) :
    ∃ k, k ≤ fuel ∧ (∀ i, i < k → ¬ lemireAccept m (word g i)) ∧ lemireAccept m (word g k) ∧
      v = mulHi (word g k) m ∧ g' = nthState g (k + 1) := Rng.u64LessThan_first_accepted h

/-- Converse: if the first accepted word of the stream from `g` sits at offset `k ≤ fuel`, the draw returns its output. -/
theorem u64LessThan_of_first_accepted {fuel k : Nat} {m : UInt64} {g : Rng} (hk : k ≤ fuel)
    (hrej : ∀ i, i < k → ¬ lemireAccept m (word g i)) (hacc : lemireAccept m (word g k)) :
    u64LessThan fuel m g = some (mulHi (word g k) m, nthState g (k + 1)) :=
  Rng.u64LessThan_of_first_accepted hk hrej hacc

/-- kernel-evaluated instance on a rejection-heavy bound -/
example : ∃ k, k ≤ 64 ∧ lemireAccept 9223372036854775809 (word (Rng.ofSeed 3) k) := by
  have h : (u64LessThan 64 9223372036854775809 (Rng.ofSeed 3)).isSome = true := by decide +kernel
  obtain ⟨⟨v, g'⟩, hv⟩ := Option.isSome_iff_exists.1 h
  obtain ⟨k, hk, _, ha, _⟩ := u64LessThan_first_accepted hv
  exact ⟨k, hk, ha⟩

/-! ## bootstrap -/

/-- **`bootstrap` as a function of its own index stream** (unconditional, `d ≠ []`): `n_bootstrap` blocks of `n` index
draws, each block mapped through `pickAll` (`data[i]` for every drawn `i`).  Nothing else can fail or panic. -/
theorem bootstrap_eq (fuel : Nat) {d : List α} (hd : d ≠ []) (nb : Nat) (g : Rng) :
    bootstrap fuel d nb g =
      (drawN? (drawN? (idxDraw fuel d.length) d.length) nb g).map fun p => (p.1.map (pickAll d.toArray), p.2) := by
  unfold bootstrap
  have hne : d.isEmpty = false := by simpa using hd
  rw [hne, if_neg (by simp), bootLoop_eq]
  rfl

/-- `bootstrap` returns iff its `n_bootstrap · n` own index draws (flat sequence) all return. -/
theorem bootstrap_isSome_iff (fuel : Nat) {d : List α} (hd : d ≠ []) (nb : Nat) (g : Rng) :
    (bootstrap fuel d nb g).isSome ↔ (drawN? (idxDraw fuel d.length) (nb * d.length) g).isSome := by
  rw [bootstrap_eq fuel hd, ← drawN?_nested, Option.isSome_map, Option.isSome_map]

/-- Termination-relative totality: `bootstrap` returns for every generator state for which each of its Lemire draws
returns within the fuel. -/
theorem bootstrap_returns {fuel : Nat} {d : List α} (hd : d ≠ []) (hlen : d.length < 2 ^ 63) (nb : Nat) (g : Rng)
    (h : ∀ j, j < nb * d.length → ∀ gj, stateAfter (idxDraw fuel d.length) j g = some gj →
      (u64LessThan fuel (UInt64.ofNat d.length) gj).isSome) :
    (bootstrap fuel d nb g).isSome :=
  (bootstrap_isSome_iff fuel hd nb g).2 (draws_isSome (List.length_pos_iff.2 hd) hlen h)

/-- If `bootstrap` of a non-empty input does not return, one of its own draws ran out of fuel: the first `j` draws of
this run return, reaching `gj`, and Lemire's loop for bound `n` fails at `gj`. -/
theorem bootstrap_none {fuel : Nat} {d : List α} {nb : Nat} {g : Rng} (hd : d ≠ []) (hlen : d.length < 2 ^ 63)
    (h : bootstrap fuel d nb g = none) :
    ∃ j, j < nb * d.length ∧ ∃ gj, stateAfter (idxDraw fuel d.length) j g = some gj ∧
      u64LessThan fuel (UInt64.ofNat d.length) gj = none := by
  apply draws_none (List.length_pos_iff.2 hd) hlen
  have := (bootstrap_isSome_iff fuel hd nb g).not
  rw [h] at this
  simpa using this

/-- The values of a returning `bootstrap` in terms of the flat index stream of the run: the concatenated resamples are
`data[i]` for the `n_bootstrap · n` indices drawn by this run, in draw order, and the final state is the state after
those draws. -/
theorem bootstrap_draws {fuel : Nat} {d : List α} (hd : d ≠ []) {nb : Nat} {g g' : Rng} {rs : List (List α)}
    (h : bootstrap fuel d nb g = some (rs, g')) :
    ∃ idxss : List (List Int), rs = idxss.map (pickAll d.toArray) ∧
      drawN? (idxDraw fuel d.length) (nb * d.length) g = some (idxss.flatten, g') := by
  rw [bootstrap_eq fuel hd, Option.map_eq_some_iff] at h
  obtain ⟨p, hp, he⟩ := h
  simp only [Prod.mk.injEq] at he
  refine ⟨p.1, he.1.symm, ?_⟩
  rw [← drawN?_nested, hp, Option.map_some, he.2]

/-- **Every position equally likely, per draw.**  In a returning `bootstrap` (`n ≥ 2`) the `j`-th drawn index of the run
is `u64_less_than(n)` at the `j`-th generator state of the run, and is the output of an accepted raw word in the sense
of `lemire_uniform`. -/
theorem bootstrap_draw_law {fuel : Nat} {d : List α} (hn : 2 ≤ d.length) (hlen : d.length < 2 ^ 63) {nb : Nat}
    {g g' : Rng} {rs : List (List α)} (h : bootstrap fuel d nb g = some (rs, g')) :
    ∃ idxs : List Int, idxs.length = nb * d.length ∧ rs.flatten = pickAll d.toArray idxs ∧
      ∀ j (hj : j < idxs.length), ∃ gj gj' v, stateAfter (idxDraw fuel d.length) j g = some gj ∧
        u64LessThan fuel (UInt64.ofNat d.length) gj = some (v, gj') ∧ idxs[j] = (v.toNat : Int) ∧ v.toNat < d.length ∧
        ∃ k, k ≤ fuel ∧ (∀ i, i < k → ¬ lemireAccept (UInt64.ofNat d.length) (word gj i)) ∧
          lemireAccept (UInt64.ofNat d.length) (word gj k) ∧ v = mulHi (word gj k) (UInt64.ofNat d.length) ∧
          gj' = nthState gj (k + 1) := by
  have hd : d ≠ [] := by intro h0; rw [h0] at hn; simp at hn
  obtain ⟨idxss, hrs, hdr⟩ := bootstrap_draws hd h
  refine ⟨idxss.flatten, (drawN?_spec (P := fun _ => True) (fun _ _ _ _ => trivial) hdr).1, ?_, ?_⟩
  · rw [hrs]; unfold pickAll; rw [List.filterMap_flatten]
  · intro j hj; exact draws_law hn hlen hdr j hj

/-! ## shuffle -/

/-- **`shuffle` as a function of its own index stream** (unconditional, `d ≠ []`): `4n` index draws
`a₁, b₁, a₂, b₂, …` (`2n` rounds) and the `2n` transpositions `(aᵢ, bᵢ)` applied in order. -/
theorem shuffle_eq (fuel : Nat) {d : List α} (hd : d ≠ []) (g : Rng) :
    shuffle fuel d g =
      (drawN? (idxDraw fuel d.length) (4 * d.length) g).map fun p => ((applySwaps d.toArray p.1).toList, p.2) := by
  unfold shuffle
  have hne : d.isEmpty = false := by simpa using hd
  rw [hne, if_neg (by simp), shuffleLoop_eq _ _ _ _ _ (by simp), Option.map_map,
    show 2 * (d.length * 2) = 4 * d.length by omega]
  rfl

theorem shuffle_isSome_iff (fuel : Nat) {d : List α} (hd : d ≠ []) (g : Rng) :
    (shuffle fuel d g).isSome ↔ (drawN? (idxDraw fuel d.length) (4 * d.length) g).isSome := by
  rw [shuffle_eq fuel hd, Option.isSome_map]

/-- Termination-relative totality of `shuffle`. -/
theorem shuffle_returns {fuel : Nat} {d : List α} (hd : d ≠ []) (hlen : d.length < 2 ^ 63) (g : Rng)
    (h : ∀ j, j < 4 * d.length → ∀ gj, stateAfter (idxDraw fuel d.length) j g = some gj →
      (u64LessThan fuel (UInt64.ofNat d.length) gj).isSome) :
    (shuffle fuel d g).isSome :=
  (shuffle_isSome_iff fuel hd g).2 (draws_isSome (List.length_pos_iff.2 hd) hlen h)

/-- If `shuffle` of a non-empty input does not return, one of its own `4n` draws ran out of fuel at a state of the run. -/
theorem shuffle_none {fuel : Nat} {d : List α} {g : Rng} (hd : d ≠ []) (hlen : d.length < 2 ^ 63)
    (h : shuffle fuel d g = none) :
    ∃ j, j < 4 * d.length ∧ ∃ gj, stateAfter (idxDraw fuel d.length) j g = some gj ∧
      u64LessThan fuel (UInt64.ofNat d.length) gj = none := by
  apply draws_none (List.length_pos_iff.2 hd) hlen
  have := (shuffle_isSome_iff fuel hd g).not
  rw [h] at this
  simpa using this

/-- Each of the `4n` draws (`2n` pairs `(a, b)`) of a returning `shuffle` (`n ≥ 2`) is `u64_less_than(n)` at the state of the run. -/
theorem shuffle_draw_law {fuel : Nat} {d r : List α} (hn : 2 ≤ d.length) (hlen : d.length < 2 ^ 63) {g g' : Rng}
    (h : shuffle fuel d g = some (r, g')) :
    ∃ idxs : List Int, idxs.length = 4 * d.length ∧ r = (applySwaps d.toArray idxs).toList ∧
      ∀ j (hj : j < idxs.length), ∃ gj gj' v, stateAfter (idxDraw fuel d.length) j g = some gj ∧
        u64LessThan fuel (UInt64.ofNat d.length) gj = some (v, gj') ∧ idxs[j] = (v.toNat : Int) ∧ v.toNat < d.length ∧
        ∃ k, k ≤ fuel ∧ (∀ i, i < k → ¬ lemireAccept (UInt64.ofNat d.length) (word gj i)) ∧
          lemireAccept (UInt64.ofNat d.length) (word gj k) ∧ v = mulHi (word gj k) (UInt64.ofNat d.length) ∧
          gj' = nthState gj (k + 1) := by
  have hd : d ≠ [] := by intro h0; rw [h0] at hn; simp at hn
  rw [shuffle_eq fuel hd, Option.map_eq_some_iff] at h
  obtain ⟨p, hp, he⟩ := h
  simp only [Prod.mk.injEq] at he
  have hp' : drawN? (idxDraw fuel d.length) (4 * d.length) g = some (p.1, g') := by rw [hp, ← he.2]
  refine ⟨p.1, (drawN?_spec (P := fun _ => True) (fun _ _ _ _ => trivial) hp').1, he.1.symm, ?_⟩
  intro j hj; exact draws_law hn hlen hp' j hj

/-! ## shuffle_two -/

/-- **`shuffle_two` as a function of its own index stream** (unconditional; equal lengths, non-empty): `4n` index draws
and ONE list of transpositions applied to both arrays. -/
theorem shuffle_two_eq (fuel : Nat) {a : List α} {b : List β} (hd : a ≠ []) (hab : a.length = b.length) (g : Rng) :
    shuffleTwo fuel a b g =
      (drawN? (idxDraw fuel a.length) (4 * a.length) g).map
        fun p => ((applySwaps a.toArray p.1).toList, (applySwaps b.toArray p.1).toList, p.2) := by
  unfold shuffleTwo
  have hne : a.isEmpty = false := by simpa using hd
  rw [if_neg (by simpa using hab), hne, if_neg (by simp),
    shuffleTwoLoop_eq _ _ _ _ _ _ (by simp) (by simp [hab]), Option.map_map,
    show 2 * (a.length * 2) = 4 * a.length by omega]
  rfl

theorem shuffle_two_isSome_iff (fuel : Nat) {a : List α} {b : List β} (hd : a ≠ []) (hab : a.length = b.length) (g : Rng) :
    (shuffleTwo fuel a b g).isSome ↔ (drawN? (idxDraw fuel a.length) (4 * a.length) g).isSome := by
  rw [shuffle_two_eq fuel hd hab, Option.isSome_map]

/-- Termination-relative totality of `shuffle_two`. -/
theorem shuffle_two_returns {fuel : Nat} {a : List α} {b : List β} (hd : a ≠ []) (hab : a.length = b.length)
    (hlen : a.length < 2 ^ 63) (g : Rng)
    (h : ∀ j, j < 4 * a.length → ∀ gj, stateAfter (idxDraw fuel a.length) j g = some gj →
      (u64LessThan fuel (UInt64.ofNat a.length) gj).isSome) :
    (shuffleTwo fuel a b g).isSome :=
  (shuffle_two_isSome_iff fuel hd hab g).2 (draws_isSome (List.length_pos_iff.2 hd) hlen h)

/-- If `shuffle_two` (non-empty, equal lengths) does not return, one of its own draws ran out of fuel at a state of the run. -/
theorem shuffle_two_none {fuel : Nat} {a : List α} {b : List β} {g : Rng} (hd : a ≠ []) (hab : a.length = b.length)
    (hlen : a.length < 2 ^ 63) (h : shuffleTwo fuel a b g = none) :
    ∃ j, j < 4 * a.length ∧ ∃ gj, stateAfter (idxDraw fuel a.length) j g = some gj ∧
      u64LessThan fuel (UInt64.ofNat a.length) gj = none := by
  apply draws_none (List.length_pos_iff.2 hd) hlen
  have := (shuffle_two_isSome_iff fuel hd hab g).not
  rw [h] at this
  simpa using this

/-! ## Kernel-evaluated runs for n ≥ 2 (non-vacuity of every `= some` hypothesis) -/

example : shuffle 64 [(1 : Nat), 2, 3] (Rng.ofSeed 1) = some ([2, 3, 1], ⟨9622328412192420405⟩) := by decide +kernel
example : (shuffle 64 [(1 : Nat), 2, 3, 4, 5] (Rng.ofSeed 1)).isSome = true := by decide +kernel
example : shuffleTwo 64 [(1 : Nat), 2, 3] [(10 : Nat), 20, 30] (Rng.ofSeed 7)
    = some ([1, 3, 2], [10, 30, 20], ⟨9622328412192420411⟩) := by decide +kernel
example : bootstrap 64 [(10 : Nat), 20, 30] 2 (Rng.ofSeed 3)
    = some ([[10, 20, 30], [30, 20, 30]], ⟨14034536242950986013⟩) := by decide +kernel
/-- fuel 0 suffices on this run: no draw of the run is rejected. -/
example : bootstrap 0 [(10 : Nat), 20, 30] 2 (Rng.ofSeed 3)
    = some ([[10, 20, 30], [30, 20, 30]], ⟨14034536242950986013⟩) := by decide +kernel
/-- a rejection-heavy bound (`2^63 + 1`: every second word is rejected) exercises the loop in the kernel. -/
example : (drawN? (u64LessThan 64 9223372036854775809) 8 (Rng.ofSeed 3)).isSome = true := by decide +kernel
example : drawN? (u64LessThan 0 9223372036854775809) 8 (Rng.ofSeed 3) = none := by decide +kernel

/-- The `_partial` theorems instantiated on the kernel-evaluated runs above. -/
example : ([2, 3, 1] : List Nat).Perm [1, 2, 3] :=
  shuffle_perm_partial (fuel := 64) (g := Rng.ofSeed 1) (g' := ⟨9622328412192420405⟩) (by decide +kernel)
example : (([1, 3, 2] : List Nat).zip ([10, 30, 20] : List Nat)).Perm ([1, 2, 3].zip [10, 20, 30]) :=
  (shuffle_two_pairs_partial (fuel := 64) (g := Rng.ofSeed 7) (g' := ⟨9622328412192420411⟩) (by decide +kernel)).1
example : ([[10, 20, 30], [30, 20, 30]] : List (List Nat)).length = 2 :=
  (bootstrap_spec_partial (fuel := 64) (d := [10, 20, 30]) (g := Rng.ofSeed 3) (g' := ⟨14034536242950986013⟩)
    (by decide +kernel)).1
/-- `shuffle_returns` with its hypothesis discharged by evaluation is subsumed by the direct evaluation above; the
hypotheses of `bootstrap_draw_law` are instantiated here. -/
example : ∃ idxs : List Int, idxs.length = 2 * 3 :=
  let h := bootstrap_draw_law (fuel := 64) (d := [(10 : Nat), 20, 30]) (nb := 2) (g := Rng.ofSeed 3)
    (g' := ⟨14034536242950986013⟩) (rs := [[10, 20, 30], [30, 20, 30]]) (by decide) (by decide) (by decide +kernel)
  ⟨h.choose, h.choose_spec.1⟩

end Cv.C19
