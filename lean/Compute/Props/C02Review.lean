import Compute.Props.C02
import Compute.Generated.C02Consts
import Compute.Props.C11Review
/-
C02 — follow-ups of the independent review (findings A1, B1, B3, B4, B5 of out/review/review-a.md).

* Stability of the log-space densities under an INEXACT `ln_gamma`: `pdf F = pdf RF · exp (log Γ − F.lnGamma)` etc.  No theorem of
  C09 bounds `log Γ − lnGammaFn` for the code's Lanczos sum; these lemmas say exactly how such a gap would propagate
  (a relative factor `exp(gap)`), nothing more.
* MVN: what the constructor guarantees (`mvn_new_facts`), the accessors (`mvn_mean_var`), non-negativity of `pdf`, and the two
  instantiations of `mvn_pdf_formula_partial` the review asked for.
* The generated Euler–Mascheroni rational lies in the same bracket `(1/2, 2/3)` Mathlib proves for the constant.
-/
open scoped Cv.C02
open Cv Cv.Dist ProbabilityTheory

namespace Cv.C02

variable (erf : ℝ → ℝ)

local notation "RF" => realFns erf

/-! ## B3: stability under an inexact `ln_gamma` -/

/-- Gamma: an error `g = log Γ(α) − F.lnGamma α` of the code's `ln_gamma` multiplies the density by `exp g`. -/
theorem gamma_pdf_stability (F : Fns ℝ) (α β x : ℝ) :
    Gamma.pdf F α β x = Gamma.pdf RF α β x * Real.exp (Real.log (Real.Gamma α) - F.lnGamma α) := by
  simp only [Gamma.pdf, realFns, transc_exp, transc_ln]
  split
  · simp
  · rw [← Real.exp_add]; congr 1; ring

/-- ChiSquared: the same with `α = k/2`. -/
theorem chiSquared_pdf_stability (F : Fns ℝ) (k : ℕ) (x : ℝ) :
    ChiSquared.pdf F k x =
      ChiSquared.pdf RF k x * Real.exp (Real.log (Real.Gamma ((k : ℝ) / 2)) - F.lnGamma ((k : ℝ) / 2)) := by
  simp only [ChiSquared.pdf, realFns, transc_exp, transc_ln, two_real]
  split
  · simp
  · rw [← Real.exp_add]; congr 1; ring

/-- Beta: the three `ln_gamma` errors enter with signs `+ − −`. -/
theorem beta_pdf_stability (F : Fns ℝ) (α β x : ℝ) :
    Beta.pdf F α β x = Beta.pdf RF α β x *
      Real.exp ((F.lnGamma (α + β) - Real.log (Real.Gamma (α + β))) - (F.lnGamma α - Real.log (Real.Gamma α))
        - (F.lnGamma β - Real.log (Real.Gamma β))) := by
  simp only [Beta.pdf, realFns, transc_exp]
  split
  · rw [← Real.exp_add]; congr 1; ring
  · simp

/-- Poisson: an error of `ln_gamma (k+1)` multiplies the mass by `exp` of it. -/
theorem poisson_pmf_stability (F : Fns ℝ) (l : ℝ) (k : ℤ) :
    Poisson.pmf F l k = Poisson.pmf RF l k *
      Real.exp (Real.log (Real.Gamma ((k : ℝ) + 1)) - F.lnGamma ((k : ℝ) + 1)) := by
  simp only [Poisson.pmf, realFns, transc_exp, transc_ln]
  split
  · simp
  · rw [← Real.exp_add]; congr 1; ring

/-- The Euler–Mascheroni literal of gumbel.rs (exact rational of the `f64`, regenerated from the source) lies in `(1/2, 2/3)`,
the bracket Mathlib proves for the constant itself; hence `|literal − γ| < 1/6`.  (A sharper bound needs numerical bounds on `γ`
that Mathlib does not have; the 17-digit agreement is checked by the oracle through `Gumbel::mean`.) -/
theorem euler_literal_bracket :
    (1 / 2 : ℝ) < (C02T.eulerNum : ℝ) / (C02T.eulerDen : ℝ) ∧ (C02T.eulerNum : ℝ) / (C02T.eulerDen : ℝ) < 2 / 3 ∧
    |(C02T.eulerNum : ℝ) / (C02T.eulerDen : ℝ) - Real.eulerMascheroniConstant| < 1 / 6 := by
  have h1 : (1 / 2 : ℝ) < (C02T.eulerNum : ℝ) / (C02T.eulerDen : ℝ) := by
    simp only [C02T.eulerNum, C02T.eulerDen]; norm_num
  have h2 : (C02T.eulerNum : ℝ) / (C02T.eulerDen : ℝ) < 2 / 3 := by
    simp only [C02T.eulerNum, C02T.eulerDen]; norm_num
  have g1 := Real.one_half_lt_eulerMascheroniConstant
  have g2 := Real.eulerMascheroniConstant_lt_two_thirds
  refine ⟨h1, h2, ?_⟩
  rw [abs_lt]; constructor <;> linarith

/-! ## B4: the boundary value the code returns for Gamma -/

/-- Gamma at the boundary point `x = 0`: the code returns `0` (open support `(0, ∞)`), for every `F`. -/
theorem gamma_pdf_at_zero (F : Fns ℝ) (α β : ℝ) : Gamma.pdf F α β 0 = 0 :=
  gamma_pdf_zero_of_nonpos F α β 0 le_rfl

/-! ## A1 / B1: multivariate normal -/

/-- **What `MVN::new` guarantees**: the stored mean and covariance are the arguments, the dimensions agree, the covariance
passes `is_symmetric` and `is_positive_definite` (so the assert of `pdf` / `ln_pdf` can never fire on a constructed object), and
the cached fields are the results of `Matrix::cholesky`, `Matrix::inv`, `Matrix::det` on the covariance. -/
theorem mvn_new_facts (mean : List ℝ) (cov : Mat ℝ) (d : MVN ℝ) (h : MVN.new mean cov = some d) :
    d.mean = mean ∧ d.cov = cov ∧ mean.length = cov.ncols ∧ LA.M.isSymmetric cov = true ∧
    LA.M.isPositiveDefinite cov = true ∧ LA.M.cholesky cov = some d.chol ∧ LA.M.inv cov = some d.inv ∧
    LA.M.det cov = some d.det := by
  unfold MVN.new at h
  split at h
  · exact absurd h (by simp)
  · next hsym =>
    split at h
    · exact absurd h (by simp)
    · next hlen =>
      cases hc : LA.M.cholesky cov with
      | none => simp [hc] at h
      | some l =>
        cases hi : LA.M.inv cov with
        | none => simp [hc, hi] at h
        | some ci =>
          cases hd : LA.M.det cov with
          | none => simp [hc, hi, hd] at h
          | some cd =>
            simp only [hc, hi, hd, Option.bind_eq_bind, Option.bind_some, Option.pure_def, Option.some.injEq] at h
            subst h
            have hpd : LA.M.isPositiveDefinite cov = true := by
              by_contra hn
              have : LA.M.cholesky cov = none := by simp [LA.M.cholesky, hn]
              rw [this] at hc; exact absurd hc (by simp)
            refine ⟨rfl, rfl, by simpa using hlen, by simpa using hsym, hpd, rfl, rfl, rfl⟩

/-- `MVN::new` panics on a non-symmetric covariance or a mean of the wrong length. -/
theorem mvn_new_rejects (mean : List ℝ) (cov : Mat ℝ)
    (h : LA.M.isSymmetric cov = false ∨ mean.length ≠ cov.ncols) : MVN.new mean cov = none := by
  unfold MVN.new
  rcases h with h | h
  · simp [h]
  · by_cases hs : LA.M.isSymmetric cov = true
    · simp [hs, h]
    · simp [hs]

/-- **`mean()` and `var()` of the MVN** return the constructor's arguments (stored mean vector, covariance matrix). -/
theorem mvn_mean_var (mean : List ℝ) (cov : Mat ℝ) (d : MVN ℝ) (h : MVN.new mean cov = some d) :
    MVN.meanOf d = mean ∧ MVN.varOf d = cov := by
  obtain ⟨h1, h2, _⟩ := mvn_new_facts mean cov d h
  exact ⟨h1, h2⟩

/-- **MVN density is non-negative** whenever it is a value and the cached determinant is positive (any `F`).  The guard is needed
for fidelity, not for the inequality: for `det < 0` Rust returns NaN and for `det = 0` it returns `+∞`, where the ℝ-model gives `0`. -/
theorem mvn_pdf_nonneg (F : Fns ℝ) (d : MVN ℝ) (x : List ℝ) (y : ℝ) (_hD : 0 < d.det) (h : MVN.pdf F d x = some y) :
    0 ≤ y := by
  unfold MVN.pdf at h
  split at h
  · exact absurd h (by simp)
  · split at h
    · exact absurd h (by simp)
    · cases hq : MVN.quadForm d x with
      | none => simp [hq] at h
      | some q =>
        simp only [hq, Option.bind_eq_bind, Option.bind_some, Option.pure_def, Option.some.injEq] at h
        rw [← h]
        exact div_nonneg (Real.exp_pos _).le (Real.sqrt_nonneg _)

/-- A 1-dimensional object with covariance `[1]`, cached inverse `[1]` and a chosen cached determinant. -/
noncomputable def mvnEx (det : ℝ) : MVN ℝ := ⟨[0], ⟨[1], 1, 1⟩, ⟨[1], 1, 1⟩, det, ⟨[1], 1, 1⟩⟩

theorem mvnEx_pd (det : ℝ) : LA.M.isPositiveDefinite (mvnEx det).cov = true := by
  simp [mvnEx, LA.M.isPositiveDefinite, LA.M.isSymmetric, LA.rd, LA.eps]
  show |(0 : ℝ)| ≤ _
  simp

/-- Non-vacuity of `mvn_pdf_formula_partial`: every hypothesis instantiated (standard normal in dimension 1). -/
example : MVN.pdf RF (mvnEx 1) [0] =
    some (Real.exp (-(1 / 2) * mvnQuad (mvnEx 1) [0] 1) / Real.sqrt ((2 * Real.pi) ^ 1 * 1)) :=
  mvn_pdf_formula_partial erf (mvnEx 1) [0] 1 one_pos (by norm_num) (mvnEx_pd 1) rfl rfl (by simp [mvnEx, Mat.WF]) rfl rfl
    (by simp [mvnEx])

/-- Why the guard `0 < det` is there: with a negative cached determinant the ℝ-model evaluates to `some 0` (`√neg = 0`, `e/0 = 0`)
where Rust returns NaN; the theorem no longer speaks about that object. -/
example : MVN.pdf RF (mvnEx (-1)) [0] = some 0 := by
  obtain ⟨q, hq, _⟩ := mvn_quadForm (mvnEx (-1)) [0] 1 one_pos rfl rfl (by simp [mvnEx, Mat.WF]) rfl rfl
  have hpd := mvnEx_pd (-1)
  have hdet : (mvnEx (-1)).det = -1 := rfl
  have hmean : (mvnEx (-1)).mean = [0] := rfl
  have hsq : Real.sqrt (powi (Dist.two * (RF).pi) ((([0] : List ℝ).length : ℕ) : Int) * (-1)) = 0 := by
    apply Real.sqrt_eq_zero_of_nonpos
    rw [powi_nat _ _ (by norm_num)]
    simp only [realFns, two_real, List.length_singleton, pow_one]
    nlinarith [Real.pi_pos]
  simp only [MVN.pdf, hpd, hq, hdet, hmean, Bool.not_true, Bool.false_eq_true, if_false, ne_eq, not_true_eq_false,
    Option.bind_eq_bind, Option.bind_some, Option.pure_def, transc_sqrt, transc_exp, hsq, div_zero]

/-! ## Review 2: examples, the two missing zero-outside-support theorems, and the link of the MVN cache to C01 / C11 -/

theorem exponential_pdf_zero_of_neg (l x : ℝ) (hx : x < 0) : Exponential.pdf l x = 0 := by
  simp [Exponential.pdf, hx]

theorem uniform_pdf_zero_outside (a b x : ℝ) (hx : x < a ∨ b < x) : Uniform.pdf a b x = 0 := by
  simp [Uniform.pdf, hx]

/-- Non-vacuity of `discreteUniform_moments` (bounds −2 … 6, inside the range guard). -/
example : ∑ i ∈ Finset.range (8 + 1), (DiscreteUniform.pmf (-2) (-2 + (8 : ℕ)) (-2 + i) : ℝ) = 1 :=
  (discreteUniform_moments (-2) 8 (by norm_num) (by norm_num)).1

section mvnNew
open Cv.LA

theorem mvnEx_chol : LA.M.cholesky (⟨[1], 1, 1⟩ : Mat ℝ) = some ⟨[1], 1, 1⟩ := by
  have hsq : isSquare 1 = some 1 := by decide
  have hpd : LA.M.isPositiveDefinite (⟨[1], 1, 1⟩ : Mat ℝ) = true := mvnEx_pd 1
  have hsym : isSymmetric ([1] : List ℝ) = some true := by
    simp only [isSymmetric, List.length_cons, List.length_nil, hsq, Option.bind_eq_bind, Option.bind_some, Option.pure_def]
    norm_num [List.range_succ, List.range'_succ, rd, eps, Transc.abs]
  simp only [LA.M.cholesky, hpd, LA.cholesky, tryCholesky, hsym, List.length_cons, List.length_nil, hsq, Option.bind_eq_bind,
    Option.bind_some, Bool.not_true, Bool.false_eq_true, if_false, Option.pure_def, Option.join_some]
  simp only [cholLoops, cholRow, List.range_succ, List.range_zero, List.nil_append, List.foldlM_cons, List.foldlM_nil,
    List.cons_append]
  norm_num [cholCell, dot8, dot8Go, rd, isNan, List.replicate, LA.M.new]

theorem mvnEx_inv : LA.M.inv (⟨[1], 1, 1⟩ : Mat ℝ) = some ⟨[1], 1, 1⟩ := by
  simp [LA.M.inv, LA.M.solveM, LA.M.lu, LA.M.luStep, LA.M.luColumn, LA.M.eye, LA.M.luSolveM, LA.M.solveColsM,
    LA.M.colsM, LA.M.getCol, LA.M.g, LA.M.luSolveV, luPermute, List.range_succ, List.range'_succ, rd, LA.M.new, LA.M.t,
    LA.transpose, LA.isMatrix, swapIdx]

theorem mvnEx_det : LA.M.det (⟨[1], 1, 1⟩ : Mat ℝ) = some 1 := by
  simp [LA.M.det, LA.M.lu, LA.M.luStep, LA.M.luColumn, LA.M.parityScalar, ipivParity, parityLoop, parityWhile,
    LA.M.prod, LA.M.diag, List.range_succ, List.range'_succ, rd]

/-- The constructor succeeds over `ℝ` on the 1 × 1 identity covariance and builds `mvnEx 1`. -/
theorem mvnEx_new : MVN.new ([0] : List ℝ) ⟨[1], 1, 1⟩ = some (mvnEx 1) := by
  have hs : LA.M.isSymmetric (⟨[1], 1, 1⟩ : Mat ℝ) = true := by
    simp [LA.M.isSymmetric, LA.rd, LA.eps]
    show |(0 : ℝ)| ≤ _
    simp
  simp [MVN.new, hs, mvnEx_chol, mvnEx_inv, mvnEx_det, mvnEx]

/-- Non-vacuity of `mvn_new_facts` / `mvn_mean_var`. -/
example : MVN.meanOf (mvnEx 1) = [0] ∧ MVN.varOf (mvnEx 1) = ⟨[1], 1, 1⟩ :=
  mvn_mean_var [0] ⟨[1], 1, 1⟩ (mvnEx 1) mvnEx_new

/-- `det ≠ 0` gives the kernel-freeness (`Nonsingular`) that C01's `matrix_inv_total` asks for. -/
theorem nonsingular_of_det (n : ℕ) (a : List ℝ) (h : (toMatrix n a).det ≠ 0) : C01Review.Nonsingular n a := by
  intro v hv j hj
  have h0 : (toMatrix n a).mulVec (fun i : Fin n => v i.1) = 0 := by
    funext i
    simp only [Matrix.mulVec, dotProduct, toMatrix, Pi.zero_apply]
    rw [Fin.sum_univ_eq_sum_range (fun j => rd a (i.1 * n + j) * v j) n]
    exact hv i.1 i.2
  have := Matrix.eq_zero_of_mulVec_eq_zero h h0
  exact congrFun this ⟨j, hj⟩

/-- **The MVN cache is the true determinant and a true inverse** (composition of `mvn_new_facts` with C11 `matrix_det_eq_det` and
C01 `matrix_inv_total`): for an object built by `MVN::new` from a well-formed `k × k` covariance, `k ≥ 1`, the cached determinant is
`det Σ`; if `det Σ ≠ 0` the cached inverse is a well-formed `k × k` matrix `P` with `Σ · P = I`. -/
theorem mvn_new_cache (mean : List ℝ) (cov : Mat ℝ) (d : MVN ℝ) (h : MVN.new mean cov = some d) (hw : cov.WF)
    (hsq : cov.nrows = cov.ncols) (hk : 0 < cov.ncols) :
    d.det = (toMatrix cov.ncols cov.data).det ∧
    ((toMatrix cov.ncols cov.data).det ≠ 0 →
      d.inv.nrows = cov.ncols ∧ d.inv.ncols = cov.ncols ∧ d.inv.WF ∧
      ∀ i, i < cov.ncols → ∀ c, c < cov.ncols →
        ∑ j ∈ Finset.range cov.ncols, LA.M.g cov i j * LA.M.g d.inv j c = if i = c then 1 else 0) := by
  obtain ⟨-, -, -, -, -, -, hinv, hdet⟩ := mvn_new_facts mean cov d h
  have habs : ∀ x : ℝ, Transc.abs x = |x| := fun _ => rfl
  refine ⟨?_, fun hne => ?_⟩
  · have := C11Review.matrix_det_eq_det habs cov hw hsq
    rw [hdet] at this
    exact Option.some.inj this
  · obtain ⟨X, hX, h1, h2, h3, h4⟩ :=
      C01Review.matrix_inv_total habs cov hw hsq hk (nonsingular_of_det _ _ hne)
    rw [hinv] at hX
    have : d.inv = X := Option.some.inj hX
    subst this
    exact ⟨h1, h2, h3, h4⟩

/-- **MVN density of a constructed object** in terms of the TRUE determinant: for `MVN::new mean Σ = some d` with `Σ` well-formed
`k × k`, `k ≥ 1`, `det Σ > 0` (true of every positive-definite `Σ`), `pdf x = exp (-½ q) / √((2π)^k det Σ)` where `q` is the quadratic
form of the cached inverse, which satisfies `Σ · P = I` by `mvn_new_cache`.  Still not proved: that success of the Cholesky
factorisation inside `new` implies `det Σ > 0` (it is a hypothesis here). -/
theorem mvn_pdf_of_new (mean : List ℝ) (cov : Mat ℝ) (d : MVN ℝ) (x : List ℝ) (h : MVN.new mean cov = some d)
    (hw : cov.WF) (hsq : cov.nrows = cov.ncols) (hk : 0 < cov.ncols) (hk64 : cov.ncols < 2 ^ 64)
    (hdet : 0 < (toMatrix cov.ncols cov.data).det) (hx : x.length = cov.ncols) :
    MVN.pdf RF d x = some (Real.exp (-(1 / 2) * mvnQuad d x cov.ncols) /
      Real.sqrt ((2 * Real.pi) ^ cov.ncols * (toMatrix cov.ncols cov.data).det)) := by
  obtain ⟨hm, hc, hlen, -, hpd, -, -, -⟩ := mvn_new_facts mean cov d h
  obtain ⟨hD, hI⟩ := mvn_new_cache mean cov d h hw hsq hk
  obtain ⟨h1, h2, h3, -⟩ := hI hdet.ne'
  rw [← hD]
  exact mvn_pdf_formula_partial erf d x cov.ncols hk hk64 (by rw [hc]; exact hpd) hx (by rw [hm]; exact hlen) h3 h1 h2
    (by rw [hD]; exact hdet)

/-- Non-vacuity of `mvn_pdf_of_new`: the 1-dimensional standard normal built by the constructor. -/
example : MVN.pdf RF (mvnEx 1) [0] = some (Real.exp (-(1 / 2) * mvnQuad (mvnEx 1) [0] 1) /
    Real.sqrt ((2 * Real.pi) ^ 1 * (toMatrix 1 ([1] : List ℝ)).det)) :=
  mvn_pdf_of_new erf [0] ⟨[1], 1, 1⟩ (mvnEx 1) [0] mvnEx_new (by simp [Mat.WF]) rfl (by norm_num) (by norm_num)
    (by simp [toMatrix, Matrix.det_unique, rd]) rfl

end mvnNew

end Cv.C02
