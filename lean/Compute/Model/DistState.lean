/-
# State model of the 13 univariate distributions of `/repo/src/distributions/*.rs`  (property C18)

Every distribution is a record with exactly the fields of the Rust struct, *including the cached
sub-sampler objects* (`Beta.alpha_gen/beta_gen : Gamma`, `ChiSquared.sampler : Gamma`,
`Gamma.normal_gen : Normal`, `Gamma.uniform_gen : Uniform`, `Exponential.rng : Uniform`,
`Gumbel.uniform_gen : Uniform`).  `new`, every `set_*` and `Distribution1D::update` are transcribed as the
exact sequence of checks, assignments and nested constructor / setter calls of the source:

* constructors return `Option` (`none` = panic),
* mutators return `(state', panicked)`; a panic in the middle of a mutator leaves exactly the fields
  that had been assigned before it (Rust `catch_unwind` semantics: no roll-back), e.g.
  `Beta::update(&[a, b])` = `self.set_alpha(a).set_beta(b)` with an invalid `b` leaves `alpha` (and
  `alpha_gen`) updated, and `params[1]` is only indexed after `set_alpha(params[0])` has returned.

The model is polymorphic in the scalar `α` (`Float` in the driver `Drv/C18.lean`; any linearly ordered
field in `Props/C18.lean`).  The comparisons are the ones of the source, literally (`alpha <= 0.`,
`sigma < 0.`, `lower > upper`, `!(0. ..=1.).contains(&p)`, `assert!(dof > 0.)`), so the `Float` instance
also reproduces the behaviour on NaN, although NaN is outside the scope of the theorems.

Integer parameters: `ChiSquared.dof : usize` and `Binomial.n : u64` are `Nat`, `DiscreteUniform.lower/upper :
i64` are `Int`.  The casts `params[i] as usize / as u64 / as i64` of the `update` methods are the class
`CastInt` (saturating, truncating casts at `Float`; uninterpreted in the theorems).

No Mathlib.
-/
namespace Cv.DS

/-- The `as` casts from `f64` used by `update`. -/
class CastInt (α : Type) where
  /-- `x as u64` and `x as usize` (64-bit target) -/
  toU64 : α → Nat
  /-- `x as i64` -/
  toI64 : α → Int

instance : CastInt Float where
  toU64 x := x.toUInt64.toNat
  toI64 x := x.toInt64.toInt

/-- A constructor / setter argument: `f64`, or an integer (`usize`, `u64`, `i64`). -/
inductive Arg (α : Type) where
  | real (x : α)
  | int (i : Int)

/-! ## The records -/

structure Uniform (α : Type) where
  lower : α
  upper : α

structure Normal (α : Type) where
  mu : α
  sigma : α

structure Gamma (α : Type) where
  alpha : α
  beta : α
  normal_gen : Normal α
  uniform_gen : Uniform α

structure Beta (α : Type) where
  alpha : α
  beta : α
  alpha_gen : Gamma α
  beta_gen : Gamma α

structure ChiSquared (α : Type) where
  dof : Nat
  sampler : Gamma α

structure Exponential (α : Type) where
  lambda : α
  rng : Uniform α

structure Gumbel (α : Type) where
  mu : α
  beta : α
  uniform_gen : Uniform α

structure Pareto (α : Type) where
  alpha : α
  minval : α

structure Poisson (α : Type) where
  lambda : α

structure T (α : Type) where
  dof : α

structure Bernoulli (α : Type) where
  p : α

structure Binomial (α : Type) where
  n : Nat
  p : α

structure DiscreteUniform where
  lower : Int
  upper : Int

section
variable {α : Type} [Zero α] [One α] [Div α] [NatCast α] [LT α] [LE α] [DecidableLT α] [DecidableLE α]
  [CastInt α]

/-! ## Uniform (`uniform.rs`) -/

/-- `Uniform::new`: `if lower > upper { panic!() }`. -/
def Uniform.new (lower upper : α) : Option (Uniform α) :=
  if lower > upper then none else some ⟨lower, upper⟩

/-- `set_lower`: `if lower > self.upper { panic!() } self.lower = lower`. -/
def Uniform.setLower (d : Uniform α) (lower : α) : Uniform α × Bool :=
  if lower > d.upper then (d, true) else ({ d with lower := lower }, false)

/-- `set_upper`: `if self.lower > upper { panic!() } self.upper = upper`. -/
def Uniform.setUpper (d : Uniform α) (upper : α) : Uniform α × Bool :=
  if d.lower > upper then (d, true) else ({ d with upper := upper }, false)

/-- `update`: `*self = Self::new(params[0], params[1])` (repaired F35: validated as a pair). -/
def Uniform.update (d : Uniform α) (ps : List α) : Uniform α × Bool :=
  match ps[0]?, ps[1]? with
  | some a, some b =>
    match Uniform.new a b with
    | some d' => (d', false)
    | none => (d, true)
  | _, _ => (d, true)

/-! ## Normal (`normal.rs`) -/

/-- `Normal::new`: `if sigma < 0. { panic!() }`. -/
def Normal.new (mu sigma : α) : Option (Normal α) :=
  if sigma < 0 then none else some ⟨mu, sigma⟩

def Normal.setMu (d : Normal α) (mu : α) : Normal α × Bool := ({ d with mu := mu }, false)

def Normal.setSigma (d : Normal α) (sigma : α) : Normal α × Bool :=
  if sigma < 0 then (d, true) else ({ d with sigma := sigma }, false)

/-- `update`: `self.set_mu(params[0]).set_sigma(params[1])`. -/
def Normal.update (d : Normal α) (ps : List α) : Normal α × Bool :=
  match ps[0]? with
  | none => (d, true)
  | some a =>
    let d := (d.setMu a).1
    match ps[1]? with
    | none => (d, true)
    | some b => d.setSigma b

/-! ## Gamma (`gamma.rs`) -/

/-- `Gamma::new`: `if alpha <= 0. || beta <= 0. { panic!() }`, then the struct literal with
`Normal::new(0., 1.)` and `Uniform::new(0., 1.)`. -/
def Gamma.new (alpha beta : α) : Option (Gamma α) :=
  if alpha ≤ 0 ∨ beta ≤ 0 then none
  else
    match Normal.new (0 : α) 1, Uniform.new (0 : α) 1 with
    | some n, some u => some ⟨alpha, beta, n, u⟩
    | _, _ => none

def Gamma.setAlpha (d : Gamma α) (alpha : α) : Gamma α × Bool :=
  if alpha ≤ 0 then (d, true) else ({ d with alpha := alpha }, false)

def Gamma.setBeta (d : Gamma α) (beta : α) : Gamma α × Bool :=
  if beta ≤ 0 then (d, true) else ({ d with beta := beta }, false)

/-- `update`: `self.set_alpha(params[0]).set_beta(params[1])`. -/
def Gamma.update (d : Gamma α) (ps : List α) : Gamma α × Bool :=
  match ps[0]? with
  | none => (d, true)
  | some a =>
    let r := d.setAlpha a
    if r.2 then r
    else
      match ps[1]? with
      | none => (r.1, true)
      | some b => r.1.setBeta b

/-! ## Beta (`beta.rs`) -/

/-- `Beta::new`: check, then the struct literal with `Gamma::new(alpha, 1.)`, `Gamma::new(beta, 1.)`. -/
def Beta.new (alpha beta : α) : Option (Beta α) :=
  if alpha ≤ 0 ∨ beta ≤ 0 then none
  else
    match Gamma.new alpha (1 : α), Gamma.new beta (1 : α) with
    | some ga, some gb => some ⟨alpha, beta, ga, gb⟩
    | _, _ => none

/-- `set_alpha`: check; `self.alpha = alpha; self.alpha_gen = Gamma::new(alpha, 1.)`. -/
def Beta.setAlpha (d : Beta α) (alpha : α) : Beta α × Bool :=
  if alpha ≤ 0 then (d, true)
  else
    let d := { d with alpha := alpha }
    match Gamma.new alpha (1 : α) with
    | some g => ({ d with alpha_gen := g }, false)
    | none => (d, true)

/-- `set_beta`: check; `self.beta = beta; self.beta_gen = Gamma::new(beta, 1.)`. -/
def Beta.setBeta (d : Beta α) (beta : α) : Beta α × Bool :=
  if beta ≤ 0 then (d, true)
  else
    let d := { d with beta := beta }
    match Gamma.new beta (1 : α) with
    | some g => ({ d with beta_gen := g }, false)
    | none => (d, true)

/-- `update`: `self.set_alpha(params[0]).set_beta(params[1])`. -/
def Beta.update (d : Beta α) (ps : List α) : Beta α × Bool :=
  match ps[0]? with
  | none => (d, true)
  | some a =>
    let r := d.setAlpha a
    if r.2 then r
    else
      match ps[1]? with
      | none => (r.1, true)
      | some b => r.1.setBeta b

/-! ## ChiSquared (`chi_squared.rs`) -/

/-- The sampler a `ChiSquared` with `dof` degrees of freedom carries: `Gamma::new((dof as f64) / 2., 0.5)`. -/
def ChiSquared.mkSampler (dof : Nat) : Option (Gamma α) :=
  Gamma.new ((dof : α) / ((2 : Nat) : α)) ((1 : α) / ((2 : Nat) : α))

/-- `ChiSquared::new`: `assert!(dof > 0)`, then the struct literal. -/
def ChiSquared.new (dof : Nat) : Option (ChiSquared α) :=
  if 0 < dof then
    match ChiSquared.mkSampler (α := α) dof with
    | some g => some ⟨dof, g⟩
    | none => none
  else none

/-- `set_dof` (repaired F32): assert; `self.dof = dof; self.sampler = Gamma::new(…)`. -/
def ChiSquared.setDof (d : ChiSquared α) (dof : Nat) : ChiSquared α × Bool :=
  if 0 < dof then
    let d := { d with dof := dof }
    match ChiSquared.mkSampler (α := α) dof with
    | some g => ({ d with sampler := g }, false)
    | none => (d, true)
  else (d, true)

/-- `update`: `self.set_dof(params[0] as usize)`. -/
def ChiSquared.update (d : ChiSquared α) (ps : List α) : ChiSquared α × Bool :=
  match ps[0]? with
  | none => (d, true)
  | some a => d.setDof (CastInt.toU64 a)

/-! ## Exponential (`exponential.rs`) -/

def Exponential.new (lambda : α) : Option (Exponential α) :=
  if lambda ≤ 0 then none
  else
    match Uniform.new (0 : α) 1 with
    | some u => some ⟨lambda, u⟩
    | none => none

def Exponential.setLambda (d : Exponential α) (lambda : α) : Exponential α × Bool :=
  if lambda ≤ 0 then (d, true) else ({ d with lambda := lambda }, false)

def Exponential.update (d : Exponential α) (ps : List α) : Exponential α × Bool :=
  match ps[0]? with
  | none => (d, true)
  | some a => d.setLambda a

/-! ## Gumbel (`gumbel.rs`) -/

def Gumbel.new (mu beta : α) : Option (Gumbel α) :=
  if beta ≤ 0 then none
  else
    match Uniform.new (0 : α) 1 with
    | some u => some ⟨mu, beta, u⟩
    | none => none

def Gumbel.setMu (d : Gumbel α) (mu : α) : Gumbel α × Bool := ({ d with mu := mu }, false)

def Gumbel.setBeta (d : Gumbel α) (beta : α) : Gumbel α × Bool :=
  if beta ≤ 0 then (d, true) else ({ d with beta := beta }, false)

/-- `update`: `self.set_mu(params[0]).set_beta(params[1])`. -/
def Gumbel.update (d : Gumbel α) (ps : List α) : Gumbel α × Bool :=
  match ps[0]? with
  | none => (d, true)
  | some a =>
    let d := (d.setMu a).1
    match ps[1]? with
    | none => (d, true)
    | some b => d.setBeta b

/-! ## Pareto (`pareto.rs`) -/

def Pareto.new (alpha minval : α) : Option (Pareto α) :=
  if alpha ≤ 0 ∨ minval ≤ 0 then none else some ⟨alpha, minval⟩

def Pareto.setAlpha (d : Pareto α) (alpha : α) : Pareto α × Bool :=
  if alpha ≤ 0 then (d, true) else ({ d with alpha := alpha }, false)

def Pareto.setMinval (d : Pareto α) (minval : α) : Pareto α × Bool :=
  if minval ≤ 0 then (d, true) else ({ d with minval := minval }, false)

/-- `update`: `assert!(params.len() == 2); self.set_alpha(params[0]).set_minval(params[1])`. -/
def Pareto.update (d : Pareto α) (ps : List α) : Pareto α × Bool :=
  match ps with
  | [a, b] =>
    let r := d.setAlpha a
    if r.2 then r else r.1.setMinval b
  | _ => (d, true)

/-! ## Poisson (`poisson.rs`) -/

def Poisson.new (lambda : α) : Option (Poisson α) :=
  if lambda ≤ 0 then none else some ⟨lambda⟩

def Poisson.setLambda (d : Poisson α) (lambda : α) : Poisson α × Bool :=
  if lambda ≤ 0 then (d, true) else ({ d with lambda := lambda }, false)

def Poisson.update (d : Poisson α) (ps : List α) : Poisson α × Bool :=
  match ps[0]? with
  | none => (d, true)
  | some a => d.setLambda a

/-! ## T (`t.rs`) -/

/-- `T::new`: `assert!(dof > 0.)`. -/
def T.new (dof : α) : Option (T α) :=
  if dof > 0 then some ⟨dof⟩ else none

def T.setDof (d : T α) (dof : α) : T α × Bool :=
  if dof > 0 then ({ d with dof := dof }, false) else (d, true)

def T.update (d : T α) (ps : List α) : T α × Bool :=
  match ps[0]? with
  | none => (d, true)
  | some a => d.setDof a

/-! ## Bernoulli (`bernoulli.rs`) -/

/-- `Bernoulli::new`: `if !(0. ..=1.).contains(&p) { panic!() }`. -/
def Bernoulli.new (p : α) : Option (Bernoulli α) :=
  if 0 ≤ p ∧ p ≤ 1 then some ⟨p⟩ else none

def Bernoulli.setP (d : Bernoulli α) (p : α) : Bernoulli α × Bool :=
  if 0 ≤ p ∧ p ≤ 1 then ({ d with p := p }, false) else (d, true)

def Bernoulli.update (d : Bernoulli α) (ps : List α) : Bernoulli α × Bool :=
  match ps[0]? with
  | none => (d, true)
  | some a => d.setP a

/-! ## Binomial (`binomial.rs`) -/

def Binomial.new (n : Nat) (p : α) : Option (Binomial α) :=
  if 0 ≤ p ∧ p ≤ 1 then some ⟨n, p⟩ else none

def Binomial.setN (d : Binomial α) (n : Nat) : Binomial α × Bool := ({ d with n := n }, false)

def Binomial.setP (d : Binomial α) (p : α) : Binomial α × Bool :=
  if 0 ≤ p ∧ p ≤ 1 then ({ d with p := p }, false) else (d, true)

/-- `update`: `self.set_n(params[0] as u64); self.set_p(params[1]);`. -/
def Binomial.update (d : Binomial α) (ps : List α) : Binomial α × Bool :=
  match ps[0]? with
  | none => (d, true)
  | some a =>
    let d := (d.setN (CastInt.toU64 a)).1
    match ps[1]? with
    | none => (d, true)
    | some b => d.setP b

/-! ## DiscreteUniform (`discreteuniform.rs`) -/

def DiscreteUniform.new (lower upper : Int) : Option DiscreteUniform :=
  if lower > upper then none else some ⟨lower, upper⟩

def DiscreteUniform.setLower (d : DiscreteUniform) (lower : Int) : DiscreteUniform × Bool :=
  if lower > d.upper then (d, true) else ({ d with lower := lower }, false)

def DiscreteUniform.setUpper (d : DiscreteUniform) (upper : Int) : DiscreteUniform × Bool :=
  if d.lower > upper then (d, true) else ({ d with upper := upper }, false)

/-- `update`: `*self = Self::new(params[0] as i64, params[1] as i64)` (repaired F35). -/
def DiscreteUniform.update (d : DiscreteUniform) (ps : List α) : DiscreteUniform × Bool :=
  match ps[0]?, ps[1]? with
  | some a, some b =>
    match DiscreteUniform.new (CastInt.toI64 a) (CastInt.toI64 b) with
    | some d' => (d', false)
    | none => (d, true)
  | _, _ => (d, true)

end

/-! ## Uniform encoding: one type for the 13 distributions, one type of operations -/

inductive Kind where
  | bernoulli | beta | binomial | chisquared | discreteuniform | exponential | gamma | gumbel | normal
  | pareto | poisson | t | uniform
  deriving DecidableEq, Repr

inductive Dist (α : Type) where
  | bernoulli (d : Bernoulli α)
  | beta (d : Beta α)
  | binomial (d : Binomial α)
  | chisquared (d : ChiSquared α)
  | discreteuniform (d : DiscreteUniform)
  | exponential (d : Exponential α)
  | gamma (d : Gamma α)
  | gumbel (d : Gumbel α)
  | normal (d : Normal α)
  | pareto (d : Pareto α)
  | poisson (d : Poisson α)
  | t (d : T α)
  | uniform (d : Uniform α)

/-- One call on an existing object.
`new args`: `obj = Dist::new(args…)` of the same kind (a panic keeps the old object);
`set i a`: the `i`-th setter in declaration order; `update ps`: `Distribution1D::update(&ps)`. -/
inductive Op (α : Type) where
  | new (args : List (Arg α))
  | set (i : Nat) (a : Arg α)
  | update (ps : List α)

section
variable {α : Type}

def Dist.kind : Dist α → Kind
  | .bernoulli _ => .bernoulli | .beta _ => .beta | .binomial _ => .binomial
  | .chisquared _ => .chisquared | .discreteuniform _ => .discreteuniform
  | .exponential _ => .exponential | .gamma _ => .gamma | .gumbel _ => .gumbel | .normal _ => .normal
  | .pareto _ => .pareto | .poisson _ => .poisson | .t _ => .t | .uniform _ => .uniform

/-- The parameters of an object = the arguments its constructor takes. -/
def Dist.params : Dist α → List (Arg α)
  | .bernoulli d => [.real d.p]
  | .beta d => [.real d.alpha, .real d.beta]
  | .binomial d => [.int d.n, .real d.p]
  | .chisquared d => [.int d.dof]
  | .discreteuniform d => [.int d.lower, .int d.upper]
  | .exponential d => [.real d.lambda]
  | .gamma d => [.real d.alpha, .real d.beta]
  | .gumbel d => [.real d.mu, .real d.beta]
  | .normal d => [.real d.mu, .real d.sigma]
  | .pareto d => [.real d.alpha, .real d.minval]
  | .poisson d => [.real d.lambda]
  | .t d => [.real d.dof]
  | .uniform d => [.real d.lower, .real d.upper]

def Uniform.flat (d : Uniform α) : List (Arg α) := [.real d.lower, .real d.upper]
def Normal.flat (d : Normal α) : List (Arg α) := [.real d.mu, .real d.sigma]
def Gamma.flat (d : Gamma α) : List (Arg α) :=
  [.real d.alpha, .real d.beta] ++ d.normal_gen.flat ++ d.uniform_gen.flat

/-- Every number of the record in field order (the order of the `Debug` rendering): parameters first,
then the cached sub-samplers. -/
def Dist.flat : Dist α → List (Arg α)
  | .beta d => [.real d.alpha, .real d.beta] ++ d.alpha_gen.flat ++ d.beta_gen.flat
  | .chisquared d => [.int d.dof] ++ d.sampler.flat
  | .exponential d => [.real d.lambda] ++ d.rng.flat
  | .gamma d => d.flat
  | .gumbel d => [.real d.mu, .real d.beta] ++ d.uniform_gen.flat
  | d => d.params

end

section
variable {α : Type} [Zero α] [One α] [Div α] [NatCast α] [LT α] [LE α] [DecidableLT α] [DecidableLE α]
  [CastInt α]

/-- The constructor of kind `k` on typed arguments.  `none` = panic (or arguments that do not have the
types of the Rust signature: such a call does not compile).  `usize`/`u64` arguments are read with
`Int.toNat`. -/
def newD : Kind → List (Arg α) → Option (Dist α)
  | .bernoulli, [.real p] => (Bernoulli.new p).map .bernoulli
  | .beta, [.real a, .real b] => (Beta.new a b).map .beta
  | .binomial, [.int n, .real p] => (Binomial.new n.toNat p).map .binomial
  | .chisquared, [.int n] => (ChiSquared.new n.toNat).map .chisquared
  | .discreteuniform, [.int a, .int b] => (DiscreteUniform.new a b).map .discreteuniform
  | .exponential, [.real l] => (Exponential.new l).map .exponential
  | .gamma, [.real a, .real b] => (Gamma.new a b).map .gamma
  | .gumbel, [.real m, .real b] => (Gumbel.new m b).map .gumbel
  | .normal, [.real m, .real s] => (Normal.new m s).map .normal
  | .pareto, [.real a, .real m] => (Pareto.new a m).map .pareto
  | .poisson, [.real l] => (Poisson.new l).map .poisson
  | .t, [.real d] => (T.new d).map .t
  | .uniform, [.real a, .real b] => (Uniform.new a b).map .uniform
  | _, _ => none

/-- Lift a mutator result into `Dist`. -/
def lift {σ : Type} (c : σ → Dist α) (r : σ × Bool) : Dist α × Bool := (c r.1, r.2)

/-- Setter number `i` (declaration order in the source) with argument `a`.  A setter that does not exist,
or an argument of the wrong type, is not a call that compiles: modelled as "nothing happens". -/
def setD (d : Dist α) (i : Nat) (a : Arg α) : Dist α × Bool :=
  match d with
  | .bernoulli d => match i, a with
    | 0, .real x => lift .bernoulli (d.setP x)
    | _, _ => (.bernoulli d, false)
  | .beta d => match i, a with
    | 0, .real x => lift .beta (d.setAlpha x)
    | 1, .real x => lift .beta (d.setBeta x)
    | _, _ => (.beta d, false)
  | .binomial d => match i, a with
    | 0, .int n => lift .binomial (d.setN n.toNat)
    | 1, .real x => lift .binomial (d.setP x)
    | _, _ => (.binomial d, false)
  | .chisquared d => match i, a with
    | 0, .int n => lift .chisquared (d.setDof n.toNat)
    | _, _ => (.chisquared d, false)
  | .discreteuniform d => match i, a with
    | 0, .int n => lift .discreteuniform (d.setLower n)
    | 1, .int n => lift .discreteuniform (d.setUpper n)
    | _, _ => (.discreteuniform d, false)
  | .exponential d => match i, a with
    | 0, .real x => lift .exponential (d.setLambda x)
    | _, _ => (.exponential d, false)
  | .gamma d => match i, a with
    | 0, .real x => lift .gamma (d.setAlpha x)
    | 1, .real x => lift .gamma (d.setBeta x)
    | _, _ => (.gamma d, false)
  | .gumbel d => match i, a with
    | 0, .real x => lift .gumbel (d.setMu x)
    | 1, .real x => lift .gumbel (d.setBeta x)
    | _, _ => (.gumbel d, false)
  | .normal d => match i, a with
    | 0, .real x => lift .normal (d.setMu x)
    | 1, .real x => lift .normal (d.setSigma x)
    | _, _ => (.normal d, false)
  | .pareto d => match i, a with
    | 0, .real x => lift .pareto (d.setAlpha x)
    | 1, .real x => lift .pareto (d.setMinval x)
    | _, _ => (.pareto d, false)
  | .poisson d => match i, a with
    | 0, .real x => lift .poisson (d.setLambda x)
    | _, _ => (.poisson d, false)
  | .t d => match i, a with
    | 0, .real x => lift .t (d.setDof x)
    | _, _ => (.t d, false)
  | .uniform d => match i, a with
    | 0, .real x => lift .uniform (d.setLower x)
    | 1, .real x => lift .uniform (d.setUpper x)
    | _, _ => (.uniform d, false)

/-- `Distribution1D::update(&ps)`. -/
def updateD (d : Dist α) (ps : List α) : Dist α × Bool :=
  match d with
  | .bernoulli d => lift .bernoulli (d.update ps)
  | .beta d => lift .beta (d.update ps)
  | .binomial d => lift .binomial (d.update ps)
  | .chisquared d => lift .chisquared (d.update ps)
  | .discreteuniform d => lift .discreteuniform (d.update ps)
  | .exponential d => lift .exponential (d.update ps)
  | .gamma d => lift .gamma (d.update ps)
  | .gumbel d => lift .gumbel (d.update ps)
  | .normal d => lift .normal (d.update ps)
  | .pareto d => lift .pareto (d.update ps)
  | .poisson d => lift .poisson (d.update ps)
  | .t d => lift .t (d.update ps)
  | .uniform d => lift .uniform (d.update ps)

/-- What `update` does to its `f64` slice before the values reach the setters / the constructor:
indexing (`none` = out of bounds; `Pareto` asserts `len == 2`) and the integer casts. -/
def castArgs : Kind → List α → Option (List (Arg α))
  | .bernoulli, p :: _ => some [.real p]
  | .beta, a :: b :: _ => some [.real a, .real b]
  | .binomial, n :: p :: _ => some [.int (CastInt.toU64 n), .real p]
  | .chisquared, n :: _ => some [.int (CastInt.toU64 n)]
  | .discreteuniform, a :: b :: _ => some [.int (CastInt.toI64 a), .int (CastInt.toI64 b)]
  | .exponential, l :: _ => some [.real l]
  | .gamma, a :: b :: _ => some [.real a, .real b]
  | .gumbel, m :: b :: _ => some [.real m, .real b]
  | .normal, m :: s :: _ => some [.real m, .real s]
  | .pareto, [a, m] => some [.real a, .real m]
  | .poisson, l :: _ => some [.real l]
  | .t, d :: _ => some [.real d]
  | .uniform, a :: b :: _ => some [.real a, .real b]
  | _, _ => none

/-- The object a fresh constructor call builds from an `update` slice. -/
def newOfSlice (k : Kind) (ps : List α) : Option (Dist α) :=
  match castArgs k ps with
  | some args => newD k args
  | none => none

/-- The arguments `impl Default for X` passes to `X::new` (every one of the 13 `Default` impls is `Self::new(<these>)`:
`Bernoulli 0.5`, `Beta 1 1`, `Binomial 1 0.5`, `ChiSquared 1`, `DiscreteUniform 0 1`, `Exponential 1`, `Gamma 1 1`, `Gumbel 0 1`,
`Normal 0 1`, `Pareto 1 1`, `Poisson 1`, `T 1`, `Uniform 0 1`). -/
def defaultArgs : Kind → List (Arg α)
  | .bernoulli => [.real ((1 : α) / ((2 : Nat) : α))]
  | .beta => [.real 1, .real 1]
  | .binomial => [.int 1, .real ((1 : α) / ((2 : Nat) : α))]
  | .chisquared => [.int 1]
  | .discreteuniform => [.int 0, .int 1]
  | .exponential => [.real 1]
  | .gamma => [.real 1, .real 1]
  | .gumbel => [.real 0, .real 1]
  | .normal => [.real 0, .real 1]
  | .pareto => [.real 1, .real 1]
  | .poisson => [.real 1]
  | .t => [.real 1]
  | .uniform => [.real 0, .real 1]

/-- `X::default()`: the constructor on the default arguments (so the default object carries the sub-samplers the
constructor installs).  `Clone` / `Copy` of a record is the identity on the model. -/
def defaultD (k : Kind) : Option (Dist α) := newD k (defaultArgs k)

/-- One operation on an object: new state and whether the call panicked. -/
def step (d : Dist α) : Op α → Dist α × Bool
  | .new args =>
    match newD d.kind args with
    | some d' => (d', false)
    | none => (d, true)
  | .set i a => setD d i a
  | .update ps => updateD d ps

/-- The object after a history of calls, panics caught. -/
def run (d : Dist α) (h : List (Op α)) : Dist α := h.foldl (fun d op => (step d op).1) d

/-- The twin: a fresh object built from the current parameters. -/
def fresh (d : Dist α) : Option (Dist α) := newD d.kind d.params

end

end Cv.DS
