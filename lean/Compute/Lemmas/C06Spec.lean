import Compute.Lemmas.C06Basic
import Compute.Props.C05
/-
Entry-level specifications of the pieces of the GLM scoring step (`Model/Glm.lean`) over a field, with
`exp`, `ln`, `sqrt`, `abs` abstract (any `Transc` instance).
-/
set_option linter.unusedSectionVars false
namespace Cv.C06L
open Cv Cv.Vops Cv.Glm Cv.C05L

variable {α : Type} [Field α] [LT α] [DecidableLT α] [BEq α] [Transc α] [GlmScalar α] [Inhabited α]

/-- `w_i (y_i - mu_i) (dmu_i / var_i)` -/
def wres (y mu dmu var w : List α) (i : Nat) : α := w[i]! * (y[i]! - mu[i]!) * (dmu[i]! / var[i]!)

/-- `w_i dmu_i² / var_i` -/
def wwt (dmu var w : List α) (i : Nat) : α := w[i]! * (dmu[i]! * dmu[i]!) / var[i]!

theorem workingResiduals_spec (y mu dmu var w : List α) (n : Nat)
    (hy : y.length = n) (hmu : mu.length = n) (hd : dmu.length = n) (hv : var.length = n) (hw : w.length = n) :
    ∃ r, workingResiduals y mu dmu var w = some r ∧ r.length = n ∧ ∀ i, i < n → r[i]! = wres y mu dmu var w i := by
  refine ⟨List.zipWith (· * ·) (List.zipWith (· * ·) w (List.zipWith (· - ·) y mu)) (List.zipWith (· / ·) dmu var), ?_, ?_, ?_⟩
  · unfold workingResiduals
    rw [vbin_eq _ y mu (by omega)]
    simp only [Option.bind_eq_bind, Option.bind_some]
    rw [vbin_eq _ w _ (by simp; omega)]
    simp only [Option.bind_some]
    rw [vbin_eq _ dmu var (by omega)]
    simp only [Option.bind_some]
    rw [vbin_eq _ _ _ (by simp; omega)]
  · simp; omega
  · intro i hi
    rw [getBang_zipWith _ _ _ i (by simp; omega) (by simp; omega),
      getBang_zipWith _ _ _ i (by omega) (by simp; omega),
      getBang_zipWith _ _ _ i (by omega) (by omega),
      getBang_zipWith _ _ _ i (by omega) (by omega)]
    rfl

theorem workingWeights_spec (dmu var w : List α) (n : Nat)
    (hd : dmu.length = n) (hv : var.length = n) (hw : w.length = n) :
    ∃ r, workingWeights dmu var w = some r ∧ r.length = n ∧ ∀ i, i < n → r[i]! = wwt dmu var w i := by
  refine ⟨List.zipWith (· / ·) (List.zipWith (· * ·) w (List.zipWith (· * ·) dmu dmu)) var, ?_, ?_, ?_⟩
  · unfold workingWeights
    rw [vbin_eq _ dmu dmu rfl]
    simp only [Option.bind_eq_bind, Option.bind_some]
    rw [vbin_eq _ w _ (by simp; omega)]
    simp only [Option.bind_some]
    rw [vbin_eq _ _ var (by simp; omega)]
  · simp; omega
  · intro i hi
    rw [getBang_zipWith _ _ _ i (by simp; omega) (by omega),
      getBang_zipWith _ _ _ i (by omega) (by simp; omega),
      getBang_zipWith _ _ _ i (by omega) (by omega)]
    rfl

theorem dbetaCell_eq (X R : Array α) (n p j : Nat) :
    dbetaCell X R n p j = - ∑ i ∈ Finset.range n, X[i * p + j]! * R[i]! := by
  unfold dbetaCell
  induction n with
  | zero => simp
  | succ n ih =>
    rw [List.range_succ, List.foldl_append, ih, Finset.sum_range_succ]
    simp only [List.foldl_cons, List.foldl_nil]
    ring

/-- **compute_dbeta**: component `j` is `-Σ_i x_ij · w_i (y_i - mu_i) dmu_i / var_i`. -/
theorem computeDbeta_spec (x y mu dmu var w : List α) (n p : Nat) (hn : 0 < n) (hx : x.length = n * p)
    (hy : y.length = n) (hmu : mu.length = n) (hd : dmu.length = n) (hv : var.length = n) (hw : w.length = n) :
    ∃ g, computeDbeta x y mu dmu var w = some g ∧ g.length = p ∧
      ∀ j, j < p → g[j]! = - ∑ i ∈ Finset.range n, x[i * p + j]! * wres y mu dmu var w i := by
  obtain ⟨r, hr, hrl, hre⟩ := workingResiduals_spec y mu dmu var w n hy hmu hd hv hw
  refine ⟨(List.range p).map fun j => dbetaCell x.toArray r.toArray n p j, ?_, by simp, ?_⟩
  · simp only [computeDbeta, hy, isMatrix_of_len hx hn, hr, Option.bind_eq_bind, Option.bind_some, Option.pure_def]
  · intro j hj
    rw [getBang_rangeMap _ _ _ hj, dbetaCell_eq]
    congr 1
    apply Finset.sum_congr rfl
    intro i hi
    rw [toArray_getBang, toArray_getBang, hre i (Finset.mem_range.mp hi)]

theorem weightedX_length (x ww : List α) (p : Nat) : (weightedX x ww p).length = x.length := by
  simp [weightedX]

theorem weightedX_get (x ww : List α) (n p i j : Nat) (hx : x.length = n * p) (hi : i < n) (hj : j < p) :
    (weightedX x ww p)[i * p + j]! = x[i * p + j]! * ww[i]! := by
  unfold weightedX
  rw [getBang_rangeMap _ _ _ (by rw [hx]; exact Cv.Mat.idx_lt hi hj), toArray_getBang, toArray_getBang, idx_div hj]

/-- **compute_ddbeta** `= Xᵀ diag(w_i dmu_i² / var_i) X` (entry formula). -/
theorem computeDdbeta_spec (x dmu var w : List α) (n p : Nat) (hn : 0 < n) (hx : x.length = n * p)
    (hd : dmu.length = n) (hv : var.length = n) (hw : w.length = n) :
    ∃ H, computeDdbeta x dmu var w = some H ∧ H.length = p * p ∧
      ∀ a b, a < p → b < p →
        H[a * p + b]! = ∑ i ∈ Finset.range n, x[i * p + a]! * (x[i * p + b]! * wwt dmu var w i) := by
  obtain ⟨ww, hww, hwl, hwe⟩ := workingWeights_spec dmu var w n hd hv hw
  obtain ⟨c, hc, hcl, hce⟩ := Cv.C05.matmul_spec_TN x (weightedX x ww p) p n p hx
    (by rw [weightedX_length, hx]) hn
  refine ⟨c, ?_, hcl, ?_⟩
  · simp only [computeDdbeta, hd, isMatrix_of_len hx hn, hww, Option.bind_eq_bind, Option.bind_some]
    exact hc
  · intro a b ha hb
    rw [hce a b ha hb]
    apply Finset.sum_congr rfl
    intro i hi
    have hi' := Finset.mem_range.mp hi
    rw [weightedX_get x ww n p i b hx hi' hb, hwe i hi']

/-- **apply_dbeta_penalty**: `+ α β_j` on the components `j ≥ 1`, the intercept component unchanged. -/
theorem applyDbetaPenalty_spec (alpha : α) (g coef : List α) :
    (applyDbetaPenalty alpha g coef).length = g.length ∧
    ∀ j, j < g.length → (applyDbetaPenalty alpha g coef)[j]! = if j = 0 then g[j]! else g[j]! + alpha * coef[j]! := by
  refine ⟨by simp [applyDbetaPenalty], ?_⟩
  intro j hj
  unfold applyDbetaPenalty
  rw [getBang_rangeMap _ _ _ hj, toArray_getBang, toArray_getBang]

/-- **apply_ddbeta_penalty**: `+ α` on every diagonal entry (the intercept's included), nothing else. -/
theorem applyDdbetaPenalty_spec (alpha : α) (H : List α) (p : Nat) (hH : H.length = p * p) :
    (applyDdbetaPenalty alpha H p).length = p * p ∧
    ∀ a b, a < p → b < p →
      (applyDdbetaPenalty alpha H p)[a * p + b]! = if a = b then H[a * p + b]! + alpha else H[a * p + b]! := by
  refine ⟨by simp [applyDdbetaPenalty, hH], ?_⟩
  intro a b ha hb
  unfold applyDdbetaPenalty
  rw [getBang_rangeMap _ _ _ (by rw [hH]; exact Cv.Mat.idx_lt ha hb), toArray_getBang, idx_div hb, idx_mod hb]

/-- the offset of observation `i` (`0` without offsets) -/
def offAt (off : Option (List α)) (i : Nat) : α :=
  match off with
  | some o => o[i]!
  | none => 0

/-- **eta** `= X β (+ offset)`. -/
theorem linearPredictor_spec (x coef : List α) (n p : Nat) (off : Option (List α)) (hn : 0 < n) (hp : 0 < p)
    (hx : x.length = n * p) (hc : coef.length = p) (ho : ∀ o, off = some o → o.length = n) :
    ∃ eta, linearPredictor x coef n p off = some eta ∧ eta.length = n ∧
      ∀ i, i < n → eta[i]! = (∑ j ∈ Finset.range p, x[i * p + j]! * coef[j]!) + offAt off i := by
  obtain ⟨c, hcm, hcl, hce⟩ := Cv.C05.matmul_spec_NN x coef n p 1 hx (by simpa using hc) hn hp
  have hce' : ∀ i, i < n → c[i]! = ∑ j ∈ Finset.range p, x[i * p + j]! * coef[j]! := by
    intro i hi
    have := hce i 0 hi (by omega)
    simpa using this
  cases off with
  | none =>
    refine ⟨c, ?_, by simpa using hcl, ?_⟩
    · unfold linearPredictor; rw [hcm]; rfl
    · intro i hi; rw [hce' i hi]; simp [offAt]
  | some o =>
    have hol := ho o rfl
    refine ⟨List.zipWith (· + ·) c o, ?_, by simp; omega, ?_⟩
    · unfold linearPredictor
      rw [hcm]
      simp only [Option.bind_eq_bind, Option.bind_some]
      rw [if_neg (by simpa using hol), vbin_eq _ c o (by omega)]
    · intro i hi
      rw [getBang_zipWith _ _ _ i (by omega) (by omega), hce' i hi]; rfl

/-! ### the families -/

theorem mOneMinusM_eq (m : List α) : mOneMinusM m = m.map fun v => v * (1 - v) := by
  unfold mOneMinusM
  rw [Cv.C04.vbinGo_eq, Cv.C04.sv_eq]
  apply ext_getBang
  · simp
  · intro i hi
    have hi' : i < m.length := by simpa using hi
    rw [getBang_zipWith _ _ _ i hi' (by simpa using hi'), getBang_map _ _ _ hi', getBang_map _ _ _ hi']

theorem mulSelf_eq (m : List α) : Vops.vbinGo (· * ·) m m = m.map fun v => v * v := by
  rw [Cv.C04.vbinGo_eq]
  apply ext_getBang
  · simp
  · intro i hi
    have hi' : i < m.length := by simpa using hi
    rw [getBang_zipWith _ _ _ i hi' hi', getBang_map _ _ _ hi']

/-- textbook inverse link -/
def invLinkF (f : Family) (e : α) : α :=
  match f with
  | .gaussian => e
  | .bernoulli => 1 / (1 + Transc.exp (-e))
  | _ => Transc.exp e

/-- textbook variance function -/
def varianceF (f : Family) (m : α) : α :=
  match f with
  | .gaussian => 1
  | .bernoulli => m * (1 - m)
  | .quasiPoisson | .poisson => m
  | .gamma | .exponential => m * m

/-- derivative of the inverse link, expressed through the mean -/
def dInvLinkF (f : Family) (m : α) : α :=
  match f with
  | .gaussian => 1
  | .bernoulli => m * (1 - m)
  | _ => m

theorem map_eq_self (f : α → α) (l : List α) (h : ∀ a, f a = a) : l = l.map f := by
  rw [show f = id from funext h]; simp

theorem replicate_eq_map (c : α) (f : α → α) (l : List α) (h : ∀ a, f a = c) : List.replicate l.length c = l.map f := by
  rw [show f = fun _ => c from funext h]; simp [List.map_const']

theorem invLink_eq (f : Family) (eta : List α) : invLink f eta = eta.map (invLinkF f) := by
  cases f
  · exact map_eq_self _ _ (fun _ => rfl)
  · simp only [invLink, Cv.C04.sv_eq, Cv.C04.vun_eq, List.map_map]; rfl
  all_goals simp only [invLink, Cv.C04.vun_eq]; rfl

theorem variance_eq (f : Family) (mu : List α) : variance f mu = mu.map (varianceF f) := by
  cases f
  · exact replicate_eq_map _ _ _ (fun _ => rfl)
  · simp only [variance, mOneMinusM_eq]; rfl
  · exact map_eq_self _ _ (fun _ => rfl)
  · exact map_eq_self _ _ (fun _ => rfl)
  · simp only [variance, mulSelf_eq]; rfl
  · simp only [variance, mulSelf_eq]; rfl

theorem dInvLink_eq (f : Family) (eta mu : List α) (h : eta.length = mu.length) :
    dInvLink f eta mu = mu.map (dInvLinkF f) := by
  cases f
  · simp only [dInvLink, h]; exact replicate_eq_map _ _ _ (fun _ => rfl)
  · simp only [dInvLink, mOneMinusM_eq]; rfl
  all_goals exact map_eq_self _ _ (fun _ => rfl)

theorem invLink_length (f : Family) (eta : List α) : (invLink f eta).length = eta.length := by
  rw [invLink_eq]; simp

theorem variance_length (f : Family) (mu : List α) : (variance f mu).length = mu.length := by
  rw [variance_eq]; simp

theorem dInvLink_length (f : Family) (eta mu : List α) (h : eta.length = mu.length) :
    (dInvLink f eta mu).length = mu.length := by
  rw [dInvLink_eq f eta mu h]; simp

/-- the per-observation deviance term of the source (before the factor `2` / `-2`) -/
def devTermF (f : Family) (yv mv : α) : α :=
  match f with
  | .gaussian => (yv - mv) * (yv - mv)
  | .bernoulli => yv * Transc.ln mv + (1 - yv) * Transc.ln (1 - mv)
  | .quasiPoisson | .poisson => mv - yv - yv * Transc.ln mv + (if yv == 0 then 0 else yv * Transc.ln yv)
  | .gamma | .exponential => (yv - mv) / mv - Transc.ln (yv / mv)

theorem poissonTerms_eq (y mu : List α) :
    List.zipWith (fun (ym : α × α) l => ym.2 - ym.1 - ym.1 * Transc.ln ym.2 + l) (List.zip y mu) (ylogy y) =
      List.zipWith (devTermF .poisson) y mu := by
  induction y generalizing mu with
  | nil => simp [ylogy]
  | cons a t ih =>
    cases mu with
    | nil => simp [ylogy]
    | cons b u =>
      have := ih u
      simp only [ylogy] at this
      simp only [ylogy, List.zip_cons_cons, List.map_cons, List.zipWith_cons_cons, this]
      rfl

theorem devTerms_eq (f : Family) (y mu : List α) : devTerms f y mu = List.zipWith (devTermF f) y mu := by
  cases f
  · simp only [devTerms, Cv.C04.vbinGo_eq, List.map_zipWith]; rfl
  · rfl
  · exact poissonTerms_eq y mu
  · exact poissonTerms_eq y mu
  · rfl
  · rfl

/-- the outer factor of `deviance` -/
def devScale (f : Family) (s : α) : α :=
  match f with
  | .gaussian => s
  | .bernoulli => s * (-2)
  | _ => 2 * s

theorem two_eq : (two : α) = 2 := by simp [two]

/-- **deviance**: the family's sum of per-observation terms, scaled. -/
theorem deviance_spec (f : Family) (y mu : List α) (h : y.length = mu.length) :
    deviance f y mu = some (devScale f (∑ i ∈ Finset.range y.length, devTermF f y[i]! mu[i]!)) := by
  have hs : iterSum (devTerms f y mu) = ∑ i ∈ Finset.range y.length, devTermF f y[i]! mu[i]! := by
    rw [iterSum_eq, devTerms_eq, list_sum_eq_range]
    rw [List.length_zipWith, ← h, Nat.min_self]
    apply Finset.sum_congr rfl
    intro i hi
    have hi' := Finset.mem_range.mp hi
    rw [getBang_zipWith _ _ _ i hi' (by omega)]
  unfold deviance
  rw [if_neg (by simpa using h), hs]
  cases f <;> simp [devScale, two_eq]

theorem deviance_none (f : Family) (y mu : List α) (h : y.length ≠ mu.length) : deviance f y mu = none := by
  simp [deviance, h]

end Cv.C06L
