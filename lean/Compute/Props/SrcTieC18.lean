import Compute.Model.DistState
import Compute.Generated.SrcC18
/-
Source tie for C18: the constructors `new` of ten univariate distributions of `src/distributions/*.rs`
(`Compute/Generated/SrcC18.lean`, regenerated from the Rust source on every run by `tools/rs2lean.py`, option `mut`: parameter
validation as `Option`, struct literals as record constructors, nested constructor calls as binds), each proved equal to the
hand model `Cv.DS.*.new` of `Compute/Model/DistState.lean` for every scalar type.

Where the hand model is not syntactically the source: the model writes the nested constructors of a struct literal as one
`match c1, c2 with | some a, some b => some ⟨..⟩ | _, _ => none`, the generated definition binds them one after the other in the order
of the literal (case analysis on the `Option`s); `T::new` uses `assert!(dof > 0.)` (`if dof > 0 then .. else none`), the model
`if 0 < dof`; `Bernoulli::new` tests `!(0. ..=1.).contains(&p)`.  The comparisons are the source's (so the `Float` instance also
agrees on NaN).  The setters (`&mut self`) and `update` are outside the translated subset.
-/
set_option linter.unusedSectionVars false
namespace Cv.SrcTie.C18

variable {α : Type} [Add α] [Sub α] [Mul α] [Div α] [Neg α] [Zero α] [One α] [NatCast α] [IntCast α]
  [LT α] [DecidableLT α] [LE α] [DecidableLE α] [BEq α] [Cv.Transc α] [Inhabited α]

open Cv.DS

theorem Uniform_new_eq (lower upper : α) : Cv.Src.C18.Uniform_new lower upper = Uniform.new lower upper := rfl

theorem Normal_new_eq (mu sigma : α) : Cv.Src.C18.Normal_new mu sigma = Normal.new mu sigma := rfl

theorem Gamma_new_eq (alpha beta : α) : Cv.Src.C18.Gamma_new alpha beta = Gamma.new alpha beta := by
  unfold Cv.Src.C18.Gamma_new Gamma.new
  split
  · rfl
  · cases Normal.new (0 : α) 1 <;> cases Uniform.new (0 : α) 1 <;> rfl

theorem Beta_new_eq (alpha beta : α) : Cv.Src.C18.Beta_new alpha beta = Beta.new alpha beta := by
  unfold Cv.Src.C18.Beta_new Beta.new
  split
  · rfl
  · cases Gamma.new alpha (1 : α) <;> cases Gamma.new beta (1 : α) <;> rfl

theorem Exponential_new_eq (lambda : α) : Cv.Src.C18.Exponential_new lambda = Exponential.new lambda := by
  unfold Cv.Src.C18.Exponential_new Exponential.new
  split
  · rfl
  · cases Uniform.new (0 : α) 1 <;> rfl

theorem Gumbel_new_eq (mu beta : α) : Cv.Src.C18.Gumbel_new mu beta = Gumbel.new mu beta := by
  unfold Cv.Src.C18.Gumbel_new Gumbel.new
  split
  · rfl
  · cases Uniform.new (0 : α) 1 <;> rfl

theorem Pareto_new_eq (alpha minval : α) : Cv.Src.C18.Pareto_new alpha minval = Pareto.new alpha minval := rfl

theorem Poisson_new_eq (lambda : α) : Cv.Src.C18.Poisson_new lambda = Poisson.new lambda := rfl

theorem T_new_eq (dof : α) : Cv.Src.C18.T_new dof = T.new dof := rfl

theorem Bernoulli_new_eq (p : α) : Cv.Src.C18.Bernoulli_new p = Bernoulli.new p := by
  unfold Cv.Src.C18.Bernoulli_new Bernoulli.new
  by_cases h : 0 ≤ p ∧ p ≤ 1
  · rw [if_neg (fun hn => hn h), if_pos h]
  · rw [if_pos h, if_neg h]

end Cv.SrcTie.C18
