import Compute.Lemmas.C15Sim
set_option linter.unusedSectionVars false
/-
C15 — shape operations: ONE simulation theorem over whole programs.

`Cv.C15Sim.refOp` (Lemmas/C15Sim.lean) is a plain list-of-rows (`Vec<Vec<_>>`) reference semantics of the 19
state-changing public structural operations, written with list operations only (append, zipWith, flatten,
replicate, re-chunking, mapIdx …) — no flat index arithmetic.  Here:

* `applyOp_sim`   one step: `(applyOp op m).map rows = refOp op (rows m)` (the model panics iff the reference
                  rejects, and otherwise the row views agree);
* `simulation`    whole programs: `(run ops m).map rows = refRun ops (rows m)`;
* `simulation_keep` sessions with caught panics: `rows (runKeep ops m) = refRunKeep ops (rows m)`;
* `simulation_nonempty` the same for every matrix with ≥ 1 row and ≥ 1 column and every program whose
                  operations do not create a zero dimension (syntactic condition `NonDegenerate`);
* `run_count`     element count of the final matrix = rows × columns = total length of the reference rows;
* `queries_sim`   the read-only queries commute with the abstraction after any program.

Zero-dimension corner: a list of rows cannot represent a `0 × c` matrix with `c > 0` (the column count is
lost).  The hypothesis `Proper ops m` says exactly that no operation of the program is applied to a matrix
without rows and that no `vcat` operand is without rows; nothing is assumed about columns (`r × 0` is
covered) nor about the final matrix.  `proper_necessary` shows the hypothesis cannot be dropped.
-/
namespace Cv.C15Sim
open Cv Cv.Mat Cv.Shape Cv.C15
variable {α : Type} [Inhabited α]

/-! ## one step -/

theorem rowToCol_eq_t {m : Mat α} (hm : m.WF) (hr : 0 < m.nrows) : applyOp Op.rowToCol m = t m := by
  have e : m.ncols * m.nrows = (build m.ncols m.nrows fun j i => m.get i j).data.length := (build_wf _ _ _).symm
  simp only [applyOp]
  rw [rowToColMajor_wf hm hr, t_wf hm hr, Option.bind_some, mnewN_eq, if_pos e]; rfl

theorem colToRow_eq_t {m : Mat α} (hm : m.WF) (hr : 0 < m.nrows) (hc : 0 < m.ncols) : applyOp Op.colToRow m = t m := by
  have e : m.ncols * m.nrows = (build m.ncols m.nrows fun j i => m.get i j).data.length := (build_wf _ _ _).symm
  simp only [applyOp]
  rw [colToRowMajor_wf hm hc, t_wf hm hr, Option.bind_some, mnewN_eq, if_pos e]; rfl

theorem t_sim {m : Mat α} (hm : m.WF) (hr : 0 < m.nrows) :
    (t m).map rows = some (refT (rows m)) ∧ (tMut m).map rows = some (refT (rows m)) := by
  obtain ⟨m', h1, h2, _, _, _, h3, _⟩ := rows_t m hm hr
  rw [h1, h2, Option.map_some, h3]
  simp [refT, transposeRows, width_rows hm hr]

/-- **C15 (one step of the simulation).** On a well-formed matrix with at least one row, every public
structural operation does to the row view exactly what the list-of-rows reference does — and panics
exactly when the reference rejects. -/
theorem applyOp_sim (op : Op α) (m : Mat α) (hm : m.WF) (hr : 0 < m.nrows) (hop : OperandOK op) :
    (applyOp op m).map rows = refOp op (rows m) := by
  have hw := width_rows hm hr
  cases op with
  | load d nr nc => simp only [applyOp, refOp, refLoad_eq]
  | reshape nr nc => simp only [applyOp, refOp]; rw [reshape_eq_reshapeMut hm, refReshape_eq hm]
  | reshapeMut nr nc => simp only [applyOp, refOp]; rw [refReshape_eq hm]
  | t => simp only [applyOp, refOp]; exact (t_sim hm hr).1
  | tMut => simp only [applyOp, refOp]; exact (t_sim hm hr).2
  | hcat d nr nc =>
    simp only [applyOp, refOp, refLoad_eq]
    cases ho : mnew d nr nc with
    | none => simp
    | some o =>
      have how : o.WF := (mnew_some ho).2.1
      simp only [Option.bind_some, Option.map_some, rows_length]
      by_cases hrr : m.nrows = o.nrows
      · obtain ⟨m', h1, _, _, h4⟩ := rows_hcat m o hm how hrr
        rw [h1, if_pos hrr, Option.map_some, h4]
      · rw [hcat_rejects m o hrr, if_neg hrr]; rfl
  | vcat d nr nc =>
    simp only [applyOp, refOp, refLoad_eq]
    cases ho : mnew d nr nc with
    | none => simp
    | some o =>
      have how : o.WF := (mnew_some ho).2.1
      have hor : 0 < o.nrows := hop o ho
      have hall : (rows o).all (fun r => r.length == width (rows m)) = true ↔ m.ncols = o.ncols := by
        rw [hw, List.all_eq_true]
        constructor
        · intro H
          have h0 : row o 0 ∈ rows o := by
            simp only [rows, List.mem_map, List.mem_range]; exact ⟨0, hor, rfl⟩
          have := H _ h0
          rw [rows_row_length how _ h0] at this
          exact (by simpa using this : o.ncols = m.ncols).symm
        · intro hc r hr'
          rw [rows_row_length how r hr', hc]; simp
      simp only [Option.bind_some, Option.map_some]
      by_cases hc : m.ncols = o.ncols
      · obtain ⟨m', h1, _, _, h4⟩ := rows_vcat m o hm how hc
        rw [h1, if_pos (hall.mpr hc), Option.map_some, h4]
      · rw [vcat_rejects m o hc, if_neg (fun h => hc (hall.mp h))]; rfl
  | hrepeat n =>
    obtain ⟨m', h1, _, _, h4⟩ := rows_hrepeat m n hm
    simp only [applyOp, refOp, h1, Option.map_some, h4]
  | vrepeat n =>
    obtain ⟨m', h1, _, _, h4⟩ := rows_vrepeat m n hm
    simp only [applyOp, refOp, h1, Option.map_some, h4]
  | applyRow i f =>
    simp only [applyOp, refOp, rows_length]
    by_cases hi : i < m.nrows
    · obtain ⟨m', h1, h2, h3, h4, h5⟩ := applyRow_spec m i f hm hi
      rw [h1, if_pos hi, Option.map_some, rows_of_get h4 _ (by rw [h2, h3]; exact h5), rows_mapIdx hm, h2, h3]
      congr 1
      apply List.map_congr_left
      intro a _
      by_cases hai : a = i <;> simp [hai]
    · rw [applyRow_rejects m i f (by omega), if_neg hi]; rfl
  | applyCol j f =>
    simp only [applyOp, refOp, hw]
    by_cases hj : j < m.ncols
    · obtain ⟨m', h1, h2, h3, h4, h5⟩ := applyCol_spec m j f hm hj
      rw [h1, if_pos hj, Option.map_some, rows_of_get h4 _ (by rw [h2, h3]; exact h5), rows_map hm, h2, h3]
      congr 1
      apply List.map_congr_left
      intro a _
      apply List.ext_getElem
      · simp
      · intro b hb1 hb2
        simp
    · rw [applyCol_rejects m j f hm hr (by omega), if_neg hj]; rfl
  | flatReplace k v =>
    have hl : m.data.length = m.nrows * m.ncols := hm
    simp only [applyOp, refOp, flatIdxReplace, rows_flatten hm, hw, rows_length, hl]
    by_cases hk : k < m.nrows * m.ncols
    · rw [if_pos hk, if_pos hk, Option.map_some, rows_eq_chunk]
    · rw [if_neg hk, if_neg hk]; rfl
  | set2 i j v =>
    simp only [applyOp, refOp, hw, rows_length]
    by_cases hij : i < m.nrows ∧ j < m.ncols
    · obtain ⟨m', h1, h2, h3, h4, h5⟩ := set2_spec m i j v hm hij.1 hij.2
      rw [h1, if_pos hij, Option.map_some, rows_of_get h4 _ (by rw [h2, h3]; exact h5), rows_mapIdx hm, h2, h3]
      congr 1
      apply List.map_congr_left
      intro a _
      by_cases hai : a = i
      · subst hai
        apply List.ext_getElem
        · simp
        · intro b hb1 hb2
          simp only [List.getElem_map, List.getElem_range, true_and, if_true, List.getElem_set]
          by_cases hbj : j = b
          · simp [hbj]
          · have hbj' : ¬ b = j := fun h => hbj h.symm
            simp [hbj, hbj']
      · simp [hai]
    · simp only [Shape.set2, if_neg hij]; rfl
  | toVecToMatrix =>
    obtain ⟨m', h1, _, _, h4⟩ := toVec_toMatrix m hm
    simp only [applyOp, refOp, h1, Option.map_some, h4]
  | rowToMatrix i =>
    simp only [applyOp, refOp, rows_length, getRow_spec]
    by_cases hi : i < m.nrows
    · have hlen : ((rows m)[i]!).length = m.ncols := by
        rw [getBang (by simpa using hi)]; exact rows_row_length hm _ (List.getElem_mem _)
      rw [if_pos hi, if_pos hi, Option.bind_some, vecToMatrix_eq, Option.map_some, rows_single]
    · rw [if_neg hi, if_neg hi]; rfl
  | colToMatrix j =>
    simp only [applyOp, refOp, hw, getCol_spec m j hm]
    by_cases hj : j < m.ncols
    · rw [if_pos hj, if_pos hj, Option.bind_some, vecToMatrix_eq, Option.map_some, rows_single]
    · rw [if_neg hj, if_neg hj]; rfl
  | diagToMatrix =>
    simp only [applyOp, refOp, hw, rows_length, diag_spec m hm]
    rw [vecToMatrix_eq, Option.map_some, rows_single]
  | rowToCol =>
    rw [rowToCol_eq_t hm hr]; simp only [refOp]; exact (t_sim hm hr).1
  | colToRow =>
    by_cases hc : m.ncols = 0
    · simp only [applyOp, refOp, hw, hc, if_true, colToRowMajor, isMatrixU_zero]; rfl
    · rw [colToRow_eq_t hm hr (by omega)]; simp only [refOp, hw, if_neg hc]; exact (t_sim hm hr).1

/-! ## whole programs -/

/-- **C15 (simulation, all programs).** For every well-formed matrix and every program of public structural
operations in which no operation is applied to a matrix without rows: running the program on the model and
taking the row view gives exactly what the list-of-rows reference computes from the row view of the start
matrix.  In particular the model panics somewhere in the program iff the reference rejects (`none = none`),
and otherwise the final matrix holds exactly the elements of the reference, row by row. -/
theorem simulation (ops : List (Op α)) (m : Mat α) (hm : m.WF) (hp : Proper ops m) :
    (run ops m).map rows = refRun ops (rows m) := by
  induction ops generalizing m with
  | nil => rfl
  | cons op ops ih =>
    obtain ⟨hr, hop, hrest⟩ := hp
    have h1 := applyOp_sim op m hm hr hop
    simp only [run, refRun]
    rw [← h1]
    cases ha : applyOp op m with
    | none => rfl
    | some m1 =>
      rw [ha] at hrest
      simp only [Option.bind_some, Option.map_some]
      exact ih m1 (applyOp_wf op m m1 hm ha) hrest

/-- **C15 (simulation, sessions with caught panics).** What the correspondence driver executes: a panicking
operation leaves the matrix unchanged, a rejected reference operation leaves the rows unchanged. -/
theorem simulation_keep (ops : List (Op α)) (m : Mat α) (hm : m.WF) (hp : ProperKeep ops m) :
    rows (runKeep ops m) = refRunKeep ops (rows m) := by
  induction ops generalizing m with
  | nil => rfl
  | cons op ops ih =>
    obtain ⟨hr, hop, hrest⟩ := hp
    have h1 := applyOp_sim op m hm hr hop
    simp only [runKeep, refRunKeep]
    rw [← h1]
    cases ha : applyOp op m with
    | none => rw [ha] at hrest; exact ih m hm hrest
    | some m1 =>
      rw [ha] at hrest
      exact ih m1 (applyOp_wf op m m1 hm ha) hrest

/-- **C15 (element count after any program).** The final matrix is well formed, its element count is
rows × columns, its row view has `nrows` rows of `ncols` elements each, and the reference result holds the
same number of elements. -/
theorem run_count (ops : List (Op α)) (m m' : Mat α) (hm : m.WF) (hp : Proper ops m) (h : run ops m = some m') :
    refRun ops (rows m) = some (rows m') ∧ m'.data.length = m'.nrows * m'.ncols ∧ (rows m').length = m'.nrows ∧
      (∀ r ∈ rows m', r.length = m'.ncols) ∧ (rows m').flatten = m'.data := by
  have hw := wf_preserved ops m m' hm h
  have hs := simulation ops m hm hp
  rw [h] at hs
  exact ⟨hs.symm, hw, rows_length m', rows_row_length hw, rows_flatten hw⟩

/-! ## a syntactic sufficient condition: matrices with ≥ 1 row and ≥ 1 column -/

/-- Operations that cannot create a zero dimension out of a non-empty matrix: loads and operands carry at
least one element, repetition counts are positive. -/
def NonDegenerateOp : Op α → Prop
  | .load d _ _ => d ≠ []
  | .hcat d _ _ => d ≠ []
  | .vcat d _ _ => d ≠ []
  | .hrepeat n => 0 < n
  | .vrepeat n => 0 < n
  | _ => True

def NonDegenerate (ops : List (Op α)) : Prop := ∀ op ∈ ops, NonDegenerateOp op

theorem pos_of_data {m : Mat α} (hm : m.WF) (hd : m.data ≠ []) : 0 < m.nrows ∧ 0 < m.ncols := by
  have hl : m.data.length = m.nrows * m.ncols := hm
  have : 0 < m.data.length := List.length_pos_iff.mpr hd
  rw [hl] at this
  exact ⟨Nat.pos_of_mul_pos_right this, Nat.pos_of_mul_pos_left this⟩

theorem data_of_pos {m : Mat α} (hm : m.WF) (hr : 0 < m.nrows) (hc : 0 < m.ncols) : m.data ≠ [] := by
  have hl : m.data.length = m.nrows * m.ncols := hm
  intro h
  rw [h] at hl
  have : 0 < m.nrows * m.ncols := Nat.mul_pos hr hc
  simp at hl; omega

theorem operandOK_of_nonDegenerate (op : Op α) (h : NonDegenerateOp op) : OperandOK op := by
  cases op <;> try trivial
  rename_i d nr nc
  intro o ho
  have := mnew_some ho
  exact (pos_of_data this.2.1 (by rw [this.1]; exact h)).1

/-- A non-degenerate operation maps a non-empty well-formed matrix to a non-empty matrix (or panics). -/
theorem applyOp_nonempty (op : Op α) (m m' : Mat α) (hm : m.WF) (hr : 0 < m.nrows) (hc : 0 < m.ncols)
    (hop : NonDegenerateOp op) (h : applyOp op m = some m') : 0 < m'.nrows ∧ 0 < m'.ncols := by
  have hm' := applyOp_wf op m m' hm h
  have hd := data_of_pos hm hr hc
  apply pos_of_data hm'
  cases op with
  | load d nr nc => rw [(mnew_some h).1]; exact hop
  | reshape nr nc => rw [(reshape_keeps_data m m' nr nc hm h).1]; exact hd
  | reshapeMut nr nc => rw [(reshapeMut_keeps_data m m' nr nc hm h).1]; exact hd
  | t =>
    obtain ⟨m2, h1, _, h3, h4, h5, _⟩ := rows_t m hm hr
    simp only [applyOp, h1, Option.some.injEq] at h; subst h
    exact data_of_pos h5 (by omega) (by omega)
  | tMut =>
    obtain ⟨m2, _, h1, h3, h4, h5, _⟩ := rows_t m hm hr
    simp only [applyOp, h1, Option.some.injEq] at h; subst h
    exact data_of_pos h5 (by omega) (by omega)
  | hcat d nr nc =>
    simp only [applyOp] at h
    cases ho : mnew d nr nc with
    | none => simp [ho] at h
    | some o =>
      rw [ho, Option.bind_some] at h
      have how := (mnew_some ho).2.1
      by_cases hrr : m.nrows = o.nrows
      · obtain ⟨m2, h1, h2, h3, _⟩ := rows_hcat m o hm how hrr
        rw [h1, Option.some.injEq] at h; subst h
        exact data_of_pos hm' (by omega) (by omega)
      · rw [hcat_rejects m o hrr] at h; cases h
  | vcat d nr nc =>
    simp only [applyOp] at h
    cases ho : mnew d nr nc with
    | none => simp [ho] at h
    | some o =>
      rw [ho, Option.bind_some] at h
      have how := (mnew_some ho).2.1
      by_cases hcc : m.ncols = o.ncols
      · obtain ⟨m2, h1, h2, h3, _⟩ := rows_vcat m o hm how hcc
        rw [h1, Option.some.injEq] at h; subst h
        exact data_of_pos hm' (by omega) (by omega)
      · rw [vcat_rejects m o hcc] at h; cases h
  | hrepeat n =>
    obtain ⟨m2, h1, h2, h3, _⟩ := rows_hrepeat m n hm
    simp only [applyOp, h1, Option.some.injEq] at h; subst h
    exact data_of_pos hm' (by omega) (by rw [h3]; exact Nat.mul_pos hc hop)
  | vrepeat n =>
    obtain ⟨m2, h1, h2, h3, _⟩ := rows_vrepeat m n hm
    simp only [applyOp, h1, Option.some.injEq] at h; subst h
    exact data_of_pos hm' (by rw [h2]; exact Nat.mul_pos hr hop) (by omega)
  | applyRow i f =>
    simp only [applyOp, applyRow] at h
    split at h
    · cases h; exact data_of_pos hm' hr hc
    · cases h
  | applyCol j f =>
    simp only [applyOp, applyCol] at h
    split at h
    · cases h
    · split at h
      · cases h
      · cases h; exact data_of_pos hm' hr hc
  | flatReplace k v =>
    simp only [applyOp, flatIdxReplace] at h
    split at h
    · cases h; exact data_of_pos hm' hr hc
    · cases h
  | set2 i j v =>
    simp only [applyOp, Shape.set2] at h
    split at h
    · cases h; exact data_of_pos hm' hr hc
    · cases h
  | toVecToMatrix =>
    simp only [applyOp, vecToMatrix_eq, Option.some.injEq] at h; subst h; exact hd
  | rowToMatrix i =>
    simp only [applyOp, getRow] at h
    split at h
    · rename_i hi
      simp only [Option.bind_some, vecToMatrix_eq, Option.some.injEq] at h; subst h
      intro h0
      have h0' : row m i = [] := h0
      have := row_length hm hi
      rw [h0'] at this; simp at this; omega
    · cases h
  | colToMatrix j =>
    simp only [applyOp, getCol] at h
    split at h
    · simp only [Option.bind_some, vecToMatrix_eq, Option.some.injEq] at h; subst h
      intro h0
      have h0' : ((List.range m.nrows).map fun i => m.get i j) = [] := h0
      have : ((List.range m.nrows).map fun i => m.get i j).length = 0 := by rw [h0']; rfl
      simp at this; omega
    · cases h
  | diagToMatrix =>
    simp only [applyOp, vecToMatrix_eq, Option.some.injEq] at h; subst h
    intro h0
    have h0' : diag m = [] := h0
    have : (diag m).length = 0 := by rw [h0']; rfl
    simp [diag] at this; omega
  | rowToCol =>
    rw [rowToCol_eq_t hm hr] at h
    obtain ⟨m2, h1, _, h3, h4, h5, _⟩ := rows_t m hm hr
    rw [h1, Option.some.injEq] at h; subst h
    exact data_of_pos h5 (by omega) (by omega)
  | colToRow =>
    rw [colToRow_eq_t hm hr hc] at h
    obtain ⟨m2, h1, _, h3, h4, h5, _⟩ := rows_t m hm hr
    rw [h1, Option.some.injEq] at h; subst h
    exact data_of_pos h5 (by omega) (by omega)

theorem proper_of_nonDegenerate (ops : List (Op α)) (m : Mat α) (hm : m.WF) (hr : 0 < m.nrows) (hc : 0 < m.ncols)
    (hops : NonDegenerate ops) : Proper ops m := by
  induction ops generalizing m with
  | nil => trivial
  | cons op ops ih =>
    have hop : NonDegenerateOp op := hops op (by simp)
    refine ⟨hr, operandOK_of_nonDegenerate op hop, ?_⟩
    cases ha : applyOp op m with
    | none => trivial
    | some m1 =>
      have := applyOp_nonempty op m m1 hm hr hc hop ha
      exact ih m1 (applyOp_wf op m m1 hm ha) this.1 this.2 (fun o ho => hops o (by simp [ho]))

theorem properKeep_of_nonDegenerate (ops : List (Op α)) (m : Mat α) (hm : m.WF) (hr : 0 < m.nrows) (hc : 0 < m.ncols)
    (hops : NonDegenerate ops) : ProperKeep ops m := by
  induction ops generalizing m with
  | nil => trivial
  | cons op ops ih =>
    have hop : NonDegenerateOp op := hops op (by simp)
    refine ⟨hr, operandOK_of_nonDegenerate op hop, ?_⟩
    cases ha : applyOp op m with
    | none => exact ih m hm hr hc (fun o ho => hops o (by simp [ho]))
    | some m1 =>
      have := applyOp_nonempty op m m1 hm hr hc hop ha
      exact ih m1 (applyOp_wf op m m1 hm ha) this.1 this.2 (fun o ho => hops o (by simp [ho]))

/-- **C15 (simulation for the matrices of the property's quantifier).** Every well-formed matrix with at
least one row and one column, every program of non-degenerate operations (non-empty loads/operands, positive
repetition counts; all 19 operation kinds, arbitrary arguments otherwise, panicking steps included). -/
theorem simulation_nonempty (ops : List (Op α)) (m : Mat α) (hm : m.WF) (hr : 0 < m.nrows) (hc : 0 < m.ncols)
    (hops : NonDegenerate ops) :
    (run ops m).map rows = refRun ops (rows m) ∧ rows (runKeep ops m) = refRunKeep ops (rows m) :=
  ⟨simulation ops m hm (proper_of_nonDegenerate ops m hm hr hc hops),
   simulation_keep ops m hm (properKeep_of_nonDegenerate ops m hm hr hc hops)⟩

/-! ## queries commute with the abstraction -/

/-- **C15 (queries after any program).** On the final matrix of any program (with at least one row), every
read-only query returns what the same query on the reference rows returns. -/
theorem queries_sim (ops : List (Op α)) (m m' : Mat α) (hm : m.WF) (hp : Proper ops m) (h : run ops m = some m')
    (hr' : 0 < m'.nrows) :
    ∃ R, refRun ops (rows m) = some R ∧
      (∀ i j, get2 m' i j = if i < R.length ∧ j < width R then some ((R[i]!)[j]!) else none) ∧
      (∀ k, flatIdx m' k = if k < R.length * width R then some R.flatten[k]! else none) ∧
      (∀ i, getRow m' i = if i < R.length then some R[i]! else none) ∧
      (∀ j, getCol m' j = if j < width R then some (R.map fun r => r[j]!) else none) ∧
      diag m' = (List.range (min R.length (width R))).map (fun i => (R[i]!)[i]!) ∧
      toVec m' = R.flatten := by
  have hw := wf_preserved ops m m' hm h
  have hs := simulation ops m hm hp
  rw [h] at hs
  have hwd := width_rows hw hr'
  refine ⟨rows m', hs.symm, ?_, ?_, ?_, ?_, ?_, ?_⟩
  · intro i j; rw [get2_spec m' i j hw, rows_length, hwd]
  · intro k; rw [flatIdx_spec m' k hw, rows_length, hwd]
  · intro i; rw [getRow_spec, rows_length]
  · intro j; rw [getCol_spec m' j hw, hwd]
  · rw [diag_spec m' hw, rows_length, hwd]
  · exact (rows_flatten hw).symm

/-! ## non-vacuity and necessity of the side condition -/

/-- A seven-step program on a 2×3 matrix: transposition, hcat, an inferred reshape, vrepeat, a row map, a
replacement and a column extraction. -/
def demoOps : List (Op Nat) := [Op.t, Op.hcat [7, 8, 9] 3 1, Op.reshapeMut (-1) 9, Op.vrepeat 2,
  Op.applyRow 1 (· + 100), Op.set2 0 4 0, Op.colToMatrix 4]
def demoM : Mat Nat := ⟨[1, 2, 3, 4, 5, 6], 2, 3⟩

/-- Non-vacuity: the hypotheses of `simulation_nonempty` hold for the demo program and both sides compute
the same rows. -/
example : demoM.WF ∧ 0 < demoM.nrows ∧ 0 < demoM.ncols ∧ NonDegenerate demoOps ∧
    (run demoOps demoM).map rows = some [[0, 105]] ∧ refRun demoOps (rows demoM) = some [[0, 105]] := by
  refine ⟨by decide, by decide, by decide, ?_, by decide, by decide⟩
  intro op hop
  simp only [demoOps, List.mem_cons, List.mem_nil_iff, or_false] at hop
  rcases hop with rfl | rfl | rfl | rfl | rfl | rfl | rfl <;> simp [NonDegenerateOp]

/-- A program whose third step panics in the model and is rejected by the reference. -/
example : run [Op.t, Op.hcat [7, 8, 9] 3 1, Op.reshapeMut (-1) 2] (⟨[1, 2, 3, 4, 5, 6], 2, 3⟩ : Mat Nat) = none ∧
    refRun [Op.t, Op.hcat [7, 8, 9] 3 1, Op.reshapeMut (-1) 2] (rows (⟨[1, 2, 3, 4, 5, 6], 2, 3⟩ : Mat Nat)) = none := by
  decide

/-- … and the same session with caught panics goes on from the unchanged matrix on both sides. -/
example :
    rows (runKeep [Op.t, Op.reshapeMut (-1) 4, Op.applyCol 5 (· + 1), Op.vcat [7, 8] 1 2] (⟨[1, 2, 3, 4, 5, 6], 2, 3⟩ : Mat Nat))
      = [[1, 4], [2, 5], [3, 6], [7, 8]] ∧
    refRunKeep [Op.t, Op.reshapeMut (-1) 4, Op.applyCol 5 (· + 1), Op.vcat [7, 8] 1 2] (rows (⟨[1, 2, 3, 4, 5, 6], 2, 3⟩ : Mat Nat))
      = [[1, 4], [2, 5], [3, 6], [7, 8]] := by
  decide

/-- Matrices with a zero column count are covered (`2 × 0` has the row view `[[], []]`): `colToRow` panics
and is rejected, `hrepeat`, `reshape` to `0 × 5` succeed on both sides. -/
example :
    Proper [Op.hrepeat 0, Op.colToRow, Op.reshape 0 5] (⟨[1, 2], 2, 1⟩ : Mat Nat) ∧
    run [Op.hrepeat 0, Op.colToRow] (⟨[1, 2], 2, 1⟩ : Mat Nat) = none ∧
    refRun [Op.hrepeat 0, Op.colToRow] (rows (⟨[1, 2], 2, 1⟩ : Mat Nat)) = none ∧
    (run [Op.hrepeat 0, Op.reshape 0 5] (⟨[1, 2], 2, 1⟩ : Mat Nat)).map rows = some [] ∧
    refRun [Op.hrepeat 0, Op.reshape 0 5] (rows (⟨[1, 2], 2, 1⟩ : Mat Nat)) = some [] := by
  refine ⟨⟨by decide, trivial, ?_⟩, by decide, by decide, by decide, by decide⟩
  show Proper [Op.colToRow, Op.reshape 0 5] (⟨[], 2, 0⟩ : Mat Nat)
  exact ⟨by decide, trivial, trivial⟩

/-- **The side condition is necessary.** After `vrepeat 0` the model holds a `0 × 3` matrix whose row view
`[]` no longer tells the column count: the model rejects appending a 2-column row, and accepts a 3-column
row; no function of the row view alone can do both.  (`Proper` fails at the second step.) -/
theorem proper_necessary :
    let m : Mat Nat := ⟨[1, 2, 3], 1, 3⟩
    let m0 : Mat Nat := ⟨[], 0, 2⟩
    run [Op.vrepeat 0] m = some ⟨[], 0, 3⟩ ∧ rows (⟨[], 0, 3⟩ : Mat Nat) = rows m0 ∧
    applyOp (Op.vcat [7, 8] 1 2) ⟨[], 0, 3⟩ = none ∧
    (applyOp (Op.vcat [7, 8] 1 2) m0).map rows = some [[7, 8]] ∧
    ¬ Proper [Op.vrepeat 0, Op.vcat [7, 8] 1 2] m := by
  refine ⟨by decide, by decide, by decide, by decide, ?_⟩
  intro h
  have h2 := h.2.2
  have : applyOp (Op.vrepeat 0) (⟨[1, 2, 3], 1, 3⟩ : Mat Nat) = some ⟨[], 0, 3⟩ := by decide
  rw [this] at h2
  exact absurd h2.1 (by decide)

end Cv.C15Sim
