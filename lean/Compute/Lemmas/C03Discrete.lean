import Compute.Model.Samplers
import Compute.Lemmas.C03
import Mathlib.Algebra.BigOperators.Ring.Finset
import Mathlib.Algebra.BigOperators.Intervals
import Mathlib.Data.Nat.Choose.Sum
import Mathlib.Analysis.SpecialFunctions.Exp
import Mathlib.Tactic.Ring
import Mathlib.Tactic.Linarith
import Mathlib.Tactic.NormNum
import Mathlib.Tactic.Positivity
import Mathlib.Tactic.FieldSimp
/-
Loop invariants of the two exact discrete samplers: the Poisson multiplication method and binomial inversion.
-/
set_option linter.unusedSectionVars false
set_option linter.unusedSimpArgs false
set_option linter.unusedVariables false

namespace Cv.C03L
open Cv
open scoped Cv.C09

/-! ### the stream of uniforms -/

/-- generator state after `i` calls of `alea::f64()` -/
noncomputable def stAfter (g : Rng) : Nat → Rng
  | 0 => g
  | i + 1 => ((stAfter g i).f64 (α := ℝ)).2

/-- the `i`-th uniform of the stream that starts in state `g` (`i = 0` is the first) -/
noncomputable def uAt (g : Rng) (i : Nat) : ℝ := ((stAfter g i).f64 (α := ℝ)).1

/-- product of the first `k` uniforms -/
noncomputable def prodU (g : Rng) (k : Nat) : ℝ := ∏ i ∈ Finset.range k, uAt g i

theorem prodU_succ (g : Rng) (k : Nat) : prodU g (k + 1) = prodU g k * uAt g k := by
  unfold prodU; rw [Finset.prod_range_succ]

theorem uAt_mem (g : Rng) (i : Nat) : 0 ≤ uAt g i ∧ uAt g i < 1 := f64_mem _

theorem f64_at (g : Rng) (c : Nat) : (stAfter g c).f64 (α := ℝ) = (uAt g c, stAfter g (c + 1)) := rfl

/-! ### the redraw loop `while u == 0. { u = draw() }` (repair F53) on the raw uniform stream -/

/-- If the loop, started after `c` draws, returns, it returns the first non-zero uniform of the stream from index `c` on
and the state right after that draw. -/
theorem redraw_f64_spec (g : Rng) (fuel : Nat) : ∀ (c : Nat) (u : ℝ) (g' : Rng),
    redrawNonzero (fun g => g.f64 (α := ℝ)) fuel (stAfter g c) = some (u, g') →
      ∃ k, c ≤ k ∧ k < c + fuel ∧ (∀ j, c ≤ j → j < k → uAt g j = 0) ∧ uAt g k ≠ 0 ∧ u = uAt g k ∧ g' = stAfter g (k + 1) := by
  induction fuel with
  | zero => intro c u g' h; simp [redrawNonzero] at h
  | succ f ih =>
    intro c u g' h
    simp only [redrawNonzero, f64_at] at h
    by_cases h0 : uAt g c = 0
    · simp only [h0, beq_self_eq_true, if_true] at h
      obtain ⟨k, h1, h2, h3, h4, h5, h6⟩ := ih (c + 1) u g' h
      refine ⟨k, by omega, by omega, ?_, h4, h5, h6⟩
      intro j hcj hjk
      by_cases hj : j = c
      · subst hj; exact h0
      · exact h3 j (by omega) hjk
    · have hb : (uAt g c == 0) = false := by simpa using h0
      simp only [hb] at h
      simp at h
      exact ⟨c, le_refl _, by omega, fun j h1 h2 => absurd h2 (by omega), h0, h.1.symm, h.2.symm⟩

/-- Termination: the loop ends at the first state whose uniform is not zero (fuel permitting). -/
theorem redraw_f64_complete (g : Rng) (fuel : Nat) : ∀ (c k : Nat), c ≤ k → k - c < fuel →
    (∀ j, c ≤ j → j < k → uAt g j = 0) → uAt g k ≠ 0 →
    redrawNonzero (fun g => g.f64 (α := ℝ)) fuel (stAfter g c) = some (uAt g k, stAfter g (k + 1)) := by
  induction fuel with
  | zero => intro c k _ h; omega
  | succ f ih =>
    intro c k hck hf hz hnz
    simp only [redrawNonzero, f64_at]
    by_cases hc : c = k
    · subst hc
      have hb : (uAt g c == 0) = false := by simpa using hnz
      simp [hb]
    · have h0 : uAt g c = 0 := hz c (le_refl _) (by omega)
      simp only [h0, beq_self_eq_true, if_true]
      exact ih (c + 1) k (by omega) (by omega) (fun j h1 h2 => hz j (by omega) h2) hnz

/-- `Uniform(0,1).sample()` over the reals is the raw uniform (as functions). -/
theorem uniformF_unit_fun : UniformF.sample (0 : ℝ) 1 = fun g => g.f64 (α := ℝ) := funext uniformF_unit

/-! ### Poisson, multiplication method -/

theorem multLoop_spec (limit : ℝ) (g : Rng) (fuel : Nat) : ∀ (c k : Nat) (g' : Rng),
    Poisson.multLoop limit fuel c (prodU g (c + 1)) (stAfter g (c + 1)) = some (k, g') →
      c ≤ k ∧ g' = stAfter g (k + 1) ∧ (∀ j, c ≤ j → j < k → limit < prodU g (j + 1)) ∧ prodU g (k + 1) ≤ limit := by
  induction fuel with
  | zero => intro c k g' h; simp [Poisson.multLoop] at h
  | succ f ih =>
    intro c k g' h
    simp only [Poisson.multLoop] at h
    by_cases hlt : limit < prodU g (c + 1)
    · simp only [hlt, if_true] at h
      have h' : Poisson.multLoop limit f (c + 1) (prodU g (c + 1 + 1)) (stAfter g (c + 1 + 1)) = some (k, g') := by
        rw [prodU_succ g (c + 1)]; exact h
      obtain ⟨h1, h2, h3, h4⟩ := ih (c + 1) k g' h'
      refine ⟨by omega, h2, ?_, h4⟩
      intro j hcj hjk
      by_cases hj : j = c
      · subst hj; exact hlt
      · exact h3 j (by omega) hjk
    · simp only [hlt, if_false] at h
      simp at h
      obtain ⟨hk, hg⟩ := h
      subst hk; subst hg
      exact ⟨le_refl _, rfl, fun j h1 h2 => absurd h2 (by omega), not_lt.mp hlt⟩

/-- a state reached with enough fuel: the loop returns the first index at which the product drops to the limit -/
theorem multLoop_complete (limit : ℝ) (g : Rng) (fuel : Nat) : ∀ (c k : Nat), c ≤ k → k - c < fuel →
    (∀ j, c ≤ j → j < k → limit < prodU g (j + 1)) → prodU g (k + 1) ≤ limit →
    Poisson.multLoop limit fuel c (prodU g (c + 1)) (stAfter g (c + 1)) = some (k, stAfter g (k + 1)) := by
  induction fuel with
  | zero => intro c k _ h; omega
  | succ f ih =>
    intro c k hck hf hbefore hat
    simp only [Poisson.multLoop]
    by_cases hc : c = k
    · subst hc
      simp [not_lt.mpr hat]
    · have hlt : limit < prodU g (c + 1) := hbefore c (le_refl _) (by omega)
      simp only [hlt, if_true]
      have := ih (c + 1) k (by omega) (by omega) (fun j h1 h2 => hbefore j (by omega) h2) hat
      rw [prodU_succ g (c + 1)] at this
      exact this

/-! ### binomial inversion -/

/-- binomial mass `C(n,x) p^x (1-p)^(n-x)` -/
noncomputable def binTerm (n : Nat) (p : ℝ) (x : Nat) : ℝ := (n.choose x : ℝ) * p ^ x * (1 - p) ^ (n - x)

/-- binomial CDF at `k` -/
noncomputable def binCDF (n : Nat) (p : ℝ) (k : Nat) : ℝ := ∑ i ∈ Finset.range (k + 1), binTerm n p i

theorem binTerm_nonneg (n : Nat) (p : ℝ) (h0 : 0 ≤ p) (h1 : p ≤ 1) (x : Nat) : 0 ≤ binTerm n p x := by
  unfold binTerm
  have : 0 ≤ 1 - p := by linarith
  positivity

/-- the mass function sums to one -/
theorem binCDF_top (n : Nat) (p : ℝ) : binCDF n p n = 1 := by
  unfold binCDF binTerm
  have h := add_pow p (1 - p) n
  have h1 : p + (1 - p) = 1 := by ring
  rw [h1, one_pow] at h
  refine (Finset.sum_congr rfl ?_).trans h.symm
  intro i _; ring

/-- the recurrence the loop uses: `r ← r · (a / x − s)` with `a = (n+1) s`, `s = p / (1-p)` -/
theorem binTerm_succ (n : Nat) (p : ℝ) (h0 : 0 < p) (h1 : p < 1) (x : Nat) :
    binTerm n p (x + 1) = binTerm n p x * (((n : ℝ) + 1) * (p / (1 - p)) / ((x + 1 : Nat) : ℝ) - p / (1 - p)) := by
  have hq : (1 - p) ≠ 0 := by linarith
  have hx : ((x + 1 : Nat) : ℝ) ≠ 0 := by positivity
  unfold binTerm
  by_cases hlt : x < n
  · obtain ⟨d, rfl⟩ : ∃ d, n = x + 1 + d := ⟨n - (x + 1), by omega⟩
    have e1 : x + 1 + d - (x + 1) = d := by omega
    have e2 : x + 1 + d - x = d + 1 := by omega
    rw [e1, e2]
    have hc : ((x + 1 + d).choose (x + 1) : ℝ) * ((x + 1 : Nat) : ℝ) = ((x + 1 + d).choose x : ℝ) * ((d + 1 : Nat) : ℝ) := by
      have := Nat.choose_succ_right_eq (x + 1 + d) x
      rw [e2] at this
      exact_mod_cast this
    have hc' : ((x + 1 + d).choose (x + 1) : ℝ) = ((x + 1 + d).choose x : ℝ) * ((d + 1 : Nat) : ℝ) / ((x + 1 : Nat) : ℝ) := by
      rw [← hc]; field_simp
    rw [hc']
    push_cast
    field_simp
    ring
  · have hge : n ≤ x := not_lt.mp hlt
    have hc : n.choose (x + 1) = 0 := Nat.choose_eq_zero_of_lt (by omega)
    rw [hc]
    by_cases hxn : x = n
    · subst hxn
      have : ((x : ℝ) + 1) * (p / (1 - p)) / ((x + 1 : Nat) : ℝ) - p / (1 - p) = 0 := by push_cast; field_simp; ring
      rw [this]; simp
    · have hc2 : n.choose x = 0 := Nat.choose_eq_zero_of_lt (by omega)
      rw [hc2]; simp

theorem binCDF_succ (n : Nat) (p : ℝ) (k : Nat) : binCDF n p (k + 1) = binCDF n p k + binTerm n p (k + 1) := by
  unfold binCDF; rw [Finset.sum_range_succ]

/-- loop invariant: at count `x` the loop holds `r = mass(x)` and `u − CDF(x−1)` -/
theorem invLoop_spec (n : Nat) (p : ℝ) (h0 : 0 < p) (h1 : p < 1) (u : ℝ) (fuel : Nat) : ∀ (x k : Nat),
    Binomial.invLoop (((n : ℝ) + 1) * (p / (1 - p))) (p / (1 - p)) fuel
        (u - (binCDF n p x - binTerm n p x)) (binTerm n p x) x = some k →
      x ≤ k ∧ (∀ j, x ≤ j → j < k → binCDF n p j < u) ∧ u ≤ binCDF n p k := by
  induction fuel with
  | zero => intro x k h; simp [Binomial.invLoop] at h
  | succ f ih =>
    intro x k h
    simp only [Binomial.invLoop] at h
    by_cases hlt : binTerm n p x < u - (binCDF n p x - binTerm n p x)
    · simp only [hlt, if_true] at h
      have e1 : u - (binCDF n p x - binTerm n p x) - binTerm n p x
          = u - (binCDF n p (x + 1) - binTerm n p (x + 1)) := by rw [binCDF_succ]; ring
      rw [e1, ← binTerm_succ n p h0 h1 x] at h
      obtain ⟨h2, h3, h4⟩ := ih (x + 1) k h
      refine ⟨by omega, ?_, h4⟩
      intro j hxj hjk
      by_cases hj : j = x
      · subst hj; linarith
      · exact h3 j (by omega) hjk
    · simp only [hlt, if_false] at h
      simp at h
      subst h
      refine ⟨le_refl _, fun j h1 h2 => absurd h2 (by omega), ?_⟩
      have := not_lt.mp hlt
      linarith

/-- Termination of the inversion loop: it stops at the first `k` with `u ≤ F(k)` (fuel permitting). -/
theorem invLoop_complete (n : Nat) (p : ℝ) (h0 : 0 < p) (h1 : p < 1) (u : ℝ) (fuel : Nat) : ∀ (x k : Nat), x ≤ k → k - x < fuel →
    (∀ j, x ≤ j → j < k → binCDF n p j < u) → u ≤ binCDF n p k →
    Binomial.invLoop (((n : ℝ) + 1) * (p / (1 - p))) (p / (1 - p)) fuel
        (u - (binCDF n p x - binTerm n p x)) (binTerm n p x) x = some k := by
  induction fuel with
  | zero => intro x k _ h; omega
  | succ f ih =>
    intro x k hxk hf hb ha
    simp only [Binomial.invLoop]
    by_cases hx : x = k
    · subst hx
      have : ¬ (binTerm n p x < u - (binCDF n p x - binTerm n p x)) := by
        intro h; linarith
      simp [this]
    · have hlt : binTerm n p x < u - (binCDF n p x - binTerm n p x) := by
        have := hb x (le_refl _) (by omega); linarith
      simp only [hlt, if_true]
      have e1 : u - (binCDF n p x - binTerm n p x) - binTerm n p x
          = u - (binCDF n p (x + 1) - binTerm n p (x + 1)) := by rw [binCDF_succ]; ring
      rw [e1, ← binTerm_succ n p h0 h1 x]
      exact ih (x + 1) k (by omega) (by omega) (fun j h2 h3 => hb j (by omega) h3) ha

/-! ### the uniforms are bounded away from 1: running products tend to 0 -/

/-- `alea::f64() ≤ 1 - 2⁻⁵³` -/
theorem uAt_le (g : Rng) (i : Nat) : uAt g i ≤ 1 - 1 / 2 ^ 53 := by
  show ((stAfter g i).f64 (α := ℝ)).1 ≤ _
  rw [f64_eq]
  have h := Rng.f53_lt (stAfter g i)
  have h' : (((stAfter g i).f53).1 : ℝ) ≤ 2 ^ 53 - 1 := by
    have : ((stAfter g i).f53).1 + 1 ≤ 2 ^ 53 := h
    have : ((((stAfter g i).f53).1 + 1 : ℕ) : ℝ) ≤ ((2 ^ 53 : ℕ) : ℝ) := by exact_mod_cast this
    push_cast at this; linarith
  have hp : (0 : ℝ) < ((2 ^ 53 : ℕ) : ℝ) := by positivity
  rw [div_le_iff₀ hp]
  push_cast
  nlinarith

theorem prodU_nonneg (g : Rng) (k : Nat) : 0 ≤ prodU g k :=
  Finset.prod_nonneg fun i _ => (uAt_mem g i).1

theorem prodU_le_pow (g : Rng) (k : Nat) : prodU g k ≤ (1 - 1 / 2 ^ 53 : ℝ) ^ k := by
  induction k with
  | zero => simp [prodU]
  | succ k ih =>
    rw [prodU_succ, pow_succ]
    exact mul_le_mul ih (uAt_le g k) (uAt_mem g k).1 (by positivity)

/-- for every positive limit some running product of the stream is below it -/
theorem exists_prodU_le (g : Rng) (limit : ℝ) (hl : 0 < limit) : ∃ k, prodU g (k + 1) ≤ limit := by
  obtain ⟨n, hn⟩ := exists_pow_lt_of_lt_one hl (show (1 - 1 / 2 ^ 53 : ℝ) < 1 by norm_num)
  refine ⟨n, ?_⟩
  have h1 := prodU_le_pow g (n + 1)
  have h2 : (1 - 1 / 2 ^ 53 : ℝ) ^ (n + 1) ≤ (1 - 1 / 2 ^ 53 : ℝ) ^ n :=
    pow_le_pow_of_le_one (by norm_num) (by norm_num) (Nat.le_succ n)
  linarith

end Cv.C03L
