"""C07 — quadrature rules are exact on their polynomial class and converge at order.

Request lines (implementation side): `<op> <tag> <args>`; the model sees `<op> <args>`.
  trapz <tag> <integrand> a b n | romberg <tag> <integrand> a b eps nmax | quad5 <tag> <integrand> a b
  trapezoid <tag> <vec y> (x <vec x> | nox) (dx <float> | nodx)
  <integrand> = poly <vec c> | <name> <k>      (catalogue: exec/src/bin/c07.rs = Model/Integrate.lean)

Oracle (reference: exact rational integrals of polynomials / piecewise-linear interpolants with `fractions`,
closed-form antiderivatives with mpmath at 40 digits):
  * exactness on the polynomial class, with the conditioning-scaled rounding allowance
        C_P * (deg + nodes + 4) * eps * |b-a| * sum_i |c_i| X^i,   X = max(|a|,|b|):
    trapz: degree <= 1, every n >= 1;  quad5: degree <= 19 (the table is the 10-point rule; the property asks >= 9);
    romberg with k levels: degree <= 2k-1 when eps = 0 (no early exit: k levels computed), degree <= min(2k-1, 5) for
    every eps > 0 (an early exit happens at a level s >= 2 and is exact to degree 2s+1 only: C07V.romberg_exact_at_stop_level).
  * trapezoid error bound  |trapz - I| <= |b-a|^3 max|f''| / (12 n^2) + rounding allowance, for polynomials
    (max|p''| <= sum i(i-1)|c_i| X^(i-2)) and the 19 smooth catalogue integrands (analytic bounds of max|f''|).
  * linearity / sign / degenerate interval: I(a,a) = 0 exactly; I(b,a) vs I(a,b) and I(f+g), I(c f) against the exact
    values (each member is checked against its own exact integral, which is what the relations reduce to).
  * Romberg early stop, decided on the implementation's own diagonal d[j] = romberg(f,a,b,0,j+1):
      (a) the value returned for eps > 0 is d[n*] for the first level n* >= 2 at which consecutive estimates agree,
          |d[n]-d[n-1]| < eps*min(|d[n]|,|d[n-1]|) or |d[n]-d[n-1]| < eps, else d[k-1] (exact comparison).  Before
          the repair F40 the source used `rel_diff`, which compares magnitudes only and stopped on estimates of
          opposite sign (witness kept in corpus(): romberg(x sin 2x, -1, 4.639172476564036, eps, 20) returned
          1.7742 instead of 2.7666);
      (b) for the well-resolved smooth regime the error of an early exit is <= K_TOL*eps*max(1,|I|) + rounding.
  * sampled trapezoid = exact integral of the piecewise-linear interpolant: allowance C_S*(n+3)*eps*sum|T_i|
    (T_i the exact panel areas); panics for length mismatch, x together with dx, empty y without x.
"""
import math
import os
import re
import struct
from fractions import Fraction

from .common import Failure, f2h, h2f, parse_reply, vec

ID = "C07"
BIN = "c07"
PROOF_MODULES = ["Compute.Props.C07"]
REQUIRED_THEOREMS = [
    "Cv.C07.trapz_eq_mathlib", "Cv.C07.trapz_error_bound", "Cv.C07.trapz_affine", "Cv.C07.trapz_swap",
    "Cv.C07.trapz_add", "Cv.C07.trapz_smul", "Cv.C07.trapz_self",
    "Cv.C07.quad5_add", "Cv.C07.quad5_smul", "Cv.C07.quad5_swap", "Cv.C07.quad5_self",
    "Cv.C07.tables_decode", "Cv.C07.quad5_moment_odd", "Cv.C07.quad5_moment_even",
    "Cv.C07.romberg_level1", "Cv.C07.romberg_simpson", "Cv.C07.romberg_simpson_cubic",
    "Cv.C07.romberg_boole", "Cv.C07.romberg_boole_quintic",
    "Cv.C07.trapezoid_eq", "Cv.C07.trapezoid_append", "Cv.C07.trapezoid_uniform",
]
RULE = ("monomials of degree 0..19 and random polynomials x random intervals (a<b, a>b, a=b, endpoints up to 1e3) x "
        "{trapz n=1..4096, quad5, romberg k=1..20 levels with eps in {0, 1e-12..1e-3}}; 19 smooth integrands with "
        "closed-form antiderivative; sampled arrays of 0..1e4 points (x / dx / default); non-trivial = distinct "
        "(op, integrand class, size bucket, regime)")
EXHAUSTIVE = {"quick": False, "thorough": False}
NOT_PROVED = [
    "floating-point rounding (all 'up to rounding' clauses are decided by the oracle with a conditioning-scaled allowance)",
    "Romberg exactness to degree 2k-1 for k > 3 levels (proved for every tolerance: k = 1 trapezoid/affine, k = 2 Simpson/cubics, k = 3 Boole/quintics); decided by the oracle for k <= 20",
    "linearity / limit-swap / no-early-exit-at-eps=0 of romberg for general k (proved for k <= 3 through the closed forms; oracle for k <= 20)",
    "Romberg error 'of the order of the tolerance' for smooth integrands (oracle clauses (a)-(c))",
    "quad5 exactness lifted from the moment residuals to arbitrary polynomials on arbitrary intervals (proved: residuals of the actual table doubles for every degree <= 19; linearity; affine change of variable is in the model)",
]
TRUSTED = ["integrand catalogue implemented twice (Rust executor, Lean model) with the same operation order; compared bit for bit",
           ]
ASSUMPTIONS = ["romberg level budgets <= 31 (2^31 integrand evaluations beyond)"]
IMPL_TIMEOUT = 1200
MODEL_TIMEOUT = 1800

EPS = 2.0 ** -53
# calibrated (VERIF_SEED=1..3 + default quick, one thorough run; CV_CALIB=1 prints the maxima of error/allowance with
# C = 1): quad5:poly 0.13, romberg:poly 0.22, trapz:affine 0.24, samples 0.46 (after the strata pass), trapz:bound 0.10, romberg:tol 0.029
# -> constants >= 100 x those:
C_P = 32.0       # polynomial exactness
C_T = 16.0       # rounding part of the trapezoid error bound
C_S = 64.0        # sampled trapezoid
K_TOL = 4.0      # early-exit accuracy in the well-resolved regime
TINY = 1e-300


def model_line(line):
    t = line.split()
    return " ".join([t[0]] + t[2:])


# ------------------------------------------------------------------ translator (quad5 tables)
def EXTRACT(repo):
    src = open(repo + "/src/integrate/functions.rs").read()

    def table(name):
        m = re.search(r"const\s+%s\s*:\s*\[f64;\s*(\d+)\]\s*=\s*\[([^\]]*)\];" % name, src)
        if not m:
            raise ValueError("table %s not found in integrate/functions.rs" % name)
        lits = [s.strip() for s in m.group(2).split(",") if s.strip()]
        if len(lits) != int(m.group(1)) or len(lits) != 5:
            raise ValueError("table %s: expected 5 entries, found %d" % (name, len(lits)))
        return lits

    nodes, weights = table("GAUSS_QUAD_NODES"), table("GAUSS_QUAD_WEIGHTS")
    if not re.search(r"\(0\.\.5\)\s*\.map\(\|i\|\s*\{\s*let dx = xr \* GAUSS_QUAD_NODES\[i\];\s*"
                     r"GAUSS_QUAD_WEIGHTS\[i\] \* \(f\(xm \+ dx\) \+ f\(xm - dx\)\)", src):
        _drift = ["quad5 body no longer has the textual shape the model was written against (tables are still regenerated)"]
    else:
        _drift = []

    def views(lits):
        bits, nums, exps = [], [], []
        for s in lits:
            x = float(s.replace("_", ""))
            b = struct.unpack("<Q", struct.pack("<d", x))[0]
            e, m = (b >> 52) & 0x7FF, b & ((1 << 52) - 1)
            if b >> 63 or e == 0 or e >= 1075:
                raise ValueError("table entry %s is not a positive normal double below 2^52" % s)
            bits.append(b)
            nums.append((1 << 52) + m)
            exps.append(1075 - e)
        return bits, nums, exps

    nb, nn, ne = views(nodes)
    wb, wn, we = views(weights)
    L = lambda xs, f: "[" + ", ".join(f(x) for x in xs) + "]"
    hx = lambda b: "0x%016X" % b
    out = """/- GENERATED by tools/cv/c07.py (EXTRACT) from /repo/src/integrate/functions.rs — do not edit.
Gauss–Legendre tables of `quad5` in three views: source text, IEEE-754 bit pattern (used by the
`Float` instance of the model) and the exact dyadic value `num / 2^exp` of that double (used by the
theorems).  `Props/C07.lean` proves that the bit patterns decode to the dyadic values. -/
namespace Cv.C07Tables

/-- `GAUSS_QUAD_NODES` as written in the source: %s -/
def nodeBits : List UInt64 := %s
/-- `GAUSS_QUAD_WEIGHTS` as written in the source: %s -/
def weightBits : List UInt64 := %s

def nodeNum : List Nat := %s
def nodeExp : List Nat := %s
def weightNum : List Nat := %s
def weightExp : List Nat := %s

end Cv.C07Tables
""" % (", ".join(nodes), L(nb, hx), ", ".join(weights), L(wb, hx), L(nn, str), L(ne, str), L(wn, str), L(we, str))
    if _drift:
        from .common import SourceDrift
        raise SourceDrift(" || ".join(_drift), {"Compute/Generated/C07Tables.lean": out})
    return {"Compute/Generated/C07Tables.lean": out}


# ------------------------------------------------------------------ catalogue (oracle side: mpmath)
def _mp():
    import mpmath
    mpmath.mp.dps = 40
    return mpmath


def cat():
    """name -> dict(F=antiderivative(x,k), f=f(x,k) [mpmath], m2=bound of max|f''| on [lo,hi] (floats),
    gen=rng -> (k, a, b))"""
    mp = _mp()
    E = math.exp

    def iv(rng, lo, hi):
        a, b = rng.uniform(lo, hi), rng.uniform(lo, hi)
        return a, b

    def sk(rng, lo, hi):
        return rng.uniform(lo, hi) * rng.choice([1.0, -1.0])

    C = {}
    C["expk"] = dict(f=lambda x, k: mp.exp(k * x), F=lambda x, k: mp.exp(k * x) / k,
                     m2=lambda k, lo, hi: k * k * max(E(k * lo), E(k * hi)),
                     gen=lambda r: (sk(r, 0.1, 3),) + iv(r, -3, 3))
    C["sink"] = dict(f=lambda x, k: mp.sin(k * x), F=lambda x, k: -mp.cos(k * x) / k, m2=lambda k, lo, hi: k * k,
                     gen=lambda r: (r.uniform(0.1, 5),) + iv(r, -5, 5))
    C["cosk"] = dict(f=lambda x, k: mp.cos(k * x), F=lambda x, k: mp.sin(k * x) / k, m2=lambda k, lo, hi: k * k,
                     gen=lambda r: (r.uniform(0.1, 5),) + iv(r, -5, 5))
    C["sin2"] = dict(f=lambda x, k: mp.sin(k * x) ** 2, F=lambda x, k: x / 2 - mp.sin(2 * k * x) / (4 * k),
                     m2=lambda k, lo, hi: 2 * k * k, gen=lambda r: (r.uniform(0.1, 4),) + iv(r, -4, 4))
    C["runge"] = dict(f=lambda x, k: 1 / (1 + k * x * x), F=lambda x, k: mp.atan(mp.sqrt(k) * x) / mp.sqrt(k),
                      m2=lambda k, lo, hi: 2 * k, gen=lambda r: (r.uniform(0.1, 25),) + iv(r, -3, 3))
    C["sqrt1"] = dict(f=lambda x, k: mp.sqrt(1 + k * x), F=lambda x, k: 2 * (1 + k * x) ** mp.mpf(1.5) / (3 * k),
                      m2=lambda k, lo, hi: k * k / 4 * (1 + k * lo) ** -1.5,
                      gen=lambda r: (r.uniform(0.1, 2),) + iv(r, 0, 5))
    C["xexp"] = dict(f=lambda x, k: x * mp.exp(k * x), F=lambda x, k: mp.exp(k * x) * (k * x - 1) / (k * k),
                     m2=lambda k, lo, hi: (2 * abs(k) + k * k * max(abs(lo), abs(hi))) * max(E(k * lo), E(k * hi)),
                     gen=lambda r: (r.choice([-1.0, 1.0]) * r.uniform(0.1, 1.5),) + iv(r, -2, 4))
    C["log1"] = dict(f=lambda x, k: mp.log(1 + k * x), F=lambda x, k: ((1 + k * x) * mp.log(1 + k * x) - (1 + k * x)) / k,
                     m2=lambda k, lo, hi: k * k / (1 + k * lo) ** 2, gen=lambda r: (r.uniform(0.1, 3),) + iv(r, 0, 10))
    C["gauss"] = dict(f=lambda x, k: mp.exp(k * x * x),
                      F=lambda x, k: mp.sqrt(mp.pi) / (2 * mp.sqrt(-k)) * mp.erf(mp.sqrt(-k) * x),
                      m2=lambda k, lo, hi: 2 * abs(k) + 4 * k * k * max(lo * lo, hi * hi),
                      gen=lambda r: (-r.uniform(0.1, 4),) + iv(r, -3, 3))
    C["cosh"] = dict(f=lambda x, k: mp.cosh(k * x), F=lambda x, k: mp.sinh(k * x) / k,
                     m2=lambda k, lo, hi: k * k * math.cosh(k * max(abs(lo), abs(hi))),
                     gen=lambda r: (r.uniform(0.1, 2),) + iv(r, -3, 3))
    C["powx"] = dict(f=lambda x, k: x ** k, F=lambda x, k: x ** (k + 1) / (k + 1),
                     m2=lambda k, lo, hi: abs(k * (k - 1)) * max(lo ** (k - 2), hi ** (k - 2)),
                     gen=lambda r: (r.uniform(-0.9, 3.5),) + iv(r, 0.5, 6))
    C["recip"] = dict(f=lambda x, k: 1 / (k + x), F=lambda x, k: mp.log(k + x), m2=lambda k, lo, hi: 2 / (k + lo) ** 3,
                      gen=lambda r: (r.uniform(1, 5),) + iv(r, 0, 10))
    C["sincos"] = dict(f=lambda x, k: mp.sin(k * x) * mp.cos(x),
                       F=lambda x, k: -mp.cos((k - 1) * x) / (2 * (k - 1)) - mp.cos((k + 1) * x) / (2 * (k + 1)),
                       m2=lambda k, lo, hi: k * k + 1, gen=lambda r: (r.uniform(1.5, 4),) + iv(r, -4, 4))
    C["xsin"] = dict(f=lambda x, k: x * mp.sin(k * x), F=lambda x, k: mp.sin(k * x) / (k * k) - x * mp.cos(k * x) / k,
                     m2=lambda k, lo, hi: 2 * abs(k) + k * k * max(abs(lo), abs(hi)),
                     gen=lambda r: (r.uniform(0.2, 4),) + iv(r, -4, 4))
    C["expsin"] = dict(f=lambda x, k: mp.exp(x) * mp.sin(k * x),
                       F=lambda x, k: mp.exp(x) * (mp.sin(k * x) - k * mp.cos(k * x)) / (1 + k * k),
                       m2=lambda k, lo, hi: E(hi) * (abs(1 - k * k) + 2 * abs(k)),
                       gen=lambda r: (r.uniform(0.2, 4),) + iv(r, -3, 3))
    C["rat2"] = dict(f=lambda x, k: x / (1 + k * x * x), F=lambda x, k: mp.log(1 + k * x * x) / (2 * k),
                     m2=lambda k, lo, hi: 2 * k * max(abs(lo), abs(hi)) * (k * max(lo * lo, hi * hi) + 3),
                     gen=lambda r: (r.uniform(0.1, 5),) + iv(r, -3, 3))
    C["logx"] = dict(f=lambda x, k: mp.log(k * x) / x, F=lambda x, k: mp.log(k * x) ** 2 / 2,
                     m2=lambda k, lo, hi: (2 * max(abs(math.log(k * lo)), abs(math.log(k * hi))) + 3) / lo ** 3,
                     gen=lambda r: (r.uniform(0.5, 3),) + iv(r, 0.5, 6))
    C["sqrtq"] = dict(f=lambda x, k: mp.sqrt(k + x * x),
                      F=lambda x, k: (x * mp.sqrt(k + x * x) + k * mp.asinh(x / mp.sqrt(k))) / 2,
                      m2=lambda k, lo, hi: 1 / math.sqrt(k), gen=lambda r: (r.uniform(0.1, 9),) + iv(r, -4, 4))
    C["tanhd"] = dict(f=lambda x, k: 1 / mp.cosh(k * x) ** 2, F=lambda x, k: mp.tanh(k * x) / k,
                      m2=lambda k, lo, hi: 2 * k * k, gen=lambda r: (r.uniform(0.1, 3),) + iv(r, -3, 3))
    return C


_CAT = None


def catalogue():
    global _CAT
    if _CAT is None:
        _CAT = cat()
    return _CAT


NAMES = ["expk", "sink", "cosk", "sin2", "runge", "sqrt1", "xexp", "log1", "gauss", "cosh", "powx", "recip", "sincos",
         "xsin", "expsin", "rat2", "logx", "sqrtq", "tanhd"]


# ------------------------------------------------------------------ generator
def ig_poly(c):
    return "poly " + vec(c)


def ig_named(name, k):
    return "%s %s" % (name, f2h(k))


def interval(rng):
    r = rng.random()
    if r < 0.08:
        a = rng.uniform(-10, 10)
        return a, a
    s = 10.0 ** rng.randint(-1, 3)
    if r < 0.25:  # small integers / dyadic
        a, b = float(rng.randint(-8, 8)), float(rng.randint(-8, 8))
    else:
        a, b = rng.uniform(-s, s), rng.uniform(-s, s)
    return a, b


def rand_poly(rng, dmax):
    d = rng.randint(0, dmax)
    kind = rng.random()
    if kind < 0.35:  # monomial
        c = [0.0] * d + [rng.choice([1.0, -1.0, rng.normal()])]
    elif kind < 0.6:
        c = [float(rng.randint(-9, 9)) for _ in range(d + 1)]
    else:
        c = [rng.normal() * 10.0 ** rng.randint(-2, 2) for _ in range(d + 1)]
    return c


EPS_CHOICES = [1e-12, 1e-10, 1e-8, 1e-6, 1e-5, 1e-4, 1e-3]


def romberg_family(rng, tag, ig, a, b, k, neps=2, eps_list=None):
    L = ["romberg %s %s %s %s %s %d" % (tag + ":diag", ig, f2h(a), f2h(b), f2h(0.0), j) for j in range(1, k + 1)]
    for e in (eps_list if eps_list is not None else [rng.choice(EPS_CHOICES) for _ in range(neps)]):
        L.append("romberg %s %s %s %s %s %d" % (tag + ":eps", ig, f2h(a), f2h(b), f2h(e), k))
    return L


# Witness of the sign-blind early stop repaired by F40 (found by bisection on the upper limit so that
# R[2][2] = -R[1][1]): romberg(x sin 2x, -1, 4.639172476564036, eps, 20) returned 1.7742297968212049,
# the integral is 2.7666369724076922.
SIGN_WITNESS_B = 4.639172476564036


def corpus():
    L = []
    # resolution limit (round-10 seed C07w): [1000, 1000 + 2^-30] holds 2^13 doubles, so from level 14 on the new
    # abscissae a + (2k-1) hn repeat bitwise; every one of them must still be summed
    for c_ in ([3.0], [0.0, 1.0]):
        for k_ in (16, 20):
            L.append("romberg poly:reslimit:diag %s %s %s %s %d" % (ig_poly(c_), f2h(1000.0), f2h(1000.0 + 2.0 ** -30), f2h(0.0), k_))
    one = ig_poly([1.0])
    # F16: trapz(1, 0, 1, 1) must be 1
    L.append("trapz poly:F16 %s %s %s 1" % (one, f2h(0.0), f2h(1.0)))
    L.append("trapz poly:n0 %s %s %s 0" % (one, f2h(0.0), f2h(1.0)))
    for n in (1, 2, 3, 7, 8, 9, 4096):
        L.append("trapz poly %s %s %s %d" % (ig_poly([2.0, -3.0]), f2h(-1.5), f2h(4.25), n))
    for d in range(0, 20):
        c = [0.0] * d + [1.0]
        L.append("quad5 poly %s %s %s" % (ig_poly(c), f2h(-1.0), f2h(1.0)))
        L.append("quad5 poly %s %s %s" % (ig_poly(c), f2h(0.5), f2h(3.0)))
    L.append("romberg poly %s %s %s %s 0" % (one, f2h(0.0), f2h(1.0), f2h(0.0)))  # panic
    L.append("romberg poly %s %s %s %s 1" % (one, f2h(0.0), f2h(1.0), f2h(0.0)))
    L += romberg_family(_ZeroRng(), "poly", ig_poly([0.0] * 7 + [1.0]), 0.0, 2.0, 6)
    # sampled trapezoid: unit test of the crate, panics
    x = [1., 2., 3., 5., 6., 7.]
    y = [2., 4., 5., 6., 5., 2.]
    L.append("trapezoid samples %s x %s nodx" % (vec(y), vec(x)))
    L.append("trapezoid samples %s nox nodx" % vec(y))
    L.append("trapezoid samples %s nox dx %s" % (vec(y), f2h(0.5)))
    L.append("trapezoid samples %s x %s dx %s" % (vec(y), vec(x), f2h(0.5)))
    L.append("trapezoid samples %s x %s nodx" % (vec(y), vec(x[:-1])))
    L.append("trapezoid samples 0 nox nodx")
    L.append("trapezoid samples 0 x 0 nodx")
    L.append("trapezoid samples %s nox nodx" % vec([3.0]))
    ig = ig_named("xsin", 2.0)
    L += ["romberg xsin:wide:diag %s %s %s %s %d" % (ig, f2h(-1.0), f2h(SIGN_WITNESS_B), f2h(0.0), j) for j in range(1, 21)]
    L += ["romberg xsin:wide:eps %s %s %s %s 20" % (ig, f2h(-1.0), f2h(SIGN_WITNESS_B), f2h(e)) for e in (1e-12, 1e-8, 1e-3)]
    return L


class _ZeroRng:
    def choice(self, xs):
        return xs[len(xs) // 2]


def gen(rng, tier):
    lines = []
    cover = {}

    def bump(k, c=1):
        cover[k] = cover.get(k, 0) + c

    thorough = tier != "quick"
    C = catalogue()
    # ---- polynomials
    for it in range(260 if not thorough else 3000):
        a, b = interval(rng)
        bump("interval:" + ("a=b" if a == b else "a<b" if a < b else "a>b"))
        c = rand_poly(rng, 19)
        ig = ig_poly(c)
        deg = len(c) - 1
        bump("poly:deg%d" % deg)
        r = rng.random()
        if r < 0.3:
            n = rng.choice([1, 2, 3, 4, 5, 7, 8, 9, 16, 17, 64, 100, 1000, 4096, rng.randint(1, 4096)])
            if deg > 1 and rng.chance(0.5):
                c = c[:2]
                ig = ig_poly(c)
            lines.append("trapz poly %s %s %s %d" % (ig, f2h(a), f2h(b), n))
        elif r < 0.55:
            lines.append("quad5 poly %s %s %s" % (ig, f2h(a), f2h(b)))
        else:
            kmax = 20 if (thorough and rng.chance(0.1)) else 11
            k = rng.randint(max(1, (deg + 2) // 2), max(kmax, (deg + 2) // 2)) if rng.chance(0.8) else rng.randint(1, 10)
            if it == 0:
                k = 20
            lines += romberg_family(rng, "poly", ig, a, b, k)
            bump("romberg:levels%d" % k)
    # linearity / swap families on polynomials (each member against its exact integral)
    for _ in range(40 if not thorough else 400):
        a, b = interval(rng)
        p, q = rand_poly(rng, 9), rand_poly(rng, 9)
        n = max(len(p), len(q))
        pp, qq = p + [0.0] * (n - len(p)), q + [0.0] * (n - len(q))
        s = float(rng.randint(-4, 4))
        fam = [p, q, [x + y for x, y in zip(pp, qq)], [s * x for x in p]]
        m = rng.randint(1, 300)
        for c in fam:
            for (u, v) in ((a, b), (b, a)):
                lines.append("trapz poly:lin %s %s %s %d" % (ig_poly(c[:2]), f2h(u), f2h(v), m))
                lines.append("quad5 poly:lin %s %s %s" % (ig_poly(c), f2h(u), f2h(v)))
                lines.append("romberg poly:lin %s %s %s %s %d" % (ig_poly(c), f2h(u), f2h(v), f2h(0.0), 5))
        bump("linearity-family")
    # ---- smooth catalogue
    for _ in range(12 if not thorough else 120):
        for name in NAMES:
            k, a, b = C[name]["gen"](rng)
            narrow = rng.chance(0.5)
            if narrow:  # well-resolved regime for the tolerance claim
                mid = (a + b) / 2
                w = rng.uniform(0.2, 1.0) / max(1.0, abs(k)) * rng.choice([1.0, -1.0])
                lo_ok = min(a, b)
                a, b = mid - w / 2, mid + w / 2
                if name in ("sqrt1", "log1", "recip", "powx", "logx") and min(a, b) < lo_ok:
                    sh = lo_ok - min(a, b)
                    a, b = a + sh, b + sh
            tag = name + (":narrow" if narrow else ":wide")
            ig = ig_named(name, k)
            n = rng.choice([1, 2, 4, 10, 33, 128, 1000, 4096, rng.randint(1, 4096)])
            lines.append("trapz %s %s %s %s %d" % (tag, ig, f2h(a), f2h(b), n))
            lines.append("quad5 %s %s %s %s" % (tag, ig, f2h(a), f2h(b)))
            kk = rng.randint(2, 12) if not (thorough and rng.chance(0.15)) else rng.randint(13, 20)
            lines += romberg_family(rng, tag, ig, a, b, kk, neps=3)
            bump("smooth:" + name)
    # ---- sampled trapezoid
    for _ in range(80 if not thorough else 800):
        r = rng.random()
        n = rng.randint(0, 12) if r < 0.4 else rng.randint(2, 400) if r < 0.93 else rng.randint(1000, 10000)
        ykind = rng.random()
        if ykind < 0.3:
            y = [float(rng.randint(-20, 20)) for _ in range(n)]
        else:
            s = 10.0 ** rng.randint(-2, 3)
            y = [rng.normal() * s for _ in range(n)]
        mode = rng.random()
        if mode < 0.45:  # non-uniform abscissae (sorted or not: the formula does not care)
            x0 = rng.uniform(-100, 100)
            x = []
            for _i in range(n):
                x0 += rng.loguniform(1e-3, 10)
                x.append(x0)
            if rng.chance(0.1):
                rng.shuffle(x)
            if rng.chance(0.06):
                x = x[:-1] if x else [1.0]
                bump("samples:length-mismatch")
            dx = " dx " + f2h(0.5) if rng.chance(0.05) else " nodx"
            lines.append("trapezoid samples:x %s x %s%s" % (vec(y), vec(x), dx))
            bump("samples:x")
        elif mode < 0.75:  # uniform dyadic grid: both forms
            d = rng.choice([0.5, 0.25, 2.0, 1.0, 0.125, 3.0])
            x0 = float(rng.randint(-50, 50))
            x = [x0 + i * d for i in range(n)]
            lines.append("trapezoid samples:ux %s x %s nodx" % (vec(y), vec(x)))
            lines.append("trapezoid samples:udx %s nox dx %s" % (vec(y), f2h(d)))
            bump("samples:uniform-pair")
        elif mode < 0.9:
            lines.append("trapezoid samples:dx %s nox dx %s" % (vec(y), f2h(rng.loguniform(1e-3, 1e2))))
            bump("samples:dx")
        else:
            lines.append("trapezoid samples:default %s nox nodx" % vec(y))
            bump("samples:default")
    lines += strata(rng.fork("strata"), tier, bump)
    return lines, cover


# ------------------------------------------------------------------ generic strata (tools/GENERIC_STRATA.md)
def special_reals(rng):
    k = rng.randint(-8, 9)
    p2 = 2.0 ** k
    return [0.0, -0.0, 1.0, -1.0, 0.5, -0.5, 1.5, 2.0, 3.0, 1.0 / 3.0, 2.0 / 3.0, -1.0 / 3.0, p2, -p2, math.nextafter(p2, 0.0),
            math.nextafter(p2, 2 * p2), 1000.0, -1000.0, 1e-300, 5e-324, float(rng.randint(-100, 100)), rng.randint(-99, 99) + 0.5]


def poly_mul(p, q):
    r = [Fraction(0)] * (len(p) + len(q) - 1)
    for i, u in enumerate(p):
        for j, v in enumerate(q):
            r[i + j] += u * v
    return r


def flat_poly(rng):
    """non-affine polynomial with p(mid) = (p(a)+p(b))/2 exactly, so that R[1][1] = R[0][0] (round-2 seed C07d):
    affine + c * (x-a)(x-m)(x-b) * q(x), q of degree 1 or the cubic itself; returns (coeffs, a, b) or None."""
    a = Fraction(rng.randint(-3, 3))
    h = Fraction(rng.choice([1, 2, 4, 1, 1])) / rng.choice([1, 2, 4])
    m, b = a + h, a + 2 * h
    cubic = poly_mul(poly_mul([-a, Fraction(1)], [-m, Fraction(1)]), [-b, Fraction(1)])
    if rng.chance(0.4):
        q = cubic
    else:
        q = [Fraction(rng.randint(-4, 4)) / rng.choice([1, 2]), Fraction(rng.choice([1, -1, 2]))]
    p = poly_mul(cubic, q)
    c = Fraction(rng.choice([1, -1, 2, 8, -16]))
    p = [c * v for v in p]
    p[0] += rng.randint(-3, 3)
    p[1] += rng.randint(-2, 2)
    fl_ = [float(v) for v in p]
    if any(Fraction(f) != v for f, v in zip(fl_, p)):
        return None
    return fl_, float(a), float(b)


def sample_lines(rng, tagsfx, y, modes=("x", "ux", "dx", "default")):
    L = []
    n = len(y)
    for mode in modes:
        if mode == "x":
            x0 = rng.choice([0.0, -1.0, rng.uniform(-100, 100), float(rng.randint(-50, 50))])
            x = []
            for _i in range(n):
                x.append(x0)
                x0 += rng.choice([rng.loguniform(1e-3, 10), 0.5, 1.0, 0.0 if rng.chance(0.1) else 0.25])
            L.append("trapezoid samples:x%s %s x %s nodx" % (tagsfx, vec(y), vec(x)))
        elif mode == "ux":
            d = rng.choice([0.5, 0.25, 2.0, 1.0, 0.125, 3.0, -0.5])
            x0 = float(rng.randint(-50, 50))
            L.append("trapezoid samples:ux %s x %s nodx" % (vec(y), vec([x0 + i * d for i in range(n)])))
            L.append("trapezoid samples:udx %s nox dx %s" % (vec(y), f2h(d)))
        elif mode == "dx":
            L.append("trapezoid samples:dx%s %s nox dx %s" % (tagsfx, vec(y), f2h(rng.choice([rng.loguniform(1e-3, 1e2), 1.0, 0.5, -2.0, 0.0, 1.0 / 3.0]))))
        else:
            L.append("trapezoid samples:default%s %s nox nodx" % (tagsfx, vec(y)))
    return L


def strata(rng, tier, bump):
    L = []
    thorough = tier != "quick"
    reps = 1 if not thorough else 5
    C = catalogue()
    TINY_EPS = [1e-300, 5e-324, 1e-18]
    # (1) a > b with the level budget exhausted: eps = 0 or an unreachable tolerance (round-3 seed C07f)
    for _ in range(20 * reps):
        a, b = interval(rng)
        if a < b:
            a, b = b, a
        if rng.chance(0.3):
            a, b = float(rng.randint(0, 8)), float(rng.randint(-8, 0))
        c = rand_poly(rng, rng.choice([1, 3, 5, 7, 9, 13, 19]))
        k = rng.randint(1, 10)
        L += romberg_family(rng, "poly", ig_poly(c), a, b, k, eps_list=[rng.choice(TINY_EPS), rng.choice(TINY_EPS)])
        bump("strata:a>b-exhausted")
    for _ in range(2 * reps):
        for name in NAMES:
            kp, a, b = C[name]["gen"](rng)
            if a < b:
                a, b = b, a
            k = rng.randint(1, 7)
            L += romberg_family(rng, name + ":wide", ig_named(name, kp), a, b, k, eps_list=[rng.choice(TINY_EPS), 1e-15])
            bump("strata:a>b-exhausted-smooth")
    # (2) level budgets 16..20 with eps = 0 (both orientations)
    for _ in range(reps):
        for k in (16, 17, 18, 19, 20):
            a, b = interval(rng)
            c = rand_poly(rng, 19)
            L.append("romberg poly:diag %s %s %s %s %d" % (ig_poly(c), f2h(a), f2h(b), f2h(0.0), k))
            L.append("romberg poly:diag %s %s %s %s %d" % (ig_poly(c), f2h(b), f2h(a), f2h(0.0), k))
            name = rng.choice(NAMES)
            kp, a, b = C[name]["gen"](rng)
            L.append("romberg %s:wide:diag %s %s %s %s %d" % (name, ig_named(name, kp), f2h(a), f2h(b), f2h(0.0), k))
            bump("strata:levels16-20")
    # (3) integrands with f(mid) = (f(a)+f(b))/2 and eps > 0 (round-2 seed C07d)
    for _ in range(16 * reps):
        fp = flat_poly(rng)
        if fp is None:
            continue
        c, a, b = fp
        k = rng.randint(3, 8)
        u, v = (a, b) if rng.chance(0.6) else (b, a)
        L += romberg_family(rng, "poly", ig_poly(c), u, v, k, eps_list=[rng.choice(EPS_CHOICES), rng.choice(EPS_CHOICES), 0.5])
        bump("strata:flat-midpoint-poly")
    pi = math.pi
    for (name, kp, a, b) in [("sin2", 2 * pi, 0.0, 1.0), ("cosk", 4 * pi, 0.0, 1.0), ("sin2", pi, -1.0, 1.0), ("cosk", 2 * pi, -1.0, 1.0),
                             ("sink", 2 * pi, 0.0, 1.0), ("sin2", 1.0, 0.0, 2 * pi), ("cosk", 2.0, 0.0, 2 * pi), ("sin2", 2.0, -pi, pi)]:
        for (u, v) in ((a, b), (b, a)):
            L += romberg_family(rng, name + ":wide", ig_named(name, kp), u, v, rng.randint(6, 10), eps_list=[1e-8, 1e-3, rng.choice(EPS_CHOICES)])
        bump("strata:flat-midpoint-periodic")
    # (4) exact special values for the limits and the coefficients; panel-count boundaries
    NB = [1, 2, 3, 4, 5, 7, 8, 9, 15, 16, 17, 31, 32, 33, 63, 64, 65, 127, 128, 129, 255, 256, 257, 511, 512, 513, 1023, 1024, 1025,
          2047, 2048, 2049, 4095, 4096]
    for _ in range(reps):
        for n in NB:
            sp = special_reals(rng)
            a, b = rng.choice(sp), rng.choice(sp)
            c = [rng.choice(sp) if rng.chance(0.5) else float(rng.randint(-9, 9)) for _ in range(rng.choice([1, 2, 2, 3, 6]))]
            c = [v if abs(v) > 1e-200 or v == 0.0 else 0.0 for v in c]
            L.append("trapz poly %s %s %s %d" % (ig_poly(c), f2h(a), f2h(b), n))
            L.append("trapz poly %s %s %s %d" % (ig_poly(c[:2]), f2h(b), f2h(a), n))
            bump("strata:panel-boundary")
    for _ in range(30 * reps):
        sp = special_reals(rng)
        a, b = rng.choice(sp), rng.choice(sp)
        c = [rng.choice(sp) if rng.chance(0.4) else rng.normal() for _ in range(rng.randint(1, 12))]
        c = [v if abs(v) > 1e-200 or v == 0.0 else 0.0 for v in c]
        L.append("quad5 poly %s %s %s" % (ig_poly(c), f2h(a), f2h(b)))
        L.append("trapz poly %s %s %s %d" % (ig_poly(c), f2h(a), f2h(b), rng.choice(NB)))
        L += romberg_family(rng, "poly", ig_poly(c), a, b, rng.randint(1, 8))
        bump("strata:special-values")
    # (5) extreme scale: coefficients times 2^+-500 scale every rule exactly
    for _ in range(6 * reps):
        g = 10 ** 9 + len(L)
        a, b = float(rng.randint(-8, 8)), rng.uniform(-8, 8)
        c = rand_poly(rng, 9)
        n, k = rng.choice([1, 3, 8, 100]), rng.randint(1, 8)
        for j, e in enumerate([0, 500, -500]):
            cs = [v * 2.0 ** e for v in c]
            tag = "poly:ps:%d:%d:%d" % (g, j, e)
            L.append("trapz %s %s %s %s %d" % (tag, ig_poly(cs), f2h(a), f2h(b), n))
            L.append("quad5 %s %s %s %s" % (tag, ig_poly(cs), f2h(a), f2h(b)))
            L.append("romberg %s %s %s %s %s %d" % (tag, ig_poly(cs), f2h(a), f2h(b), f2h(0.0), k))
        bump("strata:extreme-scale")
    # (6) sampled trapezoid: exactly two samples (round-3 seed C07g), 0/1/3 samples, in every spacing mode
    for _ in range(6 * reps):
        for n in (2, 2, 2, 1, 3, 0):
            sp = special_reals(rng)
            y = [rng.choice(sp) if rng.chance(0.5) else rng.normal() * 10.0 ** rng.randint(-2, 3) for _ in range(n)]
            L += sample_lines(rng, "", y)
            bump("strata:samples-n%d" % n)
    # (7) sample-array length boundaries (blocked summation at 1024 / 2048: seed C07b)
    SB = [4, 5, 7, 8, 9, 15, 16, 17, 31, 32, 33, 63, 64, 65, 127, 128, 129, 255, 256, 257, 511, 512, 513, 1023, 1024, 1025, 1026,
          2047, 2048, 2049, 2050, 4095, 4096, 4097, 4098, 8191, 8192, 8193, 10000]
    for _ in range(reps):
        for n in SB:
            y = [rng.normal() * 10.0 + 5.0 for _ in range(n)] if rng.chance(0.7) else [float(rng.randint(1, 20)) for _ in range(n)]
            modes = ("x", "ux", "dx", "default") if (n >= 1023 and n <= 2050) or thorough else (rng.choice(["x", "ux"]), rng.choice(["dx", "default"]))
            L += sample_lines(rng, "", y, modes)
            bump("strata:samples-length")
    # (8) non-uniform grids whose first spacing equals the mean spacing (round-2 seed C07e)
    for _ in range(reps):
        for n in (3, 4, 5, 6, 8, 9, 16, 17, 33, 100, 1024, 2049):
            for _t in range(2):
                h = rng.choice([0.5, 1.0, 2.0, 0.25, 3.0])
                x0 = float(rng.randint(-20, 20))
                x = [x0 + i * h for i in range(n)]
                for i in range(2, n - 1):
                    x[i] += rng.randint(-3, 3) * h / 16.0
                y = [rng.normal() * 10.0 + rng.choice([0.0, 50.0]) for _ in range(n)]
                L.append("trapezoid samples:x %s x %s nodx" % (vec(y), vec(x)))
            bump("strata:first-spacing-is-mean")
    # (9) extreme scale of the samples: y times 2^+-500 scales the result exactly
    for _ in range(4 * reps):
        g = 10 ** 9 + len(L)
        n = rng.choice([2, 3, 9, 33, 200])
        y = [rng.normal() for _ in range(n)]
        x0, x = 0.0, []
        for _i in range(n):
            x.append(x0)
            x0 += rng.loguniform(1e-2, 10)
        for j, e in enumerate([0, 500, -500]):
            ys = [v * 2.0 ** e for v in y]
            L.append("trapezoid samples:ys:%d:%d:%d %s x %s nodx" % (g, j, e, vec(ys), vec(x)))
            L.append("trapezoid samples:ys:%d:%d:%d %s nox dx %s" % (g + 1, j, e, vec(ys), f2h(0.375)))
        bump("strata:samples-extreme-scale")
    # (10) resolution limit (round-10 seed C07w): intervals [c, c + 2^m ulp(c)] that hold only 2^m + 1 doubles, so the
    # abscissae of romberg repeat bitwise from level m+1 on (those of trapz for n > 2^m, of quad5 for m <= 4); repeated
    # abscissae are still a valid quadrature: every level stays within rounding of the exact integral
    centres = [1.0, 1000.0, 2.0 ** 20, 1e10, -1000.0]
    polys = [[3.0], [0.0, 1.0], [0.0, 0.0, 1.0], [1.0, -2.0], [2.0, 1.0, -1.0], [1.0, 0.0, 0.0, 1.0]]
    ms = list(range(4, 19))
    for c0 in centres:
        mlist = ms if thorough else [rng.choice(ms[:5]), rng.choice(ms[5:10]), rng.choice(ms[10:])]
        for m in mlist:
            w = 2.0 ** m * math.ulp(abs(c0))
            lo, hi = c0, c0 + w
            for orient in ((0, 1) if thorough else (rng.randint(0, 1),)):
                a, b = (lo, hi) if orient == 0 else (hi, lo)
                plist = polys if thorough else [polys[0], polys[1], rng.choice(polys[2:])]
                for c in plist:
                    k = 20 if (thorough or rng.chance(0.6)) else rng.randint(max(1, m - 2), 20)
                    L += romberg_family(rng, "poly:reslimit", ig_poly(c), a, b, k, eps_list=[rng.choice([1e-300, 5e-324, 1e-18])])
                    bump("strata:reslimit-romberg")
                if m <= 12:
                    for n in sorted({max(1, 2 ** m // 2), 2 ** m, min(4096, 2 ** (m + 1)), min(4096, 2 ** (m + 3)), 4096}):
                        L.append("trapz poly:reslimit %s %s %s %d" % (ig_poly(rng.choice(polys[:2] + [polys[3]])), f2h(a), f2h(b), n))
                    bump("strata:reslimit-trapz")
    for c0 in centres:
        for m in (0, 1, 2, 3, 4, 5):
            w = 2.0 ** m * math.ulp(abs(c0))
            a, b = (c0, c0 + w) if rng.chance(0.5) else (c0 + w, c0)
            for c in (polys[0], polys[1], rng.choice(polys[2:])):
                L.append("quad5 poly:reslimit %s %s %s" % (ig_poly(c), f2h(a), f2h(b)))
                L.append("trapz poly:reslimit %s %s %s %d" % (ig_poly(c[:2]), f2h(a), f2h(b), rng.choice([1, 2, 7, 64, 4096])))
            bump("strata:reslimit-quad5")
    return L


def nontrivial(line, reply):
    if not reply.startswith("="):
        return None
    t = line.split()
    if t[0] == "trapezoid":
        return "trapezoid:%s:%s" % (t[1], t[2])
    p = parse_line(line)
    size = p.get("n", p.get("nmax", 0))
    cls = "deg%d" % (len(p["c"]) - 1) if p["name"] == "poly" else p["name"]
    return "%s:%s:%s:%d:%s" % (t[0], t[1], cls, size, "eq" if p["a"] == p["b"] else "lt" if p["a"] < p["b"] else "gt")


# ------------------------------------------------------------------ oracle
def parse_line(line):
    t = line.split()
    op, tag = t[0], t[1]
    i = 2
    d = {"op": op, "tag": tag}
    if t[i] == "poly":
        n = int(t[i + 1])
        d["name"] = "poly"
        d["c"] = [h2f(v) for v in t[i + 2:i + 2 + n]]
        i += 2 + n
    else:
        d["name"] = t[i]
        d["k"] = h2f(t[i + 1])
        i += 2
    d["ig"] = " ".join(t[2:i])
    d["a"], d["b"] = h2f(t[i]), h2f(t[i + 1])
    i += 2
    if op == "trapz":
        d["n"] = int(t[i])
    elif op == "romberg":
        d["eps"] = h2f(t[i])
        d["nmax"] = int(t[i + 1])
    return d


def poly_exact(c, a, b):
    A, B = Fraction(a), Fraction(b)
    return sum(Fraction(ci) * (B ** (i + 1) - A ** (i + 1)) / (i + 1) for i, ci in enumerate(c))


def poly_scale(c, a, b):
    X = max(abs(a), abs(b))
    return sum(abs(ci) * X ** i for i, ci in enumerate(c))


def poly_m2(c, a, b):
    X = max(abs(a), abs(b))
    return sum(i * (i - 1) * abs(ci) * X ** (i - 2) for i, ci in enumerate(c) if i >= 2)


def fminnum(a, b):
    if a != a:
        return b
    if b != b:
        return a
    return min(a, b)


CALIB = {}


def calib(k, v):
    if v > CALIB.get(k, 0.0):
        CALIB[k] = v


def oracle(lines, impl):
    fails = []

    def bad(i, key, msg, exp=None):
        fails.append(Failure(i, key, msg, exp))

    fam = {}  # (ig, a, b) -> {"diag": {j: (value, idx)}, "eps": [(eps, k, value, idx)]}
    uni = {}  # y-vector -> results of the uniform-grid pair
    psg = {}  # (op, group) -> [(member, exponent, value, idx)]: exact power-of-two scaling families
    C = None
    mp = None
    for i, (l, rep) in enumerate(zip(lines, impl)):
        st, toks = parse_reply(rep)
        if st in ("skip", "bad"):
            continue
        t = l.split()
        op, tag = t[0], t[1]
        # ------------------------------------------------ sampled trapezoid
        if op == "trapezoid":
            n = int(t[2])
            y = [h2f(v) for v in t[3:3 + n]]
            j = 3 + n
            x = None
            if t[j] == "x":
                m = int(t[j + 1])
                x = [h2f(v) for v in t[j + 2:j + 2 + m]]
                j += 2 + m
            else:
                j += 1
            dx = h2f(t[j + 1]) if t[j] == "dx" else None
            _tp = tag.split(":")
            key = "trapezoid:" + (_tp[1] if len(_tp) > 1 else _tp[0])
            must_panic = (x is not None and (len(x) != n or dx is not None)) or (x is None and n == 0)
            if must_panic:
                if st != "panic":
                    bad(i, key, "invalid arguments (lengths %d/%s, dx %s) did not panic" % (n, None if x is None else len(x), dx))
                continue
            if st != "ok":
                bad(i, key, "%s instead of a value" % st)
                continue
            r = h2f(toks[0])
            if x is not None:
                T = [(Fraction(y[q]) + Fraction(y[q - 1])) / 2 * (Fraction(x[q]) - Fraction(x[q - 1])) for q in range(1, n)]
            else:
                d = Fraction(dx if dx is not None else 1.0)
                T = [(Fraction(y[q]) + Fraction(y[q - 1])) / 2 * d for q in range(1, n)]
            exact = sum(T)
            unit = (n + 3) * EPS * float(sum(abs(v) for v in T)) + TINY
            if not math.isfinite(r):
                bad(i, key, "non-finite result %r" % r)
                continue
            err = float(abs(Fraction(r) - exact))
            calib("samples", err / unit)
            if err > C_S * unit:
                bad(i, key, "n=%d: %r differs from the exact piecewise-linear integral %r by %.3g > %.3g" % (
                    n, r, float(exact), err, C_S * unit), f2h(float(exact)))
            if tag in ("samples:ux", "samples:udx"):
                uni.setdefault(" ".join(t[2:3 + n]), {})[tag] = (r, C_S * unit, i)
            if len(_tp) == 5 and _tp[1] == "ys":
                psg.setdefault(("trapezoid", _tp[2]), []).append((_tp[3], int(_tp[4]), r, i))
            continue
        # ------------------------------------------------ quadrature of a catalogue integrand
        p = parse_line(l)
        a, b = p["a"], p["b"]
        key = "%s:%s" % (op, tag.split(":")[0] if p["name"] != "poly" else "poly")
        if op == "romberg" and p["nmax"] == 0:
            if st != "panic":
                bad(i, key, "nmax = 0 did not panic")
            continue
        if op == "trapz" and p["n"] == 0:
            continue  # outside the quantifier (division by zero panels): correspondence only
        if st != "ok":
            bad(i, key, "%s instead of a value" % st)
            continue
        r = h2f(toks[0])
        if a == b:
            if not (r == 0.0):
                bad(i, key + ":a=b", "integral over the degenerate interval [%r, %r] is %r, expected 0" % (a, b, r), f2h(0.0))
            if op == "romberg":
                fam.setdefault((p["ig"], a, b), {"diag": {}, "eps": []})
            # still record for the stop-rule check below
        if p["name"] == "poly":
            c = p["c"]
            deg = max([q for q, v in enumerate(c) if v != 0.0] or [0])
            exact = poly_exact(c, a, b)
            scale = abs(b - a) * poly_scale(c, a, b)
            m2 = poly_m2(c, a, b)
            lip = sum(q * abs(v) * max(abs(a), abs(b)) ** (q - 1) for q, v in enumerate(c) if q >= 1)
        else:
            if C is None:
                C = catalogue()
                mp = _mp()
            ent = C[p["name"]]
            k = p["k"]
            exact = ent["F"](mp.mpf(b), mp.mpf(k)) - ent["F"](mp.mpf(a), mp.mpf(k))
            lo, hi = min(a, b), max(a, b)
            m2 = ent["m2"](k, lo, hi)
            fa = abs(float(ent["f"](mp.mpf(a), mp.mpf(k))))
            d1 = abs(float(mp.diff(lambda z: ent["f"](z, mp.mpf(k)), mp.mpf(a)))) if a != b else 0.0
            lip = d1 + m2 * abs(b - a)
            scale = abs(b - a) * (fa + lip * abs(b - a))
            deg = None
        if not math.isfinite(r):
            bad(i, key, "non-finite result %r for a finite integrand on [%r, %r]" % (r, a, b))
            continue
        _tp = tag.split(":")
        if len(_tp) >= 5 and _tp[1] == "ps":
            psg.setdefault((op, _tp[2]), []).append((_tp[3], int(_tp[4]), r, i))
        if p["name"] == "poly":
            err = float(abs(Fraction(r) - exact))
            ex_f = float(exact)
        else:
            err = float(abs(mp.mpf(r) - exact))
            ex_f = float(exact)
        X = max(abs(a), abs(b))
        # rounding allowance: accumulated rounding of `nodes` terms + perturbation of the node positions
        def allowance(nodes):
            return (nodes + (deg or 0) + 4) * EPS * scale + EPS * X * lip * abs(b - a) * 4 + TINY

        if op == "trapz":
            n = p["n"]
            al = allowance(n + 1)
            tb = abs(b - a) ** 3 * m2 / (12.0 * n * n)
            if deg is not None and deg <= 1:
                calib("trapz:affine", err / al)
                if err > C_P * al:
                    bad(i, "trapz:affine", "n=%d affine integrand: %r, exact %r, error %.3g > rounding allowance %.3g" % (n, r, ex_f, err, C_P * al), f2h(ex_f))
            else:
                calib("trapz:bound", max(0.0, err - tb * (1 + 1e-9)) / al)
                if err > tb * (1 + 1e-9) + C_T * al:
                    bad(i, "trapz:bound", "n=%d on [%r,%r]: %r, exact %r, error %.3g > (b-a)^3 max|f''|/(12 n^2) = %.3g (+ rounding %.3g)" % (
                        n, a, b, r, ex_f, err, tb, C_T * al), f2h(ex_f))
        elif op == "quad5":
            if deg is not None and deg <= 19:
                al = allowance(10)
                calib("quad5:poly", err / al)
                if err > C_P * al:
                    bad(i, "quad5:poly", "degree %d on [%r,%r]: %r, exact %r, error %.3g > rounding allowance %.3g" % (deg, a, b, r, ex_f, err, C_P * al), f2h(ex_f))
        else:
            kk, eps = p["nmax"], p["eps"]
            F = fam.setdefault((p["ig"], a, b), {"diag": {}, "eps": []})
            if eps == 0.0:
                F["diag"][kk] = (r, i)
            else:
                F["eps"].append((eps, kk, r, i, ex_f, err, scale, tag))
            if deg is not None:
                exact_class = deg <= 2 * kk - 1 if eps == 0.0 else deg <= min(2 * kk - 1, 5)
                if exact_class:
                    al = allowance(2 ** (kk - 1) + 1)
                    calib("romberg:poly", err / al)
                    if err > C_P * al:
                        bad(i, "romberg:poly", "degree %d, %d levels, eps=%g on [%r,%r]: %r, exact %r, error %.3g > rounding allowance %.3g" % (
                            deg, kk, eps, a, b, r, ex_f, err, C_P * al), f2h(ex_f))
    # ------------------------------------------------ Romberg early stop, on the implementation's own diagonal
    for (ig, a, b), F in fam.items():
        for (eps, kk, r, i, ex_f, err, scale, tag) in F["eps"]:
            d = [F["diag"].get(j, (None, None))[0] for j in range(1, kk + 1)]
            if any(v is None for v in d):
                continue
            nstar = None
            for n in range(2, kk):
                df = abs(d[n] - d[n - 1])
                if df < eps * fminnum(abs(d[n]), abs(d[n - 1])) or df < eps:
                    nstar = n
                    break
            want = d[nstar] if nstar is not None else d[kk - 1]
            if not (r == want or (r != r and want != want)):
                bad(i, "romberg:stop-rule", "eps=%g, %d levels on [%r,%r] %s: returned %r, but consecutive estimates first agree "
                    "(in sign and magnitude) at level %s = %r; exact integral %r" % (eps, kk, a, b, ig[:40], r, nstar, want, ex_f), f2h(want))
                continue
            if nstar is None:
                continue
            if tag.endswith(":narrow:eps"):
                al = (2 ** nstar + 5) * EPS * scale + TINY
                calib("romberg:tol", max(0.0, err - 64 * al) / (eps * max(1.0, abs(ex_f))))
                if err > K_TOL * eps * max(1.0, abs(ex_f)) + 64 * al:
                    bad(i, "romberg:tolerance", "eps=%g on [%r,%r] %s: early exit at level %d returned %r, exact %r, error %.3g" % (
                        eps, a, b, ig[:40], nstar, r, ex_f, err), f2h(ex_f))
    # ------------------------------------------------ uniform grid: x form = dx form
    for yk, res in uni.items():
        if "samples:ux" in res and "samples:udx" in res:
            (r1, b1, i1), (r2, b2, i2) = res["samples:ux"], res["samples:udx"]
            if abs(r1 - r2) > b1 + b2:
                bad(i2, "trapezoid:uniform", "x form %r and dx form %r disagree on a uniform grid" % (r1, r2))
    # ------------------------------------------------ exact power-of-two scaling of the integrand / the samples
    for (op, g), members in psg.items():
        base = [m for m in members if m[0] == "0"]
        if not base:
            continue
        r0 = base[0][2]
        for (j, e, r, i) in members:
            if j != "0" and not (r == r0 * 2.0 ** e):
                bad(i, "scale:" + op, "scaling the integrand by 2^%d gave %r, expected exactly %r" % (e, r, r0 * 2.0 ** e), f2h(r0 * 2.0 ** e))
    if os.environ.get("CV_CALIB"):
        print("CALIB C07", {k: round(v, 5) for k, v in sorted(CALIB.items())})
    return fails

# --- deep theorems (second pass; modules written in their own files, wired here by the lead)
PROOF_MODULES = PROOF_MODULES + ['Compute.Props.C07Romberg']
REQUIRED_THEOREMS = REQUIRED_THEOREMS + ['Cv.C07R.rombergRow_eq', 'Cv.C07R.romberg_of_no_stop', 'Cv.C07R.romberg_of_first_stop', 'Cv.C07R.romberg_eps0', 'Cv.C07R.romberg_none', 'Cv.C07R.R_add', 'Cv.C07R.R_smul', 'Cv.C07R.R_swap', 'Cv.C07R.R_self', 'Cv.C07R.romberg_add', 'Cv.C07R.romberg_swap', 'Cv.C07R.romberg_self', 'Cv.C07R.rich_expansion', 'Cv.C07R.col0_eq_trapz', 'Cv.C07R.R_exact', 'Cv.C07R.R_exact_real', 'Cv.C07R.romberg_exact', 'Cv.C07R.romberg_exact_horner', 'Cv.C07R.romberg_exact_any_eps']
_np = list(NOT_PROVED)
_np[1] = None
_np[2] = None
NOT_PROVED = [x for x in _np if x is not None]

# --- deep theorems (C07Quad)
PROOF_MODULES = PROOF_MODULES + ['Compute.Props.C07Quad']
REQUIRED_THEOREMS = REQUIRED_THEOREMS + ['Cv.C07Q.quad5_poly_error', 'Cv.C07Q.quad5_poly_error_coeffs', 'Cv.C07Q.quad5_poly_exact_of_odd', 'Cv.C07Q.quad5_horner_error', 'Cv.C07Q.Q_monomial_residual']
NOT_PROVED = [x for x in NOT_PROVED if not any(k in str(x) for k in ('quad5 exactness lifted',))]

# --- source tie (translator tools/rs2lean.py: the straight-line functions of this property are regenerated from /repo/src on every run
# into lean/Compute/Generated/SrcC07.lean and proved equal to the hand model in Props/SrcTieC07.lean)
from . import srctie
srctie.wire(globals(), 'C07')

# --- source tie, loops (tools/rs2lean.py loops=True: accumulation loops and iterator chains regenerated from /repo/src into
# Generated/SrcC07Loops.lean and proved equal to the hand model in Props/SrcTieC07Loops.lean)
from . import srctie
srctie.wire_loops(globals(), 'C07')
PROOF_MODULES = PROOF_MODULES + ['Compute.Lemmas.SrcLoops']

# --- deep theorems (Rounding5: float-level bounds in the standard model, wired by the lead)
PROOF_MODULES = PROOF_MODULES + [m for m in ['Compute.Lemmas.Rounding5', 'Compute.Props.Rounding5'] if m not in PROOF_MODULES]
REQUIRED_THEOREMS = REQUIRED_THEOREMS + ['Cv.Rounding5.trapz_error', 'Cv.Rounding5.trapz_error_rel', 'Cv.Rounding5.trapz_node_error', 'Cv.Rounding5.trapezoid_error', 'Cv.Rounding5.trapezoidDx_error', 'Cv.Rounding5.quad5_error', 'Cv.Rounding5.quad5_error_rel', 'Cv.Rounding5.romberg00_error', 'Cv.Rounding5.rombergCol0Next_error', 'Cv.Rounding5.trapz_pert', 'Cv.Rounding5.quad5_pert', 'Cv.Rounding5.stdmodel_trapz_note']
NOT_PROVED = [("rounding of the integrand and the discretisation ('up to rounding' relative to the exact integral) is decided by the oracle; the accumulation error of trapz / trapezoid / quad5 / Romberg r[0][0] and each first-column step IS proved in the standard model (Props/Rounding5): computed = sum w_i f(x_i)(1+th_i) over the rule's computed nodes, |th_i| <= gamma_k with k = max(n+4,8) / (n-1)+5 / L+7 (=12) / 5 / max(3,2^(n-1)+1)+1, nodes within gamma_6(|a|+k|h|), and with a j-fold relatively accurate integrand gamma_(k+j) against sum w_i F(x_i); trusted link: IEEE binary64 obeys fl(a op b) = (a op b)(1+d), |d| <= 2^-53, barring overflow/underflow" if str(x).startswith('floating-point rounding (') else x) for x in NOT_PROVED]

# --- review pass (review-b C07: A1, B1, B2, B3, C1-C7): new theorem module and ONE consistent set of claim texts
# (the texts below REPLACE the NOT_PROVED / TRUSTED / ASSUMPTIONS / RULE accumulated by the blocks above).
PROOF_MODULES = PROOF_MODULES + [m for m in ['Compute.Props.C07Review'] if m not in PROOF_MODULES]
REQUIRED_THEOREMS = REQUIRED_THEOREMS + [
    'Cv.C07V.romberg_stop_level', 'Cv.C07V.romberg_exact_at_stop_level', 'Cv.C07V.romberg_exact_of_no_stop',
    'Cv.C07V.romberg_early_exit_witness', 'Cv.C07V.romberg_swap_any', 'Cv.C07V.romberg_self_any',
    'Cv.C07V.romberg_not_additive_witness', 'Cv.C07V.panel_integral', 'Cv.C07V.panelSum_eq_integrals',
    'Cv.C07V.panelSum_eq_integral_pwl', 'Cv.C07V.trapezoid_eq_integral_pwl', 'Cv.C07V.trapz_zero_panels',
    'Cv.C07V.trapezoid_default', 'Cv.C07V.trapezoid_dx_eq', 'Cv.C07.trapezoid_panics']
RULE = ("monomials of degree 0..19 and random polynomials x random intervals (a<b, a>b, a=b, endpoints up to 1e3, exact special "
        "values) x {trapz n=1..4096 incl. every 2^k-1, 2^k, 2^k+1; quad5; romberg k=1..20 levels with eps in {0, 5e-324, 1e-300, "
        "1e-18..1e-3, 0.5}, each eps>0 run accompanied by the eps=0 runs with 1..k levels (the diagonal)}; 19 smooth integrands with "
        "closed-form antiderivative; sampled arrays of 0..1e4 points (x / dx / default, lengths 1023..1026, 2047..2050); "
        "non-trivial = distinct (op, integrand class, size bucket, regime)")
NOT_PROVED = [
    "Romberg exactness to degree 2k-1 holds, and is proved (C07R.romberg_exact, romberg_exact_horner; C07V.romberg_exact_of_no_stop), "
    "ONLY WHEN NO EARLY EXIT HAPPENS, in particular at eps = 0; k levels means k levels computed. For eps > 0 the run may stop at "
    "the first level 2 <= s < k whose consecutive estimates agree, the value returned is R[s][s] (C07V.romberg_stop_level) and the "
    "guaranteed degree is 2s+1 >= 5 (C07V.romberg_exact_at_stop_level); the clause that holds after an early exit is the tolerance "
    "clause. Kernel-checked witness (C07V.romberg_early_exit_witness, also run through the Rust code): romberg(1 + x^6/100, 0, 1, "
    "eps = 1e-3, 5 levels) = 7691/7680, the integral is 701/700, error 3.7e-6 < eps, degree 6 <= 2*5-1. The oracle applies the same "
    "narrowing: degree <= 2k-1 at eps = 0, degree <= min(2k-1, 5) for eps > 0, plus the exactly decided stop rule",
    "romberg is additive / homogeneous in the integrand at eps = 0 only (C07R.romberg_add, romberg_smul; the tableau R always is); at "
    "eps > 0 additivity is FALSE (C07V.romberg_not_additive_witness: on [0,1], eps = 1e-3, 5 levels, romberg(1 + x^6/100) + "
    "romberg(x^6) = 7691/7680 + 1/7 but romberg of the sum = 801/700). Sign change under swapping the limits and a = b -> 0 are "
    "proved for every eps (C07V.romberg_swap_any, romberg_self_any)",
    "the clause 'Romberg error of the order of its tolerance for smooth integrands' has no theorem. The oracle decides (a) exactly, on "
    "every eps > 0 line, that the value returned is the implementation's own diagonal entry at the first level where consecutive "
    "estimates agree in sign and magnitude, and (b) |error| <= 4 eps max(1,|I|) + rounding ONLY on the ':narrow' cases (interval "
    "width <= 1/max(1,|k|), about half of the smooth-catalogue lines); on ':wide' cases only (a) is checked, because false "
    "convergence by aliasing is inherent to the method there",
    "floating-point rounding: relative to the exact integral it is decided by the oracle with a conditioning-scaled allowance; "
    "Props/Rounding5 bounds, in the standard model, the accumulation error of trapz, trapezoid, quad5, Romberg r[0][0] and ONE "
    "first-column step against the rule sum at the computed nodes - not the Richardson sweep, and not linked to the integral",
    "trapz_affine, romberg_exact*, romberg_simpson_cubic, romberg_boole_quintic conclude the closed-form antiderivative difference, not "
    "an interval integral; statements with a genuine integral: trapz_error_bound, C07R.R_exact_real (tableau entry), "
    "C07Q.quad5_poly_error*, C07V.panel_integral / panelSum_eq_integral_pwl",
    "n = 0 panels is outside the quantifier: the code returns +-inf or NaN (division by zero), the algebraic trapz theorems hold there "
    "through x/0 = 0 only (C07V.trapz_zero_panels says so); the oracle skips n = 0, the correspondence compares it",
    "romberg has no source tie (hand-modelled: column 0 is interleaved with the Richardson sweep, same values for a pure integrand); "
    "Option routing and index maps of trapezoid are tied at run time only",
]
TRUSTED = ["integrand catalogue implemented twice (Rust executor, Lean model) with the same operation order; compared bit for bit",
           "Iterator::sum::<f64>() folds from -0.0; f64::min in the stop test is NaN-ignoring (fminG)"]
ASSUMPTIONS = [
    "romberg level budgets 1..31 are modelled (theorems say 'every k <= 31', the property needs 2..20). `none` for nmax > 31 means "
    "NOT MODELLED, not a panic: the Rust code does not panic at 32 (u32 overflow of 2*k starts at 33, after 2^31 evaluations); the "
    "executor refuses such lines, so they are never compared. `none` for nmax = 0 IS the panic (index into an empty tableau)",
    "closures are pure functions of x (the model interleaves column 0 with the sweep)",
]

# --- review repairs in the Rounding layer (renamed stdmodel_* theorems, underflow-aware variants, genuine FlModel instance; wired by the lead)
NOT_PROVED = list(NOT_PROVED) + ['theorems named stdmodel_* hold in the idealised standard model (fl(x) = x(1+d) for every operation, library functions with relative error <= u_f for every argument) at u = 2^-53; they describe binary64 only where nothing overflows or underflows (for exp: arguments in [-708.39, 709.78]); outside that range computed values may be exactly 0 or inf']

# --- FINAL claim texts (review round 2): literal, complete, replaces everything accumulated above.
REQUIRED_THEOREMS = REQUIRED_THEOREMS + [t for t in ['Cv.C07R.romberg_smul', 'Cv.C07R.romberg_swap', 'Cv.C07R.romberg_self', 'Cv.C07.quad5_moment_20',
                                                      'Cv.C07V.romberg_not_additive', 'Cv.C07V.trapezoid_eq_integrals'] if t not in REQUIRED_THEOREMS]
NOT_PROVED = [
    "THE DEGREE-(2k-1) CLAUSE AT eps > 0. As literally quantified (level budgets 2..20 together with tolerances up to 1e-3) the clause "
    "'Romberg with k levels is exact for polynomials up to degree 2k-1' is NOT what the code delivers: a run with eps > 0 may stop at "
    "the first level 2 <= s < k whose consecutive estimates agree and then returns R[s][s] (C07V.romberg_stop_level), which is exact to "
    "degree 2s+1 >= 5 only (C07V.romberg_exact_at_stop_level). Kernel-checked witness, reproduced on the Rust code "
    "(C07V.romberg_early_exit_witness): romberg(1 + x^6/100, 0, 1, eps = 1e-3, 5 levels) = 7691/7680, integral 701/700, error 3.7e-6 "
    "< eps, degree 6 <= 9. Adopted reading (the lead's): k levels means k levels COMPUTED; under it the clause is proved at eps = 0 "
    "and whenever no stop test fires (C07R.romberg_exact, romberg_exact_horner, C07V.romberg_exact_of_no_stop) and the oracle checks "
    "degree <= 2k-1 at eps = 0 and degree <= min(2k-1, 5) at eps > 0. Beyond romberg_exact_at_stop_level and the tolerance oracle "
    "below, NO engine decides the literal clause for eps > 0 and degree in 6..2k-1; no finding is registered for it",
    "romberg is additive / homogeneous in the integrand at eps = 0 only (C07R.romberg_add, romberg_smul; the tableau R always is: R_add, "
    "R_smul); at eps > 0 additivity is FALSE (C07V.romberg_not_additive: on [0,1], eps = 1e-3, 5 levels, romberg(1 + x^6/100) = "
    "7691/7680, romberg(x^6) = 1/7, romberg of the sum = 801/700). Sign change under swapping the limits and a = b -> 0 are proved for "
    "every eps (C07V.romberg_swap_any, romberg_self_any)",
    "the clause 'Romberg error of the order of its tolerance for smooth integrands' has no theorem. The oracle decides (a) exactly, on "
    "every eps > 0 line, that the value returned is the implementation's own diagonal entry at the first level where consecutive "
    "estimates agree in sign and magnitude, and (b) |error| <= 4 eps max(1,|I|) + rounding ONLY on the ':narrow' cases (interval "
    "width <= 1/max(1,|k|), about half of the smooth-catalogue lines); on ':wide' cases only (a) is checked, because false "
    "convergence by aliasing is inherent to the method there",
    "floating-point rounding: relative to the exact integral it is decided by the oracle with a conditioning-scaled allowance; "
    "Props/Rounding5 bounds, in the standard model (fl(x) = x(1+d) for every real, no overflow / underflow; genuine instance "
    "FlModel.grid), the accumulation error of trapz (its theorem still admits n = 0), trapezoid, quad5, Romberg r[0][0] and ONE "
    "first-column step against the rule sum at the computed nodes - not the Richardson sweep, and not linked to the integral",
    "trapz_affine, romberg_exact*, romberg_simpson_cubic, romberg_boole_quintic conclude the closed-form antiderivative difference, not "
    "an interval integral; statements with a genuine integral: trapz_error_bound, C07R.R_exact_real (tableau entry), "
    "C07Q.quad5_poly_error*, C07V.panel_integral / panelSum_eq_integral_pwl / trapezoid_eq_integral_pwl",
    "n = 0 panels is outside the quantifier: the code returns +-inf or NaN (division by zero), the algebraic trapz theorems hold there "
    "through x/0 = 0 only (C07V.trapz_zero_panels says so); the oracle skips n = 0, the correspondence compares it",
    "romberg has no source tie (hand-modelled: column 0 is interleaved with the Richardson sweep, same values for a pure integrand); "
    "Option routing and index maps of trapezoid are tied at run time only",
    "theorems named stdmodel_* hold in the idealised standard model at u = 2^-53; they describe binary64 only where nothing overflows "
    "or underflows",
]
