/-
Default spellings of the source translator `tools/rs2lean.py` for two kinds of Rust `f64` constants that have no
scalar-polymorphic spelling of their own:

* `Cv.F64Consts α` — the associated constants of `f64` and of `std::f64::consts` (`f64::EPSILON`, `f64::MAX`, `consts::PI`, …).
  A function of `/repo/src` that mentions one of them translates to a definition over `[Cv.F64Consts α]`.
* `Cv.LitBits α` — a decimal literal that is not exactly representable in a short dyadic form (`1e-2`, `0.3275911`, …), keyed by
  the bit pattern of the `f64` the Rust parser rounds it to: `Cv.LitBits.ofBits 0x3F847AE147AE147B`.

Both exist so that a source edit which INTRODUCES a constant or a literal still regenerates (instead of leaving the translated
subset): the regenerated definition then mentions the new constant, and the equivalence theorem against the hand model — which
does not — fails.  Tables whose hand models already name such constants keep their explicit spellings (`consts`,
`named_lits`); these defaults are only the fallback.  The `Float` instances are the exact bit patterns.  Core Lean only.
-/
namespace Cv

/-- The associated constants of Rust's `f64` and the constants of `std::f64::consts`. -/
class F64Consts (α : Type) where
  /-- `f64::EPSILON` = 2⁻⁵² -/
  eps : α
  /-- `f64::MAX` -/
  maxv : α
  /-- `f64::MIN` = `-f64::MAX` -/
  minv : α
  /-- `f64::MIN_POSITIVE` = 2⁻¹⁰²² -/
  minPositive : α
  /-- `f64::INFINITY` -/
  inf : α
  /-- `f64::NEG_INFINITY` -/
  negInf : α
  /-- `f64::NAN` (the canonical quiet NaN) -/
  nan : α
  pi : α
  tau : α
  e : α
  ln2 : α
  ln10 : α
  log2e : α
  log10e : α
  sqrt2 : α
  frac1Sqrt2 : α
  fracPi2 : α
  fracPi3 : α
  fracPi4 : α
  fracPi6 : α
  fracPi8 : α
  frac1Pi : α
  frac2Pi : α
  frac2SqrtPi : α

instance : F64Consts Float where
  eps := Float.ofBits 0x3CB0000000000000
  maxv := Float.ofBits 0x7FEFFFFFFFFFFFFF
  minv := Float.ofBits 0xFFEFFFFFFFFFFFFF
  minPositive := Float.ofBits 0x0010000000000000
  inf := Float.ofBits 0x7FF0000000000000
  negInf := Float.ofBits 0xFFF0000000000000
  nan := Float.ofBits 0x7FF8000000000000
  pi := Float.ofBits 0x400921FB54442D18
  tau := Float.ofBits 0x401921FB54442D18
  e := Float.ofBits 0x4005BF0A8B145769
  ln2 := Float.ofBits 0x3FE62E42FEFA39EF
  ln10 := Float.ofBits 0x40026BB1BBB55516
  log2e := Float.ofBits 0x3FF71547652B82FE
  log10e := Float.ofBits 0x3FDBCB7B1526E50E
  sqrt2 := Float.ofBits 0x3FF6A09E667F3BCD
  frac1Sqrt2 := Float.ofBits 0x3FE6A09E667F3BCD
  fracPi2 := Float.ofBits 0x3FF921FB54442D18
  fracPi3 := Float.ofBits 0x3FF0C152382D7366
  fracPi4 := Float.ofBits 0x3FE921FB54442D18
  fracPi6 := Float.ofBits 0x3FE0C152382D7366
  fracPi8 := Float.ofBits 0x3FD921FB54442D18
  frac1Pi := Float.ofBits 0x3FD45F306DC9C883
  frac2Pi := Float.ofBits 0x3FE45F306DC9C883
  frac2SqrtPi := Float.ofBits 0x3FF20DD750429B6D

/-- A decimal `f64` literal of the source, by the bit pattern the Rust parser rounds it to. -/
class LitBits (α : Type) where
  ofBits : UInt64 → α

instance : LitBits Float := ⟨Float.ofBits⟩

end Cv
