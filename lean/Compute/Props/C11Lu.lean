import Compute.Lemmas.LuCorrect
import Compute.Lemmas.LuCorrect2
import Compute.Lemmas.LuCorrect3
import Compute.Lemmas.LuCorrect4
import Compute.Props.C11
import Mathlib.Algebra.Order.Field.Rat
import Mathlib.Algebra.BigOperators.Ring.Finset
/-
C11 (deep) — correctness of the LU factorisation `Cv.LA.lu` (model of
src/linalg/decomposition/lu.rs) in exact arithmetic: `P·A = L·U`.
-/
set_option linter.unusedSectionVars false
namespace Cv.C11Lu
open Cv Cv.LA Cv.LA.Lu Finset

section field
variable {α : Type} [Field α] [BEq α] [LawfulBEq α] [LT α] [DecidableLT α] [LE α] [DecidableLE α]
  [Transc α]

open Classical in
/-- **lu_residual** (any field, any comparison used by the pivot search).  If `lu a = some (f, p)` then
`a` is `n × n`, `f` has `n²` entries, `p` has `n` entries and for all `i, j < n`
`Σ_k L[i,k]·U[k,j] = a[p[i]·n + j] − r[i,j]`, where `L`/`U` are the unit-lower / upper triangular
parts of the packed `f` and the residual `r[i,j]` is `f[i,j]` when `j < i` and the pivot `f[j,j]` is
`0` (the code skips the division then and leaves the un-eliminated entry in place), `0` otherwise. -/
theorem lu_residual (a f : List α) (p : List Nat) (h : lu a = some (f, p)) :
    ∃ n, n * n = a.length ∧ f.length = n * n ∧ p.length = n ∧ ∀ i j, i < n → j < n →
      ∑ k ∈ range n, Lent n f i k * Uent n f k j =
        rd a (p.getD i 0 * n + j) - (if j < i ∧ rd f (j * n + j) = 0 then rd f (i * n + j) else 0) := by
  obtain ⟨n, hn, hinv⟩ := lu_inv a f p h
  exact ⟨n, hn, hinv.hlen, hinv.hpl, fun i j hi hj => hinv.product n a f p i j hi hj⟩

/-- **lu_correct**: `P·A = L·U` entrywise, provided every zero pivot has only zeros below it in the
packed factor (no non-zero entry was left un-eliminated). -/
theorem lu_correct (a f : List α) (p : List Nat) (h : lu a = some (f, p)) :
    ∃ n, n * n = a.length ∧ f.length = n * n ∧ p.length = n ∧
      ((∀ k i, k < i → i < n → rd f (k * n + k) = 0 → rd f (i * n + k) = 0) →
        ∀ i j, i < n → j < n →
          ∑ k ∈ range n, Lent n f i k * Uent n f k j = rd a (p.getD i 0 * n + j)) := by
  obtain ⟨n, hn, hfl, hpl, hres⟩ := lu_residual a f p h
  refine ⟨n, hn, hfl, hpl, fun hz i j hi hj => ?_⟩
  rw [hres i j hi hj]
  by_cases hc : j < i ∧ rd f (j * n + j) = 0
  · rw [if_pos hc, hz j i hc.1 hi hc.2, sub_zero]
  · rw [if_neg hc, sub_zero]

/-- the side condition of `lu_correct` is also necessary: `P·A = L·U` holds **iff** every zero pivot
has only zeros below it. -/
theorem lu_correct_iff (a f : List α) (p : List Nat) (h : lu a = some (f, p)) :
    ∃ n, n * n = a.length ∧
      ((∀ i j, i < n → j < n →
          ∑ k ∈ range n, Lent n f i k * Uent n f k j = rd a (p.getD i 0 * n + j)) ↔
        ∀ k i, k < i → i < n → rd f (k * n + k) = 0 → rd f (i * n + k) = 0) := by
  obtain ⟨n, hn, hfl, hpl, hres⟩ := lu_residual a f p h
  refine ⟨n, hn, fun hlu k i hki hi hz => ?_, fun hz i j hi hj => ?_⟩
  · have := hres i k hi (by omega)
    rw [hlu i k hi (by omega), if_pos ⟨hki, hz⟩] at this
    have h2 : rd a (p.getD i 0 * n + k) - rd f (i * n + k) = rd a (p.getD i 0 * n + k) - 0 := by
      rw [sub_zero]; exact this.symm
    exact sub_right_injective h2
  · rw [hres i j hi hj]
    by_cases hc : j < i ∧ rd f (j * n + j) = 0
    · rw [if_pos hc, hz j i hc.1 hi hc.2, sub_zero]
    · rw [if_neg hc, sub_zero]

/-- `lu_solve` never panics on the output of `lu` when the right-hand side has the matching length. -/
theorem luSolve_some (a b f : List α) (piv : List Nat) (h : lu a = some (f, piv))
    (hab : a.length = b.length * b.length) : ∃ x, luSolve f piv b = some x := by
  obtain ⟨n, hn, hinv⟩ := lu_inv a f piv h
  obtain ⟨m, hm, hperm⟩ := C11.lu_pivots_perm a f piv h
  have hnb : n = b.length := Nat.mul_self_inj.mp (by rw [hn, hab])
  have hmn : m = n := Nat.mul_self_inj.mp (by rw [hn, hm])
  subst hmn
  have hlt : ∀ p ∈ piv, p < m := fun p hp => List.mem_range.mp ((hperm.mem_iff).mp hp)
  obtain ⟨x0, hx0, -, -⟩ := luPermute_spec piv b m hnb.symm hinv.hpl hlt
  refine ⟨luBwd m f (luFwd m f x0), ?_⟩
  unfold luSolve
  rw [← hnb]
  simp [hinv.hlen, hx0]

/-- wrong right-hand-side length: the `assert!(lu.len() == n * n)` fires -/
theorem luSolve_none (f b : List α) (piv : List Nat) (h : f.length ≠ b.length * b.length) :
    luSolve f piv b = none := by
  simp [luSolve, h]

/-- **luSolve_spec**: if `lu a = some (f, piv)`, no pivot `U[k,k] = f[k,k]` is zero and
`lu_solve f piv b = some x`, then `A·x = b`. -/
theorem luSolve_spec (n : Nat) (a b f x : List α) (piv : List Nat) (ha : a.length = n * n)
    (hb : b.length = n) (h : lu a = some (f, piv)) (hd : ∀ k, k < n → rd f (k * n + k) ≠ 0)
    (hx : luSolve f piv b = some x) :
    x.length = n ∧ ∀ i, i < n → ∑ j ∈ range n, rd a (i * n + j) * rd x j = rd b i := by
  obtain ⟨n', hn', hfl, hpl, hlu⟩ := lu_correct a f piv h
  obtain ⟨m, hm, hperm⟩ := C11.lu_pivots_perm a f piv h
  have e1 : n' = n := Nat.mul_self_inj.mp (by rw [hn', ha])
  have e2 : m = n := Nat.mul_self_inj.mp (by rw [hm, ha])
  subst e1; subst e2
  have hLU := hlu (fun k i hki hi hz => absurd hz (hd k (by omega)))
  have hlt : ∀ p ∈ piv, p < m := fun p hp => List.mem_range.mp ((hperm.mem_iff).mp hp)
  obtain ⟨x0, hx0, hx0l, hx0e⟩ := luPermute_spec piv b m hb hpl hlt
  unfold luSolve at hx
  rw [hb] at hx
  simp only [hfl, ne_eq, not_true_eq_false, if_false, hx0, Option.bind_eq_bind, Option.bind_some,
    Option.pure_def, Option.some.injEq] at hx
  obtain ⟨hyl, hye⟩ := luFwd_spec m f x0 hx0l
  obtain ⟨hzl, hze⟩ := luBwd_spec m f (luFwd m f x0) hyl hd
  rw [hx] at hzl hze
  refine ⟨hzl, fun r hr => ?_⟩
  -- the row of `P·A` that is row `r` of `A`
  have hmem : r ∈ piv := (hperm.mem_iff).mpr (List.mem_range.mpr hr)
  obtain ⟨i, hi, hir⟩ := List.getElem_of_mem hmem
  have hi' : i < m := by omega
  have hgd : piv.getD i 0 = r := by
    simp [List.getD_eq_getElem?_getD, List.getElem?_eq_getElem hi, hir]
  calc ∑ j ∈ range m, rd a (r * m + j) * rd x j
      = ∑ j ∈ range m, (∑ k ∈ range m, Lent m f i k * Uent m f k j) * rd x j := by
        apply Finset.sum_congr rfl
        intro j hj
        rw [hLU i j hi' (Finset.mem_range.mp hj), hgd]
    _ = ∑ j ∈ range m, ∑ k ∈ range m, Lent m f i k * (Uent m f k j * rd x j) := by
        simp only [Finset.sum_mul, mul_assoc]
    _ = ∑ k ∈ range m, ∑ j ∈ range m, Lent m f i k * (Uent m f k j * rd x j) := Finset.sum_comm
    _ = ∑ k ∈ range m, Lent m f i k * ∑ j ∈ range m, Uent m f k j * rd x j := by
        simp only [Finset.mul_sum]
    _ = ∑ k ∈ range m, Lent m f i k * rd (luFwd m f x0) k := by
        apply Finset.sum_congr rfl
        intro k hk
        have hk' := Finset.mem_range.mp hk
        rw [upper_full m f (rd x) _ k hk' (hze k hk')]
    _ = rd x0 i := lower_full m f (rd (luFwd m f x0)) (rd x0) i hi' (hye i hi')
    _ = rd b r := by rw [hx0e i hi', hgd]

/-! ### the `Matrix`-level solve -/

theorem rd_append_right (a b : List α) (j : Nat) : rd (a ++ b) (a.length + j) = rd b j := by
  simp [rd, List.getD_eq_getElem?_getD, List.getElem?_append_right]

theorem luSolve_length (f b x : List α) (piv : List Nat) (hx : luSolve f piv b = some x)
    (hp : piv.length = b.length) : x.length = b.length := by
  unfold luSolve at hx
  by_cases hf : f.length = b.length * b.length
  · simp only [hf, ne_eq, not_true_eq_false, if_false, Option.bind_eq_bind, Option.pure_def] at hx
    cases hx0 : luPermute piv b with
    | none => simp [hx0] at hx
    | some x0 =>
      simp only [hx0, Option.bind_some, Option.some.injEq] at hx
      have hl0 : x0.length = b.length := by
        simp only [luPermute] at hx0
        split at hx0
        · cases hx0
        · split at hx0
          · cases hx0
          · cases hx0; simp [hp]
      obtain ⟨hyl, -⟩ := luFwd_spec b.length f x0 hl0
      -- `luBwd` keeps the length whatever the diagonal is
      have : ∀ y : List α, y.length = b.length → (luBwd b.length f y).length = b.length := by
        intro y hy
        unfold luBwd
        exact foldl_range_rev_ind (fun _ (s : List α) => s.length = b.length) _ y b.length hy
          (by
            intro m s hm hl
            dsimp only
            exact (bwdInner_spec b.length m f (s.set m _) (by simpa using hl) hm).1)
      rw [← hx]
      exact this _ hyl
  · simp [hf] at hx

/-- the column loop of `Solve<Matrix>`: every column of `s` goes through `solver`, and the solutions
are laid out one after the other -/
theorem colsM_spec (solver : List α → Option (List α)) (s : Mat α) (n : Nat)
    (hlen : ∀ b x, solver b = some x → x.length = n) :
    ∀ k acc, M.colsM solver s k = some acc → k ≤ s.ncols →
      acc.length = k * n ∧ ∀ c, c < k → ∃ sol,
        solver ((List.range s.nrows).map fun i => M.g s i c) = some sol ∧
        ∀ j, j < n → rd acc (c * n + j) = rd sol j := by
  intro k
  induction k with
  | zero =>
    intro acc h _
    simp only [M.colsM, Option.some.injEq] at h
    subst h
    exact ⟨by simp, fun c hc => by omega⟩
  | succ k ih =>
    intro acc h hk
    simp only [M.colsM, Option.bind_eq_bind] at h
    cases hacc : M.colsM solver s k with
    | none => simp [hacc] at h
    | some acc0 =>
      have hcol : M.getCol s k = some ((List.range s.nrows).map fun i => M.g s i k) := by
        simp [M.getCol, show k < s.ncols by omega]
      cases hsol : solver ((List.range s.nrows).map fun i => M.g s i k) with
      | none => simp [hacc, hcol, hsol] at h
      | some sol =>
        simp only [hacc, hcol, hsol, Option.bind_some, Option.pure_def, Option.some.injEq] at h
        subst h
        obtain ⟨hal, hcols⟩ := ih acc0 hacc (by omega)
        have hsl := hlen _ _ hsol
        refine ⟨by simp [hal, hsl, Nat.add_mul], ?_⟩
        intro c hc
        by_cases hck : c < k
        · obtain ⟨sol', h1, h2⟩ := hcols c hck
          refine ⟨sol', h1, fun j hj => ?_⟩
          rw [rd_append_left _ _ _ (by
            rw [hal]
            have : (c + 1) * n ≤ k * n := Nat.mul_le_mul_right n hck
            rw [Nat.add_mul] at this; omega)]
          exact h2 j hj
        · have : c = k := by omega
          subst this
          refine ⟨sol, hsol, fun j hj => ?_⟩
          rw [← hal, rd_append_right]

/-- **matrix_solve_correct**: `Solve<Matrix>::solve` (`M.solveM`, always the LU route) returns a matrix
`X` with `A·X = B`, column by column, whenever the LU factor it computed has no zero pivot. -/
theorem matrix_solve_correct (m s X f : Mat α) (piv : List Nat) (hw : m.WF)
    (hsq : m.nrows = m.ncols) (hlu : M.lu m = some (f, piv))
    (hd : ∀ k, k < m.ncols → M.g f k k ≠ 0) (h : M.solveM m s = some X) :
    s.nrows = m.ncols ∧ X.nrows = m.ncols ∧ X.ncols = s.ncols ∧ X.WF ∧
    ∀ c, c < s.ncols → ∀ i, i < m.ncols →
      ∑ j ∈ range m.ncols, M.g m i j * M.g X j c = M.g s i c := by
  -- the factor is the slice-level factor
  rw [C11.matrix_lu_eq_slice m hw hsq] at hlu
  cases hlu' : LA.lu m.data with
  | none => simp [hlu'] at hlu
  | some fp =>
    obtain ⟨fd, piv'⟩ := fp
    simp only [hlu', Option.map_some, Option.some.injEq, Prod.mk.injEq] at hlu
    obtain ⟨hf, hpv⟩ := hlu
    subst hpv
    obtain ⟨n', hn', hinv⟩ := lu_inv m.data fd piv' hlu'
    have hml : m.data.length = m.ncols * m.ncols := by rw [hw, hsq]
    have e : n' = m.ncols := Nat.mul_self_inj.mp (by rw [hn', hml])
    subst e
    have hfw : f.WF := by rw [← hf]; simp only [Mat.WF]; rw [hinv.hlen, hsq]
    have hfsq : f.nrows = f.ncols := by rw [← hf]; exact hsq
    have hfn : f.ncols = m.ncols := by rw [← hf]
    have hsolver : M.luSolveV f piv' = LA.luSolve fd piv' := by
      funext b
      rw [C11.matrix_luSolve_eq_slice f piv' b hfw hfsq, ← hf]
    have hd' : ∀ k, k < m.ncols → rd fd (k * m.ncols + k) ≠ 0 := by
      intro k hk
      have := hd k hk
      simpa [M.g, ← hf] using this
    -- unfold the matrix-level solve
    have hlu2 : M.lu m = some (f, piv') := by
      rw [C11.matrix_lu_eq_slice m hw hsq, hlu', ← hf]; rfl
    simp only [M.solveM, hlu2, Option.bind_eq_bind, Option.bind_some, M.luSolveM, M.solveColsM,
      hsolver] at h
    cases hsols : M.colsM (LA.luSolve fd piv') s s.ncols with
    | none => simp [hsols] at h
    | some sols =>
      simp only [hsols, Option.bind_some] at h
      -- every solution has `s.nrows` entries; once there is a column, `s.nrows = n`
      have hlen : ∀ b x, LA.luSolve fd piv' b = some x → x.length = m.ncols := by
        intro b x hx
        have hbl : b.length = m.ncols := by
          unfold luSolve at hx
          by_cases hfl : fd.length = b.length * b.length
          · exact (Nat.mul_self_inj.mp (by rw [← hfl, hinv.hlen])).symm
          · simp [hfl] at hx
        rw [luSolve_length fd b x piv' hx (by rw [hinv.hpl, hbl]), hbl]
      obtain ⟨hsl, hcols⟩ := colsM_spec (LA.luSolve fd piv') s m.ncols hlen s.ncols sols hsols (Nat.le_refl _)
      cases hnew : M.new sols s.ncols s.nrows with
      | none => simp [hnew] at h
      | some mt =>
        simp only [hnew, Option.bind_some, M.t] at h
        have hmt : mt = ⟨sols, s.ncols, s.nrows⟩ := by
          unfold M.new at hnew
          split at hnew
          · cases hnew; rfl
          · cases hnew
        subst hmt
        have hKn : s.ncols * s.nrows = sols.length := by
          unfold M.new at hnew
          split at hnew
          · assumption
          · cases hnew
        cases htr : LA.transpose sols s.ncols with
        | none => simp [htr] at h
        | some d =>
          simp only [htr, Option.bind_eq_bind, Option.bind_some] at h
          have hX : X = ⟨d, s.nrows, s.ncols⟩ := by
            unfold M.new at h
            split at h
            · cases h; rfl
            · cases h
          have hdl : s.nrows * s.ncols = d.length := by
            unfold M.new at h
            split at h
            · assumption
            · cases h
          have hK0 : s.ncols ≠ 0 := by
            intro h0
            simp [LA.transpose, isMatrix, h0] at htr
          -- first column fixes the row count
          have hsn : s.nrows = m.ncols := by
            obtain ⟨sol, hsol, -⟩ := hcols 0 (Nat.pos_of_ne_zero hK0)
            unfold luSolve at hsol
            by_cases hfl : fd.length = s.nrows * s.nrows
            · exact (Nat.mul_self_inj.mp (by rw [← hfl, hinv.hlen]))
            · simp [hfl] at hsol
          refine ⟨hsn, by rw [hX]; exact hsn, by rw [hX], by rw [hX]; exact hdl.symm, ?_⟩
          intro c hc i hi
          obtain ⟨sol, hsol, hent⟩ := hcols c hc
          have hbl : ((List.range s.nrows).map fun i => M.g s i c).length = m.ncols := by simp [hsn]
          obtain ⟨-, hax⟩ := luSolve_spec m.ncols m.data _ fd sol piv' hml hbl hlu' hd' hsol
          have := hax i hi
          rw [rd_map_range _ _ _ (by omega)] at this
          rw [← this]
          apply Finset.sum_congr rfl
          intro j hj
          have hj' := Finset.mem_range.mp hj
          have hxe : M.g X j c = rd sol j := by
            rw [hX]
            simp only [M.g]
            have := (C01.rowToCol_entry sols d s.ncols s.nrows hK0 hKn htr c j hc (by omega)).2
            rw [this, hsn, hent j hj']
          rw [hxe]
          rfl

/-- `Solve<Vector>::solve` (`M.solveV`): `A·x = b`. -/
theorem matrix_solveV_correct (m f : Mat α) (b x : List α) (piv : List Nat) (hw : m.WF)
    (hsq : m.nrows = m.ncols) (hlu : M.lu m = some (f, piv))
    (hd : ∀ k, k < m.ncols → M.g f k k ≠ 0) (h : M.solveV m b = some x) :
    b.length = m.ncols ∧ x.length = m.ncols ∧
    ∀ i, i < m.ncols → ∑ j ∈ range m.ncols, M.g m i j * rd x j = rd b i := by
  have hlu0 := hlu
  rw [C11.matrix_lu_eq_slice m hw hsq] at hlu
  cases hlu' : LA.lu m.data with
  | none => simp [hlu'] at hlu
  | some fp =>
    obtain ⟨fd, piv'⟩ := fp
    simp only [hlu', Option.map_some, Option.some.injEq, Prod.mk.injEq] at hlu
    obtain ⟨hf, hpv⟩ := hlu
    subst hpv
    obtain ⟨n', hn', hinv⟩ := lu_inv m.data fd piv' hlu'
    have hml : m.data.length = m.ncols * m.ncols := by rw [hw, hsq]
    have e : n' = m.ncols := Nat.mul_self_inj.mp (by rw [hn', hml])
    subst e
    have hfw : f.WF := by rw [← hf]; simp only [Mat.WF]; rw [hinv.hlen, hsq]
    have hfsq : f.nrows = f.ncols := by rw [← hf]; exact hsq
    have hd' : ∀ k, k < m.ncols → rd fd (k * m.ncols + k) ≠ 0 := by
      intro k hk
      have := hd k hk
      simpa [M.g, ← hf] using this
    simp only [M.solveV, hlu0, Option.bind_eq_bind, Option.bind_some] at h
    rw [C11.matrix_luSolve_eq_slice f piv' b hfw hfsq, ← hf] at h
    have hbl : b.length = m.ncols := by
      unfold luSolve at h
      by_cases hfl : fd.length = b.length * b.length
      · exact (Nat.mul_self_inj.mp (by rw [← hfl, hinv.hlen])).symm
      · simp [hfl] at h
    obtain ⟨hxl, hax⟩ := luSolve_spec m.ncols m.data b fd x piv' hml hbl hlu' hd' h
    exact ⟨hbl, hxl, hax⟩

/-- **matrix_inv_correct**: `Matrix::inv` returns a right inverse, `A·X = I`, whenever the LU factor
has no zero pivot. -/
theorem matrix_inv_correct (m X f : Mat α) (piv : List Nat) (hw : m.WF)
    (hsq : m.nrows = m.ncols) (hlu : M.lu m = some (f, piv))
    (hd : ∀ k, k < m.ncols → M.g f k k ≠ 0) (h : M.inv m = some X) :
    X.nrows = m.ncols ∧ X.ncols = m.ncols ∧ X.WF ∧
    ∀ i, i < m.ncols → ∀ c, c < m.ncols →
      ∑ j ∈ range m.ncols, M.g m i j * M.g X j c = if i = c then 1 else 0 := by
  simp only [M.inv, hsq, ne_eq, not_true_eq_false, if_false] at h
  obtain ⟨-, h2, h3, h4, h5⟩ := matrix_solve_correct m (M.eye m.ncols) X f piv hw hsq hlu hd h
  refine ⟨h2, h3, h4, fun i hi c hc => ?_⟩
  rw [h5 c hc i hi]
  simp only [M.g, M.eye]
  rw [rd_map_range _ _ _ (idx_lt_sq hi hc)]
  obtain ⟨e1, e2⟩ := C01.divmod_idx (j := i) hc
  rw [e1, e2]

end field

/-! ### ordered fields: partial pivoting -/
section ordered
variable {F : Type} [Field F] [LinearOrder F] [IsStrictOrderedRing F] [Transc F] [BEq F] [LawfulBEq F]

/-- **lu_multipliers_le_one**: when `Transc.abs` is the absolute value of an ordered field, every
stored multiplier `L[i,k] = f[i,k]`, `k < i`, satisfies `|L[i,k]| ≤ 1` (the pivot is a column maximum
at selection time), and all multipliers of a column whose pivot is `0` are `0` (not divided). -/
theorem lu_multipliers_le_one (habs : ∀ x : F, Transc.abs x = |x|) (a f : List F) (p : List Nat)
    (h : lu a = some (f, p)) :
    ∃ n, n * n = a.length ∧ ∀ k i, k < i → i < n →
      |rd f (i * n + k)| ≤ 1 ∧ (rd f (k * n + k) = 0 → rd f (i * n + k) = 0) := by
  obtain ⟨n, hn, hmul⟩ := lu_mul habs a f p h
  exact ⟨n, hn, fun k i hki hi => hmul k i (by omega) hki hi⟩

/-- every entry of the unit lower triangular factor is bounded by one -/
theorem lu_L_entries_le_one (habs : ∀ x : F, Transc.abs x = |x|) (a f : List F) (p : List Nat)
    (h : lu a = some (f, p)) :
    ∃ n, n * n = a.length ∧ ∀ i k, i < n → k < n → |Lent n f i k| ≤ 1 := by
  obtain ⟨n, hn, hmul⟩ := lu_multipliers_le_one habs a f p h
  refine ⟨n, hn, fun i k hi hk => ?_⟩
  unfold Lent
  by_cases h1 : k < i
  · rw [if_pos h1]; exact (hmul k i h1 hi).1
  · rw [if_neg h1]
    by_cases h2 : k = i
    · rw [if_pos h2]; simp
    · rw [if_neg h2]; simp

/-- **lu_correct_ordered**: with genuine partial pivoting `P·A = L·U` holds for **every** square input,
singular ones included: a zero pivot is a column maximum, so nothing is left below it. -/
theorem lu_correct_ordered (habs : ∀ x : F, Transc.abs x = |x|) (a f : List F) (p : List Nat)
    (h : lu a = some (f, p)) :
    ∃ n, n * n = a.length ∧ f.length = n * n ∧ p.length = n ∧ ∀ i j, i < n → j < n →
      ∑ k ∈ range n, Lent n f i k * Uent n f k j = rd a (p.getD i 0 * n + j) := by
  obtain ⟨n, hn, hfl, hpl, hlu⟩ := lu_correct a f p h
  obtain ⟨m, hm, hmul⟩ := lu_multipliers_le_one habs a f p h
  have e : m = n := Nat.mul_self_inj.mp (by rw [hm, hn])
  subst e
  exact ⟨m, hn, hfl, hpl, hlu (fun k i hki hi hz => (hmul k i hki hi).2 hz)⟩

/-- `(P·A)·v = L·(U·v)` row by row, from the entrywise product formula -/
theorem lu_mulVec {α : Type} [Field α] (n : Nat) (a f : List α) (p : List Nat)
    (hLU : ∀ i j, i < n → j < n →
      ∑ k ∈ range n, Lent n f i k * Uent n f k j = rd a (p.getD i 0 * n + j))
    (v : Nat → α) (i : Nat) (hi : i < n) :
    ∑ j ∈ range n, rd a (p.getD i 0 * n + j) * v j =
      ∑ k ∈ range n, Lent n f i k * ∑ j ∈ range n, Uent n f k j * v j := by
  calc ∑ j ∈ range n, rd a (p.getD i 0 * n + j) * v j
      = ∑ j ∈ range n, (∑ k ∈ range n, Lent n f i k * Uent n f k j) * v j := by
        apply Finset.sum_congr rfl
        intro j hj
        rw [hLU i j hi (Finset.mem_range.mp hj)]
    _ = ∑ j ∈ range n, ∑ k ∈ range n, Lent n f i k * (Uent n f k j * v j) := by
        simp only [Finset.sum_mul, mul_assoc]
    _ = ∑ k ∈ range n, ∑ j ∈ range n, Lent n f i k * (Uent n f k j * v j) := Finset.sum_comm
    _ = ∑ k ∈ range n, Lent n f i k * ∑ j ∈ range n, Uent n f k j * v j := by
        simp only [Finset.mul_sum]

/-- **Non-singular input has no zero pivot.**  If `A·v = 0` only for `v = 0`, every diagonal entry
`U[k,k]` of the factor returned by `lu` is non-zero (an upper triangular `U` with a zero on the
diagonal has a kernel vector, and `P·A = L·U`). -/
theorem lu_pivots_ne_zero_of_nonsingular (habs : ∀ x : F, Transc.abs x = |x|) (n : Nat) (a f : List F)
    (piv : List Nat) (ha : a.length = n * n) (h : lu a = some (f, piv))
    (hns : ∀ v : Nat → F, (∀ i, i < n → ∑ j ∈ range n, rd a (i * n + j) * v j = 0) →
      ∀ j, j < n → v j = 0) :
    ∀ k, k < n → rd f (k * n + k) ≠ 0 := by
  obtain ⟨n', hn', -, -, hLU⟩ := lu_correct_ordered habs a f piv h
  obtain ⟨m, hm, hperm⟩ := C11.lu_pivots_perm a f piv h
  have e1 : n' = n := Nat.mul_self_inj.mp (by rw [hn', ha])
  have e2 : m = n := Nat.mul_self_inj.mp (by rw [hm, ha])
  subst e1; subst e2
  intro c
  induction c using Nat.strong_induction_on with
  | _ c ih =>
    intro hc hz
    obtain ⟨v, hv1, hUv⟩ := upper_kernel m f c hc hz (fun k hk => ih k hk (by omega))
    have hAv : ∀ r, r < m → ∑ j ∈ range m, rd a (r * m + j) * v j = 0 := by
      intro r hr
      have hmem : r ∈ piv := (hperm.mem_iff).mpr (List.mem_range.mpr hr)
      obtain ⟨i, hi, hir⟩ := List.getElem_of_mem hmem
      have hi' : i < m := by have := hperm.length_eq; simp at this; omega
      have hgd : piv.getD i 0 = r := by
        simp [List.getD_eq_getElem?_getD, List.getElem?_eq_getElem hi, hir]
      have := lu_mulVec m a f piv hLU v i hi'
      rw [hgd] at this
      rw [this]
      apply Finset.sum_eq_zero
      intro k hk
      rw [hUv k (Finset.mem_range.mp hk), mul_zero]
    have := hns v hAv c hc
    rw [hv1] at this
    exact one_ne_zero this

/-- **Total correctness of `lu` + `lu_solve` on non-singular systems**: no panic, and `A·x = b`. -/
theorem lu_solve_nonsingular (habs : ∀ x : F, Transc.abs x = |x|) (n : Nat) (a b : List F)
    (ha : a.length = n * n) (hb : b.length = n)
    (hns : ∀ v : Nat → F, (∀ i, i < n → ∑ j ∈ range n, rd a (i * n + j) * v j = 0) →
      ∀ j, j < n → v j = 0) :
    ∃ f piv x, lu a = some (f, piv) ∧ luSolve f piv b = some x ∧ x.length = n ∧
      ∀ i, i < n → ∑ j ∈ range n, rd a (i * n + j) * rd x j = rd b i := by
  have hlu : ∃ f piv, lu a = some (f, piv) := by
    cases hl : lu a with
    | none => exact absurd ha.symm ((C11.lu_none_iff a).mp hl n)
    | some fp => exact ⟨fp.1, fp.2, rfl⟩
  obtain ⟨f, piv, hlu⟩ := hlu
  obtain ⟨x, hx⟩ := luSolve_some a b f piv hlu (by rw [ha, hb])
  have hd := lu_pivots_ne_zero_of_nonsingular habs n a f piv ha hlu hns
  obtain ⟨h1, h2⟩ := luSolve_spec n a b f x piv ha hb hlu hd hx
  exact ⟨f, piv, x, hlu, hx, h1, h2⟩

end ordered

/-! ### concrete instances over ℚ -/
section examples
open Cv.C01

theorem abs_rat (x : ℚ) : Transc.abs x = |x| := rfl

/-- a 3×3 matrix whose first two columns each need a row exchange -/
def exA : List ℚ := [0, 2, 1, 1, 1, 0, 2, 1, 1]
def exF : List ℚ := [2, 1, 1, 0, 2, 1, 1/2, 1/4, -3/4]
def exP : List Nat := [2, 0, 1]

theorem ex_lu : lu exA = some (exF, exP) := by decide +kernel

/-- the conclusion of `lu_correct` on the example, checked by evaluation -/
example : ∀ i < 3, ∀ j < 3,
    ∑ k ∈ range 3, Lent 3 exF i k * Uent 3 exF k j = rd exA (exP.getD i 0 * 3 + j) := by
  decide +kernel

/-- … and obtained from the theorem -/
example : ∃ n, n * n = exA.length ∧ exF.length = n * n ∧ exP.length = n ∧ ∀ i j, i < n → j < n →
    ∑ k ∈ range n, Lent n exF i k * Uent n exF k j = rd exA (exP.getD i 0 * n + j) :=
  lu_correct_ordered abs_rat exA exF exP ex_lu

/-- a singular matrix with a zero pivot in the middle column: `P·A = L·U` still holds -/
def sgA : List ℚ := [1, 2, 3, 2, 4, 6, 1, 2, 4]

theorem sg_lu : lu sgA = some ([2, 4, 6, 1/2, 0, 0, 1/2, 0, 1], [1, 0, 2]) := by decide +kernel

example : ∀ i < 3, ∀ j < 3,
    ∑ k ∈ range 3, Lent 3 [2, 4, 6, 1/2, 0, 0, 1/2, 0, 1] i k * Uent 3 [2, 4, 6, 1/2, 0, 0, 1/2, 0, 1] k j
      = rd sgA (([1, 0, 2] : List Nat).getD i 0 * 3 + j) := by
  decide +kernel

/-- multipliers of the example are bounded by one -/
example : ∀ i < 3, ∀ k < i, |rd exF (i * 3 + k)| ≤ 1 := by decide +kernel

/-- `lu_solve` on the example: `b = (4, 2, 5)` gives `x = (1, 1, 2)` -/
theorem ex_solve : luSolve exF exP [4, 2, 5] = some [1, 1, 2] := by decide +kernel

example : ∀ i, i < 3 → ∑ j ∈ range 3, rd exA (i * 3 + j) * rd ([1, 1, 2] : List ℚ) j = rd ([4, 2, 5] : List ℚ) i :=
  (luSolve_spec 3 exA [4, 2, 5] exF [1, 1, 2] exP rfl rfl ex_lu (by decide +kernel) ex_solve).2

/-- the `Matrix`-level solve with two right-hand sides -/
theorem ex_matrix_lu : M.lu (⟨exA, 3, 3⟩ : Mat ℚ) = some (⟨exF, 3, 3⟩, exP) := by decide +kernel

theorem ex_matrix_solve :
    M.solveM (⟨exA, 3, 3⟩ : Mat ℚ) ⟨[4, 0, 2, 1, 5, 2], 3, 2⟩ = some ⟨[1, 1, 1, 0, 2, 0], 3, 2⟩ := by
  decide +kernel

example : ∀ c, c < 2 → ∀ i, i < 3 →
    ∑ j ∈ range 3, M.g (⟨exA, 3, 3⟩ : Mat ℚ) i j * M.g (⟨[1, 1, 1, 0, 2, 0], 3, 2⟩ : Mat ℚ) j c =
      M.g (⟨[4, 0, 2, 1, 5, 2], 3, 2⟩ : Mat ℚ) i c :=
  (matrix_solve_correct ⟨exA, 3, 3⟩ ⟨[4, 0, 2, 1, 5, 2], 3, 2⟩ ⟨[1, 1, 1, 0, 2, 0], 3, 2⟩ ⟨exF, 3, 3⟩ exP
    (by decide) rfl ex_matrix_lu (by decide +kernel) ex_matrix_solve).2.2.2.2

/-- non-vacuity of the non-singularity hypothesis: `[[0,2],[1,1]]` (needs a row exchange) -/
theorem ex_nonsingular : ∀ v : Nat → ℚ,
    (∀ i, i < 2 → ∑ j ∈ range 2, rd ([0, 2, 1, 1] : List ℚ) (i * 2 + j) * v j = 0) → ∀ j, j < 2 → v j = 0 := by
  intro v h
  have h0 := h 0 (by omega)
  have h1 := h 1 (by omega)
  simp [Finset.sum_range_succ, rd] at h0 h1
  intro j hj
  have : j = 0 ∨ j = 1 := by omega
  rcases this with rfl | rfl
  · rw [h0] at h1; simpa using h1
  · exact h0

example : ∃ f piv x, lu ([0, 2, 1, 1] : List ℚ) = some (f, piv) ∧ luSolve f piv [2, 3] = some x ∧
    x.length = 2 ∧ ∀ i, i < 2 → ∑ j ∈ range 2, rd ([0, 2, 1, 1] : List ℚ) (i * 2 + j) * rd x j = rd ([2, 3] : List ℚ) i :=
  lu_solve_nonsingular abs_rat 2 [0, 2, 1, 1] [2, 3] rfl rfl ex_nonsingular

example : lu ([0, 2, 1, 1] : List ℚ) = some ([1, 1, 0, 2], [1, 0]) ∧
    luSolve ([1, 1, 0, 2] : List ℚ) [1, 0] [2, 3] = some [2, 1] := by
  constructor <;> decide +kernel

/-- `Matrix::inv` on the example; `A·X = I` from the theorem -/
theorem ex_matrix_inv :
    M.inv (⟨exA, 3, 3⟩ : Mat ℚ) = some ⟨[-1/3, 1/3, 1/3, 1/3, 2/3, -1/3, 1/3, -4/3, 2/3], 3, 3⟩ := by
  decide +kernel

example : ∀ i, i < 3 → ∀ c, c < 3 →
    ∑ j ∈ range 3, M.g (⟨exA, 3, 3⟩ : Mat ℚ) i j *
      M.g (⟨[-1/3, 1/3, 1/3, 1/3, 2/3, -1/3, 1/3, -4/3, 2/3], 3, 3⟩ : Mat ℚ) j c = if i = c then 1 else 0 :=
  (matrix_inv_correct ⟨exA, 3, 3⟩ _ ⟨exF, 3, 3⟩ exP (by decide) rfl ex_matrix_lu (by decide +kernel)
    ex_matrix_inv).2.2.2

end examples

/-! ### the side condition of `lu_correct` is not automatic without an order -/
section degenerate

/-- a comparison key that never prefers another row: the "pivot search" keeps row `j` -/
@[reducible] def flatTransc : Transc ℚ where
  sqrt x := x
  exp x := x
  ln x := x
  pow x _ := x
  sin x := x
  cos x := x
  tan x := x
  abs _ := 0
  floor x := x
  ceil x := x

attribute [local instance 2000] flatTransc

/-- With a pivot search that does not find the maximum, `[[0,1],[1,1]]` keeps its zero pivot with a
non-zero entry below it; `L·U` then differs from `P·A` exactly by the residual of `lu_residual`. -/
theorem lu_residual_witness :
    lu ([0, 1, 1, 1] : List ℚ) = some ([0, 1, 1, 0], [0, 1]) ∧
    ∑ k ∈ range 2, Lent 2 ([0, 1, 1, 0] : List ℚ) 1 k * Uent 2 ([0, 1, 1, 0] : List ℚ) k 0 = 0 ∧
    rd ([0, 1, 1, 1] : List ℚ) (([0, 1] : List Nat).getD 1 0 * 2 + 0) = 1 := by
  refine ⟨by decide +kernel, by decide +kernel, by decide +kernel⟩

end degenerate

end Cv.C11Lu
