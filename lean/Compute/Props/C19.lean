import Compute.Model.Resample
import Compute.Lemmas.C19Rng
import Compute.Lemmas.C19Resample
import Mathlib.Algebra.Order.Field.Basic
import Mathlib.Tactic.Linarith
/-
# C19 — resampling never invents, loses or unpairs data

Theorems about the model `Model/Resample.lean` / `Model/Rng.lean`, for every element type, data list, generator state
and fuel.

PARTIAL CORRECTNESS is marked in the names: `bootstrap_spec_partial`, `shuffle_perm_partial`, `shuffle_two_pairs_partial`
take a hypothesis `… = some …` ("whenever the call returns").  What is missing for the unconditional statement is the
termination of Lemire's rejection loop for every generator state (not proved; NOT_PROVED).  The termination-relative
totality is in `Props/C19Run.lean`: each function EQUALS a sequence of index draws of the run itself followed by a total
post-processing, returns iff each of its own draws returns within the fuel, and `*_none` locates the failing draw at a
state of the run.  `jackknife_spec` and `length_one` are unconditional.
-/
namespace Cv.C19
open Cv Cv.Rng Cv.Resample

variable {α β : Type}

/-! ## Generator ranges -/

/-- `alea::f64()` lies in `[0, 1)` (value `k / 2^53`, `k < 2^53`, in any ordered field). -/
theorem f64_range {K : Type} [Field K] [LinearOrder K] [IsStrictOrderedRing K] (g : Rng) :
    0 ≤ (g.f64 (α := K)).1 ∧ (g.f64 (α := K)).1 < 1 := by
  have hk := f53_lt g
  have hpos : (0 : K) < ((2 ^ 53 : Nat) : K) := by exact_mod_cast (by decide : 0 < 2 ^ 53)
  show 0 ≤ ((g.f53.1 : K) / ((2 ^ 53 : Nat) : K)) ∧ ((g.f53.1 : K) / ((2 ^ 53 : Nat) : K)) < 1
  refine ⟨div_nonneg (Nat.cast_nonneg _) hpos.le, ?_⟩
  rw [div_lt_one hpos]
  exact_mod_cast hk

/-- `Uniform(lower, upper).sample` lies in `[lower, upper)` for `lower < upper` (exact arithmetic). -/
theorem uniform_sample_range {K : Type} [Field K] [LinearOrder K] [IsStrictOrderedRing K] (lo hi : K)
    (h : lo < hi) (g : Rng) : lo ≤ (Uniform.sample lo hi g).1 ∧ (Uniform.sample lo hi g).1 < hi := by
  obtain ⟨h0, h1⟩ := f64_range (K := K) g
  show lo ≤ (hi - lo) * (g.f64 (α := K)).1 + lo ∧ (hi - lo) * (g.f64 (α := K)).1 + lo < hi
  have hd : 0 < hi - lo := sub_pos.2 h
  constructor
  · have := mul_nonneg hd.le h0
    linarith
  · have := mul_lt_mul_of_pos_left h1 hd
    linarith

/-- Lemire's bounded draw returns a value below the bound. -/
theorem u64LessThan_lt {fuel : Nat} {m : UInt64} {g g' : Rng} {v : UInt64}
    (h : u64LessThan fuel m g = some (v, g')) (hm : 0 < m) : v < m := Rng.u64LessThan_lt h hm

/-- `alea::i64_in_range(a, b)` returns a value in `[a, b]`. -/
theorem i64InRange_range {fuel : Nat} {a b : Int} {g g' : Rng} {v : Int}
    (h : i64InRange fuel a b g = some (v, g')) : a ≤ v ∧ v ≤ b := Rng.i64InRange_range h

/-- The fuel bound is irrelevant: a successful bounded draw is the same for every larger fuel. -/
theorem u64LessThan_fuel_irrelevant {f f' : Nat} {m : UInt64} {g : Rng} {r : UInt64 × Rng}
    (h : u64LessThan f m g = some r) (hf : f ≤ f') : u64LessThan f' m g = some r :=
  Rng.u64LessThan_fuel_mono h hf

/-! ## T-B: exact uniformity of Lemire's method over the raw 64-bit words -/

private theorem ceil_le (A M R : Nat) (hM : 0 < M) : (A + M - 1) / M ≤ R ↔ A ≤ R * M := by
  rw [← Nat.lt_succ_iff, Nat.div_lt_iff_lt_mul hM, Nat.succ_mul]
  omega

private theorem interval_iff (A M q R : Nat) (hM : 0 < M) :
    (A ≤ R * M ∧ R * M < A + q * M) ↔ ((A + M - 1) / M ≤ R ∧ R < (A + M - 1) / M + q) := by
  have key : ∀ R', (A + M - 1) / M ≤ R' ↔ A ≤ R' * M := fun R' => ceil_le A M R' hM
  generalize (A + M - 1) / M = lo at key ⊢
  rw [key R]
  apply and_congr_right
  intro _
  by_cases hq : q ≤ R
  · obtain ⟨R', rfl⟩ : ∃ R', R = R' + q := ⟨R - q, by omega⟩
    have h1 := key R'
    rw [Nat.add_mul]
    constructor
    · intro h
      have : ¬ A ≤ R' * M := by omega
      rw [← h1] at this
      omega
    · intro h
      have : ¬ lo ≤ R' := by omega
      rw [h1] at this
      omega
  · have : R * M < q * M := Nat.mul_lt_mul_of_pos_right (by omega) hM
    constructor
    · intro _; omega
    · intro _; omega

/-- **Equal likelihood (counting form).**  For a bound `m > 0` and an output `v < m`, the raw words `r`
that Lemire's method accepts with output `v` are exactly the `⌊2^64 / m⌋` consecutive words
`lo, lo+1, …, lo + ⌊2^64/m⌋ − 1` (all of them below `2^64`): every output has the same number of
preimages among the `2^64` raw words, so an ideal uniform word source yields an exactly uniform output.
(`u64LessThan_accepts` ties the algorithm to `lemireAccept`/`mulHi`.) -/
theorem lemire_uniform (m v : UInt64) (hv : v < m) :
    ∃ lo : Nat, lo + 2 ^ 64 / m.toNat ≤ 2 ^ 64 ∧
      ∀ r : UInt64, (lemireAccept m r ∧ mulHi r m = v) ↔ (lo ≤ r.toNat ∧ r.toNat < lo + 2 ^ 64 / m.toNat) := by
  rw [UInt64.lt_iff_toNat_lt] at hv
  have hM : 0 < m.toNat := by omega
  have hMW := m.toNat_lt
  have hdm := Nat.div_add_mod (2 ^ 64) m.toNat
  have hq : 2 ^ 64 / m.toNat * m.toNat = m.toNat * (2 ^ 64 / m.toNat) := Nat.mul_comm _ _
  have hchar : ∀ R : Nat, R < 2 ^ 64 →
      ((¬ (R * m.toNat % 2 ^ 64 < 2 ^ 64 % m.toNat) ∧ R * m.toNat / 2 ^ 64 = v.toNat) ↔
        (v.toNat * 2 ^ 64 + 2 ^ 64 % m.toNat ≤ R * m.toNat ∧
          R * m.toNat < v.toNat * 2 ^ 64 + 2 ^ 64 % m.toNat + 2 ^ 64 / m.toNat * m.toNat)) := by
    intro R _
    rw [hq]
    generalize R * m.toNat = P
    omega
  refine ⟨(v.toNat * 2 ^ 64 + 2 ^ 64 % m.toNat + m.toNat - 1) / m.toNat, ?_, ?_⟩
  · -- the last word of the interval is a 64-bit word
    have hqpos : 0 < 2 ^ 64 / m.toNat := Nat.div_pos (by omega) hM
    have hint := interval_iff (v.toNat * 2 ^ 64 + 2 ^ 64 % m.toNat) m.toNat (2 ^ 64 / m.toNat)
    have hle : v.toNat * 2 ^ 64 + 2 ^ 64 % m.toNat + m.toNat * (2 ^ 64 / m.toNat) ≤ 2 ^ 64 * m.toNat := by
      have : (v.toNat + 1) * 2 ^ 64 ≤ m.toNat * 2 ^ 64 := Nat.mul_le_mul_right _ (by omega)
      rw [Nat.mul_comm (2 ^ 64) m.toNat]
      omega
    rw [← hq] at hle
    generalize (v.toNat * 2 ^ 64 + 2 ^ 64 % m.toNat + m.toNat - 1) / m.toNat = lo at hint ⊢
    generalize 2 ^ 64 / m.toNat = q at hint hqpos hle ⊢
    have hlt := ((hint (lo + q - 1) hM).2 ⟨by omega, by omega⟩).2
    have : (lo + q - 1) * m.toNat < 2 ^ 64 * m.toNat := Nat.lt_of_lt_of_le hlt hle
    have := Nat.lt_of_mul_lt_mul_right this
    omega
  · intro r
    rw [← interval_iff _ _ _ _ hM, ← hchar r.toNat r.toNat_lt]
    unfold lemireAccept
    rw [UInt64.lt_iff_toNat_lt, lemireT_toNat m hM, UInt64.toNat_mul]
    apply and_congr_right
    intro _
    rw [← mulHi_toNat]
    constructor
    · intro h; rw [h]
    · intro h; exact UInt64.toNat_inj.1 h

/-- Every value returned by `u64_less_than` is the output `mulHi r m` of a word `r` accepted by
`lemireAccept` — the set counted in `lemire_uniform`. -/
theorem u64LessThan_accepts {fuel : Nat} {m : UInt64} {g g' : Rng} {v : UInt64}
    (h : u64LessThan fuel m g = some (v, g')) : ∃ r : UInt64, lemireAccept m r ∧ v = mulHi r m :=
  Rng.u64LessThan_spec h

/-! ## bootstrap -/

/-- PARTIAL (whenever the call returns; full statement = the same conclusion for every state, missing: termination of
Lemire's loop; termination-relative form: `bootstrap_eq`, `bootstrap_isSome_iff` in `Props/C19Run.lean`).
`bootstrap` returns exactly `n_bootstrap` resamples, each of the original length, and every element of
every resample is `data[i]` for an index `i < n` (nothing invented). -/
theorem bootstrap_spec_partial {fuel : Nat} {d : List α} {nb : Nat} {g g' : Rng} {rs : List (List α)}
    (h : bootstrap fuel d nb g = some (rs, g')) :
    rs.length = nb ∧ ∀ r ∈ rs, r.length = d.length ∧
      ∀ j (hj : j < r.length), ∃ i, ∃ hi : i < d.length, r[j] = d[i] := by
  unfold bootstrap at h
  split at h
  · simp at h
  · obtain ⟨hl, hall⟩ := bootLoop_spec h
    refine ⟨hl, ?_⟩
    intro r hr
    obtain ⟨h1, h2⟩ := hall r hr
    refine ⟨by simpa using h1, ?_⟩
    intro j hj
    obtain ⟨i, hi, he⟩ := h2 j hj
    exact ⟨i, by simpa using hi, by simpa using he⟩

example : bootstrap 0 [(7 : Nat)] 2 (Rng.ofSeed 1) = some ([[7], [7]], Rng.ofSeed 1) := by decide

/-! ## jackknife -/

/-- `jackknife d` is exactly the list of the `n` leave-one-out vectors `d.eraseIdx i`, `i = 0 … n−1`, in order
(and never panics, including `n = 0` where it is empty). -/
theorem jackknife_spec (d : List α) : jackknife d = some ((List.range d.length).map fun i => d.eraseIdx i) := by
  unfold jackknife
  apply seqOpt_map_some
  intro i hi
  exact leaveOut_eq (List.mem_range.1 hi)

example : jackknife [1, 2, 3] = some [[2, 3], [1, 3], [1, 2]] := by decide

/-! ## shuffle -/

/-- PARTIAL (whenever the call returns; see `shuffle_eq`, `shuffle_isSome_iff` in `Props/C19Run.lean`).
`shuffle` returns a permutation of its input (same multiset, same length). -/
theorem shuffle_perm_partial {fuel : Nat} {d r : List α} {g g' : Rng} (h : shuffle fuel d g = some (r, g')) :
    r.Perm d := by
  unfold shuffle at h
  split at h
  · simp at h
  · rw [Option.map_eq_some_iff] at h
    obtain ⟨⟨ys, g1⟩, hl, he⟩ := h
    simp only [Prod.mk.injEq] at he
    rw [← he.1]
    simpa using shuffleLoop_perm hl

/-- PARTIAL (whenever the call returns; see `shuffle_two_eq`, `shuffle_two_isSome_iff` in `Props/C19Run.lean`).
`shuffle_two` applies one common permutation to both arrays: the list of pairs of the result is a
permutation of the list of pairs of the input; in particular each array is permuted. -/
theorem shuffle_two_pairs_partial {fuel : Nat} {a ra : List α} {b rb : List β} {g g' : Rng}
    (h : shuffleTwo fuel a b g = some (ra, rb, g')) :
    (ra.zip rb).Perm (a.zip b) ∧ ra.Perm a ∧ rb.Perm b := by
  unfold shuffleTwo at h
  split at h
  · simp at h
  · rename_i hlen
    split at h
    · simp at h
    · rw [Option.map_eq_some_iff] at h
      obtain ⟨⟨xs, ys, g1⟩, hl, he⟩ := h
      simp only [Prod.mk.injEq] at he
      have hlen' : a.length = b.length := by simpa using hlen
      obtain ⟨hsz, hp⟩ := shuffleTwoLoop_pairs (by simpa using hlen') hl
      rw [← he.1, ← he.2.1]
      have hp' : (xs.toList.zip ys.toList).Perm (a.zip b) := by simpa using hp
      have hsz' : xs.toList.length = ys.toList.length := by simpa using hsz
      refine ⟨hp', ?_, ?_⟩
      · have := hp'.map Prod.fst
        rwa [List.map_fst_zip (by omega), List.map_fst_zip (by omega)] at this
      · have := hp'.map Prod.snd
        rwa [List.map_snd_zip (by omega), List.map_snd_zip (by omega)] at this

/-- Unequal lengths: `shuffle_two` panics (`assert_eq!`). -/
theorem shuffle_two_unequal {fuel : Nat} {a : List α} {b : List β} {g : Rng} (h : a.length ≠ b.length) :
    shuffleTwo fuel a b g = none := by
  unfold shuffleTwo; rw [if_pos h]

/-! ## length 1 (F22 repaired) -/

/-- All four functions return on length-1 input, for every generator state and every fuel (even 0):
the degenerate `DiscreteUniform(0, 0)` returns `0` without drawing. -/
theorem length_one (fuel : Nat) (x : α) (y : β) (nb : Nat) (g : Rng) :
    bootstrap fuel [x] nb g = some (List.replicate nb [x], g) ∧
    jackknife [x] = some [[]] ∧
    shuffle fuel [x] g = some ([x], g) ∧
    shuffleTwo fuel [x] [y] g = some ([x], [y], g) := by
  refine ⟨?_, ?_, ?_, ?_⟩
  · unfold bootstrap
    simp only [List.isEmpty_cons, Bool.false_eq_true, if_false]
    induction nb with
    | zero => rfl
    | succ k ih =>
      simp only [bootLoop]
      simp [DiscreteUniform.sampleIntN, drawN?, DiscreteUniform.sampleInt, pick, List.replicate_succ, ih]
  · rw [jackknife_spec]; rfl
  · simp [shuffle, shuffleLoop, DiscreteUniform.sampleInt, swapAt]
  · simp [shuffleTwo, shuffleTwoLoop, DiscreteUniform.sampleInt, swapAt]

end Cv.C19
