"""C14 — polynomial regression returns the least-squares polynomial.

Lines (tag = regime label, dropped before the line reaches the model):
  fit <tag> <deg> <vec x> <vec y>               -> = <vec coef>
  predict <tag> <vec coef> <vec x>              -> = <vec>
  fitpred <tag> <deg> <vec x> <vec y> <vec xs>  -> = <vec coef> <vec pred>
  vander <tag> <n> <vec x>                      -> = <vec>
  refit <tag> <deg> <k> (<vec x> <vec y>)*k     one regressor fitted on each data set in turn -> = <vec coef>*k

Oracle (exact rational arithmetic on the implementation's replies; G = V^T V, b = V^T y formed exactly):
  * orthogonality: |sum_i x_i^j (y_i - p_c(x_i))| <= C eps cond_inf(G) S_j, S_j = sum_i |x_i|^j (|y_i| + sum_k |c_k||x_i|^k)
  * minimality: rss(c) - min rss = g^T G^-1 g and every random perturbation c' has rss(c') >= rss(c) - allowance,
    allowance = ||G^-1||_inf max_j(tol_j) sum_j(tol_j)
  * reproduction / forward error: ||c - c*||_inf <= C eps (cond_inf(G) ||c*||_inf + ||G^-1||_inf || |V|^T |y| ||_inf)
    (c* = exact least-squares solution; for data generated exactly by a polynomial c* is that polynomial)
  * predict: |pred - sum c_k x^k| <= (2 len + 2) eps sum |c_k||x|^k  (Horner bound), exact when everything is a small integer
  * vandermonde: V[i, j] is x_i^j within j/2+1 ulp (square-and-multiply), exact for j <= 1 and for dyadic x
  * length mismatch or empty input panics; a well-conditioned fit does not panic.
Cases with C eps cond(G) >= 1e-2, fewer than deg+1 distinct abscissae, or responses that are all below 1e-250 in
magnitude but not all zero (absolute underflow errors, outside the relative bounds) are correspondence-only.
"""
import math
from fractions import Fraction
from .common import Failure, f2h, h2f, parse_reply, vec

ID = "C14"
BIN = "c14"
PROOF_MODULES = ["Compute.Props.C14", "Compute.Props.C14Review", "Compute.Props.C14Predict"]
REQUIRED_THEOREMS = ["Cv.C14.predict_spec", "Cv.C14.vandermonde_entry", "Cv.C14.fit_normal_equations",
                     "Cv.C14.fit_orthogonal", "Cv.C14.fit_minimal", "Cv.C14.fit_reproduces",
                     "Cv.C14R.distinct_imp_xtx_det_ne_zero", "Cv.C14R.poly_fit_total_distinct", "Cv.C14R.fit_reproduces_distinct",
                     "Cv.C14R.repeated_abscissa_singular",
                     "Cv.C14P.predict_length", "Cv.C14P.predict_pointwise", "Cv.C14P.predict_append"]
RULE = ("degrees 0..6 x four abscissa layouts in [-2,2] (uniform, clustered, Chebyshev, integer/dyadic grid) x n from "
        "deg+1 to 2000 x responses = polynomial + noise at relative scales 0..1e6, exact-integer data, rank-deficient and "
        "mismatched inputs; replicated small-integer designs (levels in -3..3 with multiplicities, found by brute force) whose "
        "X^T X has an exactly-zero entry with non-zero Cholesky fill-in; predict (set-coefficient and after-fit routes) and fit on long "
        "inputs of pairwise distinct abscissae covering every residue mod 8 (thorough: every length) in 256..300, 500..560, 1000..1040, "
        "4090..4110 and 1999..2001, every output slot checked against the exact Horner value at its own abscissa; equally spaced grids x0 + i h, ascending and descending (h = 2^-4..2^-10, "
        "linspace(-2,2,n) for n = 257, 513, 1025, 2049 and general n, steps 0.25..2^-9, n = 16..2100, degrees 1..6, real and integer coefficients, "
        "both predict routes); predict on coefficient lists of length 0..9 incl. special values; non-trivial = distinct "
        "(op, layout, degree, size class, noise class)")
EXHAUSTIVE = {"quick": False, "thorough": False}
NOT_PROVED = [
    "floating-point rounding of the normal-equation solve (theorems are over a field; the float gap is covered by the "
    "bit-exact tie plus the cond(V^T V)-scaled oracle)",
    "exactness of invert_matrix is a hypothesis of fit_normal_equations/fit_minimal/fit_reproduces (G * inv = I), "
    "to be discharged by the C01 inverse theorem",
]
TRUSTED = ["Lean Float arithmetic = Rust f64 arithmetic (measured)", "powi = square-and-multiply (Cv.powi, measured)",
           "Python fractions for the exact normal equations",
           "the source tie fit_eq (Props/SrcTieC14Mut) is against generated code that calls the MODEL's own vandermonde, xtx, "
           "invertMatrix and matmul: it ties only the call chain of PolynomialRegressor::fit (argument order, transpose flags, "
           "dimensions, the length assert, the state update), not those callees, which are tied by their own properties "
           "(C05 matmul/xtx, C01 invert_matrix, C15 vandermonde) and by the bit-exact run-time correspondence"]
ASSUMPTIONS = ["is_square uses an f32 square root: exact for the (deg+1)^2 <= 49-element matrices used here"]

EPS = 2.0 ** -52
C_TOL = 10000.0      # calibrated: max observed ratio over seeds 1..5 quick and thorough is 57.9 (>= 100x headroom)
SKIP_AT = 1e-2       # C_TOL * eps * cond above this: the bound says nothing, correspondence only


def model_line(line):
    t = line.split()
    return " ".join([t[0]] + t[2:])


# ----------------------------------------------------------------------------- generator
def layout(rng, kind, n):
    if kind == "uniform":
        return [rng.uniform(-2.0, 2.0) for _ in range(n)]
    if kind == "cheb":
        xs = [2.0 * math.cos(math.pi * (2 * i + 1) / (2 * n)) for i in range(n)]
        return rng.shuffle(xs) if rng.chance(0.5) else xs
    if kind == "cluster":
        k = rng.randint(1, 9)
        centres = [rng.uniform(-2.0, 2.0) for _ in range(k)]
        w = rng.choice([1e-1, 1e-2, 1e-3])
        return [min(2.0, max(-2.0, rng.choice(centres) + w * rng.uniform(-1, 1))) for _ in range(n)]
    if kind == "int":
        return [float(rng.randint(-2, 2)) for _ in range(n)]
    if kind == "grid":   # dyadic grid in [-2, 2]
        q = rng.choice([2, 4, 8, 16])
        return [rng.randint(-2 * q, 2 * q) / q for _ in range(n)]
    raise ValueError(kind)


def horner_f(c, x):
    acc = 0.0
    for a in reversed(c):
        acc = acc * x + a
    return acc


def gen_fit(rng, tier, cover, big):
    d = rng.randint(0, 6)
    kind = rng.choice(["uniform", "uniform", "cheb", "cluster", "int", "grid"])
    if big:
        n = rng.randint(200, 2000)
    else:
        n = d + 1 + rng.choice([0, 0, 1, 2, rng.randint(0, 12), rng.randint(0, 60)])
    x = layout(rng, kind, n)
    exact = kind in ("int", "grid") and rng.chance(0.5)
    if exact:
        c0 = [float(rng.randint(-9, 9)) for _ in range(d + 1)]
        if rng.chance(0.2):
            c0[-1] = 0.0      # vanishing leading coefficient: the fit must still return deg+1 coefficients
        y = [float(sum(Fraction(c) * Fraction(v) ** k for k, c in enumerate(c0))) for v in x]
        noise = "exact"
    else:
        c0 = [rng.normal() * 10.0 ** rng.randint(-2, 2) for _ in range(d + 1)]
        s = rng.choice([0.0, 1e-10, 1e-5, 1e-2, 1.0, 1e2, 1e6])
        scale = max(abs(a) for a in c0) or 1.0
        y = [horner_f(c0, v) + s * scale * rng.normal() for v in x]
        noise = "s%g" % s
        if rng.chance(0.03):
            y = [rng.normal() for _ in x]      # pure noise
            noise = "pure"
    tag = "%s:d%d:%s:%s" % (kind, d, "big" if big else "small", noise)
    cover["fit:" + kind] = cover.get("fit:" + kind, 0) + 1
    cover["deg%d" % d] = cover.get("deg%d" % d, 0) + 1
    if rng.chance(0.25):
        m = rng.randint(1, 8)
        xs = [rng.uniform(-2.5, 2.5) for _ in range(m)]
        return "fitpred %s %d %s %s %s" % (tag, d, vec(x), vec(y), vec(xs))
    return "fit %s %d %s %s" % (tag, d, vec(x), vec(y))



# ---- replicated small-integer designs with an exactly-zero entry of X^T X and non-zero Cholesky fill-in
_ZS_POOL = {}


def _fillin_zero_entries(levels, mult, d):
    """exact LDL^T of the Hankel matrix of power sums; -> True iff some entry a[i][j] (i > j >= 1) is exactly 0 while
    the fill-in sum_k<j L[i][k] L[j][k] of the Cholesky factor is not (the entry of L is then non-zero)."""
    p = d + 1
    sm = [sum(m * (v ** k) for v, m in zip(levels, mult)) for k in range(2 * p - 1)]
    A = [[Fraction(sm[i + j]) for j in range(p)] for i in range(p)]
    L = [[Fraction(0)] * p for _ in range(p)]
    D = [Fraction(0)] * p
    hit = False
    for j in range(p):
        D[j] = A[j][j] - sum(L[j][k] * L[j][k] * D[k] for k in range(j))
        if D[j] <= 0:
            return False
        L[j][j] = Fraction(1)
        for i in range(j + 1, p):
            fill = sum(L[i][k] * L[j][k] * D[k] for k in range(j))
            L[i][j] = (A[i][j] - fill) / D[j]
            if j >= 1 and A[i][j] == 0 and fill != 0:
                hit = True
    return hit


def zs_pool(d):
    """brute-force enumeration (deterministic, cached): level subsets of {-3..3} with multiplicities."""
    if d in _ZS_POOL:
        return _ZS_POOL[d]
    import itertools
    pool = []
    for size, mmax in ((d + 1, {2: 10, 3: 5, 4: 3}.get(d, 2)), (d + 2, {2: 5, 3: 3, 4: 2}.get(d, 2))):
        if size > 7:
            continue
        for levels in itertools.combinations(range(-3, 4), size):
            for mult in itertools.product(range(1, mmax + 1), repeat=size):
                odd = [sum(m * v ** k for v, m in zip(levels, mult)) for k in range(1, 2 * d, 2)]
                if 0 not in odd[1:] or all(o == 0 for o in odd):
                    continue       # needs an exactly-zero odd power sum of order >= 3, but not a symmetric design
                if _fillin_zero_entries(levels, mult, d):
                    pool.append((levels, mult))
    _ZS_POOL[d] = pool
    return pool


def gen_zerosum(rng, cover):
    d = rng.choice([2, 2, 3, 3, 4])
    pool = zs_pool(d)
    levels, mult = rng.choice(pool)
    x = []
    for v, m in zip(levels, mult):
        x += [float(v)] * m
    rng.shuffle(x)
    if rng.chance(0.5):
        c0 = [float(rng.randint(-9, 9)) for _ in range(d + 1)]
        y = [float(sum(Fraction(c) * Fraction(v) ** k for k, c in enumerate(c0))) for v in x]
        noise = "exact"
    else:
        c0 = [rng.normal() * 10.0 ** rng.randint(-1, 1) for _ in range(d + 1)]
        sc = rng.choice([1e-3, 1.0, 1e2]) * (max(abs(a) for a in c0) or 1.0)
        y = [horner_f(c0, v) + sc * rng.normal() for v in x]
        noise = "noisy"
    cover["fit:zerosum"] = cover.get("fit:zerosum", 0) + 1
    cover["zerosum:pool:d%d" % d] = len(pool)
    return "fit zerosum:d%d:%s %d %s %s" % (d, noise, d, vec(x), vec(y))


def gen_refit(rng, cover):
    """one regressor object fitted on 2-3 data sets; optionally the first fit has an exactly-zero leading coefficient"""
    d = rng.randint(1, 5)
    k = rng.choice([2, 2, 3])
    sets = []
    for a in range(k):
        if a == 0 and rng.chance(0.5):
            # symmetric integer grid, response of lower degree: leading coefficient exactly 0
            m = max(d + 1, 5)
            half = (m + 1) // 2
            x = [float(v) for v in range(-half, half + 1)]
            c0 = [float(rng.randint(-5, 5)) for _ in range(d)] + [0.0]
            if d >= 2:
                c0 = [c if (j % 2 == 0) else 0.0 for j, c in enumerate(c0)]   # even response: odd coefficients vanish too
            y = [float(sum(Fraction(c) * Fraction(v) ** j for j, c in enumerate(c0))) for v in x]
        else:
            kind = rng.choice(["uniform", "cheb", "grid"])
            x = layout(rng, kind, d + 1 + rng.randint(0, 20))
            c0 = [rng.normal() * 10.0 ** rng.randint(-1, 1) for _ in range(d + 1)]
            sc = rng.choice([0.0, 1e-3, 1.0]) * (max(abs(c) for c in c0) or 1.0)
            y = [horner_f(c0, v) + sc * rng.normal() for v in x]
        sets.append((x, y))
    cover["refit"] = cover.get("refit", 0) + 1
    return "refit refit:d%d:k%d %d %d %s" % (d, k, d, k, " ".join("%s %s" % (vec(x), vec(y)) for x, y in sets))


def gen_predict(rng, cover):
    k = rng.randint(0, 9)
    if rng.chance(0.3):
        c = [float(rng.randint(-5, 5)) for _ in range(k)]
        x = [float(rng.randint(-4, 4)) for _ in range(rng.randint(0, 12))]
        tag = "int:k%d" % k
    else:
        c = [rng.normal() * 10.0 ** rng.randint(-3, 3) for _ in range(k)]
        x = [rng.uniform(-2.5, 2.5) for _ in range(rng.randint(0, 12))]
        tag = "real:k%d" % k
        if rng.chance(0.15):
            x += [0.0, -0.0, float("inf"), float("-inf"), float("nan"), 1e300, 5e-324]
            tag = "special:k%d" % k
    cover["predict"] = cover.get("predict", 0) + 1
    return "predict %s %s %s" % (tag, vec(c), vec(x))


def gen_bad(rng, cover):
    d = rng.randint(0, 4)
    r = rng.randint(0, 3)
    cover["bad"] = cover.get("bad", 0) + 1
    if r == 0:    # length mismatch
        n = rng.randint(1, 9)
        return "fit mismatch:d%d %d %s %s" % (d, d, vec([rng.normal() for _ in range(n)]), vec([rng.normal() for _ in range(n + rng.choice([1, 2, -1]) if n > 1 else n + 1)]))
    if r == 1:    # empty
        return "fit empty:d%d %d 0 0" % (d, d)
    if r == 2:    # too few points / repeated abscissae: singular normal matrix
        n = rng.randint(1, d + 1) if d > 0 else 1
        xs = [float(rng.randint(-1, 1)) for _ in range(n + 2)]
        if len(set(xs)) > d:
            xs = [xs[0]] * len(xs)
        return "fit rankdef:d%d %d %s %s" % (d, d, vec(xs), vec([rng.normal() for _ in xs]))
    n = rng.randint(d + 1, d + 6)  # special values in the data
    x = [rng.uniform(-2, 2) for _ in range(n)]
    y = [rng.normal() for _ in range(n)]
    y[rng.randint(0, n - 1)] = rng.choice([float("inf"), float("nan"), 1e308])
    return "fit special:d%d %d %s %s" % (d, d, vec(x), vec(y))


def corpus():
    L = []
    # the crate's own test: straight line 5 + 2x on 250 points
    x = [i / 10.0 for i in range(250)]
    L.append("fit corpus:line 1 %s %s" % (vec(x), vec([5.0 + 2.0 * v for v in x])))
    # coefficient order of predict for degree >= 2: 1 + 2x + 3x^2 at x = 2 is 17 (reversed order would give 11)
    L.append("predict corpus:order %s %s" % (vec([1.0, 2.0, 3.0]), vec([2.0, -1.0, 0.0])))
    # exact-integer cubic on integer abscissae
    xi = [-2.0, -1.0, 0.0, 1.0, 2.0, -2.0, 1.0]
    L.append("fit corpus:cubic 3 %s %s" % (vec(xi), vec([1.0 - 2.0 * v + 3.0 * v ** 3 for v in xi])))
    L.append("vander corpus:v 4 %s" % vec([2.0, -1.5, 0.0]))
    # equally spaced grids with a dyadic step (all consecutive differences bit-for-bit equal), non-round coefficients
    L.append("predict corpus:grid:linspace1025:k6 %s %s" % (vec([0.7310585786300049, -1.2247448713915890, 0.5772156649015329, 1.6180339887498949, -0.6931471805599453, 0.3183098861837907]),
                                                            vec([-2.0 + i * (4.0 / 1024) for i in range(1025)])))
    L.append("predict corpus:grid:step2^-9:n2000:k7 %s %s" % (vec([-0.4342944819032518, 0.9189385332046727, -1.4142135623730951, 0.2718281828459045, 0.8660254037844386, -0.5403023058681398, 0.1234567890123457]),
                                                            vec([-2.0 + i * 2.0 ** -9 for i in range(2000)])))
    # long inputs of predict whose length is not a multiple of 8: output slot i belongs to abscissa i, also in the tail
    for n in (257, 1001):
        xs = [-2.0 + 4.0 * ((i * 389) % n) / n for i in range(n)]      # distinct, scrambled
        L.append("predict corpus:long:n%d %s %s" % (n, vec([1.0, -2.0, 0.5, 0.25]), vec(xs)))
    L.append("fit corpus:mismatch 1 %s %s" % (vec([1.0, 2.0, 3.0]), vec([1.0, 2.0])))
    # cubic regressor on the symmetric grid, even response 1 + x^2: c1 = c3 = 0 exactly, still 4 coefficients
    xg = [-2.0, -1.0, 0.0, 1.0, 2.0]
    L.append("fit corpus:even-cubic 3 %s %s" % (vec(xg), vec([1.0 + v * v for v in xg])))
    # the same regressor re-fitted after a fit whose leading coefficient is exactly 0 (C14b): still a cubic afterwards
    x7 = [-3.0, -2.0, -1.0, 0.0, 1.0, 2.0, 3.0]
    L.append("refit corpus:even-then-cubic 3 2 %s %s %s %s" % (vec(xg), vec([1.0 + v * v for v in xg]),
                                                                vec(x7), vec([0.5 - 2.0 * v + 0.25 * v * v + 1.5 * v ** 3 for v in x7])))
    # replicated design with sum x^3 = 0 exactly but sum x = 6: X^T X has a zero entry whose Cholesky fill-in is 72/11
    xz = [-2.0] + [0.0] * 2 + [1.0] * 8
    L.append("fit corpus:zerosum:d2:exact 2 %s %s" % (vec(xz), vec([1.0 + 2.0 * v + 3.0 * v * v for v in xz])))
    L.append("fit corpus:zerosum:d2:noisy 2 %s %s" % (vec(xz), vec([1.0 + 2.0 * v + 3.0 * v * v + 0.25 * ((7 * i) % 5 - 2) for i, v in enumerate(xz)])))
    return L



# ----------------------------------------------------------------------------- generic strata (GENERIC_STRATA.md)
SPECIAL_X = [0.0, -0.0, 1.0, -1.0, 0.5, -0.5, 1.5, 2.0, -2.0, 1.0 / 3.0, 2.0 / 3.0, -1.0 / 3.0, 0.25, 1.0 + 2.0 ** -52,
             1.0 - 2.0 ** -53, 2.0 - 2.0 ** -51]


def strata_layout(rng, kind, n):
    if kind == "zeros":       # many abscissae exactly 0 (and -0), the rest uniform
        return [rng.choice([0.0, 0.0, -0.0]) if rng.chance(0.4) else rng.uniform(-2.0, 2.0) for _ in range(n)]
    if kind == "near0":       # tightly clustered around 0
        w = rng.choice([1e-3, 1e-3, 1e-4])
        return [w * rng.uniform(-1.0, 1.0) for _ in range(n)]
    if kind == "nonpos":      # max(x) = 0 exactly
        xs = [-rng.uniform(0.0, 2.0) for _ in range(n)]
        for _ in range(rng.randint(1, 2)):
            xs[rng.randint(0, n - 1)] = rng.choice([0.0, -0.0])
        return xs
    if kind == "neg":         # max(x) < 0
        return [-rng.uniform(0.05, 2.0) for _ in range(n)]
    if kind == "special":
        return [rng.choice(SPECIAL_X) if rng.chance(0.6) else rng.randint(-8, 8) / 4.0 for _ in range(n)]
    raise ValueError(kind)


def strata_fit_line(rng, tagp, d, x, ymode, cover, key):
    c0 = [rng.normal() * 10.0 ** rng.randint(-1, 1) for _ in range(d + 1)]
    sc = max(abs(a) for a in c0) or 1.0
    y = [horner_f(c0, v) + rng.choice([1e-3, 0.1, 1.0]) * sc * rng.normal() for v in x]
    if ymode == "zeros":      # some responses exactly 0.0 / -0.0 / subnormal
        for i in range(len(y)):
            if rng.chance(0.3):
                y[i] = rng.choice([0.0, 0.0, -0.0, 5e-324, -1e-310])
    elif ymode == "allzero":
        y = [rng.choice([0.0, -0.0]) for _ in x]
    elif ymode == "const":
        y = [c0[0]] * len(x)
    cover[key] = cover.get(key, 0) + 1
    return "fit %s:d%d:%s %d %s %s" % (tagp, d, ymode, d, vec(x), vec(y))


def gen_strata(rng, tier, cover):
    q = tier == "quick"
    m = 1 if q else 12
    L = []
    # abscissae exactly 0 with noisy responses; max(x) = 0; all negative; exact special abscissae
    for kind, cnt in (("zeros", 40), ("nonpos", 30), ("neg", 15), ("special", 30)):
        for _ in range(cnt * m):
            d = rng.randint(0, 4)
            n = d + 1 + rng.choice([0, 0, 1, 3, rng.randint(0, 30)])
            x = strata_layout(rng, kind, n)
            L.append(strata_fit_line(rng, kind, d, x, rng.choice(["noisy", "noisy", "zeros"]), cover, "strata:" + kind))
    # tight cluster around 0 (low degrees only: the normal matrix is ~singular beyond)
    for _ in range(40 * m):
        d = rng.choice([0, 0, 1, 1, 1, 2])
        n = d + 1 + rng.choice([0, 1, 2, 5, rng.randint(0, 40)])
        L.append(strata_fit_line(rng, "near0", d, strata_layout(rng, "near0", n), "noisy", cover, "strata:near0"))
    # responses exactly zero / subnormal / constant on ordinary layouts
    for _ in range(50 * m):
        d = rng.randint(0, 5)
        kind = rng.choice(["uniform", "cheb", "grid", "int"])
        if kind == "int":
            d = min(d, 4)
        n = d + 1 + rng.choice([0, 2, 6, rng.randint(0, 40)])
        L.append(strata_fit_line(rng, kind, d, layout(rng, kind, max(n, 5 if kind == "int" else n) if kind != "int" else max(n, 12)),
                                 rng.choice(["zeros", "zeros", "allzero", "const"]), cover, "strata:yzero"))
    # size boundaries: n = degree + 1 exactly, 2^k and neighbours, multiples of 8, and (d+1)^2 n crossing 32768
    for d in range(0, 7):
        for _ in range(3 * m):
            kind = rng.choice(["uniform", "cheb"])
            L.append(strata_fit_line(rng, kind + ":nmin", d, layout(rng, kind, d + 1), "noisy", cover, "strata:nmin"))
    for n in [7, 8, 9, 15, 16, 17, 31, 32, 33, 63, 64, 65, 127, 128, 129, 255, 256, 257] * m:
        d = rng.randint(0, min(6, n - 1))
        L.append(strata_fit_line(rng, "uniform:bnd", d, layout(rng, "uniform", n), "noisy", cover, "strata:sizes"))
    big = [(6, 668), (6, 669), (6, 670), (6, 1024), (6, 2000), (5, 910), (5, 911), (5, 1025), (4, 1310), (4, 1311), (3, 2000),
           (2, 511), (2, 512), (2, 513), (1, 1023), (1, 1024), (1, 1025), (0, 2000)]
    for d, n in (big if q else big * 4):
        kind = rng.choice(["uniform", "cheb"])
        L.append(strata_fit_line(rng, kind + ":big", d, layout(rng, kind, n), rng.choice(["noisy", "zeros"]), cover, "strata:32768"))
    # exact scale equivariance in the responses: y * 2^k gives coefficients * 2^k bit for bit
    for j in range(30 * m):
        d = rng.randint(0, 5)
        kind = rng.choice(["uniform", "cheb", "grid"])
        x = layout(rng, kind, d + 1 + rng.randint(0, 25))
        c0 = [rng.normal() for _ in range(d + 1)]
        y = [horner_f(c0, v) + 0.1 * rng.normal() for v in x]
        k = rng.choice([-500, -200, -40, 40, 200, 500])
        L.append("fit scaleA:%d:d%d %d %s %s" % (j, d, d, vec(x), vec(y)))
        L.append("fit scaleB:%d:%d:d%d %d %s %s" % (j, k, d, d, vec(x), vec([v * 2.0 ** k for v in y])))
        cover["strata:scale"] = cover.get("strata:scale", 0) + 1
    # predict: special coefficient / abscissa values
    for _ in range(30 * m):
        kk = rng.randint(1, 8)
        c = [rng.choice(SPECIAL_X + [3.0, 1e300, 1e-300, 5e-324]) for _ in range(kk)]
        xs = [rng.choice(SPECIAL_X) for _ in range(rng.randint(1, 8))]
        L.append("predict special2:k%d %s %s" % (kk, vec(c), vec(xs)))
    return L


# ----------------------------------------------------------------------------- long inputs of predict / fit
LONG_RANGES = [(256, 300), (500, 560), (1000, 1040), (4090, 4110)]
LONG_EXTRA = [1999, 2000, 2001]      # the property's upper scope bound for fit


def distinct_abscissae(rng, n):
    """n pairwise distinct points of [-2, 2], in random order (a misplaced point is visible)"""
    xs = [-2.0 + 4.0 * (i + rng.uniform(0.05, 0.95)) / n for i in range(n)]
    return rng.shuffle(xs)


def long_lines(rng, n, cover, routes=("predict", "fitpred", "fit")):
    L = []
    d = rng.randint(0, 6)
    if "predict" in routes:      # coefficients set through the pub field
        c = [rng.normal() * 10.0 ** rng.randint(-1, 1) for _ in range(d + 1)]
        L.append("predict long:n%d:k%d %s %s" % (n, d + 1, vec(c), vec(distinct_abscissae(rng, n))))
    if "fitpred" in routes:      # coefficients stored by fit, then predict on n points
        m = d + 1 + rng.randint(0, 20)
        x = layout(rng, "uniform", m)
        c0 = [rng.normal() for _ in range(d + 1)]
        y = [horner_f(c0, v) + 0.1 * rng.normal() for v in x]
        L.append("fitpred long:n%d:d%d %d %s %s %s" % (n, d, d, vec(x), vec(y), vec(distinct_abscissae(rng, n))))
    if "fit" in routes:          # fit itself on n points
        dd = min(d, 4)
        x = distinct_abscissae(rng, n)
        c0 = [rng.normal() for _ in range(dd + 1)]
        L.append("fit long:n%d:d%d %d %s %s" % (n, dd, dd, vec(x), vec([horner_f(c0, v) + 0.1 * rng.normal() for v in x])))
    cover["long"] = cover.get("long", 0) + len(L)
    return L


def gen_long(rng, tier, cover):
    L = []
    if tier == "quick":
        # every residue mod 8 in each range (8 consecutive lengths from a random start), alternating routes
        for lo, hi in LONG_RANGES:
            start = rng.randint(lo, hi - 7)
            for j, n in enumerate(range(start, start + 8)):
                L += long_lines(rng, n, cover, routes=(("predict",), ("fitpred",))[j % 2] if lo > 4000 else
                                (("predict", "fit"), ("fitpred",))[j % 2])
        for n in LONG_EXTRA + [255, 256, 257]:
            L += long_lines(rng, n, cover)
    else:
        # every length of every range (all residues mod 8, 16 and 64 several times over)
        for lo, hi in LONG_RANGES:
            for n in range(lo, hi + 1):
                L += long_lines(rng, n, cover, routes=("predict", "fitpred") if lo > 4000 else ("predict", "fitpred", "fit"))
        for n in LONG_EXTRA + list(range(248, 256)):
            L += long_lines(rng, n, cover)
    return L


# ----------------------------------------------------------------------------- equally spaced grids (predict / fit+predict)
def grid_points(x0, h, n, desc=False):
    """x0 + i*h evaluated in floating point; for dyadic h and x0 every point and every consecutive difference is exact"""
    xs = [x0 + i * h for i in range(n)]
    return xs[::-1] if desc else xs


def random_grid(rng, big):
    """-> (tag, points): an equally spaced grid inside [-2, 2.2]"""
    r = rng.randint(0, 3)
    if r == 0:       # dyadic step 2^-k, as many points as fit (capped)
        k = rng.randint(4, 10)
        h = 2.0 ** -k
        nmax = int(4.0 / h) + 1
        n = min(nmax, rng.randint(256, 2100)) if big else min(nmax, rng.randint(16, 255))
        x0 = -2.0 + h * rng.randint(0, max(0, nmax - n))
        tag = "dyadic%d" % k
    elif r == 1:     # linspace(-2, 2, n), n - 1 a power of two: step 4/(n-1) is dyadic
        n = rng.choice([257, 513, 1025, 2049]) if big else rng.choice([17, 33, 65, 129])
        h, x0, tag = 4.0 / (n - 1), -2.0, "linspace"
    elif r == 2:     # decimal-looking exactly representable steps
        h = rng.choice([0.25, 0.125, 0.0625, 0.03125]) if not big else rng.choice([0.0078125, 0.00390625, 0.001953125])
        nmax = int(4.0 / h) + 1
        n = min(nmax, rng.randint(256, 2100)) if big else min(nmax, rng.randint(16, 255))
        x0, tag = -2.0, "step%g" % h
    else:            # non-dyadic step: linspace(-2, 2, n) for general n (differences are not all equal)
        n = rng.randint(256, 2100) if big else rng.randint(16, 255)
        h, x0, tag = 4.0 / (n - 1), -2.0, "general"
    desc = rng.chance(0.35)
    return "%s:%s" % (tag, "desc" if desc else "asc"), grid_points(x0, h, n, desc)


def grid_lines(rng, big, cover, route):
    tag, xs = random_grid(rng, big)
    d = rng.randint(1, 6)
    if rng.chance(0.3):
        c = [float(rng.randint(-9, 9)) for _ in range(d)] + [float(rng.choice([-3, -1, 1, 2, 5]))]
        ck = "int"
    else:
        c = [rng.normal() * 10.0 ** rng.randint(-1, 1) for _ in range(d + 1)]
        ck = "real"
    cover["grid"] = cover.get("grid", 0) + 1
    if route == "predict":
        return "predict grid:%s:n%d:k%d:%s %s %s" % (tag, len(xs), d + 1, ck, vec(c), vec(xs))
    m = d + 1 + rng.randint(0, 20)
    x = layout(rng, "uniform", m)
    y = [horner_f(c, v) + 0.05 * rng.normal() for v in x]
    return "fitpred grid:%s:n%d:d%d %d %s %s %s" % (tag, len(xs), d, d, vec(x), vec(y), vec(xs))


def gen_grid(rng, tier, cover):
    L = []
    nbig, nsmall = (28, 16) if tier == "quick" else (500, 200)
    for j in range(nbig):
        L.append(grid_lines(rng, True, cover, ("predict", "predict", "fitpred")[j % 3]))
    for j in range(nsmall):
        L.append(grid_lines(rng, False, cover, ("predict", "fitpred")[j % 2]))
    # the named grids, every run: linspace(-2, 2, n) for n - 1 a power of two, degrees 4..6, both routes
    for n in (257, 513, 1025, 2049):
        for d in (4, 5, 6) if tier != "quick" else (rng.choice([4, 5]), 6):
            c = [rng.normal() for _ in range(d + 1)]
            xs = grid_points(-2.0, 4.0 / (n - 1), n, rng.chance(0.3))
            L.append("predict grid:linspace:named:n%d:k%d:real %s %s" % (n, d + 1, vec(c), vec(xs)))
            cover["grid"] = cover.get("grid", 0) + 1
    return L


def gen(rng, tier):
    cover = {}
    lines = []
    nsmall, nbig, npred, nbad, nv = (500, 24, 250, 60, 40) if tier == "quick" else (15000, 700, 8000, 1200, 900)
    nzs = 60 if tier == "quick" else 1500
    for _ in range(nsmall):
        lines.append(gen_fit(rng, tier, cover, False))
    for _ in range(nbig):
        lines.append(gen_fit(rng, tier, cover, True))
    for _ in range(nzs):
        lines.append(gen_zerosum(rng, cover))
    for _ in range(nzs):
        lines.append(gen_refit(rng, cover))
    for _ in range(npred):
        lines.append(gen_predict(rng, cover))
    for _ in range(nbad):
        lines.append(gen_bad(rng, cover))
    for _ in range(nv):
        n = rng.randint(0, 9)
        kind = rng.choice(["uniform", "grid", "int"])
        lines.append("vander %s:n%d %d %s" % (kind, n, n, vec(layout(rng, kind, rng.randint(0, 10)))))
    lines += gen_strata(rng, tier, cover)
    lines += gen_long(rng, tier, cover)
    lines += gen_grid(rng, tier, cover)
    rng.shuffle(lines)
    return lines, cover


def nontrivial(line, reply):
    t = line.split()
    if not reply.startswith("="):
        return None
    return t[0] + ":" + t[1]


# ----------------------------------------------------------------------------- oracle
def take_vec(t, i):
    n = int(t[i])
    return [h2f(s) for s in t[i + 1:i + 1 + n]], i + 1 + n


def finite(xs):
    return all(v == v and abs(v) != float("inf") for v in xs)


def inv_exact(G):
    """Exact inverse of a Fraction matrix (list of rows) or None if singular."""
    p = len(G)
    A = [row[:] + [Fraction(int(i == j)) for j in range(p)] for i, row in enumerate(G)]
    for c in range(p):
        piv = next((r for r in range(c, p) if A[r][c] != 0), None)
        if piv is None:
            return None
        A[c], A[piv] = A[piv], A[c]
        pv = A[c][c]
        A[c] = [v / pv for v in A[c]]
        for r in range(p):
            if r != c and A[r][c] != 0:
                f = A[r][c]
                A[r] = [a - f * b for a, b in zip(A[r], A[c])]
    return [row[p:] for row in A]


def norm_inf(M):
    return max(sum(abs(v) for v in row) for row in M)


class FitCheck:
    """Exact normal equations of one data set."""

    def __init__(self, d, x, y):
        p = d + 1
        self.p = p
        X = [Fraction(v) for v in x]
        Y = [Fraction(v) for v in y]
        pw = [[Fraction(1)] * len(X)]
        for _ in range(2 * p - 2):
            pw.append([a * b for a, b in zip(pw[-1], X)])
        self.pw, self.X, self.Y = pw, X, Y
        mom = [sum(r) for r in pw]
        self.G = [[mom[i + j] for j in range(p)] for i in range(p)]
        self.b = [sum(a * b for a, b in zip(pw[j], Y)) for j in range(p)]
        self.absb = [sum(abs(a * b) for a, b in zip(pw[j], Y)) for j in range(p)]
        self.Ginv = inv_exact(self.G) if len(set(x)) >= p else None
        if self.Ginv is not None:
            self.cond = float(norm_inf(self.G) * norm_inf(self.Ginv))
            self.cstar = [sum(self.Ginv[i][j] * self.b[j] for j in range(p)) for i in range(p)]

    def check(self, coef, rng_perturb):
        """-> (list of (what, message), worst ratio) for the reported coefficients."""
        p = self.p
        c = [Fraction(v) for v in coef]
        g = [self.b[j] - sum(self.G[j][k] * c[k] for k in range(p)) for j in range(p)]
        absx = [[abs(v) for v in r] for r in self.pw]
        pabs = [sum(abs(c[k]) * absx[k][i] for k in range(p)) for i in range(len(self.X))]
        S = [self.absb[j] + sum(a * b for a, b in zip(absx[j], pabs)) for j in range(p)]
        ce = C_TOL * EPS * self.cond
        tol = [Fraction(ce) * s for s in S]
        out = []
        worst = 0.0
        for j in range(p):
            if S[j] != 0:
                worst = max(worst, float(abs(g[j]) / (Fraction(EPS * self.cond) * S[j])))
            if abs(g[j]) > tol[j]:
                out.append(("orth", "residual is not orthogonal to x^%d: sum_i x_i^%d (y_i - p(x_i)) = %.6g, allowance %.3g (cond %.3g)"
                            % (j, j, float(g[j]), float(tol[j]), self.cond)))
                break
        # minimality
        ninv = norm_inf(self.Ginv)
        allow = ninv * max(tol) * sum(tol)
        Gig = [sum(self.Ginv[i][j] * g[j] for j in range(p)) for i in range(p)]
        excess = sum(a * b for a, b in zip(g, Gig))          # rss(c) - min rss  (>= 0 exactly)
        if excess > allow:
            out.append(("min", "coefficients are not the minimiser: rss exceeds the least-squares minimum by %.6g, allowance %.3g"
                        % (float(excess), float(allow))))
        else:
            for s in rng_perturb:
                dlt = [Fraction(v) for v in s]
                # rss(c + d) - rss(c) = d^T G d - 2 d^T g
                diff = sum(dlt[i] * self.G[i][j] * dlt[j] for i in range(p) for j in range(p)) - 2 * sum(a * b for a, b in zip(dlt, g))
                if diff < -allow:
                    out.append(("min", "perturbing the coefficients by %r lowers the residual sum of squares by %.6g (allowance %.3g)"
                                % (s, float(-diff), float(allow))))
                    break
        # forward error / reproduction
        cs = self.cstar
        scale = Fraction(self.cond) * max(abs(v) for v in cs) + ninv * max(self.absb)
        err = max(abs(a - b) for a, b in zip(c, cs))
        if scale != 0:
            worst = max(worst, float(err / (Fraction(EPS) * scale)))
        if err > Fraction(C_TOL * EPS) * scale:
            out.append(("repro", "coefficients differ from the exact least-squares polynomial %r by %.6g, allowance %.3g"
                        % ([float(v) for v in cs], float(err), float(Fraction(C_TOL * EPS) * scale))))
        return out, worst


def check_predict(coef, xs, pred):
    """Horner bound; -> message or None."""
    if len(pred) != len(xs):
        return "predict returned %d values for %d points" % (len(pred), len(xs))
    if not finite(coef):
        return None
    k = len(coef)
    for idx, (v, r) in enumerate(zip(xs, pred)):
        if not finite([v]):
            continue
        ex = sum(Fraction(c) * Fraction(v) ** i for i, c in enumerate(coef))
        ab = sum(abs(Fraction(c)) * abs(Fraction(v)) ** i for i, c in enumerate(coef))
        if ab > Fraction(10) ** 300:
            continue
        if not finite([r]):
            return "predict(%r) = %r, expected %.17g" % (v, r, float(ex))
        small = all(float(c).is_integer() for c in coef) and float(v).is_integer() and ab < 2 ** 53
        if small:
            if Fraction(r) != ex:
                return "predict(%r) = %r, expected exactly %r = sum c_k x^k" % (v, r, float(ex))
        elif abs(Fraction(r) - ex) > Fraction((2 * k + 2) * EPS) * ab + Fraction(5e-324) * (2 * k + 2):
            return "predict(x)[%d] of %d = %.17g, expected p(x[%d] = %r) = %.17g = sum c_k x^k (Horner allowance %.3g)" % (idx, len(xs), r, idx, v, float(ex), float(Fraction((2 * k + 2) * EPS) * ab))
    return None


LAST_WORST = {"ratio": 0.0}


def oracle(lines, impl):
    from .common import Rng
    fails = []
    worst = 0.0
    SCALES = {}
    for i, (l, rep) in enumerate(zip(lines, impl)):
        t = l.split()
        op, tag = t[0], t[1]
        st, toks = parse_reply(rep)
        if st == "skip":
            continue
        key = "%s:%s" % (op, tag)
        if st == "bad":
            fails.append(Failure(i, key, "executor reply %r" % rep))
            continue
        if op in ("fit", "fitpred"):
            d = int(t[2])
            x, j = take_vec(t, 3)
            y, j = take_vec(t, j)
            xs = take_vec(t, j)[0] if op == "fitpred" else []
            if len(x) != len(y) or len(x) == 0:
                if st != "panic":
                    fails.append(Failure(i, key, "fit on %d abscissae and %d responses returned a value instead of panicking" % (len(x), len(y))))
                continue
            if not (finite(x) and finite(y)) or len(set(x)) < d + 1 or max(abs(v) for v in y) > 1e100 or 0 < max(abs(v) for v in y) < 1e-250:
                continue   # outside the property's guard: correspondence only
            fc = FitCheck(d, x, y)
            if fc.Ginv is None or C_TOL * EPS * fc.cond >= SKIP_AT:
                continue   # conditioning beyond double precision: correspondence only
            if st != "ok":
                fails.append(Failure(i, key, "fit of a degree-%d polynomial to %d points (%d distinct abscissae, cond %.3g): %s instead of coefficients"
                                     % (d, len(x), len(set(x)), fc.cond, st)))
                continue
            fl = [h2f(s) for s in toks]
            coef = fl[1:1 + int(toks[0])]
            if len(coef) != d + 1 or not finite(coef):
                fails.append(Failure(i, key, "fit returned coefficients %r for degree %d" % (coef, d)))
                continue
            r = Rng(i * 7919 + len(x))
            cm = max(abs(v) for v in coef) or 1.0
            perts = []
            for _ in range(6):
                sc = cm * 10.0 ** (-r.randint(0, 14))
                perts.append([sc * r.normal() if r.chance(0.7) else 0.0 for _ in range(d + 1)])
            if tag.startswith("scale"):
                SCALES.setdefault(tag.split(":")[1], {})[tag[5]] = (i, tag, coef)
            errs, w = fc.check(coef, perts)
            worst = max(worst, w)
            for what, msg in errs:
                fails.append(Failure(i, "fit:%s:%s" % (what, tag), msg, [float(v) for v in fc.cstar]))
            if op == "fitpred" and not errs:
                k = 1 + int(toks[0])
                pred = fl[k + 1:k + 1 + int(toks[k])]
                m = check_predict(coef, xs, pred)
                if m:
                    fails.append(Failure(i, "predict:" + tag, m))
        elif op == "refit":
            d, k = int(t[2]), int(t[3])
            sets, j = [], 4
            for _ in range(k):
                x, j = take_vec(t, j)
                y, j = take_vec(t, j)
                sets.append((x, y))
            if any(len(x) != len(y) or len(x) == 0 or not (finite(x) and finite(y)) or len(set(x)) < d + 1 for x, y in sets):
                continue
            fcs = [FitCheck(d, x, y) for x, y in sets]
            if any(fc.Ginv is None or C_TOL * EPS * fc.cond >= SKIP_AT for fc in fcs):
                continue
            if st != "ok":
                fails.append(Failure(i, key, "regressor of degree %d fitted on %d data sets in turn: %s" % (d, k, st)))
                continue
            q, blocks = 0, []
            try:
                for _ in range(k):
                    n = int(toks[q])
                    blocks.append([h2f(x) for x in toks[q + 1:q + 1 + n]])
                    q += 1 + n
            except (ValueError, IndexError):
                q = -1
            if q != len(toks):
                fails.append(Failure(i, key, "malformed reply %r" % rep[:120]))
                continue
            bad = [(a, len(b)) for a, b in enumerate(blocks) if len(b) != d + 1]
            if bad:
                fails.append(Failure(i, "refit:coeff-count", "degree-%d regressor fitted %d times: fit #%d returned %d coefficients instead of %d "
                                     "(the object lost or gained a degree between fits)" % (d, k, bad[0][0] + 1, bad[0][1], d + 1)))
                continue
            coef = blocks[-1]
            if not finite(coef):
                fails.append(Failure(i, key, "refit returned coefficients %r" % coef))
                continue
            errs, w = fcs[-1].check(coef, [])
            worst = max(worst, w)
            for what, msg in errs:
                fails.append(Failure(i, "refit:%s:%s" % (what, tag), "after %d fits of the same regressor: %s" % (k, msg), [float(v) for v in fcs[-1].cstar]))
        elif op == "predict":
            coef, j = take_vec(t, 2)
            xs, j = take_vec(t, j)
            if st != "ok":
                fails.append(Failure(i, key, "predict: %s" % st))
                continue
            pred = [h2f(s) for s in toks[1:]]
            m = check_predict(coef, xs, pred)
            if m:
                fails.append(Failure(i, key, m))
        elif op == "vander":
            n = int(t[2])
            x = take_vec(t, 3)[0]
            if st != "ok":
                fails.append(Failure(i, key, "vandermonde: %s" % st))
                continue
            v = [h2f(s) for s in toks[1:]]
            if len(v) != n * len(x):
                fails.append(Failure(i, key, "vandermonde(%d points, %d) has %d entries" % (len(x), n, len(v))))
                continue
            for a, xv in enumerate(x):
                for b in range(n):
                    ex = Fraction(xv) ** b
                    got = Fraction(v[a * n + b])
                    if b <= 1 and got != ex or abs(got - ex) > Fraction((b // 2 + 1) * EPS) * abs(ex):
                        fails.append(Failure(i, key, "V[%d,%d] = %r, expected x^%d = %.17g" % (a, b, v[a * n + b], b, float(ex))))
                        break
                else:
                    continue
                break
    for sid, ab in SCALES.items():
        if "A" not in ab or "B" not in ab:
            continue
        (ia, taga, ca), (ib, tagb, cb) = ab["A"], ab["B"]
        k = int(tagb.split(":")[2])
        for a, b in zip(ca, cb):
            want = a * 2.0 ** k
            if abs(want) == float("inf") or (want != 0 and abs(want) < 1e-290):
                continue
            if f2h(want) != f2h(b) and not (want == 0 and b == 0):
                fails.append(Failure(ib, "fit:scale", "responses * 2^%d: coefficient %r became %r, expected %r (exact power-of-two scaling)" % (k, a, b, want), want))
                break
    LAST_WORST["ratio"] = max(LAST_WORST["ratio"], worst)
    import os
    if os.environ.get("CV_CALIBRATE"):
        print("[c14 calibrate] worst observed ratio (error / (eps*cond*scale)) = %.4g  (C_TOL = %g)" % (worst, C_TOL))
    return fails

# --- deep theorems (2: inverse hypothesis discharged)
PROOF_MODULES = PROOF_MODULES + ['Compute.Props.C01SolveApps']
REQUIRED_THEOREMS = REQUIRED_THEOREMS + ['Cv.C01Solve.poly_fit_normal_equations_unconditional', 'Cv.C01Solve.poly_fit_minimal_unconditional', 'Cv.C01Solve.poly_fit_total']
_np = list(NOT_PROVED)
_np = [('exactness of invert_matrix is no longer a hypothesis: Props/C01SolveApps proves the normal equations / minimality / totality of `fit` unconditionally for a non-singular normal matrix (exact arithmetic, via the proved LU/Cholesky solver correctness)' if 'invert_matrix' in str(x) else x) for x in _np]
NOT_PROVED = [x for x in _np if x is not None]

# --- source tie, loops (tools/rs2lean.py loops=True: accumulation loops and iterator chains regenerated from /repo/src into
# Generated/SrcC14Loops.lean and proved equal to the hand model in Props/SrcTieC14Loops.lean)
from . import srctie
srctie.wire_loops(globals(), 'C14')
PROOF_MODULES = PROOF_MODULES + ['Compute.Lemmas.SrcLoops']

# --- deep theorems (Rounding5: float-level bounds in the standard model, wired by the lead)
PROOF_MODULES = PROOF_MODULES + [m for m in ['Compute.Lemmas.Rounding5', 'Compute.Props.Rounding5'] if m not in PROOF_MODULES]
REQUIRED_THEOREMS = REQUIRED_THEOREMS + ['Cv.Rounding5.horner_error', 'Cv.Rounding5.horner_error_classical', 'Cv.Rounding5.horner_error_sum', 'Cv.Rounding5.predict_error']
NOT_PROVED = [('floating-point rounding of the normal-equation solve (theorems are over a field; the float gap is covered by the bit-exact tie plus the cond(V^T V)-scaled oracle); rounding of predict IS proved in the standard model (Props/Rounding5): |Horner(c,v) - p(v)| <= gamma_(2n) sum|a_i||v|^i (gamma_(2n+1) without representable coefficients) for every entry of predict' if str(x).startswith('floating-point rounding of the normal-equation solve') else x) for x in NOT_PROVED]

# --- deep theorems (Rounding6: end-to-end residual / backward-error bounds in the standard model, wired by the lead)
PROOF_MODULES = PROOF_MODULES + [m for m in ['Compute.Lemmas.Rounding6', 'Compute.Props.Rounding6'] if m not in PROOF_MODULES]
REQUIRED_THEOREMS = REQUIRED_THEOREMS + ['Cv.Rounding6.fit_residual', 'Cv.Rounding6.vandermonde_entry_fac', 'Cv.Rounding6.powi_fac', 'Cv.Rounding6.invertMatrix_residual', 'Cv.Rounding6.normal_residual_core']
NOT_PROVED = list(NOT_PROVED) + ['floating-point rounding of the normal-equation route IS bounded end to end in the standard model (Props/Rounding6 fit_residual): the route forms an explicit inverse and multiplies, so the statement is a residual bound |V^T V c - V^T y| <= gamma_(3p+1) W Z + gamma_(p+1) |G| Z + gamma_(N+1)(|V|^T|V||c| + |V|^T|y|), Z = |X||b|, W = |L||L^T| or P^T|L||U| (computed factors), V the computed Vandermonde matrix (entries x^j(1+th), <= j roundings); a bound in terms of cond(V^T V) alone needs the unproved growth of the LU route and a bound on |X| - oracle only; on the LU route non-zero pivots are assumed']

# --- source tie (translator pass 5: PolynomialRegressor::fit as a whole function, Generated/SrcC14Mut.lean, Props/SrcTieC14Mut.lean)
from . import srctie
srctie.wire_mut(globals(), 'C14')

# --- review fixes (C14 owner): wording of the claims wired above
def _reword(x):
    x = str(x)
    x = x.replace("unconditionally for a non-singular normal matrix (exact arithmetic, via the proved LU/Cholesky solver correctness)",
                  "without the inverse hypothesis, over an ordered field whose sqrt and abs are exact (e.g. the reals; not Q), for a "
                  "non-singular normal matrix (poly_fit_total), and Props/C14Review derives non-singularity from the property's own "
                  "hypothesis of at least degree+1 distinct abscissae (distinct_imp_xtx_det_ne_zero, poly_fit_total_distinct, "
                  "fit_reproduces_distinct; instantiated over R)")
    return x
NOT_PROVED = [_reword(x) for x in NOT_PROVED]
