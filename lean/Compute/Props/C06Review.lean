import Compute.Props.C06
import Compute.Lemmas.C06Perm
import Compute.Props.C01SolveApps
/-
C06 — theorems added after the independent review (review-b.md, findings B1, B2, B3, C1, C2).

* `fit_last_pass` (B1): what `fit` returns and stores, tied to ONE pass of the loop: there are coefficients `β₀` (the
  iterate the last pass started from), `eta = Xβ₀ + offset`, a gradient, an information matrix and a step `s` with
  `solve H g = some s`, such that the RETURNED coefficients are `β₀ − s`, while the STORED deviance is the family deviance at
  `inv_link(eta)` and the STORED information matrix is the unpenalised information at `eta` — i.e. both are evaluated at
  `β₀`, one scoring step before the returned coefficients (glm.rs: `coef = vsub(...)` precedes `deviance(y, &mu)` and
  `compute_ddbeta(x, &dmu, &var, ..)`, which still use the `mu`, `dmu`, `var` of the pass).
* `gaussian_pass_solves` / `gaussian_fit_normal_equations` (B2): for the Gaussian family without penalty (`¬ 0 < α`) and an
  exact solver, the coefficients after ANY pass — hence the coefficients `fit` returns, whatever its status — satisfy the
  weighted normal equations `XᵀWX β = XᵀW (y − offset)`.
* `covariance_isInverse` (B3): with the shared `Cv.invertMatrix` on a regular information matrix,
  `information · covariance = dispersion · I`.
* `fit_zero_deviance_never_converges` example (C2), non-vacuity examples (C1).
-/
set_option linter.unusedSectionVars false
namespace Cv.C06
open Cv Cv.Vops Cv.Glm Cv.C06L

section general
variable {α : Type} [Field α] [LT α] [DecidableLT α] [BEq α] [Transc α] [GlmScalar α] [Inhabited α]

/-- the state a loop returns is the output of one pass from some state with coefficients of the same length -/
theorem fitLoop_last (solve : List α → List α → Option (List α)) (P : Problem α) :
    ∀ (k : Nat) (st st' : LoopState α), fitLoop solve P k st = some st' →
      ∃ stp, loopBody solve P stp = some st' ∧ stp.coef.length = st.coef.length := by
  intro k
  induction k with
  | zero => intro st st' h; exact ⟨st, h, rfl⟩
  | succ k ih =>
    intro st st' h
    unfold fitLoop at h
    cases hb : loopBody solve P st with
    | none => rw [hb] at h; cases h
    | some st1 =>
      rw [hb] at h
      simp only at h
      by_cases hc : st1.converged = true
      · rw [if_pos hc] at h
        obtain rfl := Option.some.inj h
        exact ⟨st, hb, rfl⟩
      · rw [if_neg hc] at h
        obtain ⟨stp, h1, h2⟩ := ih st1 st' h
        exact ⟨stp, h1, by rw [h2, loopBody_coef_length hb]⟩

/-- **fit_last_pass** (review B1).  The returned coefficients are `β₀ − s` for the last pass's start `β₀` and step `s`; the
stored deviance and information matrix are those of `β₀` (one step stale), not of the returned coefficients. -/
theorem fit_last_pass (solve : List α → List α → Option (List α)) (family : Family) (x y : List α)
    (weights offsets : Option (List α)) (alpha tol : α) (maxIter : Nat) (r : Fit α)
    (h : fit solve family x y weights offsets alpha tol maxIter = some r) :
    ∃ w β₀ eta dbeta ddbeta s,
      resolveWeights weights y.length = some w ∧ β₀.length = r.p ∧
      linearPredictor x β₀ y.length r.p offsets = some eta ∧
      computeDbeta x y (invLink family eta) (dInvLink family eta (invLink family eta))
        (variance family (invLink family eta)) w = some dbeta ∧
      computeDdbeta x (dInvLink family eta (invLink family eta)) (variance family (invLink family eta)) w = some ddbeta ∧
      solve (penalised alpha r.p β₀ dbeta ddbeta).2 (penalised alpha r.p β₀ dbeta ddbeta).1 = some s ∧
      Vops.vbin (· - ·) β₀ s = some r.coef ∧
      deviance family y (invLink family eta) = some r.deviance ∧
      r.information = ddbeta := by
  obtain ⟨P, st0, st, h1, h2, h3⟩ := fit_some h
  obtain ⟨_, _, ha, hf, hoff, hx, hy, hn, hp, hd, hwl, hw1, hw2, _, _, hc0⟩ := fitInit_some h1
  obtain ⟨_, hcoef, hdev, hinfo, _, hpp, _, _, _, _, _, _⟩ := fitFinish_some h3
  obtain ⟨stp, hb, hlen⟩ := fitLoop_last solve P (maxIter - 1) st0 st h2
  obtain ⟨eta, dbeta, ddbeta, s, coef, pd, e1, e2, e3, e4, e5, _, e7⟩ := loopBody_some hb
  have hw : resolveWeights weights y.length = some P.weights := by
    cases weights with
    | none => rw [hw2 rfl]; rfl
    | some w =>
      have := hw1 w rfl
      rw [this] at hwl ⊢
      simp [resolveWeights, hwl]
  have hpos : 0 < P.p := by
    unfold isDesign at hd
    rw [hp] at hd
    simp only [Option.bind_eq_bind, Option.bind_some] at hd
    by_cases h0 : P.p = 0
    · simp [h0] at hd
    · omega
  have hl0 : st0.coef.length = P.p := by rw [hc0]; simp; omega
  subst e7
  simp only at hcoef hdev hinfo
  refine ⟨P.weights, stp.coef, eta, dbeta, ddbeta, s, hw, by rw [hlen, hl0, hpp], ?_, ?_, ?_, ?_, ?_, ?_, ?_⟩
  · rw [← hx, ← hn, hpp, ← hoff]; exact e1
  · rw [← hx, ← hy, ← hf]; exact e2
  · rw [← hx, ← hf]; exact e3
  · rw [← ha, hpp]; exact e4
  · rw [hcoef]; exact e5
  · rw [← hf, ← hy]; exact hdev
  · rw [← hf, ← hx] at *
    rw [e3] at hinfo
    exact (Option.some.inj hinfo).symm

theorem gaussian_wwt (eta w : List α) (n i : Nat) (he : eta.length = n) (hi : i < n) :
    wwt (dInvLink .gaussian eta (invLink .gaussian eta)) (variance .gaussian (invLink .gaussian eta)) w i = w[i]! := by
  have e1 : invLink Family.gaussian eta = eta := rfl
  rw [e1]
  unfold wwt
  have e2 : (dInvLink Family.gaussian eta eta)[i]! = 1 := by
    show (List.replicate eta.length (1 : α))[i]! = 1
    exact getBang_replicate _ _ _ (by omega)
  have e3 : (variance Family.gaussian eta)[i]! = 1 := by
    show (List.replicate eta.length (1 : α))[i]! = 1
    exact getBang_replicate _ _ _ (by omega)
  rw [e2, e3]; ring

/-- a successful `linearPredictor` has checked the offset length -/
theorem linearPredictor_offsets {x c : List α} {n p : Nat} {off : Option (List α)} {eta : List α}
    (h : linearPredictor x c n p off = some eta) : ∀ o, off = some o → o.length = n := by
  intro o ho
  subst ho
  unfold linearPredictor at h
  cases hm : matmul x c n p false false with
  | none => rw [hm] at h; cases h
  | some e =>
    rw [hm] at h
    simp only [Option.bind_eq_bind, Option.bind_some] at h
    by_cases hl : o.length = n
    · exact hl
    · simp [hl] at h

/-- **gaussian_pass_solves** (review B2).  Gaussian family, no penalty (`¬ 0 < α`), exact solver: the coefficients AFTER one
pass from ANY state satisfy the weighted normal equations `Σ_k (Σ_i x_ij w_i x_ik) β'_k = Σ_i x_ij w_i (y_i − offset_i)` — one
scoring step is the exact weighted least-squares solve, whatever the start. -/
theorem gaussian_pass_solves (solve : List α → List α → Option (List α)) (P : Problem α) (st st' : LoopState α)
    (hf : P.family = .gaussian) (ha : ¬ 0 < P.alpha)
    (hn : 0 < P.n) (hp : 0 < P.p) (hx : P.x.length = P.n * P.p) (hy : P.y.length = P.n)
    (hw : P.weights.length = P.n) (hc : st.coef.length = P.p)
    (hsolve : SolvesExactly solve P.p) (h : loopBody solve P st = some st') :
    st'.coef.length = P.p ∧
    ∀ j, j < P.p →
      ∑ k ∈ Finset.range P.p,
          (∑ i ∈ Finset.range P.n, P.x[i * P.p + j]! * P.weights[i]! * P.x[i * P.p + k]!) * st'.coef[k]! =
        ∑ i ∈ Finset.range P.n, P.x[i * P.p + j]! * P.weights[i]! * (P.y[i]! - offAt P.offsets i) := by
  obtain ⟨eta, dbeta, ddbeta, s, coef, pd, h1, h2, h3, h4, h5, _, h7⟩ := loopBody_some h
  have ho := linearPredictor_offsets h1
  obtain ⟨eta', he1, hel, hee⟩ := linearPredictor_spec P.x st.coef P.n P.p P.offsets hn hp hx hc ho
  rw [h1] at he1
  obtain rfl := Option.some.inj he1
  rw [hf] at h2 h3
  have hmu : (invLink Family.gaussian eta).length = P.n := hel
  have hdm : (dInvLink Family.gaussian eta (invLink Family.gaussian eta)).length = P.n := by
    show (List.replicate eta.length (1 : α)).length = P.n
    simp [hel]
  have hvr : (variance Family.gaussian (invLink Family.gaussian eta)).length = P.n := by
    show (List.replicate eta.length (1 : α)).length = P.n
    simp [hel]
  obtain ⟨g, hg, hgl, hge⟩ := computeDbeta_spec P.x P.y _ _ _ P.weights P.n P.p hn hx hy hmu hdm hvr hw
  rw [h2] at hg
  obtain rfl := Option.some.inj hg
  obtain ⟨H, hH, hHl, hHe⟩ := computeDdbeta_spec P.x _ _ P.weights P.n P.p hn hx hdm hvr hw
  rw [h3] at hH
  obtain rfl := Option.some.inj hH
  have hpen : penalised P.alpha P.p st.coef dbeta ddbeta = (dbeta, ddbeta) := by simp [penalised, ha]
  rw [hpen] at h4
  obtain ⟨hsl, hmul, _⟩ := hsolve _ _ s hgl h4
  obtain ⟨_, hcoef⟩ := vbin_some h5
  have hst : st'.coef = List.zipWith (· - ·) st.coef s := by rw [h7]; exact hcoef
  refine ⟨by rw [hst]; simp [hc, hsl], ?_⟩
  intro j hj
  -- row j of  H s = g
  have hrow : ∑ b ∈ Finset.range P.p, ddbeta[j * P.p + b]! * s[b]! = dbeta[j]! := by
    have : (mulVecL ddbeta s P.p)[j]! = dbeta[j]! := by rw [hmul]
    unfold mulVecL at this
    rwa [getBang_rangeMap _ _ _ hj] at this
  have hH' : ∀ k, k < P.p → ddbeta[j * P.p + k]! =
      ∑ i ∈ Finset.range P.n, P.x[i * P.p + j]! * P.weights[i]! * P.x[i * P.p + k]! := by
    intro k hk
    rw [hHe j k hj hk]
    apply Finset.sum_congr rfl
    intro i hi
    rw [gaussian_wwt eta P.weights P.n i hel (Finset.mem_range.mp hi)]; ring
  have hg' : dbeta[j]! = -(∑ i ∈ Finset.range P.n, P.x[i * P.p + j]! * P.weights[i]! * (P.y[i]! - offAt P.offsets i)) +
      ∑ k ∈ Finset.range P.p, ddbeta[j * P.p + k]! * st.coef[k]! := by
    rw [hge j hj]
    have : ∀ i ∈ Finset.range P.n, P.x[i * P.p + j]! *
        wres P.y (invLink .gaussian eta) (dInvLink .gaussian eta (invLink .gaussian eta))
          (variance .gaussian (invLink .gaussian eta)) P.weights i =
        P.x[i * P.p + j]! * P.weights[i]! * (P.y[i]! - offAt P.offsets i) -
        ∑ k ∈ Finset.range P.p, P.x[i * P.p + j]! * P.weights[i]! * P.x[i * P.p + k]! * st.coef[k]! := by
      intro i hi
      have hi' := Finset.mem_range.mp hi
      rw [gaussian_wres P.y eta P.weights P.n i hel hi', hee i hi']
      have : ∑ k ∈ Finset.range P.p, P.x[i * P.p + j]! * P.weights[i]! * P.x[i * P.p + k]! * st.coef[k]! =
          P.x[i * P.p + j]! * P.weights[i]! * ∑ k ∈ Finset.range P.p, P.x[i * P.p + k]! * st.coef[k]! := by
        rw [Finset.mul_sum]; apply Finset.sum_congr rfl; intro k _; ring
      rw [this]; ring
    rw [Finset.sum_congr rfl this, Finset.sum_sub_distrib, Finset.sum_comm]
    have : ∑ k ∈ Finset.range P.p, ∑ i ∈ Finset.range P.n,
        P.x[i * P.p + j]! * P.weights[i]! * P.x[i * P.p + k]! * st.coef[k]! =
        ∑ k ∈ Finset.range P.p, ddbeta[j * P.p + k]! * st.coef[k]! := by
      apply Finset.sum_congr rfl
      intro k hk
      rw [hH' k (Finset.mem_range.mp hk), Finset.sum_mul]
    rw [this]; ring
  have hcoefk : ∀ k ∈ Finset.range P.p,
      (∑ i ∈ Finset.range P.n, P.x[i * P.p + j]! * P.weights[i]! * P.x[i * P.p + k]!) * st'.coef[k]! =
      ddbeta[j * P.p + k]! * st.coef[k]! - ddbeta[j * P.p + k]! * s[k]! := by
    intro k hk
    have hk' := Finset.mem_range.mp hk
    rw [← hH' k hk', hst, getBang_zipWith _ _ _ k (by omega) (by omega)]; ring
  rw [Finset.sum_congr rfl hcoefk, Finset.sum_sub_distrib, hrow, hg']
  ring

/-- **gaussian_fit_normal_equations** (review B2).  Unpenalised Gaussian `fit` with an exact solver: whatever the status
(`Ok`, or `Err` after a budget of even one pass), the returned coefficients solve the weighted least-squares normal equations
`XᵀWX β = XᵀW (y − offset)`.  (Ridge-Gaussian fits and the five other families have no such theorem: their returned
coefficients are decided per run by the mpmath oracle.) -/
theorem gaussian_fit_normal_equations (solve : List α → List α → Option (List α)) (x y : List α)
    (weights offsets : Option (List α)) (alpha tol : α) (maxIter : Nat) (r : Fit α) (ha : ¬ 0 < alpha)
    (hsolve : SolvesExactly solve r.p)
    (h : fit solve .gaussian x y weights offsets alpha tol maxIter = some r) :
    ∃ w, resolveWeights weights y.length = some w ∧ r.coef.length = r.p ∧
      ∀ j, j < r.p →
        ∑ k ∈ Finset.range r.p,
            (∑ i ∈ Finset.range y.length, x[i * r.p + j]! * w[i]! * x[i * r.p + k]!) * r.coef[k]! =
          ∑ i ∈ Finset.range y.length, x[i * r.p + j]! * w[i]! * (y[i]! - offAt offsets i) := by
  obtain ⟨P, st0, st, h1, h2, h3⟩ := fit_some h
  obtain ⟨_, _, hal, hf, hoff, hx, hy, hn, hp, hd, hwl, hw1, hw2, _, _, hc0⟩ := fitInit_some h1
  obtain ⟨_, hcoef, _, _, _, hpp, _, _, _, _, _, _⟩ := fitFinish_some h3
  obtain ⟨stp, hb, hlen⟩ := fitLoop_last solve P (maxIter - 1) st0 st h2
  have hw : resolveWeights weights y.length = some P.weights := by
    cases weights with
    | none => rw [hw2 rfl]; rfl
    | some w =>
      have := hw1 w rfl
      rw [this] at hwl ⊢
      simp [resolveWeights, hwl]
  have hpos : 0 < P.p := by
    unfold isDesign at hd
    rw [hp] at hd
    simp only [Option.bind_eq_bind, Option.bind_some] at hd
    by_cases h0 : P.p = 0
    · simp [h0] at hd
    · omega
  obtain ⟨hn0, hxl⟩ := Cv.C05L.isMatrix_some hp
  have hl0 : st0.coef.length = P.p := by rw [hc0]; simp; omega
  have := gaussian_pass_solves solve P stp st hf (by rw [hal]; exact ha) (by rw [hn]; exact hn0) hpos
    (by rw [hx, hn]; exact hxl) (by rw [hy, hn]) (by rw [hwl, hn]) (by rw [hlen, hl0]) (by rw [← hpp]; exact hsolve) hb
  obtain ⟨hl, hne⟩ := this
  refine ⟨P.weights, hw, by rw [hcoef, hl, hpp], ?_⟩
  intro j hj
  have := hne j (by rw [← hpp]; exact hj)
  rw [hx, hy, hn, hoff, ← hcoef, ← hpp] at this
  exact this

end general

/-! ### B3: the covariance really is `dispersion × (information)⁻¹` -/

section covariance
variable {F : Type} [Field F] [LinearOrder F] [IsStrictOrderedRing F] [Transc F] [BEq F] [LawfulBEq F] [Inhabited F]
  [GlmScalar F]

/-- **covariance_isInverse** (review B3).  With the shared `Cv.invertMatrix` (tied to `invert_matrix` by C01) on a regular
`p × p` information matrix (`SqrtOk ∧ LuPivotsNonzero`, the hypotheses under which C01 proves the inverse exact):
`information · coef_covariance_matrix = dispersion · I`. -/
theorem covariance_isInverse (hpos : ∀ x : F, 0 < x → 0 < Transc.sqrt x) (r : Fit F) (cov : List F) (p : Nat)
    (hl : r.information.length = p * p) (hreg : Cv.C01Solve.Regular p r.information)
    (hc : coefCovariance Cv.invertMatrix r = some cov) :
    ∃ d, dispersion r = some d ∧ cov.length = p * p ∧
      ∀ i j, i < p → j < p →
        ∑ k ∈ Finset.range p, r.information[i * p + k]! * cov[k * p + j]! = if i = j then d else 0 := by
  cases hd : dispersion r with
  | none => rw [(covariance_spec Cv.invertMatrix r).2 (Or.inl hd)] at hc; cases hc
  | some d =>
    cases hi : Cv.invertMatrix r.information with
    | none => rw [(covariance_spec Cv.invertMatrix r).2 (Or.inr hi)] at hc; cases hc
    | some inv =>
      rw [(covariance_spec Cv.invertMatrix r).1 d inv hd hi] at hc
      obtain rfl := Option.some.inj hc
      obtain ⟨hil, hinv⟩ := Cv.C01Solve.invertMatrix_isInverse hpos r.information inv p hl hi hreg.1 hreg.2
      refine ⟨d, rfl, by simp [hil], ?_⟩
      intro i j hi' hj
      have hterm : ∀ k ∈ Finset.range p, r.information[i * p + k]! * (inv.map (d * ·))[k * p + j]! =
          d * (r.information[i * p + k]! * inv[k * p + j]!) := by
        intro k hk
        have hk' := Finset.mem_range.mp hk
        rw [getBang_map _ _ _ (by rw [hil]; exact Cv.Mat.idx_lt hk' hj)]; ring
      rw [Finset.sum_congr rfl hterm, ← Finset.mul_sum, hinv i j hi' hj]
      split <;> simp

/-- **gaussian_fit_normal_equations_solve** (second review, B).  The returned-coefficient theorem for the model of the code's
OWN solver `Cv.solve` (not an abstract exact solver): unpenalised Gaussian `fit Cv.solve`, whatever the status; the only
hypothesis beyond `¬ 0 < α` is that the RETURNED information matrix is regular (`SqrtOk ∧ LuPivotsNonzero`, under which C01
proves `Cv.solve` exact) — for the Gaussian family the information of the last pass is the stored one. -/
theorem gaussian_fit_normal_equations_solve (hpos : ∀ x : F, 0 < x → 0 < Transc.sqrt x) (x y : List F)
    (weights offsets : Option (List F)) (alpha tol : F) (maxIter : Nat) (r : Fit F) (ha : ¬ 0 < alpha)
    (hreg : Cv.C01Solve.Regular r.p r.information)
    (h : fit Cv.solve .gaussian x y weights offsets alpha tol maxIter = some r) :
    ∃ w, resolveWeights weights y.length = some w ∧ r.coef.length = r.p ∧
      ∀ j, j < r.p →
        ∑ k ∈ Finset.range r.p,
            (∑ i ∈ Finset.range y.length, x[i * r.p + j]! * w[i]! * x[i * r.p + k]!) * r.coef[k]! =
          ∑ i ∈ Finset.range y.length, x[i * r.p + j]! * w[i]! * (y[i]! - offAt offsets i) := by
  obtain ⟨P, st0, st, h1, h2, h3⟩ := fit_some h
  obtain ⟨_, _, hal, hf, hoff, hx, hy, hn, hp, hd, hwl, hw1, hw2, _, _, hc0⟩ := fitInit_some h1
  obtain ⟨_, hcoef, _, hinfo, _, hpp, _, _, _, _, _, _⟩ := fitFinish_some h3
  obtain ⟨stp, hb, hlen⟩ := fitLoop_last Cv.solve P (maxIter - 1) st0 st h2
  have hw : resolveWeights weights y.length = some P.weights := by
    cases weights with
    | none => rw [hw2 rfl]; rfl
    | some w =>
      have := hw1 w rfl
      rw [this] at hwl ⊢
      simp [resolveWeights, hwl]
  have hpos' : 0 < P.p := by
    unfold isDesign at hd
    rw [hp] at hd
    simp only [Option.bind_eq_bind, Option.bind_some] at hd
    by_cases h0 : P.p = 0
    · simp [h0] at hd
    · omega
  obtain ⟨hn0, hxl⟩ := Cv.C05L.isMatrix_some hp
  have hl0 : st0.coef.length = P.p := by rw [hc0]; simp; omega
  -- the pass with Cv.solve is a pass with the guarded solver
  obtain ⟨eta, dbeta, ddbeta, s, coef, pd, e1, e2, e3, e4, e5, e6, e7⟩ := loopBody_some hb
  have hI : r.information = ddbeta := by
    subst e7
    simp only at hinfo
    rw [e3] at hinfo
    exact (Option.some.inj hinfo).symm
  have hb' : loopBody (Cv.C01Solve.solveRegular P.p) P stp = some st := by
    apply Cv.C01Solve.loopBody_solveRegular P stp st hb
    intro eta' dbeta' ddbeta' g1 g2 g3
    rw [e1] at g1; obtain rfl := Option.some.inj g1
    rw [e3] at g3; obtain rfl := Option.some.inj g3
    have : (penalised P.alpha P.p stp.coef dbeta' ddbeta).2 = ddbeta := by
      simp [penalised, hal, ha]
    rw [this, ← hI, ← hpp]; exact hreg
  have := gaussian_pass_solves (Cv.C01Solve.solveRegular P.p) P stp st hf (by rw [hal]; exact ha) (by rw [hn]; exact hn0) hpos'
    (by rw [hx, hn]; exact hxl) (by rw [hy, hn]) (by rw [hwl, hn]) (by rw [hlen, hl0]) (Cv.C01Solve.glm_solver_exact hpos P.p) hb'
  obtain ⟨hl, hne⟩ := this
  refine ⟨P.weights, hw, by rw [hcoef, hl, hpp], ?_⟩
  intro j hj
  have := hne j (by rw [← hpp]; exact hj)
  rw [hx, hy, hn, hoff, ← hcoef, ← hpp] at this
  exact this

end covariance

section covexample
attribute [local instance high] Cv.C01Solve.instTranscRatApps
local instance : GlmScalar ℚ := ⟨fun _ => false, fun q => q.floor.toNat⟩

/-- a fitted record with information `4·I₂`, deviance 6, `n − p = 3`: dispersion 2, covariance `½·I₂` -/
def rCov : Fit ℚ :=
  { ok := true, coef := [1, 2], deviance := 6, information := [4, 0, 0, 4], n := 5, p := 2, family := .gaussian,
    offsets := none, nIter := 2, converged := true, pd := some 6, pdPrev := some 6 }

theorem rCov_cov : coefCovariance Cv.invertMatrix rCov = some [1/2, 0, 0, 1/2] := by decide +kernel

/-- `covariance_isInverse` applied: all hypotheses instantiated (exact `sqrt` on ℚ for the pivots, regular information) -/
example : ∃ d, dispersion rCov = some d ∧ ([1/2, 0, 0, 1/2] : List ℚ).length = 2 * 2 ∧
    ∀ i j, i < 2 → j < 2 →
      ∑ k ∈ Finset.range 2, rCov.information[i * 2 + k]! * ([1/2, 0, 0, 1/2] : List ℚ)[k * 2 + j]! =
        if i = j then d else 0 :=
  covariance_isInverse Cv.C01Solve.sqrt_pos_ratA rCov [1/2, 0, 0, 1/2] 2 rfl Cv.C01Solve.ex_regular rCov_cov

end covexample

/-! ### examples (review C1, C2) -/

section examples
local instance : Transc ℚ := ⟨id, id, id, fun a _ => a, id, id, id, abs, id, id⟩
local instance : GlmScalar ℚ := ⟨fun _ => false, fun q => q.floor.toNat⟩

/-- C2: a constant response: the deviance is 0 on every pass, the code computes `|0 − 0| / 0 = NaN`, never converges and
reports `Err`; so does the model (before the `lp == 0` guard the field instance said `Ok` through `0/0 = 0`). -/
example : (fit solve1 .gaussian [1, 1, 1] [2, 2, 2] none none 0 (1/100) 10).map
    (fun r => (r.ok, r.coef, r.deviance, r.nIter)) = some (false, [2], 0, 10) := by decide +kernel
example : (fit solve1 .gaussian [1, 1, 1] [2, 2, 2] none none 0 (1/100) 10).map
    (fun r => (r.pd, r.pdPrev)) = some (some 0, some 0) := by decide +kernel

/-- `fit_last_pass` / `gaussian_fit_normal_equations` on a run that is NOT at a fixed point before its last pass: budget of
one pass from the start `β₀ = mean(y) = 7/3` with weights `1, 2, 3`: the returned coefficient is the weighted mean `17/6`
(normal equation `6 β = 17`), the stored deviance `14/3` is the deviance at `β₀ = 7/3`, not at `17/6` (which is `65/12`, next example). -/
example : (fit solve1 .gaussian [1, 1, 1] [1, 2, 4] (some [1, 2, 3]) none 0 (1/100) 1).map
    (fun r => (r.ok, r.coef, r.deviance, r.information, r.n)) = some (false, [17/6], 14/3, [6], 6) := by decide +kernel

/-- the deviance at the returned coefficient of the previous example is different: the stored one is one step stale -/
example : deviance .gaussian ([1, 2, 4] : List ℚ) [17/6, 17/6, 17/6] = some (65/12) := by decide +kernel

def P1 : Problem ℚ :=
  { family := .gaussian, x := [1, 1, 1], y := [1, 2, 4], n := 3, p := 1,
    weights := [1, 1, 1], offsets := none, alpha := 0, tol := 1 / 100, maxIter := 10 }
def S1 (b : ℚ) : LoopState ℚ :=
  { coef := [b], pd := none, pdPrev := none, mu := [], dmu := [], var := [], nIter := 0, converged := false }

/-- `fixed_point_iff_score` on both sides: at the TRUE fixed point `β = 7/3` the pass leaves `β` unchanged and the score
`Σ x_i w_i (y_i − β)` is `0`; at `β = 2` the pass moves `β` (to `7/3`) and the score is `1 ≠ 0`. -/
example : (loopBody solve1 P1 (S1 (7/3))).map (·.coef) = some [7/3] ∧
    (loopBody solve1 P1 (S1 2)).map (·.coef) = some [7/3] := by decide +kernel
example : ∑ i ∈ Finset.range 3, P1.x[i]! * wres P1.y [7/3, 7/3, 7/3] [1, 1, 1] [1, 1, 1] P1.weights i = 0 ∧
    ∑ i ∈ Finset.range 3, P1.x[i]! * wres P1.y [2, 2, 2] [1, 1, 1] [1, 1, 1] P1.weights i = 1 := by decide +kernel

/-- `standardError_spec` / `covariance_spec` / `predict_spec` instantiated: intercept-only fit, `invert = solve1 · [1]` -/
example : (fit solve1 .gaussian [1, 1, 1] [1, 2, 4] none none 0 (1/100) 10).map
    (fun r => (coefCovariance (fun H => solve1 H [1]) r, coefStandardError (fun H => solve1 H [1]) r, predict r [1, 1],
      dispersion r)) = some (some [7/9], some [7/9], some [7/3, 7/3], some (7/3)) := by decide +kernel

end examples

end Cv.C06
