import Compute.Model.Tape
import Compute.Lemmas.C10Tape
import Mathlib.Tactic.Ring
/-
C10 (deep) — layer A: the reverse sweep of `Model/Tape.lean` versus the *model-level* forward
semantics `sStep` (value + derivative row per stack cell, with the very weights the crate records —
including the weight `-1/x` of `f64 / Var`), for EVERY instruction of the RPN language, over any
commutative ring, and on ANY well-formed tape state (parameters in a contiguous block `m … m+n-1`
preceded by arbitrary older nodes): `evalProg_sem`.

This is pure linear algebra on the Wengert list (the adjoint invariant `Σ_{i<k} d[i]·tan(i) = const`
of reverse-mode AD, `Lemmas/C10Tape.lean`); no analysis.  The analytic meaning of `sStep` over `ℝ`
is layer B (`Lemmas/C10DeepDiff.lean`).
-/
namespace Cv.C10D
open Cv Cv.AD

set_option linter.unusedSectionVars false
set_option linter.unusedVariables false

variable {R : Type} [CommRing R] [Div R] [Cv.Transc R]

/-! ### well-formed tapes: parameter block `[m, N)` -/

/-- `t` is a tape whose nodes `≥ N` depend on strictly earlier nodes, whose nodes `< N` do not feed
the block `[m, N)` (they point below `m`, or carry weight `0` like the leaves' self loops), and whose
dependencies are all in range. -/
structure Good (t : Tape R) (m N : Nat) : Prop where
  le : N ≤ t.size
  inner : ∀ i (h : i < t.size), N ≤ i → t[i].d0 < i ∧ t[i].d1 < i
  quiet : ∀ i (h : i < t.size), i < N →
    (t[i].d0 < m ∨ t[i].w0 = 0) ∧ (t[i].d1 < m ∨ t[i].w1 = 0)
  closed : ∀ i (h : i < t.size), t[i].d0 < t.size ∧ t[i].d1 < t.size

theorem good_push {t : Tape R} {m N : Nat} (hG : Good t m N) (w0 w1 : R) (d0 d1 : Nat)
    (h0 : d0 < t.size) (h1 : d1 < t.size) : Good (t.push ⟨w0, w1, d0, d1⟩) m N := by
  have hle := hG.le
  refine ⟨by simp; omega, ?_, ?_, ?_⟩
  · intro i hi hin
    by_cases hi' : i < t.size
    · rw [Array.getElem_push_lt hi']; exact hG.inner i hi' hin
    · have : i = t.size := by simp at hi; omega
      subst this; simp [h0, h1]
  · intro i hi hin
    have hi' : i < t.size := by omega
    rw [Array.getElem_push_lt hi']; exact hG.quiet i hi' hin
  · intro i hi
    by_cases hi' : i < t.size
    · rw [Array.getElem_push_lt hi']
      have := hG.closed i hi'
      simp; omega
    · have : i = t.size := by simp at hi; omega
      subst this; simp; omega

/-! ### the sweep on a well-formed tape -/

theorem fn_modify_ne (d : Array R) (a : Nat) (f : R → R) (i : Nat) (h : a ≠ i) :
    fn (d.modify a f) i = fn d i := by
  simp only [fn, Array.getD_eq_getD_getElem?, Array.getElem?_modify, if_neg h]

theorem sweepStep_dotW {t : Tape R} {m N : Nat} (hG : Good t m N) (J : Nat) (d : Array R) (k : Nat)
    (hn : N ≤ k) (hks : k < t.size) (hd : d.size = t.size) :
    dot (fn (sweepStep t d k)) (tan t N J) k = dot (fn d) (tan t N J) (k + 1) := by
  have hdep := hG.inner k hks hn
  have h0 : t[k].d0 < d.size := by omega
  have h1 : t[k].d1 < d.size := by omega
  unfold sweepStep
  simp only [Array.getElem?_eq_getElem hks]
  have hx : (d.modify t[k].d0 (fun y => y + t[k].w0 * d.getD k 0)).getD k 0 = d.getD k 0 := by
    have := fn_modify d t[k].d0 (t[k].w0 * d.getD k 0) k h0
    simp only [fn] at this
    rw [this, if_neg (by omega)]
  rw [hx]
  have h1' : t[k].d1 < (d.modify t[k].d0 (fun y => y + t[k].w0 * d.getD k 0)).size := by
    simpa using h1
  rw [dot_congr k (fun i _ => fn_modify (d.modify t[k].d0 (fun y => y + t[k].w0 * d.getD k 0))
    t[k].d1 (t[k].w1 * d.getD k 0) i h1') (fun i _ => rfl)]
  rw [dot_bump]
  rw [dot_congr k (fun i _ => fn_modify d t[k].d0 _ i h0) (fun i _ => rfl)]
  rw [dot_bump]
  simp only [hdep.1, hdep.2, if_true, dot]
  rw [tan_node t N J k hn hks hdep.1 hdep.2]
  simp only [fn]
  ring

/-- the part of the sweep above the parameter block keeps `Σ d[i]·tan(i)` -/
theorem sweepFrom_upper {t : Tape R} {m N : Nat} (hG : Good t m N) (J : Nat) :
    ∀ (k : Nat) (d : Array R), N ≤ k → k ≤ t.size → d.size = t.size →
      ∃ d', sweepFrom t k d = sweepFrom t N d' ∧ d'.size = t.size ∧
        dot (fn d') (tan t N J) N = dot (fn d) (tan t N J) k
  | 0, d, hN, _, hd => by
    have : N = 0 := by omega
    subst this
    exact ⟨d, rfl, hd, rfl⟩
  | k + 1, d, hN, hk, hd => by
    by_cases hk' : N = k + 1
    · subst hk'; exact ⟨d, rfl, hd, rfl⟩
    · obtain ⟨d', e1, e2, e3⟩ := sweepFrom_upper hG J k (sweepStep t d k) (by omega) (by omega)
        (by rw [sweepStep_size, hd])
      refine ⟨d', ?_, e2, ?_⟩
      · rw [sweepFrom, e1]
      · rw [e3, sweepStep_dotW hG J d k (by omega) (by omega) hd]

theorem sweepStep_quiet {t : Tape R} {m N : Nat} (hG : Good t m N) (d : Array R) (k J : Nat)
    (hk : k < N) (hJ : m ≤ J) : fn (sweepStep t d k) J = fn d J := by
  have hks : k < t.size := Nat.lt_of_lt_of_le hk hG.le
  obtain ⟨q0, q1⟩ := hG.quiet k hks hk
  unfold sweepStep
  simp only [Array.getElem?_eq_getElem hks]
  have step : ∀ (e : Array R) (a : Nat) (w x : R), (a < m ∨ w = 0) →
      fn (e.modify a (fun y => y + w * x)) J = fn e J := by
    intro e a w x h
    rcases h with h | h
    · exact fn_modify_ne e a _ J (by omega)
    · rw [modify_id e a _ (fun y => by rw [h]; ring)]
  rw [step _ _ _ _ q1, step _ _ _ _ q0]

theorem sweepFrom_lower {t : Tape R} {m N : Nat} (hG : Good t m N) (J : Nat) (hJ : m ≤ J) :
    ∀ (k : Nat) (d : Array R), k ≤ N → fn (sweepFrom t k d) J = fn d J
  | 0, d, _ => rfl
  | k + 1, d, hk => by
    rw [sweepFrom, sweepFrom_lower hG J hJ k _ (by omega), sweepStep_quiet hG d k J (by omega) hJ]

/-- **the sweep lemma, general form**: on a well-formed tape the reverse sweep from the output `r`
leaves in slot `J` of the parameter block the forward tangent of `r` in direction `J`, whatever
older nodes precede the block. -/
theorem sweep_correct_gen {t : Tape R} {m N : Nat} (hG : Good t m N) (r : Var R)
    (hr : r.loc < t.size) (J : Nat) (hJ1 : m ≤ J) (hJ2 : J < N) :
    (grad t r).getD J 0 = tan t N J r.loc := by
  unfold grad
  have hsz : ((Array.replicate t.size (0 : R)).setIfInBounds r.loc 1).size = t.size := by simp
  obtain ⟨d', e1, e2, e3⟩ := sweepFrom_upper hG J t.size _ hG.le (Nat.le_refl _) hsz
  rw [e1]
  have h1 := sweepFrom_lower hG J hJ1 N d' (Nat.le_refl _)
  simp only [fn] at h1
  rw [h1]
  rw [dot_delta_right _ _ J N (fun i hi => tan_leaf t N J i hi), if_pos hJ2] at e3
  rw [dot_delta_left _ _ r.loc t.size, if_pos hr] at e3
  · exact e3
  · intro i hi
    simp only [fn, Array.getD_eq_getD_getElem?, Array.getElem?_setIfInBounds,
      Array.getElem?_replicate, Array.size_replicate]
    by_cases h : r.loc = i
    · simp [h, hi]
    · simp [h, hi]

/-! ### model-level forward semantics: value and derivative row of every stack cell -/

/-- a stack cell of the forward semantics: an `f64` constant, or a `Var` with its value and the
row of partial derivatives that the tape's weights encode -/
inductive SItem (R : Type) where
  | c (a : R)
  | v (val : R) (d : Nat → R)

def sAdd : SItem R → SItem R → SItem R
  | .c a, .c b => .c (a + b)
  | .v a da, .c b => .v (a + b) da
  | .c a, .v b db => .v (b + a) db
  | .v a da, .v b db => .v (a + b) (fun j => da j + db j)

def sSub : SItem R → SItem R → SItem R
  | .c a, .c b => .c (a - b)
  | .v a da, .c b => .v (a + -b) da
  | .c a, .v b db => .v (a - b) (fun j => -db j)
  | .v a da, .v b db => .v (a + b * -1) (fun j => da j - db j)

def sMul : SItem R → SItem R → SItem R
  | .c a, .c b => .c (a * b)
  | .v a da, .c b => .v (a * b) (fun j => b * da j)
  | .c a, .v b db => .v (b * a) (fun j => a * db j)
  | .v a da, .v b db => .v (a * b) (fun j => b * da j + a * db j)

/-- `Var / Var` is `self * rhs.recip()` with the weight `-1/rhs²`; `f64 / Var` records the weight
`-1/rhs` (the crate's defect: the numerator is missing and the denominator is not squared). -/
def sDiv : SItem R → SItem R → SItem R
  | .c a, .c b => .c (a / b)
  | .v a da, .c b => .v (a * (1 / b)) (fun j => (1 / b) * da j)
  | .c a, .v b db => .v (a / b) (fun j => ((-1) / b) * db j)
  | .v a da, .v b db =>
    .v (a * (1 / b)) (fun j => (1 / b) * da j + a * (((-1) / (powi b 2)) * db j))

def sNeg : SItem R → SItem R
  | .c a => .c (-a)
  | .v a da => .v (a * -1) (fun j => -da j)

def sPowi (n : Int) : SItem R → SItem R
  | .c a => .c (powi a n)
  | .v a da => .v (powi a n) (fun j => ((n : R) * powi a (n - 1)) * da j)

def sExp : SItem R → SItem R
  | .c a => .c (Transc.exp a)
  | .v a da => .v (Transc.exp a) (fun j => Transc.exp a * da j)

def sSin : SItem R → SItem R
  | .c a => .c (Transc.sin a)
  | .v a da => .v (Transc.sin a) (fun j => Transc.cos a * da j)

def sStep (θ : List R) (x? : Option R) (st : List (SItem R)) : Op R → Option (List (SItem R))
  | .param i => match θ[i]? with
    | some p => some (.v p (fun j => if j = i then 1 else 0) :: st)
    | none => none
  | .const c => some (.c c :: st)
  | .x => match x? with
    | some x => some (.c x :: st)
    | none => none
  | .add => match st with
    | b :: a :: st => some (sAdd a b :: st)
    | _ => none
  | .sub => match st with
    | b :: a :: st => some (sSub a b :: st)
    | _ => none
  | .mul => match st with
    | b :: a :: st => some (sMul a b :: st)
    | _ => none
  | .div => match st with
    | b :: a :: st => some (sDiv a b :: st)
    | _ => none
  | .neg => match st with
    | a :: st => some (sNeg a :: st)
    | _ => none
  | .powi n => match st with
    | a :: st => some (sPowi n a :: st)
    | _ => none
  | .exp => match st with
    | a :: st => some (sExp a :: st)
    | _ => none
  | .sin => match st with
    | a :: st => some (sSin a :: st)
    | _ => none

def sRun (θ : List R) (x? : Option R) : List (Op R) → List (SItem R) → Option (List (SItem R))
  | [], st => some st
  | o :: os, st =>
    match sStep θ x? st o with
    | none => none
    | some st => sRun θ x? os st

/-- value and derivative row of the program at `θ` (the final stack must be a single `Var`) -/
def sEval (prog : List (Op R)) (θ : List R) (x? : Option R) : Option (R × (Nat → R)) :=
  match sRun θ x? prog [] with
  | some [.v val d] => some (val, d)
  | _ => none

/-! ### tape cell vs. semantic cell -/

/-- cell `a` on tape `t` (parameter block `[m, N)`) realises the semantic cell `s` -/
def SRel (t : Tape R) (m N : Nat) : Item R → SItem R → Prop
  | .c a, .c a' => a = a'
  | .v x, .v val d => x.loc < t.size ∧ x.val = val ∧ ∀ j, tan t N (m + j) x.loc = d j
  | _, _ => False

def SStackRel (t : Tape R) (m N : Nat) : List (Item R) → List (SItem R) → Prop
  | [], [] => True
  | a :: as, s :: ss => SRel t m N a s ∧ SStackRel t m N as ss
  | [], _ :: _ => False
  | _ :: _, [] => False

theorem srel_c {t : Tape R} {m N : Nat} {a : R} {s : SItem R} (h : SRel t m N (.c a) s) :
    s = .c a := by
  cases s with
  | c a' => simp only [SRel] at h; rw [h]
  | v _ _ => exact h.elim

theorem srel_v {t : Tape R} {m N : Nat} {x : Var R} {s : SItem R} (h : SRel t m N (.v x) s) :
    ∃ d, s = .v x.val d ∧ x.loc < t.size ∧ ∀ j, tan t N (m + j) x.loc = d j := by
  cases s with
  | c _ => exact h.elim
  | v val d =>
    obtain ⟨h1, h2, h3⟩ := h
    exact ⟨d, by rw [h2], h1, h3⟩

theorem srel_mono {t t' : Tape R} {m N : Nat} (hg : Grows t t') {a : Item R} {s : SItem R}
    (h : SRel t m N a s) : SRel t' m N a s := by
  cases a with
  | c a => cases s with
    | c _ => exact h
    | v _ _ => exact h.elim
  | v x => cases s with
    | c _ => exact h.elim
    | v val d =>
      obtain ⟨h1, h2, h3⟩ := h
      exact ⟨Nat.lt_of_lt_of_le h1 hg.1, h2, fun j => by rw [hg.2 N (m + j) _ h1]; exact h3 j⟩

theorem sstackRel_mono {t t' : Tape R} {m N : Nat} (hg : Grows t t') :
    ∀ {st : List (Item R)} {ss : List (SItem R)}, SStackRel t m N st ss → SStackRel t' m N st ss
  | [], [], _ => trivial
  | _ :: _, _ :: _, h => ⟨srel_mono hg h.1, sstackRel_mono hg h.2⟩
  | [], _ :: _, h => h.elim
  | _ :: _, [], h => h.elim

theorem sstackRel_cons {t : Tape R} {m N : Nat} {a : Item R} {s : SItem R} {as : List (Item R)}
    {ss : List (SItem R)} (h1 : SRel t m N a s) (h2 : SStackRel t m N as ss) :
    SStackRel t m N (a :: as) (s :: ss) := ⟨h1, h2⟩

/-- result of an operator: tape still well formed, grown, result realises `s` -/
def OutS (t : Tape R) (m N : Nat) (p : Item R × Tape R) (s : SItem R) : Prop :=
  Good p.2 m N ∧ Grows t p.2 ∧ SRel p.2 m N p.1 s

theorem outS_trans {t t1 : Tape R} {m N : Nat} {p : Item R × Tape R} {s : SItem R}
    (hg : Grows t t1) (h : OutS t1 m N p s) : OutS t m N p s :=
  ⟨h.1, hg.trans h.2.1, h.2.2⟩

theorem outS_const {t : Tape R} {m N : Nat} (hG : Good t m N) (a : R) :
    OutS t m N (Item.c a, t) (.c a) := ⟨hG, Grows.refl t, rfl⟩

/-- one pushed node: the tangent of the new node is the weighted sum of the tangents of its
dependencies -/
theorem outS_mk {t : Tape R} {m N : Nat} (hG : Good t m N) (v w0 w1 : R) (d0 d1 : Nat)
    (h0 : d0 < t.size) (h1 : d1 < t.size) (d : Nat → R)
    (hd : ∀ j, w0 * tan t N (m + j) d0 + w1 * tan t N (m + j) d1 = d j) :
    OutS t m N (Item.v (mk t v d0 d1 w0 w1).1, (mk t v d0 d1 w0 w1).2) (.v v d) := by
  have hG' := good_push hG w0 w1 d0 d1 h0 h1
  refine ⟨hG', grows_push _ _, ?_, rfl, ?_⟩
  · simp [mk]
  · intro j
    show tan (t.push ⟨w0, w1, d0, d1⟩) N (m + j) t.size = d j
    rw [tan_node _ N (m + j) t.size hG.le (by simp)]
    · simp only [Array.getElem_push_eq]
      rw [tan_push _ _ _ _ _ h0, tan_push _ _ _ _ _ h1]
      exact hd j
    · simpa using h0
    · simpa using h1

/-! ### the operators -/

theorem iAdd_sem {t : Tape R} {m N : Nat} (hG : Good t m N) {a b : Item R} {sa sb : SItem R}
    (ha : SRel t m N a sa) (hb : SRel t m N b sb) : OutS t m N (iAdd t a b) (sAdd sa sb) := by
  cases a with
  | c a =>
    obtain rfl := srel_c ha
    cases b with
    | c b => obtain rfl := srel_c hb; exact outS_const hG _
    | v b =>
      obtain ⟨db, rfl, hbl, hbt⟩ := srel_v hb
      exact outS_mk hG _ _ _ _ _ hbl hbl _ (fun j => by rw [hbt j]; ring)
  | v a =>
    obtain ⟨da, rfl, hal, hat⟩ := srel_v ha
    cases b with
    | c b =>
      obtain rfl := srel_c hb
      exact outS_mk hG _ _ _ _ _ hal hal _ (fun j => by rw [hat j]; ring)
    | v b =>
      obtain ⟨db, rfl, hbl, hbt⟩ := srel_v hb
      exact outS_mk hG _ _ _ _ _ hal hbl _ (fun j => by rw [hat j, hbt j]; ring)

theorem iMul_sem {t : Tape R} {m N : Nat} (hG : Good t m N) {a b : Item R} {sa sb : SItem R}
    (ha : SRel t m N a sa) (hb : SRel t m N b sb) : OutS t m N (iMul t a b) (sMul sa sb) := by
  cases a with
  | c a =>
    obtain rfl := srel_c ha
    cases b with
    | c b => obtain rfl := srel_c hb; exact outS_const hG _
    | v b =>
      obtain ⟨db, rfl, hbl, hbt⟩ := srel_v hb
      exact outS_mk hG _ _ _ _ _ hbl hbl _ (fun j => by rw [hbt j]; ring)
  | v a =>
    obtain ⟨da, rfl, hal, hat⟩ := srel_v ha
    cases b with
    | c b =>
      obtain rfl := srel_c hb
      exact outS_mk hG _ _ _ _ _ hal hal _ (fun j => by rw [hat j]; ring)
    | v b =>
      obtain ⟨db, rfl, hbl, hbt⟩ := srel_v hb
      exact outS_mk hG _ _ _ _ _ hal hbl _ (fun j => by rw [hat j, hbt j])

theorem iNeg_sem {t : Tape R} {m N : Nat} (hG : Good t m N) {a : Item R} {sa : SItem R}
    (ha : SRel t m N a sa) : OutS t m N (iNeg t a) (sNeg sa) := by
  cases a with
  | c a => obtain rfl := srel_c ha; exact outS_const hG _
  | v a =>
    obtain ⟨da, rfl, hal, hat⟩ := srel_v ha
    exact outS_mk hG _ _ _ _ _ hal hal _ (fun j => by rw [hat j]; ring)

theorem iSub_sem {t : Tape R} {m N : Nat} (hG : Good t m N) {a b : Item R} {sa sb : SItem R}
    (ha : SRel t m N a sa) (hb : SRel t m N b sb) : OutS t m N (iSub t a b) (sSub sa sb) := by
  cases a with
  | c a =>
    obtain rfl := srel_c ha
    cases b with
    | c b => obtain rfl := srel_c hb; exact outS_const hG _
    | v b =>
      obtain ⟨db, rfl, hbl, hbt⟩ := srel_v hb
      exact outS_mk hG _ _ _ _ _ hbl hbl _ (fun j => by rw [hbt j]; ring)
  | v a =>
    obtain ⟨da, rfl, hal, hat⟩ := srel_v ha
    cases b with
    | c b =>
      obtain rfl := srel_c hb
      exact outS_mk hG _ _ _ _ _ hal hal _ (fun j => by rw [hat j]; ring)
    | v b =>
      obtain ⟨db, rfl, hbl, hbt⟩ := srel_v hb
      -- two nodes: `nb = b * (-1)`, then `a + nb`
      have h1 : OutS t m N (Item.v (negV t b).1, (negV t b).2) (.v (b.val * -1) (fun j => -db j)) :=
        outS_mk hG _ _ _ _ _ hbl hbl _ (fun j => by rw [hbt j]; ring)
      obtain ⟨hG1, hg1, hnl, _, hnt⟩ := h1
      have hal1 : a.loc < (negV t b).2.size := Nat.lt_of_lt_of_le hal hg1.1
      refine outS_trans hg1 ?_
      exact outS_mk hG1 _ _ _ _ _ hal1 hnl _ (fun j => by
        have e1 : tan (negV t b).2 N (m + j) a.loc = da j := by
          rw [← hat j]; exact hg1.2 N (m + j) _ hal
        have e2 : tan (negV t b).2 N (m + j) (negV t b).1.loc = -db j := hnt j
        show 1 * tan (negV t b).2 N (m + j) a.loc
          + 1 * tan (negV t b).2 N (m + j) (negV t b).1.loc = da j - db j
        rw [e1, e2]; ring)

theorem iDiv_sem {t : Tape R} {m N : Nat} (hG : Good t m N) {a b : Item R} {sa sb : SItem R}
    (ha : SRel t m N a sa) (hb : SRel t m N b sb) : OutS t m N (iDiv t a b) (sDiv sa sb) := by
  cases a with
  | c a =>
    obtain rfl := srel_c ha
    cases b with
    | c b => obtain rfl := srel_c hb; exact outS_const hG _
    | v b =>
      obtain ⟨db, rfl, hbl, hbt⟩ := srel_v hb
      exact outS_mk hG _ _ _ _ _ hbl hbl _ (fun j => by rw [hbt j]; ring)
  | v a =>
    obtain ⟨da, rfl, hal, hat⟩ := srel_v ha
    cases b with
    | c b =>
      obtain rfl := srel_c hb
      exact outS_mk hG _ _ _ _ _ hal hal _ (fun j => by rw [hat j]; ring)
    | v b =>
      obtain ⟨db, rfl, hbl, hbt⟩ := srel_v hb
      -- two nodes: `r = recip b`, then `a * r`
      have h1 : OutS t m N (Item.v (recipV t b).1, (recipV t b).2)
          (.v (1 / b.val) (fun j => ((-1) / (powi b.val 2)) * db j)) :=
        outS_mk hG _ _ _ _ _ hbl hbl _ (fun j => by rw [hbt j]; ring)
      obtain ⟨hG1, hg1, hnl, _, hnt⟩ := h1
      have hal1 : a.loc < (recipV t b).2.size := Nat.lt_of_lt_of_le hal hg1.1
      refine outS_trans hg1 ?_
      exact outS_mk hG1 _ _ _ _ _ hal1 hnl _ (fun j => by
        have e1 : tan (recipV t b).2 N (m + j) a.loc = da j := by
          rw [← hat j]; exact hg1.2 N (m + j) _ hal
        have e2 : tan (recipV t b).2 N (m + j) (recipV t b).1.loc
            = ((-1) / (powi b.val 2)) * db j := hnt j
        show (1 / b.val) * tan (recipV t b).2 N (m + j) a.loc
          + a.val * tan (recipV t b).2 N (m + j) (recipV t b).1.loc = _
        rw [e1, e2])

theorem iPowi_sem {t : Tape R} {m N : Nat} (hG : Good t m N) (n : Int) {a : Item R} {sa : SItem R}
    (ha : SRel t m N a sa) : OutS t m N (iPowi t n a) (sPowi n sa) := by
  cases a with
  | c a => obtain rfl := srel_c ha; exact outS_const hG _
  | v a =>
    obtain ⟨da, rfl, hal, hat⟩ := srel_v ha
    exact outS_mk hG _ _ _ _ _ hal hal _ (fun j => by rw [hat j]; ring)

theorem iExp_sem {t : Tape R} {m N : Nat} (hG : Good t m N) {a : Item R} {sa : SItem R}
    (ha : SRel t m N a sa) : OutS t m N (iExp t a) (sExp sa) := by
  cases a with
  | c a => obtain rfl := srel_c ha; exact outS_const hG _
  | v a =>
    obtain ⟨da, rfl, hal, hat⟩ := srel_v ha
    exact outS_mk hG _ _ _ _ _ hal hal _ (fun j => by rw [hat j]; ring)

theorem iSin_sem {t : Tape R} {m N : Nat} (hG : Good t m N) {a : Item R} {sa : SItem R}
    (ha : SRel t m N a sa) : OutS t m N (iSin t a) (sSin sa) := by
  cases a with
  | c a => obtain rfl := srel_c ha; exact outS_const hG _
  | v a =>
    obtain ⟨da, rfl, hal, hat⟩ := srel_v ha
    exact outS_mk hG _ _ _ _ _ hal hal _ (fun j => by rw [hat j]; ring)

/-! ### the interpreter invariant -/

/-- the parameter `Var`s are the nodes `m … m+n-1` holding `θ` -/
def ParamsAt (ps : List (Var R)) (θ : List R) (m : Nat) : Prop :=
  ∀ i, ps[i]? = (θ[i]?).map (fun x => (⟨x, m + i⟩ : Var R))

theorem paramsAt_vals {ps : List (Var R)} {θ : List R} {m : Nat} (h : ParamsAt ps θ m) :
    ps.map (·.val) = θ := by
  apply List.ext_getElem?
  intro i
  rw [List.getElem?_map, h i]
  cases θ[i]? <;> rfl

theorem paramsAt_length {ps : List (Var R)} {θ : List R} {m : Nat} (h : ParamsAt ps θ m) :
    ps.length = θ.length := by
  rw [← paramsAt_vals h, List.length_map]

private theorem bin_case {t t' : Tape R} {m N : Nat} {st0 st' : List (Item R)}
    {ss0 : List (SItem R)} {p : Item R × Tape R} {s : SItem R}
    (hout : OutS t m N p s) (hrest : SStackRel t m N st0 ss0)
    (h : some (p.1 :: st0, p.2) = some (st', t')) :
    Good t' m N ∧ Grows t t' ∧ SStackRel t' m N st' (s :: ss0) := by
  simp only [Option.some.injEq, Prod.mk.injEq] at h
  obtain ⟨rfl, rfl⟩ := h
  exact ⟨hout.1, hout.2.1, hout.2.2, sstackRel_mono hout.2.1 hrest⟩

theorem stepOp_sem {θ : List R} {ps : List (Var R)} {m N : Nat} {x? : Option R} {t t' : Tape R}
    {st st' : List (Item R)} {ss : List (SItem R)} (o : Op R)
    (hN : N = m + θ.length) (hps : ParamsAt ps θ m) (hG : Good t m N) (hst : SStackRel t m N st ss)
    (h : stepOp ps x? st t o = some (st', t')) :
    ∃ ss', sStep θ x? ss o = some ss' ∧ Good t' m N ∧ Grows t t' ∧ SStackRel t' m N st' ss' := by
  cases o with
  | param i =>
    simp only [stepOp, hps i] at h
    cases hθ : θ[i]? with
    | none => simp [hθ] at h
    | some p =>
      simp only [hθ, Option.map_some, Option.some.injEq, Prod.mk.injEq] at h
      obtain ⟨rfl, rfl⟩ := h
      have hi : i < θ.length := (List.getElem?_eq_some_iff.mp hθ).1
      refine ⟨(.v p (fun j => if j = i then 1 else 0)) :: ss, by simp [sStep, hθ], hG, Grows.refl _,
        sstackRel_cons ⟨?_, rfl, ?_⟩ hst⟩
      · have := hG.le; show m + i < t.size; omega
      · intro j
        show tan t N (m + j) (m + i) = _
        rw [tan_leaf t N (m + j) (m + i) (by omega)]
        by_cases hji : j = i
        · simp [hji]
        · simp [hji]
  | const c =>
    simp only [stepOp, Option.some.injEq, Prod.mk.injEq] at h
    obtain ⟨rfl, rfl⟩ := h
    exact ⟨_, rfl, hG, Grows.refl _, sstackRel_cons rfl hst⟩
  | x =>
    cases x? with
    | none => simp [stepOp] at h
    | some x =>
      simp only [stepOp, Option.some.injEq, Prod.mk.injEq] at h
      obtain ⟨rfl, rfl⟩ := h
      exact ⟨_, rfl, hG, Grows.refl _, sstackRel_cons rfl hst⟩
  | add =>
    rcases st with _ | ⟨b, _ | ⟨a, st0⟩⟩
    · simp [stepOp] at h
    · simp [stepOp] at h
    rcases ss with _ | ⟨sb, _ | ⟨sa, ss0⟩⟩
    · exact hst.elim
    · exact hst.2.elim
    obtain ⟨hb, ha, hrest⟩ := hst
    exact ⟨_, rfl, bin_case (iAdd_sem hG ha hb) hrest h⟩
  | sub =>
    rcases st with _ | ⟨b, _ | ⟨a, st0⟩⟩
    · simp [stepOp] at h
    · simp [stepOp] at h
    rcases ss with _ | ⟨sb, _ | ⟨sa, ss0⟩⟩
    · exact hst.elim
    · exact hst.2.elim
    obtain ⟨hb, ha, hrest⟩ := hst
    exact ⟨_, rfl, bin_case (iSub_sem hG ha hb) hrest h⟩
  | mul =>
    rcases st with _ | ⟨b, _ | ⟨a, st0⟩⟩
    · simp [stepOp] at h
    · simp [stepOp] at h
    rcases ss with _ | ⟨sb, _ | ⟨sa, ss0⟩⟩
    · exact hst.elim
    · exact hst.2.elim
    obtain ⟨hb, ha, hrest⟩ := hst
    exact ⟨_, rfl, bin_case (iMul_sem hG ha hb) hrest h⟩
  | div =>
    rcases st with _ | ⟨b, _ | ⟨a, st0⟩⟩
    · simp [stepOp] at h
    · simp [stepOp] at h
    rcases ss with _ | ⟨sb, _ | ⟨sa, ss0⟩⟩
    · exact hst.elim
    · exact hst.2.elim
    obtain ⟨hb, ha, hrest⟩ := hst
    exact ⟨_, rfl, bin_case (iDiv_sem hG ha hb) hrest h⟩
  | neg =>
    rcases st with _ | ⟨a, st0⟩
    · simp [stepOp] at h
    rcases ss with _ | ⟨sa, ss0⟩
    · exact hst.elim
    obtain ⟨ha, hrest⟩ := hst
    exact ⟨_, rfl, bin_case (iNeg_sem hG ha) hrest h⟩
  | powi n =>
    rcases st with _ | ⟨a, st0⟩
    · simp [stepOp] at h
    rcases ss with _ | ⟨sa, ss0⟩
    · exact hst.elim
    obtain ⟨ha, hrest⟩ := hst
    exact ⟨_, rfl, bin_case (iPowi_sem hG n ha) hrest h⟩
  | exp =>
    rcases st with _ | ⟨a, st0⟩
    · simp [stepOp] at h
    rcases ss with _ | ⟨sa, ss0⟩
    · exact hst.elim
    obtain ⟨ha, hrest⟩ := hst
    exact ⟨_, rfl, bin_case (iExp_sem hG ha) hrest h⟩
  | sin =>
    rcases st with _ | ⟨a, st0⟩
    · simp [stepOp] at h
    rcases ss with _ | ⟨sa, ss0⟩
    · exact hst.elim
    obtain ⟨ha, hrest⟩ := hst
    exact ⟨_, rfl, bin_case (iSin_sem hG ha) hrest h⟩

theorem runOps_sem {θ : List R} {ps : List (Var R)} {m N : Nat} {x? : Option R}
    (hN : N = m + θ.length) (hps : ParamsAt ps θ m) :
    ∀ (prog : List (Op R)) {t t' : Tape R} {st st' : List (Item R)} {ss : List (SItem R)},
      Good t m N → SStackRel t m N st ss → runOps ps x? prog st t = some (st', t') →
      ∃ ss', sRun θ x? prog ss = some ss' ∧ Good t' m N ∧ Grows t t' ∧ SStackRel t' m N st' ss'
  | [], t, t', st, st', ss, hG, hst, h => by
    simp only [runOps, Option.some.injEq, Prod.mk.injEq] at h
    obtain ⟨rfl, rfl⟩ := h
    exact ⟨ss, rfl, hG, Grows.refl _, hst⟩
  | o :: os, t, t', st, st', ss, hG, hst, h => by
    simp only [runOps] at h
    cases hs : stepOp ps x? st t o with
    | none => simp [hs] at h
    | some q =>
      obtain ⟨st1, t1⟩ := q
      simp only [hs] at h
      obtain ⟨ss1, hd1, hG1, hg1, hst1⟩ := stepOp_sem o hN hps hG hst hs
      obtain ⟨ss', hd', hG', hg', hst'⟩ := runOps_sem hN hps os hG1 hst1 h
      exact ⟨ss', by simp only [sRun, hd1]; exact hd', hG', hg1.trans hg', hst'⟩

/-- reading the swept gradient at the parameter block gives the tangents of the output -/
theorem wrt_grad {θ : List R} {ps : List (Var R)} {m : Nat} {t : Tape R} (hps : ParamsAt ps θ m)
    (hG : Good t m (m + θ.length)) (r : Var R) (hr : r.loc < t.size) (d : Nat → R)
    (hd : ∀ j, tan t (m + θ.length) (m + j) r.loc = d j) :
    wrt (grad t r) ps = (List.range θ.length).map d := by
  apply List.ext_getElem?
  intro i
  simp only [wrt, List.getElem?_map, hps i]
  by_cases hi : i < θ.length
  · rw [List.getElem?_range hi, List.getElem?_eq_getElem hi]
    simp only [Option.map_some]
    rw [sweep_correct_gen hG r hr (m + i) (by omega) (by omega), hd i]
  · have h1 : θ[i]? = none := List.getElem?_eq_none (by omega)
    have h2 : (List.range θ.length)[i]? = none := List.getElem?_eq_none (by simp; omega)
    rw [h1, h2]; rfl

/-- **Layer A, headline.**  On any well-formed tape state (parameters `θ` in the block `[m, m+n)`),
whenever the objective closure returns the `Var` `r`, the forward semantics returns `(val, d)` with
`r.val = val`, and the reverse sweep from `r` over the whole tape, read at the parameters, is the
row `d 0 … d (n-1)`.  The tape stays well formed. -/
theorem evalProg_sem {θ : List R} {ps : List (Var R)} {m : Nat} {x? : Option R} {t t' : Tape R}
    (prog : List (Op R)) (hps : ParamsAt ps θ m) (hG : Good t m (m + θ.length)) (r : Var R)
    (h : evalProg prog ps x? t = some (r, t')) :
    ∃ val d, sEval prog θ x? = some (val, d) ∧ r.val = val ∧ r.loc < t'.size ∧
      (∀ j, tan t' (m + θ.length) (m + j) r.loc = d j) ∧
      wrt (grad t' r) ps = (List.range θ.length).map d ∧
      Good t' m (m + θ.length) ∧ Grows t t' := by
  unfold evalProg at h
  split at h
  next st1 r1 t1 hrun =>
    simp only [Option.some.injEq, Prod.mk.injEq] at h
    obtain ⟨rfl, rfl⟩ := h
    obtain ⟨ss', hd, hG', hg', hst'⟩ :=
      runOps_sem (x? := x?) rfl hps prog hG (show SStackRel t m _ [] [] from trivial) hrun
    rcases ss' with _ | ⟨s, _ | ⟨s2, ss2⟩⟩
    · exact hst'.elim
    · obtain ⟨hs, _⟩ := hst'
      obtain ⟨d, rfl, hloc, htan⟩ := srel_v hs
      exact ⟨r1.val, d, by simp [sEval, hd], rfl, hloc, htan,
        wrt_grad hps hG' r1 hloc d htan, hG', hg'⟩
    · exact hst'.2.elim
  next => exact absurd h (by simp)

/-! ### fresh tapes -/

theorem addVars_good (xs : List R) : ∀ (t : Tape R),
    (∀ i (h : i < t.size), (t[i].w0 = 0 ∧ t[i].w1 = 0) ∧ t[i].d0 < t.size ∧ t[i].d1 < t.size) →
    (∀ i (h : i < (addVars t xs).2.size),
      ((addVars t xs).2[i].w0 = 0 ∧ (addVars t xs).2[i].w1 = 0) ∧
        (addVars t xs).2[i].d0 < (addVars t xs).2.size ∧
        (addVars t xs).2[i].d1 < (addVars t xs).2.size) ∧
      (addVars t xs).2.size = t.size + xs.length ∧
      ∀ i, (addVars t xs).1[i]? = (xs[i]?).map (fun x => (⟨x, t.size + i⟩ : Var R)) := by
  induction xs with
  | nil => intro t ht; exact ⟨ht, rfl, fun i => by simp [addVars]⟩
  | cons x xs ih =>
    intro t ht
    have ht1 : ∀ i (h : i < (t.push ⟨0, 0, t.size, t.size⟩).size),
        (((t.push ⟨0, 0, t.size, t.size⟩)[i].w0 = 0 ∧ (t.push ⟨0, 0, t.size, t.size⟩)[i].w1 = 0) ∧
          (t.push ⟨0, 0, t.size, t.size⟩)[i].d0 < (t.push ⟨0, 0, t.size, t.size⟩).size ∧
          (t.push ⟨0, 0, t.size, t.size⟩)[i].d1 < (t.push ⟨0, 0, t.size, t.size⟩).size) := by
      intro i hi
      by_cases hi' : i < t.size
      · rw [Array.getElem_push_lt hi']
        have := ht i hi'
        simp only [Array.size_push]
        exact ⟨this.1, by omega, by omega⟩
      · have : i = t.size := by simp at hi; omega
        subst this; simp
    obtain ⟨h1, h2, h3⟩ := ih _ ht1
    have e : addVars t (x :: xs) =
        (⟨x, t.size⟩ :: (addVars (t.push ⟨0, 0, t.size, t.size⟩) xs).1,
          (addVars (t.push ⟨0, 0, t.size, t.size⟩) xs).2) := rfl
    rw [e]
    refine ⟨h1, ?_, ?_⟩
    · rw [h2]; simp; omega
    · intro i
      cases i with
      | zero => simp
      | succ i =>
        simp only [List.getElem?_cons_succ, h3 i, Array.size_push]
        have : t.size + 1 + i = t.size + (i + 1) := by omega
        rw [this]

/-- `tape.clear(); params = add_var(θ)…` is a well-formed state with the block at `0` -/
theorem fresh_good (θ : List R) :
    ParamsAt (addVars (#[] : Tape R) θ).1 θ 0 ∧ Good (addVars (#[] : Tape R) θ).2 0 (0 + θ.length) := by
  obtain ⟨h1, h2, h3⟩ := addVars_good θ (#[] : Tape R) (fun i hi => by simp at hi)
  have hsz : (addVars (#[] : Tape R) θ).2.size = θ.length := by simpa using h2
  refine ⟨fun i => by simpa using h3 i, ⟨by omega, fun i hi hn => by omega, ?_, ?_⟩⟩
  · intro i hi _
    exact ⟨Or.inr (h1 i hi).1.1, Or.inr (h1 i hi).1.2⟩
  · intro i hi
    exact (h1 i hi).2

/-- **value and gradient of the model = forward semantics**, every instruction, any commutative ring -/
theorem valGradAt_sem (prog : List (Op R)) (θ : List R) (x? : Option R) (v : R) (g : List R)
    (h : valGradAt prog θ x? = some (v, g)) :
    ∃ d, sEval prog θ x? = some (v, d) ∧ g = (List.range θ.length).map d := by
  unfold valGradAt at h
  simp only at h
  split at h
  · exact absurd h (by simp)
  next r t' he =>
    simp only [Option.some.injEq, Prod.mk.injEq] at h
    obtain ⟨rfl, rfl⟩ := h
    obtain ⟨hp, hG⟩ := fresh_good θ
    obtain ⟨val, d, h1, h2, _, _, h3, _, _⟩ := evalProg_sem prog hp hG r he
    exact ⟨d, by rw [h1, h2], h3⟩

theorem gradAt_sem (prog : List (Op R)) (θ : List R) (g : List R) (h : gradAt prog θ = some g) :
    ∃ v d, sEval prog θ none = some (v, d) ∧ g = (List.range θ.length).map d := by
  unfold gradAt at h
  simp only at h
  split at h
  · exact absurd h (by simp)
  next r t' he =>
    simp only [Option.some.injEq] at h
    obtain rfl := h
    obtain ⟨hp, hG⟩ := fresh_good θ
    obtain ⟨val, d, h1, _, _, _, h3, _, _⟩ := evalProg_sem prog hp hG r he
    exact ⟨val, d, h1, h3⟩

end Cv.C10D
