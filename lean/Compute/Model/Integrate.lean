import Compute.Model.Scalar
import Compute.Model.Stats
/-
Model of `src/integrate/functions.rs` (`trapz`, `romberg`, `quad5`) and `src/integrate/samples.rs`
(`trapezoid`) (C07).  Polymorphic in the scalar; core Lean only.

* `Iterator::sum::<f64>()` = `Cv.iterSum` (fold from `-0.0`, see Model/Stats.lean).
* Literals `2.` and `0.5` are `((2 : Nat) : α)` and `1 / ((2 : Nat) : α)` (exact at `Float`).
* `2_f64.powi(n)`, `4_f64.powi(m)` = `Cv.powi` (square-and-multiply; exact powers of two at `Float`).
* The Rust `romberg` fills the whole first column (all `nmax` levels, `2^(nmax-1)` evaluations) before
  the Richardson sweep; the integrand is a pure function, so the model interleaves column and sweep
  (same values, same operation order inside every entry).  `Matrix::zeros(0,0)[[0,0]]` panics:
  `nmax = 0` is `none` (this IS the panic).  `2*k` overflows `u32` only from `nmax = 33` on, after 2^31
  evaluations; the model stops earlier: `nmax > 31` returns `none` meaning NOT MODELLED (not a panic —
  the executor refuses such lines, they are never compared).
* Integrands are closures in Rust; both executors implement the same catalogue `Integrand`.
-/
namespace Cv

section
variable {α : Type} [Add α] [Sub α] [Mul α] [Div α] [Neg α] [Zero α] [One α] [NatCast α]

def two : α := ((2 : Nat) : α)
def half : α := 1 / ((2 : Nat) : α)

/-- `trapz` (functions.rs:8-14, repaired by F16): interior nodes `k = 1..n-1`, end points weight 1/2. -/
def trapz (f : α → α) (a b : α) (n : Nat) : α :=
  let dx := (b - a) / (n : α)
  dx * (iterSum ((List.range' 1 (n - 1)).map fun (k : Nat) => f (a + (k : α) * dx)) + (f b + f a) / two)

/-- First tableau entry `r[0][0] = (b-a)/2 * (f(a)+f(b))`. -/
def romberg00 (f : α → α) (a b : α) : α := (b - a) / two * (f a + f b)

/-- `r[n][0] = 0.5 * r[n-1][0] + hn * Σ_{k=1}^{2^(n-1)} f(a + (2k-1) hn)`, `hn = (b-a)/2^n`. -/
def rombergCol0Next (f : α → α) (a b : α) (prev : α) (n : Nat) : α :=
  let hn := (b - a) / powi two (n : Int)
  let s := iterSum ((List.range' 1 (2 ^ (n - 1))).map fun (k : Nat) => f (a + ((2 * k - 1 : Nat) : α) * hn))
  half * prev + hn * s

/-- Richardson sweep along a row: given `cur = r[n][m-1]` and the tail `r[n-1][m-1..]` of the
previous row, produce `r[n][m-1..]`;  `r[n][m] = r[n][m-1] + (r[n][m-1] - r[n-1][m-1]) / (4^m - 1)`. -/
def richRow (cur : α) (m : Nat) : List α → List α
  | [] => [cur]
  | p :: ps => cur :: richRow (cur + (cur - p) / (powi (two * two) (m : Int) - 1)) (m + 1) ps

/-- Row `n` of the Romberg tableau, `[r[n][0], …, r[n][n]]`. -/
def rombergRow (f : α → α) (a b : α) : Nat → List α
  | 0 => [romberg00 f a b]
  | n + 1 =>
    let p := rombergRow f a b n
    richRow (rombergCol0Next f a b (p.headD 0) (n + 1)) 1 p

end

section
variable {α : Type} [Add α] [Sub α] [Mul α] [Div α] [Neg α] [Zero α] [One α] [NatCast α]
  [LT α] [DecidableLT α] [HasNaN α] [Transc α]

/-- The early-stop test of `romberg` between consecutive diagonal entries (functions.rs:39-42, repaired
by F40: signed difference against `eps * min(|cur|, |prev|)`, or absolute difference below `eps`);
`f64::min` is NaN-ignoring (`fminG`). -/
def rombergStop (eps cur prev : α) : Bool :=
  decide (Transc.abs (cur - prev) < eps * fminG (Transc.abs cur) (Transc.abs prev)) ||
    decide (Transc.abs (cur - prev) < eps)

/-- Levels `n, n+1, …, nmax-1` of `romberg` given row `n-1`. -/
def rombergLoop (f : α → α) (a b eps : α) (nmax : Nat) : Nat → Nat → List α → α
  | 0, _, prev => prev.getLastD 0
  | fuel + 1, n, prev =>
    if n < nmax then
      let row := richRow (rombergCol0Next f a b (prev.headD 0) n) 1 prev
      if 1 < n && rombergStop eps (row.getLastD 0) (prev.getLastD 0) then row.getLastD 0
      else rombergLoop f a b eps nmax fuel (n + 1) row
    else prev.getLastD 0

/-- `romberg` (functions.rs:18-49). -/
def romberg (f : α → α) (a b eps : α) (nmax : Nat) : Option α :=
  if nmax = 0 ∨ 31 < nmax then none
  else some (rombergLoop f a b eps nmax nmax 1 [romberg00 f a b])

end

section
variable {α : Type} [Add α] [Sub α] [Mul α] [Div α] [Neg α] [Zero α] [One α] [NatCast α]

/-- `quad5` (functions.rs:79-93) over node and weight tables (`Generated/C07Tables.lean`). -/
def quad5 (nodes weights : List α) (f : α → α) (a b : α) : α :=
  let xm := half * (b + a)
  let xr := half * (b - a)
  iterSum (List.zipWith (fun t w => let dx := xr * t; w * (f (xm + dx) + f (xm - dx))) nodes weights) * xr

/-- `[x[1]-x[0], x[2]-x[1], …]`. -/
def pairDiffs : List α → List α
  | a :: b :: r => (b - a) :: pairDiffs (b :: r)
  | _ => []

/-- `[(y[1]+y[0])/2, (y[2]+y[1])/2, …]`. -/
def pairMeans : List α → List α
  | a :: b :: r => (b + a) / two :: pairMeans (b :: r)
  | _ => []

/-- `trapezoid` (samples.rs:4-18).  `none` = panic (length assert, `dx` given together with `x`,
`y.len() - 1` underflow when neither `x` nor samples are given). -/
def trapezoid (y : List α) (x : Option (List α)) (dx : Option α) : Option α :=
  match x with
  | some xs =>
    if y.length ≠ xs.length then none
    else if dx.isSome then none
    else some (iterSum (List.zipWith (· * ·) (pairMeans y) (pairDiffs xs)))
  | none =>
    if y.length = 0 then none
    else
      let d : α := match dx with | some d => d | none => 1
      some (iterSum ((pairMeans y).map fun m => m * (1 * d)))

end

/-! ### The integrand catalogue (implemented identically in exec/src/bin/c07.rs) -/

inductive Integrand (α : Type) where
  | poly (c : List α)      -- Horner: (((c_d x + c_{d-1}) x + …) x + c_0
  | expk (k : α)           -- exp(k x)
  | sink (k : α)           -- sin(k x)
  | cosk (k : α)           -- cos(k x)
  | sin2 (k : α)           -- sin(k x)^2
  | runge (k : α)          -- 1 / (1 + k x^2)
  | sqrt1 (k : α)          -- sqrt(1 + k x)
  | xexp (k : α)           -- x exp(k x)
  | log1 (k : α)           -- ln(1 + k x)
  | gauss (k : α)          -- exp(k x^2)
  | cosh (k : α)           -- (exp(k x) + exp(-(k x))) / 2
  | powx (k : α)           -- x^k   (powf)
  | recip (k : α)          -- 1 / (k + x)
  | sincos (k : α)         -- sin(k x) cos(x)
  | xsin (k : α)           -- x sin(k x)
  | expsin (k : α)         -- exp(x) sin(k x)
  | rat2 (k : α)           -- x / (1 + k x^2)
  | logx (k : α)           -- ln(k x) / x
  | sqrtq (k : α)          -- sqrt(k + x^2)
  | tanhd (k : α)          -- 1 / cosh(k x)^2  as 4 / (exp(kx) + exp(-kx))^2

section
variable {α : Type} [Add α] [Sub α] [Mul α] [Div α] [Neg α] [Zero α] [One α] [NatCast α] [Transc α]

def horner (c : List α) (x : α) : α := c.foldr (fun ci acc => acc * x + ci) 0

def Integrand.eval : Integrand α → α → α
  | .poly c, x => horner c x
  | .expk k, x => Transc.exp (k * x)
  | .sink k, x => Transc.sin (k * x)
  | .cosk k, x => Transc.cos (k * x)
  | .sin2 k, x => Transc.sin (k * x) * Transc.sin (k * x)
  | .runge k, x => 1 / (1 + k * (x * x))
  | .sqrt1 k, x => Transc.sqrt (1 + k * x)
  | .xexp k, x => x * Transc.exp (k * x)
  | .log1 k, x => Transc.ln (1 + k * x)
  | .gauss k, x => Transc.exp (k * (x * x))
  | .cosh k, x => (Transc.exp (k * x) + Transc.exp (-(k * x))) / two
  | .powx k, x => Transc.pow x k
  | .recip k, x => 1 / (k + x)
  | .sincos k, x => Transc.sin (k * x) * Transc.cos x
  | .xsin k, x => x * Transc.sin (k * x)
  | .expsin k, x => Transc.exp x * Transc.sin (k * x)
  | .rat2 k, x => x / (1 + k * (x * x))
  | .logx k, x => Transc.ln (k * x) / x
  | .sqrtq k, x => Transc.sqrt (k + x * x)
  | .tanhd k, x =>
    let e := Transc.exp (k * x) + Transc.exp (-(k * x))
    (two * two) / (e * e)

end

end Cv
