//! C19 executor: the `alea` generator (validation of `Model/Rng.lean`), `DiscreteUniform`/`Uniform`
//! sampling, and the resampling functions of `compute::validation`.
//!
//! Every request carries its own seed; every reply of a random op ends with the generator state
//! after the call (`alea::get_seed()`), so that the number of draws consumed is compared as well.
//!
//! rng u64|u32|i64|i32|f64 <seed> <n>              -> n values, state
//! rng u64lt <seed> <max> <n> | rng i64lt <seed> <max> <n>
//! rng u64rg <seed> <min> <max> <n> | rng i64rg <seed> <min> <max> <n>
//! rng f64lt <seed> <max:f64> <n> | rng f64rg <seed> <min:f64> <max:f64> <n>
//! du <seed> <lower> <upper> <n>                   -> DiscreteUniform::new(lower,upper).sample_n(n), state
//! dur <route> <seed> <lower> <upper> <n>         -> same law through a peripheral route (1 default+update, 2 set_upper+clone,
//!                                                    3 set_lower, 4 a longer sample_n on a wider object first, then reseed)
//! uni <seed> <lower:f64> <upper:f64> <n>          -> Uniform::new(lower,upper).sample_n(n), state
//! boot <seed> <n_bootstrap> <vec>                 -> nb len <nb*len floats> state
//! jack <vec>                                      -> count len' <floats>
//! shuf <seed> <vec>                               -> len <floats> state
//! shuf2 <seed> <vec> <vec>                        -> len <floats> len <floats> state
use compute::distributions::{DiscreteUniform, Distribution1D, Uniform};
use compute::validation::{bootstrap, jackknife, shuffle, shuffle_two};
use cvexec::*;

fn join<T: ToString>(xs: impl Iterator<Item = T>) -> String {
    xs.map(|x| x.to_string()).collect::<Vec<_>>().join(" ")
}

fn with_state(mut s: String) -> String {
    if !s.is_empty() {
        s.push(' ');
    }
    s.push_str(&alea::get_seed().to_string());
    s
}

fn step(_: &mut (), t: &mut Toks) -> R<String> {
    match t.tok()? {
        "rng" => {
            let kind = t.tok()?;
            let seed = t.u64()?;
            let body = match kind {
                "u64" | "u32" | "i64" | "i32" | "f64" => {
                    let n = t.usize()?;
                    t.end()?;
                    alea::set_seed(seed);
                    match kind {
                        "u64" => join((0..n).map(|_| alea::u64())),
                        "u32" => join((0..n).map(|_| alea::u32())),
                        "i64" => join((0..n).map(|_| alea::i64())),
                        "i32" => join((0..n).map(|_| alea::i32())),
                        _ => show_fs(&(0..n).map(|_| alea::f64()).collect::<Vec<_>>()),
                    }
                }
                "u64lt" => {
                    let (max, n) = (t.u64()?, t.usize()?);
                    t.end()?;
                    alea::set_seed(seed);
                    join((0..n).map(|_| alea::u64_less_than(max)))
                }
                "i64lt" => {
                    let (max, n) = (t.i64()?, t.usize()?);
                    t.end()?;
                    alea::set_seed(seed);
                    join((0..n).map(|_| alea::i64_less_than(max)))
                }
                "u64rg" => {
                    let (min, max, n) = (t.u64()?, t.u64()?, t.usize()?);
                    t.end()?;
                    alea::set_seed(seed);
                    join((0..n).map(|_| alea::u64_in_range(min, max)))
                }
                "i64rg" => {
                    let (min, max, n) = (t.i64()?, t.i64()?, t.usize()?);
                    t.end()?;
                    alea::set_seed(seed);
                    join((0..n).map(|_| alea::i64_in_range(min, max)))
                }
                "f64lt" => {
                    let (max, n) = (t.f64()?, t.usize()?);
                    t.end()?;
                    alea::set_seed(seed);
                    show_fs(&(0..n).map(|_| alea::f64_less_than(max)).collect::<Vec<_>>())
                }
                "f64rg" => {
                    let (min, max, n) = (t.f64()?, t.f64()?, t.usize()?);
                    t.end()?;
                    alea::set_seed(seed);
                    show_fs(&(0..n).map(|_| alea::f64_in_range(min, max)).collect::<Vec<_>>())
                }
                _ => return Err(BadOp),
            };
            Ok(ok(with_state(body)))
        }
        "du" => {
            let (seed, lo, hi, n) = (t.u64()?, t.i64()?, t.i64()?, t.usize()?);
            t.end()?;
            alea::set_seed(seed);
            let v = DiscreteUniform::new(lo, hi).sample_n(n);
            Ok(ok(with_state(show_fs(&v))))
        }
        "dur" => {
            let (route, seed, lo, hi, n) = (t.usize()?, t.u64()?, t.i64()?, t.i64()?, t.usize()?);
            t.end()?;
            alea::set_seed(seed);
            let d = match route {
                1 => {
                    let mut d = DiscreteUniform::default();
                    d.update(&[lo as f64, hi as f64]);
                    d
                }
                2 => {
                    let mut d = DiscreteUniform::new(lo, lo);
                    d.set_upper(hi);
                    d.clone()
                }
                3 => {
                    let mut d = DiscreteUniform::new(hi, hi);
                    d.set_lower(lo);
                    d
                }
                4 => {
                    let wide = DiscreteUniform::new(lo.saturating_sub(1000), hi.saturating_add(1000) - 1);
                    let _ = wide.sample_n(2 * n + 7);
                    alea::set_seed(seed);
                    DiscreteUniform::new(lo, hi)
                }
                _ => DiscreteUniform::new(lo, hi),
            };
            let v = d.sample_n(n);
            Ok(ok(with_state(show_fs(&v))))
        }
        "uni" => {
            let (seed, lo, hi, n) = (t.u64()?, t.f64()?, t.f64()?, t.usize()?);
            t.end()?;
            alea::set_seed(seed);
            let v = Uniform::new(lo, hi).sample_n(n);
            Ok(ok(with_state(show_fs(&v))))
        }
        "boot" => {
            let (seed, nb) = (t.u64()?, t.usize()?);
            let d = t.vec()?;
            t.end()?;
            alea::set_seed(seed);
            let r = bootstrap(&d, nb);
            let flat: Vec<f64> = r.iter().flatten().copied().collect();
            let lens = join(r.iter().map(|v| v.len()));
            Ok(ok(with_state(format!("{} {} {}", r.len(), lens, show_fs(&flat)).trim_end().to_string())))
        }
        "jack" => {
            let d = t.vec()?;
            t.end()?;
            let r = jackknife(&d);
            let flat: Vec<f64> = r.iter().flatten().copied().collect();
            let lens = join(r.iter().map(|v| v.len()));
            Ok(ok(format!("{} {} {}", r.len(), lens, show_fs(&flat)).trim_end().to_string()))
        }
        "shuf" => {
            let seed = t.u64()?;
            let d = t.vec()?;
            t.end()?;
            alea::set_seed(seed);
            let r = shuffle(&d);
            Ok(ok(with_state(show_vec(&r))))
        }
        "shuf2" => {
            let seed = t.u64()?;
            let a = t.vec()?;
            let b = t.vec()?;
            t.end()?;
            alea::set_seed(seed);
            let (ra, rb) = shuffle_two(&a, &b);
            Ok(ok(with_state(format!("{} {}", show_vec(&ra), show_vec(&rb)))))
        }
        _ => Err(BadOp),
    }
}

fn main() {
    run((), step);
}
