"""C19 — resampling never invents, loses or unpairs data (bootstrap, jackknife, shuffle, shuffle_two),
on top of the exact model of the `alea` generator (`Model/Rng.lean`, ops `rng`, `du`, `uni`)."""
import math
from collections import Counter

from .common import Failure, f2h, h2f, parse_reply

ID = "C19"
BIN = "c19"
PROOF_MODULES = ["Compute.Lemmas.C19Rng", "Compute.Lemmas.C19Draws", "Compute.Lemmas.C19Resample", "Compute.Lemmas.C19Run",
                 "Compute.Props.C19", "Compute.Props.C19Run"]
REQUIRED_THEOREMS = [
    # unconditional
    "Cv.C19.jackknife_spec", "Cv.C19.length_one", "Cv.C19.shuffle_two_unequal",
    "Cv.C19.bootstrap_eq", "Cv.C19.shuffle_eq", "Cv.C19.shuffle_two_eq",
    "Cv.C19.bootstrap_isSome_iff", "Cv.C19.shuffle_isSome_iff", "Cv.C19.shuffle_two_isSome_iff",
    "Cv.C19.bootstrap_returns", "Cv.C19.shuffle_returns", "Cv.C19.shuffle_two_returns",
    "Cv.C19.bootstrap_none", "Cv.C19.shuffle_none", "Cv.C19.shuffle_two_none",
    "Cv.C19.idxDraw_eq_lemire", "Cv.C19.lemire_uniform", "Cv.C19.u64LessThan_accepts",
    "Cv.C19.u64LessThan_first_accepted", "Cv.C19.u64LessThan_of_first_accepted",
    "Cv.C19.f64_range", "Cv.C19.u64LessThan_lt", "Cv.C19.i64InRange_range", "Cv.C19.u64LessThan_fuel_irrelevant",
    # whenever the call returns (termination of the rejection loop is not proved)
    "Cv.C19.bootstrap_spec_partial", "Cv.C19.shuffle_perm_partial", "Cv.C19.shuffle_two_pairs_partial",
    "Cv.C19.bootstrap_draw_law", "Cv.C19.shuffle_draw_law", "Cv.C19.bootstrap_draws",
]
RULE = ("per RNG seed (100 quick / 10^4 thorough): bootstrap (length 1..2000, 1..200 resamples), jackknife, shuffle, "
        "shuffle_two on distinct / repeated / constant / special-value data (NaN, ±inf, ±0, subnormal), plus raw generator "
        "draws (u64, f64, Lemire bounded draws with rejection-heavy bounds, inclusive ranges with overflow panics), "
        "DiscreteUniform / Uniform sample_n; every reply carries the generator state after the call; deterministic strata: "
        "every function at lengths 1,2,3, 2^k-1, 2^k, 2^k+1, multiples of 512 +-1 up to 2000; lengths 2..11 with 199/200 resamples; "
        "len x n_bootstrap just below/at/above 65536; long-then-short call sequences; arrays with both zeros against distinct "
        "partners; DiscreteUniform through default+update / setters / clone; "
        "non-trivial = distinct (op, length, resamples, data kind, seed class)")
EXHAUSTIVE = {"quick": False, "thorough": False}
NOT_PROVED = [
    "termination of Lemire's rejection loop for every generator state: bootstrap_spec_partial, shuffle_perm_partial and "
    "shuffle_two_pairs_partial hold whenever the call returns; what IS proved towards totality: each function equals a "
    "sequence of its own index draws followed by a total post-processing (bootstrap_eq, shuffle_eq, shuffle_two_eq), returns "
    "iff those draws return (…_isSome_iff, …_returns), and a non-returning call has a draw of its own run at which the loop "
    "ran out of fuel (…_none); fuel 64 is never exhausted in the correspondence runs, and runs on lengths 3 and 5 are "
    "evaluated in the kernel",
    "equal likelihood: proved per draw as two exact facts (every drawn index is u64_less_than(n) at the run's state at that "
    "draw and equals mulHi of the FIRST accepted word of the generator's stream from that state; each value has exactly "
    "floor(2^64/n) accepted raw 64-bit words); the step from these to a uniform law for an ideal iid-uniform word source is the "
    "standard rejection-sampling argument and is not formalised (no probability space), and that wyrand's words are uniform and "
    "independent is not a mathematical fact and is only searched (DKW band and boundary-cell bounds on bootstrap draws)",
    "only jackknife is regenerated from the Rust source; bootstrap, shuffle, shuffle_two, DiscreteUniform::sample and the alea "
    "functions are hand-written models tied by bit-exact differential execution (values and generator state)",
]
TRUSTED = [
    "alea 0.2.2 as vendored in ~/.cargo/registry (the model follows its source; tie is bit-exact including the final state)",
    "executor built with overflow-checks = true (i64/u64 range overflow panics are modelled as panics)",
]
ASSUMPTIONS = ["data length < 2^53 (index round trip i64 -> f64 -> usize is exact)"]
# statistical budget per case: DKW 9e-13 + six frequency cells at 1e-14 each  <= 1e-12
ALPHA = 9e-13
CELL_ALPHA = 1e-14      # per-line first/last-slot and first/last-index frequency cells (Chernoff–Hoeffding KL bound)
POOL_ALPHA = 1e-14      # the same cells pooled over all bootstrap lines of a run (per pooled statistic)
MODEL_TIMEOUT = 1800
IMPL_TIMEOUT = 900

SPECIAL = [float("nan"), float("inf"), float("-inf"), 0.0, -0.0, 5e-324, -5e-324, 1.7976931348623157e308,
           2.2250738585072014e-308, 1.0, -1.0]
KINDS = ["distinct", "repeated", "constant", "special", "normal", "exact", "zeros"]
EXACT = ([float(i) for i in range(-3, 4)] + [0.5, -0.5, 1.5, 2.5, 1 / 3, 2 / 3, -0.0, 1e-300, 1e300, 2.0 ** 500, 2.0 ** -500,
          -2.0 ** 500, 5e-324] + [2.0 ** k for k in (-1, 1, 10, 52, 53)]
         + [math.nextafter(2.0 ** k, s) for k in (0, 1, 10, 53) for s in (0.0, math.inf)])


def mkdata(rng, n, kind):
    if kind == "distinct":
        base = rng.randint(-1000, 1000)
        xs = [float(base + i) + rng.randint(0, 15) / 16.0 for i in range(n)]
        return rng.shuffle(xs)
    if kind == "repeated":
        pool = [float(rng.randint(-3, 3)) for _ in range(rng.randint(1, 5))]
        return [rng.choice(pool) for _ in range(n)]
    if kind == "constant":
        c = rng.choice([0.0, -0.0, 1.5, float("nan"), float("inf")])
        return [c] * n
    if kind == "exact":
        return [rng.choice(EXACT) if rng.chance(0.7) else rng.normal() for _ in range(n)]
    if kind == "zeros":  # both signs of zero present (== compares them equal, the bit patterns differ)
        xs = [rng.choice([0.0, -0.0]) if rng.chance(0.8) else rng.choice([1.0, -1.0, float("nan")]) for _ in range(n)]
        if n >= 2:
            xs[rng.randint(0, n - 1)] = 0.0
            j = rng.randint(0, n - 1)
            xs[j] = -0.0 if xs[j] != 0.0 or math.copysign(1.0, xs[j]) > 0 else xs[j]
        return xs
    if kind == "special":
        return [rng.choice(SPECIAL) if rng.chance(0.5) else rng.normal() for _ in range(n)]
    return [rng.normal() * 10.0 ** rng.randint(-3, 3) for _ in range(n)]


def vecs(xs):
    return "0" if not xs else "%d %s" % (len(xs), " ".join(f2h(x) for x in xs))


def model_line(line):
    t = line.split()
    if t[0] == "dur":  # peripheral routes share the model of the direct route
        return " ".join(["du"] + t[2:])
    return line


def corpus():
    one = vecs([2.5])
    two = vecs([1.0, 2.0])
    return [
        # F22 (fixed): length-1 input used to panic inside alea::i64_in_range(0, 0)
        "boot 1 3 " + one, "jack " + one, "shuf 1 " + one, "shuf2 1 %s %s" % (one, vecs([-7.0])),
        "du 7 0 0 5", "du 7 -3 -3 2",
        "jack " + two, "jack " + vecs([1.0, 2.0, 3.0]), "boot 5 200 " + vecs([1.0, 2.0, 3.0]),
        "shuf2 9 %s %s" % (vecs([0.0, -0.0, 0.0, -0.0, 1.0]), vecs([1.0, 2.0, 3.0, 4.0, 5.0])),
        "shuf 9 " + vecs([0.0, -0.0, -0.0, 0.0]),
        # round-10 seed C19v: len == n_bootstrap at/above a product threshold (neither "longer axis" branch ran)
        "boot 10 128 " + vecs([float(i) + 0.25 for i in range(128)]),
        "boot 11 150 " + vecs([float(i) - 0.5 for i in range(150)]),
        # length 0 is outside the property (panics), unequal lengths panic
        "boot 1 2 0", "jack 0", "shuf 1 0", "shuf2 1 0 0", "shuf2 1 %s %s" % (two, one),
        # generator: rejection-heavy Lemire bound, overflow panics, asserts
        "rng u64lt 3 9223372036854775809 200", "rng u64lt 3 0 3", "rng i64rg 3 -9223372036854775808 9223372036854775807 1",
        "rng i64rg 3 -9223372036854775808 -2 50", "rng u64rg 3 0 18446744073709551615 1", "rng u64rg 3 5 5 1",
        "rng f64 0 50", "rng u64 18446744073709551615 50",
    ]


def pick_n(rng, cap):
    r = rng.random()
    if r < 0.15:
        return rng.randint(1, 5)
    if r < 0.25:
        return min(cap, rng.choice([7, 8, 16, 31, 32, 33, 64, 100, 255, 256, 1000, 1999, 2000]))
    return max(1, min(cap, int(round(rng.loguniform(1, 2000)))))


SIZES = sorted({1, 2, 3, 4, 5, 7, 8, 9, 15, 16, 17, 24, 31, 32, 33, 63, 64, 65, 127, 128, 129, 255, 256, 257, 511, 512, 513,
                1023, 1024, 1025, 1535, 1536, 1537, 1999, 2000})


def coincidence_pairs():
    """(len, n_bootstrap) pairs: equal arguments, off by one, products at 2^k and 2^k +- 1 (k = 10..16) with both
    orientations where the scope (len <= 2000, n_bootstrap <= 200) allows, and the degenerate (len, 1), (1, n)."""
    pairs = []
    for n in (1, 2, 7, 64, 100, 127, 128, 129, 150, 181, 200):
        pairs.append((n, n))
        if n + 1 <= 200:
            pairs.append((n, n + 1))
        if n >= 2:
            pairs.append((n, n - 1))
        if n + 1 <= 2000:
            pairs.append((n + 1, n))
    for k in range(10, 17):
        for P in ((1 << k) - 1, 1 << k, (1 << k) + 1):
            facs = [(P // nb, nb) for nb in range(1, 201) if P % nb == 0 and P // nb <= 2000]
            if not facs:  # prime or out of scope: nearest product from below with a long and a short orientation
                facs = [(P // nb, nb) for nb in (200, 33) if P // nb <= 2000]
            long_ = [f for f in facs if f[0] > f[1]]
            short = [f for f in facs if f[0] < f[1]]
            eq = [f for f in facs if f[0] == f[1]]
            for group in (long_, short, eq):
                if group:
                    pairs.append(group[len(group) // 2])
                    if group[-1] != group[len(group) // 2]:
                        pairs.append(group[-1])
    for n in (2, 17, 128, 2000):
        pairs.append((n, 1))
    for nb in (2, 17, 128, 200):
        pairs.append((1, nb))
    seen, out = set(), []
    for q in pairs:
        if q not in seen and 1 <= q[0] <= 2000 and 1 <= q[1] <= 200:
            seen.add(q)
            out.append(q)
    return out


def strata(rng, lines, cover, rep):
    """Deterministic strata (GENERIC_STRATA pass): length boundaries incl. 2^k+1 (range width a power of two), small odd/even
    lengths with 200 resamples (per-slot and end-point frequencies have power there), len x n_bootstrap around 65536 with
    requests that are no multiple of a batch, long input followed by short input on the same thread for every function,
    length 1/2/3 for every function, both zeros in paired arrays, exact special values, peripheral DiscreteUniform routes."""
    sd = lambda: rng.u64()
    dist = lambda n: mkdata(rng, n, "distinct")
    # 1. length boundaries for every function (rotating through the size list across repetitions for the costly ones)
    for j, n in enumerate(SIZES):
        kind = KINDS[(j + rep) % len(KINDS)]
        nb = max(1, min(200, 6000 // n))
        lines.append("boot %d %d %s" % (sd(), nb, vecs(mkdata(rng, n, "distinct" if j % 2 == 0 else kind))))
        lines.append("shuf %d %s" % (sd(), vecs(mkdata(rng, n, kind))))
        k2 = KINDS[(j + rep + 3) % len(KINDS)]
        lines.append("shuf2 %d %s %s" % (sd(), vecs(mkdata(rng, n, kind)), vecs(mkdata(rng, n, k2))))
        if n <= 130 or (j + rep) % 12 == 0 and n <= 600:
            lines.append("jack " + vecs(mkdata(rng, n, kind)))
        lines.append("du %d %d %d %d" % (sd(), 0, n - 1, 101 if j % 2 else 100))   # width n-1: 2^k for n = 2^k+1
        cover["strata:size"] += 1
    # 2. small lengths, many resamples: per-slot (first/last slot) and end-point frequencies
    for n in (2, 3, 4, 5, 6, 7, 9, 11):
        lines.append("boot %d 200 %s" % (sd(), vecs(dist(n))))
        lines.append("boot %d 199 %s" % (sd(), vecs(mkdata(rng, n, "repeated" if n % 2 else "exact"))))
        cover["strata:small-n-200"] += 2
    # 3. len x n_bootstrap around 65536 (just below, at, just above; requests that are not a multiple of 65536 // len)
    for n, nb in ((2000, 32), (2000, 33), (1999, 33), (1024, 64), (1024, 65), (1025, 64), (513, 128), (512, 129),
                  (400, 165), (331, 199), (329, 200), (2000, 47)):
        if rep % 2 == 0 or (n, nb) in ((2000, 33), (1025, 64), (512, 129), (331, 199)):
            lines.append("boot %d %d %s" % (sd(), nb, vecs(mkdata(rng, n, rng.choice(["distinct", "normal", "exact"])))))
            cover["strata:65536"] += 1
    # 4. long input then short input on the same thread, same seed (stale scratch state), for every function
    for big, small in ((2000, 3), (1024, 1), (257, 2), (1500, 7)):
        s1 = sd()
        lines.append("boot %d 3 %s" % (s1, vecs(dist(big))))
        lines.append("boot %d 5 %s" % (s1, vecs(dist(small))))
        lines.append("shuf %d %s" % (s1, vecs(dist(big))))
        lines.append("shuf %d %s" % (s1, vecs(dist(small))))
        lines.append("shuf2 %d %s %s" % (s1, vecs(dist(big)), vecs(dist(big))))
        lines.append("shuf2 %d %s %s" % (s1, vecs(dist(small)), vecs(dist(small))))
        lines.append("jack " + vecs(dist(min(big, 300))))
        lines.append("jack " + vecs(dist(small)))
        lines.append("du %d 0 %d %d" % (s1, big - 1, big))
        lines.append("du %d 0 %d %d" % (s1, max(small - 1, 0), small))
        cover["strata:long-then-short"] += 1
    # 5. both zeros / ties in one array, distinct partner (a skipped swap of "equal" entries unpairs)
    for n in (2, 3, 8, 33, 200):
        z = mkdata(rng, n, "zeros")
        lines.append("shuf2 %d %s %s" % (sd(), vecs(z), vecs(dist(n))))
        lines.append("shuf2 %d %s %s" % (sd(), vecs(dist(n)), vecs(z)))
        lines.append("shuf2 %d %s %s" % (sd(), vecs(mkdata(rng, n, "repeated")), vecs(dist(n))))
        lines.append("shuf %d %s" % (sd(), vecs(z)))
        cover["strata:zeros"] += 1
    # 7. argument coincidences and product thresholds (round-10 seed C19v): len == n_bootstrap, +-1, len * n_bootstrap at
    #    2^k, 2^k +- 1; shuffle_two with both slices of length 1, 2 and with equal contents; ties inside one array
    pairs = coincidence_pairs()
    for q, (n, nb) in enumerate(pairs):
        big = n * nb > 20000
        if rep == 0 or not big or (q + rep) % 6 == 0:     # thorough repeats the large ones in rotation only
            lines.append("boot %d %d %s" % (sd(), nb, vecs(mkdata(rng, n, "distinct" if q % 3 else rng.choice(KINDS)))))
            cover["strata:coincidence-boot"] += 1
    for n in (1, 2, 3, 128):
        a = dist(n)
        lines.append("shuf2 %d %s %s" % (sd(), vecs(a), vecs(a)))                 # equal contents
        lines.append("shuf2 %d %s %s" % (sd(), vecs(a), vecs(list(reversed(a)))))
        lines.append("shuf2 %d %s %s" % (sd(), vecs([1.5] * n), vecs([1.5] * n)))
        lines.append("shuf %d %s" % (sd(), vecs([a[0]] * n)))
        lines.append("jack " + vecs([a[0]] * n))
        cover["strata:coincidence-other"] += 1
    # 6. peripheral routes of DiscreteUniform (default+update, setters, clone, long sample_n first)
    for route in (1, 2, 3, 4):
        for lo, hi in ((0, 0), (0, 1), (0, 2), (-3, 4), (0, 16), (0, 1999), (5, 4), (-7, -7), (0, 255), (0, 256)):
            lines.append("dur %d %d %d %d %d" % (route, sd(), lo, hi, rng.choice([1, 2, 7, 64, 101])))
            cover["strata:du-route"] += 1


def gen(rng, tier):
    lines = []
    cover = Counter()
    for rep in range(1 if tier == "quick" else 12):
        strata(rng, lines, cover, rep)
    nseeds = 100 if tier == "quick" else 10000
    # budgets (tokens per request) keep quick under a minute and thorough under 15 minutes
    boot_budget = 60000 if tier == "quick" else 6000
    jack_cap = 400 if tier == "quick" else 80
    big_every = 50 if tier == "quick" else 500      # one full-size bootstrap (≈2000 x 200) per that many seeds
    jack_big = {49: (800, 1000)} if tier == "quick" else {999: (1800, 2000), 5999: (1990, 2000)}
    for k in range(nseeds):
        seed = rng.u64() if k % 4 else rng.choice([0, 1, 2, (1 << 64) - 1, 1 << 63, k])
        big = (k % big_every == big_every - 1)
        # bootstrap
        n = pick_n(rng, 2000)
        nb = max(1, min(200, int(round(rng.loguniform(1, 200)))))
        if big:
            n, nb = rng.randint(1500, 2000), rng.randint(150, 200)
        elif n * nb > boot_budget:
            nb = max(1, boot_budget // n)
        kind = rng.choice(KINDS)
        lines.append("boot %d %d %s" % (seed, nb, vecs(mkdata(rng, n, kind))))
        cover["boot:" + kind] += 1
        cover["boot:n=1"] += (n == 1)
        cover["boot:n>=1000"] += (n >= 1000)
        # jackknife
        n = rng.randint(*jack_big[k]) if k in jack_big else pick_n(rng, jack_cap)
        kind = rng.choice(KINDS)
        lines.append("jack " + vecs(mkdata(rng, n, kind)))
        cover["jack:" + kind] += 1
        cover["jack:n>=1000"] += (n >= 1000)
        # shuffle
        n = pick_n(rng, 2000)
        kind = rng.choice(KINDS)
        lines.append("shuf %d %s" % (seed, vecs(mkdata(rng, n, kind))))
        cover["shuf:" + kind] += 1
        cover["shuf:n=1"] += (n == 1)
        # shuffle_two
        n = pick_n(rng, 2000)
        k1, k2 = rng.choice(KINDS), rng.choice(KINDS)
        a, b = mkdata(rng, n, k1), mkdata(rng, n, k2)
        if rng.chance(0.03):
            b = b[:-1] if rng.chance(0.5) else b + [1.0]
            cover["shuf2:unequal"] += 1
        lines.append("shuf2 %d %s %s" % (seed, vecs(a), vecs(b)))
        cover["shuf2:%s/%s" % (k1, k2)] += 1
        # generator and samplers (every 2nd seed in thorough to bound the volume)
        if tier == "quick" or k % 2 == 0:
            cnt = 200
            m = rng.choice([1, 2, 3, 6, 2000, 1 << 32, (1 << 63) + 1, (1 << 63) + (1 << 62), (1 << 64) - 1,
                            rng.u64(), rng.u64() >> rng.randint(0, 63)])
            lines.append("rng u64lt %d %d %d" % (seed, m, cnt))
            cover["u64lt:rejection-heavy"] += (m > (1 << 62))
            lo = rng.randint(0, 1 << 63) - (1 << 63)
            hi = rng.choice([lo, lo + 1, lo + rng.randint(1, 3000), rng.randint(0, 1 << 63) - (1 << 63), (1 << 63) - 1,
                             lo + (1 << 63) - 1, lo + (1 << 63)])
            hi = max(-(1 << 63), min((1 << 63) - 1, hi))
            lines.append("rng i64rg %d %d %d %d" % (seed, lo, hi, cnt))
            cover["i64rg:" + ("assert" if hi <= lo else "overflow" if hi + 1 - lo >= (1 << 63) or hi == (1 << 63) - 1 else "ok")] += 1
            a = rng.randint(0, 1 << 64) % (1 << 64)
            b = rng.choice([a, a + rng.randint(1, 100), rng.u64(), (1 << 64) - 1, (1 << 64) - 2]) % (1 << 64)
            lines.append("rng u64rg %d %d %d %d" % (seed, a, b, cnt))
            kindr = rng.choice(["u64", "u32", "i64", "i32", "f64"])
            lines.append("rng %s %d %d" % (kindr, seed, cnt))
            mx = rng.choice([1.0, rng.normal(), rng.loguniform(1e-300, 1e300), float("inf"), 0.0, float("nan")])
            lines.append("rng f64lt %d %s %d" % (seed, f2h(mx), 50))
            fa, fb = sorted([rng.normal() * 10.0 ** rng.randint(-5, 5), rng.normal() * 10.0 ** rng.randint(-5, 5)])
            if rng.chance(0.1):
                fa, fb = fb, fa
            lines.append("rng f64rg %d %s %s %d" % (seed, f2h(fa), f2h(fb), 50))
            dlo = rng.randint(-2000, 2000)
            dhi = dlo + rng.choice([0, 0, 1, rng.randint(1, 2000), -1])
            if rng.chance(0.05):
                dlo, dhi = rng.randint(0, 1 << 62), rng.randint(1 << 62, (1 << 63) - 2)
            lines.append("du %d %d %d %d" % (seed, dlo, dhi, 100))
            cover["du:" + ("equal" if dlo == dhi else "panic" if dlo > dhi else "ok")] += 1
            lines.append("uni %d %s %s %d" % (seed, f2h(fa), f2h(fb), 50))
    return lines, dict(cover)


def nontrivial(line, reply):
    t = line.split()
    if reply.startswith("#"):
        return None
    return " ".join(t[:4])[:80] if t[0] in ("rng", "du", "dur", "uni") else "%s %s %s" % (t[0], t[1], t[2] if len(t) > 2 else "")


def read_vec(t, i):
    n = int(t[i])
    return t[i + 1:i + 1 + n], i + 1 + n


def dkw_eps(N):
    return math.sqrt(math.log(2.0 / ALPHA) / (2.0 * N))


def kl_tail(T, mu, x):
    """Chernoff–Hoeffding: for a sum X of T independent [0,1] variables with E X = mu,
    P(X <= x) (x < mu) resp. P(X >= x) (x > mu) <= exp(-T KL(x/T || mu/T)).  Returns that bound (1.0 if x == mu)."""
    if T == 0 or mu <= 0 or mu >= T:
        return 1.0 if x == mu else 0.0   # deterministic sum: any deviation is impossible under the law
    a, p = x / T, mu / T
    kl = 0.0
    if a > 0:
        kl += a * math.log(a / p)
    if a < 1:
        kl += (1 - a) * math.log((1 - a) / (1 - p))
    return math.exp(-T * kl) if kl > 0 else 1.0


CELLS = ("all-slots/first-elem", "all-slots/last-elem", "first-slot/first-elem", "first-slot/last-elem",
         "last-slot/first-elem", "last-slot/last-elem")


def i64s(x):
    return x - (1 << 64) if x >= (1 << 63) else x


def oracle(lines, impl):
    """The property, decided on the implementation's replies at token level (a float is its 16-hex-digit
    token; all NaNs are the one token `nan`, so multisets with NaN are well defined)."""
    fails = []
    pool = {}   # (cell, parity of n) -> [T, mu, X, worst line, worst bound]

    def bad(i, key, msg, exp=None):
        fails.append(Failure(i, key, msg, exp))

    for i, (l, rep) in enumerate(zip(lines, impl)):
        t = l.split()
        op = t[0]
        st, r = parse_reply(rep)
        if st == "skip":
            continue
        if st not in ("ok", "panic"):
            bad(i, op + ":no-reply", "executor did not answer: %s" % rep[:80])
            continue
        if op == "boot":
            nb = int(t[2])
            d, _ = read_vec(t, 3)
            n = len(d)
            if n == 0:
                continue
            key = "boot:n=%d" % n if n == 1 else "boot"
            if st != "ok":
                bad(i, key + ":panic", "bootstrap of %d elements, %d resamples: panic instead of a value" % (n, nb))
                continue
            if int(r[0]) != nb:
                bad(i, key + ":count", "%s resamples returned, %d requested" % (r[0], nb), str(nb))
                continue
            lens = r[1:1 + nb]
            if any(int(x) != n for x in lens):
                bad(i, key + ":length", "a resample has length %s, original length %d" % ([x for x in lens if int(x) != n][0], n))
                continue
            out = r[1 + nb:-1]
            if len(out) != n * nb:
                bad(i, key + ":length", "%d elements in total, expected %d" % (len(out), n * nb))
                continue
            mult = Counter(d)
            alien = [x for x in out if x not in mult]
            if alien:
                bad(i, key + ":membership", "resample contains %s which is not an element of the data" % alien[0])
                continue
            # every position equally likely: the drawn values are iid from the empirical law of `data`;
            # DKW–Massart: P(sup|F_N - F| > eps) <= 2 exp(-2 N eps^2) = ALPHA for any law (ranks by first occurrence)
            N = n * nb
            eps = dkw_eps(N)
            if eps < 1.0:
                rank = {}
                for x in d:
                    if x not in rank:
                        rank[x] = len(rank)
                cnt = Counter(out)
                order = sorted(rank, key=rank.get)
                sup = 0.0
                cm = ce = 0
                for x in order:
                    cm += mult[x]
                    ce += cnt.get(x, 0)
                    sup = max(sup, abs(ce / N - cm / n))
                if sup > eps:
                    bad(i, "boot:uniformity", "index frequencies deviate from the uniform law: sup|F_N-F| = %.4g > DKW band %.4g "
                        "(N=%d draws, alpha=%g)" % (sup, eps, N, ALPHA))
            # boundary indices and boundary slots separately (the sup-norm band above is blind to a defect that
            # only touches the first/last index or the last slot of each resample once n is not tiny)
            if n >= 2:
                pf, pl = mult[d[0]] / n, mult[d[-1]] / n
                firsts = [out[q * n] for q in range(nb)]
                lasts = [out[q * n + n - 1] for q in range(nb)]
                cnt = Counter(out)
                obs = ((N, pf, cnt.get(d[0], 0)), (N, pl, cnt.get(d[-1], 0)),
                       (nb, pf, firsts.count(d[0])), (nb, pl, firsts.count(d[-1])),
                       (nb, pf, lasts.count(d[0])), (nb, pl, lasts.count(d[-1])))
                for cname, (T, p, x) in zip(CELLS, obs):
                    b = kl_tail(T, T * p, x)
                    if b < CELL_ALPHA:
                        bad(i, "boot:slot-frequency" if "all" not in cname else "boot:endpoint-frequency",
                            "cell %s: observed %d of %d draws, expected %.1f (tail bound %.3g < %g); n=%d, %d resamples"
                            % (cname, x, T, T * p, b, CELL_ALPHA, n, nb))
                        break
                    st_ = pool.setdefault((cname, n % 2), [0, 0.0, 0, i, 2.0])
                    st_[0] += T
                    st_[1] += T * p
                    st_[2] += x
                    if b < st_[4]:
                        st_[3], st_[4] = i, b
        elif op == "jack":
            d, _ = read_vec(t, 1)
            n = len(d)
            if n == 0:
                continue
            key = "jack:n=1" if n == 1 else "jack"
            if st != "ok":
                bad(i, key + ":panic", "jackknife of %d elements: panic instead of a value" % n)
                continue
            if int(r[0]) != n or any(int(x) != n - 1 for x in r[1:1 + n]):
                bad(i, key + ":shape", "jackknife of %d elements returned %s vectors of lengths %s…" % (n, r[0], r[1:4]))
                continue
            out = r[1 + n:]
            if len(out) != n * (n - 1):
                bad(i, key + ":shape", "%d elements in total, expected %d" % (len(out), n * (n - 1)))
                continue
            for j in range(n):
                exp = d[:j] + d[j + 1:]
                if out[j * (n - 1):(j + 1) * (n - 1)] != exp:
                    bad(i, key + ":exact", "leave-one-out vector %d is not the data without element %d" % (j, j), " ".join(exp[:20]))
                    break
        elif op == "shuf":
            d, _ = read_vec(t, 2)
            n = len(d)
            if n == 0:
                continue
            key = "shuf:n=1" if n == 1 else "shuf"
            if st != "ok":
                bad(i, key + ":panic", "shuffle of %d elements: panic instead of a value" % n)
                continue
            out, _ = read_vec(r, 0)
            if len(out) != n or len(r) != n + 2:
                bad(i, key + ":length", "shuffle of %d elements returned %s" % (n, r[0]))
            elif Counter(out) != Counter(d):
                diff = (Counter(out) - Counter(d)) + (Counter(d) - Counter(out))
                bad(i, key + ":multiset", "shuffle changed the multiset of elements (e.g. %s)" % list(diff)[0])
        elif op == "shuf2":
            a, j = read_vec(t, 2)
            b, _ = read_vec(t, j)
            if len(a) != len(b) or len(a) == 0:
                continue
            n = len(a)
            key = "shuf2:n=1" if n == 1 else "shuf2"
            if st != "ok":
                bad(i, key + ":panic", "shuffle_two of %d pairs: panic instead of a value" % n)
                continue
            ra, j = read_vec(r, 0)
            rb, j = read_vec(r, j)
            if len(ra) != n or len(rb) != n or j != len(r) - 1:
                bad(i, key + ":length", "shuffle_two of %d pairs returned lengths %d, %d" % (n, len(ra), len(rb)))
            elif Counter(zip(ra, rb)) != Counter(zip(a, b)):
                if Counter(ra) != Counter(a) or Counter(rb) != Counter(b):
                    bad(i, key + ":multiset", "shuffle_two changed the multiset of an array")
                else:
                    bad(i, key + ":pairing", "shuffle_two broke the pairing: the two arrays were not permuted by one common permutation")
        elif op in ("du", "dur"):
            if op == "dur":
                t = ["du"] + t[2:]
            lo, hi, cnt = int(t[2]), int(t[3]), int(t[4])
            if lo > hi:
                continue
            if hi == (1 << 63) - 1 or hi + 1 - lo >= (1 << 63):
                if lo != hi:
                    continue  # span overflows i64: panics (outside C19)
            if st != "ok":
                bad(i, "du:panic" if lo != hi else "du:equal-bounds", "DiscreteUniform(%d,%d).sample_n panicked" % (lo, hi))
                continue
            vals = [h2f(x) for x in r[:-1]]
            if len(vals) != cnt or any(not (lo <= v <= hi and v == math.floor(v)) for v in vals):
                bad(i, "du:range", "DiscreteUniform(%d,%d) sample outside the range / not an integer / wrong count" % (lo, hi))
        elif op == "rng" and st == "ok":
            kind = t[1]
            if kind == "f64":
                if any(not (0.0 <= h2f(x) < 1.0) for x in r[:-1]):
                    bad(i, "rng:f64-range", "alea::f64() outside [0,1)")
            elif kind == "u64lt":
                m = int(t[3])
                if any(not (int(x) < max(m, 1)) for x in r[:-1]):
                    bad(i, "rng:u64lt-range", "u64_less_than(%d) returned a value >= max" % m)
            elif kind == "i64rg":
                lo, hi = int(t[3]), int(t[4])
                if any(not (lo <= int(x) <= hi) for x in r[:-1]):
                    bad(i, "rng:i64rg-range", "i64_in_range(%d,%d) returned a value outside the range" % (lo, hi))
            elif kind == "u64rg":
                lo, hi = int(t[3]), int(t[4])
                if any(not (lo <= int(x) <= hi) for x in r[:-1]):
                    bad(i, "rng:u64rg-range", "u64_in_range(%d,%d) returned a value outside the range" % (lo, hi))
    # pooled boundary cells over all bootstrap lines of the run (independent draws, heterogeneous probabilities)
    for (cname, par), (T, mu, X, wi, wb) in sorted(pool.items()):
        b = kl_tail(T, mu, X)
        if b < POOL_ALPHA:
            bad(wi, "boot:slot-frequency" if "all" not in cname else "boot:endpoint-frequency",
                "pooled over all bootstrap lines with %s length, cell %s: observed %d of %d draws, expected %.1f "
                "(tail bound %.3g < %g); most deviant single line attached" % ("odd" if par else "even", cname, X, T, mu, b, POOL_ALPHA))
    return fails

# --- source tie, in-place mutation / nested loops / decision trees (tools/rs2lean.py mut=True: regenerated from /repo/src into
# Generated/SrcC19Mut.lean and proved equal to the hand model in Props/SrcTieC19Mut.lean)
from . import srctie
srctie.wire_mut(globals(), 'C19')
