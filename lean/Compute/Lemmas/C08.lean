import Mathlib.Tactic.Ring
import Mathlib.Tactic.FieldSimp
import Mathlib.Tactic.Linarith
import Mathlib.Algebra.BigOperators.Group.List.Basic
import Mathlib.Algebra.Order.Field.Basic
import Compute.Model.Stats
/-
Helper lemmas for C08: textbook definitions (`mu`, `m2`, `comoment`) over a field of characteristic
zero, the unrolled `sum8` equals `List.sum`, raw-moment expansions, fold invariants.
-/
namespace Cv.C08
open Cv

section Spec
variable {α : Type} [Field α]

/-- Arithmetic mean `Σ l / |l|` (`0` for the empty list, as `x / 0 = 0` in Lean fields). -/
def mu (l : List α) : α := l.sum / (l.length : α)

/-- Sum of squared deviations from the mean, `Σ (x - mean)²`. -/
def m2 (l : List α) : α := (l.map fun x => (x - mu l) ^ 2).sum

/-- Sum of products of deviations `Σ (xᵢ - x̄)(yᵢ - ȳ)` over paired data. -/
def comoment (x y : List α) : α := ((List.zip x y).map fun p => (p.1 - mu x) * (p.2 - mu y)).sum

end Spec

section Sums
variable {α : Type} [Field α]

theorem foldl_add_eq (s : α) (l : List α) : l.foldl (· + ·) s = s + l.sum := by
  induction l generalizing s with
  | nil => simp
  | cons a t ih => simp only [List.foldl_cons, List.sum_cons, ih]; ring

theorem sum8Go_eq (s : α) (l : List α) : sum8Go s l = s + l.sum := by
  fun_induction sum8Go s l with
  | case1 s x0 x1 x2 x3 x4 x5 x6 x7 rest ih =>
    rw [ih]; simp only [List.sum_cons]; ring
  | case2 s rest _ => exact foldl_add_eq s rest

/-- The 8-way unrolled `utils::sum` is the plain sum. -/
theorem sum8_eq (l : List α) : sum8 l = l.sum := by
  simp [sum8, sum8Go_eq]

/-- `Iterator::sum` (seeded with `-0`) is the plain sum. -/
theorem iterSum_eq (l : List α) : iterSum l = l.sum := by
  simp [iterSum, foldl_add_eq]

theorem sum_map_sub_const (l : List α) (c : α) :
    (l.map fun x => x - c).sum = l.sum - l.length * c := by
  induction l with
  | nil => simp
  | cons a t ih => simp only [List.map_cons, List.sum_cons, List.length_cons, ih]; push_cast; ring

theorem sum_map_add_const (l : List α) (c : α) :
    (l.map fun x => x + c).sum = l.sum + l.length * c := by
  induction l with
  | nil => simp
  | cons a t ih => simp only [List.map_cons, List.sum_cons, List.length_cons, ih]; push_cast; ring

theorem sum_map_mul_left (l : List α) (c : α) : (l.map fun x => c * x).sum = c * l.sum := by
  induction l with
  | nil => simp
  | cons a t ih => simp only [List.map_cons, List.sum_cons, ih]; ring

/-- Expansion of a shifted co-moment in raw sums. -/
theorem sum_shifted_prod (P : List (α × α)) (a b : α) :
    (P.map fun p => (p.1 - a) * (p.2 - b)).sum
      = (P.map fun p => p.1 * p.2).sum - b * (P.map Prod.fst).sum - a * (P.map Prod.snd).sum
        + P.length * a * b := by
  induction P with
  | nil => simp
  | cons p t ih => simp only [List.map_cons, List.sum_cons, List.length_cons, ih]; push_cast; ring

omit [Field α] in
theorem zip_self_map {β : Type} (l : List α) (f : α × α → β) :
    (List.zip l l).map f = l.map fun x => f (x, x) := by
  induction l with
  | nil => simp
  | cons a t ih => simp [ih]

end Sums

section Moments
variable {α : Type} [Field α] [CharZero α]

theorem natCast_ne_zero_of_pos {n : ℕ} (h : 0 < n) : (n : α) ≠ 0 := by
  exact_mod_cast (Nat.pos_iff_ne_zero.mp h)

/-- Raw-moment form of the co-moment: `Σ(x-x̄)(y-ȳ) = Σxy − Σx Σy / n`. -/
theorem comoment_raw (x y : List α) (h : x.length = y.length) :
    comoment x y = ((List.zip x y).map fun p => p.1 * p.2).sum - x.sum * y.sum / (x.length : α) := by
  unfold comoment
  rw [sum_shifted_prod, List.map_fst_zip (by omega), List.map_snd_zip (by omega)]
  have hl : (List.zip x y).length = x.length := by simp [h]
  rw [hl]
  unfold mu
  rw [← h]
  by_cases hn : x.length = 0
  · have hx : x = [] := List.eq_nil_of_length_eq_zero hn
    have hy : y = [] := List.eq_nil_of_length_eq_zero (by omega)
    subst hx hy; simp
  · have : (x.length : α) ≠ 0 := by exact_mod_cast hn
    field_simp
    ring

omit [CharZero α] in
theorem m2_eq_comoment (l : List α) : m2 l = comoment l l := by
  unfold m2 comoment
  rw [zip_self_map]
  congr 1
  apply List.map_congr_left
  intro a _
  ring

/-- Raw-moment form of `m2`: `Σ(x-x̄)² = Σx² − (Σx)²/n`. -/
theorem m2_raw (l : List α) :
    m2 l = (l.map fun x => x * x).sum - l.sum * l.sum / (l.length : α) := by
  rw [m2_eq_comoment, comoment_raw l l rfl, zip_self_map]

end Moments

end Cv.C08
