import Compute.Props.Rounding
import Compute.Model.VecOps
import Mathlib.Analysis.Real.Sqrt
/-
Worst-case rounding-error analysis of `utils::norm` (`VecOps.normL`: `dot(x, x).sqrt()`) and
`utils::inf_norm` (`VecOps.infNormL`) in the standard model.

The scalar type `Fl M` gets (as *scoped* instances of this namespace, so that nothing leaks into other
files) an exact order, and a `Transc` structure whose `sqrt` is any function with relative error `≤ u`
on the non-negative reals (class `SqrtStd`; IEEE-754 `sqrt` is correctly rounded, which is the instance
`SqrtStd.ofRnd`) and whose `abs` is exact.
-/
namespace Cv.Rounding2
open Cv Cv.FlModel Cv.Rounding

variable {M : FlModel}

/-- A square root with relative error at most `u` on the non-negative reals (explicit hypothesis on
`f64::sqrt`). -/
class SqrtStd (M : FlModel) where
  sqrtR : ℝ → ℝ
  sqrt_std : ∀ x : ℝ, 0 ≤ x → ∃ δ : ℝ, |δ| ≤ M.u ∧ sqrtR x = Real.sqrt x * (1 + δ)

/-- the correctly rounded square root satisfies the hypothesis -/
@[reducible] noncomputable def SqrtStd.ofRnd (M : FlModel) : SqrtStd M where
  sqrtR := fun x => M.rnd (Real.sqrt x)
  sqrt_std := fun x _ => M.std (Real.sqrt x)

scoped instance flLT : LT (Fl M) := ⟨fun a b => a.val < b.val⟩
noncomputable scoped instance flDecLT : DecidableLT (Fl M) :=
  fun a b => Classical.propDecidable (a.val < b.val)
scoped instance flInhabited : Inhabited (Fl M) := ⟨⟨0⟩⟩

/-- `Transc (Fl M)`: `sqrt` with relative error `≤ u`, exact `abs`; the other fields are placeholders
(not used by `normL` / `infNormL`). -/
noncomputable scoped instance flTransc [SqrtStd M] : Transc (Fl M) where
  sqrt a := ⟨SqrtStd.sqrtR (M := M) a.val⟩
  abs a := ⟨|a.val|⟩
  exp a := a
  ln a := a
  pow a _ := a
  sin a := a
  cos a := a
  tan a := a
  floor a := a
  ceil a := a

theorem fl_lt_def (a b : Fl M) : a < b ↔ a.val < b.val := Iff.rfl
@[simp] theorem fl_sqrt_val [SqrtStd M] (a : Fl M) :
    (Transc.sqrt a).val = SqrtStd.sqrtR (M := M) a.val := rfl
@[simp] theorem fl_abs_val [SqrtStd M] (a : Fl M) : (Transc.abs a).val = |a.val| := rfl
@[simp] theorem fl_default_val : (default : Fl M).val = 0 := rfl

/-! ### perturbed sums of non-negative terms: the error is *relative* -/

theorem zipWith_nonneg_bounds (c : ℝ) (xs fs : List ℝ) (hl : fs.length = xs.length)
    (hf : ∀ f ∈ fs, c ≤ f ∧ f * c ≤ 1) (_hc : 0 ≤ c) (hx : ∀ x ∈ xs, 0 ≤ x) :
    c * xs.sum ≤ (List.zipWith (· * ·) xs fs).sum ∧ (List.zipWith (· * ·) xs fs).sum * c ≤ xs.sum := by
  induction xs generalizing fs with
  | nil => simp
  | cons x xs ih =>
    cases fs with
    | nil => simp at hl
    | cons f fs =>
      obtain ⟨h1, h2⟩ := ih fs (by simpa using hl) (fun g hg => hf g (by simp [hg]))
        (fun y hy => hx y (by simp [hy]))
      obtain ⟨f1, f2⟩ := hf f (by simp)
      have hx0 := hx x (by simp)
      simp only [List.zipWith_cons_cons, List.sum_cons]
      constructor
      · nlinarith [mul_le_mul_of_nonneg_left f1 hx0]
      · nlinarith [mul_le_mul_of_nonneg_left f2 hx0]

/-- a perturbed sum of non-negative terms is the exact sum times a single `k`-fold factor -/
theorem pert_nonneg_fac {k : Nat} {v : ℝ} {xs : List ℝ} (h : M.Pert k v xs) (hx : ∀ x ∈ xs, 0 ≤ x) :
    ∃ f, M.Fac k f ∧ v = xs.sum * f := by
  obtain ⟨fs, hl, hf, rfl⟩ := h
  have hc := (M.pow_pos' k)
  obtain ⟨h1, h2⟩ := zipWith_nonneg_bounds ((1 - M.u) ^ k) xs fs hl (fun f hfm => hf f hfm) hc.le hx
  have hS : 0 ≤ xs.sum := List.sum_nonneg hx
  by_cases h0 : xs.sum = 0
  · refine ⟨1, Fac.one.mono (Nat.zero_le k), ?_⟩
    rw [h0] at h1 h2 ⊢
    have hv0 : 0 ≤ (List.zipWith (· * ·) xs fs).sum := by simpa using h1
    have : (List.zipWith (· * ·) xs fs).sum ≤ 0 := by
      by_contra hne
      have := mul_pos (not_le.mp hne) hc
      linarith
    simp; linarith
  · have hSp : 0 < xs.sum := lt_of_le_of_ne hS (Ne.symm h0)
    refine ⟨(List.zipWith (· * ·) xs fs).sum / xs.sum, ⟨?_, ?_⟩, ?_⟩
    · rw [le_div_iff₀ hSp]; exact h1
    · rw [div_mul_eq_mul_div, div_le_one hSp]; exact h2
    · field_simp

/-- the square root of a `2j`-fold factor is a `j`-fold factor -/
theorem fac_sqrt {j k : Nat} {f : ℝ} (hf : M.Fac k f) (hk : k ≤ 2 * j) : M.Fac j (Real.sqrt f) := by
  have hf2 : M.Fac (2 * j) f := hf.mono hk
  have hc := M.pow_pos' j
  have e : (1 - M.u) ^ (2 * j) = ((1 - M.u) ^ j) ^ 2 := by rw [mul_comm, pow_mul]
  obtain ⟨h1, h2⟩ := hf2
  rw [e] at h1 h2
  have hs : Real.sqrt (((1 - M.u) ^ j) ^ 2) = (1 - M.u) ^ j := Real.sqrt_sq hc.le
  refine ⟨?_, ?_⟩
  · rw [← hs]; exact Real.sqrt_le_sqrt h1
  · have : Real.sqrt f * (1 - M.u) ^ j = Real.sqrt (f * ((1 - M.u) ^ j) ^ 2) := by
      rw [Real.sqrt_mul hf.pos.le, hs]
    rw [this]
    calc Real.sqrt (f * ((1 - M.u) ^ j) ^ 2) ≤ Real.sqrt 1 := Real.sqrt_le_sqrt h2
      _ = 1 := Real.sqrt_one

/-! ### `normL` -/

/-- the exact Euclidean norm of a real vector -/
noncomputable def norm2 (x : List ℝ) : ℝ := Real.sqrt (x.map fun a => a * a).sum

theorem norm2_nonneg (x : List ℝ) : 0 ≤ norm2 x := Real.sqrt_nonneg _

theorem prods_self (x : List (Fl M)) : prods x x = (vals x).map fun a => a * a := by
  induction x with
  | nil => rfl
  | cons a x ih =>
    simp only [prods, vals, List.zipWith_cons_cons, List.map_cons] at ih ⊢
    rw [ih]

theorem prods_self_nonneg (x : List (Fl M)) : ∀ t ∈ prods x x, 0 ≤ t := by
  intro t ht
  rw [prods_self] at ht
  obtain ⟨a, _, rfl⟩ := List.mem_map.mp ht
  exact mul_self_nonneg a

/-- from a dot-product analysis of depth `k ≤ 2j`: `normL x = ‖x‖₂·F`, `F` a `(j+1)`-fold factor -/
theorem normL_fac [SqrtStd M] (x : List (Fl M)) (k j : Nat)
    (hp : M.Pert k (dot8 x x).val (prods x x)) (hk : k ≤ 2 * j) :
    ∃ F, M.Fac (j + 1) F ∧ (VecOps.normL x).val = norm2 (vals x) * F := by
  obtain ⟨f, hf, hd⟩ := pert_nonneg_fac hp (prods_self_nonneg x)
  have hS : 0 ≤ (prods x x).sum := List.sum_nonneg (prods_self_nonneg x)
  have hd0 : 0 ≤ (dot8 x x).val := by rw [hd]; exact mul_nonneg hS hf.pos.le
  obtain ⟨δ, hδ, hs⟩ := SqrtStd.sqrt_std (M := M) (dot8 x x).val hd0
  refine ⟨Real.sqrt f * (1 + δ), (fac_sqrt hf hk).mul (Fac.one_add hδ), ?_⟩
  show SqrtStd.sqrtR (M := M) (dot8 x x).val = _
  rw [hs, hd, Real.sqrt_mul hS, norm2, ← prods_self]
  ring

/-- **Forward error of `norm`** (standard model, square root with relative error `≤ u`):
`|norm x − ‖x‖₂| ≤ γ_{⌊n/2⌋+2}·‖x‖₂` — the error is *relative* (all terms of `dot(x,x)` are
non-negative) and the square root halves the accumulated summation error. -/
theorem normL_error [SqrtStd M] (x : List (Fl M)) (h : ((x.length / 2 + 2 : Nat) : ℝ) * M.u < 1) :
    |(VecOps.normL x).val - norm2 (vals x)| ≤ M.γ (x.length / 2 + 2) * norm2 (vals x) := by
  have hp := dot8_pert x x
  rw [prods_length x x rfl] at hp
  obtain ⟨F, hF, he⟩ := normL_fac x _ (x.length / 2 + 1)
    (hp.mono (Nat.add_le_add_right (sumDepth_le _) 1)) (by omega)
  rw [he]
  have : norm2 (vals x) * F - norm2 (vals x) = norm2 (vals x) * (F - 1) := by ring
  rw [this, abs_mul, abs_of_nonneg (norm2_nonneg _), mul_comm]
  exact mul_le_mul_of_nonneg_right (hF.abs_sub_one_le h) (norm2_nonneg _)

/-- **… classical constant** (idempotent rounding): `|norm x − ‖x‖₂| ≤ γ_{⌈n/2⌉+1}·‖x‖₂`, i.e. about
`(n/2 + 1)·u` relative. -/
theorem normL_error_idem [SqrtStd M] (hid : M.Idem) (x : List (Fl M))
    (h : (((x.length + 1) / 2 + 1 : Nat) : ℝ) * M.u < 1) :
    |(VecOps.normL x).val - norm2 (vals x)| ≤ M.γ ((x.length + 1) / 2 + 1) * norm2 (vals x) := by
  have hpk : ∃ k, k ≤ 2 * ((x.length + 1) / 2) ∧ M.Pert k (dot8 x x).val (prods x x) := by
    by_cases h0 : x = []
    · subst h0
      exact ⟨0, Nat.zero_le _, Pert.nil 0⟩
    · have hp := dot8_pert_idem hid x x
      rw [prods_length x x rfl] at hp
      have hpos : 0 < x.length := List.length_pos_iff.mpr h0
      have := sumDepthR_le x.length
      exact ⟨_, by omega, hp⟩
  obtain ⟨k, hk, hp⟩ := hpk
  obtain ⟨F, hF, he⟩ := normL_fac x _ ((x.length + 1) / 2) hp hk
  rw [he]
  have : norm2 (vals x) * F - norm2 (vals x) = norm2 (vals x) * (F - 1) := by ring
  rw [this, abs_mul, abs_of_nonneg (norm2_nonneg _), mul_comm]
  exact mul_le_mul_of_nonneg_right (hF.abs_sub_one_le h) (norm2_nonneg _)

/-! ### `infNormL` -/

open VecOps in
/-- the NaN-ignoring maximum fold from a non-NaN accumulator over non-NaN values -/
theorem foldl_fmaxN_spec (isNaN : Fl M → Bool) (l : List (Fl M)) (acc : Fl M)
    (ha : isNaN acc = false) (hl : ∀ a ∈ l, isNaN a = false) :
    (l.foldl (fmaxN isNaN) acc ∈ acc :: l) ∧ isNaN (l.foldl (fmaxN isNaN) acc) = false ∧
      ∀ b ∈ acc :: l, b.val ≤ (l.foldl (fmaxN isNaN) acc).val := by
  induction l generalizing acc with
  | nil => simp [ha]
  | cons a l ih =>
    have haN := hl a (by simp)
    have hstep : fmaxN isNaN acc a = if acc.val < a.val then a else acc := by
      unfold fmaxN
      simp only [ha, haN, Bool.false_eq_true, if_false]
      rfl
    have hmN : isNaN (fmaxN isNaN acc a) = false := by
      rw [hstep]; split <;> assumption
    obtain ⟨h1, h2, h3⟩ := ih (fmaxN isNaN acc a) hmN (fun b hb => hl b (by simp [hb]))
    simp only [List.foldl_cons]
    refine ⟨?_, h2, ?_⟩
    · rcases List.mem_cons.mp h1 with h | h
      · rw [h, hstep]; split <;> simp
      · simp [h]
    · intro b hb
      have hacc : acc.val ≤ (fmaxN isNaN acc a).val ∧ a.val ≤ (fmaxN isNaN acc a).val := by
        rw [hstep]; split
        · rename_i hlt; exact ⟨hlt.le, le_refl _⟩
        · rename_i hlt; exact ⟨le_refl _, not_lt.mp hlt⟩
      have hm := h3 (fmaxN isNaN acc a) (by simp)
      rcases List.mem_cons.mp hb with rfl | hb
      · exact le_trans hacc.1 hm
      · rcases List.mem_cons.mp hb with rfl | hb
        · exact le_trans hacc.2 hm
        · exact h3 b (by simp [hb])

open VecOps in
/-- `statistics::max` (fold from NaN) over a non-empty list of non-NaN values is the maximum -/
theorem maxL_spec (isNaN : Fl M → Bool) (nan : Fl M) (hnan : isNaN nan = true) (l : List (Fl M))
    (hne : l ≠ []) (hl : ∀ a ∈ l, isNaN a = false) :
    maxL isNaN nan l ∈ l ∧ ∀ b ∈ l, b.val ≤ (maxL isNaN nan l).val := by
  cases l with
  | nil => exact absurd rfl hne
  | cons a l =>
    unfold maxL
    simp only [List.foldl_cons]
    have : fmaxN isNaN nan a = a := by unfold fmaxN; simp [hnan]
    rw [this]
    obtain ⟨h1, _, h3⟩ := foldl_fmaxN_spec isNaN l a (hl a (by simp)) (fun b hb => hl b (by simp [hb]))
    exact ⟨h1, h3⟩

/-- a sequential sum (from `0`) of absolute values: the exact sum times one `len`-fold factor -/
theorem foldl_abs_fac (l : List (Fl M)) (hl : ∀ a ∈ l, 0 ≤ a.val) :
    ∃ f, M.Fac l.length f ∧ (l.foldl (· + ·) 0).val = (vals l).sum * f := by
  have hp := foldl_pert l (0 : Fl M) 0 [] (Pert.nil 0)
  simp only [Nat.zero_add, List.nil_append] at hp
  exact pert_nonneg_fac hp (by
    intro t ht
    obtain ⟨a, ha, rfl⟩ := List.mem_map.mp ht
    exact hl a ha)

/-- exact absolute row sum `Σ_j |x[i·ncols + j]|` -/
noncomputable def rowAbs (x : List (Fl M)) (ncols i : Nat) : ℝ :=
  ((List.range ncols).map fun j => |(x[i * ncols + j]!).val|).sum

/-- **Forward error of `inf_norm`** (standard model only; the `max` is exact).  `N` is the exact
infinity norm (the largest exact absolute row sum); `isNaN` is any NaN test that is true of the seed
and false of non-negative reals.  The error is relative: `|inf_norm − N| ≤ γ_c·N`, `c = ncols`. -/
theorem infNormL_error [SqrtStd M] (isNaN : Fl M → Bool) (nan : Fl M) (hnan : isNaN nan = true)
    (hfin : ∀ a : Fl M, 0 ≤ a.val → isNaN a = false)
    (x : List (Fl M)) (nrows : Nat) (hnr : nrows ≠ 0) (hdiv : nrows * (x.length / nrows) = x.length)
    (h : ((x.length / nrows : Nat) : ℝ) * M.u < 1) (N : ℝ)
    (hle : ∀ i, i < nrows → rowAbs x (x.length / nrows) i ≤ N)
    (hatt : ∃ i, i < nrows ∧ rowAbs x (x.length / nrows) i = N) :
    ∃ v, VecOps.infNormL isNaN nan x nrows = some v ∧
      |v.val - N| ≤ M.γ (x.length / nrows) * N := by
  set c := x.length / nrows with hc
  -- the computed row sums
  set rows : List (Fl M) := (List.range nrows).map fun i =>
    ((List.range c).map fun j => Transc.abs x[i * c + j]!).foldl (· + ·) 0 with hrows
  have hval : VecOps.infNormL isNaN nan x nrows = some (VecOps.maxL isNaN nan rows) := by
    unfold VecOps.infNormL
    rw [if_neg hnr]
    simp only [← hc]
    rw [if_neg (by simpa using hdiv)]
  -- each computed row sum is the exact one times a `c`-fold factor
  have hrow : ∀ i, ∃ f, M.Fac c f ∧
      (((List.range c).map fun j => Transc.abs x[i * c + j]!).foldl (· + ·) (0 : Fl M)).val =
        rowAbs x c i * f := by
    intro i
    obtain ⟨f, hf, he⟩ := foldl_abs_fac ((List.range c).map fun j => Transc.abs x[i * c + j]!) (by
      intro a ha
      obtain ⟨j, _, rfl⟩ := List.mem_map.mp ha
      exact abs_nonneg _)
    simp only [List.length_map, List.length_range] at hf
    refine ⟨f, hf, ?_⟩
    rw [he]
    congr 1
    simp [rowAbs, vals, List.map_map, Function.comp_def]
  have hN0 : 0 ≤ N := by
    obtain ⟨i, _, hi⟩ := hatt
    rw [← hi]
    apply List.sum_nonneg
    intro t ht
    obtain ⟨j, _, rfl⟩ := List.mem_map.mp ht
    exact abs_nonneg _
  have hrows_nn : ∀ a ∈ rows, isNaN a = false := by
    intro a ha
    obtain ⟨i, _, rfl⟩ := List.mem_map.mp ha
    obtain ⟨f, hf, he⟩ := hrow i
    apply hfin
    rw [he]
    exact mul_nonneg (List.sum_nonneg (by
      intro t ht
      obtain ⟨j, _, rfl⟩ := List.mem_map.mp ht
      exact abs_nonneg _)) hf.pos.le
  have hne : rows ≠ [] := by
    intro h0
    have : rows.length = nrows := by simp [hrows]
    rw [h0] at this
    exact hnr this.symm
  obtain ⟨hmem, hmax⟩ := maxL_spec isNaN nan hnan rows hne hrows_nn
  refine ⟨_, hval, ?_⟩
  have hγ := M.γ_nonneg c h
  rw [abs_le]
  constructor
  · -- lower: the row attaining `N`
    obtain ⟨i1, hi1, hN⟩ := hatt
    obtain ⟨f, hf, he⟩ := hrow i1
    have hin : (((List.range c).map fun j => Transc.abs x[i1 * c + j]!).foldl (· + ·) (0 : Fl M)) ∈ rows :=
      List.mem_map.mpr ⟨i1, List.mem_range.mpr hi1, rfl⟩
    have := hmax _ hin
    rw [he, hN] at this
    have hf1 := abs_le.mp (hf.abs_sub_one_le h)
    nlinarith [hf1.1]
  · -- upper: the row that is returned
    obtain ⟨i0, hi0, he0⟩ := List.mem_map.mp hmem
    obtain ⟨f, hf, he⟩ := hrow i0
    rw [← he0, he]
    have hR := hle i0 (List.mem_range.mp hi0)
    have hf1 := abs_le.mp (hf.abs_sub_one_le h)
    have hR0 : 0 ≤ rowAbs x c i0 := by
      apply List.sum_nonneg
      intro t ht
      obtain ⟨j, _, rfl⟩ := List.mem_map.mp ht
      exact abs_nonneg _
    nlinarith [hf1.2, hf.pos]

end Cv.Rounding2
