import Compute.Lemmas.Decomp
import Mathlib.Algebra.BigOperators.Group.Finset.Basic
import Mathlib.Algebra.Field.Basic
import Mathlib.Tactic.FieldSimp
import Mathlib.Tactic.Ring
/-
LU factorisation (`Cv.LA.lu`, model of src/linalg/decomposition/lu.rs) in exact arithmetic:
entry-level specifications of the four phases of one column step (`luColumn`, `luPivot`, `swapRows`,
`luScale`) and the loop invariant of `lu` over the columns.  Everything is phrased through the
entry function `ent n l i c = rd l (i*n+c)` of a row-major `n × n` list.
-/
set_option linter.unusedSectionVars false
set_option linter.unusedVariables false
namespace Cv.LA.Lu
open Finset

/-! ### indices, entries -/

theorem idx_lt_sq {n i c : Nat} (hi : i < n) (hc : c < n) : i * n + c < n * n := by
  have : (i + 1) * n ≤ n * n := Nat.mul_le_mul_right n hi
  rw [Nat.add_mul] at this
  omega

theorem idx_inj {n i c i' c' : Nat} (hc : c < n) (hc' : c' < n) :
    i * n + c = i' * n + c' ↔ i = i' ∧ c = c' := by
  constructor
  · intro h
    rcases Nat.lt_trichotomy i i' with hlt | heq | hgt
    · have : (i + 1) * n ≤ i' * n := Nat.mul_le_mul_right n hlt
      rw [Nat.add_mul] at this
      omega
    · subst heq
      exact ⟨rfl, by omega⟩
    · have : (i' + 1) * n ≤ i * n := Nat.mul_le_mul_right n hgt
      rw [Nat.add_mul] at this
      omega
  · rintro ⟨rfl, rfl⟩; rfl

/-- induction over `List.range n` folds -/
theorem foldl_range_ind {σ : Type} (P : Nat → σ → Prop) (f : σ → Nat → σ) (s0 : σ) (n : Nat)
    (h0 : P 0 s0) (hs : ∀ m s, m < n → P m s → P (m + 1) (f s m)) :
    P n ((List.range n).foldl f s0) := by
  have : ∀ m, m ≤ n → P m ((List.range m).foldl f s0) := by
    intro m
    induction m with
    | zero => intro _; simpa using h0
    | succ m ih =>
      intro hm
      rw [List.range_succ, List.foldl_append]
      exact hs m _ (by omega) (ih (by omega))
  exact this n (Nat.le_refl n)

/-- induction over `List.range' a len` folds (indexed by the number of processed elements) -/
theorem foldl_range'_ind {σ : Type} (P : Nat → σ → Prop) (f : σ → Nat → σ) (s0 : σ) (a len : Nat)
    (h0 : P 0 s0) (hs : ∀ m s, m < len → P m s → P (m + 1) (f s (a + m))) :
    P len ((List.range' a len).foldl f s0) := by
  have : ∀ m, m ≤ len → P m ((List.range' a m).foldl f s0) := by
    intro m
    induction m with
    | zero => intro _; simpa using h0
    | succ m ih =>
      intro hm
      rw [List.range'_concat, List.foldl_append]
      simpa using hs m _ (by omega) (ih (by omega))
  exact this len (Nat.le_refl len)

section ent
variable {α : Type} [Zero α]

/-- entry `(i,c)` of a row-major `n × n` list -/
def ent (n : Nat) (l : List α) (i c : Nat) : α := rd l (i * n + c)

theorem ent_def (n : Nat) (l : List α) (i c : Nat) : ent n l i c = rd l (i * n + c) := rfl

theorem rd_set (l : List α) (k m : Nat) (v : α) (hk : k < l.length) :
    rd (l.set k v) m = if m = k then v else rd l m := by
  simp only [rd, List.getD_eq_getElem?_getD, List.getElem?_set]
  by_cases h : k = m
  · subst h; simp [hk]
  · have h' : ¬ m = k := fun e => h e.symm
    simp [h, h']

theorem ent_set (n : Nat) (l : List α) (i c i' c' : Nat) (v : α) (hl : l.length = n * n)
    (hi : i < n) (hc : c < n) (hc' : c' < n) :
    ent n (l.set (i * n + c) v) i' c' = if i' = i ∧ c' = c then v else ent n l i' c' := by
  unfold ent
  rw [rd_set _ _ _ _ (by rw [hl]; exact idx_lt_sq hi hc)]
  simp only [idx_inj hc' hc]

theorem getElem?_swapIdx {β : Type} (l : List β) (i j k : Nat) (hi : i < l.length) (hj : j < l.length) :
    (swapIdx l i j)[k]? = if k = j then l[i]? else if k = i then l[j]? else l[k]? := by
  unfold swapIdx
  rw [List.getElem?_eq_getElem hi, List.getElem?_eq_getElem hj]
  simp only [List.getElem?_set, List.length_set]
  by_cases h1 : j = k
  · subst h1; simp [hj]
  · have h1' : ¬ k = j := fun e => h1 e.symm
    by_cases h2 : i = k
    · subst h2; simp [h1, h1', hi]
    · have h2' : ¬ k = i := fun e => h2 e.symm
      simp [h1, h1', h2, h2']

theorem length_swapIdx {β : Type} (l : List β) (i j : Nat) : (swapIdx l i j).length = l.length := by
  unfold swapIdx
  split <;> simp

theorem rd_swapIdx (l : List α) (i j k : Nat) (hi : i < l.length) (hj : j < l.length) :
    rd (swapIdx l i j) k = if k = j then rd l i else if k = i then rd l j else rd l k := by
  simp only [rd, List.getD_eq_getElem?_getD, getElem?_swapIdx l i j k hi hj]
  split
  · rfl
  · split <;> rfl

end ent

/-- the transposition of `p` and `j` -/
def sw (p j i : Nat) : Nat := if i = j then p else if i = p then j else i

theorem sw_of_lt {p j i : Nat} (hjp : j ≤ p) (hi : i < j) : sw p j i = i := by
  unfold sw
  rw [if_neg (by omega), if_neg (by omega)]

theorem sw_ge {p j i : Nat} (hjp : j ≤ p) (hi : j ≤ i) : j ≤ sw p j i := by
  unfold sw
  split
  · exact hjp
  · split
    · exact Nat.le_refl j
    · exact hi

theorem sw_lt {p j i n : Nat} (hp : p < n) (hj : j < n) (hi : i < n) : sw p j i < n := by
  unfold sw
  split
  · exact hp
  · split
    · exact hj
    · exact hi

theorem sw_self (j i : Nat) : sw j j i = i := by
  unfold sw
  split
  · rename_i h; exact h.symm
  · rfl

theorem sw_sw (p j i : Nat) : sw p j (sw p j i) = i := by
  unfold sw
  split_ifs <;> omega

theorem getD_swapIdx_nat (l : List Nat) (p j i : Nat) (hp : p < l.length) (hj : j < l.length) :
    (swapIdx l p j).getD i 0 = l.getD (sw p j i) 0 := by
  simp only [List.getD_eq_getElem?_getD, getElem?_swapIdx l p j i hp hj, sw]
  split
  · rfl
  · split <;> rfl

/-! ### the phases of one column step -/
section ops
variable {α : Type} [Field α]

theorem foldl_add_range (f : Nat → α) (m : Nat) :
    (List.range m).foldl (fun s k => s + f k) 0 = ∑ k ∈ range m, f k := by
  induction m with
  | zero => simp
  | succ m ih => rw [List.range_succ, List.foldl_append, ih, Finset.sum_range_succ]; rfl

theorem luDot_eq (n : Nat) (w : List α) (i j : Nat) :
    luDot n w i j = ∑ k ∈ range (min i j), ent n w i k * ent n w k j := by
  unfold luDot
  exact foldl_add_range (fun k => ent n w i k * ent n w k j) _

/-- `luColumn`: only column `j` changes; its new entries satisfy the left-looking recurrence. -/
theorem luColumn_spec (n j : Nat) (w : List α) (hw : w.length = n * n) (hj : j < n) :
    (luColumn n j w).length = n * n ∧
    (∀ i c, i < n → c < n → c ≠ j → ent n (luColumn n j w) i c = ent n w i c) ∧
    (∀ i, i < n → ent n (luColumn n j w) i j =
      ent n w i j - ∑ k ∈ range (min i j), ent n w i k * ent n (luColumn n j w) k j) := by
  have key := foldl_range_ind
    (fun m (s : List α) => s.length = n * n ∧
      (∀ i c, i < n → c < n → (c ≠ j ∨ m ≤ i) → ent n s i c = ent n w i c) ∧
      (∀ i, i < m → ent n s i j = ent n w i j - ∑ k ∈ range (min i j), ent n w i k * ent n s k j))
    (fun lu i => lu.set (i * n + j) (rd lu (i * n + j) - luDot n lu i j)) w n
    ⟨hw, fun _ _ _ _ _ => rfl, fun i hi => by omega⟩
    (by
      intro m s hm ⟨hl, hun, hcol⟩
      refine ⟨by simpa using hl, ?_, ?_⟩
      · intro i c hi hc hor
        rw [ent_set n s m j i c _ hl hm hj hc, if_neg (by omega)]
        exact hun i c hi hc (by omega)
      · intro i hi
        rw [ent_set n s m j i j _ hl hm hj hj]
        have hsum : ∀ i', i' ≤ m → ∑ k ∈ range (min i' j),
            ent n w i' k * ent n (s.set (m * n + j) (rd s (m * n + j) - luDot n s m j)) k j =
            ∑ k ∈ range (min i' j), ent n w i' k * ent n s k j := by
          intro i' hi'
          apply Finset.sum_congr rfl
          intro k hk
          have hk' := Finset.mem_range.mp hk
          rw [ent_set n s m j k j _ hl hm hj hj, if_neg (by omega)]
        by_cases him : i = m
        · subst him
          rw [if_pos ⟨rfl, rfl⟩, hsum i (Nat.le_refl i), luDot_eq, ← ent_def,
            hun i j hm hj (Or.inr (Nat.le_refl i))]
          congr 1
          apply Finset.sum_congr rfl
          intro k hk
          have hk' := Finset.mem_range.mp hk
          rw [hun i k hm (by omega) (Or.inl (by omega))]
        · rw [if_neg (by omega), hsum i (by omega)]
          exact hcol i (by omega))
  obtain ⟨h1, h2, h3⟩ := key
  exact ⟨h1, fun i c hi hc hcj => h2 i c hi hc (Or.inl hcj), fun i hi => h3 i hi⟩

/-- `swapRows`: rows `p` and `j` are exchanged. -/
theorem swapRows_spec (n p j : Nat) (w : List α) (hw : w.length = n * n) (hp : p < n) (hj : j < n) :
    (swapRows n p j w).length = n * n ∧
    ∀ i c, i < n → c < n → ent n (swapRows n p j w) i c = ent n w (sw p j i) c := by
  unfold swapRows
  have key := foldl_range_ind
    (fun m (s : List α) => s.length = n * n ∧
      ∀ i c, i < n → c < n → ent n s i c = if c < m then ent n w (sw p j i) c else ent n w i c)
    (fun lu k => swapIdx lu (p * n + k) (j * n + k)) w n
    ⟨hw, fun _ _ _ _ => by simp⟩
    (by
      intro m s hm ⟨hl, hs⟩
      refine ⟨by rw [length_swapIdx]; exact hl, ?_⟩
      intro i c hi hc
      unfold ent
      rw [rd_swapIdx _ _ _ _ (by rw [hl]; exact idx_lt_sq hp hm) (by rw [hl]; exact idx_lt_sq hj hm)]
      simp only [idx_inj hc hm, ← ent_def]
      by_cases h1 : i = j ∧ c = m
      · obtain ⟨rfl, rfl⟩ := h1
        rw [if_pos ⟨rfl, rfl⟩, hs p c hp hc, if_neg (by omega), if_pos (by omega)]
        simp [sw]
      · rw [if_neg h1]
        by_cases h2 : i = p ∧ c = m
        · obtain ⟨rfl, rfl⟩ := h2
          rw [if_pos ⟨rfl, rfl⟩, hs j c hj hc, if_neg (by omega), if_pos (by omega)]
          have : sw i j i = j := by
            unfold sw; split
            · rename_i h; exact h
            · simp
          rw [this]
        · rw [if_neg h2, hs i c hi hc]
          by_cases hcm : c < m
          · rw [if_pos hcm, if_pos (by omega)]
          · rw [if_neg hcm]
            by_cases hcm' : c = m
            · subst hcm'
              have hij : i ≠ j := fun e => h1 ⟨e, rfl⟩
              have hip : i ≠ p := fun e => h2 ⟨e, rfl⟩
              rw [if_pos (by omega)]
              simp [sw, hij, hip]
            · rw [if_neg (by omega)])
  obtain ⟨h1, h2⟩ := key
  refine ⟨h1, fun i c hi hc => ?_⟩
  rw [h2 i c hi hc, if_pos hc]

open Classical in
/-- `luScale`: the sub-diagonal part of column `j` is divided by the pivot, unless the pivot is `0`. -/
theorem luScale_spec [BEq α] [LawfulBEq α] (n j : Nat) (w : List α) (hw : w.length = n * n) (hj : j < n) :
    (luScale n j w).length = n * n ∧
    ∀ i c, i < n → c < n → ent n (luScale n j w) i c =
      if c = j ∧ j < i ∧ ent n w j j ≠ 0 then ent n w i j / ent n w j j else ent n w i c := by
  unfold luScale
  by_cases hpz : ent n w j j = 0
  · have : (decide (j < n) && (rd w (j * n + j) != 0)) = false := by
      rw [← ent_def, hpz]; simp
    rw [this]
    simp only [Bool.false_eq_true, if_false]
    refine ⟨hw, fun i c hi hc => ?_⟩
    rw [if_neg (fun h => h.2.2 hpz)]
  · have : (decide (j < n) && (rd w (j * n + j) != 0)) = true := by
      rw [← ent_def]; simp [hj, hpz]
    rw [this]
    simp only [if_true]
    have key := foldl_range'_ind
      (fun m (s : List α) => s.length = n * n ∧
        ∀ i c, i < n → c < n → ent n s i c =
          if c = j ∧ j < i ∧ i < j + 1 + m then ent n w i j / ent n w j j else ent n w i c)
      (fun lu i => lu.set (i * n + j) (rd lu (i * n + j) / rd lu (j * n + j))) w (j + 1) (n - (j + 1))
      ⟨hw, fun i c _ _ => by rw [if_neg (by omega)]⟩
      (by
        intro m s hm ⟨hl, hs⟩
        refine ⟨by simpa using hl, ?_⟩
        intro i c hi hc
        have hv : rd s ((j + 1 + m) * n + j) / rd s (j * n + j) = ent n w (j + 1 + m) j / ent n w j j := by
          rw [← ent_def, ← ent_def, hs (j + 1 + m) j (by omega) hj, hs j j hj hj,
            if_neg (by omega), if_neg (by omega)]
        rw [ent_set n s (j + 1 + m) j i c _ hl (by omega) hj hc, hv]
        by_cases h1 : i = j + 1 + m ∧ c = j
        · obtain ⟨rfl, rfl⟩ := h1
          rw [if_pos ⟨rfl, rfl⟩, if_pos ⟨rfl, by omega, by omega⟩]
        · rw [if_neg h1, hs i c hi hc]
          by_cases h2 : c = j ∧ j < i ∧ i < j + 1 + m
          · rw [if_pos h2, if_pos ⟨h2.1, h2.2.1, by omega⟩]
          · rw [if_neg h2, if_neg]
            rintro ⟨h3, h4, h5⟩
            have : i ≠ j + 1 + m := fun e => h1 ⟨e, h3⟩
            exact h2 ⟨h3, h4, by omega⟩)
    obtain ⟨h1, h2⟩ := key
    refine ⟨h1, fun i c hi hc => ?_⟩
    rw [h2 i c hi hc]
    by_cases h3 : c = j ∧ j < i
    · rw [if_pos ⟨h3.1, h3.2, by omega⟩, if_pos ⟨h3.1, h3.2, hpz⟩]
    · rw [if_neg (fun h => h3 ⟨h.1, h.2.1⟩), if_neg (fun h => h3 ⟨h.1, h.2.1⟩)]

end ops

/-! ### pivot search -/
section pivot
variable {α : Type} [Zero α] [LT α] [DecidableLT α] [Transc α]

/-- the pivot row lies in `j..n-1` -/
theorem luPivot_range (n j : Nat) (w : List α) (hj : j < n) :
    j ≤ luPivot n j w ∧ luPivot n j w < n := by
  unfold luPivot
  have key := foldl_range'_ind (fun m (p : Nat) => j ≤ p ∧ p < j + 1 + m)
    (fun p i => if Transc.abs (rd w (p * n + j)) < Transc.abs (rd w (i * n + j)) then i else p) j
    (j + 1) (n - (j + 1)) ⟨Nat.le_refl j, by omega⟩
    (by
      intro m p hm ⟨h1, h2⟩
      split
      · exact ⟨by omega, by omega⟩
      · exact ⟨h1, by omega⟩)
  exact ⟨key.1, by have := key.2; omega⟩

end pivot

/-! ### one step of the column loop, and the loop invariant -/
section inv
variable {α : Type} [Field α] [BEq α] [LawfulBEq α] [LT α] [DecidableLT α] [Transc α]

open Classical in
/-- entries of the working array and the pivot vector after `luStep`, in terms of the updated column
`w1 = luColumn n j w` and the pivot row `p`. -/
theorem luStep_spec (n j : Nat) (w : List α) (piv : List Nat) (hw : w.length = n * n)
    (hpl : piv.length = n) (hj : j < n) (w1 : List α) (p : Nat) (hw1 : w1 = luColumn n j w)
    (hp : p = luPivot n j w1) :
    (luStep n (w, piv) j).1.length = n * n ∧ (luStep n (w, piv) j).2.length = n ∧
    (∀ i, (luStep n (w, piv) j).2.getD i 0 = piv.getD (sw p j i) 0) ∧
    (∀ i c, i < n → c < n → ent n (luStep n (w, piv) j).1 i c =
      if c = j ∧ j < i ∧ ent n w1 p j ≠ 0 then ent n w1 (sw p j i) j / ent n w1 p j
      else ent n w1 (sw p j i) c) := by
  obtain ⟨hl1, -, -⟩ := luColumn_spec n j w hw hj
  rw [← hw1] at hl1
  obtain ⟨hpj, hpn⟩ := luPivot_range n j w1 hj
  rw [← hp] at hpj hpn
  have hstep : ∃ w2 : List α, (luStep n (w, piv) j).1 = luScale n j w2 ∧ w2.length = n * n ∧
      (∀ i c, i < n → c < n → ent n w2 i c = ent n w1 (sw p j i) c) ∧
      (luStep n (w, piv) j).2.length = n ∧
      ∀ i, (luStep n (w, piv) j).2.getD i 0 = piv.getD (sw p j i) 0 := by
    by_cases hpe : p = j
    · refine ⟨w1, ?_, hl1, ?_, ?_, ?_⟩
      · simp only [luStep, ← hw1, ← hp, hpe, bne_self_eq_false, Bool.false_eq_true, if_false]
      · intro i c _ _; rw [hpe, sw_self]
      · simp only [luStep, ← hw1, ← hp, hpe, bne_self_eq_false, Bool.false_eq_true, if_false]
        exact hpl
      · intro i
        simp only [luStep, ← hw1, ← hp, hpe, bne_self_eq_false, Bool.false_eq_true, if_false, sw_self]
    · have hb : (p != j) = true := by simpa using hpe
      obtain ⟨hl2, he2⟩ := swapRows_spec n p j w1 hl1 hpn hj
      refine ⟨swapRows n p j w1, ?_, hl2, he2, ?_, ?_⟩
      · simp only [luStep, ← hw1, ← hp, hb, if_true]
      · simp only [luStep, ← hw1, ← hp, hb, if_true, length_swapIdx]
        exact hpl
      · intro i
        simp only [luStep, ← hw1, ← hp, hb, if_true]
        exact getD_swapIdx_nat piv p j i (by omega) (by omega)
  obtain ⟨w2, hs1, hl2, he2, hpl2, hpiv2⟩ := hstep
  obtain ⟨hl3, he3⟩ := luScale_spec n j w2 hl2 hj
  rw [hs1]
  refine ⟨hl3, hpl2, hpiv2, ?_⟩
  intro i c hi hc
  have hjj : ent n w2 j j = ent n w1 p j := by
    rw [he2 j j hj hj]; simp [sw]
  rw [he3 i c hi hc, hjj, he2 i j hi hj, he2 i c hi hc]

open Classical in
/-- last term of `(L·U)[i,c]`: `U[i,c]` on and above the diagonal, `L[i,c]·U[c,c]` below it — where
a stored sub-diagonal entry under a zero pivot (not divided by the code) counts as itself. -/
noncomputable def luT (n : Nat) (w : List α) (i c : Nat) : α :=
  if i ≤ c then ent n w i c else if ent n w c c = 0 then ent n w i c else ent n w i c * ent n w c c

/-- Loop invariant of `lu` before column `j`: columns `≥ j` hold the row-permuted input, columns
`< j` hold finished columns of `L` and `U`. -/
structure LuInv (n : Nat) (a : List α) (j : Nat) (w : List α) (piv : List Nat) : Prop where
  hlen : w.length = n * n
  hpl : piv.length = n
  hright : ∀ i c, i < n → c < n → j ≤ c → ent n w i c = ent n a (piv.getD i 0) c
  hleft : ∀ i c, i < n → c < n → c < j →
    ∑ k ∈ range (min i c), ent n w i k * ent n w k c + luT n w i c = ent n a (piv.getD i 0) c

theorem LuInv.init (n : Nat) (a : List α) (ha : a.length = n * n) : LuInv n a 0 a (List.range n) where
  hlen := ha
  hpl := by simp
  hright := by
    intro i c hi hc _
    have : (List.range n).getD i 0 = i := by
      simp [List.getD_eq_getElem?_getD, List.getElem?_range hi]
    rw [this]
  hleft := by intro i c _ _ h; omega

theorem LuInv.step (n : Nat) (a : List α) (j : Nat) (w : List α) (piv : List Nat)
    (h : LuInv n a j w piv) (hj : j < n) :
    LuInv n a (j + 1) (luStep n (w, piv) j).1 (luStep n (w, piv) j).2 := by
  obtain ⟨hw, hpl, hright, hleft⟩ := h
  obtain ⟨hl1, hun1, hcol1⟩ := luColumn_spec n j w hw hj
  obtain ⟨hpj, hpn⟩ := luPivot_range n j (luColumn n j w) hj
  obtain ⟨hl3, hpl3, hpiv3, he3⟩ := luStep_spec n j w piv hw hpl hj _ _ rfl rfl
  generalize hw1 : luColumn n j w = w1 at *
  generalize hp : luPivot n j w1 = p at *
  generalize (luStep n (w, piv) j).1 = w3 at *
  generalize (luStep n (w, piv) j).2 = piv3 at *
  have hswn : ∀ i, i < n → sw p j i < n := fun i hi => sw_lt hpn hj hi
  -- entries of `w3` outside column `j`
  have hne : ∀ i c, i < n → c < n → c ≠ j → ent n w3 i c = ent n w (sw p j i) c := by
    intro i c hi hc hcj
    rw [he3 i c hi hc, if_neg (fun h => hcj h.1), hun1 _ c (hswn i hi) hc hcj]
  -- column `j` of `w3` on and above the diagonal
  have hupper : ∀ i, i < n → i ≤ j → ent n w3 i j = ent n w1 (sw p j i) j := by
    intro i hi hij
    rw [he3 i j hi hj, if_neg (fun h => by omega)]
  refine ⟨hl3, hpl3, ?_, ?_⟩
  · intro i c hi hc hjc
    rw [hne i c hi hc (by omega), hpiv3 i, hright _ c (hswn i hi) hc (by omega)]
  · intro i c hi hc hcj
    rw [hpiv3 i]
    by_cases hcj' : c = j
    · -- the new column
      subst hcj'
      have hmin : min i c = min (sw p c i) c := by
        by_cases hic : i < c
        · rw [sw_of_lt hpj hic]
        · have := sw_ge hpj (Nat.le_of_not_lt hic)
          omega
      have hT : luT n w3 i c = ent n w1 (sw p c i) c := by
        unfold luT
        by_cases hic : i ≤ c
        · rw [if_pos hic, hupper i hi hic]
        · rw [if_neg hic]
          have hcc : ent n w3 c c = ent n w1 p c := by
            rw [hupper c hc (Nat.le_refl c)]; simp [sw]
          rw [hcc, he3 i c hi hc]
          by_cases hz : ent n w1 p c = 0
          · rw [if_pos hz, if_neg (fun h => h.2.2 hz)]
          · rw [if_neg hz, if_pos ⟨rfl, by omega, hz⟩]
            field_simp
      have hsum : ∑ k ∈ range (min i c), ent n w3 i k * ent n w3 k c =
          ∑ k ∈ range (min (sw p c i) c), ent n w (sw p c i) k * ent n w1 k c := by
        rw [← hmin]
        apply Finset.sum_congr rfl
        intro k hk
        have hk' := Finset.mem_range.mp hk
        have hkc : k < c := by omega
        rw [hne i k hi (by omega) (by omega), hupper k (by omega) (by omega), sw_of_lt hpj hkc]
      rw [hT, hsum, hcol1 _ (hswn i hi), ← hright _ c (hswn i hi) hc (Nat.le_refl c)]
      ring
    · -- an old column
      have hcj2 : c < j := by omega
      have hcc : ent n w3 c c = ent n w c c := by
        rw [hne c c hc hc hcj', sw_of_lt hpj hcj2]
      have hT : luT n w3 i c = luT n w (sw p j i) c := by
        unfold luT
        rw [hcc, hne i c hi hc hcj']
        by_cases hij : i < j
        · rw [sw_of_lt hpj hij]
        · have := sw_ge hpj (Nat.le_of_not_lt hij)
          rw [if_neg (show ¬ i ≤ c by omega), if_neg (show ¬ sw p j i ≤ c by omega)]
      have hmin : min i c = min (sw p j i) c := by
        by_cases hij : i < j
        · rw [sw_of_lt hpj hij]
        · have := sw_ge hpj (Nat.le_of_not_lt hij)
          omega
      have hsum : ∑ k ∈ range (min i c), ent n w3 i k * ent n w3 k c =
          ∑ k ∈ range (min (sw p j i) c), ent n w (sw p j i) k * ent n w k c := by
        rw [← hmin]
        apply Finset.sum_congr rfl
        intro k hk
        have hk' := Finset.mem_range.mp hk
        have hkc : k < c := by omega
        rw [hne i k hi (by omega) (by omega), hne k c (by omega) hc hcj', sw_of_lt hpj (by omega : k < j)]
      rw [hT, hsum]
      exact hleft _ c (hswn i hi) hc hcj2

theorem LuInv.foldl (n : Nat) (a : List α) (ha : a.length = n * n) :
    LuInv n a n ((List.range n).foldl (luStep n) (a, List.range n)).1
      ((List.range n).foldl (luStep n) (a, List.range n)).2 :=
  foldl_range_ind (fun m (st : List α × List Nat) => LuInv n a m st.1 st.2) (luStep n)
    (a, List.range n) n (LuInv.init n a ha) (fun m st hm h => LuInv.step n a m st.1 st.2 h hm)

/-- the loop invariant holds at exit for whatever `lu` returns -/
theorem lu_inv (a f : List α) (piv : List Nat) [LE α] [DecidableLE α]
    (h : lu a = some (f, piv)) : ∃ n, n * n = a.length ∧ LuInv n a n f piv := by
  unfold lu at h
  cases hs : isSquare a.length with
  | none => simp [hs] at h
  | some n =>
    simp only [hs, Option.bind_eq_bind, Option.bind_some, Option.pure_def, Option.some.injEq] at h
    have hn := isSquare_some hs
    refine ⟨n, hn, ?_⟩
    have := LuInv.foldl n a hn.symm
    rw [h] at this
    exact this

/-- `L[i,k]`: unit lower triangular part of the packed factor -/
def Lent (n : Nat) (f : List α) (i k : Nat) : α := if k < i then ent n f i k else if k = i then 1 else 0

/-- `U[k,c]`: upper triangular part of the packed factor -/
def Uent (n : Nat) (f : List α) (k c : Nat) : α := if k ≤ c then ent n f k c else 0

open Classical in
/-- **The product formula.**  At loop exit `(L·U)[i,c] = (P·A)[i,c] − r[i,c]`, where the residual `r[i,c]`
is the stored sub-diagonal entry `f[i,c]` when the pivot `f[c,c]` is `0` (the code skipped the
division), and `0` everywhere else. -/
theorem LuInv.product (n : Nat) (a f : List α) (piv : List Nat) (h : LuInv n a n f piv)
    (i c : Nat) (hi : i < n) (hc : c < n) :
    ∑ k ∈ range n, Lent n f i k * Uent n f k c =
      ent n a (piv.getD i 0) c - (if c < i ∧ ent n f c c = 0 then ent n f i c else 0) := by
  have hsub : ∑ k ∈ range n, Lent n f i k * Uent n f k c =
      ∑ k ∈ range (min i c + 1), Lent n f i k * Uent n f k c := by
    symm
    apply Finset.sum_subset (Finset.range_subset_range.mpr (by omega))
    intro k hk hk'
    have h1 := Finset.mem_range.mp hk
    have h2 : ¬ k < min i c + 1 := fun e => hk' (Finset.mem_range.mpr e)
    by_cases hki : k ≤ i
    · have : ¬ k ≤ c := by omega
      simp [Uent, this]
    · have h3 : ¬ k < i := by omega
      have h4 : ¬ k = i := by omega
      simp [Lent, h3, h4]
  have hlow : ∑ k ∈ range (min i c), Lent n f i k * Uent n f k c =
      ∑ k ∈ range (min i c), ent n f i k * ent n f k c := by
    apply Finset.sum_congr rfl
    intro k hk
    have hk' := Finset.mem_range.mp hk
    have h1 : k < i := by omega
    have h2 : k ≤ c := by omega
    simp [Lent, Uent, h1, h2]
  rw [hsub, Finset.sum_range_succ, hlow, ← h.hleft i c hi hc hc]
  unfold luT
  by_cases hic : i ≤ c
  · have h1 : min i c = i := by omega
    have h2 : ¬ c < i := by omega
    simp [Lent, Uent, hic, h2]
  · have h1 : min i c = c := by omega
    have h2 : c < i := by omega
    rw [h1, if_neg hic]
    by_cases hz : ent n f c c = 0
    · simp [Lent, Uent, h2, hz]
    · simp [Lent, Uent, h2, hz]

end inv
end Cv.LA.Lu
