import Compute.Model.Transforms
import Compute.Model.Binom
import Compute.Lemmas.C17Binom
import Mathlib.Analysis.SpecialFunctions.Pow.Real
import Mathlib.Analysis.SpecialFunctions.Pow.Deriv
import Mathlib.Analysis.Calculus.Deriv.Slope
import Mathlib.Analysis.SpecialFunctions.Trigonometric.Basic
import Mathlib.Tactic.Ring
import Mathlib.Tactic.Linarith
import Mathlib.Tactic.FieldSimp
/-
C17 — statistical transforms and combinatorics satisfy their defining identities.

Theorems about the models of `src/functions/combinatorial.rs` (`Compute/Model/Binom.lean`, 64-bit arithmetic
on `Nat` with explicit range checks) and `src/functions/statistical.rs` (`Compute/Model/Transforms.lean`,
instantiated at `ℝ`).

* `binom_exact`: for every `k ≤ n` whose `C(n,k)` fits in 64 bits the loop returns exactly `C(n,k)`: the guard
  does not fire, no 64-bit operation overflows, every split division is exact.  Corollaries: symmetry, Pascal's
  rule, and the converse reading "guard / overflow only when the value does not fit".
* logistic / logit over `ℝ`: reflection identity, range `(0,1)`, strict monotonicity, both inverse identities,
  rejection outside `[0,1]`.
* Box–Cox: defined iff `x > 0` (`x + α > 0`), the two formulas.
* softmax over `ℝ` (max-shifted definition): every exponent argument is `≤ 0`, the denominator is `≥ 1`, entries
  are positive, sum to one, preserve order, equal `exp xᵢ / Σ exp xⱼ`, are invariant under a common shift.
  The reals have no `-∞`: the seed of the running maximum is a parameter `b`; the statements that need it to act
  as a bottom element assume `b ≤ v` for all entries (true of `f64::NEG_INFINITY`), the others hold for every `b`.
-/
namespace Cv.C17
open Cv

/-! ## Binomial coefficient -/

/-- **C17 (binomial).** Exact value whenever it fits in 64 bits. -/
theorem binom_exact (n k : Nat) (hk : k ≤ n) (hfit : n.choose k < 2 ^ 64) :
    binomCoeff n k = .val (n.choose k) := by
  unfold binomCoeff
  rw [if_neg (by omega)]
  by_cases h : k > n - k
  · simp only [h, if_true]
    have hs : n.choose (n - k) = n.choose k := Nat.choose_symm hk
    have := binomGo_exact n (n - k) (by omega) (by rw [hs]; exact hfit) (n - k) 0 (by omega)
    rw [Nat.choose_zero_right, hs] at this
    exact this
  · simp only [h, if_false]
    have := binomGo_exact n k (by omega) hfit k 0 (by omega)
    rw [Nat.choose_zero_right] at this
    exact this

example : binomCoeff 67 33 = .val 14226520737620288370 := by
  have := binom_exact 67 33 (by norm_num) (by decide +kernel)
  rw [this]; exact congrArg BinomOut.val (by decide +kernel)

/-- `k > n`: the subtraction `n - k` underflows. -/
theorem binom_underflow (n k : Nat) (hk : n < k) : binomCoeff n k = .underflow := by
  unfold binomCoeff; rw [if_pos hk]

/-- The guard (`return 0`) or an overflow can only happen when the true value does not fit in 64 bits. -/
theorem binom_not_val_imp_large (n k : Nat) (hk : k ≤ n)
    (h : binomCoeff n k = .guard ∨ binomCoeff n k = .overflow) : 2 ^ 64 ≤ n.choose k := by
  by_contra hlt
  have := binom_exact n k hk (by omega)
  rw [this] at h
  rcases h with h | h <;> cases h

/-- Any value that is returned is the exact one (for `k ≤ n`), when `C(n,k)` is known to fit. -/
theorem binom_val_imp_exact_of_fits (n k c : Nat) (hk : k ≤ n) (hfit : n.choose k < 2 ^ 64)
    (h : binomCoeff n k = .val c) : c = n.choose k := by
  rw [binom_exact n k hk hfit] at h
  cases h; rfl

/-- **No wrong value, whatever the size.** For `k ≤ n`, if the model returns a value at all, it is `C(n,k)` and it fits
in 64 bits: a coefficient that does not fit is always stopped by the guard or by one of the overflow checks. -/
theorem binom_val_imp_exact (n k c : Nat) (hk : k ≤ n) (h : binomCoeff n k = .val c) :
    c = n.choose k ∧ n.choose k < 2 ^ 64 := by
  unfold binomCoeff at h
  rw [if_neg (by omega)] at h
  have h1 : n.choose 0 < 2 ^ 64 := by rw [Nat.choose_zero_right]; norm_num
  by_cases hh : k > n - k
  · simp only [hh, if_true] at h
    have h' : binomGo n (n - k) (n - k) (0 + 1) (n.choose 0) = .val c := by rw [Nat.choose_zero_right]; exact h
    have e := binomGo_val_imp n (n - k) (by omega) (n - k) 0 c (by omega) h'
    have f := binomGo_val_fits n (n - k) (by omega) (n - k) 0 c (by omega) h1 h'
    rw [Nat.choose_symm hk] at e
    exact ⟨e, e ▸ f⟩
  · simp only [hh, if_false] at h
    have h' : binomGo n k k (0 + 1) (n.choose 0) = .val c := by rw [Nat.choose_zero_right]; exact h
    have e := binomGo_val_imp n k hk k 0 c (by omega) h'
    have f := binomGo_val_fits n k hk k 0 c (by omega) h1 h'
    exact ⟨e, e ▸ f⟩

/-- The three outcomes are decided by the size of `C(n,k)` alone: a value iff it fits. -/
theorem binom_val_iff_fits (n k : Nat) (hk : k ≤ n) :
    (∃ c, binomCoeff n k = .val c) ↔ n.choose k < 2 ^ 64 :=
  ⟨fun ⟨c, h⟩ => (binom_val_imp_exact n k c hk h).2, fun h => ⟨_, binom_exact n k hk h⟩⟩

example : binomCoeff 5 7 = .underflow := binom_underflow 5 7 (by norm_num)
/-- non-vacuity of `binom_val_imp_exact` / `binom_val_iff_fits`: a value is returned at (67,33), none at (68,34) -/
example : (67 : Nat).choose 33 < 2 ^ 64 :=
  (binom_val_imp_exact 67 33 14226520737620288370 (by norm_num) (by decide +kernel)).2
example : ¬ ∃ c, binomCoeff 68 34 = .val c := by
  rw [binom_val_iff_fits 68 34 (by norm_num)]; decide +kernel

/-- Symmetry. -/
theorem binom_symm (n k : Nat) (hk : k ≤ n) (hfit : n.choose k < 2 ^ 64) :
    binomCoeff n (n - k) = binomCoeff n k := by
  rw [binom_exact n k hk hfit, binom_exact n (n - k) (by omega) (by rw [Nat.choose_symm hk]; exact hfit),
    Nat.choose_symm hk]

/-- Pascal's rule, whenever the largest of the three values fits. -/
theorem binom_pascal (n k : Nat) (hk : k + 1 ≤ n) (hfit : (n + 1).choose (k + 1) < 2 ^ 64) :
    ∃ a b c, binomCoeff n k = .val a ∧ binomCoeff n (k + 1) = .val b ∧
      binomCoeff (n + 1) (k + 1) = .val c ∧ a + b = c := by
  have hp : (n + 1).choose (k + 1) = n.choose k + n.choose (k + 1) := Nat.choose_succ_succ n k
  refine ⟨n.choose k, n.choose (k + 1), (n + 1).choose (k + 1),
    binom_exact n k (by omega) (by omega), binom_exact n (k + 1) hk (by omega),
    binom_exact (n + 1) (k + 1) (by omega) hfit, hp.symm⟩

example : ∃ a b c, binomCoeff 10 3 = .val a ∧ binomCoeff 10 4 = .val b ∧ binomCoeff 11 4 = .val c ∧ a + b = c :=
  binom_pascal 10 3 (by norm_num) (by decide +kernel)

/-- The guard is live: `C(68,34)` does not fit and the model reports it (here by the guard). -/
example : binomCoeff 68 34 = .guard := by decide +kernel
/-- ... and an overflow of the update before the guard is reachable too (`C(68,31) > 2^64`). -/
example : binomCoeff 68 31 = .overflow := by decide +kernel

/-! ## Real-number interface -/

/-- `Transc ℝ`: Mathlib's real functions (`pow` is `Real.rpow`). -/
noncomputable scoped instance instTranscRealC17 : Transc ℝ where
  sqrt := Real.sqrt
  exp := Real.exp
  ln := Real.log
  pow := fun x y => x ^ y
  sin := Real.sin
  cos := Real.cos
  tan := Real.tan
  abs := fun x => |x|
  floor := fun x => (⌊x⌋ : ℝ)
  ceil := fun x => (⌈x⌉ : ℝ)

theorem exp_real (x : ℝ) : Cv.exp x = Real.exp x := rfl
theorem ln_real (x : ℝ) : Cv.ln x = Real.log x := rfl
theorem pow_real (x y : ℝ) : Cv.pow x y = x ^ y := rfl

/-! ## logistic and logit -/

theorem logistic_real (x : ℝ) : logistic x = 1 / (1 + Real.exp (-x)) := rfl

theorem logistic_pos (x : ℝ) : 0 < logistic x := by
  rw [logistic_real]; have := Real.exp_pos (-x); positivity

theorem logistic_lt_one (x : ℝ) : logistic x < 1 := by
  rw [logistic_real]
  have := Real.exp_pos (-x)
  rw [div_lt_one (by linarith)]; linarith

/-- `logistic(−x) = 1 − logistic(x)` -/
theorem logistic_neg (x : ℝ) : logistic (-x) = 1 - logistic x := by
  rw [logistic_real, logistic_real, neg_neg, Real.exp_neg]
  have := Real.exp_pos x
  field_simp
  ring

theorem logistic_strictMono : StrictMono (logistic : ℝ → ℝ) := by
  intro x y hxy
  rw [logistic_real, logistic_real]
  have hx := Real.exp_pos (-x)
  have hy := Real.exp_pos (-y)
  have : Real.exp (-y) < Real.exp (-x) := Real.exp_lt_exp.2 (by linarith)
  exact one_div_lt_one_div_of_lt (by linarith) (by linarith)

theorem logistic_mono : Monotone (logistic : ℝ → ℝ) := logistic_strictMono.monotone

/-- `logit` accepts exactly `[0,1]`. -/
theorem logit_defined_iff (p : ℝ) : (logit p).isSome ↔ 0 ≤ p ∧ p ≤ 1 := by
  unfold logit; split <;> simp_all

/-- `logit` rejects (panics on) every argument outside `[0,1]`. -/
theorem logit_rejects (p : ℝ) (h : p < 0 ∨ 1 < p) : logit p = none := by
  unfold logit
  rw [if_neg]
  rintro ⟨h0, h1⟩
  rcases h with h | h <;> linarith

example : logit (2 : ℝ) = none := logit_rejects 2 (Or.inr (by norm_num))

/-- On the open interval the model's value is the real logit.  (Stated for `0 < p < 1` only: at `p = 0` and `p = 1` the
model is defined as well — `logit_defined_iff` — but over `ℝ` its value there is the junk `log 0 = 0`, `1/0 = 0` of the
totalised real functions, whereas the code returns `ln(0/1) = -inf` and `ln(1/0) = +inf`; those two are the one-sided
limits, `logit_tendsto_zero` / `logit_tendsto_one`, and the oracle checks them exactly.) -/
theorem logit_real (p : ℝ) (h0 : 0 < p) (h1 : p < 1) : logit p = some (Real.log (p / (1 - p))) := by
  unfold logit; rw [if_pos ⟨h0.le, h1.le⟩]; rfl

example : logit (1 / 4 : ℝ) = some (Real.log ((1 / 4) / (1 - 1 / 4))) := logit_real _ (by norm_num) (by norm_num)

/-- At the end points the model returns a value (no panic), like the code. -/
theorem logit_endpoints_defined : (logit (0 : ℝ)).isSome ∧ (logit (1 : ℝ)).isSome := by
  constructor <;> rw [logit_defined_iff] <;> norm_num

/-- `ln(p/(1-p)) → -∞` as `p → 0+`: the code's `logit(0) = -inf` is the one-sided limit. -/
theorem logit_tendsto_zero :
    Filter.Tendsto (fun p : ℝ => Real.log (p / (1 - p))) (nhdsWithin 0 (Set.Ioi 0)) Filter.atBot := by
  apply Real.tendsto_log_nhdsGT_zero.comp
  apply tendsto_nhdsWithin_of_tendsto_nhds_of_eventually_within
  · have : Filter.Tendsto (fun p : ℝ => p / (1 - p)) (nhds 0) (nhds (0 / (1 - 0))) :=
      (continuous_id.tendsto 0).div ((continuous_const.sub continuous_id).tendsto 0) (by norm_num)
    simpa using this.mono_left nhdsWithin_le_nhds
  · have h1 : ∀ᶠ p : ℝ in nhdsWithin 0 (Set.Ioi 0), p < 1 :=
      (eventually_lt_nhds (by norm_num : (0 : ℝ) < 1)).filter_mono nhdsWithin_le_nhds
    filter_upwards [self_mem_nhdsWithin, h1] with p hp hp1
    have hp0 : 0 < p := hp
    exact Set.mem_Ioi.2 (div_pos hp0 (by linarith))

/-- `ln(p/(1-p)) → +∞` as `p → 1-`: the code's `logit(1) = +inf` is the one-sided limit. -/
theorem logit_tendsto_one :
    Filter.Tendsto (fun p : ℝ => Real.log (p / (1 - p))) (nhdsWithin 1 (Set.Iio 1)) Filter.atTop := by
  apply Real.tendsto_log_atTop.comp
  -- p / (1 - p) = p * (1 - p)⁻¹ with p → 1 > 0 and (1 - p)⁻¹ → +∞
  have hinv : Filter.Tendsto (fun p : ℝ => (1 - p)⁻¹) (nhdsWithin 1 (Set.Iio 1)) Filter.atTop := by
    apply Filter.Tendsto.inv_tendsto_nhdsGT_zero
    apply tendsto_nhdsWithin_of_tendsto_nhds_of_eventually_within
    · have : Filter.Tendsto (fun p : ℝ => 1 - p) (nhds 1) (nhds (1 - 1)) :=
        (continuous_const.sub continuous_id).tendsto 1
      simpa using this.mono_left nhdsWithin_le_nhds
    · filter_upwards [self_mem_nhdsWithin] with p hp
      have hp1 : p < 1 := hp
      exact Set.mem_Ioi.2 (sub_pos.2 hp1)
  have hp : Filter.Tendsto (fun p : ℝ => p) (nhdsWithin 1 (Set.Iio 1)) (nhds 1) :=
    (continuous_id.tendsto 1).mono_left nhdsWithin_le_nhds
  have := Filter.Tendsto.pos_mul_atTop (by norm_num : (0 : ℝ) < 1) hp hinv
  simpa [div_eq_mul_inv] using this

/-- `logit (logistic x) = x` -/
theorem logit_logistic (x : ℝ) : logit (logistic x) = some x := by
  rw [logit_real _ (logistic_pos x) (logistic_lt_one x), logistic_real]
  have he := Real.exp_pos (-x)
  have h : (1 / (1 + Real.exp (-x))) / (1 - 1 / (1 + Real.exp (-x))) = Real.exp x := by
    rw [Real.exp_neg]
    have := Real.exp_pos x
    field_simp
    ring
  rw [h, Real.log_exp]

/-- `logistic (logit p) = p` on `(0,1)` -/
theorem logistic_logit (p : ℝ) (h0 : 0 < p) (h1 : p < 1) :
    ∃ q, logit p = some q ∧ logistic q = p := by
  refine ⟨Real.log (p / (1 - p)), logit_real p h0 h1, ?_⟩
  have hq : 0 < p / (1 - p) := div_pos h0 (by linarith)
  rw [logistic_real, Real.exp_neg, Real.exp_log hq]
  have : (1 - p) ≠ 0 := by linarith
  field_simp
  ring

example : ∃ q, logit (1 / 2 : ℝ) = some q ∧ logistic q = 1 / 2 := logistic_logit _ (by norm_num) (by norm_num)

/-! ## Box–Cox -/

theorem boxcox_defined_iff (x l : ℝ) : (boxcox x l).isSome ↔ 0 < x := by
  unfold boxcox; split <;> simp_all

theorem boxcox_rejects (x l : ℝ) (h : x ≤ 0) : boxcox x l = none := by
  unfold boxcox; rw [if_neg]; exact not_lt.2 h

theorem boxcox_formula (x l : ℝ) (hx : 0 < x) (hl : l ≠ 0) : boxcox x l = some ((x ^ l - 1) / l) := by
  unfold boxcox boxcoxBody
  rw [if_pos hx]
  simp [hl, pow_real]

theorem boxcox_zero (x : ℝ) (hx : 0 < x) : boxcox x 0 = some (Real.log x) := by
  unfold boxcox boxcoxBody
  rw [if_pos hx]
  simp [ln_real]

/-- The `λ = 0` branch is the continuous extension: `(x^λ − 1)/λ → ln x` as `λ → 0`, `λ ≠ 0`. -/
theorem boxcox_limit (x : ℝ) (hx : 0 < x) :
    Filter.Tendsto (fun l : ℝ => (x ^ l - 1) / l) (nhdsWithin 0 {0}ᶜ) (nhds (Real.log x)) := by
  have h := (Real.hasStrictDerivAt_const_rpow hx 0).hasDerivAt
  rw [hasDerivAt_iff_tendsto_slope_zero] at h
  simp only [zero_add, Real.rpow_zero, one_mul, smul_eq_mul] at h
  refine h.congr (fun l => ?_)
  rw [div_eq_inv_mul]

/-- ... stated for the model's body: `boxcoxBody x` is continuous at `λ = 0`. -/
theorem boxcoxBody_tendsto_zero (x : ℝ) (hx : 0 < x) :
    Filter.Tendsto (fun l : ℝ => boxcoxBody x l) (nhdsWithin 0 {0}ᶜ) (nhds (boxcoxBody x 0)) := by
  have e0 : boxcoxBody x (0 : ℝ) = Real.log x := by simp [boxcoxBody, ln_real]
  rw [e0]
  refine (boxcox_limit x hx).congr' ?_
  filter_upwards [self_mem_nhdsWithin] with l hl
  have : l ≠ 0 := hl
  simp [boxcoxBody, this, pow_real]

theorem boxcoxShifted_defined_iff (x l a : ℝ) : (boxcoxShifted x l a).isSome ↔ 0 < x + a := by
  unfold boxcoxShifted; split <;> simp_all

/-- The shifted transform is the one-parameter transform at `x + α` (same domain test, same body). -/
theorem boxcoxShifted_eq (x l a : ℝ) : boxcoxShifted x l a = boxcox (x + a) l := rfl

theorem boxcoxShifted_formula (x l a : ℝ) (hx : 0 < x + a) (hl : l ≠ 0) :
    boxcoxShifted x l a = some (((x + a) ^ l - 1) / l) := by
  rw [boxcoxShifted_eq]; exact boxcox_formula _ _ hx hl

theorem boxcoxShifted_zero (x a : ℝ) (hx : 0 < x + a) : boxcoxShifted x 0 a = some (Real.log (x + a)) := by
  rw [boxcoxShifted_eq]; exact boxcox_zero _ hx

/-- the witnesses of the repaired defect F31: `x = 1, α = 2` is accepted, `x = −1, α = −2` is rejected -/
example : (boxcoxShifted (1 : ℝ) (1 / 2) 2).isSome := by rw [boxcoxShifted_defined_iff]; norm_num
example : boxcoxShifted (-1 : ℝ) (1 / 2) (-2) = none := by
  rw [boxcoxShifted_eq]; exact boxcox_rejects _ _ (by norm_num)

/-! ## softmax -/

/-- Real instance of the running-maximum interface; the seed `b` stands for `f64::NEG_INFINITY`. -/
@[reducible] noncomputable def realMaxBot (b : ℝ) : MaxBot ℝ := ⟨max, b⟩

/-- The model's `softmax` at `ℝ` with seed `b`. -/
noncomputable def softmaxR (b : ℝ) (x : List ℝ) : List ℝ := letI := realMaxBot b; softmax x
/-- The model's running maximum at `ℝ` with seed `b`. -/
noncomputable def softmaxMaxR (b : ℝ) (x : List ℝ) : ℝ := letI := realMaxBot b; softmaxMax x
/-- The model's exponent arguments at `ℝ` with seed `b`. -/
noncomputable def softmaxArgsR (b : ℝ) (x : List ℝ) : List ℝ := letI := realMaxBot b; softmaxArgs x
/-- The model's denominator at `ℝ` with seed `b`. -/
noncomputable def softmaxSumR (b : ℝ) (x : List ℝ) : ℝ := letI := realMaxBot b; softmaxSum x

theorem foldl_add_eq (l : List ℝ) (a : ℝ) : l.foldl (· + ·) a = a + l.sum := by
  induction l generalizing a with
  | nil => simp
  | cons h t ih => simp [List.foldl_cons, ih, add_assoc]

theorem softmaxMaxR_eq (b : ℝ) (x : List ℝ) : softmaxMaxR b x = x.foldl max b := rfl

theorem softmaxArgsR_eq (b : ℝ) (x : List ℝ) : softmaxArgsR b x = x.map fun v => v - softmaxMaxR b x := rfl

theorem softmaxSumR_eq (b : ℝ) (x : List ℝ) :
    softmaxSumR b x = (x.map fun v => Real.exp (v - softmaxMaxR b x)).sum := by
  show (((x.map fun v => v - softmaxMaxR b x).map Real.exp).foldl (· + ·) 0) = _
  rw [foldl_add_eq, zero_add, List.map_map]; rfl

theorem softmaxR_eq (b : ℝ) (x : List ℝ) :
    softmaxR b x = x.map fun v => Real.exp (v - softmaxMaxR b x) / softmaxSumR b x := by
  show ((x.map fun v => v - softmaxMaxR b x).map fun a => Real.exp a / softmaxSumR b x) = _
  rw [List.map_map]; rfl

theorem softmax_length (b : ℝ) (x : List ℝ) : (softmaxR b x).length = x.length := by
  rw [softmaxR_eq, List.length_map]

theorem le_foldl_max (x : List ℝ) (b : ℝ) : b ≤ x.foldl max b ∧ ∀ v ∈ x, v ≤ x.foldl max b := by
  induction x generalizing b with
  | nil => simp
  | cons h t ih =>
    obtain ⟨h1, h2⟩ := ih (max b h)
    refine ⟨le_trans (le_max_left b h) h1, ?_⟩
    intro v hv
    rcases List.mem_cons.1 hv with rfl | hv
    · exact le_trans (le_max_right b v) h1
    · exact h2 v hv

theorem foldl_max_mem (x : List ℝ) (b : ℝ) : x.foldl max b = b ∨ x.foldl max b ∈ x := by
  induction x generalizing b with
  | nil => simp
  | cons h t ih =>
    rcases ih (max b h) with e | e
    · rcases max_choice b h with m | m
      · left; rw [List.foldl_cons, e, m]
      · right; rw [List.foldl_cons, e, m]; exact List.mem_cons_self
    · right; exact List.mem_cons_of_mem _ e

/-- With a seed below all entries the running maximum is an entry of a non-empty vector. -/
theorem softmaxMaxR_mem (b : ℝ) (x : List ℝ) (hx : x ≠ []) (hb : ∀ v ∈ x, b ≤ v) : softmaxMaxR b x ∈ x := by
  rw [softmaxMaxR_eq]
  rcases foldl_max_mem x b with e | e
  · obtain ⟨v, hv⟩ := List.exists_mem_of_ne_nil x hx
    have h1 := (le_foldl_max x b).2 v hv
    have h2 := hb v hv
    have : v = b := le_antisymm (by rw [e] at h1; exact h1) h2
    rw [e, ← this]; exact hv
  · exact e

/-- **No overflow for any magnitude:** every argument handed to `exp` is `≤ 0` (for every seed). -/
theorem softmax_args_nonpos (b : ℝ) (x : List ℝ) : ∀ a ∈ softmaxArgsR b x, a ≤ 0 := by
  intro a ha
  rw [softmaxArgsR_eq, List.mem_map] at ha
  obtain ⟨v, hv, rfl⟩ := ha
  have := (le_foldl_max x b).2 v hv
  rw [softmaxMaxR_eq]; linarith

/-- The denominator is positive for a non-empty vector (every seed). -/
theorem softmaxSumR_pos (b : ℝ) (x : List ℝ) (hx : x ≠ []) : 0 < softmaxSumR b x := by
  rw [softmaxSumR_eq]
  cases x with
  | nil => exact absurd rfl hx
  | cons h t =>
    rw [List.map_cons, List.sum_cons]
    have h1 : 0 < Real.exp (h - softmaxMaxR b (h :: t)) := Real.exp_pos _
    have h2 : 0 ≤ (t.map fun v => Real.exp (v - softmaxMaxR b (h :: t))).sum := by
      apply List.sum_nonneg
      intro a ha
      rw [List.mem_map] at ha
      obtain ⟨v, _, rfl⟩ := ha
      exact (Real.exp_pos _).le
    linarith

/-- **No 0/0:** with the seed acting as `-∞` the denominator is at least `exp 0 = 1`. -/
theorem softmax_denominator_ge_one (b : ℝ) (x : List ℝ) (hx : x ≠ []) (hb : ∀ v ∈ x, b ≤ v) :
    1 ≤ softmaxSumR b x := by
  rw [softmaxSumR_eq]
  have hm := softmaxMaxR_mem b x hx hb
  have h1 : Real.exp (softmaxMaxR b x - softmaxMaxR b x) ∈ x.map fun v => Real.exp (v - softmaxMaxR b x) :=
    List.mem_map.2 ⟨_, hm, rfl⟩
  rw [sub_self, Real.exp_zero] at h1
  apply List.single_le_sum _ _ h1
  intro a ha
  rw [List.mem_map] at ha
  obtain ⟨v, _, rfl⟩ := ha
  exact (Real.exp_pos _).le

/-- Entries are positive. -/
theorem softmax_pos (b : ℝ) (x : List ℝ) : ∀ p ∈ softmaxR b x, 0 < p := by
  intro p hp
  rw [softmaxR_eq, List.mem_map] at hp
  obtain ⟨v, hv, rfl⟩ := hp
  exact div_pos (Real.exp_pos _) (softmaxSumR_pos b x (List.ne_nil_of_mem hv))

/-- Entries sum to one. -/
theorem softmax_sum (b : ℝ) (x : List ℝ) (hx : x ≠ []) : (softmaxR b x).sum = 1 := by
  have hS := softmaxSumR_pos b x hx
  rw [softmaxR_eq]
  have : (x.map fun v => Real.exp (v - softmaxMaxR b x) / softmaxSumR b x)
      = (x.map fun v => Real.exp (v - softmaxMaxR b x)).map (fun e => e * (softmaxSumR b x)⁻¹) := by
    rw [List.map_map]; apply List.map_congr_left; intro v _; simp [div_eq_mul_inv]
  rw [this, List.sum_map_mul_right, List.map_id', ← softmaxSumR_eq]
  exact mul_inv_cancel₀ hS.ne'

/-- Equal to the textbook definition `exp xᵢ / Σⱼ exp xⱼ` (for every seed: the shift cancels). -/
theorem softmax_eq_exp_div (b : ℝ) (x : List ℝ) :
    softmaxR b x = x.map fun v => Real.exp v / (x.map Real.exp).sum := by
  rw [softmaxR_eq, softmaxSumR_eq]
  set M := softmaxMaxR b x
  have hs : (x.map fun v => Real.exp (v - M)).sum = (x.map Real.exp).sum * Real.exp (-M) := by
    rw [← List.sum_map_mul_right]
    congr 1; apply List.map_congr_left; intro v _
    rw [sub_eq_add_neg, Real.exp_add]
  apply List.map_congr_left
  intro v _
  rw [hs, sub_eq_add_neg, Real.exp_add]
  have := Real.exp_pos (-M)
  rw [mul_div_mul_right _ _ this.ne']

/-- Order preserving. -/
theorem softmax_order (b : ℝ) (x : List ℝ) (i j : Nat) (hi : i < x.length) (hj : j < x.length)
    (hij : x[i] ≤ x[j]) :
    (softmaxR b x)[i]'(by rw [softmax_length]; exact hi) ≤ (softmaxR b x)[j]'(by rw [softmax_length]; exact hj) := by
  have hx : x ≠ [] := by intro h; rw [h] at hi; simp at hi
  have hS := softmaxSumR_pos b x hx
  simp only [softmaxR_eq, List.getElem_map]
  apply div_le_div_of_nonneg_right _ hS.le
  exact Real.exp_le_exp.2 (by linarith)

/-- Strictly larger inputs get strictly larger probabilities. -/
theorem softmax_order_strict (b : ℝ) (x : List ℝ) (i j : Nat) (hi : i < x.length) (hj : j < x.length)
    (hij : x[i] < x[j]) :
    (softmaxR b x)[i]'(by rw [softmax_length]; exact hi) < (softmaxR b x)[j]'(by rw [softmax_length]; exact hj) := by
  have hx : x ≠ [] := by intro h; rw [h] at hi; simp at hi
  have hS := softmaxSumR_pos b x hx
  simp only [softmaxR_eq, List.getElem_map]
  apply div_lt_div_of_pos_right _ hS
  exact Real.exp_lt_exp.2 (by linarith)

/-- Invariant under adding a constant to all inputs (whatever the seeds). -/
theorem softmax_shift (b b' c : ℝ) (x : List ℝ) : softmaxR b' (x.map (· + c)) = softmaxR b x := by
  rw [softmax_eq_exp_div, softmax_eq_exp_div, List.map_map, List.map_map]
  have hs : (x.map (Real.exp ∘ fun v => v + c)).sum = (x.map Real.exp).sum * Real.exp c := by
    rw [← List.sum_map_mul_right]
    congr 1; apply List.map_congr_left; intro v _
    simp [Real.exp_add]
  apply List.map_congr_left
  intro v _
  simp only [Function.comp]
  rw [hs, Real.exp_add]
  have := Real.exp_pos c
  rw [mul_div_mul_right _ _ this.ne']

/-- non-vacuity: the witness of the repaired defect F30 (`[1000, 1001]`), every statement applies -/
example : (softmaxR (-1) [1000, 1001]).sum = 1 := softmax_sum _ _ (by simp)
example : 1 ≤ softmaxSumR (-1) [1000, 1001] := softmax_denominator_ge_one _ _ (by simp) (by
  intro v hv; simp at hv; rcases hv with rfl | rfl <;> norm_num)

end Cv.C17
