import Compute.Model.Poly
import Compute.Lemmas.C14
import Mathlib.Algebra.BigOperators.Ring.Finset
import Mathlib.Algebra.Order.BigOperators.Ring.Finset
import Mathlib.Algebra.Order.Field.Basic
import Mathlib.LinearAlgebra.Matrix.NonsingularInverse
import Mathlib.Tactic.Ring
import Mathlib.Tactic.Linarith
/-
C14 — polynomial regression returns the least-squares polynomial.

Theorems about the executable model `Cv.Poly.{vandermonde, horner, predict, fit}` (Model/Poly.lean, the
same definitions the `Float` driver runs) instantiated at an arbitrary field / ordered field.

The inverse of the normal matrix is abstract: `fit` calls `invert_matrix`, and the theorems about the
fitted coefficients take as hypothesis that the matrix it returned is an exact inverse
(`IsInverse p g ginv`: `g · ginv = I`).  Everything else (Vandermonde construction through `powi`,
`xtx`, the two `matmul`s, Horner evaluation over the reversed coefficients) is proved about the code
path itself.  Floating-point rounding is outside these theorems (see NOT_PROVED in tools/cv/c14.py).
-/
namespace Cv.C14
open Cv Cv.Poly Cv.C14L

/-! ## prediction -/

/-- **predict_spec.**  For every coefficient list, `predict` evaluates `c₀ + c₁x + … + c_d x^d` at each
point (Horner over the reversed coefficients = the polynomial with `coef[i]` the coefficient of `xⁱ`). -/
theorem predict_spec {α : Type} [CommSemiring α] (c x : List α) :
    predict c x = x.map fun v => ∑ i ∈ Finset.range c.length, c.getD i 0 * v ^ i := by
  unfold predict
  exact List.map_congr_left fun v _ => horner_eq_sum c v

example : predict ([1, 2, 3] : List Int) [2, -1] = [17, 2] := by decide

/-! ## the Vandermonde matrix -/

/-- **vandermonde_entry.**  `V[i,j] = xᵢʲ` (row-major, `p` columns).  The guard `p ≤ 2³¹` is the range in which
the source's cast `i as i32` is the identity. -/
theorem vandermonde_entry {α : Type} [Monoid α] [Div α] [Inhabited α] (x : List α) (p i j : Nat)
    (hp : p ≤ 2 ^ 31) (hi : i < x.length) (hj : j < p) :
    (vandermonde x p).length = x.length * p ∧ (vandermonde x p)[i * p + j]! = x[i]! ^ j := by
  refine ⟨vandermonde_length x p, ?_⟩
  rw [vandermonde_get x p i j hi hj, powi_natCast]
  have : (2 : Nat) ^ 31 < 2 ^ 64 := by norm_num
  omega

example : vandermonde ([2, 3] : List Rat) 3 = [1, 2, 4, 1, 3, 9] := by decide +kernel

/-! ## the fit -/

section field
variable {α : Type} [Field α] [LT α] [DecidableLT α] [LE α] [DecidableLE α] [BEq α] [Transc α] [Inhabited α]

/-- `ginv` is an exact inverse of the `p × p` row-major matrix `g`: right shape and `g · ginv = I`. -/
def IsInverse (p : Nat) (g ginv : List α) : Prop :=
  ginv.length = p * p ∧
    ∀ i j, i < p → j < p → ∑ k ∈ Finset.range p, g[i * p + k]! * ginv[k * p + j]! = if i = j then 1 else 0

omit [LT α] [DecidableLT α] [LE α] [DecidableLE α] [BEq α] [Transc α] in
/-- A right inverse of a square matrix over a field is a left inverse. -/
theorem IsInverse.left {p : Nat} {g ginv : List α} (h : IsInverse p g ginv) :
    ∀ i j, i < p → j < p → ∑ k ∈ Finset.range p, ginv[i * p + k]! * g[k * p + j]! = if i = j then 1 else 0 := by
  intro i j hi hj
  let M : Matrix (Fin p) (Fin p) α := fun a b => g[a.1 * p + b.1]!
  let N : Matrix (Fin p) (Fin p) α := fun a b => ginv[a.1 * p + b.1]!
  have hMN : M * N = 1 := by
    ext a b
    rw [Matrix.mul_apply, Matrix.one_apply]
    have := h.2 a.1 b.1 a.2 b.2
    rw [← Fin.sum_univ_eq_sum_range (fun k => g[a.1 * p + k]! * ginv[k * p + b.1]!) p] at this
    rw [this]
    simp [Fin.ext_iff]
  have hNM : N * M = 1 := mul_eq_one_comm.mp hMN
  have := congrFun (congrFun hNM ⟨i, hi⟩) ⟨j, hj⟩
  rw [Matrix.mul_apply, Matrix.one_apply] at this
  rw [← Fin.sum_univ_eq_sum_range (fun k => ginv[i * p + k]! * g[k * p + j]!) p]
  simpa [Fin.ext_iff, M, N] using this

omit [LT α] [DecidableLT α] [LE α] [DecidableLE α] [BEq α] [Transc α] [Inhabited α] in
/-- `Σ_k G[j,k] Σ_m N[k,m] B[m] = B[j]` when row `j` of `G·N` is row `j` of the identity. -/
theorem mul_inv_apply {p : Nat} (G N : Nat → Nat → α) (B : Nat → α) (j : Nat) (hj : j < p)
    (h : ∀ m, m < p → ∑ k ∈ Finset.range p, G j k * N k m = if j = m then 1 else 0) :
    ∑ k ∈ Finset.range p, G j k * ∑ m ∈ Finset.range p, N k m * B m = B j := by
  simp_rw [Finset.mul_sum]
  rw [Finset.sum_comm]
  calc ∑ m ∈ Finset.range p, ∑ k ∈ Finset.range p, G j k * (N k m * B m)
      = ∑ m ∈ Finset.range p, (∑ k ∈ Finset.range p, G j k * N k m) * B m := by
        apply Finset.sum_congr rfl; intro m _
        rw [Finset.sum_mul]; apply Finset.sum_congr rfl; intro k _; ring
    _ = ∑ m ∈ Finset.range p, (if j = m then 1 else 0) * B m :=
        Finset.sum_congr rfl fun m hm => by rw [h m (Finset.mem_range.mp hm)]
    _ = B j := by simp [hj]

/-- **fit_normal_equations.**  If `invert_matrix` returned an exact inverse of the normal matrix `VᵀV`, the
fitted coefficients satisfy the normal equations `(VᵀV) c = Vᵀ y`, written out with `V[i,j] = xᵢʲ`. -/
theorem fit_normal_equations (p : Nat) (x y g ginv : List α) (hp : 0 < p) (hp31 : p ≤ 2 ^ 31)
    (hn : 0 < x.length) (hxy : x.length = y.length)
    (hg : xtx (vandermonde x p) x.length = some g) (hinv : invertMatrix g = some ginv)
    (hI : IsInverse p g ginv) :
    ∃ c, fit p x y = some c ∧ c.length = p ∧
      ∀ j, j < p →
        ∑ k ∈ Finset.range p, (∑ i ∈ Finset.range x.length, x[i]! ^ j * x[i]! ^ k) * c[k]! =
          ∑ i ∈ Finset.range x.length, x[i]! ^ j * y[i]! := by
  obtain ⟨c, hc1, hc2, hc3⟩ := fit_unfold p x y g ginv hp hn hxy hg hinv hI.1
  refine ⟨c, hc1, hc2, fun j hj => ?_⟩
  -- entries of g and of Vᵀy in terms of powers
  obtain ⟨g', hg1, _, hg3, _⟩ := C05.xtx_spec (vandermonde x p) x.length p (vandermonde_length x p) hn
  have hgg : g' = g := by rw [hg] at hg1; exact (Option.some.inj hg1).symm
  subst hgg
  have hV : ∀ r k, r < x.length → k < p → (vandermonde x p)[r * p + k]! = x[r]! ^ k :=
    fun r k hr hk => (vandermonde_entry x p r k hp31 hr hk).2
  have hG : ∀ k, k < p → ∑ i ∈ Finset.range x.length, x[i]! ^ j * x[i]! ^ k = g'[j * p + k]! := by
    intro k hk
    rw [hg3 j k hj hk]
    exact Finset.sum_congr rfl fun r hr => by
      rw [hV r j (Finset.mem_range.mp hr) hj, hV r k (Finset.mem_range.mp hr) hk]
  have hb : ∀ k, k < p → ∑ r ∈ Finset.range x.length, (vandermonde x p)[r * p + k]! * y[r]! =
      ∑ r ∈ Finset.range x.length, x[r]! ^ k * y[r]! :=
    fun k hk => Finset.sum_congr rfl fun r hr => by rw [hV r k (Finset.mem_range.mp hr) hk]
  rw [← mul_inv_apply (fun a b => g'[a * p + b]!) (fun a b => ginv[a * p + b]!)
    (fun m => ∑ r ∈ Finset.range x.length, x[r]! ^ m * y[r]!) j hj (fun m hm => hI.2 j m hj hm)]
  apply Finset.sum_congr rfl
  intro k hk
  have hk' := Finset.mem_range.mp hk
  rw [hG k hk', hc3 k hk']
  congr 1
  exact Finset.sum_congr rfl fun m hm => by rw [hb m (Finset.mem_range.mp hm)]

omit [LT α] [DecidableLT α] [LE α] [DecidableLE α] [BEq α] [Transc α] in
theorem horner_eq_sum_bang (c : List α) (v : α) :
    horner c v = ∑ k ∈ Finset.range c.length, c[k]! * v ^ k := by
  rw [horner_eq_sum]
  exact Finset.sum_congr rfl fun k hk => by
    have hk' := Finset.mem_range.mp hk
    rw [getElem!_pos c k hk']; simp [List.getD_eq_getElem?_getD, hk']

/-- **fit_orthogonal.**  Under the same hypothesis the residual of the fitted polynomial is orthogonal to every
power `x⁰ … x^d`: `Σᵢ xᵢʲ (yᵢ − p_c(xᵢ)) = 0`, where `p_c` is what `predict` evaluates. -/
theorem fit_orthogonal (p : Nat) (x y g ginv : List α) (hp : 0 < p) (hp31 : p ≤ 2 ^ 31)
    (hn : 0 < x.length) (hxy : x.length = y.length)
    (hg : xtx (vandermonde x p) x.length = some g) (hinv : invertMatrix g = some ginv)
    (hI : IsInverse p g ginv) :
    ∃ c, fit p x y = some c ∧ c.length = p ∧
      ∀ j, j < p → ∑ i ∈ Finset.range x.length, x[i]! ^ j * (y[i]! - horner c x[i]!) = 0 := by
  obtain ⟨c, hc1, hc2, hc3⟩ := fit_normal_equations p x y g ginv hp hp31 hn hxy hg hinv hI
  refine ⟨c, hc1, hc2, fun j hj => ?_⟩
  have h := hc3 j hj
  simp_rw [mul_sub, Finset.sum_sub_distrib]
  rw [← h, sub_eq_zero]
  simp_rw [horner_eq_sum_bang, hc2, Finset.mul_sum, Finset.sum_mul]
  rw [Finset.sum_comm]
  exact Finset.sum_congr rfl fun i _ => Finset.sum_congr rfl fun k _ => by ring

/-- **fit_reproduces.**  Data generated by a polynomial with `p` coefficients are reproduced: if
`yᵢ = p_{c₀}(xᵢ)` for every `i`, the fit returns `c₀`. -/
theorem fit_reproduces (p : Nat) (x y g ginv c0 : List α) (hp : 0 < p) (hp31 : p ≤ 2 ^ 31)
    (hn : 0 < x.length) (hxy : x.length = y.length)
    (hg : xtx (vandermonde x p) x.length = some g) (hinv : invertMatrix g = some ginv)
    (hI : IsInverse p g ginv) (hc0 : c0.length = p)
    (hy : ∀ i, i < x.length → y[i]! = horner c0 x[i]!) :
    fit p x y = some c0 := by
  obtain ⟨c, hc1, hc2, hc3⟩ := fit_unfold p x y g ginv hp hn hxy hg hinv hI.1
  rw [hc1]
  congr 1
  apply List.ext_getElem (by rw [hc2, hc0])
  intro i h1 h2
  have hi : i < p := by rw [← hc2]; exact h1
  have e1 : c[i] = c[i]! := (getElem!_pos c i h1).symm
  have e2 : c0[i] = c0[i]! := (getElem!_pos c0 i h2).symm
  rw [e1, e2, hc3 i hi]
  obtain ⟨g', hg1, _, hg3, _⟩ := C05.xtx_spec (vandermonde x p) x.length p (vandermonde_length x p) hn
  have hgg : g' = g := by rw [hg] at hg1; exact (Option.some.inj hg1).symm
  subst hgg
  have hV : ∀ r k, r < x.length → k < p → (vandermonde x p)[r * p + k]! = x[r]! ^ k :=
    fun r k hr hk => (vandermonde_entry x p r k hp31 hr hk).2
  -- Vᵀ y = G c₀
  have hb : ∀ k, k < p → ∑ r ∈ Finset.range x.length, (vandermonde x p)[r * p + k]! * y[r]! =
      ∑ m ∈ Finset.range p, g'[k * p + m]! * c0[m]! := by
    intro k hk
    have h1 : ∀ m, m < p → g'[k * p + m]! * c0[m]! =
        ∑ r ∈ Finset.range x.length, (vandermonde x p)[r * p + k]! * (c0[m]! * x[r]! ^ m) := by
      intro m hm
      rw [hg3 k m hk hm, Finset.sum_mul]
      exact Finset.sum_congr rfl fun r hr => by rw [hV r m (Finset.mem_range.mp hr) hm]; ring
    rw [Finset.sum_congr rfl fun m hm => h1 m (Finset.mem_range.mp hm), Finset.sum_comm]
    apply Finset.sum_congr rfl
    intro r hr
    rw [hy r (Finset.mem_range.mp hr), horner_eq_sum_bang, hc0, Finset.mul_sum]
  rw [Finset.sum_congr rfl fun k hk => by rw [hb k (Finset.mem_range.mp hk)]]
  exact mul_inv_apply (fun a b => ginv[a * p + b]!) (fun a b => g'[a * p + b]!) (fun m => c0[m]!) i hi
    (fun m hm => hI.left i m hi hm)

end field

/-! ## minimality (ordered field) -/

section ordered
variable {α : Type} [Field α] [LinearOrder α] [IsStrictOrderedRing α] [BEq α] [Transc α] [Inhabited α]

/-- residual sum of squares of the polynomial with coefficients `c` (as evaluated by `predict`) -/
def rss (x y c : List α) : α := ∑ i ∈ Finset.range x.length, (y[i]! - horner c x[i]!) ^ 2

/-- **fit_minimal.**  With an exact inverse of the normal matrix, the fitted coefficients minimise the residual
sum of squares: for every other coefficient vector `c'` of the same length,
`rss c' = rss c + ‖V (c' − c)‖² ≥ rss c`. -/
theorem fit_minimal (p : Nat) (x y g ginv : List α) (hp : 0 < p) (hp31 : p ≤ 2 ^ 31)
    (hn : 0 < x.length) (hxy : x.length = y.length)
    (hg : xtx (vandermonde x p) x.length = some g) (hinv : invertMatrix g = some ginv)
    (hI : IsInverse p g ginv) :
    ∃ c, fit p x y = some c ∧ c.length = p ∧
      ∀ c' : List α, c'.length = p →
        rss x y c' = rss x y c + ∑ i ∈ Finset.range x.length, (horner c' x[i]! - horner c x[i]!) ^ 2 ∧
        rss x y c ≤ rss x y c' := by
  obtain ⟨c, hc1, hc2, hc3⟩ := fit_orthogonal p x y g ginv hp hp31 hn hxy hg hinv hI
  refine ⟨c, hc1, hc2, fun c' hc' => ?_⟩
  -- the cross term vanishes by orthogonality
  have hcross : ∑ i ∈ Finset.range x.length, (y[i]! - horner c x[i]!) * (horner c' x[i]! - horner c x[i]!) = 0 := by
    have hq : ∀ v : α, horner c' v - horner c v = ∑ k ∈ Finset.range p, (c'[k]! - c[k]!) * v ^ k := by
      intro v
      rw [horner_eq_sum_bang, horner_eq_sum_bang, hc', hc2, ← Finset.sum_sub_distrib]
      exact Finset.sum_congr rfl fun k _ => by ring
    simp_rw [hq, Finset.mul_sum]
    rw [Finset.sum_comm]
    apply Finset.sum_eq_zero
    intro k hk
    have := hc3 k (Finset.mem_range.mp hk)
    calc ∑ i ∈ Finset.range x.length, (y[i]! - horner c x[i]!) * ((c'[k]! - c[k]!) * x[i]! ^ k)
        = (c'[k]! - c[k]!) * ∑ i ∈ Finset.range x.length, x[i]! ^ k * (y[i]! - horner c x[i]!) := by
          rw [Finset.mul_sum]; exact Finset.sum_congr rfl fun i _ => by ring
      _ = 0 := by rw [this, mul_zero]
  have hsplit : rss x y c' = rss x y c + ∑ i ∈ Finset.range x.length, (horner c' x[i]! - horner c x[i]!) ^ 2 := by
    unfold rss
    have : ∀ i : Nat, (y[i]! - horner c' x[i]!) ^ 2 = (y[i]! - horner c x[i]!) ^ 2
        - 2 * ((y[i]! - horner c x[i]!) * (horner c' x[i]! - horner c x[i]!))
        + (horner c' x[i]! - horner c x[i]!) ^ 2 := fun i => by ring
    simp_rw [this, Finset.sum_add_distrib, Finset.sum_sub_distrib, ← Finset.mul_sum, hcross]
    ring
  refine ⟨hsplit, ?_⟩
  rw [hsplit]
  have : 0 ≤ ∑ i ∈ Finset.range x.length, (horner c' x[i]! - horner c x[i]!) ^ 2 :=
    Finset.sum_nonneg fun i _ => sq_nonneg _
  linarith

end ordered

/-! ## rejected inputs -/

section reject
variable {α : Type} [Add α] [Sub α] [Mul α] [Div α] [Zero α] [One α] [NatCast α]
  [LT α] [DecidableLT α] [LE α] [DecidableLE α] [BEq α] [Transc α] [Inhabited α]

/-- `assert_eq!(x.len(), y.len())`. -/
theorem fit_rejects_mismatch (p : Nat) (x y : List α) (h : x.length ≠ y.length) : fit p x y = none := by
  unfold fit; rw [if_pos h]

/-- No data: `is_matrix(xv, 0)` divides by zero. -/
theorem fit_rejects_empty (p : Nat) : fit p ([] : List α) [] = none := by
  simp [fit, xtx, matmul, matmulChecks, isMatrix]

end reject

/-! ## non-vacuity: a concrete exact fit over ℚ -/

section witness

/-- exact rationals; `sqrt` is only ever taken of the pivot `4` below -/
local instance instTranscRatC14 : Cv.Transc ℚ where
  sqrt x := if x = 4 then 2 else x
  exp x := x
  ln x := x
  pow x _ := x
  sin x := x
  cos x := x
  tan x := x
  abs x := |x|
  floor x := x
  ceil x := x

/-- The hypotheses of the fit theorems are satisfiable: on `x = (−1,−1,1,1)` the model computes the normal matrix
`4·I`, `invert_matrix` returns its exact inverse, and the fit is the least-squares line `9/2 + 5/2·x`. -/
example : xtx (vandermonde ([-1, -1, 1, 1] : List ℚ) 2) 4 = some [4, 0, 0, 4] ∧
    invertMatrix ([4, 0, 0, 4] : List ℚ) = some [1 / 4, 0, 0, 1 / 4] ∧
    fit 2 ([-1, -1, 1, 1] : List ℚ) [1, 3, 5, 9] = some [9 / 2, 5 / 2] := by
  refine ⟨by decide +kernel, by decide +kernel, by decide +kernel⟩

example : IsInverse 2 ([4, 0, 0, 4] : List ℚ) [1 / 4, 0, 0, 1 / 4] := by
  refine ⟨rfl, ?_⟩
  intro i j hi hj
  have hi' : i = 0 ∨ i = 1 := by omega
  have hj' : j = 0 ∨ j = 1 := by omega
  rcases hi' with rfl | rfl <;> rcases hj' with rfl | rfl <;> norm_num [Finset.sum_range_succ]

end witness

end Cv.C14
