import Compute.Model.BinomAlt
import Compute.Lemmas.C09
import Mathlib.Analysis.SpecialFunctions.Gamma.Basic
import Mathlib.Analysis.SpecialFunctions.Exponential
import Mathlib.Data.Nat.Choose.Basic
import Mathlib.Algebra.Order.Floor.Semiring
import Mathlib.Tactic.Ring
import Mathlib.Tactic.Linarith
import Mathlib.Tactic.FieldSimp
import Mathlib.Tactic.NormNum
import Mathlib.Tactic.Positivity
/-
C17 (continued) — `binom_coeff_alt`, the log-gamma-based binomial coefficient (`Compute/Model/BinomAlt.lean`; the
source takes the three logarithms from `ln_gamma` since the repair F52).

Over `ℝ`, with the log-gamma function as a parameter of the model (`binomCoeffAltWith lg`):
* `gamma_ratio_eq_choose`, `altValue_ideal`, `binomAlt_ideal`: with the ideal `ln Γ` the value handed to `.round()` is
  exactly `C(n,k)` and the function returns it whenever it fits in 64 bits;
* `binomAlt_exact_of_acc`: for ANY log-gamma within ABSOLUTE error `δ` of `ln Γ` at the three arguments
  (`LogGammaAcc`), the value lies within the factors `e^{∓3δ}` of `C(n,k)` (`altValue_bounds`) and
  `C(n,k)·(e^{3δ} − 1) < 1/2` implies that the rounded result is exactly `C(n,k)`;
  `logGammaAcc_of_rel`, `binomAlt_exact_of_relAcc`: a bound `ε·max(1, ln Γ)` relative to the magnitude (the form C09's
  oracle enforces, `ε = 10⁻¹²`) gives `δ = ε·max(1, ln Γ(n+1))`;
  `binomAlt_exact_1e9`, `binomAlt_exact_rel_1e12`: stated numbers: `δ = 10⁻⁹` (which `ε = 10⁻¹²` yields whenever
  `ln Γ(n+1) ≤ 1000`, i.e. for all `n ≤ 225`) makes the result exact for every `C(n,k) ≤ 1.6·10⁸`;
  `binomCoeffAlt_exact_of_acc`, `binomCoeffAlt_exact_1e9`: the same for the model of the Rust `ln_gamma` at `ℝ`;
* `binomAlt_symm`: symmetry over every commutative additive group (not IEEE doubles); `binomAlt_underflow`: `k > n`
  panics for every scalar type.
Not covered here: the rounding errors of the two subtractions and of `exp` at `f64` (the oracle adds them to the bound)
and the accuracy `LogGammaAcc lnGammaFn δ` itself (an approximation-theoretic fact about the Lanczos sum, measured by
C09's oracle).
-/
namespace Cv.C17
open Cv
open scoped Cv.C09

/-- `x.round() as u64` over `ℝ`: round half away from zero (`⌊x + 1/2⌋` for `x ≥ 0`, and every negative `x` is sent
to `0` by the cast), then saturation at `2^64 - 1`. -/
noncomputable scoped instance instRoundU64Real : RoundU64 ℝ := ⟨fun x => min ⌊x + 1 / 2⌋₊ (2 ^ 64 - 1)⟩

theorem roundToU64_real (x : ℝ) : RoundU64.roundToU64 x = min ⌊x + 1 / 2⌋₊ (2 ^ 64 - 1) := rfl

/-- A real within `1/2` of a natural number below `2^64` rounds to it. -/
theorem round_eq_of_close (x : ℝ) (c : ℕ) (hc : c < 2 ^ 64) (h1 : (c : ℝ) - 1 / 2 ≤ x) (h2 : x < (c : ℝ) + 1 / 2) :
    RoundU64.roundToU64 x = c := by
  rw [roundToU64_real]
  have hf : ⌊x + 1 / 2⌋₊ = c := by
    rw [Nat.floor_eq_iff (by linarith [Nat.cast_nonneg (α := ℝ) c])]
    constructor <;> linarith
  rw [hf]; omega

/-- `Γ(n+1) / (Γ(k+1) Γ(n-k+1)) = C(n,k)` -/
theorem gamma_ratio_eq_choose (n k : ℕ) (hk : k ≤ n) :
    Real.Gamma ((n : ℝ) + 1) / (Real.Gamma ((k : ℝ) + 1) * Real.Gamma (((n - k : ℕ) : ℝ) + 1)) = (n.choose k : ℝ) := by
  rw [Real.Gamma_nat_eq_factorial, Real.Gamma_nat_eq_factorial, Real.Gamma_nat_eq_factorial]
  have h := Nat.choose_mul_factorial_mul_factorial hk
  have hk0 : (k.factorial : ℝ) ≠ 0 := Nat.cast_ne_zero.2 (Nat.factorial_ne_zero k)
  have hnk0 : ((n - k).factorial : ℝ) ≠ 0 := Nat.cast_ne_zero.2 (Nat.factorial_ne_zero _)
  rw [div_eq_iff (mul_ne_zero hk0 hnk0), ← h]
  push_cast; ring

/-- The value handed to `.round()` when the log-gamma function is `lg`. -/
noncomputable def altValue (lg : ℝ → ℝ) (n k : ℕ) : ℝ :=
  Real.exp ((lg ((n : ℝ) + 1) - lg ((k : ℝ) + 1)) - lg (((n - k : ℕ) : ℝ) + 1))

theorem binomCoeffAltWith_real (lg : ℝ → ℝ) (n k : ℕ) (hk : k ≤ n) :
    binomCoeffAltWith lg n k = some (RoundU64.roundToU64 (altValue lg n k)) := by
  unfold binomCoeffAltWith altValue
  rw [if_neg (by omega)]; rfl

/-- **k > n.** The subtraction `n - k` underflows: panic (for every scalar type and every log-gamma). -/
theorem binomAlt_underflow {α : Type} [Add α] [Sub α] [One α] [NatCast α] [Transc α] [RoundU64 α]
    (lg : α → α) (n k : ℕ) (hk : n < k) : binomCoeffAltWith lg n k = none := by
  unfold binomCoeffAltWith; rw [if_pos hk]

theorem gamma_nat_pos (m : ℕ) : 0 < Real.Gamma ((m : ℝ) + 1) :=
  Real.Gamma_pos_of_pos (by positivity)

/-- The ideal log-gamma. -/
noncomputable def lnGammaIdeal (x : ℝ) : ℝ := Real.log (Real.Gamma x)

/-- `ln Γ(n+1) − ln Γ(k+1) − ln Γ(n−k+1) = ln C(n,k)` -/
theorem log_gamma_diff_eq (n k : ℕ) (hk : k ≤ n) :
    (lnGammaIdeal ((n : ℝ) + 1) - lnGammaIdeal ((k : ℝ) + 1)) - lnGammaIdeal (((n - k : ℕ) : ℝ) + 1)
      = Real.log (n.choose k : ℝ) := by
  unfold lnGammaIdeal
  rw [← gamma_ratio_eq_choose n k hk, Real.log_div (gamma_nat_pos n).ne'
    (mul_pos (gamma_nat_pos k) (gamma_nat_pos (n - k))).ne', Real.log_mul (gamma_nat_pos k).ne' (gamma_nat_pos (n - k)).ne']
  ring

theorem choose_cast_pos (n k : ℕ) (hk : k ≤ n) : (0 : ℝ) < (n.choose k : ℝ) :=
  Nat.cast_pos.2 (Nat.choose_pos hk)

/-- **Ideal log-gamma.** `exp(ln Γ(n+1) − ln Γ(k+1) − ln Γ(n−k+1)) = C(n,k)` for `k ≤ n`. -/
theorem altValue_ideal (n k : ℕ) (hk : k ≤ n) : altValue lnGammaIdeal n k = (n.choose k : ℝ) := by
  unfold altValue
  rw [log_gamma_diff_eq n k hk, Real.exp_log (choose_cast_pos n k hk)]

/-- With the ideal log-gamma the function returns `C(n,k)` exactly whenever it fits in 64 bits. -/
theorem binomAlt_ideal (n k : ℕ) (hk : k ≤ n) (hfit : n.choose k < 2 ^ 64) :
    binomCoeffAltWith lnGammaIdeal n k = some (n.choose k) := by
  rw [binomCoeffAltWith_real _ _ _ hk, altValue_ideal n k hk]
  congr 1
  exact round_eq_of_close _ _ hfit (by linarith) (by linarith)

example : binomCoeffAltWith lnGammaIdeal 10 3 = some 120 := by
  have := binomAlt_ideal 10 3 (by norm_num) (by decide +kernel)
  rw [this]; congr 1

/-- Accuracy predicate on the log-gamma function that is plugged in: ABSOLUTE error at most `δ` at the arguments
`m + 1`, `m ≤ N` (the only arguments `binom_coeff_alt n k` uses, with `N = n`). -/
def LogGammaAcc (lg : ℝ → ℝ) (δ : ℝ) (N : ℕ) : Prop :=
  ∀ m : ℕ, m ≤ N → |lg ((m : ℝ) + 1) - lnGammaIdeal ((m : ℝ) + 1)| ≤ δ

/-- The form C09's oracle enforces for `ln_gamma`: error at most `ε·max(1, |ln Γ|)`. -/
def LogGammaRelAcc (lg : ℝ → ℝ) (ε : ℝ) (N : ℕ) : Prop :=
  ∀ m : ℕ, m ≤ N → |lg ((m : ℝ) + 1) - lnGammaIdeal ((m : ℝ) + 1)| ≤ ε * max 1 (lnGammaIdeal ((m : ℝ) + 1))

/-- non-vacuity: the ideal log-gamma satisfies both predicates -/
example (δ : ℝ) (hδ : 0 ≤ δ) (N : ℕ) : LogGammaAcc lnGammaIdeal δ N := by
  intro m _; rw [sub_self, abs_zero]; exact hδ
example (ε : ℝ) (hε : 0 ≤ ε) (N : ℕ) : LogGammaRelAcc lnGammaIdeal ε N := by
  intro m _; rw [sub_self, abs_zero]; exact mul_nonneg hε (le_trans zero_le_one (le_max_left _ _))

/-- `ln Γ(m+1) = ln m!` is non-decreasing in `m`. -/
theorem lnGammaIdeal_mono {m n : ℕ} (h : m ≤ n) : lnGammaIdeal ((m : ℝ) + 1) ≤ lnGammaIdeal ((n : ℝ) + 1) := by
  unfold lnGammaIdeal
  rw [Real.Gamma_nat_eq_factorial, Real.Gamma_nat_eq_factorial]
  apply Real.log_le_log (Nat.cast_pos.2 (Nat.factorial_pos m))
  exact_mod_cast Nat.factorial_le h

/-- A magnitude-relative bound `ε` is an absolute bound `δ = ε·max(1, ln Γ(n+1))` on `m ≤ n`. -/
theorem logGammaAcc_of_rel (lg : ℝ → ℝ) (ε : ℝ) (n : ℕ) (hε : 0 ≤ ε) (h : LogGammaRelAcc lg ε n) :
    LogGammaAcc lg (ε * max 1 (lnGammaIdeal ((n : ℝ) + 1))) n := by
  intro m hm
  refine le_trans (h m hm) (mul_le_mul_of_nonneg_left ?_ hε)
  exact max_le_max (le_refl _) (lnGammaIdeal_mono hm)

/-- Two-sided bound on the value handed to `.round()` for a log-gamma with absolute accuracy `δ`. -/
theorem altValue_bounds (lg : ℝ → ℝ) (δ : ℝ) (n k : ℕ) (hk : k ≤ n) (hacc : LogGammaAcc lg δ n) :
    (n.choose k : ℝ) * Real.exp (-(3 * δ)) ≤ altValue lg n k ∧
      altValue lg n k ≤ (n.choose k : ℝ) * Real.exp (3 * δ) := by
  have a1 := abs_le.1 (hacc n (le_refl _))
  have a2 := abs_le.1 (hacc k hk)
  have a3 := abs_le.1 (hacc (n - k) (Nat.sub_le _ _))
  have hd := log_gamma_diff_eq n k hk
  have hC := choose_cast_pos n k hk
  have e1 : (n.choose k : ℝ) * Real.exp (-(3 * δ)) = Real.exp (Real.log (n.choose k : ℝ) - 3 * δ) := by
    rw [sub_eq_add_neg, Real.exp_add, Real.exp_log hC]
  have e2 : (n.choose k : ℝ) * Real.exp (3 * δ) = Real.exp (Real.log (n.choose k : ℝ) + 3 * δ) := by
    rw [Real.exp_add, Real.exp_log hC]
  rw [e1, e2]
  unfold altValue
  constructor <;> apply Real.exp_le_exp.2 <;> linarith [a1.1, a1.2, a2.1, a2.2, a3.1, a3.2]

/-- `1 − e^{−x} ≤ e^{x} − 1`: the downward deviation is the smaller one. -/
theorem lower_dev_le_upper_dev (x : ℝ) : 1 - Real.exp (-x) ≤ Real.exp x - 1 := by
  have h1 := Real.add_one_le_exp x
  have h2 := Real.add_one_le_exp (-x)
  linarith

/-- **Exactness from accuracy.** If the log-gamma function used is within absolute error `δ` of `ln Γ` at the three
arguments and `C(n,k)·(e^{3δ} − 1) < 1/2`, the rounded result is `C(n,k)` exactly. -/
theorem binomAlt_exact_of_acc (lg : ℝ → ℝ) (δ : ℝ) (n k : ℕ) (hk : k ≤ n)
    (hacc : LogGammaAcc lg δ n) (hfit : n.choose k < 2 ^ 64)
    (hC : (n.choose k : ℝ) * (Real.exp (3 * δ) - 1) < 1 / 2) :
    binomCoeffAltWith lg n k = some (n.choose k) := by
  obtain ⟨lo, hi⟩ := altValue_bounds lg δ n k hk hacc
  have hdev := lower_dev_le_upper_dev (3 * δ)
  have hCn : (0 : ℝ) ≤ (n.choose k : ℝ) := Nat.cast_nonneg _
  have hlow : (n.choose k : ℝ) * (1 - Real.exp (-(3 * δ))) ≤ (n.choose k : ℝ) * (Real.exp (3 * δ) - 1) :=
    mul_le_mul_of_nonneg_left hdev hCn
  rw [binomCoeffAltWith_real _ _ _ hk]
  congr 1
  apply round_eq_of_close _ _ hfit
  · nlinarith
  · nlinarith

/-- The same from a magnitude-relative accuracy `ε` (C09's form): `δ = ε·max(1, ln Γ(n+1))`. -/
theorem binomAlt_exact_of_relAcc (lg : ℝ → ℝ) (ε : ℝ) (n k : ℕ) (hε : 0 ≤ ε) (hk : k ≤ n)
    (hacc : LogGammaRelAcc lg ε n) (hfit : n.choose k < 2 ^ 64)
    (hC : (n.choose k : ℝ) * (Real.exp (3 * (ε * max 1 (lnGammaIdeal ((n : ℝ) + 1)))) - 1) < 1 / 2) :
    binomCoeffAltWith lg n k = some (n.choose k) :=
  binomAlt_exact_of_acc lg _ n k hk (logGammaAcc_of_rel lg ε n hε hacc) hfit hC

/-- The same for the model of the Rust `ln_gamma` (the Lanczos code path of `Model/Special.lean`, here in exact real
arithmetic): any proved or assumed accuracy of it transfers.  CONDITIONAL: the hypothesis `LogGammaAcc lnGammaFn δ n` is
not established anywhere (C09's oracle measures it at `f64`; no theorem instantiates it for `lnGammaFn`). -/
theorem binomCoeffAlt_exact_of_acc (δ : ℝ) (n k : ℕ) (hk : k ≤ n)
    (hacc : LogGammaAcc (Special.lnGammaFn : ℝ → ℝ) δ n) (hfit : n.choose k < 2 ^ 64)
    (hC : (n.choose k : ℝ) * (Real.exp (3 * δ) - 1) < 1 / 2) :
    binomCoeffAlt ℝ n k = some (n.choose k) :=
  binomAlt_exact_of_acc _ δ n k hk hacc hfit hC

/-- `e^{3δ} − 1 < 3δ/(1 − 3δ)` for `0 < 3δ < 1` -/
theorem exp_dev_lt (δ : ℝ) (h0 : 0 < δ) (h1 : 3 * δ < 1) : Real.exp (3 * δ) - 1 < 3 * δ / (1 - 3 * δ) := by
  have := Real.exp_bound_div_one_sub_of_interval' (by linarith : 0 < 3 * δ) h1
  have e : 1 / (1 - 3 * δ) - 1 = 3 * δ / (1 - 3 * δ) := by
    have : (1 - 3 * δ) ≠ 0 := by linarith
    field_simp; ring
  linarith

/-- **Stated numbers.** An absolute log-gamma accuracy `δ = 10⁻⁹` makes the result exact for every
`C(n,k) ≤ 1.6·10⁸` (the deviation factor is `e^{3δ} − 1 ≈ 3δ`, so the limit is `1/(6δ) ≈ 1.67·10⁸`). -/
theorem binomAlt_exact_1e9 (lg : ℝ → ℝ) (n k : ℕ) (hk : k ≤ n) (hacc : LogGammaAcc lg (1 / 10 ^ 9) n)
    (hC : n.choose k ≤ 160000000) : binomCoeffAltWith lg n k = some (n.choose k) := by
  apply binomAlt_exact_of_acc lg (1 / 10 ^ 9) n k hk hacc
  · exact lt_of_le_of_lt hC (by norm_num)
  · have hc : (n.choose k : ℝ) ≤ 160000000 := by exact_mod_cast hC
    have hd := exp_dev_lt (1 / 10 ^ 9) (by norm_num) (by norm_num)
    have hd0 : (0 : ℝ) ≤ Real.exp (3 * (1 / 10 ^ 9)) - 1 := by
      have := Real.add_one_le_exp (3 * (1 / 10 ^ 9 : ℝ)); linarith [show (0 : ℝ) ≤ 3 * (1 / 10 ^ 9) by norm_num]
    calc (n.choose k : ℝ) * (Real.exp (3 * (1 / 10 ^ 9)) - 1)
        ≤ 160000000 * (Real.exp (3 * (1 / 10 ^ 9)) - 1) := mul_le_mul_of_nonneg_right hc hd0
      _ ≤ 160000000 * (3 * (1 / 10 ^ 9) / (1 - 3 * (1 / 10 ^ 9))) := mul_le_mul_of_nonneg_left hd.le (by norm_num)
      _ < 1 / 2 := by norm_num

/-- **C09's numbers.** C09's oracle enforces `|ln_gamma − ln Γ| ≤ 10⁻¹²·max(1, |ln Γ|)`; whenever `ln Γ(n+1) ≤ 1000`
(every `n ≤ 225`) that is `δ ≤ 10⁻⁹`, hence exactness for every `C(n,k) ≤ 1.6·10⁸`. -/
theorem binomAlt_exact_rel_1e12 (lg : ℝ → ℝ) (n k : ℕ) (hk : k ≤ n) (hacc : LogGammaRelAcc lg (1 / 10 ^ 12) n)
    (hn : lnGammaIdeal ((n : ℝ) + 1) ≤ 1000) (hC : n.choose k ≤ 160000000) :
    binomCoeffAltWith lg n k = some (n.choose k) := by
  apply binomAlt_exact_1e9 lg n k hk _ hC
  intro m hm
  refine le_trans (logGammaAcc_of_rel lg _ n (by norm_num) hacc m hm) ?_
  have : max 1 (lnGammaIdeal ((n : ℝ) + 1)) ≤ 1000 := max_le (by norm_num) hn
  calc (1 / 10 ^ 12 : ℝ) * max 1 (lnGammaIdeal ((n : ℝ) + 1)) ≤ 1 / 10 ^ 12 * 1000 :=
        mul_le_mul_of_nonneg_left this (by norm_num)
    _ = 1 / 10 ^ 9 := by norm_num

/-- CONDITIONAL on the unproved accuracy hypothesis, like `binomCoeffAlt_exact_of_acc`. -/
theorem binomCoeffAlt_exact_1e9 (n k : ℕ) (hk : k ≤ n)
    (hacc : LogGammaAcc (Special.lnGammaFn : ℝ → ℝ) (1 / 10 ^ 9) n) (hC : n.choose k ≤ 160000000) :
    binomCoeffAlt ℝ n k = some (n.choose k) :=
  binomAlt_exact_1e9 _ n k hk hacc hC

/-- non-vacuity of the numeric corollaries -/
example : binomCoeffAltWith lnGammaIdeal 30 10 = some (Nat.choose 30 10) :=
  binomAlt_exact_1e9 _ 30 10 (by norm_num) (by intro m _; rw [sub_self, abs_zero]; norm_num) (by decide +kernel)

/-- **Symmetry** `binom_coeff_alt n (n−k) = binom_coeff_alt n k` holds whenever subtraction of the scalar type
satisfies `a − b − c = a − c − b` (any commutative additive group, e.g. `ℝ`; NOT IEEE doubles: the two calls subtract
the same two logarithms in the opposite order and may round differently). -/
theorem binomAlt_symm {α : Type} [AddCommGroup α] [One α] [NatCast α] [Transc α] [RoundU64 α]
    (lg : α → α) (n k : ℕ) (hk : k ≤ n) : binomCoeffAltWith lg n (n - k) = binomCoeffAltWith lg n k := by
  unfold binomCoeffAltWith
  rw [if_neg (by omega), if_neg (by omega)]
  have e : n - (n - k) = k := by omega
  rw [e, sub_right_comm]

example (n k : ℕ) (hk : k ≤ n) : binomCoeffAlt ℝ n (n - k) = binomCoeffAlt ℝ n k :=
  binomAlt_symm _ n k hk

end Cv.C17
