import Compute.Model.Matmul
import Compute.Lemmas.Mat
import Compute.Lemmas.C05Loops
/-
Entry-level description of `transpose`, `matmul`, `matmulBlocked` of `Model/Matmul.lean` for an
arbitrary scalar type (no algebraic laws; core Lean only): which products are accumulated into which
cell, in which order.
-/
namespace Cv.C05L
open Cv
variable {α : Type} [Inhabited α]

/-- Entry `(i,k)` of `op(X)`, `X` stored row-major with `c` columns, `t` = transpose flag. -/
def opEntry (x : List α) (c : Nat) (t : Bool) (i k : Nat) : α :=
  if t then x[k * c + i]! else x[i * c + k]!

theorem isMatrix_of_len {a : List α} {r c : Nat} (h : a.length = r * c) (hr : 0 < r) :
    isMatrix a r = some c := by
  have h1 : a.length / r = c := by rw [h, Nat.mul_div_cancel_left _ hr]
  show (if r = 0 then none else if r * (a.length / r) = a.length then some (a.length / r) else none) = some c
  rw [if_neg (Nat.ne_of_gt hr), h1, if_pos h.symm]

theorem isMatrix_some {a : List α} {r c : Nat} (h : isMatrix a r = some c) :
    0 < r ∧ a.length = r * c := by
  unfold isMatrix at h
  by_cases hr : r = 0
  · simp [hr] at h
  · simp only [hr, if_false] at h
    by_cases h2 : r * (a.length / r) = a.length
    · simp only [h2, if_true, Option.some.injEq] at h
      subst h
      exact ⟨by omega, h2.symm⟩
    · simp [h2] at h

theorem isMatrix_zero (a : List α) : isMatrix a 0 = none := by simp [isMatrix]

theorem toArray_getBang (a : List α) (k : Nat) : a.toArray[k]! = a[k]! := by simp

theorem toList_getBang (xs : Array α) (k : Nat) : xs.toList[k]! = xs[k]! := by
  cases xs with | mk l => simp

theorem transposeCore_length (a : List α) (r c : Nat) : (transposeCore a r c).length = c * r := by
  simp [transposeCore, Mat.build]

/-- Entry `(j,i)` of the transpose is entry `(i,j)` of the argument. -/
theorem transposeCore_get (a : List α) (r c i j : Nat) (hi : i < r) (hj : j < c) :
    (transposeCore a r c)[j * r + i]! = a[i * c + j]! := by
  have := Mat.build_get (fun j i => a.toArray[i * c + j]!) hj hi
  simp only [Mat.get, Mat.build_ncols] at this
  unfold transposeCore
  rw [this]; simp

theorem maybeTranspose_spec (x : List α) (r c : Nat) (t : Bool) (h : x.length = r * c) (hr : 0 < r) :
    ∃ x', maybeTranspose x r t = some x' ∧ x'.length = r * c ∧
      ∀ i k, i < (if t then c else r) → k < (if t then r else c) →
        x'[i * (if t then r else c) + k]! = opEntry x c t i k := by
  cases t with
  | false => exact ⟨x, by simp [maybeTranspose], h, fun i k _ _ => by simp [opEntry]⟩
  | true =>
    refine ⟨transposeCore x r c, ?_, ?_, ?_⟩
    · simp [maybeTranspose, transpose, isMatrix_of_len h hr]
    · rw [transposeCore_length, Nat.mul_comm]
    · intro i k hi hk
      simp only [if_true] at hi hk ⊢
      rw [transposeCore_get x r c k i hk hi]; simp [opEntry]

section
variable [Add α] [Mul α] [Zero α]

theorem cellFold_congr (f g : Nat → α) (l : Nat) (h : ∀ k, k < l → f k = g k) :
    cellFold f l = cellFold g l := by
  unfold cellFold
  apply foldl_congr'
  intro k hk s
  rw [h k (List.mem_range.mp hk)]

theorem mmLoop_size (A B : Array α) (m l n : Nat) : (mmLoop A B m l n).size = m * n := by
  unfold mmLoop
  apply foldl_sim (fun (c : Array α) (_ : Unit) => c.size = m * n) _ (fun _ _ => ()) _ _ _ ()
  · simp
  · intro i' _ c _ h
    apply foldl_sim (fun (c : Array α) (_ : Unit) => c.size = m * n) _ (fun _ _ => ()) _ _ _ () h
    intro k _ c _ h
    apply foldl_sim (fun (c : Array α) (_ : Unit) => c.size = m * n) _ (fun _ _ => ()) _ _ _ () h
    intro j' _ c _ h
    simpa using h

/-- The product loop on `op(A)` (`m×l`) and `op(B)` (`l×n`): length and every entry. -/
theorem mmLoop_entry (a' b' : List α) (m l n : Nat) :
    (mmLoop a'.toArray b'.toArray m l n).toList.length = m * n ∧
    ∀ i j, i < m → j < n →
      (mmLoop a'.toArray b'.toArray m l n).toList[i * n + j]! =
        cellFold (fun k => a'[i * l + k]! * b'[k * n + j]!) l := by
  refine ⟨by simp [mmLoop_size], ?_⟩
  intro i j hi hj
  have := (mmLoop_cell a'.toArray b'.toArray m l n i j hi hj).2
  simp only [toArray_getBang] at this
  rw [← this, toList_getBang]

/-- Both checks pass exactly on two matrices with matching inner dimensions. -/
theorem matmulChecks_ok (a b : List α) (ra ca rb cb : Nat) (ta tb : Bool)
    (ha : a.length = ra * ca) (hb : b.length = rb * cb) (hra : 0 < ra) (hrb : 0 < rb)
    (hin : (if ta then ra else ca) = (if tb then cb else rb)) :
    matmulChecks a b ra rb ta tb = some (ca, cb) := by
  simp [matmulChecks, isMatrix_of_len ha hra, isMatrix_of_len hb hrb, hin]

theorem matmulChecks_mismatch (a b : List α) (ra ca rb cb : Nat) (ta tb : Bool)
    (ha : a.length = ra * ca) (hb : b.length = rb * cb) (hra : 0 < ra) (hrb : 0 < rb)
    (hin : (if ta then ra else ca) ≠ (if tb then cb else rb)) :
    matmulChecks a b ra rb ta tb = none := by
  simp [matmulChecks, isMatrix_of_len ha hra, isMatrix_of_len hb hrb, hin]

/-- `matmulBody` (flags not both set in `matmul`, any flags in general): entries of `op(A)·op(B)`
accumulated for `k = 0, 1, …, l-1` from `0`. -/
theorem matmulBody_entry (a b : List α) (ra ca rb cb : Nat) (ta tb : Bool)
    (ha : a.length = ra * ca) (hb : b.length = rb * cb) (hra : 0 < ra) (hrb : 0 < rb)
    (hin : (if ta then ra else ca) = (if tb then cb else rb)) :
    ∃ c, matmulBody a b ra ca rb cb ta tb = some c ∧
      c.length = (if ta then ca else ra) * (if tb then rb else cb) ∧
      ∀ i j, i < (if ta then ca else ra) → j < (if tb then rb else cb) →
        c[i * (if tb then rb else cb) + j]! =
          cellFold (fun k => opEntry a ca ta i k * opEntry b cb tb k j) (if ta then ra else ca) := by
  obtain ⟨a', ha1, _, ha3⟩ := maybeTranspose_spec a ra ca ta ha hra
  obtain ⟨b', hb1, _, hb3⟩ := maybeTranspose_spec b rb cb tb hb hrb
  have hE := mmLoop_entry a' b' (if ta then ca else ra) (if ta then ra else ca) (if tb then rb else cb)
  refine ⟨_, by simp only [matmulBody, ha1, hb1], hE.1, ?_⟩
  intro i j hi hj
  rw [hE.2 i j hi hj]
  apply cellFold_congr
  intro k hk
  rw [ha3 i k hi hk]
  have hk' : k < (if tb then cb else rb) := hin ▸ hk
  have := hb3 k j hk' hj
  rw [this]

/-- Same for the blocked kernel, via `mmBlockedLoop_eq`. -/
theorem matmulBlocked_entry (a b : List α) (ra ca rb cb : Nat) (ta tb : Bool) (bsize : Nat) (hbs : 0 < bsize)
    (ha : a.length = ra * ca) (hb : b.length = rb * cb) (hra : 0 < ra) (hrb : 0 < rb)
    (hin : (if ta then ra else ca) = (if tb then cb else rb)) :
    ∃ c, matmulBlocked a b ra rb ta tb bsize = some c ∧
      c.length = (if ta then ca else ra) * (if tb then rb else cb) ∧
      ∀ i j, i < (if ta then ca else ra) → j < (if tb then rb else cb) →
        c[i * (if tb then rb else cb) + j]! =
          cellFold (fun k => opEntry a ca ta i k * opEntry b cb tb k j) (if ta then ra else ca) := by
  obtain ⟨c, h1, h2, h3⟩ := matmulBody_entry a b ra ca rb cb ta tb ha hb hra hrb hin
  refine ⟨c, ?_, h2, h3⟩
  rw [← h1]
  simp only [matmulBlocked, matmulBody, matmulChecks_ok a b ra ca rb cb ta tb ha hb hra hrb hin]
  cases hA : maybeTranspose a ra ta <;> cases hB : maybeTranspose b rb tb <;> simp [Nat.ne_of_gt hbs]
  rw [mmBlockedLoop_eq _ _ _ _ _ _ hbs]

/-- `matmul`: all four flag pairs.  For the pair (true, true) the code evaluates `(B·A)ᵀ`, so the factors of
each product appear in the order `B-entry * A-entry`. -/
theorem matmul_entry (a b : List α) (ra ca rb cb : Nat) (ta tb : Bool)
    (ha : a.length = ra * ca) (hb : b.length = rb * cb) (hra : 0 < ra) (hrb : 0 < rb)
    (hin : (if ta then ra else ca) = (if tb then cb else rb)) :
    ∃ c, matmul a b ra rb ta tb = some c ∧
      c.length = (if ta then ca else ra) * (if tb then rb else cb) ∧
      ∀ i j, i < (if ta then ca else ra) → j < (if tb then rb else cb) →
        c[i * (if tb then rb else cb) + j]! =
          cellFold (fun k => if ta && tb then opEntry b cb tb k j * opEntry a ca ta i k
                             else opEntry a ca ta i k * opEntry b cb tb k j) (if ta then ra else ca) := by
  by_cases hTT : (ta && tb) = true
  · have hta : ta = true := by cases ta <;> simp_all
    have htb : tb = true := by cases tb <;> simp_all
    subst hta htb
    simp only [if_true] at hin ⊢
    -- inner call: matmul(b, a, rows_b, rows_a, false, false)
    obtain ⟨r, hr1, hr2, hr3⟩ := matmulBody_entry b a rb cb ra ca false false hb ha hrb hra (by simpa using hin.symm)
    simp only [Bool.false_eq_true, if_false] at hr2 hr3
    have hT := isMatrix_of_len hr2 hrb
    refine ⟨transposeCore r rb ca, ?_, ?_, ?_⟩
    · simp only [matmul, matmulChecks_ok a b ra ca rb cb true true ha hb hra hrb (by simpa using hin),
        matmulChecks_ok b a rb cb ra ca false false hb ha hrb hra (by simpa using hin.symm),
        Bool.and_self, if_true, hr1, transpose, hT]
    · rw [transposeCore_length]
    · intro i j hi hj
      rw [transposeCore_get r rb ca j i hj hi, hr3 j i hj hi, hin]
      apply cellFold_congr
      intro k _
      simp [opEntry]
  · have hTT' : (ta && tb) = false := by simpa using hTT
    obtain ⟨c, h1, h2, h3⟩ := matmulBody_entry a b ra ca rb cb ta tb ha hb hra hrb hin
    refine ⟨c, ?_, h2, ?_⟩
    · simp only [matmul, matmulChecks_ok a b ra ca rb cb ta tb ha hb hra hrb hin, hTT', h1]; simp
    · intro i j hi hj
      rw [h3 i j hi hj]; simp [hTT']

/-- Without the both-transposed shortcut the two kernels are the same function of their arguments, for
every scalar type and all inputs, malformed ones included. -/
theorem matmulBlocked_eq_of_not_both (a b : List α) (ra rb : Nat) (ta tb : Bool) (bsize : Nat)
    (hbs : 0 < bsize) (hf : (ta && tb) = false) :
    matmulBlocked a b ra rb ta tb bsize = matmul a b ra rb ta tb := by
  unfold matmulBlocked matmul
  cases hC : matmulChecks a b ra rb ta tb with
  | none => rfl
  | some p =>
    obtain ⟨ca, cb⟩ := p
    simp only [hf, matmulBody]
    cases hA : maybeTranspose a ra ta <;> cases hB : maybeTranspose b rb tb <;> simp [Nat.ne_of_gt hbs]
    rw [mmBlockedLoop_eq _ _ _ _ _ _ hbs]

end
end Cv.C05L
