import Compute.Model.Glm
import Compute.Lemmas.C06Basic
import Compute.Lemmas.C06Spec
import Compute.Lemmas.C09
import Compute.Props.C06
import Mathlib.Analysis.SpecialFunctions.ExpDeriv
import Mathlib.Analysis.SpecialFunctions.Sqrt
import Mathlib.Analysis.Calculus.Deriv.Inv
import Mathlib.Tactic.Ring
import Mathlib.Tactic.Linarith
import Mathlib.Tactic.FieldSimp
import Mathlib.Tactic.Positivity
/-
C06 (coverage extension) — the public methods of `ExponentialFamily` that `fit` only uses internally, and
`GLM::set_coef`, over ℝ (`exp = Real.exp`, `sqrt = Real.sqrt`; instance `Cv.C09.instTranscReal`).

* `hasDerivAt_invLinkF`: for every family `d_inv_link` (written in the mean, as the source does) IS the derivative of
  `inv_link`; list form `dInvLink_is_derivative`.
* `canonical_variance_eq_dInvLink`: for the canonical links of the source (identity/Gaussian, logit/Bernoulli,
  log/Poisson and QuasiPoisson) `variance (inv_link η) = d_inv_link η`, so the working weight `dμ²/var` equals `var` and
  Fisher scoring coincides with Newton's method; `log_link_gamma_working_weight`: for Gamma/Exponential with the
  (non-canonical) log link the working weight is `1` instead.
* `penalizedDeviance_ge` / `penalizedDeviance_eq_iff`: `penalized_deviance ≥ deviance` for `α ≥ 0`, with equality iff
  `α = 0` or every penalised (non-intercept) coefficient vanishes.
* `predict_setCoef`, `setCoef_keeps`: `set_coef` followed by `predict` is `predict` of any fitted record with those
  coefficients (same family, column count, offsets); everything else `fit` stored is untouched.
* `initialWorking_textbook`: the IRLS start values are `z = η + (y − μ)/(dμ/dη)`, `W = (dμ/dη)²/var` (÷ n) at `η = 0`.
-/
set_option linter.unusedSectionVars false
namespace Cv.C06
open Cv Cv.Vops Cv.Glm Cv.C06L Cv.C09

-- any instance of the two non-field operations (`is_infinite`, `round() as usize`): they do not occur in these theorems
variable [GlmScalar ℝ]

theorem two_real : (two : ℝ) = 2 := by unfold two; norm_num

/-! ## `d_inv_link` is the derivative of `inv_link` -/

theorem invLinkF_bernoulli (e : ℝ) : invLinkF .bernoulli e = 1 / (1 + Real.exp (-e)) := rfl
theorem invLinkF_log (f : Family) (hf : f ≠ .gaussian ∧ f ≠ .bernoulli) (e : ℝ) : invLinkF f e = Real.exp e := by
  cases f <;> simp_all [invLinkF] <;> rfl

/-- **hasDerivAt_invLinkF.** For each of the six families the source's `d_inv_link`, evaluated at the mean
`μ = inv_link η`, is the derivative of `inv_link` at `η`: `1`, `μ(1−μ)`, `μ`. -/
theorem hasDerivAt_invLinkF (f : Family) (e : ℝ) :
    HasDerivAt (invLinkF (α := ℝ) f) (dInvLinkF f (invLinkF f e)) e := by
  cases f
  · -- identity
    show HasDerivAt (fun x : ℝ => x) 1 e
    exact hasDerivAt_id e
  · -- logistic
    have hpos : (1 + Real.exp (-e)) ≠ 0 := by positivity
    have h1 : HasDerivAt (fun x : ℝ => 1 + Real.exp (-x)) (-Real.exp (-e)) e := by
      have := ((hasDerivAt_neg e).exp).const_add 1
      simpa using this
    have h2 : HasDerivAt (fun x : ℝ => (1 + Real.exp (-x))⁻¹) (- -Real.exp (-e) / (1 + Real.exp (-e)) ^ 2) e :=
      h1.inv hpos
    have hfun : invLinkF (α := ℝ) Family.bernoulli = fun x => (1 + Real.exp (-x))⁻¹ := by
      funext x; rw [invLinkF_bernoulli]; exact one_div _
    have hval : dInvLinkF Family.bernoulli (invLinkF Family.bernoulli e) =
        - -Real.exp (-e) / (1 + Real.exp (-e)) ^ 2 := by
      rw [hfun]
      show (1 + Real.exp (-e))⁻¹ * (1 - (1 + Real.exp (-e))⁻¹) = _
      field_simp
      ring
    rw [hval, hfun]
    exact h2
  all_goals
    show HasDerivAt (fun x : ℝ => Real.exp x) (Real.exp e) e
    exact Real.hasDerivAt_exp e

/-- list form: entry `i` of `d_inv_link(eta, inv_link(eta))` is the derivative of the scalar inverse link at `eta_i` -/
theorem dInvLink_is_derivative (f : Family) (eta : List ℝ) (i : Nat) (hi : i < eta.length) :
    HasDerivAt (invLinkF (α := ℝ) f) ((dInvLink f eta (invLink f eta))[i]!) eta[i]! := by
  have hl : eta.length = (invLink f eta).length := by rw [invLink_length]
  rw [dInvLink_eq f eta _ hl, invLink_eq, List.map_map,
    getBang_map _ _ _ hi]
  exact hasDerivAt_invLinkF f eta[i]!

example : HasDerivAt (invLinkF (α := ℝ) .bernoulli) (1 / 4) 0 := by
  have := hasDerivAt_invLinkF .bernoulli (0 : ℝ)
  convert this using 1
  simp only [dInvLinkF, invLinkF, transc_exp, neg_zero, Real.exp_zero]; norm_num

/-! ## canonical links: `variance ∘ inv_link = d_inv_link` -/

/-- the families for which the source's link is the canonical one -/
def Canonical : Family → Prop
  | .gaussian | .bernoulli | .poisson | .quasiPoisson => True
  | .gamma | .exponential => False

/-- **canonical_variance_eq_dInvLink.** Identity/Gaussian, logit/Bernoulli, log/(Quasi)Poisson: the variance function at
the fitted mean equals the derivative of the inverse link — hence the working weight `dμ²/var` is `var` itself, the expected
and the observed information coincide, and Fisher scoring is Newton's method. -/
theorem canonical_variance_eq_dInvLink (f : Family) (hf : Canonical f) (e : ℝ) :
    varianceF f (invLinkF f e) = dInvLinkF f (invLinkF f e) := by
  cases f <;> first | rfl | exact absurd hf (by simp [Canonical])

/-- list form for the vectors the scoring loop computes -/
theorem canonical_variance_eq_dInvLink_list (f : Family) (hf : Canonical f) (eta : List ℝ) :
    variance f (invLink f eta) = dInvLink f eta (invLink f eta) := by
  have hl : eta.length = (invLink f eta).length := by rw [invLink_length]
  rw [variance_eq, dInvLink_eq f eta _ hl]
  apply List.map_congr_left
  intro m hm
  rw [invLink_eq] at hm
  obtain ⟨e, _, rfl⟩ := List.mem_map.mp hm
  exact canonical_variance_eq_dInvLink f hf e

/-- Gamma and Exponential use the log link, which is not canonical for them: `var = μ²`, `dμ/dη = μ`, so the working weight
`dμ²/var` is `1` (for `μ ≠ 0`) rather than `var`. -/
theorem log_link_gamma_working_weight (f : Family) (hf : f = .gamma ∨ f = .exponential) (m : ℝ) (hm : m ≠ 0) :
    dInvLinkF f m * dInvLinkF f m / varianceF f m = 1 ∧ (varianceF f m = dInvLinkF f m ↔ m = 1) := by
  rcases hf with rfl | rfl <;>
  · simp only [dInvLinkF, varianceF]
    refine ⟨by field_simp, ?_⟩
    constructor
    · intro h
      have : m * (m - 1) = 0 := by linear_combination h
      rcases mul_eq_zero.mp this with h0 | h1
      · exact absurd h0 hm
      · linarith
    · rintro rfl; ring

example : ¬ (varianceF (α := ℝ) .gamma 2 = dInvLinkF .gamma 2) := by
  simp [varianceF, dInvLinkF]

/-! ## `penalized_deviance ≥ deviance` -/

theorem sumsq_nonneg (t : List ℝ) : 0 ≤ (List.zipWith (· * ·) t t).sum := by
  induction t with
  | nil => simp
  | cons a t ih => simp only [List.zipWith_cons_cons, List.sum_cons]; nlinarith [mul_self_nonneg a]

theorem sumsq_eq_zero_iff (t : List ℝ) : (List.zipWith (· * ·) t t).sum = 0 ↔ ∀ a ∈ t, a = 0 := by
  induction t with
  | nil => simp
  | cons a t ih =>
    simp only [List.zipWith_cons_cons, List.sum_cons, List.mem_cons, forall_eq_or_imp]
    have h1 := mul_self_nonneg a
    have h2 := sumsq_nonneg t
    constructor
    · intro h
      have ha : a * a = 0 := by linarith
      have ht : (List.zipWith (· * ·) t t).sum = 0 := by linarith
      exact ⟨mul_self_eq_zero.mp ha, ih.mp ht⟩
    · rintro ⟨rfl, ht⟩
      rw [ih.mpr ht]; ring

theorem dot8_self (t : List ℝ) : dot8 t t = (List.zipWith (· * ·) t t).sum := by
  unfold dot8
  rw [Cv.C05.dot8Go_eq]; simp

/-- the penalty term of the source: `‖coef[1..]‖₂` (`none`: empty coefficient vector, the slice panics) -/
theorem tailNorm_spec (c : ℝ) (t : List ℝ) :
    tailNorm (c :: t) = some (Real.sqrt ((List.zipWith (· * ·) t t).sum)) ∧ tailNorm ([] : List ℝ) = none := by
  refine ⟨?_, rfl⟩
  show some (Real.sqrt (dot8 t t)) = _
  rw [dot8_self]

/-- **penalizedDeviance_ge.** `penalized_deviance = deviance + α‖β₁..‖₂ ≥ deviance` whenever `α ≥ 0` (the intercept `β₀`
is not penalised; note the norm is not squared in the source). -/
theorem penalizedDeviance_ge (f : Family) (y mu : List ℝ) (alpha : ℝ) (c : ℝ) (t : List ℝ) (d : ℝ)
    (hd : deviance f y mu = some d) (ha : 0 ≤ alpha) :
    ∃ pd, penalizedDeviance f y mu alpha (c :: t) = some pd ∧
      pd = d + alpha * Real.sqrt ((List.zipWith (· * ·) t t).sum) ∧ d ≤ pd := by
  refine ⟨d + alpha * Real.sqrt ((List.zipWith (· * ·) t t).sum), ?_, rfl, ?_⟩
  · simp only [penalizedDeviance, hd, (tailNorm_spec c t).1, Option.bind_eq_bind, Option.bind_some, Option.pure_def]
  · have := mul_nonneg ha (Real.sqrt_nonneg ((List.zipWith (· * ·) t t).sum))
    linarith

/-- **penalizedDeviance_eq_iff.** Equality holds iff `α = 0` or every penalised coefficient is zero. -/
theorem penalizedDeviance_eq_iff (f : Family) (y mu : List ℝ) (alpha : ℝ) (c : ℝ) (t : List ℝ) (d : ℝ)
    (hd : deviance f y mu = some d) :
    penalizedDeviance f y mu alpha (c :: t) = some d ↔ (alpha = 0 ∨ ∀ a ∈ t, a = 0) := by
  have hpd : penalizedDeviance f y mu alpha (c :: t) =
      some (d + alpha * Real.sqrt ((List.zipWith (· * ·) t t).sum)) := by
    simp only [penalizedDeviance, hd, (tailNorm_spec c t).1, Option.bind_eq_bind, Option.bind_some, Option.pure_def]
  rw [hpd, Option.some.injEq]
  constructor
  · intro h
    have h0 : alpha * Real.sqrt ((List.zipWith (· * ·) t t).sum) = 0 := by linarith
    rcases mul_eq_zero.mp h0 with h1 | h1
    · exact Or.inl h1
    · right
      rw [Real.sqrt_eq_zero (sumsq_nonneg t)] at h1
      exact (sumsq_eq_zero_iff t).mp h1
  · rintro (rfl | h)
    · simp
    · rw [(sumsq_eq_zero_iff t).mpr h]; simp

/-- the empty coefficient vector: `coef[1..]` panics -/
theorem penalizedDeviance_nil (f : Family) (y mu : List ℝ) (alpha : ℝ) : penalizedDeviance f y mu alpha [] = none := by
  unfold penalizedDeviance
  cases deviance f y mu <;> rfl

example : ∃ pd, penalizedDeviance .gaussian [1, 2] [1, 2] (2 : ℝ) [5, 3, 4] = some pd ∧ pd = 0 + 2 * Real.sqrt 25 ∧ (0 : ℝ) ≤ pd := by
  have hd : deviance .gaussian ([1, 2] : List ℝ) [1, 2] = some 0 := by
    rw [deviance_spec .gaussian _ _ rfl]; simp [devScale, devTermF]
  obtain ⟨pd, h1, h2, h3⟩ := penalizedDeviance_ge .gaussian [1, 2] [1, 2] (2 : ℝ) 5 [3, 4] 0 hd (by norm_num)
  refine ⟨pd, h1, ?_, h3⟩
  rw [h2]; norm_num

/-! ## `set_coef` -/

section setcoef
variable {α : Type} [Add α] [Sub α] [Mul α] [Div α] [Neg α] [Zero α] [One α] [NatCast α]
  [LT α] [DecidableLT α] [BEq α] [Transc α] [GlmScalar α] [Inhabited α]

/-- **setCoef_keeps.** `set_coef` replaces the coefficient vector and nothing else: deviance, information matrix, `n`, `p`,
family, offsets and the status of the last `fit` are what `fit` stored, so `deviance`, `dispersion`, `aic`, `bic`, the
covariance and the standard errors do not change. -/
theorem setCoef_keeps (r : Fit α) (c : List α) (invert : List α → Option (List α)) :
    (setCoef r c).coef = c ∧ (setCoef r c).deviance = r.deviance ∧ (setCoef r c).information = r.information ∧
    (setCoef r c).n = r.n ∧ (setCoef r c).p = r.p ∧ (setCoef r c).ok = r.ok ∧
    dispersion (setCoef r c) = dispersion r ∧ aic (setCoef r c) = aic r ∧ bic (setCoef r c) = bic r ∧
    coefCovariance invert (setCoef r c) = coefCovariance invert r ∧
    coefStandardError invert (setCoef r c) = coefStandardError invert r :=
  ⟨rfl, rfl, rfl, rfl, rfl, rfl, rfl, rfl, rfl, rfl, rfl⟩

/-- **predict_setCoef.** `set_coef(c)` followed by `predict(x)` equals `predict(x)` of any fitted record that has those
coefficients and the same family, column count and offsets — in particular of a model fitted to them. -/
theorem predict_setCoef (r r' : Fit α) (c x : List α) (hc : r'.coef = c) (hf : r'.family = r.family) (hp : r'.p = r.p)
    (ho : r'.offsets = r.offsets) : predict (setCoef r c) x = predict r' x := by
  unfold predict setCoef
  simp only [hc, hf, hp, ho]

/-- setting the coefficients a fit returned is the identity -/
theorem setCoef_self (r : Fit α) : setCoef r r.coef = r := rfl

/-- a later `set_coef` wins -/
theorem setCoef_setCoef (r : Fit α) (c c' : List α) : setCoef (setCoef r c) c' = setCoef r c' := rfl

end setcoef

/-- on a well-formed request `predict` after `set_coef` is `inv_link(x·c + offset)` entry by entry -/
theorem predict_setCoef_spec {α : Type} [Field α] [LT α] [DecidableLT α] [BEq α] [Transc α] [GlmScalar α] [Inhabited α]
    (r : Fit α) (c x : List α) (n : Nat) (hn : 0 < n) (hp : 0 < r.p) (hx : x.length = n * r.p)
    (hc : c.length = r.p) (hd : isDesign x n = some true) (ho : ∀ o, r.offsets = some o → o.length = n) :
    ∃ e : List α, predict (setCoef r c) x = some (e.map (invLinkF r.family)) ∧ e.length = n ∧
      ∀ i, i < n → e[i]! = (∑ j ∈ Finset.range r.p, x[i * r.p + j]! * c[j]!) + offAt r.offsets i :=
  predict_spec (setCoef r c) x n hn hp hx hc hd ho

/-! ## the IRLS start values -/

/-- **initialWorking_textbook.** `initial_working_response` / `initial_working_weights` are the first IRLS working response
`z = η + (y − μ)/(dμ/dη)` and working weights `W = (dμ/dη)²/var`, divided by the number of observations, at `η = 0`
(`μ = inv_link 0`): Gaussian `z = y`, `W = 1/n`; Bernoulli `z = (y − ½)/¼`, `W = ¼/n`; `None` for the log-link families. -/
theorem initialWorking_textbook (y : List ℝ) :
    (initialWorkingResponse .gaussian y =
        some (y.map fun v => 0 + (v - invLinkF .gaussian 0) / dInvLinkF .gaussian (invLinkF .gaussian (0 : ℝ)))) ∧
    (initialWorkingResponse .bernoulli y =
        some (y.map fun v => 0 + (v - invLinkF .bernoulli 0) / dInvLinkF .bernoulli (invLinkF .bernoulli (0 : ℝ)))) ∧
    (initialWorkingWeights .gaussian y = some (List.replicate y.length
        (dInvLinkF .gaussian (invLinkF .gaussian (0 : ℝ)) ^ 2 / varianceF .gaussian (invLinkF .gaussian (0 : ℝ)) / y.length))) ∧
    (initialWorkingWeights .bernoulli y = some (List.replicate y.length
        (dInvLinkF .bernoulli (invLinkF .bernoulli (0 : ℝ)) ^ 2 / varianceF .bernoulli (invLinkF .bernoulli (0 : ℝ)) / y.length))) ∧
    (∀ f, f ≠ .gaussian → f ≠ .bernoulli →
      initialWorkingResponse f y = none ∧ initialWorkingWeights f y = none) := by
  have hhalf : (half : ℝ) = 1 / 2 := by simp [half, two_real]
  have hq : (quarter : ℝ) = 1 / 4 := by simp only [quarter, two_real]; norm_num
  have hmu : invLinkF .bernoulli (0 : ℝ) = 1 / 2 := by
    simp only [invLinkF, transc_exp, neg_zero, Real.exp_zero]; norm_num
  refine ⟨?_, ?_, ?_, ?_, ?_⟩
  · simp [initialWorkingResponse, invLinkF, dInvLinkF]
  · simp only [initialWorkingResponse, Cv.C04.vs_eq, List.map_map, hhalf, hq, hmu, dInvLinkF]
    congr 1
    apply List.map_congr_left
    intro v _
    simp only [Function.comp]
    norm_num
  · simp only [initialWorkingWeights, Cv.C04.vs_eq, List.map_replicate, dInvLinkF, varianceF]
    norm_num
  · simp only [initialWorkingWeights, Cv.C04.vs_eq, Cv.C04.sv_eq, List.map_replicate, hq, hmu, dInvLinkF, varianceF]
    norm_num
  · intro f h1 h2
    cases f <;> simp_all [initialWorkingResponse, initialWorkingWeights]

end Cv.C06
