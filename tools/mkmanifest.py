#!/usr/bin/env python3
"""Regenerates /verif/MANIFEST.json from the table below (one entry per claimed property)."""
import json, os
VERIF = os.path.dirname(os.path.dirname(os.path.abspath(__file__)))
ALL = ["C%02d" % i for i in range(1, 21)]

NOTE = ("Trusted: Lean 4.33 kernel (axioms audited per theorem to lie within propext, Classical.choice, Quot.sound; "
        "no sorry/admit/own axioms/native_decide/bv_decide), Mathlib definitions used as specifications, the hand-written "
        "Lean model of the anchored Rust code, the bit-exact correspondence harness (generators, Rust executor, Lean driver, "
        "comparer), Lean's compiled Float arithmetic and glibc libm. Theorems are about exact arithmetic / arbitrary element "
        "types; IEEE rounding is covered by the bit-exact tie plus the exact-rational oracle, not by proof.")

CLAIMED = {
    "C12": dict(
        text=("Kernel-checked theorems (all element types, all operators, all shapes >= 1x1): a value is returned iff the shapes are "
              "NumPy-compatible, it has the element-wise maximum shape, is well formed, and entry (i,j) is left[i|0][j|0] op right[i|0][j|0] "
              "with operand order preserved in every leaf of the classifier; Vector operands are single rows. The model is tied to the "
              "Rust code on every run by executing all 1296 shape pairs x operators x operand kinds x ownership forms through both and "
              "comparing bit for bit; an independent NumPy-rule oracle supplies the failing input."),
        design="DESIGN.md §6 C12",
        technique="Lean 4 proof (case analysis over the classifier tree) + bit-exact model/implementation correspondence"),
}

REASONS = {}

def main():
    checks = []
    for pid in ALL:
        if pid not in CLAIMED:
            continue
        c = CLAIMED[pid]
        checks.append({
            "property_id": pid,
            "quick_cmd": "./check %s --tier quick" % pid,
            "thorough_cmd": "./check %s --tier thorough" % pid,
            "evidence_file": "/verif/evidence/%s.json" % pid,
            "replay_cmd_template": "./check %s --replay {path}" % pid,
            "engine": "lean-proof+correspondence",
            "level_claimed": {"category": "proof", "text": c["text"], "design_ref": c["design"]},
            "level_note": NOTE + (" " + c["note"] if c.get("note") else ""),
            "technique": c["technique"],
        })
    na = [{"property_id": pid, "reason": REASONS.get(pid, "not claimed yet: model, theorems and correspondence for this property are still being built (see DESIGN.md §6 for the plan); no other technique is substituted")}
          for pid in ALL if pid not in CLAIMED]
    m = {
        "version": 1,
        "setup_cmd": "./setup.sh",
        "hooks": {
            "guard": "compute_verif",
            "enable": "none needed: every anchor is reachable through the public API; the executor crate /verif/exec depends on /repo by path",
            "baseline_off_cmd": "cd /repo && cargo test --workspace --no-fail-fast --offline",
            "source_commits": [],
            "add_only": True,
        },
        "engines": [
            {"name": "lean-proof+correspondence", "path": "/verif/check",
             "serves_properties": sorted(CLAIMED),
             "kind_free_text": "Lean 4 theorems over an executable model (lean/Compute), regenerated tables (tools/extract), bit-exact differential execution of model (lean_exe) vs. Rust (exec/), independent Python oracles as failing-input search"},
        ],
        "checks": checks,
        "not_applicable": na,
        "notes": "See DESIGN.md. known_findings.txt lists open findings and fixed defects.",
    }
    with open(os.path.join(VERIF, "MANIFEST.json"), "w") as f:
        json.dump(m, f, indent=1)
        f.write("\n")

if __name__ == "__main__":
    main()
