import Compute.Drv.LinalgStep
/- Driver for C11 (factorisations); the handler is shared with C01. -/
def main (args : List String) : IO UInt32 := Cv.mainWith () (fun _ t => ((), Cv.LinalgDrv.step t)) args
