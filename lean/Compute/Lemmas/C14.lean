import Compute.Model.Poly
import Compute.Props.C05
import Mathlib.Algebra.BigOperators.Ring.Finset
import Mathlib.Algebra.BigOperators.Intervals
import Mathlib.Tactic.Ring
/-
Helper lemmas for C14: `powi` is the power function, Horner evaluation is the polynomial, the entries
of `vandermonde`, and the entry-level description of `Poly.fit` in terms of the normal matrix.
-/
namespace Cv.C14L
open Cv Cv.Poly

/-! ### `powi` (square-and-multiply) is `^` -/

theorem powiNat_go_eq {α : Type} [Monoid α] (fuel : Nat) :
    ∀ (a : α) (n : Nat) (r : α), n < 2 ^ fuel → powiNat.go fuel a n r = r * a ^ n := by
  induction fuel with
  | zero =>
    intro a n r h
    have : n = 0 := by simpa using h
    subst this; simp [powiNat.go]
  | succ f ih =>
    intro a n r h
    have hdiv : n / 2 < 2 ^ f := by
      rw [Nat.div_lt_iff_lt_mul (by norm_num)]; rw [pow_succ] at h; exact h
    have hn : n = 2 * (n / 2) + n % 2 := (Nat.div_add_mod n 2).symm
    unfold powiNat.go
    simp only []
    by_cases h0 : n / 2 = 0
    · rw [if_pos h0]
      rcases Nat.mod_two_eq_zero_or_one n with h2 | h2
      · have : n = 0 := by omega
        subst this; simp
      · have : n = 1 := by omega
        subst this; simp
    · rw [if_neg h0, ih _ _ _ hdiv]
      rcases Nat.mod_two_eq_zero_or_one n with h2 | h2
      · rw [h2]
        simp only [Nat.zero_ne_one, if_false]
        conv_rhs => rw [hn, h2, Nat.add_zero, pow_mul, pow_two]
      · rw [h2]
        simp only [if_true]
        conv_rhs => rw [hn, h2, pow_add, pow_mul, pow_two, pow_one]
        rw [mul_assoc]
        congr 1
        exact (((Commute.refl a).mul_right (Commute.refl a)).pow_right _).eq

theorem powiNat_eq {α : Type} [Monoid α] (a : α) (n : Nat) (h : n < 2 ^ 64) : powiNat a n = a ^ n := by
  unfold powiNat
  rw [powiNat_go_eq 64 a n 1 h, one_mul]

theorem powi_natCast {α : Type} [Monoid α] [Div α] (a : α) (n : Nat) (h : n < 2 ^ 64) :
    powi a (n : Int) = a ^ n := by
  unfold powi
  simp only [Int.natAbs_natCast]
  rw [if_neg (by omega), powiNat_eq a n h]

/-! ### Horner -/

section horner
variable {α : Type} [CommSemiring α]

theorem horner_cons (c0 : α) (cs : List α) (v : α) : horner (c0 :: cs) v = horner cs v * v + c0 := by
  simp [horner, List.foldl_append]

/-- Horner over the reversed coefficients is `Σ cᵢ vⁱ`. -/
theorem horner_eq_sum (c : List α) (v : α) :
    horner c v = ∑ i ∈ Finset.range c.length, c.getD i 0 * v ^ i := by
  induction c with
  | nil => simp [horner]
  | cons c0 cs ih =>
    rw [horner_cons, ih, List.length_cons, Finset.sum_range_succ']
    simp only [List.getD_cons_succ, List.getD_cons_zero, pow_zero, mul_one]
    congr 1
    rw [Finset.sum_mul]
    apply Finset.sum_congr rfl
    intro i _
    rw [pow_succ]; ring

end horner

/-! ### entries of `vandermonde` -/

section vander
variable {α : Type} [Inhabited α]

omit [Inhabited α] in
theorem vandermonde_cons [Mul α] [Div α] [One α] (v : α) (xs : List α) (p : Nat) :
    vandermonde (v :: xs) p = ((List.range p).map fun (i : Nat) => powi v (i : Int)) ++ vandermonde xs p := by
  simp [vandermonde]

omit [Inhabited α] in
theorem vandermonde_length [Mul α] [Div α] [One α] (x : List α) (p : Nat) :
    (vandermonde x p).length = x.length * p := by
  induction x with
  | nil => simp [vandermonde]
  | cons v xs ih => rw [vandermonde_cons, List.length_append, ih]; simp [Nat.succ_mul, Nat.add_comm]

theorem getBang_append_right (a b : List α) (k : Nat) : (a ++ b)[a.length + k]! = b[k]! := by
  simp [List.getElem!_eq_getElem?_getD, List.getElem?_append_right]

theorem getBang_append_left (a b : List α) (k : Nat) (h : k < a.length) : (a ++ b)[k]! = a[k]! := by
  simp [List.getElem!_eq_getElem?_getD, List.getElem?_append_left h]

theorem vandermonde_get [Mul α] [Div α] [One α] (x : List α) (p i j : Nat) (hi : i < x.length) (hj : j < p) :
    (vandermonde x p)[i * p + j]! = powi x[i]! (j : Int) := by
  induction x generalizing i with
  | nil => simp at hi
  | cons v xs ih =>
    rw [vandermonde_cons]
    have hrow : ((List.range p).map fun (i : Nat) => powi v (i : Int)).length = p := by simp
    cases i with
    | zero =>
      rw [getBang_append_left _ _ _ (by rw [hrow]; omega)]
      simp [hj]
    | succ i =>
      have hi' : i < xs.length := by simpa using hi
      have hidx : (i + 1) * p + j = ((List.range p).map fun (i : Nat) => powi v (i : Int)).length + (i * p + j) := by
        rw [hrow, Nat.succ_mul]; omega
      rw [hidx, getBang_append_right, ih i hi']
      simp

end vander

/-! ### `fit`, entry by entry -/

section fit
variable {α : Type} [Field α] [LT α] [DecidableLT α] [LE α] [DecidableLE α] [BEq α] [Transc α] [Inhabited α]

/-- What `fit` returns once the inverse of the normal matrix is named: `c = ginv · (Vᵀ y)`. -/
theorem fit_unfold (p : Nat) (x y g ginv : List α) (hp : 0 < p) (hn : 0 < x.length) (hxy : x.length = y.length)
    (hg : xtx (vandermonde x p) x.length = some g) (hinv : invertMatrix g = some ginv)
    (hlen : ginv.length = p * p) :
    ∃ c, fit p x y = some c ∧ c.length = p ∧
      ∀ i, i < p → c[i]! = ∑ k ∈ Finset.range p, ginv[i * p + k]! *
        (∑ r ∈ Finset.range x.length, (vandermonde x p)[r * p + k]! * y[r]!) := by
  obtain ⟨b, hb1, hb2, hb3⟩ := C05.matmul_spec_TN (vandermonde x p) y p x.length 1
    (vandermonde_length x p) (by simp [hxy]) hn
  obtain ⟨c, hc1, hc2, hc3⟩ := C05.matmul_spec_NN ginv b p p 1 hlen hb2 hp hp
  refine ⟨c, ?_, by simpa using hc2, ?_⟩
  · unfold fit
    rw [if_neg (not_not.mpr hxy)]
    simp only [← hxy, hg, hinv, hb1, hc1, Option.bind_some, bind]
  · intro i hi
    have h1 := hc3 i 0 hi (by norm_num)
    simp only [Nat.mul_one, Nat.add_zero] at h1
    rw [h1]
    apply Finset.sum_congr rfl
    intro k hk
    have h2 := hb3 k 0 (Finset.mem_range.mp hk) (by norm_num)
    simp only [Nat.mul_one, Nat.add_zero] at h2
    rw [h2]

end fit

end Cv.C14L
