import Compute.Lemmas.FlModelGrid
import Compute.Props.Rounding8
import Mathlib.Tactic.NormNum
/-
Headline rounding theorems instantiated at a GENUINE floating-point model: `FlModel.f64grid` = radix 2, 53 digits,
round to nearest, unbounded exponent range (`Lemmas/FlModelGrid.lean`), `u = 2⁻⁵³`.  The hypotheses `Idem`,
`rnd 1 = 1`, `Rep` (data representable), `rnd n = n` (exact counter / exact `n as f64`) are discharged by theorems
about that rounding (`grid_idem`, `grid_rnd_one`, `grid_rnd_natCast`, `grid_rnd_dyadic`) — not by a toy model.

`namespace Step`: a complete GLM scoring step evaluated in this model (every operation exact on small dyadic
numbers, except the final `β ⊖ δ̂` which absorbs the nonzero step), and on it `RoundingLU.solve_backward_error`,
`Rounding7.scoringStep_system`, `Rounding7.scoring_fixed_point`, `Rounding8.fixed_point_exact_score` at `u = 2⁻⁵³`.

`namespace Ufl`: the underflow-aware range theorems (`Rounding3U.logistic_range_ufl`, `rbf_range_ufl`) at this model with a
flush-to-zero `exp`; `Monotone rnd` is `f64grid_mono`.

`namespace Ufl2`: `Rounding3U.softmax_sum_error_ufl` with every hypothesis (including `hS`) discharged.
`namespace LU`: `lu` / `solve` on the LU route WITH a row exchange (`[[1,2],[4,2]]`), `solve_backward_error` and
`lu_backward_error` on it.  (The tie rule of this model is round-half-up, see `f64grid`.)

`namespace AR`: a concrete `TS.arFit 2 … = some …` run in this model (C13), and `Rounding6.yuleWalker_residual` on it.
-/
namespace Cv.RoundingGrid
open Cv Cv.FlModel Cv.Rounding

/-- small integers are floating-point numbers of the format -/
theorem rep_int (n : ℕ) (hn : n ≤ 2 ^ 53) : (⟨(n : ℝ)⟩ : Fl f64grid).Rep :=
  grid_rnd_natCast 53 (by norm_num) n hn

/-- `dot8_error` (Higham (3.5), `γ_n`) at the genuine binary64-significand model, on the integer vectors
`(1,…,9)·(9,…,1)`: rounding is idempotent, `9·2⁻⁵³ < 1` -/
example : |(dot8 ([⟨1⟩, ⟨2⟩, ⟨3⟩, ⟨4⟩, ⟨5⟩, ⟨6⟩, ⟨7⟩, ⟨8⟩, ⟨9⟩] : List (Fl f64grid))
      [⟨9⟩, ⟨8⟩, ⟨7⟩, ⟨6⟩, ⟨5⟩, ⟨4⟩, ⟨3⟩, ⟨2⟩, ⟨1⟩]).val
      - (prods ([⟨1⟩, ⟨2⟩, ⟨3⟩, ⟨4⟩, ⟨5⟩, ⟨6⟩, ⟨7⟩, ⟨8⟩, ⟨9⟩] : List (Fl f64grid))
          [⟨9⟩, ⟨8⟩, ⟨7⟩, ⟨6⟩, ⟨5⟩, ⟨4⟩, ⟨3⟩, ⟨2⟩, ⟨1⟩]).sum| ≤
    f64grid.γ 9 * ((prods ([⟨1⟩, ⟨2⟩, ⟨3⟩, ⟨4⟩, ⟨5⟩, ⟨6⟩, ⟨7⟩, ⟨8⟩, ⟨9⟩] : List (Fl f64grid))
          [⟨9⟩, ⟨8⟩, ⟨7⟩, ⟨6⟩, ⟨5⟩, ⟨4⟩, ⟨3⟩, ⟨2⟩, ⟨1⟩]).map (|·|)).sum := by
  have := dot8_error (grid_idem 53 (by norm_num)) ([⟨1⟩, ⟨2⟩, ⟨3⟩, ⟨4⟩, ⟨5⟩, ⟨6⟩, ⟨7⟩, ⟨8⟩, ⟨9⟩] : List (Fl f64grid))
    [⟨9⟩, ⟨8⟩, ⟨7⟩, ⟨6⟩, ⟨5⟩, ⟨4⟩, ⟨3⟩, ⟨2⟩, ⟨1⟩] rfl (by rw [f64grid_u]; norm_num)
  simpa using this

/-- `mean_error` (`γ_n`): representable data, idempotent rounding, `n as f64` exact -/
example : |(mean ([⟨1⟩, ⟨2⟩, ⟨4⟩] : List (Fl f64grid))).val - (vals ([⟨1⟩, ⟨2⟩, ⟨4⟩] : List (Fl f64grid))).sum / 3| ≤
    f64grid.γ 3 * (((vals ([⟨1⟩, ⟨2⟩, ⟨4⟩] : List (Fl f64grid))).map (|·|)).sum / 3) := by
  have hrep : ∀ a ∈ ([⟨1⟩, ⟨2⟩, ⟨4⟩] : List (Fl f64grid)), a.Rep := by
    intro a ha
    simp only [List.mem_cons, List.not_mem_nil, or_false] at ha
    rcases ha with rfl | rfl | rfl
    · simpa using rep_int 1 (by norm_num)
    · simpa using rep_int 2 (by norm_num)
    · simpa using rep_int 4 (by norm_num)
  have := mean_error (grid_idem 53 (by norm_num)) ([⟨1⟩, ⟨2⟩, ⟨4⟩] : List (Fl f64grid)) hrep
    (by simpa using grid_rnd_natCast 53 (by norm_num) 3 (by norm_num)) (by rw [f64grid_u]; norm_num)
  simpa using this

/-- `Rounding6.online_error` at the genuine model: `rnd 1 = 1`, integer data representable, the counter values
`0..n` exact — all theorems about round-to-nearest on the 53-digit grid -/
example : ∃ v, sampleCovarianceOnline ([⟨1⟩, ⟨2⟩, ⟨4⟩] : List (Fl f64grid)) [⟨2⟩, ⟨5⟩, ⟨3⟩] = some v := by
  have mem3 : ∀ {a b c d : Fl f64grid}, a ∈ [b, c, d] → a = b ∨ a = c ∨ a = d := by
    intro a b c d h; simpa using h
  have r1 := rep_int 1 (by norm_num); have r2 := rep_int 2 (by norm_num); have r3 := rep_int 3 (by norm_num)
  have r4 := rep_int 4 (by norm_num); have r5 := rep_int 5 (by norm_num)
  simp only [Nat.cast_ofNat, Nat.cast_one] at r1 r2 r3 r4 r5
  obtain ⟨v, hv, _⟩ := Rounding6.online_error ([⟨1⟩, ⟨2⟩, ⟨4⟩] : List (Fl f64grid)) [⟨2⟩, ⟨5⟩, ⟨3⟩] 4 5 3 3 rfl
    (by simp)
    (by intro a ha; rcases mem3 ha with rfl | rfl | rfl <;> norm_num)
    (by intro a ha; rcases mem3 ha with rfl | rfl | rfl <;> norm_num)
    (by intro a ha b hb; rcases mem3 ha with rfl | rfl | rfl <;> rcases mem3 hb with rfl | rfl | rfl <;> norm_num)
    (by intro a ha b hb; rcases mem3 ha with rfl | rfl | rfl <;> rcases mem3 hb with rfl | rfl | rfl <;> norm_num)
    (grid_rnd_one 53 (by norm_num))
    (by intro a ha; rcases mem3 ha with rfl | rfl | rfl <;> assumption)
    (by intro a ha; rcases mem3 ha with rfl | rfl | rfl <;> assumption)
    (fun k hk => grid_rnd_natCast 53 (by norm_num) k (by
      simp only [List.length_cons, List.length_nil] at hk
      calc k ≤ 3 := hk
        _ ≤ 2 ^ 53 := by norm_num))
    (by rw [f64grid_u]; norm_num) (by rw [f64grid_u]; norm_num)
  exact ⟨v, hv⟩

/-- absorption happens in this model: `2⁶⁰ ⊖ 1 = 2⁶⁰` (the exact difference needs 60 digits), and then
`Rounding7.step_small` gives `1 ≤ γ₁·2⁶⁰` -/
example : (⟨(2 : ℝ) ^ 60⟩ : Fl f64grid) - ⟨1⟩ = ⟨(2 : ℝ) ^ 60⟩ := by
  apply Fl.ext
  show gridRnd 53 ((2 : ℝ) ^ 60 - 1) = (2 : ℝ) ^ 60
  have hlog : Int.log 2 |(2 : ℝ) ^ 60 - 1| = 59 := by
    rw [abs_of_pos (by norm_num)]
    have h1 : ((2 : ℕ) : ℝ) ^ (59 : ℤ) ≤ (2 : ℝ) ^ 60 - 1 := by norm_num
    have h2 : (2 : ℝ) ^ 60 - 1 < ((2 : ℕ) : ℝ) ^ ((59 : ℤ) + 1) := by norm_num
    have a := (Int.zpow_le_iff_le_log (b := 2) (by norm_num) (by norm_num : (0 : ℝ) < 2 ^ 60 - 1)).mp h1
    have b := (Int.lt_zpow_iff_log_lt (b := 2) (by norm_num) (by norm_num : (0 : ℝ) < 2 ^ 60 - 1)).mp h2
    omega
  unfold gridRnd ulp
  rw [hlog]
  have hu : (2 : ℝ) ^ ((59 : ℤ) - ((53 : ℕ) - 1 : ℤ)) = 128 := by norm_num
  rw [hu]
  have hr : round (((2 : ℝ) ^ 60 - 1) / 128) = (2 : ℤ) ^ 53 := by
    rw [round_eq]
    rw [Int.floor_eq_iff]
    constructor <;> norm_num
  rw [hr]; norm_num

end Cv.RoundingGrid

/-! ### a complete scoring step at the genuine model -/

namespace Cv.RoundingGrid.Step
open Cv Cv.FlModel Cv.LA Cv.LA.Lu Cv.Rounding Cv.FactorRounding Cv.RoundingLU Cv.Rounding3 Cv.Rounding6 Cv.Rounding7
  Cv.Glm Finset
open Cv.RoundingLU.Examples (mk_add mk_sub mk_mul mk_div)

noncomputable instance : FlSqrt f64grid := FlSqrt.ofRnd f64grid

theorem rnd_int (z : ℤ) (hz : |z| ≤ 2 ^ 53) : f64grid.rnd (z : ℝ) = z := by
  have := grid_rnd_dyadic 53 (by norm_num) z 0 hz
  simpa using this

theorem r0 : f64grid.rnd 0 = 0 := by simpa using rnd_int 0 (by norm_num)
theorem r1 : f64grid.rnd 1 = 1 := by simpa using rnd_int 1 (by norm_num)
theorem rm1 : f64grid.rnd (-1) = -1 := by simpa using rnd_int (-1) (by norm_num)
theorem rE : f64grid.rnd 4503599627370496 = 4503599627370496 := by
  simpa using rnd_int 4503599627370496 (by norm_num)
theorem rB : f64grid.rnd 36028797018963968 = 36028797018963968 := by
  have := grid_rnd_two_zpow 53 (by norm_num) 55
  norm_num at this
  exact this
theorem rmB : f64grid.rnd (-36028797018963968) = -36028797018963968 := by
  have := grid_rnd_of_rep 53 (by norm_num) (y := -36028797018963968) ⟨-1, 55, by norm_num, by norm_num⟩
  exact this

/-- `2⁵⁵ ⊖ 1 = 2⁵⁵` in binary64-significand arithmetic (the spacing of the grid below `2⁵⁵` is 4) -/
theorem rAbs : f64grid.rnd (36028797018963968 - 1) = 36028797018963968 := by
  show gridRnd 53 ((36028797018963968 : ℝ) - 1) = 36028797018963968
  have hlog : Int.log 2 |(36028797018963968 : ℝ) - 1| = 54 := by
    rw [abs_of_pos (by norm_num)]
    have h1 : ((2 : ℕ) : ℝ) ^ (54 : ℤ) ≤ (36028797018963968 : ℝ) - 1 := by norm_num
    have h2 : (36028797018963968 : ℝ) - 1 < ((2 : ℕ) : ℝ) ^ ((54 : ℤ) + 1) := by norm_num
    have a := (Int.zpow_le_iff_le_log (b := 2) (by norm_num) (by norm_num : (0 : ℝ) < 36028797018963968 - 1)).mp h1
    have b := (Int.lt_zpow_iff_log_lt (b := 2) (by norm_num) (by norm_num : (0 : ℝ) < 36028797018963968 - 1)).mp h2
    omega
  unfold gridRnd ulp
  rw [hlog]
  have e : ((36028797018963968 : ℝ) - 1) / (2 : ℝ) ^ ((54 : ℤ) - (((53 : ℕ) : ℤ) - 1)) = (9007199254740992 : ℤ) - 1 / 4 := by
    norm_num
  rw [e]
  have hr : round (((9007199254740992 : ℤ) : ℝ) - 1 / 4) = 9007199254740992 := by
    rw [round_eq]
    have : ((9007199254740992 : ℤ) : ℝ) - 1 / 4 + 1 / 2 = ((9007199254740992 : ℤ) : ℝ) + 1 / 4 := by ring
    rw [this, Int.floor_intCast_add]
    norm_num
  rw [hr]
  norm_num

noncomputable abbrev Xg : List (Fl f64grid) := [⟨1⟩, ⟨0⟩, ⟨0⟩, ⟨1⟩]
noncomputable abbrev oG : List (Fl f64grid) := [⟨1⟩, ⟨1⟩]
noncomputable abbrev muG : List (Fl f64grid) := [⟨0⟩, ⟨0⟩]
noncomputable abbrev yG : List (Fl f64grid) := [⟨-1⟩, ⟨-1⟩]
/-- `β = (2⁵⁵, 2⁵⁵)` -/
noncomputable abbrev bG : List (Fl f64grid) := [⟨36028797018963968⟩, ⟨36028797018963968⟩]
/-- offsets `−2⁵⁵` -/
noncomputable abbrev offG : List (Fl f64grid) := [⟨-36028797018963968⟩, ⟨-36028797018963968⟩]

theorem zero_mk : (0 : Fl f64grid) = ⟨0⟩ := rfl
theorem sqrt_mk (a : ℝ) : Transc.sqrt (⟨a⟩ : Fl f64grid) = ⟨f64grid.rnd (Real.sqrt a)⟩ := rfl
theorem isM42 : LA.isMatrix 4 2 = some 2 := by decide

theorem wwG : workingWeights oG oG oG = some oG := by
  unfold workingWeights
  rw [C06L.vbin_eq _ oG oG rfl]
  simp only [Option.bind_eq_bind, Option.bind_some]
  rw [C06L.vbin_eq _ oG _ (by simp)]
  simp only [Option.bind_some]
  rw [C06L.vbin_eq _ _ oG (by simp)]
  simp only [List.zipWith_cons_cons, List.zipWith_nil_right, mk_mul, mk_div, Option.some.injEq,
    List.cons.injEq, and_true, Fl.mk.injEq]
  norm_num [r1]

theorem rG : workingResiduals yG muG oG oG oG = some yG := by
  unfold workingResiduals
  rw [C06L.vbin_eq _ yG muG rfl]
  simp only [Option.bind_eq_bind, Option.bind_some]
  rw [C06L.vbin_eq _ oG _ (by simp)]
  simp only [Option.bind_some]
  rw [C06L.vbin_eq _ oG oG rfl]
  simp only [Option.bind_some]
  rw [C06L.vbin_eq _ _ _ (by simp)]
  simp only [List.zipWith_cons_cons, List.zipWith_nil_right, mk_mul, mk_div, mk_sub, Option.some.injEq,
    List.cons.injEq, and_true, Fl.mk.injEq]
  norm_num [r1, rm1]

theorem gGv : computeDbeta Xg yG muG oG oG oG = some oG := by
  simp only [computeDbeta, show yG.length = 2 from rfl, C05L.isMatrix_of_len (show Xg.length = 2 * 2 from rfl) (by norm_num),
    rG, Option.bind_eq_bind, Option.bind_some, Option.pure_def]
  simp only [dbetaCell, List.range_succ, List.range_zero, List.nil_append, List.cons_append, List.map_cons, List.map_nil,
    List.foldl_cons, List.foldl_nil]
  simp
  constructor <;> (apply Fl.ext; simp only [Fl.sub_val, Fl.mul_val, Fl.zero_val]; norm_num [r0, r1, rm1])

theorem wxG : weightedX Xg oG 2 = Xg := by
  simp only [weightedX, show Xg.length = 4 from rfl, List.range_succ, List.range_zero, List.nil_append, List.cons_append,
    List.map_cons, List.map_nil]
  simp
  simp only [mk_mul, Fl.mk.injEq]
  norm_num [r0, r1]

theorem ext4 (H : List (Fl f64grid)) (a b c d : ℝ) (hl : H.length = 2 * 2) (h00 : (H[0]!).val = a) (h01 : (H[1]!).val = b)
    (h10 : (H[2]!).val = c) (h11 : (H[3]!).val = d) : H = [⟨a⟩, ⟨b⟩, ⟨c⟩, ⟨d⟩] := by
  rcases H with _ | ⟨g0, _ | ⟨g1, _ | ⟨g2, _ | ⟨g3, _ | _⟩⟩⟩⟩ <;> simp at hl
  simp at h00 h01 h10 h11
  simp only [List.cons.injEq, and_true]
  exact ⟨Fl.ext h00, Fl.ext h01, Fl.ext h10, Fl.ext h11⟩

theorem ext2 (H : List (Fl f64grid)) (a b : ℝ) (hl : H.length = 2) (h0 : (H[0]!).val = a) (h1 : (H[1]!).val = b) :
    H = [⟨a⟩, ⟨b⟩] := by
  rcases H with _ | ⟨g0, _ | ⟨g1, _ | _⟩⟩ <;> simp at hl
  simp at h0 h1
  simp only [List.cons.injEq, and_true]
  exact ⟨Fl.ext h0, Fl.ext h1⟩

theorem HGv : computeDdbeta Xg oG oG oG = some Xg := by
  simp only [computeDdbeta, show oG.length = 2 from rfl, C05L.isMatrix_of_len (show Xg.length = 2 * 2 from rfl) (by norm_num),
    wwG, Option.bind_eq_bind, Option.bind_some, wxG]
  obtain ⟨c, h1, h2, h3⟩ := C05L.matmul_entry Xg Xg 2 2 2 2 true false rfl rfl (by norm_num) (by norm_num) rfl
  rw [h1]
  have e00 := h3 0 0 (by norm_num) (by norm_num)
  have e01 := h3 0 1 (by norm_num) (by norm_num)
  have e10 := h3 1 0 (by norm_num) (by norm_num)
  have e11 := h3 1 1 (by norm_num) (by norm_num)
  simp [C05L.cellFold, C05L.opEntry, List.range_succ] at e00 e01 e10 e11
  congr 1
  refine ext4 c _ _ _ _ (by simpa using h2) (by simp; rw [e00]; simp [r0, r1]) (by simp; rw [e01]; simp [r0])
    (by simp; rw [e10]; simp [r0]) (by simp; rw [e11]; simp [r0, r1])

theorem bigE : (4503599627370496 : Fl f64grid).val = 4503599627370496 := by
  show f64grid.rnd ((4503599627370496 : ℕ) : ℝ) = _
  norm_num [rE]

theorem rEps' : f64grid.rnd (1 / 4503599627370496) = 1 / 4503599627370496 := by
  have := grid_rnd_two_zpow 53 (by norm_num) (-52)
  norm_num at this
  exact this
theorem rEps : f64grid.rnd (4503599627370496)⁻¹ = (4503599627370496)⁻¹ := by
  rw [← one_div]; exact rEps'

theorem HG_pred : routePredicate Xg = some true := by
  unfold routePredicate isPositiveDefinite isSymmetric isExactlySymmetric
  simp only [show Xg.length = 2 * 2 from rfl, isSquare_sq]
  norm_num [List.range_succ, List.range', rd, eps, Fl.lt_def, Fl.le_def, r0, r1, bigE, rEps, rEps']

theorem HG_chol : tryCholesky Xg = some (some Xg) := by
  have hE : ¬ (4503599627370496 : Fl f64grid).val < 0 := by rw [bigE]; norm_num
  unfold tryCholesky isSymmetric
  simp only [show Xg.length = 2 * 2 from rfl, isSquare_sq]
  norm_num [cholLoops, cholRow, List.range_succ, List.foldlM_cons, List.foldlM_nil, cholCell, List.replicate,
    Fl.isNan_false, Fl.le_def, Fl.lt_def, rd, dot8, dot8Go, r0, r1, List.set, List.take, List.drop,
    eps, List.range', ev, hE, bigE, rEps, rEps']
  simp only [zero_mk, mk_sub, mk_div, mk_mul, mk_add, sqrt_mk, Fl.mk.injEq]
  norm_num [r0, r1]

theorem LG_t : LA.transpose Xg 2 = some Xg := by
  unfold LA.transpose
  simp only [show Xg.length = 4 from rfl, isM42, Option.bind_eq_bind, Option.bind_some, Option.pure_def]
  norm_num [List.range_succ, rd]

theorem LG_fwd : forwardSubstitution Xg oG = some oG := by
  unfold forwardSubstitution
  simp only [show Xg.length = 2 * 2 from rfl, isSquare_sq, Option.bind_eq_bind, Option.bind_some, Option.pure_def]
  norm_num [List.range_succ, rd, dot8, dot8Go, List.take, List.drop]
  simp only [zero_mk, mk_sub, mk_div, mk_mul, mk_add, Fl.mk.injEq]
  norm_num [r0, r1]

theorem LG_bwd : backwardSubstitution Xg oG = some oG := by
  unfold backwardSubstitution
  simp only [show Xg.length = 2 * 2 from rfl, isSquare_sq, Option.bind_eq_bind, Option.bind_some, Option.pure_def]
  norm_num [List.range_succ, rd, dot8, dot8Go, List.take, List.drop]
  simp only [zero_mk, mk_sub, mk_div, mk_mul, mk_add, Fl.mk.injEq]
  norm_num [r0, r1]

theorem LG_solve : choleskySolve Xg oG = some oG := by
  unfold choleskySolve
  simp only [show Xg.length = 2 * 2 from rfl, isSquare_sq, Option.bind_eq_bind, Option.bind_some, LG_fwd, LG_t, LG_bwd]
  simp

theorem routeG : route Xg = some (some Xg) := by simp [route, HG_pred, HG_chol]

theorem HG_solve : solve Xg oG = some oG := by
  unfold solve
  simp [routeG, solveWith, LG_solve]

/-- the computed linear predictor `X·β + offset` at `β = (2⁵⁵, 2⁵⁵)`, offset `−2⁵⁵`: exactly `0` -/
theorem etaGv : linearPredictor Xg bG 2 2 (some offG) = some muG := by
  obtain ⟨c, h1, h2, h3⟩ := C05L.matmul_entry Xg bG 2 2 2 1 false false rfl rfl (by norm_num) (by norm_num) rfl
  have e0 := h3 0 0 (by norm_num) (by norm_num)
  have e1 := h3 1 0 (by norm_num) (by norm_num)
  simp [C05L.cellFold, C05L.opEntry, List.range_succ] at e0 e1
  have hc : c = bG := ext2 c _ _ (by simpa using h2) (by simp; rw [e0]; simp [r0, rB])
    (by simp; rw [e1]; simp [r0, rB])
  simp only [linearPredictor, h1, hc, Option.bind_eq_bind, Option.bind_some]
  rw [if_neg (by simp), C06L.vbin_eq _ bG offG rfl]
  simp only [List.zipWith_cons_cons, List.zipWith_nil_right, mk_add, Option.some.injEq, List.cons.injEq, and_true,
    Fl.mk.injEq]
  norm_num [r0]

/-- **a scoring step at the genuine binary64-significand model whose nonzero step is absorbed**: `δ̂ = (1, 1)`,
`β = (2⁵⁵, 2⁵⁵)`, `β ⊖ δ̂ = β` (the exact difference `2⁵⁵ − 1` needs 55 digits) -/
theorem stepG : scoringStep solve Xg yG oG (⟨0⟩ : Fl f64grid) 2 bG muG oG oG = some (oG, bG) := by
  have hpen : penalised (⟨0⟩ : Fl f64grid) 2 bG oG Xg = (oG, Xg) := by
    unfold penalised
    rw [if_neg (show ¬ (0 : Fl f64grid) < ⟨0⟩ from lt_irrefl (0 : ℝ))]
  unfold scoringStep
  simp only [gGv, HGv, hpen, HG_solve, Option.bind_eq_bind, Option.bind_some]
  rw [C06L.vbin_eq (· - ·) bG oG rfl]
  simp only [List.zipWith_cons_cons, List.zipWith_nil_right, mk_sub, Option.pure_def, Option.bind_some,
    Option.some.injEq, Prod.mk.injEq, List.cons.injEq, and_true, true_and, Fl.mk.injEq]
  exact ⟨rAbs, rAbs⟩

theorem hdG : ∀ g H, computeDbeta Xg yG muG oG oG oG = some g → computeDdbeta Xg oG oG oG = some H →
    route (penalised (⟨0⟩ : Fl f64grid) 2 bG g H).2 = some none →
    ∀ f piv, lu (penalised (⟨0⟩ : Fl f64grid) 2 bG g H).2 = some (f, piv) → ∀ k, k < 2 → ev 2 f k k ≠ 0 := by
  intro g H _ hH hroute
  have e1 : H = Xg := Option.some.inj (hH.symm.trans HGv)
  have : (penalised (⟨0⟩ : Fl f64grid) 2 bG g H).2 = Xg := by
    unfold penalised
    rw [if_neg (show ¬ (0 : Fl f64grid) < ⟨0⟩ from lt_irrefl (0 : ℝ)), e1]
  rw [this, routeG] at hroute
  simp at hroute

/-- `RoundingLU.solve_backward_error` at `u = 2⁻⁵³` on the concrete Cholesky-route solve `I·x = (1,1)` -/
example := solve_backward_error Xg oG oG 2 rfl (le_refl 2) HG_solve (by rw [f64grid_u]; norm_num)

/-- `Rounding7.scoringStep_system` / `scoring_fixed_point` at `u = 2⁻⁵³`, every hypothesis discharged -/
example := scoringStep_system Xg yG oG bG muG oG oG (⟨0⟩ : Fl f64grid) 2 2 (by norm_num) (le_refl 2) rfl rfl rfl rfl rfl
  rfl oG bG stepG (by rw [f64grid_u]; norm_num) (by rw [f64grid_u]; norm_num) hdG
example := scoring_fixed_point Xg yG oG bG muG oG oG (⟨0⟩ : Fl f64grid) 2 2 (by norm_num) (le_refl 2) rfl rfl rfl rfl rfl
  rfl rfl oG stepG (by rw [f64grid_u]; norm_num) (by rw [f64grid_u]; norm_num) hdG

section exact
open Cv.Rounding8
noncomputable local instance : ExpLnStd f64grid := ExpLnStd.ofRnd f64grid

theorem mapsG : muG.map (invLinkF Family.gaussian) = muG ∧
    (muG.map (invLinkF Family.gaussian)).map (varF Family.gaussian) = oG := by
  constructor
  · show muG.map (fun η => η) = muG
    simp
  · rfl

theorem stepG' : scoringStep solveSqrt Xg yG oG (⟨0⟩ : Fl f64grid) 2 bG (muG.map (invLinkF Family.gaussian))
    ((muG.map (invLinkF Family.gaussian)).map (varF Family.gaussian))
    ((muG.map (invLinkF Family.gaussian)).map (varF Family.gaussian)) = some (oG, bG) := by
  rw [mapsG.2, mapsG.1]; exact stepG

theorem hdG' : LuPivotsOk Xg yG oG bG (muG.map (invLinkF Family.gaussian))
    ((muG.map (invLinkF Family.gaussian)).map (varF Family.gaussian))
    ((muG.map (invLinkF Family.gaussian)).map (varF Family.gaussian)) (⟨0⟩ : Fl f64grid) 2 := by
  rw [mapsG.2, mapsG.1]; exact hdG

/-- **`Rounding8.fixed_point_exact_score` at the genuine model, `u = 2⁻⁵³`**: Gaussian family, identity design,
offsets `−2⁵⁵`, `β = (2⁵⁵, 2⁵⁵)`; `η̂ = (0, 0)` is the computed (`etaGv`) AND the exact linear predictor, `y = (−1, −1)`;
the Newton step `δ̂ = (1, 1)` is absorbed (`stepG`), so the iteration has converged in floating point although the
exact score is `1` (next example) — every hypothesis of the theorem holds -/
example := fixed_point_exact_score Family.gaussian (Or.inl rfl) Xg yG oG bG muG (some offG) (⟨0⟩ : Fl f64grid) 2 2
  (by norm_num) (le_refl 2) rfl rfl rfl rfl rfl (by intro i hi; simp [varF]) oG stepG'
  (by rw [f64grid_u]; norm_num) (by rw [f64grid_u]; norm_num)
  (by show ((1 : Nat) : ℝ) * f64grid.u < 1; rw [f64grid_u]; norm_num) hdG'

example : scoreExact Family.gaussian Xg yG oG bG 2 2 (some offG) (alphaEff (⟨0⟩ : Fl f64grid)) 0 = 1 := by
  norm_num [scoreExact, etaExact, xv, muF, offv, Finset.sum_range_succ, alphaEff]

end exact

end Cv.RoundingGrid.Step

/-! ### a concrete Yule–Walker fit at the genuine model -/

namespace Cv.RoundingGrid.AR
open Cv Cv.FlModel Cv.LA Cv.LA.Lu Cv.Rounding Cv.FactorRounding Cv.RoundingLU Cv.Rounding3 Cv.Rounding6 Finset
open Cv.RoundingLU.Examples (mk_add mk_sub mk_mul mk_div)
open Cv.RoundingGrid.Step

noncomputable abbrev dA : List (Fl f64grid) := [⟨1⟩, ⟨0⟩, ⟨-1⟩, ⟨0⟩]

theorem r4 : f64grid.rnd 4 = 4 := by simpa using rnd_int 4 (by norm_num)
theorem r2 : f64grid.rnd 2 = 2 := by simpa using rnd_int 2 (by norm_num)
theorem rq (m : ℤ) (j : ℕ) (hm : |m| ≤ 2 ^ 53) : f64grid.rnd ((m : ℝ) / 2 ^ j) = (m : ℝ) / 2 ^ j :=
  grid_rnd_dyadic 53 (by norm_num) m j hm
theorem rq4 : f64grid.rnd (1 / 4) = 1 / 4 := by have := rq 1 2 (by norm_num); norm_num at this; norm_num [this]
theorem rq2 : f64grid.rnd (1 / 2) = 1 / 2 := by have := rq 1 1 (by norm_num); norm_num at this; norm_num [this]
theorem rmq4 : f64grid.rnd (-1 / 4) = -1 / 4 := by have := rq (-1) 2 (by norm_num); norm_num at this; norm_num [this]
theorem rmq2 : f64grid.rnd (-1 / 2) = -1 / 2 := by have := rq (-1) 1 (by norm_num); norm_num at this; norm_num [this]

theorem rmq4' : f64grid.rnd (-(1 / 4)) = -(1 / 4) := by have := rmq4; rw [neg_div] at this; exact this
theorem rmq2' : f64grid.rnd (-(1 / 2)) = -(1 / 2) := by have := rmq2; rw [neg_div] at this; exact this
theorem one_mk : (1 : Fl f64grid) = ⟨1⟩ := rfl
theorem neg_mk (a : ℝ) : -(⟨a⟩ : Fl f64grid) = ⟨-a⟩ := rfl
theorem natCast_mk (n : ℕ) : ((n : ℕ) : Fl f64grid) = ⟨f64grid.rnd n⟩ := rfl

theorem powi2 (x : Fl f64grid) : powi x 2 = 1 * (x * x) := rfl

theorem meanA : TS.mean dA = ⟨0⟩ := by
  apply Fl.ext
  norm_num [TS.mean, sum8, sum8Go, r0, r1]

/-- the autocorrelations `ρ̂₀, ρ̂₁, ρ̂₂` of `(1, 0, −1, 0)`: every operation is exact -/
theorem acfA : TS.fitAcf 2 dA = [⟨1⟩, ⟨0⟩, ⟨-1 / 2⟩] := by
  have hadj : dA.map (· - TS.mean dA) = dA := by
    rw [meanA]
    simp only [List.map_cons, List.map_nil, mk_sub, List.cons.injEq, and_true, Fl.mk.injEq]
    norm_num [r0, r1, rm1]
  unfold TS.fitAcf
  simp only [hadj]
  simp only [List.range_succ, List.range_zero, List.nil_append, List.cons_append, List.map_cons, List.map_nil, TS.acf, meanA]
  simp only [show dA.length = 4 from rfl, natCast_mk, powi2, one_mk, zero_mk, TS.iterSum, TS.lagProducts,
    Int.natAbs_natCast, List.drop, List.zipWith_cons_cons, List.zipWith_nil_left, List.zipWith_nil_right,
    List.foldl_cons, List.foldl_nil, neg_mk, mk_sub, mk_mul, mk_add, mk_div]
  norm_num [r0, r1, rm1, r2, r4, rq4, rq2, rmq4, rmq2, rmq4', rmq2']

theorem toepA : TS.toeplitz ([⟨1⟩, ⟨0⟩] : List (Fl f64grid)) = Xg := by
  simp [TS.toeplitz, Mat.build, List.range_succ]

theorem idA : (identity 2 : List (Fl f64grid)) = Xg := by
  simp [identity, List.range_succ, one_mk, zero_mk]

theorem r2c : rowToColMajor Xg 2 = some Xg := by
  unfold rowToColMajor
  simp only [show Xg.length = 4 from rfl, isM42, Option.bind_eq_bind, Option.bind_some, Option.pure_def]
  norm_num [List.range_succ, rd]

theorem c2r : colToRowMajor Xg 2 = some Xg := by
  unfold colToRowMajor
  simp only [show Xg.length = 4 from rfl, isM42, Option.bind_eq_bind, Option.bind_some, Option.pure_def]
  norm_num [List.range_succ, rd]

theorem solveE (a b : ℝ) (ha : f64grid.rnd a = a) (hb : f64grid.rnd b = b) :
    choleskySolve Xg [⟨a⟩, ⟨b⟩] = some [⟨a⟩, ⟨b⟩] := by
  have fwd : forwardSubstitution Xg [⟨a⟩, ⟨b⟩] = some [⟨a⟩, ⟨b⟩] := by
    unfold forwardSubstitution
    simp only [show Xg.length = 2 * 2 from rfl, isSquare_sq, Option.bind_eq_bind, Option.bind_some, Option.pure_def]
    norm_num [List.range_succ, rd, dot8, dot8Go, List.take, List.drop]
    simp only [zero_mk, mk_sub, mk_div, mk_mul, mk_add, Fl.mk.injEq]
    norm_num [r0, r1, ha, hb]
  have bwd : backwardSubstitution Xg [⟨a⟩, ⟨b⟩] = some [⟨a⟩, ⟨b⟩] := by
    unfold backwardSubstitution
    simp only [show Xg.length = 2 * 2 from rfl, isSquare_sq, Option.bind_eq_bind, Option.bind_some, Option.pure_def]
    norm_num [List.range_succ, rd, dot8, dot8Go, List.take, List.drop]
    simp only [zero_mk, mk_sub, mk_div, mk_mul, mk_add, Fl.mk.injEq]
    norm_num [r0, r1, ha, hb]
  unfold choleskySolve
  simp only [show Xg.length = 2 * 2 from rfl, isSquare_sq, Option.bind_eq_bind, Option.bind_some, fwd, LG_t, bwd]
  simp

theorem colsA : solveCols 2 (choleskySolve Xg) Xg 2 = some Xg := by
  simp [solveCols, solveE _ _ r1 r0, solveE _ _ r0 r1]

theorem invA : invertMatrix Xg = some Xg := by
  unfold invertMatrix solveSys
  simp only [show Xg.length = 2 * 2 from rfl, isSquare_sq, Option.bind_eq_bind, Option.bind_some, idA, r2c, routeG]
  rw [show LA.isMatrix (2 * 2) 2 = some 2 by decide]
  simp only [Option.bind_some, colsA, c2r]

theorem mmA : matmul Xg ([⟨0⟩, ⟨-1 / 2⟩] : List (Fl f64grid)) 2 2 false false = some [⟨0⟩, ⟨-1 / 2⟩] := by
  obtain ⟨c, h1, h2, h3⟩ := C05L.matmul_entry Xg ([⟨0⟩, ⟨-1 / 2⟩] : List (Fl f64grid)) 2 2 2 1 false false rfl rfl
    (by norm_num) (by norm_num) rfl
  have e0 := h3 0 0 (by norm_num) (by norm_num)
  have e1 := h3 1 0 (by norm_num) (by norm_num)
  simp [C05L.cellFold, C05L.opEntry, List.range_succ] at e0 e1
  rw [h1]
  congr 1
  exact ext2 c _ _ (by simpa using h2) (by simp; rw [e0]; simp [r0]) (by simp; rw [e1]; norm_num [r0, rmq2, rmq2'])

/-- **a concrete Yule–Walker fit at the genuine binary64-significand model**: `AR(2)` on `(1, 0, −1, 0)` returns
intercept `0` and stored coefficients `(−1/2, 0)` (every operation of this run is exact) -/
theorem arA : TS.arFit 2 dA = some (⟨0⟩, [⟨-1 / 2⟩, ⟨0⟩]) := by
  unfold TS.arFit
  rw [if_neg (by norm_num)]
  simp only [acfA, List.take, List.drop, toepA, invA, mmA, Option.bind_eq_bind, Option.bind_some, meanA, Option.pure_def,
    List.reverse_cons, List.reverse_nil, List.nil_append, List.cons_append]

/-- `Rounding6.yuleWalker_residual` at `u = 2⁻⁵³` on that run: `p = 2`, the Toeplitz system is routed to Cholesky
(so the hypothesis on LU pivots is void), every hypothesis holds -/
example := yuleWalker_residual 2 dA ⟨0⟩ [⟨-1 / 2⟩, ⟨0⟩] (le_refl 2) arA (by rw [f64grid_u]; norm_num)
  (by
    intro h
    rw [acfA] at h
    simp only [List.take] at h
    rw [toepA, routeG] at h
    simp at h)

end Cv.RoundingGrid.AR

/-! ### range theorems with underflow at the genuine model -/

namespace Cv.RoundingGrid.Ufl
open Cv Cv.FlModel Cv.Rounding Cv.Rounding3U
open Cv.RoundingGrid.Step (r1)

/-- a libm that flushes `exp` to zero below `−745` (as IEEE binary64 does) on the genuine 53-digit model -/
noncomputable local instance : ExpLnUfl f64grid := ExpLnUfl.flush f64grid (-745) (by norm_num)

/-- `logistic_range_ufl` at the genuine model: `Monotone rnd` and `rnd 1 = 1` are theorems about round-to-nearest
(`f64grid_mono`, `grid_rnd_one`), so the computed logistic lies in `[0, 1]` for EVERY argument -/
example (x : Fl f64grid) : 0 ≤ (logistic x).val ∧ (logistic x).val ≤ 1 :=
  logistic_range_ufl f64grid_mono r1 x

/-- and `[0, 1]` cannot be improved to `(0, 1)`: at `x = 800` the value is exactly `1` -/
example : (logistic (⟨800⟩ : Fl f64grid)).val = 1 := by
  show f64grid.rnd (1 / f64grid.rnd (1 + (if (-(800 : ℝ)) < -745 then 0 else Real.exp (-(800 : ℝ))))) = 1
  rw [if_pos (by norm_num), add_zero, r1, div_one, r1]

/-- `rbf_range_ufl` at the genuine model -/
example (k : Gp.RBF (Fl f64grid)) (x y : Fl f64grid) (hv : 0 ≤ k.var.val) :
    0 ≤ (k.fwd x y).val ∧ (k.fwd x y).val ≤ k.var.val * (1 + f64grid.u) := rbf_range_ufl k x y hv

end Cv.RoundingGrid.Ufl

/-! ### softmax with underflow, every hypothesis discharged -/

namespace Cv.RoundingGrid.Ufl2
open Cv Cv.FlModel Cv.Rounding Cv.Rounding3U
open Cv.RoundingGrid.Step (r0 r1 rnd_int)

noncomputable local instance : ExpLnUfl f64grid := ExpLnUfl.flush f64grid (-745) (by norm_num)
/-- a `MaxBot` structure on `Fl f64grid` (seed `−1000`) -/
noncomputable local instance : MaxBot (Fl f64grid) :=
  ⟨fun a b => @ite _ (a.val < b.val) (Classical.propDecidable _) b a, ⟨-1000⟩⟩

noncomputable abbrev xs : List (Fl f64grid) := [⟨0⟩, ⟨-800⟩]

theorem rm800 : f64grid.rnd (-800) = -800 := by simpa using rnd_int (-800) (by norm_num)

theorem args_xs : softmaxArgs xs = [⟨0⟩, ⟨-800⟩] := by
  simp [softmaxArgs, softmaxMax, MaxBot.fmax, MaxBot.negInf]
  constructor <;> (apply Fl.ext; norm_num [r0, rm800])

theorem exp0 : (Transc.exp (⟨0⟩ : Fl f64grid)) = ⟨1⟩ := by
  apply Fl.ext
  show (if (0 : ℝ) < -745 then 0 else Real.exp 0) = 1
  rw [if_neg (by norm_num), Real.exp_zero]
theorem exp800 : (Transc.exp (⟨-800⟩ : Fl f64grid)) = ⟨0⟩ := by
  apply Fl.ext
  show (if (-800 : ℝ) < -745 then 0 else Real.exp (-800)) = 0
  rw [if_pos (by norm_num)]

theorem sum_xs : (softmaxSum xs).val = 1 := by
  unfold softmaxSum
  rw [args_xs]
  simp [exp0, exp800, r0, r1]

/-- **`softmax_sum_error_ufl` with EVERY hypothesis discharged, at the genuine model with a flush-to-zero `exp`**:
`x = (0, −800)`; `exp(−800)` underflows, the computed sum is `1 > 0` (`hS`), `3·2⁻⁵³ < 1` -/
example : (softmax xs).length = 2 ∧ (∀ y ∈ softmax xs, 0 ≤ y.val) ∧
    |(vals (softmax xs)).sum - 1| ≤ f64grid.γ 3 :=
  softmax_sum_error_ufl xs (by rw [sum_xs]; norm_num) (by rw [f64grid_u]; norm_num)

/-- and `0 ≤` cannot be improved to `0 <` here: the second probability is exactly `0` -/
example : softmax xs = [⟨1⟩, ⟨0⟩] := by
  have hS : softmaxSum xs = ⟨1⟩ := Fl.ext sum_xs
  unfold softmax
  rw [args_xs, hS]
  simp only [List.map_cons, List.map_nil, exp0, exp800, List.cons.injEq, and_true]
  constructor <;> (apply Fl.ext; simp [r0, r1])

end Cv.RoundingGrid.Ufl2

/-! ### the LU route with a row exchange at the genuine model -/

namespace Cv.RoundingGrid.LU
open Cv Cv.FlModel Cv.LA Cv.LA.Lu Cv.Rounding Cv.FactorRounding Cv.RoundingLU Finset
open Cv.RoundingLU.Examples (mk_add mk_sub mk_mul mk_div mk_sub_zero zero_add_mk mk_eq_zero mk_abs mk_lt)
open Cv.RoundingGrid.Step Cv.RoundingGrid.AR

/-- a non-symmetric matrix with dyadic entries whose first pivot search exchanges the rows -/
noncomputable abbrev Ag : List (Fl f64grid) := [⟨1⟩, ⟨2⟩, ⟨4⟩, ⟨2⟩]
/-- its packed LU factor: `L = [[1,0],[1/4,1]]`, `U = [[4,2],[0,3/2]]`, rows exchanged -/
noncomputable abbrev Fg : List (Fl f64grid) := [⟨4⟩, ⟨2⟩, ⟨1 / 4⟩, ⟨3 / 2⟩]

theorem rm2 : f64grid.rnd (-2) = -2 := by simpa using rnd_int (-2) (by norm_num)
theorem r32 : f64grid.rnd (3 / 2) = 3 / 2 := by have := rq 3 1 (by norm_num); norm_num at this; norm_num [this]

theorem Ag_step0 : luStep 2 (Ag, [0, 1]) 0 = ([⟨4⟩, ⟨2⟩, ⟨1 / 4⟩, ⟨2⟩], [1, 0]) := by
  have hc : luColumn 2 0 Ag = Ag := by
    norm_num [luColumn, luDot, List.range_succ, rd, List.set, mk_sub_zero, r1, r4]
  have hp : luPivot 2 0 Ag = 1 := by
    norm_num [luPivot, List.range', rd, mk_abs, mk_lt]
  have hs : swapRows 2 1 0 Ag = [⟨4⟩, ⟨2⟩, ⟨1⟩, ⟨2⟩] := rfl
  have hsc : luScale 2 0 ([⟨4⟩, ⟨2⟩, ⟨1⟩, ⟨2⟩] : List (Fl f64grid)) = [⟨4⟩, ⟨2⟩, ⟨1 / 4⟩, ⟨2⟩] := by
    norm_num [luScale, List.range', rd, mk_div, mk_eq_zero, List.set, rq4]
  simp [luStep, hc, hp, hs, hsc, swapIdx]

theorem Ag_step1 : luStep 2 ([⟨4⟩, ⟨2⟩, ⟨1 / 4⟩, ⟨2⟩], [1, 0]) 1 = (Fg, [1, 0]) := by
  have hc : luColumn 2 1 ([⟨4⟩, ⟨2⟩, ⟨1 / 4⟩, ⟨2⟩] : List (Fl f64grid)) = Fg := by
    norm_num [luColumn, luDot, List.range_succ, rd, List.set, mk_sub_zero, mk_sub, mk_mul, zero_add_mk, r2, rq2, r32]
  have hp : luPivot 2 1 Fg = 1 := by
    norm_num [luPivot, List.range']
  have hsc : luScale 2 1 Fg = Fg := by
    norm_num [luScale, List.range']
  simp only [luStep, hc, hp]
  simp [hsc]

/-- `lu` at the genuine model, with a row exchange (every operation exact) -/
theorem Ag_lu : lu Ag = some (Fg, [1, 0]) := by
  unfold lu
  simp only [show Ag.length = 2 * 2 from rfl, isSquare_sq]
  show some (luStep 2 (luStep 2 (Ag, [0, 1]) 0) 1) = _
  rw [Ag_step0, Ag_step1]

theorem Fg_pivots : ∀ k, k < 2 → ev 2 Fg k k ≠ 0 := by
  intro k hk
  have h : k = 0 ∨ k = 1 := by omega
  rcases h with rfl | rfl <;> norm_num [ev, rd]

/-- not symmetric, so `solve` takes the LU route -/
theorem Ag_route : route Ag = some none := by
  unfold route routePredicate isPositiveDefinite isSymmetric
  simp only [show Ag.length = 2 * 2 from rfl, isSquare_sq]
  norm_num [List.range_succ, List.range', rd, eps, Fl.lt_def, bigE, mk_sub, mk_abs, r0, rEps, rEps', rm1, rm2]

theorem Ag_solve : ∃ x, solve Ag [⟨1⟩, ⟨4⟩] = some x := by
  unfold solve
  simp only [show Ag.length = 2 * 2 from rfl]
  simp [Ag_route, solveWith, Ag_lu, luSolve, luPermute]

/-- **`RoundingLU.solve_backward_error` at `u = 2⁻⁵³` on the LU route with a row exchange**: the second disjunct
is the one that holds; no pivot of the computed factor vanishes (`Fg_pivots`) -/
example : ∃ x, solve Ag [⟨1⟩, ⟨4⟩] = some x ∧ ∃ f piv, lu Ag = some (f, piv) ∧ ∀ k, k < 2 → ev 2 f k k ≠ 0 := by
  obtain ⟨x, hx⟩ := Ag_solve
  exact ⟨x, hx, Fg, [1, 0], Ag_lu, Fg_pivots⟩
example := fun x (hx : solve Ag [⟨1⟩, ⟨4⟩] = some x) =>
  solve_backward_error Ag [⟨1⟩, ⟨4⟩] x 2 rfl (le_refl 2) hx (by rw [f64grid_u]; norm_num)
example := lu_backward_error Ag Fg [1, 0] 2 rfl Ag_lu Fg_pivots

end Cv.RoundingGrid.LU
