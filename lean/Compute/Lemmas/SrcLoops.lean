/-
General "loop shape" lemmas for the source tie of loops and iterator chains
(`Compute/Props/SrcTieCxxLoops.lean`, generated side `Compute/Generated/SrcCxxLoops.lean`).

The translator `tools/rs2lean.py` (option `loops`) spells a Rust loop the way the source writes it:

* an index loop / index map  `for i in lo..hi { .. x[i] .. }`, `(lo..hi).map(|i| .. x[i] ..)`
  as a fold / map over `List.range n` / `List.range' lo (hi - lo)` with `x[i]!`;
* `.enumerate()` as `List.zipIdx`, `.windows(2)` as `List.zip l l.tail`, `.zip` as `List.zip`.

The hand models are written over the *elements* (`List.zipWith`, `List.zip`, `List.map`) or as structural
recursions.  The lemmas below say that the two spellings visit the same items in the same order.  They are
statements about list combinators only: nothing about the scalar operations is used (no algebra), so they hold
for every element type, in particular at `Float`.  Core Lean only (no Mathlib).
-/
namespace Cv.SrcLoops

variable {α β γ δ : Type}

/-! ### index loops over `0..len` -/

/-- `(0..x.len()).map(|i| x[i])` is `x`. -/
theorem map_range_getElem! [Inhabited α] (x : List α) :
    (List.range x.length).map (fun i => x[i]!) = x := by
  apply List.ext_getElem
  · simp
  · intro i h₁ h₂
    simp only [List.length_map, List.length_range] at h₁
    simp [h₁]

/-- `(0..x.len()).map(|i| f(x[i]))` is `x.map f`. -/
theorem map_range_idx [Inhabited α] (f : α → β) (x : List α) :
    (List.range x.length).map (fun i => f x[i]!) = x.map f := by
  have h := congrArg (List.map f) (map_range_getElem! x)
  simpa [List.map_map, Function.comp_def] using h

/-- `(0..n).map(|i| f(x[i], y[i]))` with `n = x.len() = y.len()` is `zipWith f x y`. -/
theorem map_range_idx₂ [Inhabited α] [Inhabited β] (f : α → β → γ) (x : List α) (y : List β)
    (h : x.length = y.length) :
    (List.range x.length).map (fun i => f x[i]! y[i]!) = List.zipWith f x y := by
  apply List.ext_getElem
  · simp [h]
  · intro i h₁ h₂
    simp only [List.length_map, List.length_range] at h₁
    have hy : i < y.length := h ▸ h₁
    simp [h₁, hy]

/-- `(0..n).map(|i| (x[i], y[i]))` is `zip x y`. -/
theorem map_range_pair [Inhabited α] [Inhabited β] (x : List α) (y : List β) (h : x.length = y.length) :
    (List.range x.length).map (fun i => (x[i]!, y[i]!)) = List.zip x y := by
  rw [List.zip_eq_zipWith]
  exact map_range_idx₂ Prod.mk x y h

/-- `for i in 0..x.len() { s = f(s, x[i]) }` is the fold over `x`. -/
theorem foldl_range_idx [Inhabited α] (f : β → α → β) (init : β) (x : List α) :
    (List.range x.length).foldl (fun s i => f s x[i]!) init = x.foldl f init := by
  have h := List.foldl_map (f := fun i => x[i]!) (g := f) (l := List.range x.length) (init := init)
  rw [map_range_getElem!] at h
  exact h.symm

/-- `for i in 0..n { s = f(s, (x[i], y[i])) }` with `n = x.len() = y.len()` is the fold over `zip x y`. -/
theorem foldl_range_idx₂ [Inhabited α] [Inhabited β] (f : γ → α × β → γ) (init : γ) (x : List α) (y : List β)
    (h : x.length = y.length) :
    (List.range x.length).foldl (fun s i => f s (x[i]!, y[i]!)) init = (List.zip x y).foldl f init := by
  have h' := List.foldl_map (f := fun i => (x[i]!, y[i]!)) (g := f) (l := List.range x.length) (init := init)
  rw [map_range_pair x y h] at h'
  exact h'.symm

/-! ### index maps over `lo..hi` -/

/-- `(k..x.len()).map(|i| f(x[i], x[i - k]))` is `zipWith f (x.drop k) x` (the lagged products of `acovf`). -/
theorem map_range'_lag [Inhabited α] (f : α → α → γ) (x : List α) (k : Nat) :
    (List.range' k (x.length - k)).map (fun i => f x[i]! x[i - k]!) = List.zipWith f (x.drop k) x := by
  apply List.ext_getElem
  · simp only [List.length_map, List.length_range', List.length_zipWith, List.length_drop]; omega
  · intro i h₁ h₂
    simp only [List.length_map, List.length_range'] at h₁
    have hk : k + i < x.length := by omega
    have hi : i < x.length := by omega
    have e : k + i - k = i := by omega
    simp [hk, hi, e]

/-- `(1..x.len()).map(|i| f(x[i - 1], x[i]))` is `zipWith f x x.tail` (successive pairs; `difference`, `trapezoid`). -/
theorem map_range'_succ_pairs [Inhabited α] (f : α → α → γ) (x : List α) :
    (List.range' 1 (x.length - 1)).map (fun i => f x[i - 1]! x[i]!) = List.zipWith f x x.tail := by
  apply List.ext_getElem
  · simp only [List.length_map, List.length_range', List.length_zipWith, List.length_tail]; omega
  · intro i h₁ h₂
    simp only [List.length_map, List.length_range'] at h₁
    have h1 : 1 + i < x.length := by omega
    have hi : i < x.length := by omega
    have e : 1 + i - 1 = i := by omega
    simp [h1, hi, e, Nat.add_comm i 1]

/-- `(0..x.len() - 1).map(|i| f(x[i], x[i + 1]))` is `zipWith f x x.tail` (`difference`). -/
theorem map_range_succ_pairs [Inhabited α] (f : α → α → γ) (x : List α) :
    (List.range (x.length - 1)).map (fun i => f x[i]! x[i + 1]!) = List.zipWith f x x.tail := by
  apply List.ext_getElem
  · simp only [List.length_map, List.length_range, List.length_zipWith, List.length_tail]; omega
  · intro i h₁ h₂
    simp only [List.length_map, List.length_range] at h₁
    have h1 : i + 1 < x.length := by omega
    have hi : i < x.length := by omega
    simp [h1, hi]

/-! ### structural recursions = folds / maps over the iterator spelling -/

/-- A function defined by the "successive pairs" recursion
`g [] = []`, `g [a] = []`, `g (a :: b :: r) = f a b :: g (b :: r)` is `windows(2).map(|w| f(w[0], w[1]))`. -/
theorem pairRec_eq_map_zip_tail (g : List α → List β) (f : α → α → β)
    (h0 : g [] = []) (h1 : ∀ a, g [a] = []) (h2 : ∀ a b r, g (a :: b :: r) = f a b :: g (b :: r))
    (l : List α) : g l = (List.zip l l.tail).map (fun w => f w.1 w.2) := by
  induction l with
  | nil => simp [h0]
  | cons a t ih =>
    cases t with
    | nil => simp [h1]
    | cons b r => rw [h2, ih]; simp

/-- The same with `zipWith`. -/
theorem pairRec_eq_zipWith_tail (g : List α → List β) (f : α → α → β)
    (h0 : g [] = []) (h1 : ∀ a, g [a] = []) (h2 : ∀ a b r, g (a :: b :: r) = f a b :: g (b :: r))
    (l : List α) : g l = List.zipWith f l l.tail := by
  rw [pairRec_eq_map_zip_tail g f h0 h1 h2, List.zip_eq_zipWith, List.map_zipWith]

/-- A function defined by the indexed accumulator recursion
`g i acc [] = acc`, `g i acc (x :: xs) = g (i + 1) (f acc (x, i)) xs` is `.enumerate().fold(acc, f)` started at
index `i` (`List.zipIdx` pairs are `(item, index)`). -/
theorem idxRec_eq_foldl_zipIdx (g : Nat → β → List α → β) (f : β → α × Nat → β)
    (h0 : ∀ i acc, g i acc [] = acc) (h1 : ∀ i acc x xs, g i acc (x :: xs) = g (i + 1) (f acc (x, i)) xs)
    (i : Nat) (acc : β) (l : List α) : g i acc l = (l.zipIdx i).foldl f acc := by
  induction l generalizing i acc with
  | nil => simp [h0]
  | cons x xs ih => rw [h1, ih, List.zipIdx_cons, List.foldl_cons]

/-- `for i in it { v.push(f(i)) }` is `v ++ it.map(f)` (element-wise `Vec` construction by a loop). -/
theorem foldl_push_eq_map (f : α → β) (init : List β) (l : List α) :
    l.foldl (fun acc i => acc ++ [f i]) init = init ++ l.map f := by
  induction l generalizing init with
  | nil => simp
  | cons a t ih => simp [ih]

/-- `for j in it { s = op(s, g(j)) }` is the fold of `op` over `it.map(g)`. -/
theorem foldl_comp_eq_foldl_map (op : β → γ → β) (g : α → γ) (s : β) (l : List α) :
    l.foldl (fun s j => op s (g j)) s = (l.map g).foldl op s :=
  (List.foldl_map (f := g) (g := op) (l := l) (init := s)).symm

/-- Two folds with step functions that agree are equal (`List.foldl` extensionality). -/
theorem foldl_ext (f g : β → α → β) (h : ∀ s a, f s a = g s a) (init : β) (l : List α) :
    l.foldl f init = l.foldl g init := by
  have : f = g := funext fun s => funext fun a => h s a
  rw [this]

/-- `zipWith` after a `map` on the right list (used for `xs.map h` zipped with weights). -/
theorem zipWith_map_fun (f : α → β → γ) (l : List α) (l' : List β) :
    (List.zip l l').map (fun p => f p.1 p.2) = List.zipWith f l l' := by
  rw [List.zip_eq_zipWith, List.map_zipWith]

end Cv.SrcLoops
