//! C18 executor: histories of constructor / setter / bulk-update calls on the 13 univariate
//! distributions of `compute::distributions`, observed after every step and compared with a freshly
//! constructed twin.
//!
//! One request line is one self-contained history (so that a replay of a single line reproduces it):
//!
//!   hist <kind> <seed> <probe0> <probe1> <probe2> <nsteps> <step>*
//!     step = new <arg>*            (arity and argument types fixed by <kind>, see `sig`)
//!          | set <field> <arg>     (field = index of the setter in declaration order)
//!          | upd <n> <f64>*n       (Distribution1D::update(&[..]))
//!          | default               (obj = <Kind as Default>::default(); also a valid first step)
//!          | clone | copy          (obj = obj.clone() / a bitwise `Copy` of obj)
//!   f64 arguments are 16 hex digits, integer arguments (usize / u64 / i64) are decimal; the probes are
//!   f64 for the continuous kinds and i64 for the discrete ones.
//!
//! Every step runs under its own `catch_unwind`; after a panic the object keeps whatever the panicking
//! call had already assigned (a panicking `new` keeps the previous object, if any).
//!
//! Reply: `= <stepreply> | <stepreply> | …`, one per step:
//!   <panicked 0|1> C <c> -                               no object exists (the first `new` panicked)
//!   <panicked 0|1> C <c> S <state> O <obs> D <draws> R <draws> T <twin>
//!     <c>     = for `set` / `upd`: does the *constructor* accept the parameter list the call would produce
//!               (current parameters with the field replaced / the cast slice)?  `1` yes, `0` it panics,
//!               `-` not applicable (`new`, no object, slice of the wrong length).  The property demands
//!               that setters and bulk updates reject exactly what the constructor rejects — also for NaN.
//!     <state> = every number of the `Debug` rendering of the object, in order: the parameters first,
//!               then the parameters of the cached sub-sampler objects (the fields are private and there
//!               are no getters; `Debug` is the public view of the whole record)
//!     <obs>   = pdf/pmf at the three probes, mean, var (`X` for a call that panicked)
//!     D       = `alea::set_seed(seed)` followed by 32 `sample()` calls (`X` if sampling panicked; `N` = not
//!               sampled because some number of the record is NaN: several rejection samplers never
//!               terminate on NaN parameters)
//!     R       = the same again, but unrelated distribution objects are created, mutated and sampled
//!               before the seed is set, and created and mutated (not sampled) between the draws
//!     <twin>  = `X` if `new(current parameters)` panics, otherwise `S <state> O <obs> D <draws>` of that
//!               fresh object
//!
//! Bulk draws (reproducibility of `Distribution1D::sample_n` / `sample_matrix` from a fixed seed, at sizes where an
//! implementation might switch strategy):
//!
//!   bulk <kind> <seed> <rows> <cols> new <arg>*  cols = 0: `sample_n(rows)`; cols > 0: `sample_matrix(rows, cols)`
//!   bulk <kind> <seed> <rows> <cols> default     the same on `<Kind as Default>::default().clone()`
//!
//! Reply `= n <digest> <first 4 draws> <last 4 draws> <state> A <digest'> <state'> <digest''> <state''> T <digestT> <stateT>`
//! (`T …` only in `default` mode; `T X` if the twin cannot be built); the `T` pair is the bulk call on the twin `new(parameters of the object)`:
//! `alea::set_seed(seed)`, the bulk call, then `alea::get_seed()`; `digest` = FNV-1a over the 64-bit patterns of
//! the n draws (NaN canonical), printed as 16 hex digits.  The primed pair is the same bulk call run a second time
//! from the same seed, the double-primed pair is `n` single `sample()` calls from the same seed.  The property
//! demands that the three digests and the three final generator states coincide.  (`! panic` if `new` panics.)
use compute::distributions::*;
use cvexec::*;
use std::panic::{catch_unwind, AssertUnwindSafe};

const NDRAWS: usize = 32;

#[derive(Clone, Copy, Debug)]
enum A {
    F(f64),
    I(i128),
}

impl A {
    fn f(self) -> R<f64> {
        match self {
            A::F(x) => Ok(x),
            _ => Err(BadOp),
        }
    }
    fn i(self) -> R<i128> {
        match self {
            A::I(x) => Ok(x),
            _ => Err(BadOp),
        }
    }
    fn show(self) -> String {
        match self {
            A::F(x) => show_f(x),
            A::I(i) => i.to_string(),
        }
    }
}

#[derive(Clone, Copy)]
enum D {
    Bernoulli(Bernoulli),
    Beta(Beta),
    Binomial(Binomial),
    ChiSquared(ChiSquared),
    DiscreteUniform(DiscreteUniform),
    Exponential(Exponential),
    Gamma(Gamma),
    Gumbel(Gumbel),
    Normal(Normal),
    Pareto(Pareto),
    Poisson(Poisson),
    T(T),
    Uniform(Uniform),
}

/// Constructor signature: `f` = f64, `u` = usize, `n` = u64, `i` = i64.
fn sig(kind: &str) -> R<&'static str> {
    Ok(match kind {
        "bernoulli" => "f",
        "beta" => "ff",
        "binomial" => "nf",
        "chisquared" => "u",
        "discreteuniform" => "ii",
        "exponential" => "f",
        "gamma" => "ff",
        "gumbel" => "ff",
        "normal" => "ff",
        "pareto" => "ff",
        "poisson" => "f",
        "t" => "f",
        "uniform" => "ff",
        _ => return Err(BadOp),
    })
}

fn discrete(kind: &str) -> bool {
    matches!(kind, "bernoulli" | "binomial" | "discreteuniform" | "poisson")
}

fn parse_arg(t: &mut Toks, ty: u8) -> R<A> {
    Ok(match ty {
        b'f' => A::F(t.f64()?),
        b'u' | b'n' => {
            let v = t.u64()?;
            A::I(v as i128)
        }
        b'i' => A::I(t.i64()? as i128),
        _ => return Err(BadOp),
    })
}

fn construct(kind: &str, a: &[A]) -> R<D> {
    Ok(match kind {
        "bernoulli" => D::Bernoulli(Bernoulli::new(a[0].f()?)),
        "beta" => D::Beta(Beta::new(a[0].f()?, a[1].f()?)),
        "binomial" => D::Binomial(Binomial::new(a[0].i()? as u64, a[1].f()?)),
        "chisquared" => D::ChiSquared(ChiSquared::new(a[0].i()? as usize)),
        "discreteuniform" => D::DiscreteUniform(DiscreteUniform::new(a[0].i()? as i64, a[1].i()? as i64)),
        "exponential" => D::Exponential(Exponential::new(a[0].f()?)),
        "gamma" => D::Gamma(Gamma::new(a[0].f()?, a[1].f()?)),
        "gumbel" => D::Gumbel(Gumbel::new(a[0].f()?, a[1].f()?)),
        "normal" => D::Normal(Normal::new(a[0].f()?, a[1].f()?)),
        "pareto" => D::Pareto(Pareto::new(a[0].f()?, a[1].f()?)),
        "poisson" => D::Poisson(Poisson::new(a[0].f()?)),
        "t" => D::T(T::new(a[0].f()?)),
        "uniform" => D::Uniform(Uniform::new(a[0].f()?, a[1].f()?)),
        _ => return Err(BadOp),
    })
}

/// Setter number `idx` (declaration order in the source file).
fn set(d: &mut D, idx: usize, a: A) -> R<()> {
    match (d, idx) {
        (D::Bernoulli(x), 0) => {
            x.set_p(a.f()?);
        }
        (D::Beta(x), 0) => {
            x.set_alpha(a.f()?);
        }
        (D::Beta(x), 1) => {
            x.set_beta(a.f()?);
        }
        (D::Binomial(x), 0) => {
            x.set_n(a.i()? as u64);
        }
        (D::Binomial(x), 1) => {
            x.set_p(a.f()?);
        }
        (D::ChiSquared(x), 0) => {
            x.set_dof(a.i()? as usize);
        }
        (D::DiscreteUniform(x), 0) => {
            x.set_lower(a.i()? as i64);
        }
        (D::DiscreteUniform(x), 1) => {
            x.set_upper(a.i()? as i64);
        }
        (D::Exponential(x), 0) => {
            x.set_lambda(a.f()?);
        }
        (D::Gamma(x), 0) => {
            x.set_alpha(a.f()?);
        }
        (D::Gamma(x), 1) => {
            x.set_beta(a.f()?);
        }
        (D::Gumbel(x), 0) => {
            x.set_mu(a.f()?);
        }
        (D::Gumbel(x), 1) => {
            x.set_beta(a.f()?);
        }
        (D::Normal(x), 0) => {
            x.set_mu(a.f()?);
        }
        (D::Normal(x), 1) => {
            x.set_sigma(a.f()?);
        }
        (D::Pareto(x), 0) => {
            x.set_alpha(a.f()?);
        }
        (D::Pareto(x), 1) => {
            x.set_minval(a.f()?);
        }
        (D::Poisson(x), 0) => {
            x.set_lambda(a.f()?);
        }
        (D::T(x), 0) => {
            x.set_dof(a.f()?);
        }
        (D::Uniform(x), 0) => {
            x.set_lower(a.f()?);
        }
        (D::Uniform(x), 1) => {
            x.set_upper(a.f()?);
        }
        _ => return Err(BadOp),
    }
    Ok(())
}

macro_rules! each {
    ($d:expr, $x:ident => $e:expr) => {
        match $d {
            D::Bernoulli($x) => $e,
            D::Beta($x) => $e,
            D::Binomial($x) => $e,
            D::ChiSquared($x) => $e,
            D::DiscreteUniform($x) => $e,
            D::Exponential($x) => $e,
            D::Gamma($x) => $e,
            D::Gumbel($x) => $e,
            D::Normal($x) => $e,
            D::Pareto($x) => $e,
            D::Poisson($x) => $e,
            D::T($x) => $e,
            D::Uniform($x) => $e,
        }
    };
}

fn default_of(kind: &str) -> R<D> {
    Ok(match kind {
        "bernoulli" => D::Bernoulli(Bernoulli::default()),
        "beta" => D::Beta(Beta::default()),
        "binomial" => D::Binomial(Binomial::default()),
        "chisquared" => D::ChiSquared(ChiSquared::default()),
        "discreteuniform" => D::DiscreteUniform(DiscreteUniform::default()),
        "exponential" => D::Exponential(Exponential::default()),
        "gamma" => D::Gamma(Gamma::default()),
        "gumbel" => D::Gumbel(Gumbel::default()),
        "normal" => D::Normal(Normal::default()),
        "pareto" => D::Pareto(Pareto::default()),
        "poisson" => D::Poisson(Poisson::default()),
        "t" => D::T(T::default()),
        "uniform" => D::Uniform(Uniform::default()),
        _ => return Err(BadOp),
    })
}

#[allow(clippy::clone_on_copy)]
fn clone_in_place(d: &mut D) {
    each!(d, x => *x = x.clone())
}

fn copy_in_place(d: &mut D) {
    each!(d, x => {
        let y = *x;
        *x = y
    })
}

fn update(d: &mut D, p: &[f64]) {
    each!(d, x => x.update(p))
}

fn debug(d: &D) -> String {
    each!(d, x => format!("{:?}", x))
}

fn sample(d: &D) -> f64 {
    each!(d, x => x.sample())
}

fn mean(d: &D) -> f64 {
    each!(d, x => x.mean())
}

fn var(d: &D) -> f64 {
    each!(d, x => x.var())
}

fn density(d: &D, p: A) -> R<f64> {
    Ok(match d {
        D::Bernoulli(x) => x.pmf(p.i()? as i64),
        D::Binomial(x) => x.pmf(p.i()? as i64),
        D::DiscreteUniform(x) => x.pmf(p.i()? as i64),
        D::Poisson(x) => x.pmf(p.i()? as i64),
        D::Beta(x) => x.pdf(p.f()?),
        D::ChiSquared(x) => x.pdf(p.f()?),
        D::Exponential(x) => x.pdf(p.f()?),
        D::Gamma(x) => x.pdf(p.f()?),
        D::Gumbel(x) => x.pdf(p.f()?),
        D::Normal(x) => x.pdf(p.f()?),
        D::Pareto(x) => x.pdf(p.f()?),
        D::T(x) => x.pdf(p.f()?),
        D::Uniform(x) => x.pdf(p.f()?),
    })
}

/// Every number of a `Debug` rendering, in order.  `f64` fields always print with `.`/`e`/`inf`/`NaN`,
/// integer fields never do.
fn numbers(dbg: &str) -> Vec<A> {
    let mut out = Vec::new();
    let mut rest = dbg;
    while let Some(p) = rest.find(": ") {
        rest = &rest[p + 2..];
        let end = rest.find(|c: char| c == ',' || c == ' ' || c == '}').unwrap_or(rest.len());
        let tok = &rest[..end];
        let first = tok.chars().next().unwrap_or(' ');
        if first.is_ascii_uppercase() && tok != "NaN" {
            continue; // nested struct name
        }
        if let Ok(i) = tok.parse::<i128>() {
            out.push(A::I(i));
        } else if let Ok(x) = tok.parse::<f64>() {
            out.push(A::F(x));
        } else {
            panic!("c18 executor: cannot read Debug token {:?}", tok);
        }
    }
    out
}

fn show_state(d: &D) -> String {
    numbers(&debug(d)).iter().map(|a| a.show()).collect::<Vec<_>>().join(" ")
}

fn guard<T>(f: impl FnOnce() -> T) -> Option<T> {
    catch_unwind(AssertUnwindSafe(f)).ok()
}

fn show_opt(x: Option<f64>) -> String {
    match x {
        Some(v) => show_f(v),
        None => "X".to_string(),
    }
}

fn show_obs(d: &D, probes: &[A]) -> R<String> {
    let mut s = Vec::new();
    for p in probes {
        let p = *p;
        // type errors are protocol errors, not panics
        match p {
            A::F(_) => {
                if matches!(d, D::Bernoulli(_) | D::Binomial(_) | D::DiscreteUniform(_) | D::Poisson(_)) {
                    return Err(BadOp);
                }
            }
            A::I(_) => {
                if !matches!(d, D::Bernoulli(_) | D::Binomial(_) | D::DiscreteUniform(_) | D::Poisson(_)) {
                    return Err(BadOp);
                }
            }
        }
        s.push(show_opt(guard(|| density(d, p).unwrap())));
    }
    s.push(show_opt(guard(|| mean(d))));
    s.push(show_opt(guard(|| var(d))));
    Ok(s.join(" "))
}

fn show_draws(xs: Option<Vec<f64>>) -> String {
    match xs {
        Some(v) => show_fs(&v),
        None => "X".to_string(),
    }
}

fn has_nan(d: &D) -> bool {
    numbers(&debug(d)).iter().any(|a| matches!(a, A::F(x) if x.is_nan()))
}

fn cast_slice(kind: &str, ps: &[f64]) -> R<Option<Vec<A>>> {
    let sg = sig(kind)?.as_bytes();
    if ps.len() < sg.len() || (kind == "pareto" && ps.len() != 2) {
        return Ok(None);
    }
    Ok(Some(
        sg.iter()
            .zip(ps)
            .map(|(ty, x)| match ty {
                b'f' => A::F(*x),
                b'i' => A::I((*x as i64) as i128),
                b'u' => A::I((*x as usize) as i128),
                _ => A::I((*x as u64) as i128),
            })
            .collect(),
    ))
}

fn ctor_accepts(kind: &str, cand: &[A]) -> &'static str {
    if guard(|| construct(kind, cand).unwrap()).is_some() {
        "1"
    } else {
        "0"
    }
}

fn draws_plain(d: &D, seed: u64) -> Option<Vec<f64>> {
    guard(|| {
        alea::set_seed(seed);
        (0..NDRAWS).map(|_| sample(d)).collect()
    })
}

/// Same seed, but with unrelated objects being created, mutated and sampled around the draws.
fn draws_noisy(d: &D, seed: u64, salt: usize) -> Option<Vec<f64>> {
    guard(|| {
        let mut g = Gamma::new(3. + salt as f64, 2.);
        let b = Beta::new(2., 5.);
        let c = ChiSquared::new(7 + salt);
        let n = Normal::new(1., 2.);
        for _ in 0..(1 + salt % 5) {
            let _ = g.sample() + b.sample() + c.sample() + n.sample();
        }
        alea::set_seed(seed);
        let mut out = Vec::with_capacity(NDRAWS);
        let mut keep: Vec<Exponential> = Vec::new();
        for k in 0..NDRAWS {
            out.push(sample(d));
            if k % 3 == salt % 3 {
                keep.push(Exponential::new(1.5 + k as f64));
                let mut u = Gumbel::new(0.5, 1. + k as f64);
                u.set_beta(2.);
                g.set_alpha(1. + k as f64);
                let mut du = DiscreteUniform::new(0, 5);
                du.update(&[1., 4.]);
                let _ = (Poisson::new(4.), T::new(3.), Pareto::new(1., 2.), Bernoulli::new(0.3), Binomial::new(10, 0.3), Uniform::new(0., 1.));
            }
        }
        out
    })
}

fn observe(d: &D, kind: &str, probes: &[A], seed: u64, salt: usize) -> R<String> {
    let arity = sig(kind)?.len();
    let (dp, dn) = if has_nan(d) {
        ("N".to_string(), "N".to_string())
    } else {
        (show_draws(draws_plain(d, seed)), show_draws(draws_noisy(d, seed, salt)))
    };
    let mut s = format!("S {} O {} D {} R {}", show_state(d), show_obs(d, probes)?, dp, dn);
    let params: Vec<A> = numbers(&debug(d))[..arity].to_vec();
    let twin = guard(|| construct(kind, &params).unwrap());
    match twin {
        None => s.push_str(" T X"),
        Some(tw) => {
            let dt = if has_nan(&tw) { "N".to_string() } else { show_draws(draws_plain(&tw, seed)) };
            s.push_str(&format!(" T S {} O {} D {}", show_state(&tw), show_obs(&tw, probes)?, dt));
        }
    }
    Ok(s)
}

fn fnv(xs: &[f64]) -> u64 {
    let mut h: u64 = 0xcbf29ce484222325;
    for x in xs {
        let b = if x.is_nan() { 0x7ff8000000000000 } else { x.to_bits() };
        h = (h ^ b).wrapping_mul(0x100000001b3);
    }
    h
}

fn bulk_call(d: &D, rows: usize, cols: usize) -> Vec<f64> {
    if cols == 0 {
        each!(d, x => x.sample_n(rows).v)
    } else {
        each!(d, x => x.sample_matrix(rows, cols).data.v)
    }
}

fn step(_: &mut (), t: &mut Toks) -> R<String> {
    match t.tok()? {
        "bulk" => {
            let kind = t.tok()?;
            let sg = sig(kind)?.as_bytes();
            let seed = t.u64()?;
            let (rows, cols) = (t.usize()?, t.usize()?);
            let mode = t.tok()?;
            let d = match mode {
                "default" => {
                    t.end()?;
                    let mut d = default_of(kind)?;
                    clone_in_place(&mut d);
                    d
                }
                "new" => {
                    let mut args = Vec::new();
                    for ty in sg {
                        args.push(parse_arg(t, *ty)?);
                    }
                    t.end()?;
                    construct(kind, &args)?
                }
                _ => return Err(BadOp),
            };
            let n = if cols == 0 { rows } else { rows * cols };
            alea::set_seed(seed);
            let a = bulk_call(&d, rows, cols);
            let sa = alea::get_seed();
            alea::set_seed(seed);
            let b = bulk_call(&d, rows, cols);
            let sb = alea::get_seed();
            alea::set_seed(seed);
            let c: Vec<f64> = (0..n).map(|_| sample(&d)).collect();
            let sc = alea::get_seed();
            let k = a.len().min(4);
            let params: Vec<A> = numbers(&debug(&d))[..sg.len()].to_vec();
            let twin = if mode != "default" {
                String::new()
            } else {
                match guard(|| construct(kind, &params).unwrap()) {
                    None => " T X".to_string(),
                    Some(tw) => {
                        alea::set_seed(seed);
                        let e = bulk_call(&tw, rows, cols);
                        format!(" T {:016x} {}", fnv(&e), alea::get_seed())
                    }
                }
            };
            Ok(ok(format!(
                "{} {:016x} {} {} {} A {:016x} {} {:016x} {}{}",
                a.len(), fnv(&a), show_fs(&a[..k]), show_fs(&a[a.len() - k..]), sa, fnv(&b), sb, fnv(&c), sc, twin
            )))
        }
        "hist" => {
            let kind = t.tok()?;
            let sg = sig(kind)?.as_bytes();
            let seed = t.u64()?;
            let mut probes = Vec::new();
            for _ in 0..3 {
                probes.push(if discrete(kind) { A::I(t.i64()? as i128) } else { A::F(t.f64()?) });
            }
            let nsteps = t.usize()?;
            let mut obj: Option<D> = None;
            let mut replies = Vec::new();
            for k in 0..nsteps {
                let mut c = "-";
                let panicked = match t.tok()? {
                    "new" => {
                        let mut args = Vec::new();
                        for ty in sg {
                            args.push(parse_arg(t, *ty)?);
                        }
                        match guard(|| construct(kind, &args).unwrap()) {
                            Some(d) => {
                                obj = Some(d);
                                false
                            }
                            None => true,
                        }
                    }
                    "default" => match guard(|| default_of(kind).unwrap()) {
                        Some(d) => {
                            obj = Some(d);
                            false
                        }
                        None => true,
                    },
                    op @ ("clone" | "copy") => match obj.as_mut() {
                        None => false,
                        Some(d) => guard(|| if op == "clone" { clone_in_place(d) } else { copy_in_place(d) }).is_none(),
                    },
                    "set" => {
                        let idx = t.usize()?;
                        if idx >= sg.len() {
                            return Err(BadOp);
                        }
                        let a = parse_arg(t, sg[idx])?;
                        match obj.as_mut() {
                            None => false,
                            Some(d) => {
                                let mut cand: Vec<A> = numbers(&debug(d))[..sg.len()].to_vec();
                                cand[idx] = a;
                                c = ctor_accepts(kind, &cand);
                                guard(|| set(d, idx, a).unwrap()).is_none()
                            }
                        }
                    }
                    "upd" => {
                        let n = t.usize()?;
                        let ps = t.f64s(n)?;
                        match obj.as_mut() {
                            None => false,
                            Some(d) => {
                                if let Some(cand) = cast_slice(kind, &ps)? {
                                    c = ctor_accepts(kind, &cand);
                                }
                                guard(|| update(d, &ps)).is_none()
                            }
                        }
                    }
                    _ => return Err(BadOp),
                };
                let body = match obj.as_ref() {
                    None => "-".to_string(),
                    Some(d) => observe(d, kind, &probes, seed, k)?,
                };
                replies.push(format!("{} C {} {}", show_bool(panicked), c, body));
            }
            t.end()?;
            Ok(ok(replies.join(" | ")))
        }
        _ => Err(BadOp),
    }
}

fn main() {
    run((), step);
}
