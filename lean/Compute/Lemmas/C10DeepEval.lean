import Compute.Model.Optim
import Compute.Lemmas.C10DeepTape
import Compute.Lemmas.C10LM
/-
C10 (deep) — the evaluator `tapeEval` of Levenberg–Marquardt (one `reverse` tape shared by all data
points of an iteration, gradients swept over the WHOLE tape) computes, on every well-formed tape
state, residuals and Jacobian that are functions of the parameter VALUES only:
`tapeEval_laws : EvalLawsOn (tapeEval prog xs ys) WFSt (resOf prog xs ys) (jacOf prog xs)`.

`EvalLawsOn` is `EvalLaws` of `Lemmas/C10LM.lean` relativised to an invariant `WF` of the tape
state.  The relativisation is necessary: `EvalLaws` quantifies over ALL states `σ = Tape × List Var`,
including ill-formed ones (parameter `Var`s pointing at the same node, …) on which the sweep returns
garbage — `tapeEval_not_evalLaws` (in `Props/C10Deep.lean`) is a counterexample.
-/
namespace Cv.C10D
open Cv Cv.AD Cv.Opt Cv.C10

set_option linter.unusedSectionVars false
set_option linter.unusedVariables false

section laws
variable {α : Type} [Field α] [LinearOrder α] [IsStrictOrderedRing α] [Inhabited α] [BEq α]
  [Transc α] [FMax α]

/-- `EvalLaws` relative to an invariant `WF` of the tape state that every operation of the evaluator
establishes / preserves. -/
structure EvalLawsOn {σ : Type} (E : LMEval σ α) (WF : σ → Prop) (R Jf : List α → List α) : Prop where
  init : ∀ θ tp res jac, E.init θ = some (tp, res, jac) →
    WF tp ∧ E.vals tp = θ ∧ res = R θ ∧ jac = Jf θ
  try_ : ∀ tp δ tp' res', WF tp → E.try_ tp δ = some (tp', res') →
    WF tp' ∧ E.vals tp' = List.zipWith (· + ·) (E.vals tp) δ ∧ res' = R (E.vals tp')
  jac : ∀ tp j, WF tp → E.jac tp = some j → j = Jf (E.vals tp)
  fresh : ∀ tp, WF (E.fresh tp) ∧ E.vals (E.fresh tp) = E.vals tp

/-- unrestricted laws are the special case `WF = True` -/
theorem EvalLaws.on {σ : Type} {E : LMEval σ α} {R Jf : List α → List α} (L : EvalLaws E R Jf) :
    EvalLawsOn E (fun _ => True) R Jf :=
  ⟨fun θ tp res jac h => ⟨trivial, L.init θ tp res jac h⟩,
   fun tp δ tp' res' _ h => ⟨trivial, L.try_ tp δ tp' res' h⟩,
   fun tp j _ h => L.jac tp j h,
   fun tp => ⟨trivial, L.fresh tp⟩⟩

/-! ### residuals and Jacobian as functions of the parameter values -/

/-- value of the model function at `(θ, x)` (`0` if the program is ill-formed for `θ`) -/
def valOf (prog : List (Op α)) (θ : List α) (x : α) : α :=
  ((sEval prog θ (some x)).map (·.1)).getD 0

/-- the derivative row the tape's weights encode at `(θ, x)` (`θ.length` entries) -/
def rowOf (prog : List (Op α)) (θ : List α) (x : α) : List α :=
  ((sEval prog θ (some x)).map (fun p => (List.range θ.length).map p.2)).getD
    (List.replicate θ.length 0)

/-- residuals `yᵢ − f(θ, xᵢ)` -/
def resOf (prog : List (Op α)) : List α → List α → List α → List α
  | x :: xs, y :: ys, θ => (y - valOf prog θ x) :: resOf prog xs ys θ
  | _, _, _ => []

/-- Jacobian (row-major, one row per data point) -/
def jacOf (prog : List (Op α)) : List α → List α → List α
  | x :: xs, θ => rowOf prog θ x ++ jacOf prog xs θ
  | [], _ => []

theorem rowOf_length (prog : List (Op α)) (θ : List α) (x : α) : (rowOf prog θ x).length = θ.length := by
  unfold rowOf
  cases sEval prog θ (some x) <;> simp

theorem jacOf_length (prog : List (Op α)) (xs θ : List α) :
    (jacOf prog xs θ).length = xs.length * θ.length := by
  induction xs with
  | nil => simp [jacOf]
  | cons x xs ih => simp [jacOf, rowOf_length, ih]; ring

theorem resOf_length (prog : List (Op α)) (xs ys θ : List α) (h : xs.length = ys.length) :
    (resOf prog xs ys θ).length = xs.length := by
  induction xs generalizing ys with
  | nil => simp [resOf]
  | cons x xs ih =>
    cases ys with
    | nil => simp at h
    | cons y ys => simp [resOf, ih ys (by simpa using h)]

/-! ### the three evaluation loops -/

theorem evalInit_sem (prog : List (Op α)) {θ : List α} {ps : List (Var α)} {m : Nat}
    (hps : ParamsAt ps θ m) :
    ∀ (xs ys : List α) (t t' : Tape α) (rs js : List α), xs.length = ys.length →
      Good t m (m + θ.length) → evalInit prog ps xs ys t = some (t', rs, js) →
      Good t' m (m + θ.length) ∧ rs = resOf prog xs ys θ ∧ js = jacOf prog xs θ
  | [], ys, t, t', rs, js, hl, hG, h => by
    cases ys with
    | cons _ _ => simp at hl
    | nil =>
      simp only [evalInit, Option.some.injEq, Prod.mk.injEq] at h
      obtain ⟨rfl, rfl, rfl⟩ := h
      exact ⟨hG, rfl, rfl⟩
  | x :: xs, [], t, t', rs, js, hl, hG, h => by simp at hl
  | x :: xs, y :: ys, t, t', rs, js, hl, hG, h => by
    simp only [evalInit] at h
    split at h
    · exact absurd h (by simp)
    next val t1 he =>
      obtain ⟨v, d, hs, hv, hloc, htan, _, hG1, _⟩ := evalProg_sem prog hps hG val he
      have hG2 : Good (subCV t1 y val).2 m (m + θ.length) :=
        good_push hG1 0 (-1) val.loc val.loc hloc hloc
      have hloc2 : val.loc < (subCV t1 y val).2.size := by
        show val.loc < (t1.push _).size
        simp; omega
      have hg : wrt (grad (subCV t1 y val).2 val) ps = (List.range θ.length).map d :=
        wrt_grad hps hG2 val hloc2 d (fun j => by
          show tan (t1.push _) _ _ _ = _
          rw [tan_push _ _ _ _ _ hloc]; exact htan j)
      split at h
      · exact absurd h (by simp)
      next t3 rs' js' hrec =>
        simp only [Option.some.injEq, Prod.mk.injEq] at h
        obtain ⟨rfl, rfl, rfl⟩ := h
        obtain ⟨hG3, hr, hj⟩ := evalInit_sem prog hps xs ys _ _ _ _ (by simpa using hl) hG2 hrec
        refine ⟨hG3, ?_, ?_⟩
        · simp only [resOf, valOf, hs, Option.map_some, Option.getD_some, hr]
          show (y - val.val) :: _ = _
          rw [hv]
        · simp only [jacOf, rowOf, hs, Option.map_some, Option.getD_some, hj, hg]

theorem evalRes_sem (prog : List (Op α)) {θ : List α} {ps : List (Var α)} {m : Nat}
    (hps : ParamsAt ps θ m) :
    ∀ (xs ys : List α) (t t' : Tape α) (rs : List α),
      Good t m (m + θ.length) → evalRes prog ps xs ys t = some (t', rs) →
      Good t' m (m + θ.length) ∧ rs = resOf prog xs ys θ
  | [], ys, t, t', rs, hG, h => by
    simp only [evalRes, Option.some.injEq, Prod.mk.injEq] at h
    obtain ⟨rfl, rfl⟩ := h
    exact ⟨hG, by cases ys <;> rfl⟩
  | x :: xs, [], t, t', rs, hG, h => by
    simp only [evalRes, Option.some.injEq, Prod.mk.injEq] at h
    obtain ⟨rfl, rfl⟩ := h
    exact ⟨hG, rfl⟩
  | x :: xs, y :: ys, t, t', rs, hG, h => by
    simp only [evalRes] at h
    split at h
    · exact absurd h (by simp)
    next val t1 he =>
      obtain ⟨v, d, hs, hv, hloc, htan, _, hG1, _⟩ := evalProg_sem prog hps hG val he
      split at h
      · exact absurd h (by simp)
      next t3 rs' hrec =>
        simp only [Option.some.injEq, Prod.mk.injEq] at h
        obtain ⟨rfl, rfl⟩ := h
        obtain ⟨hG3, hr⟩ := evalRes_sem prog hps xs ys _ _ _ hG1 hrec
        refine ⟨hG3, ?_⟩
        simp only [resOf, valOf, hs, Option.map_some, Option.getD_some, hr, hv]

theorem evalJac_sem (prog : List (Op α)) {θ : List α} {ps : List (Var α)} {m : Nat}
    (hps : ParamsAt ps θ m) :
    ∀ (xs : List α) (t : Tape α) (js : List α),
      Good t m (m + θ.length) → evalJac prog ps xs t = some js → js = jacOf prog xs θ
  | [], t, js, hG, h => by
    simp only [evalJac, Option.some.injEq] at h
    subst h; rfl
  | x :: xs, t, js, hG, h => by
    simp only [evalJac] at h
    split at h
    · exact absurd h (by simp)
    next val t1 he =>
      obtain ⟨v, d, hs, hv, hloc, htan, hg, hG1, _⟩ := evalProg_sem prog hps hG val he
      split at h
      · exact absurd h (by simp)
      next js' hrec =>
        simp only [Option.some.injEq] at h
        subst h
        have hj := evalJac_sem prog hps xs _ _ hG1 hrec
        simp only [jacOf, rowOf, hs, Option.map_some, Option.getD_some, hj, hg]

/-! ### `new_params = params + delta` on the tape -/

theorem addDelta_spec : ∀ (ps : List (Var α)) (δ : List α) (t : Tape α) (B : Nat), B ≤ t.size →
    (∀ p ∈ ps, p.loc < B) → (∀ i (h : i < t.size), t[i].d0 < t.size ∧ t[i].d1 < t.size) →
    (∀ i, (addDelta t ps δ).1[i]? =
      ((List.zipWith (· + ·) (ps.map (·.val)) δ)[i]?).map (fun x => (⟨x, t.size + i⟩ : Var α))) ∧
    (addDelta t ps δ).2.size = t.size + (addDelta t ps δ).1.length ∧
    (∀ i (h : i < (addDelta t ps δ).2.size),
      (addDelta t ps δ).2[i].d0 < (addDelta t ps δ).2.size ∧
      (addDelta t ps δ).2[i].d1 < (addDelta t ps δ).2.size) ∧
    (∀ i (h : i < t.size) (h' : i < (addDelta t ps δ).2.size), (addDelta t ps δ).2[i] = t[i]) ∧
    (∀ i (h : i < (addDelta t ps δ).2.size), t.size ≤ i →
      (addDelta t ps δ).2[i].d0 < B ∧ (addDelta t ps δ).2[i].d1 < B)
  | [], δ, t, B, hB, hp, hc => by
    simp only [addDelta]
    exact ⟨fun i => by simp, by simp, hc, fun i h h' => trivial, fun i h hi => by omega⟩
  | p :: ps, [], t, B, hB, hp, hc => by
    simp only [addDelta]
    exact ⟨fun i => by simp, by simp, hc, fun i h h' => trivial, fun i h hi => by omega⟩
  | p :: ps, d :: δ, t, B, hB, hp, hc => by
    have hpl : p.loc < B := hp p (List.mem_cons_self ..)
    have e : addDelta t (p :: ps) (d :: δ) =
        (⟨p.val + d, t.size⟩ :: (addDelta (t.push ⟨1, 0, p.loc, p.loc⟩) ps δ).1,
          (addDelta (t.push ⟨1, 0, p.loc, p.loc⟩) ps δ).2) := rfl
    have hc1 : ∀ i (h : i < (t.push ⟨1, 0, p.loc, p.loc⟩).size),
        (t.push ⟨1, 0, p.loc, p.loc⟩)[i].d0 < (t.push ⟨1, 0, p.loc, p.loc⟩).size ∧
        (t.push ⟨1, 0, p.loc, p.loc⟩)[i].d1 < (t.push ⟨1, 0, p.loc, p.loc⟩).size := by
      intro i hi
      by_cases hi' : i < t.size
      · rw [Array.getElem_push_lt hi']
        have := hc i hi'
        simp only [Array.size_push]; omega
      · have : i = t.size := by simp at hi; omega
        subst this
        simp only [Array.getElem_push_eq, Array.size_push]; omega
    obtain ⟨h1, h2, h3, h4, h5⟩ := addDelta_spec ps δ (t.push ⟨1, 0, p.loc, p.loc⟩) B
      (by simp; omega) (fun q hq => hp q (List.mem_cons_of_mem _ hq)) hc1
    rw [e]
    refine ⟨?_, ?_, h3, ?_, ?_⟩
    · intro i
      cases i with
      | zero => simp
      | succ i =>
        simp only [List.getElem?_cons_succ, h1 i, Array.size_push, List.map_cons,
          List.zipWith_cons_cons]
        have : t.size + 1 + i = t.size + (i + 1) := by omega
        rw [this]
    · simp only [List.length_cons]
      rw [h2]; simp; omega
    · intro i hi hi'
      rw [h4 i (by simp; omega) hi', Array.getElem_push_lt hi]
    · intro i hi hti
      by_cases hi' : i = t.size
      · subst hi'
        rw [h4 t.size (by simp) hi]
        simp only [Array.getElem_push_eq]
        exact ⟨hpl, hpl⟩
      · exact h5 i hi (by simp; omega)

/-! ### well-formed tape states of `tapeEval` -/

/-- the parameter `Var`s occupy a contiguous block of a well-formed tape -/
def WFSt (s : TapeSt α) : Prop :=
  ∃ m, ParamsAt s.2 (s.2.map (·.val)) m ∧ Good s.1 m (m + (s.2.map (·.val)).length)

theorem wfSt_of {t : Tape α} {ps : List (Var α)} {θ : List α} {m : Nat} (hps : ParamsAt ps θ m)
    (hG : Good t m (m + θ.length)) : WFSt (t, ps) := by
  have hv := paramsAt_vals hps
  exact ⟨m, by simp only [hv]; exact hps, by simp only [hv]; exact hG⟩

theorem addDelta_good {t : Tape α} {ps : List (Var α)} {θ : List α} {m : Nat}
    (hps : ParamsAt ps θ m) (hG : Good t m (m + θ.length)) (δ : List α) :
    ParamsAt (addDelta t ps δ).1 (List.zipWith (· + ·) θ δ) t.size ∧
      Good (addDelta t ps δ).2 t.size (t.size + (List.zipWith (· + ·) θ δ).length) := by
  have hle := hG.le
  have hlocs : ∀ p ∈ ps, p.loc < t.size := by
    intro p hp
    obtain ⟨i, hi, rfl⟩ := List.getElem_of_mem hp
    have h1 := hps i
    rw [List.getElem?_eq_getElem hi] at h1
    cases hθ : θ[i]? with
    | none => rw [hθ] at h1; simp at h1
    | some x =>
      rw [hθ] at h1
      simp only [Option.map_some, Option.some.injEq] at h1
      have hi' : i < θ.length := (List.getElem?_eq_some_iff.mp hθ).1
      rw [h1]; show m + i < t.size; omega
  obtain ⟨h1, h2, h3, h4, h5⟩ := addDelta_spec ps δ t t.size (Nat.le_refl _) hlocs hG.closed
  have hv := paramsAt_vals hps
  rw [hv] at h1
  have hP : ParamsAt (addDelta t ps δ).1 (List.zipWith (· + ·) θ δ) t.size := h1
  have hlen := paramsAt_length hP
  refine ⟨hP, ⟨by omega, fun i hi hn => by omega, ?_, h3⟩⟩
  intro i hi _
  by_cases hi' : i < t.size
  · rw [h4 i hi' hi]
    have := hG.closed i hi'
    exact ⟨Or.inl this.1, Or.inl this.2⟩
  · have := h5 i hi (by omega)
    exact ⟨Or.inl this.1, Or.inl this.2⟩

/-- **`tapeEval` obeys the evaluator laws on well-formed states**: residuals and Jacobian are the
functions `resOf`, `jacOf` of the parameter values, whatever older nodes the shared tape holds. -/
theorem tapeEval_laws (prog : List (Op α)) (xs ys : List α) (hlen : xs.length = ys.length) :
    EvalLawsOn (tapeEval prog xs ys) WFSt (resOf prog xs ys) (jacOf prog xs) := by
  refine ⟨?_, ?_, ?_, ?_⟩
  · intro θ tp res jac h
    obtain ⟨hp, hG⟩ := fresh_good θ
    simp only [tapeEval] at h
    split at h
    · exact absurd h (by simp)
    next t' rs js he =>
      simp only [Option.some.injEq, Prod.mk.injEq] at h
      obtain ⟨rfl, rfl, rfl⟩ := h
      obtain ⟨hG', hr, hj⟩ := evalInit_sem prog hp xs ys _ _ _ _ hlen hG he
      exact ⟨wfSt_of hp hG', paramsAt_vals hp, hr, hj⟩
  · intro tp δ tp' res' hwf h
    obtain ⟨m, hp, hG⟩ := hwf
    obtain ⟨hq, hGq⟩ := addDelta_good hp hG δ
    simp only [tapeEval] at h
    split at h
    · exact absurd h (by simp)
    next t' rs he =>
      simp only [Option.some.injEq, Prod.mk.injEq] at h
      obtain ⟨rfl, rfl⟩ := h
      obtain ⟨hG', hr⟩ := evalRes_sem prog hq xs ys _ _ _ hGq he
      refine ⟨wfSt_of hq hG', ?_, ?_⟩
      · exact paramsAt_vals hq
      · rw [hr]
        show _ = resOf prog xs ys (List.map (·.val) (addDelta tp.1 tp.2 δ).1)
        rw [paramsAt_vals hq]
  · intro tp j hwf h
    obtain ⟨m, hp, hG⟩ := hwf
    exact evalJac_sem prog hp xs _ _ hG h
  · intro tp
    obtain ⟨hp, hG⟩ := fresh_good (tp.2.map (·.val))
    exact ⟨wfSt_of hp hG, paramsAt_vals hp⟩

end laws
end Cv.C10D
