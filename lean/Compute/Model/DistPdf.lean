import Compute.Model.Scalar
import Compute.Model.Mat
import Compute.Model.Kernels
import Compute.Model.DotTrait
import Compute.Model.MatrixLinalg
/-
Model of the density / mass functions, the log-densities, the Normal CDF and the `Mean` / `Variance`
impls of `/repo/src/distributions/*.rs` (13 univariate distributions and the multivariate normal),
polymorphic in the scalar `α`.  No Mathlib.

The special functions and constants the Rust code calls are *parameters* (`Fns α`):
  `pi` (`std::f64::consts::PI`), `gamma` / `lnGamma` (`functions::gamma`, `functions::ln_gamma`),
  `erf` (`functions::erf`), `ln1p` (`f64::ln_1p`), `euler` (`EULER_MASCHERONI` of gumbel.rs).
At `Float` they are the C09 models (`Cv.gammaFn`, `Cv.lnGammaFn`, `Cv.erfFn`), `Cv.log1pF` and the
literal bits (see `Drv/C02.lean`); in theorems over `ℝ` they are `Real.pi`, `Real.Gamma`,
`Real.log ∘ Real.Gamma`, `Real.log (1 + ·)`, `Real.eulerMascheroniConstant` (`Lemmas/C02.lean`), or
arbitrary functions constrained by explicit hypotheses.

Conventions: a distribution is given by its raw parameters; `valid` is the guard of the constructor
(`new` panics iff `valid = false`).  Float literals: `0.5` is `1 / 2`, `2.`, `12.` … are `NatCast`
(all exact).  `x.powi(k)` is `Cv.powi`.  `k as f64` for `k : i64` is `IntCast`, `n as f64` for
unsigned `n` is `NatCast`.  `T::mean`, `T::var`, `Pareto::mean`, `Pareto::var` return `f64::NAN` /
`f64::INFINITY` in some regimes: their model returns a `Moment`.
-/
namespace Cv.Dist

/-- Special functions and constants used by the densities. -/
structure Fns (α : Type) where
  pi : α
  gamma : α → α
  lnGamma : α → α
  erf : α → α
  ln1p : α → α
  euler : α

/-- Result of a moment accessor that can be `f64::INFINITY` or `f64::NAN`. -/
inductive Moment (α : Type) where
  | fin (x : α)
  | inf
  | nan
  deriving Repr

section
variable {α : Type} [Add α] [Sub α] [Mul α] [Div α] [Neg α] [Zero α] [One α] [NatCast α] [IntCast α]
  [LT α] [DecidableLT α] [LE α] [DecidableLE α] [BEq α] [Transc α]

/-- `2.` -/
def two : α := ((2 : Nat) : α)
/-- `0.5` -/
def half : α := (1 : α) / two

/-- `distributions::xlogy`: `if c == 0. { 0. } else { c * x.ln() }` (`0 · ln 0 = 0`). -/
def xlogy (c x : α) : α := if c == 0 then 0 else c * Transc.ln x

/-- `functions::beta`: `gamma(a) * gamma(b) / gamma(a + b)`. -/
def betaOf (F : Fns α) (a b : α) : α := F.gamma a * F.gamma b / F.gamma (a + b)

/-! ### Normal (`normal.rs`) -/
namespace Normal
/-- `Normal::new` panics iff `sigma < 0.` -/
def valid (_mu sigma : α) : Bool := !(decide (sigma < 0))
/-- `1. / (σ * (2. * PI).sqrt()) * (-0.5 * ((x - μ) / σ).powi(2)).exp()` -/
def pdf (F : Fns α) (mu sigma x : α) : α :=
  (1 / (sigma * Transc.sqrt (two * F.pi))) * Transc.exp ((-half) * powi ((x - mu) / sigma) 2)
/-- `-0.5 * ((x - μ) / σ).powi(2) - (σ * (2. * PI).sqrt()).ln()` -/
def lnPdf (F : Fns α) (mu sigma x : α) : α :=
  (-half) * powi ((x - mu) / sigma) 2 - Transc.ln (sigma * Transc.sqrt (two * F.pi))
/-- `0.5 * (1. + erf((x - μ) / (σ * 2_f64.sqrt())))` -/
def cdf (F : Fns α) (mu sigma x : α) : α :=
  half * (1 + F.erf ((x - mu) / (sigma * Transc.sqrt two)))
def mean (mu _sigma : α) : α := mu
def var (_mu sigma : α) : α := sigma * sigma
end Normal

/-! ### Gamma (`gamma.rs`) -/
namespace Gamma
/-- `Gamma::new` panics iff `alpha <= 0. || beta <= 0.` -/
def valid (alpha beta : α) : Bool := !(decide (alpha ≤ 0) || decide (beta ≤ 0))
/-- `if x <= 0. { 0. } else { (α * β.ln() - ln_gamma(α) + (α - 1.) * x.ln() - β * x).exp() }` (log space since F47) -/
def pdf (F : Fns α) (alpha beta x : α) : α :=
  if x ≤ 0 then 0
  else Transc.exp ((((alpha * Transc.ln beta) - F.lnGamma alpha) + (alpha - 1) * Transc.ln x) - beta * x)
def mean (alpha beta : α) : α := alpha / beta
def var (alpha beta : α) : α := alpha / powi beta 2
end Gamma

/-! ### Beta (`beta.rs`) -/
namespace Beta
def valid (alpha beta : α) : Bool := !(decide (alpha ≤ 0) || decide (beta ≤ 0))
/-- `if !(0. ..=1.).contains(&x) { 0. } else { (xlogy(α - 1., x) + xlogy(β - 1., 1. - x) + ln_gamma(α + β)
- ln_gamma(α) - ln_gamma(β)).exp() }` (log space since F48) -/
def pdf (F : Fns α) (alpha beta x : α) : α :=
  if (0 : α) ≤ x ∧ x ≤ 1 then
    Transc.exp ((((xlogy (alpha - 1) x + xlogy (beta - 1) (1 - x)) + F.lnGamma (alpha + beta))
      - F.lnGamma alpha) - F.lnGamma beta)
  else 0
def mean (alpha beta : α) : α := alpha / (alpha + beta)
/-- `(α * β) / ((α + β).powi(2) * (α + β + 1.))` -/
def var (alpha beta : α) : α := (alpha * beta) / (powi (alpha + beta) 2 * ((alpha + beta) + 1))
end Beta

/-! ### ChiSquared (`chi_squared.rs`), `dof : usize` -/
namespace ChiSquared
/-- `assert!(dof > 0)` -/
def valid (dof : Nat) : Bool := decide (0 < dof)
/-- `if (dof == 1 && x <= 0.) || (x < 0.) { 0. } else { let half_k = dof as f64 / 2.;
(xlogy(half_k - 1., x) - x / 2. - half_k * 2_f64.ln() - ln_gamma(half_k)).exp() }` (log space since F49) -/
def pdf (F : Fns α) (dof : Nat) (x : α) : α :=
  if (dof = 1 ∧ x ≤ 0) ∨ x < 0 then 0
  else
    let halfK : α := (dof : α) / two
    Transc.exp (((xlogy (halfK - 1) x - x / two) - halfK * Transc.ln two) - F.lnGamma halfK)
def mean (dof : Nat) : α := (dof : α)
/-- `self.mean() * 2.` -/
def var (dof : Nat) : α := (dof : α) * two
end ChiSquared

/-! ### Student's T (`t.rs`) -/
namespace T
/-- `assert!(dof > 0.)` (a NaN `dof` fails the assert) -/
def valid (dof : α) : Bool := decide ((0 : α) < dof)
/-- `gamma((ν + 1.) / 2.) / ((ν * PI).sqrt() * gamma(ν / 2.)) * (1. + x.powi(2) / ν).powf(-(ν + 1.) / 2.)` -/
def pdf (F : Fns α) (dof x : α) : α :=
  (F.gamma ((dof + 1) / two) / (Transc.sqrt (dof * F.pi) * F.gamma (dof / two)))
    * Transc.pow (1 + powi x 2 / dof) ((-(dof + 1)) / two)
/-- `if dof > 1. { 0. } else { NAN }` -/
def mean (dof : α) : Moment α := if (1 : α) < dof then .fin 0 else .nan
/-- `if dof > 2. { dof / (dof - 2.) } else if (1. < dof) & (dof <= 2.) { INFINITY } else { NAN }` -/
def var (dof : α) : Moment α :=
  if two < dof then .fin (dof / (dof - two))
  else if (1 : α) < dof ∧ dof ≤ two then .inf
  else .nan
end T

/-! ### Pareto (`pareto.rs`) -/
namespace Pareto
def valid (alpha minval : α) : Bool := !(decide (alpha ≤ 0) || decide (minval ≤ 0))
/-- `if x < minval { 0. } else { α * minval.powf(α) / x.powf(α + 1.) }` -/
def pdf (alpha minval x : α) : α :=
  if x < minval then 0 else (alpha * Transc.pow minval alpha) / Transc.pow x (alpha + 1)
/-- `if α <= 1. { INFINITY } else { α * minval / (α - 1.) }` -/
def mean (alpha minval : α) : Moment α :=
  if alpha ≤ 1 then .inf else .fin ((alpha * minval) / (alpha - 1))
/-- `if α <= 2. { INFINITY } else { minval.powi(2) * α / ((α - 1.).powi(2) * (α - 2.)) }` -/
def var (alpha minval : α) : Moment α :=
  if alpha ≤ two then .inf
  else .fin ((powi minval 2 * alpha) / (powi (alpha - 1) 2 * (alpha - two)))
end Pareto

/-! ### Gumbel (`gumbel.rs`) -/
namespace Gumbel
def valid (_mu beta : α) : Bool := !(decide (beta ≤ 0))
/-- `let z = (x - μ) / β; 1. / β * (-(z + (-z).exp())).exp()` -/
def pdf (mu beta x : α) : α :=
  let z := (x - mu) / beta
  (1 / beta) * Transc.exp (-(z + Transc.exp (-z)))
/-- `μ + β * EULER_MASCHERONI` -/
def mean (F : Fns α) (mu beta : α) : α := mu + beta * F.euler
/-- `PISQ6 * β.powi(2)` with `const PISQ6: f64 = PI * PI / 6.` -/
def var (F : Fns α) (_mu beta : α) : α := ((F.pi * F.pi) / ((6 : Nat) : α)) * powi beta 2
end Gumbel

/-! ### Exponential (`exponential.rs`) -/
namespace Exponential
def valid (lambda : α) : Bool := !(decide (lambda ≤ 0))
/-- `if x < 0. { 0. } else { λ * (-λ * x).exp() }` -/
def pdf (lambda x : α) : α := if x < 0 then 0 else lambda * Transc.exp ((-lambda) * x)
def mean (lambda : α) : α := 1 / lambda
def var (lambda : α) : α := 1 / powi lambda 2
end Exponential

/-! ### Uniform (`uniform.rs`) -/
namespace Uniform
/-- `Uniform::new` panics iff `lower > upper` -/
def valid (lower upper : α) : Bool := !(decide (upper < lower))
/-- `if x < lower || x > upper { 0. } else { 1. / (upper - lower) }` -/
def pdf (lower upper x : α) : α := if x < lower ∨ upper < x then 0 else 1 / (upper - lower)
def mean (lower upper : α) : α := (lower + upper) / two
def var (lower upper : α) : α := powi (upper - lower) 2 / ((12 : Nat) : α)
end Uniform

/-! ### Poisson (`poisson.rs`) -/
namespace Poisson
def valid (lambda : α) : Bool := !(decide (lambda ≤ 0))
/-- `if k < 0 { 0. } else { (k as f64 * λ.ln() - λ - ln_gamma(k as f64 + 1.)).exp() }` -/
def pmf (F : Fns α) (lambda : α) (k : Int) : α :=
  if k < 0 then 0
  else Transc.exp ((((k : α) * Transc.ln lambda) - lambda) - F.lnGamma ((k : α) + 1))
def mean (lambda : α) : α := lambda
def var (lambda : α) : α := lambda
end Poisson

/-! ### Binomial (`binomial.rs`), `n : u64` -/
namespace Binomial
/-- `Binomial::new` panics iff `!(0. ..=1.).contains(&p)` -/
def valid (_n : Nat) (p : α) : Bool := decide ((0 : α) ≤ p) && decide (p ≤ 1)
/-- ```
if k < 0 || k as u64 > n { return 0. }
let (n, k) = (n as f64, k as f64);
if p == 0. { return if k == 0. { 1. } else { 0. } } else if p == 1. { return if k == n { 1. } else { 0. } }
(ln_gamma(n + 1.) - ln_gamma(k + 1.) - ln_gamma(n - k + 1.) + k * p.ln() + (n - k) * (-p).ln_1p()).exp()
``` -/
def pmf (F : Fns α) (n : Nat) (p : α) (k : Int) : α :=
  if k < 0 ∨ (n : Int) < k then 0
  else
    let nf : α := (n : α)
    let kf : α := (k : α)
    if p == 0 then (if kf == 0 then 1 else 0)
    else if p == 1 then (if kf == nf then 1 else 0)
    else
      Transc.exp
        ((((F.lnGamma (nf + 1) - F.lnGamma (kf + 1)) - F.lnGamma ((nf - kf) + 1)) + kf * Transc.ln p)
          + (nf - kf) * F.ln1p (-p))
def mean (n : Nat) (p : α) : α := (n : α) * p
/-- `n as f64 * p * (1. - p)` -/
def var (n : Nat) (p : α) : α := ((n : α) * p) * (1 - p)
end Binomial

/-! ### Bernoulli (`bernoulli.rs`) -/
namespace Bernoulli
def valid (p : α) : Bool := decide ((0 : α) ≤ p) && decide (p ≤ 1)
/-- `if k == 0 { 1. - p } else if k == 1 { p } else { 0. }` -/
def pmf (p : α) (k : Int) : α := if k = 0 then 1 - p else if k = 1 then p else 0
def mean (p : α) : α := p
def var (p : α) : α := p * (1 - p)
end Bernoulli

/-! ### DiscreteUniform (`discreteuniform.rs`), bounds `i64` (no overflow: `|bounds| < 2⁶²`) -/
namespace DiscreteUniform
def valid (lower upper : Int) : Bool := !(decide (upper < lower))
/-- `if x < lower || x > upper { 0. } else { 1. / (upper - lower + 1) as f64 }` -/
def pmf (lower upper x : Int) : α :=
  if x < lower ∨ upper < x then 0 else 1 / (((upper - lower + 1 : Int)) : α)
/-- `(lower + upper) as f64 / 2.` -/
def mean (lower upper : Int) : α := (((lower + upper : Int)) : α) / two
/-- `(((upper - lower + 1) as f64).powi(2) - 1.) / 12.` -/
def var (lower upper : Int) : α := (powi (((upper - lower + 1 : Int)) : α) 2 - 1) / ((12 : Nat) : α)
end DiscreteUniform

end

/-! ### Multivariate normal (`multivariatenormal.rs`) -/
section
variable {α : Type} [Add α] [Sub α] [Mul α] [Div α] [Neg α] [Zero α] [One α] [NatCast α]
  [LT α] [DecidableLT α] [LE α] [DecidableLE α] [BEq α] [Transc α] [Inhabited α]

/-- The fields of `MVN` (the Cholesky factor is kept because `new` panics when it does not exist). -/
structure MVN (α : Type) where
  mean : List α
  cov : Mat α
  inv : Mat α
  det : α
  chol : Mat α

namespace MVN
open Cv.LA

/-- `MVN::new(mean, cov)`: `assert!(c.is_symmetric())`, `assert_eq!(m.len(), c.ncols)`, then
`c.cholesky()`, `c.inv()`, `c.det()` (each may panic). -/
def new (mean : List α) (cov : Mat α) : Option (MVN α) :=
  if !M.isSymmetric cov then none
  else if mean.length ≠ cov.ncols then none
  else do
    let l ← M.cholesky cov
    let cinv ← M.inv cov
    let cdet ← M.det cov
    pure ⟨mean, cov, cinv, cdet, l⟩

/-- `impl Mean for &MVN`: `&self.mean`. -/
def meanOf (d : MVN α) : List α := d.mean

/-- `impl Variance for &MVN`: `&self.covariance_matrix`. -/
def varOf (d : MVN α) : Mat α := d.cov

/-- `x.iter().enumerate().map(|(i, v)| v - self.mean[i]).collect()` (lengths already asserted equal). -/
def xMinusMu (d : MVN α) (x : List α) : List α := List.zipWith (· - ·) x d.mean

/-- `x_minus_mu.t_dot(&self.inverse_covariance_matrix.dot(&x_minus_mu))` -/
def quadForm (d : MVN α) (x : List α) : Option α := do
  let xm := xMinusMu d x
  let y ← DotT.dotMV .dot d.inv xm
  DotT.dotVV .tDot xm y

/-- `pdf`: asserts `is_positive_definite` and equal lengths, then
`(-0.5 * q).exp() / ((2. * PI).powi(k) * det).sqrt()`. -/
def pdf (F : Fns α) (d : MVN α) (x : List α) : Option α :=
  if !M.isPositiveDefinite d.cov then none
  else if x.length ≠ d.mean.length then none
  else do
    let q ← quadForm d x
    pure (Transc.exp ((-half) * q) / Transc.sqrt (powi (two * F.pi) (x.length : Int) * d.det))

/-- `ln_pdf`: `-0.5 * (det.ln() + q + k as f64 * (2. * PI).ln())`. -/
def lnPdf (F : Fns α) (d : MVN α) (x : List α) : Option α :=
  if !M.isPositiveDefinite d.cov then none
  else if x.length ≠ d.mean.length then none
  else do
    let q ← quadForm d x
    pure ((-half) * ((Transc.ln d.det + q) + (x.length : α) * Transc.ln (two * F.pi)))

end MVN
end

end Cv.Dist
