import Compute.Props.C20
import Compute.Lemmas.C20Psd
import Mathlib.LinearAlgebra.Matrix.PosDef
/-
C20 (T-B) — every Gram matrix the kernels produce is symmetric positive semi-definite (over `ℝ`).

* `rbf_kernel_psd`, `rq_kernel_psd_model`: the scalar `forward` of the model is a positive semi-definite kernel
  on every finite family of points (`Σᵢ Σⱼ cᵢ cⱼ k(aᵢ, aⱼ) ≥ 0`);
* `rbf_gram_psd`, `rq_gram_psd`: the matrix `forward` of the model called with `x = y` (as a `Vector` or a
  `Matrix`) returns an `n × n` matrix that is symmetric and has a non-negative quadratic form;
* `rbf_gram_posSemidef`, `rq_gram_posSemidef`: the same as Mathlib's `Matrix.PosSemidef`.
The analysis (power-series feature map for RBF, Gamma scale mixture for RQ) is in `Lemmas/C20Psd.lean`.
-/
namespace Cv.C20
open Cv Cv.Gp Finset

variable {ι : Type}

/-- **rbf_kernel_psd.** The scalar RBF `forward` is a positive semi-definite kernel. -/
theorem rbf_kernel_psd (k : RBF ℝ) (hk : k.Valid) (s : Finset ι) (c a : ι → ℝ) :
    0 ≤ ∑ i ∈ s, ∑ j ∈ s, c i * c j * k.fwd (a i) (a j) := by
  have h := gauss_kernel_psd s c a k.ls hk.2.ne'
  have e : ∑ i ∈ s, ∑ j ∈ s, c i * c j * k.fwd (a i) (a j)
      = k.var * ∑ i ∈ s, ∑ j ∈ s, c i * c j * Real.exp (-((a i - a j) ^ 2 / (2 * k.ls ^ 2))) := by
    rw [Finset.mul_sum]; refine Finset.sum_congr rfl fun i _ => ?_
    rw [Finset.mul_sum]; refine Finset.sum_congr rfl fun j _ => ?_
    rw [rbf_fwd_eq]; ring
  rw [e]; exact mul_nonneg hk.1.le h

/-- **rq_kernel_psd_model.** The scalar RQ `forward` is a positive semi-definite kernel. -/
theorem rq_kernel_psd_model (k : RQ ℝ) (hk : k.Valid) (s : Finset ι) (c a : ι → ℝ) :
    0 ≤ ∑ i ∈ s, ∑ j ∈ s, c i * c j * k.fwd (a i) (a j) := by
  have h := rq_kernel_psd s c a k.alpha k.ls hk.2.1 hk.2.2
  have e : ∑ i ∈ s, ∑ j ∈ s, c i * c j * k.fwd (a i) (a j)
      = k.var * ∑ i ∈ s, ∑ j ∈ s, c i * c j * (1 + (a i - a j) ^ 2 / (2 * k.alpha * k.ls ^ 2)) ^ (-k.alpha) := by
    rw [Finset.mul_sum]; refine Finset.sum_congr rfl fun i _ => ?_
    rw [Finset.mul_sum]; refine Finset.sum_congr rfl fun j _ => ?_
    rw [rq_fwd_eq]; ring
  rw [e]; exact mul_nonneg hk.1.le h

/-- **rbf_gram_psd.** The Gram matrix returned by the RBF matrix form (any argument kind) is symmetric and its
quadratic form is non-negative for every coefficient vector. -/
theorem rbf_gram_psd (k : RBF ℝ) (hk : k.Valid) (x : Pts ℝ) (hx : PtsWF x) (hn : 0 < x.points.length) :
    ∃ R, k.fwdM x x = some R ∧ R.nrows = x.points.length ∧ R.ncols = x.points.length ∧
      (∀ i j, i < x.points.length → j < x.points.length → R.get i j = R.get j i) ∧
      ∀ c : Nat → ℝ, 0 ≤ ∑ i ∈ range x.points.length, ∑ j ∈ range x.points.length, c i * c j * R.get i j := by
  obtain ⟨R, hR, h1, h2, _, he⟩ := rbf_matrix_form_entry k x x hx hx hn hn
  refine ⟨R, hR, h1, h2, fun i j hi hj => by rw [he i j hi hj, he j i hj hi, rbf_symm], fun c => ?_⟩
  have := rbf_kernel_psd k hk (range x.points.length) c (fun i => x.points[i]!)
  refine le_of_le_of_eq this (Finset.sum_congr rfl fun i hi => Finset.sum_congr rfl fun j hj => ?_)
  rw [he i j (mem_range.mp hi) (mem_range.mp hj)]

/-- **rq_gram_psd.** -/
theorem rq_gram_psd (k : RQ ℝ) (hk : k.Valid) (x : Pts ℝ) (hx : PtsWF x) (hn : 0 < x.points.length) :
    ∃ R, k.fwdM x x = some R ∧ R.nrows = x.points.length ∧ R.ncols = x.points.length ∧
      (∀ i j, i < x.points.length → j < x.points.length → R.get i j = R.get j i) ∧
      ∀ c : Nat → ℝ, 0 ≤ ∑ i ∈ range x.points.length, ∑ j ∈ range x.points.length, c i * c j * R.get i j := by
  obtain ⟨R, hR, h1, h2, _, he⟩ := rq_matrix_form_entry k x x hx hx hn hn
  refine ⟨R, hR, h1, h2, fun i j hi hj => by rw [he i j hi hj, he j i hj hi, rq_symm], fun c => ?_⟩
  have := rq_kernel_psd_model k hk (range x.points.length) c (fun i => x.points[i]!)
  refine le_of_le_of_eq this (Finset.sum_congr rfl fun i hi => Finset.sum_congr rfl fun j hj => ?_)
  rw [he i j (mem_range.mp hi) (mem_range.mp hj)]

/-- A kernel table on `Fin n` that is symmetric with a non-negative quadratic form is `Matrix.PosSemidef`. -/
theorem posSemidef_of_kernel {n : Nat} (K : ℝ → ℝ → ℝ) (p : Fin n → ℝ) (hsymm : ∀ u v, K u v = K v u)
    (hpsd : ∀ c : Fin n → ℝ, 0 ≤ ∑ i, ∑ j, c i * c j * K (p i) (p j)) :
    (Matrix.of fun i j : Fin n => K (p i) (p j)).PosSemidef := by
  refine Matrix.PosSemidef.of_dotProduct_mulVec_nonneg ?_ fun v => ?_
  · ext i j; simp [Matrix.conjTranspose_apply, hsymm (p j) (p i)]
  · refine le_of_le_of_eq (hpsd v) ?_
    simp only [dotProduct, Matrix.mulVec, Matrix.of_apply, star_trivial, Finset.mul_sum]
    refine Finset.sum_congr rfl fun i _ => Finset.sum_congr rfl fun j _ => ?_
    ring

/-- **rbf_gram_posSemidef.** The Gram matrix returned by the model is `Matrix.PosSemidef`. -/
theorem rbf_gram_posSemidef (k : RBF ℝ) (hk : k.Valid) (x : Pts ℝ) (hx : PtsWF x) (hn : 0 < x.points.length) :
    ∃ R, k.fwdM x x = some R ∧
      (Matrix.of fun i j : Fin x.points.length => R.get i j).PosSemidef := by
  obtain ⟨R, hR, _, _, _, he⟩ := rbf_matrix_form_entry k x x hx hx hn hn
  refine ⟨R, hR, ?_⟩
  have h := posSemidef_of_kernel (n := x.points.length) k.fwd (fun i => x.points[(i : Nat)]!) (rbf_symm k)
    (fun c => rbf_kernel_psd k hk univ c _)
  convert h using 2
  ext i j
  exact he i j i.2 j.2

/-- **rq_gram_posSemidef.** -/
theorem rq_gram_posSemidef (k : RQ ℝ) (hk : k.Valid) (x : Pts ℝ) (hx : PtsWF x) (hn : 0 < x.points.length) :
    ∃ R, k.fwdM x x = some R ∧
      (Matrix.of fun i j : Fin x.points.length => R.get i j).PosSemidef := by
  obtain ⟨R, hR, _, _, _, he⟩ := rq_matrix_form_entry k x x hx hx hn hn
  refine ⟨R, hR, ?_⟩
  have h := posSemidef_of_kernel (n := x.points.length) k.fwd (fun i => x.points[(i : Nat)]!) (rq_symm k)
    (fun c => rq_kernel_psd_model k hk univ c _)
  convert h using 2
  ext i j
  exact he i j i.2 j.2

/-! Non-vacuity: every hypothesis of the PSD theorems instantiated on non-trivial inputs (valid parameters, three
points as a `Vector`, four points as a `2 × 2` `Matrix`). -/
example : ∃ R, (⟨2, 1 / 2⟩ : RBF ℝ).fwdM (.vec [0, 1, 3]) (.vec [0, 1, 3]) = some R ∧
    (Matrix.of fun i j : Fin 3 => R.get i j).PosSemidef := by
  have h := rbf_gram_posSemidef (⟨2, 1 / 2⟩ : RBF ℝ) (by constructor <;> norm_num) (.vec [0, 1, 3]) trivial
    (by simp [Pts.points])
  exact h
example : ∃ R, (⟨2, 3, 1 / 2⟩ : RQ ℝ).fwdM (.mat ⟨[0, 1, 3, 4], 2, 2⟩) (.mat ⟨[0, 1, 3, 4], 2, 2⟩) = some R ∧
    (Matrix.of fun i j : Fin 4 => R.get i j).PosSemidef := by
  have h := rq_gram_posSemidef (⟨2, 3, 1 / 2⟩ : RQ ℝ) (by refine ⟨?_, ?_, ?_⟩ <;> norm_num) (.mat ⟨[0, 1, 3, 4], 2, 2⟩)
    (by simp [PtsWF, Mat.WF]) (by simp [Pts.points])
  exact h
example : 0 ≤ ∑ i : Fin 3, ∑ j : Fin 3, (![1, -2, 1] i : ℝ) * ![1, -2, 1] j *
    (⟨2, 1 / 2⟩ : RBF ℝ).fwd (![0, 1, 3] i) (![0, 1, 3] j) :=
  rbf_kernel_psd (⟨2, 1 / 2⟩ : RBF ℝ) (by constructor <;> norm_num) univ ![1, -2, 1] ![0, 1, 3]

end Cv.C20
