import Compute.Model.Interp
import Mathlib.Algebra.Order.Field.Basic
import Mathlib.Tactic.Ring
import Mathlib.Tactic.Linarith
import Mathlib.Tactic.FieldSimp
/-
Lemmas for C16: the linear scan of `interp1d_linear_unchecked` (what the index it returns brackets), the
hypothesis bundle `Knots`, uniqueness of the bracketing index, and the value computed inside the data range
as a function of the scan index.
-/
namespace Cv.C16
open Cv

section scan
variable {α : Type} [LinearOrder α]

theorem scan_le (t : α) (l : List α) : scanIdx t l ≤ l.length := by
  induction l with
  | nil => simp [scanIdx]
  | cons a r ih => simp only [scanIdx]; split <;> simp <;> omega

/-- entries before the scan result are `≤ t` -/
theorem scan_before (t : α) (l : List α) (j : Nat) (hj : j < scanIdx t l) (hjl : j < l.length) : l[j] ≤ t := by
  induction l generalizing j with
  | nil => simp at hjl
  | cons a r ih =>
    simp only [scanIdx] at hj
    split at hj
    · omega
    · rename_i h
      cases j with
      | zero => simpa using h
      | succ j => simp only [List.getElem_cons_succ]; exact ih j (by omega) (by simpa using hjl)

/-- the scan stops at an entry `> t` (if it stops inside the list) -/
theorem scan_at (t : α) (l : List α) (h : scanIdx t l < l.length) : t < l[scanIdx t l] := by
  induction l with
  | nil => simp at h
  | cons a r ih =>
    simp only [scanIdx] at h ⊢
    split
    · rename_i hgt; simpa using hgt
    · rename_i hgt
      simp only [List.getElem_cons_succ]
      have hlt : scanIdx t r < r.length := by
        rw [if_neg hgt] at h; simpa using h
      exact ih hlt

/-- if every entry is `≤ t` the scan runs to the end -/
theorem scan_all (t : α) (l : List α) (h : ∀ v ∈ l, v ≤ t) : scanIdx t l = l.length := by
  induction l with
  | nil => simp [scanIdx]
  | cons a r ih =>
    simp only [scanIdx]
    rw [if_neg (not_lt.2 (h a List.mem_cons_self))]
    simp [ih (fun v hv => h v (List.mem_cons_of_mem _ hv))]

theorem scan_zero_of_head_gt (t : α) (a : α) (r : List α) (h : t < a) : scanIdx t (a :: r) = 0 := by
  simp [scanIdx, h]

end scan
section field
variable {α : Type} [Field α] [LinearOrder α] [IsStrictOrderedRing α] [Inhabited α]

/-- The scan result of the source for target `t`: the scan runs over the first `n-1` abscissae. -/
def idxOf (x : List α) (t : α) : Nat := scanIdx t (x.take (x.length - 1))

/-- Hypotheses of the property: equal lengths, at least two knots, strictly increasing abscissae. -/
structure Knots (x y : List α) : Prop where
  len : x.length = y.length
  two : 2 ≤ x.length
  inc : x.Pairwise (· < ·)

theorem Knots.lt {x y : List α} (h : Knots x y) {i j : Nat} (hij : i < j) (hj : j < x.length) :
    x[i] < x[j] := (List.pairwise_iff_getElem.1 h.inc) i j (by omega) hj hij

theorem Knots.le {x y : List α} (h : Knots x y) {i j : Nat} (hij : i ≤ j) (hj : j < x.length) :
    x[i] ≤ x[j] := by
  rcases Nat.lt_or_ge i j with h1 | h1
  · exact (h.lt h1 hj).le
  · have : i = j := by omega
    subst this; exact le_refl _

theorem take_len (x : List α) : (x.take (x.length - 1)).length = x.length - 1 := by
  rw [List.length_take]; omega

theorem idxOf_le (x : List α) (t : α) : idxOf x t ≤ x.length - 1 := by
  have := scan_le t (x.take (x.length - 1)); rw [take_len] at this; exact this

/-- Left of the data the scan stops immediately. -/
theorem idxOf_left {x y : List α} (h : Knots x y) (t : α) (ht : t < x[0]'(by have := h.two; omega)) :
    idxOf x t = 0 := by
  have h2 := h.two
  by_contra hne
  have := scan_before t (x.take (x.length - 1)) 0 (Nat.pos_of_ne_zero hne) (by rw [take_len]; omega)
  rw [List.getElem_take] at this
  exact absurd ht (not_lt.2 this)

/-- Right of the data the scan runs through all `n-1` abscissae. -/
theorem idxOf_right {x y : List α} (h : Knots x y) (t : α)
    (ht : x[x.length - 1]'(by have := h.two; omega) ≤ t) : idxOf x t = x.length - 1 := by
  have h2 := h.two
  unfold idxOf
  rw [scan_all, take_len]
  intro v hv
  obtain ⟨j, hj, rfl⟩ := List.getElem_of_mem hv
  rw [take_len] at hj
  rw [List.getElem_take]
  exact le_trans (h.le (by omega) (by omega)) ht

/-- **scan_brackets.** For `x₀ ≤ t` the scan returns an index `1 ≤ i ≤ n-1` with `x_{i-1} ≤ t`, and
`t < x_i` whenever `t < x_{n-1}`. -/
theorem scan_brackets {x y : List α} (h : Knots x y) (t : α) (h0 : x[0]'(by have := h.two; omega) ≤ t)
    (h1 : t < x[x.length - 1]'(by have := h.two; omega)) :
    ∃ (hi0 : 1 ≤ idxOf x t) (hi1 : idxOf x t < x.length),
      x[idxOf x t - 1] ≤ t ∧ t < x[idxOf x t] := by
  have h2 := h.two
  have hle := idxOf_le x t
  have hpos : 1 ≤ idxOf x t := by
    by_contra hne
    have hz : idxOf x t = 0 := by omega
    have hlt : scanIdx t (x.take (x.length - 1)) < (x.take (x.length - 1)).length := by
      rw [take_len]; unfold idxOf at hz; omega
    have := scan_at t _ hlt
    rw [List.getElem_take] at this
    unfold idxOf at hz
    simp only [hz] at this
    exact absurd h0 (not_le.2 this)
  refine ⟨hpos, by omega, ?_, ?_⟩
  · have := scan_before t (x.take (x.length - 1)) (idxOf x t - 1) (by unfold idxOf at hpos ⊢; omega)
      (by rw [take_len]; omega)
    rw [List.getElem_take] at this
    exact this
  · rcases Nat.lt_or_ge (idxOf x t) (x.length - 1) with hlt | hge
    · have hlt' : scanIdx t (x.take (x.length - 1)) < (x.take (x.length - 1)).length := by
        rw [take_len]; exact hlt
      have := scan_at t _ hlt'
      rw [List.getElem_take] at this
      exact this
    · have he : idxOf x t = x.length - 1 := by omega
      simp only [he]; exact h1

/-- The bracketing index is unique for strictly increasing abscissae. -/
theorem bracket_unique {x y : List α} (h : Knots x y) (t : α) (i j : Nat)
    (hi0 : 1 ≤ i) (hi : i < x.length) (hj0 : 1 ≤ j) (hj : j < x.length)
    (a1 : x[i - 1] ≤ t) (a2 : t < x[i]) (b1 : x[j - 1] ≤ t) (b2 : t < x[j]) : i = j := by
  by_contra hne
  rcases Nat.lt_or_ge i j with hlt | hge
  · have : x[i] ≤ x[j - 1] := h.le (by omega) (by omega)
    exact absurd (lt_of_lt_of_le a2 (le_trans this b1)) (lt_irrefl _)
  · have hlt : j < i := by omega
    have : x[j] ≤ x[i - 1] := h.le (by omega) (by omega)
    exact absurd (lt_of_lt_of_le b2 (le_trans this a1)) (lt_irrefl _)

/-- The line through knots `i-1` and `i`, evaluated at `t`. -/
def lineAt (x y : List α) (i : Nat) (t : α) : α :=
  y[i - 1]! + (t - x[i - 1]!) / (x[i]! - x[i - 1]!) * (y[i]! - y[i - 1]!)

/-- What the source computes inside the data range, as a function of the scan index. -/
theorem interpOne_in (x y : List α) (mode : ExtrapMode α) (t : α) (hn : x.length ≠ 0)
    (h0 : idxOf x t ≠ 0) (hr : ¬ x[x.length - 1]! < t) :
    interpOne x y mode t = some (lineAt x y (idxOf x t) t) := by
  unfold interpOne lineAt
  simp only [hn, if_false]
  rw [if_neg (by
    have : ¬ (scanIdx t (x.take (x.length - 1)) = 0) := h0
    simp only [gt_iff_lt, not_or]; exact ⟨this, hr⟩)]
  simp only [idxOf]
  congr 1
  ring

end field

end Cv.C16
