import Compute.Lemmas.LuCorrect
import Mathlib.Algebra.Order.Field.Basic
import Mathlib.Algebra.Order.AbsoluteValue.Basic
import Mathlib.Tactic.Linarith
/-
LU with partial pivoting over a linearly ordered field whose `Transc.abs` is the absolute value:
the pivot is a column maximum, all multipliers are bounded by one, and a zero pivot has only zeros
below it (so the side condition of `lu_correct` is automatic).
-/
set_option linter.unusedSectionVars false
set_option linter.unusedVariables false
namespace Cv.LA.Lu
open Finset

section ordered
variable {F : Type} [Field F] [LinearOrder F] [IsStrictOrderedRing F] [Transc F] [BEq F] [LawfulBEq F]

/-- the pivot row carries a maximum of `|·|` over rows `j..n-1` of column `j` -/
theorem luPivot_max (habs : ∀ x : F, Transc.abs x = |x|) (n j : Nat) (w : List F) (hj : j < n) :
    ∀ i, j ≤ i → i < n → |ent n w i j| ≤ |ent n w (luPivot n j w) j| := by
  unfold luPivot
  have key := foldl_range'_ind
    (fun m (p : Nat) => ∀ i, j ≤ i → i < j + 1 + m → |ent n w i j| ≤ |ent n w p j|)
    (fun p i => if Transc.abs (rd w (p * n + j)) < Transc.abs (rd w (i * n + j)) then i else p) j
    (j + 1) (n - (j + 1))
    (by
      intro i h1 h2
      have : i = j := by omega
      subst this
      exact le_refl _)
    (by
      intro m p hm hP i h1 h2
      simp only [habs, ← ent_def]
      by_cases hlt : |ent n w p j| < |ent n w (j + 1 + m) j|
      · rw [if_pos hlt]
        by_cases hi : i = j + 1 + m
        · subst hi; exact le_refl _
        · exact le_trans (hP i h1 (by omega)) (le_of_lt hlt)
      · rw [if_neg hlt]
        by_cases hi : i = j + 1 + m
        · subst hi; exact not_lt.mp hlt
        · exact hP i h1 (by omega))
  intro i h1 h2
  exact key i h1 (by omega)

/-- multiplier part of the loop invariant: in every finished column the stored multipliers are at
most `1` in absolute value, and are all `0` under a zero pivot. -/
def LuMul (n j : Nat) (w : List F) : Prop :=
  ∀ c i, c < j → c < i → i < n → |ent n w i c| ≤ 1 ∧ (ent n w c c = 0 → ent n w i c = 0)

theorem LuMul.step (habs : ∀ x : F, Transc.abs x = |x|) (n j : Nat) (w : List F) (piv : List Nat)
    (hw : w.length = n * n) (hpl : piv.length = n) (hj : j < n) (h : LuMul n j w) :
    LuMul n (j + 1) (luStep n (w, piv) j).1 := by
  obtain ⟨hl1, hun1, hcol1⟩ := luColumn_spec n j w hw hj
  obtain ⟨hpj, hpn⟩ := luPivot_range n j (luColumn n j w) hj
  have hmax := luPivot_max habs n j (luColumn n j w) hj
  obtain ⟨hl3, hpl3, hpiv3, he3⟩ := luStep_spec n j w piv hw hpl hj _ _ rfl rfl
  generalize hw1 : luColumn n j w = w1 at *
  generalize hp : luPivot n j w1 = p at *
  generalize (luStep n (w, piv) j).1 = w3 at *
  have hswn : ∀ i, i < n → sw p j i < n := fun i hi => sw_lt hpn hj hi
  intro c i hcj hci hi
  have hc : c < n := by omega
  by_cases hcj' : c = j
  · subst hcj'
    have hsge : c ≤ sw p c i := sw_ge hpj (by omega)
    have hle := hmax (sw p c i) hsge (hswn i hi)
    have hcc : ent n w3 c c = ent n w1 p c := by
      rw [he3 c c hc hc, if_neg (fun h => by omega)]; simp [sw]
    rw [hcc, he3 i c hi hc]
    by_cases hz : ent n w1 p c = 0
    · rw [if_neg (fun h => h.2.2 hz)]
      have h0 : ent n w1 (sw p c i) c = 0 := by
        rw [hz, abs_zero] at hle
        exact abs_nonpos_iff.mp hle
      rw [h0]
      exact ⟨by simp, fun _ => rfl⟩
    · rw [if_pos ⟨rfl, hci, hz⟩]
      refine ⟨?_, fun h => absurd h hz⟩
      rw [abs_div, div_le_one (abs_pos.mpr hz)]
      exact hle
  · have hcj2 : c < j := by omega
    have hsi : c < sw p j i := by
      by_cases hij : i < j
      · rw [sw_of_lt hpj hij]; exact hci
      · have := sw_ge hpj (Nat.le_of_not_lt hij); omega
    rw [he3 i c hi hc, if_neg (fun h => hcj' h.1), he3 c c hc hc, if_neg (fun h => hcj' h.1),
      sw_of_lt hpj hcj2, hun1 _ c (hswn i hi) hc hcj', hun1 c c hc hc hcj']
    exact h c (sw p j i) hcj2 hsi (hswn i hi)

theorem LuMul.foldl (habs : ∀ x : F, Transc.abs x = |x|) (n : Nat) (a : List F) (ha : a.length = n * n) :
    LuMul n n ((List.range n).foldl (luStep n) (a, List.range n)).1 := by
  have := foldl_range_ind
    (fun m (st : List F × List Nat) => (st.1.length = n * n ∧ st.2.length = n) ∧ LuMul n m st.1)
    (luStep n) (a, List.range n) n
    ⟨⟨ha, by simp⟩, fun c i hc => by omega⟩
    (fun m st hm ⟨⟨h1, h2⟩, h3⟩ => by
      obtain ⟨hl3, hpl3, -, -⟩ := luStep_spec n m st.1 st.2 h1 h2 hm _ _ rfl rfl
      exact ⟨⟨hl3, hpl3⟩, LuMul.step habs n m st.1 st.2 h1 h2 hm h3⟩)
  exact this.2

theorem lu_mul (habs : ∀ x : F, Transc.abs x = |x|) (a f : List F) (piv : List Nat)
    (h : lu a = some (f, piv)) : ∃ n, n * n = a.length ∧ LuMul n n f := by
  unfold lu at h
  cases hs : isSquare a.length with
  | none => simp [hs] at h
  | some n =>
    simp only [hs, Option.bind_eq_bind, Option.bind_some, Option.pure_def, Option.some.injEq] at h
    have hn := isSquare_some hs
    refine ⟨n, hn, ?_⟩
    have := LuMul.foldl habs n a hn.symm
    rw [h] at this
    exact this

end ordered
end Cv.LA.Lu
