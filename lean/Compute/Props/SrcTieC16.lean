import Compute.Model.Interp
import Compute.Generated.SrcC16
/-
Source tie for C16 (`src/functions/interpolate.rs`): the six per-target formulas of `interp1d_linear_unchecked`
(left / right extrapolation slope and value, interpolation ratio and value) are regenerated from the Rust source
into `Compute/Generated/SrcC16.lean` on every run.  The theorem says that the hand model's `interpOne`
(`Compute/Model/Interp.lean`) IS its own control flow (scan for `idx`, bounds test, `match` on the mode, the index
guards) with the regenerated formulas, applied to the same array elements the source indexes, in the place of
the hand-written ones — `rfl`, for every scalar type.  The scan, the tests and the loop over the targets are
control flow outside the translated subset: bit-exact tie only.
-/
set_option linter.unusedSectionVars false
namespace Cv.SrcTie.C16
open Cv.Src.C16

variable {α : Type} [Add α] [Sub α] [Mul α] [Div α] [Neg α] [Zero α] [One α] [NatCast α] [IntCast α]
  [LT α] [DecidableLT α] [LE α] [DecidableLE α] [BEq α] [Cv.Transc α] [Inhabited α]

theorem interpOne_eq (x y : List α) (mode : Cv.ExtrapMode α) (t : α) :
    Cv.interpOne x y mode t =
      (let n := x.length
       if n = 0 then none
       else
         let idx := Cv.scanIdx t (x.take (n - 1))
         if idx = 0 ∨ t > x[n - 1]! then
           match mode with
           | .panic => none
           | .fill l r => if idx = 0 then some l else some r
           | .extrapolate =>
             if idx = 0 then
               if n < 2 then none
               else
                 let slope := slopeLeft y[1]! y[0]! x[1]! x[0]!
                 some (extrapLeft slope x[0]! t y[0]!)
             else
               let slope := slopeRight y[n - 1]! y[n - 2]! x[n - 1]! x[n - 2]!
               some (extrapRight slope t x[n - 1]! y[n - 1]!)
         else
           let r := ratio t x[idx - 1]! x[idx]!
           some (lerp r y[idx]! y[idx - 1]!)) :=
  rfl

end Cv.SrcTie.C16
