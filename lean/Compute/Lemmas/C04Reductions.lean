import Compute.Model.Kernels
import Mathlib.Algebra.Group.Defs
/-
C04 — the two shared 8-way unrolled reductions (`Cv.sum8`, `Cv.dot8` of `Model/Kernels.lean`) equal the
plain sum / sum of products in exact arithmetic.  Only associativity of `+` and `0 + a = a` are used, so the
statements hold in every additive monoid (in particular every semiring, field, `ℝ`, `ℚ`, `ℕ`, matrices …).
-/
namespace Cv.C04
open Cv
variable {α : Type}

theorem foldl_add_eq [AddMonoid α] (l : List α) (s : α) : l.foldl (· + ·) s = s + l.sum := by
  induction l generalizing s with
  | nil => simp
  | cons a l ih => simp [List.foldl_cons, ih, add_assoc]

theorem sum8Go_eq [AddMonoid α] (s : α) (x : List α) : sum8Go s x = s + x.sum := by
  fun_induction sum8Go s x with
  | case1 s x0 x1 x2 x3 x4 x5 x6 x7 rest ih => rw [ih]; simp [List.sum_cons, add_assoc]
  | case2 s rest _ => exact foldl_add_eq rest s

theorem dot8Go_eq [AddMonoid α] [Mul α] (s : α) (x y : List α) :
    dot8Go s x y = s + (List.zipWith (· * ·) x y).sum := by
  fun_induction dot8Go s x y with
  | case1 s x0 x1 x2 x3 x4 x5 x6 x7 xs y0 y1 y2 y3 y4 y5 y6 y7 ys ih =>
    rw [ih]; simp [List.sum_cons, add_assoc]
  | case2 s xs ys _ => exact foldl_add_eq _ s

end Cv.C04
