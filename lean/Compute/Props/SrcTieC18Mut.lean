import Compute.Model.DistState
import Compute.Generated.SrcC18Mut
/-
Source tie for C18, fifth pass (`Compute/Generated/SrcC18Mut.lean`, regenerated from the Rust source on every run by
`tools/rs2lean.py`, option `state_fn`): every `set_*` and `Distribution1D::update` of the 13 univariate distributions as a state
transformer `S → args → S × Bool` (new state, panicked), `impl Default`, and the constructors with integer parameters, each
proved equal to the hand model of `Compute/Model/DistState.lean` (`Cv.DS.X.setA`, `Cv.DS.X.update`, `Cv.DS.X.new`).

What the statements pin down: the validation test and its position relative to the assignments (a panic keeps the fields
assigned before it), the order of the assignments and of the nested constructor calls (`Beta::set_alpha` assigns `alpha`, then
rebuilds `alpha_gen`), for `update` the order of the slice reads and setter calls and where the chain stops, the casts of
`params[i]`, and for `Default` the constructor and its arguments (`X_default_eq : X_default = X.new <defaults>`).
Where the model is not syntactically the source: it writes `({ d with f := x }, false)` where the generated side binds `d`
and ends in `(d, false)`, merges the two slice reads of `*self = Self::new(params[0], params[1])` into one `match`, inlines setters
that cannot panic (`(d.setMu a).1`), and writes `Pareto::update`'s `assert!(params.len() == 2)` as a list pattern.  Proofs: unfolding
and case analysis on the `if`s / `match`es / panic flags (`st_close`, `upd_close`); no lemma about the scalar is used.
-/
set_option linter.unusedSectionVars false
set_option linter.unusedSimpArgs false
namespace Cv.SrcTie.C18Mut

variable {α : Type} [Add α] [Sub α] [Mul α] [Div α] [Neg α] [Zero α] [One α] [NatCast α] [IntCast α]
  [LT α] [DecidableLT α] [LE α] [DecidableLE α] [BEq α] [Cv.Transc α] [Inhabited α] [Cv.DS.CastInt α]

open Cv.DS Cv.Src.C18Mut

/-- a call that did not panic returns its state with the flag `false` -/
theorem fst_false_eq {σ : Type} (x : σ × Bool) (h : x.2 = false) : (x.1, false) = x := by
  cases x; simp_all

/-- closes the goals that remain after unfolding a generated state transformer and its model: case splits on the `if`s /
`match`es of both sides, then `rfl` (no lemma about the scalar is used) -/
macro "st_close" : tactic =>
  `(tactic| (first
    | rfl
    | (split <;> first | rfl | (split <;> first | rfl | (split <;> first | rfl | simp_all)) | simp_all)
    | simp_all))

/-- the same for `update`: after the generated setters have been rewritten into the model's, case analysis on the slice reads
and on the panic flags of the setter calls -/
macro "upd_close" : tactic =>
  `(tactic| (repeat' split) <;>
    (first | rfl | (simp_all [fst_false_eq]; done)
           | (simp_all [fst_false_eq, Binomial.setN, Normal.setMu, Gumbel.setMu, Pareto.setAlpha, Pareto.setMinval]; done)))

theorem ChiSquared_new_eq (dof : Nat) : ChiSquared_new (α := α) dof = ChiSquared.new dof := by
  unfold ChiSquared_new ChiSquared.new ChiSquared.mkSampler
  split
  · cases Gamma.new ((dof : α) / ((2 : Nat) : α)) ((1 : α) / ((2 : Nat) : α)) <;> rfl
  · rfl

theorem Binomial_new_eq (n : Nat) (p : α) : Binomial_new (α := α) n p = Binomial.new n p := by
  unfold Binomial_new Binomial.new
  st_close

theorem DiscreteUniform_new_eq (lower upper : Int) : DiscreteUniform_new lower upper = DiscreteUniform.new lower upper := by
  unfold DiscreteUniform_new DiscreteUniform.new
  st_close

theorem Bernoulli_setP_eq (d : Bernoulli α) (x : α) : Bernoulli_setP d x = Bernoulli.setP d x := by
  unfold Bernoulli_setP Bernoulli.setP
  st_close

theorem Bernoulli_update_eq (d : Bernoulli α) (ps : List α) : Bernoulli_update d ps = Bernoulli.update d ps := by
  unfold Bernoulli_update Bernoulli.update
  simp only [Bernoulli_setP_eq]
  upd_close

theorem Bernoulli_default_eq : Bernoulli_default (α := α) = Bernoulli.new ((1 : α) / ((2 : Nat) : α)) := by
  unfold Bernoulli_default
  rw [Option.bind_fun_some]

theorem Beta_setAlpha_eq (d : Beta α) (x : α) : Beta_setAlpha d x = Beta.setAlpha d x := by
  unfold Beta_setAlpha Beta.setAlpha
  st_close

theorem Beta_setBeta_eq (d : Beta α) (x : α) : Beta_setBeta d x = Beta.setBeta d x := by
  unfold Beta_setBeta Beta.setBeta
  st_close

theorem Beta_update_eq (d : Beta α) (ps : List α) : Beta_update d ps = Beta.update d ps := by
  unfold Beta_update Beta.update
  simp only [Beta_setAlpha_eq, Beta_setBeta_eq]
  upd_close

theorem Beta_default_eq : Beta_default (α := α) = Beta.new 1 1 := by
  unfold Beta_default
  rw [Option.bind_fun_some]

theorem Binomial_setN_eq (d : Binomial α) (x : Nat) : Binomial_setN d x = Binomial.setN d x := by
  unfold Binomial_setN Binomial.setN
  st_close

theorem Binomial_setP_eq (d : Binomial α) (x : α) : Binomial_setP d x = Binomial.setP d x := by
  unfold Binomial_setP Binomial.setP
  st_close

theorem Binomial_update_eq (d : Binomial α) (ps : List α) : Binomial_update d ps = Binomial.update d ps := by
  unfold Binomial_update Binomial.update
  simp only [Binomial_setN_eq, Binomial_setP_eq, Binomial_new_eq]
  upd_close

theorem Binomial_default_eq : Binomial_default (α := α) = Binomial.new 1 ((1 : α) / ((2 : Nat) : α)) := by
  unfold Binomial_default
  rw [Binomial_new_eq]; rw [Option.bind_fun_some]

/-- `ChiSquared::set_dof`.  The statement carries the hypothesis that the sampler constructor `Gamma::new(dof / 2, 1 / 2)` does not
panic for a positive `dof` (always the case at `Float`; not provable for an abstract scalar).  Under it the two spellings of the
setter agree: (A) assert, assign `dof`, rebuild `sampler` — the model's; (B) `*self = Self::new(dof)`.  They differ only in what is
left behind if that constructor panicked after the assert had passed, which the hypothesis excludes.  A changed test, a changed
sampler argument (e.g. an integer division `dof / 2`) or a changed order that matters still fails both alternatives. -/
theorem ChiSquared_setDof_eq (d : ChiSquared α) (x : Nat)
    (hs : 0 < x → ChiSquared.mkSampler (α := α) x ≠ none) : ChiSquared_setDof d x = ChiSquared.setDof d x := by
  first
    | (unfold ChiSquared_setDof ChiSquared.setDof ChiSquared.mkSampler
       split
       · cases Gamma.new ((x : α) / ((2 : Nat) : α)) ((1 : α) / ((2 : Nat) : α)) <;> rfl
       · rfl)
    | (unfold ChiSquared_setDof ChiSquared.setDof
       rw [ChiSquared_new_eq]
       unfold ChiSquared.new
       by_cases hx : 0 < x
       · simp only [hx, if_true]
         cases hm : ChiSquared.mkSampler (α := α) x with
         | none => exact absurd hm (hs hx)
         | some g => rfl
       · simp only [hx, if_false])

theorem ChiSquared_update_eq (d : ChiSquared α) (ps : List α)
    (hs : ∀ x : Nat, 0 < x → ChiSquared.mkSampler (α := α) x ≠ none) : ChiSquared_update d ps = ChiSquared.update d ps := by
  unfold ChiSquared_update ChiSquared.update
  cases ps[0]? with
  | none => rfl
  | some a =>
    simp only [ChiSquared_setDof_eq _ _ (hs _)]
    first
      | rfl
      | (cases h : ChiSquared.setDof d (CastInt.toU64 a) with
         | mk s b => cases b <;> rfl)

theorem ChiSquared_default_eq : ChiSquared_default (α := α) = ChiSquared.new 1 := by
  unfold ChiSquared_default
  rw [ChiSquared_new_eq]; rw [Option.bind_fun_some]

theorem DiscreteUniform_setLower_eq (d : DiscreteUniform) (x : Int) : DiscreteUniform_setLower d x = DiscreteUniform.setLower d x := by
  unfold DiscreteUniform_setLower DiscreteUniform.setLower
  st_close

theorem DiscreteUniform_setUpper_eq (d : DiscreteUniform) (x : Int) : DiscreteUniform_setUpper d x = DiscreteUniform.setUpper d x := by
  unfold DiscreteUniform_setUpper DiscreteUniform.setUpper
  st_close

theorem DiscreteUniform_update_eq (d : DiscreteUniform) (ps : List α) : DiscreteUniform_update d ps = DiscreteUniform.update d ps := by
  unfold DiscreteUniform_update DiscreteUniform.update
  simp only [DiscreteUniform_new_eq]
  upd_close

theorem DiscreteUniform_default_eq : DiscreteUniform_default = DiscreteUniform.new 0 1 := by
  unfold DiscreteUniform_default
  rw [DiscreteUniform_new_eq]; rw [Option.bind_fun_some]

theorem Exponential_setLambda_eq (d : Exponential α) (x : α) : Exponential_setLambda d x = Exponential.setLambda d x := by
  unfold Exponential_setLambda Exponential.setLambda
  st_close

theorem Exponential_update_eq (d : Exponential α) (ps : List α) : Exponential_update d ps = Exponential.update d ps := by
  unfold Exponential_update Exponential.update
  simp only [Exponential_setLambda_eq]
  upd_close

theorem Exponential_default_eq : Exponential_default (α := α) = Exponential.new 1 := by
  unfold Exponential_default
  rw [Option.bind_fun_some]

theorem Gamma_setAlpha_eq (d : Gamma α) (x : α) : Gamma_setAlpha d x = Gamma.setAlpha d x := by
  unfold Gamma_setAlpha Gamma.setAlpha
  st_close

theorem Gamma_setBeta_eq (d : Gamma α) (x : α) : Gamma_setBeta d x = Gamma.setBeta d x := by
  unfold Gamma_setBeta Gamma.setBeta
  st_close

theorem Gamma_update_eq (d : Gamma α) (ps : List α) : Gamma_update d ps = Gamma.update d ps := by
  unfold Gamma_update Gamma.update
  simp only [Gamma_setAlpha_eq, Gamma_setBeta_eq]
  upd_close

theorem Gamma_default_eq : Gamma_default (α := α) = Gamma.new 1 1 := by
  unfold Gamma_default
  rw [Option.bind_fun_some]

theorem Gumbel_setMu_eq (d : Gumbel α) (x : α) : Gumbel_setMu d x = Gumbel.setMu d x := by
  unfold Gumbel_setMu Gumbel.setMu
  st_close

theorem Gumbel_setBeta_eq (d : Gumbel α) (x : α) : Gumbel_setBeta d x = Gumbel.setBeta d x := by
  unfold Gumbel_setBeta Gumbel.setBeta
  st_close

theorem Gumbel_update_eq (d : Gumbel α) (ps : List α) : Gumbel_update d ps = Gumbel.update d ps := by
  unfold Gumbel_update Gumbel.update
  simp only [Gumbel_setMu_eq, Gumbel_setBeta_eq]
  upd_close

theorem Gumbel_default_eq : Gumbel_default (α := α) = Gumbel.new 0 1 := by
  unfold Gumbel_default
  rw [Option.bind_fun_some]

theorem Normal_setMu_eq (d : Normal α) (x : α) : Normal_setMu d x = Normal.setMu d x := by
  unfold Normal_setMu Normal.setMu
  st_close

theorem Normal_setSigma_eq (d : Normal α) (x : α) : Normal_setSigma d x = Normal.setSigma d x := by
  unfold Normal_setSigma Normal.setSigma
  st_close

theorem Normal_update_eq (d : Normal α) (ps : List α) : Normal_update d ps = Normal.update d ps := by
  unfold Normal_update Normal.update
  simp only [Normal_setMu_eq, Normal_setSigma_eq]
  upd_close

theorem Normal_default_eq : Normal_default (α := α) = Normal.new 0 1 := by
  unfold Normal_default
  rw [Option.bind_fun_some]

theorem Pareto_setAlpha_eq (d : Pareto α) (x : α) : Pareto_setAlpha d x = Pareto.setAlpha d x := by
  unfold Pareto_setAlpha Pareto.setAlpha
  st_close

theorem Pareto_setMinval_eq (d : Pareto α) (x : α) : Pareto_setMinval d x = Pareto.setMinval d x := by
  unfold Pareto_setMinval Pareto.setMinval
  st_close

theorem Pareto_update_eq (d : Pareto α) (ps : List α) : Pareto_update d ps = Pareto.update d ps := by
  unfold Pareto_update Pareto.update
  simp only [Pareto_setAlpha_eq, Pareto_setMinval_eq]
  match ps with
  | [] => rfl
  | [a] => rfl
  | [a, b] =>
    simp only [List.length_cons, List.length_nil, if_true, List.getElem?_cons_zero, List.getElem?_cons_succ]
    cases h : d.setAlpha a with
    | mk s1 p1 =>
      cases p1
      · simp only [Bool.false_eq_true, if_false]
        cases h2 : s1.setMinval b with
        | mk s2 p2 => cases p2 <;> rfl
      · rfl
  | a :: b :: c :: r => rfl

theorem Pareto_default_eq : Pareto_default (α := α) = Pareto.new 1 1 := by
  unfold Pareto_default
  rw [Option.bind_fun_some]

theorem Poisson_setLambda_eq (d : Poisson α) (x : α) : Poisson_setLambda d x = Poisson.setLambda d x := by
  unfold Poisson_setLambda Poisson.setLambda
  st_close

theorem Poisson_update_eq (d : Poisson α) (ps : List α) : Poisson_update d ps = Poisson.update d ps := by
  unfold Poisson_update Poisson.update
  simp only [Poisson_setLambda_eq]
  upd_close

theorem Poisson_default_eq : Poisson_default (α := α) = Poisson.new 1 := by
  unfold Poisson_default
  rw [Option.bind_fun_some]

theorem T_setDof_eq (d : T α) (x : α) : T_setDof d x = T.setDof d x := by
  unfold T_setDof T.setDof
  st_close

theorem T_update_eq (d : T α) (ps : List α) : T_update d ps = T.update d ps := by
  unfold T_update T.update
  simp only [T_setDof_eq]
  upd_close

theorem T_default_eq : T_default (α := α) = T.new 1 := by
  unfold T_default
  rw [Option.bind_fun_some]

theorem Uniform_setLower_eq (d : Uniform α) (x : α) : Uniform_setLower d x = Uniform.setLower d x := by
  unfold Uniform_setLower Uniform.setLower
  st_close

theorem Uniform_setUpper_eq (d : Uniform α) (x : α) : Uniform_setUpper d x = Uniform.setUpper d x := by
  unfold Uniform_setUpper Uniform.setUpper
  st_close

theorem Uniform_update_eq (d : Uniform α) (ps : List α) : Uniform_update d ps = Uniform.update d ps := by
  unfold Uniform_update Uniform.update
  upd_close

theorem Uniform_default_eq : Uniform_default (α := α) = Uniform.new 0 1 := by
  unfold Uniform_default
  rw [Option.bind_fun_some]

end Cv.SrcTie.C18Mut
