import Compute.Props.RoundingLU
import Compute.Lemmas.MatmulRounding
import Compute.Props.C01
import Compute.Lemmas.C14
import Compute.Props.C13
import Compute.Lemmas.Rounding5
import Compute.Lemmas.WelfordRounding
/-
Helpers for `Props/Rounding6.lean` (sixth batch of rounding-error theorems in the standard model of
`Lemmas/FlModel.lean`): END-TO-END residual bounds of the least-squares routes — the routes compute an
explicit inverse (`invert_matrix` = `solve_sys(·, I)`, column by column through the Cholesky / LU route of
`solve`) and multiply, so the honest statement is a *residual* bound, not a backward error.

* `invertMatrix_residual`: the computed inverse `X̂` of `Ĝ` satisfies
  `|I − Ĝ·X̂| ≤ γ_{3n+1}·W·|X̂|` with `W = |L̂||L̂ᵀ|` (Cholesky route) or `W = Pᵀ|L̂||Û|` (LU route)
  — composed from `RoundingLU.choleskyRoute_backward_error_sharp` / `luRoute_backward_error` and the
  scalar-generic column structure of `solve_sys` (`C01.solveSys_column`).
* `normal_residual_core`: real-number core: from `|I − G·X| ≤ κ·W|X|` and `|c − X·b| ≤ γ'·|X||b|` to
  `|G·c − b| ≤ κ·W·(|X||b|) + γ'·|G|·(|X||b|)`.
* `powi_fac`: `v.powi(j) = vʲ·(1+θ)`, at most `j` rounding factors (square-and-multiply).
-/
set_option linter.unusedSectionVars false
set_option linter.unusedVariables false
set_option linter.unusedSimpArgs false
namespace Cv.Rounding6
open Cv Cv.FlModel Cv.LA Cv.LA.Lu Cv.Rounding Cv.FactorRounding Cv.RoundingLU Finset

variable {M : FlModel} [FlSqrt M]

/-! ### the weight matrix of the solver route -/

/-- `W` is the matrix that weighs the backward error of the route `solve` takes on `g`:
`|L̂||L̂ᵀ|` for the Cholesky route (`g` exactly symmetric), `Pᵀ|L̂||Û|` for the LU route. -/
def SolverWeight (n : Nat) (g : List (Fl M)) (W : Nat → Nat → ℝ) : Prop :=
  (∃ l, cholLoops n g = some l ∧ Symm n g ∧
      ∀ i m, W i m = ∑ j ∈ range n, |ev n l i j| * |ev n l m j|) ∨
  (∃ f piv, lu g = some (f, piv) ∧ piv.Perm (List.range n) ∧
      ∀ i m, i < n → W (piv.getD i 0) m = ∑ j ∈ range n, |Lv n f i j| * |Uv n f j m|)

/-! ### columns of `solve_sys(·, I)` -/

theorem rd_column (b : List (Fl M)) (n nsys c i : Nat) (hi : i < n) :
    rd (C01.column b n nsys c) i = rd b (i * nsys + c) := by
  unfold C01.column
  rw [rd_map_range _ _ _ hi]

theorem column_length (b : List (Fl M)) (n nsys c : Nat) : (C01.column b n nsys c).length = n := by
  simp [C01.column]

theorem rd_identity (n i c : Nat) (hi : i < n) (hc : c < n) :
    (rd (identity n : List (Fl M)) (i * n + c)).val = if i = c then 1 else 0 := by
  have hlt : i * n + c < n * n := by
    have : (i + 1) * n ≤ n * n := Nat.mul_le_mul_right n hi
    rw [Nat.add_mul] at this; omega
  unfold identity
  rw [rd_map_range _ _ _ hlt]
  have h1 : (i * n + c) / n = i := by
    rw [Nat.add_comm, Nat.add_mul_div_right _ _ (by omega), Nat.div_eq_of_lt hc, Nat.zero_add]
  have h2 : (i * n + c) % n = c := by
    rw [Nat.add_comm, Nat.add_mul_mod_self_right, Nat.mod_eq_of_lt hc]
  rw [h1, h2]
  by_cases h : i = c <;> simp [h]

/-- the route and the symmetry facts behind a Cholesky route (as in `RoundingLU.solve_routes`) -/
theorem route_some_chol (g l : List (Fl M)) (n : Nat) (hg : g.length = n * n)
    (hr : route g = some (some l)) : cholLoops n g = some l ∧ Symm n g := by
  unfold route at hr
  cases hp : routePredicate g with
  | none => simp [hp] at hr
  | some ok =>
    cases ok with
    | false => simp [hp] at hr
    | true =>
      simp only [hp, Option.bind_eq_bind, Option.bind_some, if_true] at hr
      refine ⟨tryCholesky_someG g l n hg hr, ?_⟩
      unfold routePredicate at hp
      cases hpd : isPositiveDefinite g with
      | none => simp [hpd] at hp
      | some pd =>
        cases pd with
        | false => simp [hpd] at hp
        | true =>
          simp only [hpd, Option.bind_eq_bind, Option.bind_some, if_true] at hp
          exact isExactlySymmetric_symm g n hg hp

/-- **residual of the computed inverse** (`invert_matrix` = `solve_sys(·, I)`): every column `x̂_c` of `X̂`
is the exact solution of a perturbed system `(Ĝ + ΔG_c)·x̂_c = e_c`, hence
`|δ_ic − Σ_m Ĝ[i,m]·X̂[m,c]| ≤ γ_{3n+1}·Σ_m W[i,m]·|X̂[m,c]|`, `W` the weight of the route. -/
theorem invertMatrix_residual (g X : List (Fl M)) (n : Nat) (hg : g.length = n * n) (hn : 2 ≤ n)
    (h : invertMatrix g = some X) (hu : ((3 * n + 1 : Nat) : ℝ) * M.u < 1)
    (hd : route g = some none → ∀ f piv, lu g = some (f, piv) → ∀ k, k < n → ev n f k k ≠ 0) :
    X.length = n * n ∧ ∃ W : Nat → Nat → ℝ, SolverWeight n g W ∧
      ∀ i c, i < n → c < n →
        |(if i = c then (1 : ℝ) else 0) - ∑ m ∈ range n, ev n g i m * ev n X m c| ≤
          M.γ (3 * n + 1) * ∑ m ∈ range n, W i m * |ev n X m c| := by
  have hun := M.u_nonneg
  rw [C01.invertMatrix_eq_solveSys, hg, isSquare_sq] at h
  simp only [Option.bind_some] at h
  obtain ⟨n', nsys, l?, h1, h2, h3, hroute, hxl, hcols⟩ := C01.solveSys_column g (identity n) X h
  have hn' : n' = n := Nat.mul_self_inj.mp (by rw [h1, hg])
  subst hn'
  have hIl : (identity n' : List (Fl M)).length = n' * n' := by simp [identity]
  have hns : nsys = n' := by
    rw [hIl] at h3
    exact Nat.eq_of_mul_eq_mul_left (by omega) h3
  subst hns
  refine ⟨by rw [hxl, hIl], ?_⟩
  have hu3 : ((3 * nsys : Nat) : ℝ) * M.u < 1 :=
    lt_of_le_of_lt (mul_le_mul_of_nonneg_right (Nat.cast_le.mpr (by omega)) hun) hu
  have hle := cholK_le nsys hn
  have huK : ((cholK nsys : Nat) : ℝ) * M.u < 1 :=
    lt_of_le_of_lt (mul_le_mul_of_nonneg_right (Nat.cast_le.mpr hle) hun) hu
  cases l? with
  | some l =>
    obtain ⟨hc, hsym⟩ := route_some_chol g l nsys hg hroute
    refine ⟨fun i m => ∑ j ∈ range nsys, |ev nsys l i j| * |ev nsys l m j|, Or.inl ⟨l, hc, hsym, fun _ _ => rfl⟩, ?_⟩
    intro i c hi hcn
    have hs : choleskySolve l (C01.column (identity nsys) nsys nsys c) = some (C01.column X nsys nsys c) :=
      (hcols c hcn).1
    have hres := choleskyRoute_residual g l _ _ nsys hc hsym hs huK i hi
    rw [rd_column _ _ _ _ _ hi, rd_identity nsys i c hi hcn] at hres
    have e1 : ∑ m ∈ range nsys, ev nsys g i m * (rd (C01.column X nsys nsys c) m).val =
        ∑ m ∈ range nsys, ev nsys g i m * ev nsys X m c :=
      Finset.sum_congr rfl fun m hm => by rw [rd_column _ _ _ _ _ (Finset.mem_range.mp hm)]; rfl
    have e2 : ∑ m ∈ range nsys, (∑ j ∈ range nsys, |ev nsys l i j| * |ev nsys l m j|) *
          |(rd (C01.column X nsys nsys c) m).val| =
        ∑ m ∈ range nsys, (∑ j ∈ range nsys, |ev nsys l i j| * |ev nsys l m j|) * |ev nsys X m c| :=
      Finset.sum_congr rfl fun m hm => by rw [rd_column _ _ _ _ _ (Finset.mem_range.mp hm)]; rfl
    rw [e1, e2] at hres
    refine le_trans hres (mul_le_mul_of_nonneg_right (M.γ_mono hle hu) ?_)
    exact Finset.sum_nonneg fun m _ => mul_nonneg
      (Finset.sum_nonneg fun k _ => mul_nonneg (abs_nonneg _) (abs_nonneg _)) (abs_nonneg _)
  | none =>
    cases hlu : lu g with
    | none =>
      have := (hcols 0 (by omega)).1
      simp [solveWith, hlu] at this
    | some fp =>
      obtain ⟨f, piv⟩ := fp
      have hpiv := hd hroute f piv hlu
      have hu1 : (nsys : ℝ) * M.u < 1 :=
        lt_of_le_of_lt (mul_le_mul_of_nonneg_right (Nat.cast_le.mpr (by omega)) hun) hu
      obtain ⟨_, hperm, _⟩ := lu_backward_error g f piv nsys hg hlu hpiv hu1
      have hpl : piv.length = nsys := by have := hperm.length_eq; simpa using this
      have hnodup : piv.Nodup := hperm.nodup_iff.mpr List.nodup_range
      -- the weight, indexed by the row of `g`
      refine ⟨fun r m => ∑ j ∈ range nsys, |Lv nsys f (piv.idxOf r) j| * |Uv nsys f j m|,
        Or.inr ⟨f, piv, hlu, hperm, ?_⟩, ?_⟩
      · intro i m hi
        have : piv.getD i 0 = piv[i]'(by omega) := by
          simp [List.getD_eq_getElem?_getD, List.getElem?_eq_getElem (show i < piv.length by omega)]
        simp only [this, hnodup.idxOf_getElem]
      · intro r c hr hcn
        have hmem : r ∈ piv := hperm.mem_iff.mpr (List.mem_range.mpr hr)
        have hidx : piv.idxOf r < piv.length := List.idxOf_lt_length_iff.mpr hmem
        set i := piv.idxOf r with hi_def
        have hgi : piv.getD i 0 = r := by
          rw [List.getD_eq_getElem?_getD, List.getElem?_eq_getElem hidx]
          simp [hi_def]
        have hs : luSolve f piv (C01.column (identity nsys) nsys nsys c) =
            some (C01.column X nsys nsys c) := by
          have := (hcols c hcn).1
          simpa [solveWith, hlu] using this
        have hres := luRoute_residual g f _ _ piv nsys hg (column_length _ _ _ _) hlu hpiv hs hu3 i
          (by omega)
        rw [hgi, rd_column _ _ _ _ _ hr, rd_identity nsys r c hr hcn] at hres
        have e1 : ∑ m ∈ range nsys, ev nsys g r m * (rd (C01.column X nsys nsys c) m).val =
            ∑ m ∈ range nsys, ev nsys g r m * ev nsys X m c :=
          Finset.sum_congr rfl fun m hm => by rw [rd_column _ _ _ _ _ (Finset.mem_range.mp hm)]; rfl
        have e2 : ∑ m ∈ range nsys, (∑ j ∈ range nsys, |Lv nsys f i j| * |Uv nsys f j m|) *
              |(rd (C01.column X nsys nsys c) m).val| =
            ∑ m ∈ range nsys, (∑ j ∈ range nsys, |Lv nsys f i j| * |Uv nsys f j m|) * |ev nsys X m c| :=
          Finset.sum_congr rfl fun m hm => by rw [rd_column _ _ _ _ _ (Finset.mem_range.mp hm)]; rfl
        rw [e1, e2] at hres
        refine le_trans hres (mul_le_mul_of_nonneg_right (M.γ_mono (by omega) hu) ?_)
        exact Finset.sum_nonneg fun m _ => mul_nonneg
          (Finset.sum_nonneg fun k _ => mul_nonneg (abs_nonneg _) (abs_nonneg _)) (abs_nonneg _)

/-! ### the real-number core of "explicit inverse, then multiply" -/

/-- from `|I − G·X| ≤ κ·W|X|` (rowwise, per column) and `|c − X·b| ≤ γ'·|X||b|` to the residual of the
system `G·c = b`:  `|G·c − b| ≤ κ·W·(|X||b|) + γ'·|G|·(|X||b|)`. -/
theorem normal_residual_core (n : Nat) (G X W : Nat → Nat → ℝ) (b c : Nat → ℝ) (κ γ' : ℝ)
    (hinv : ∀ i k, i < n → k < n →
      |(if i = k then (1 : ℝ) else 0) - ∑ m ∈ range n, G i m * X m k| ≤ κ * ∑ m ∈ range n, W i m * |X m k|)
    (hprod : ∀ j, j < n → |c j - ∑ k ∈ range n, X j k * b k| ≤ γ' * ∑ k ∈ range n, |X j k| * |b k|) :
    ∀ i, i < n → |∑ j ∈ range n, G i j * c j - b i| ≤
      κ * ∑ m ∈ range n, W i m * (∑ k ∈ range n, |X m k| * |b k|)
        + γ' * ∑ j ∈ range n, |G i j| * (∑ k ∈ range n, |X j k| * |b k|) := by
  intro i hi
  set R : Nat → ℝ := fun k => (if i = k then (1 : ℝ) else 0) - ∑ m ∈ range n, G i m * X m k with hR
  set e : Nat → ℝ := fun j => c j - ∑ k ∈ range n, X j k * b k with he
  have key : ∑ j ∈ range n, G i j * c j - b i =
      ∑ j ∈ range n, G i j * e j - ∑ k ∈ range n, R k * b k := by
    have a1 : ∑ k ∈ range n, R k * b k =
        b i - ∑ k ∈ range n, (∑ m ∈ range n, G i m * X m k) * b k := by
      simp only [hR, sub_mul, Finset.sum_sub_distrib]
      congr 1
      rw [Finset.sum_eq_single i]
      · simp
      · intro k _ hk; simp [Ne.symm hk]
      · intro hni; exact absurd (Finset.mem_range.mpr hi) hni
    have a2 : ∑ j ∈ range n, G i j * e j =
        ∑ j ∈ range n, G i j * c j - ∑ j ∈ range n, G i j * ∑ k ∈ range n, X j k * b k := by
      simp only [he, mul_sub, Finset.sum_sub_distrib]
    have a3 : ∑ k ∈ range n, (∑ m ∈ range n, G i m * X m k) * b k =
        ∑ j ∈ range n, G i j * ∑ k ∈ range n, X j k * b k := by
      simp only [Finset.sum_mul, Finset.mul_sum]
      rw [Finset.sum_comm]
      exact Finset.sum_congr rfl fun j _ => Finset.sum_congr rfl fun k _ => by ring
    rw [a1, a2, a3]; ring
  rw [key]
  refine le_trans (abs_sub _ _) ?_
  have t1 : |∑ k ∈ range n, R k * b k| ≤
      κ * ∑ m ∈ range n, W i m * (∑ k ∈ range n, |X m k| * |b k|) := by
    refine le_trans (Finset.abs_sum_le_sum_abs _ _) ?_
    have : ∀ k ∈ range n, |R k * b k| ≤ κ * (∑ m ∈ range n, W i m * |X m k|) * |b k| := by
      intro k hk
      rw [abs_mul]
      exact mul_le_mul_of_nonneg_right (hinv i k hi (Finset.mem_range.mp hk)) (abs_nonneg _)
    refine le_trans (Finset.sum_le_sum this) (le_of_eq ?_)
    simp only [Finset.mul_sum, Finset.sum_mul]
    rw [Finset.sum_comm]
    exact Finset.sum_congr rfl fun m _ => Finset.sum_congr rfl fun k _ => by ring
  have t2 : |∑ j ∈ range n, G i j * e j| ≤
      γ' * ∑ j ∈ range n, |G i j| * (∑ k ∈ range n, |X j k| * |b k|) := by
    refine le_trans (Finset.abs_sum_le_sum_abs _ _) ?_
    rw [Finset.mul_sum]
    refine Finset.sum_le_sum fun j hj => ?_
    rw [abs_mul]
    calc |G i j| * |e j| ≤ |G i j| * (γ' * ∑ k ∈ range n, |X j k| * |b k|) :=
          mul_le_mul_of_nonneg_left (hprod j (Finset.mem_range.mp hj)) (abs_nonneg _)
      _ = γ' * (|G i j| * ∑ k ∈ range n, |X j k| * |b k|) := by ring
  linarith

/-! ### powers by square-and-multiply -/

theorem powiNat_go_fac (fuel : Nat) :
    ∀ (a r : Fl M) (n : Nat) (A R fa fr : ℝ) (ka kr : Nat), n < 2 ^ fuel →
      a.val = A * fa → M.Fac ka fa → r.val = R * fr → M.Fac kr fr →
      ∃ f, M.Fac (kr + n * (ka + 1)) f ∧ (powiNat.go fuel a n r).val = R * A ^ n * f := by
  induction fuel with
  | zero =>
    intro a r n A R fa fr ka kr h ha hfa hr hfr
    have : n = 0 := by simpa using h
    subst this
    exact ⟨fr, by simpa using hfr, by simp [powiNat.go, hr]⟩
  | succ fu ih =>
    intro a r n A R fa fr ka kr h ha hfa hr hfr
    have hdiv : n / 2 < 2 ^ fu := by
      rw [Nat.div_lt_iff_lt_mul (by norm_num)]; rw [pow_succ] at h; exact h
    have hn : n = 2 * (n / 2) + n % 2 := (Nat.div_add_mod n 2).symm
    obtain ⟨δ2, hδ2, hsq⟩ := M.std (a.val * a.val)
    have haa : (a * a).val = (A * A) * (fa * fa * (1 + δ2)) := by
      show M.rnd (a.val * a.val) = _
      rw [hsq, ha]; ring
    have hfaa : M.Fac (ka + ka + 1) (fa * fa * (1 + δ2)) := (hfa.mul hfa).mul (Fac.one_add hδ2)
    unfold powiNat.go
    simp only []
    rcases Nat.mod_two_eq_zero_or_one n with h2 | h2
    · rw [h2]
      simp only [Nat.zero_ne_one, if_false]
      by_cases h0 : n / 2 = 0
      · rw [if_pos h0]
        have : n = 0 := by omega
        subst this
        exact ⟨fr, by simpa using hfr, by simp [hr]⟩
      · rw [if_neg h0]
        obtain ⟨f, hf, hv⟩ := ih (a * a) r (n / 2) (A * A) R _ fr (ka + ka + 1) kr hdiv haa hfaa hr hfr
        refine ⟨f, hf.mono (le_of_eq ?_), ?_⟩
        · conv_rhs => rw [hn, h2]
          ring
        · rw [hv]
          conv_rhs => rw [hn, h2, Nat.add_zero, pow_mul, pow_two]
    · rw [h2]
      simp only [if_true]
      obtain ⟨δ1, hδ1, hra⟩ := M.std (r.val * a.val)
      have hra' : (r * a).val = (R * A) * (fr * fa * (1 + δ1)) := by
        show M.rnd (r.val * a.val) = _
        rw [hra, hr, ha]; ring
      have hfra : M.Fac (kr + ka + 1) (fr * fa * (1 + δ1)) := (hfr.mul hfa).mul (Fac.one_add hδ1)
      by_cases h0 : n / 2 = 0
      · rw [if_pos h0]
        have : n = 1 := by omega
        subst this
        exact ⟨_, hfra.mono (by omega), by rw [hra']; ring⟩
      · rw [if_neg h0]
        obtain ⟨f, hf, hv⟩ := ih (a * a) (r * a) (n / 2) (A * A) (R * A) _ _ (ka + ka + 1) (kr + ka + 1)
          hdiv haa hfaa hra' hfra
        refine ⟨f, hf.mono (le_of_eq ?_), ?_⟩
        · conv_rhs => rw [hn, h2]
          ring
        · rw [hv]
          conv_rhs => rw [hn, h2, pow_add, pow_mul, pow_two, pow_one]
          ring

/-- **`v.powi(j)`** (square-and-multiply, as `f64::powi` compiles): `vʲ·(1+θ)` with at most `j` rounding
factors (`j < 2⁶⁴`) -/
theorem powi_fac (v : Fl M) (j : Nat) (hj : j < 2 ^ 64) :
    ∃ f, M.Fac j f ∧ (powi v (j : Int)).val = v.val ^ j * f := by
  obtain ⟨f, hf, hv⟩ := powiNat_go_fac 64 v (1 : Fl M) j v.val 1 1 1 0 0 hj (by simp) Fac.one
    (by simp) Fac.one
  refine ⟨f, by simpa using hf, ?_⟩
  unfold powi
  simp only [Int.natAbs_natCast]
  rw [if_neg (by omega)]
  unfold powiNat
  rw [hv]; ring

/-! ### list access conventions -/

section access
open Cv.Rounding3

theorem bang_eq_rd (l : List (Fl M)) (i : Nat) : l[i]! = rd l i := by
  simp only [rd, List.getD_eq_getElem?_getD]
  by_cases h : i < l.length
  · rw [getElem!_pos l i h, List.getElem?_eq_getElem h]; rfl
  · rw [getElem!_neg l i h, List.getElem?_eq_none (by omega)]; rfl

/-- real value of entry `i` of a vector -/
def vv (l : List (Fl M)) (i : Nat) : ℝ := (rd l i).val

/-- the exact and the absolute-value cell of `op(A)·op(B)` in `ev`/`vv` notation -/
theorem exactCell_TN (a b : List (Fl M)) (ca cb l i j : Nat) :
    exactCell a b ca cb true false l i j = ∑ k ∈ range l, ev ca a k i * ev cb b k j := by
  simp only [exactCell, C05L.opEntry, if_true, Bool.false_eq_true, if_false, bang_eq_rd, ev]
theorem absCell_TN (a b : List (Fl M)) (ca cb l i j : Nat) :
    absCell a b ca cb true false l i j = ∑ k ∈ range l, |ev ca a k i| * |ev cb b k j| := by
  simp only [absCell, C05L.opEntry, if_true, Bool.false_eq_true, if_false, bang_eq_rd, ev]
theorem exactCell_NN (a b : List (Fl M)) (ca cb l i j : Nat) :
    exactCell a b ca cb false false l i j = ∑ k ∈ range l, ev ca a i k * ev cb b k j := by
  simp only [exactCell, C05L.opEntry, if_true, Bool.false_eq_true, if_false, bang_eq_rd, ev]
theorem absCell_NN (a b : List (Fl M)) (ca cb l i j : Nat) :
    absCell a b ca cb false false l i j = ∑ k ∈ range l, |ev ca a i k| * |ev cb b k j| := by
  simp only [absCell, C05L.opEntry, if_true, Bool.false_eq_true, if_false, bang_eq_rd, ev]

theorem ev_one (b : List (Fl M)) (k : Nat) : ev 1 b k 0 = vv b k := by simp [ev, vv]

/-- **`Aᵀ·B`** for an `N × p` and an `N × q` operand, bare model: `γ_{N+1}` -/
theorem matmulTN_error (a b : List (Fl M)) (N p q : Nat) (ha : a.length = N * p) (hb : b.length = N * q)
    (hN : 0 < N) (h : ((N + 1 : Nat) : ℝ) * M.u < 1) :
    ∃ c, matmul a b N N true false = some c ∧ c.length = p * q ∧
      ∀ i j, i < p → j < q →
        |ev q c i j - ∑ k ∈ range N, ev p a k i * ev q b k j| ≤
          M.γ (N + 1) * ∑ k ∈ range N, |ev p a k i| * |ev q b k j| := by
  obtain ⟨c, h1, h2, h3⟩ := matmul_error_succ a b N p N q true false ha hb hN hN (by simp)
    (by simpa using h)
  refine ⟨c, h1, by simpa using h2, fun i j hi hj => ?_⟩
  have := h3 i j (by simpa using hi) (by simpa using hj)
  simp only [Bool.false_eq_true, if_false, if_true, exactCell_TN, absCell_TN, bang_eq_rd] at this
  exact this

/-- **`A·B`** for an `m × l` and an `l × q` operand, bare model: `γ_{l+1}` -/
theorem matmulNN_error (a b : List (Fl M)) (m l q : Nat) (ha : a.length = m * l) (hb : b.length = l * q)
    (hm : 0 < m) (hl : 0 < l) (h : ((l + 1 : Nat) : ℝ) * M.u < 1) :
    ∃ c, matmul a b m l false false = some c ∧ c.length = m * q ∧
      ∀ i j, i < m → j < q →
        |ev q c i j - ∑ k ∈ range l, ev l a i k * ev q b k j| ≤
          M.γ (l + 1) * ∑ k ∈ range l, |ev l a i k| * |ev q b k j| := by
  obtain ⟨c, h1, h2, h3⟩ := matmul_error_succ a b m l l q false false ha hb hm hl (by simp)
    (by simpa using h)
  refine ⟨c, h1, by simpa using h2, fun i j hi hj => ?_⟩
  have := h3 i j (by simpa using hi) (by simpa using hj)
  simp only [Bool.false_eq_true, if_false, exactCell_NN, absCell_NN, bang_eq_rd] at this
  exact this

end access

/-- the residual of a system whose matrix and right-hand side were formed with errors -/
theorem formed_system_residual (n : Nat) (G Gh A : Nat → Nat → ℝ) (b bh a c : Nat → ℝ) (γ E : ℝ) (i : Nat)
    (hG : ∀ j, j < n → |Gh i j - G i j| ≤ γ * A i j) (hb : |bh i - b i| ≤ γ * a i)
    (hE : |∑ j ∈ range n, Gh i j * c j - bh i| ≤ E) :
    |∑ j ∈ range n, G i j * c j - b i| ≤ E + γ * ∑ j ∈ range n, A i j * |c j| + γ * a i := by
  have e : ∑ j ∈ range n, G i j * c j - b i =
      (∑ j ∈ range n, Gh i j * c j - bh i) - ∑ j ∈ range n, (Gh i j - G i j) * c j + (bh i - b i) := by
    simp only [sub_mul, Finset.sum_sub_distrib]; ring
  rw [e]
  have t : |∑ j ∈ range n, (Gh i j - G i j) * c j| ≤ γ * ∑ j ∈ range n, A i j * |c j| := by
    refine le_trans (Finset.abs_sum_le_sum_abs _ _) ?_
    rw [Finset.mul_sum]
    refine Finset.sum_le_sum fun j hj => ?_
    rw [abs_mul, ← mul_assoc]
    exact mul_le_mul_of_nonneg_right (hG j (Finset.mem_range.mp hj)) (abs_nonneg _)
  have := abs_add_le ((∑ j ∈ range n, Gh i j * c j - bh i) - ∑ j ∈ range n, (Gh i j - G i j) * c j)
    (bh i - b i)
  have := abs_sub (∑ j ∈ range n, Gh i j * c j - bh i) (∑ j ∈ range n, (Gh i j - G i j) * c j)
  linarith

/-! ### the intermediates of `fit` and of the Yule–Walker fit -/

section parts
open Cv.Rounding3

theorem fit_parts (p : Nat) (x y c : List (Fl M)) (h : Poly.fit p x y = some c) :
    x.length = y.length ∧ ∃ g ginv xty, xtx (Poly.vandermonde x p) x.length = some g ∧
      invertMatrix g = some ginv ∧
      matmul (Poly.vandermonde x p) y x.length x.length true false = some xty ∧
      matmul ginv xty p p false false = some c := by
  unfold Poly.fit at h
  by_cases hxy : x.length = y.length
  · rw [if_neg (not_not.mpr hxy)] at h
    refine ⟨hxy, ?_⟩
    simp only [Option.bind_eq_bind] at h
    rcases hg : xtx (Poly.vandermonde x p) x.length with _ | g
    · rw [hg] at h; simp at h
    · rw [hg, Option.bind_some] at h
      rcases hi : invertMatrix g with _ | ginv
      · rw [hi] at h; simp at h
      · rw [hi, Option.bind_some] at h
        rcases hb : matmul (Poly.vandermonde x p) y x.length y.length true false with _ | xty
        · rw [hb] at h; simp at h
        · rw [hb, Option.bind_some] at h
          rw [← hxy] at hb
          exact ⟨g, ginv, xty, rfl, hi, hb, h⟩
  · rw [if_pos hxy] at h; simp at h

theorem arFit_parts (p : Nat) (data : List (Fl M)) (ic : Fl M) (co : List (Fl M))
    (h : TS.arFit p data = some (ic, co)) :
    p ≠ 0 ∧ ∃ rinv c, invertMatrix (TS.toeplitz ((TS.fitAcf p data).take p)) = some rinv ∧
      matmul rinv ((TS.fitAcf p data).drop 1) p p false false = some c ∧
      ic = TS.mean data ∧ co = c.reverse := by
  unfold TS.arFit at h
  by_cases hp : p = 0
  · rw [if_pos hp] at h; simp at h
  · rw [if_neg hp] at h
    refine ⟨hp, ?_⟩
    simp only [Option.bind_eq_bind] at h
    rcases hi : invertMatrix (TS.toeplitz ((TS.fitAcf p data).take p)) with _ | rinv
    · rw [hi] at h; simp at h
    · rw [hi, Option.bind_some] at h
      rcases hc : matmul rinv ((TS.fitAcf p data).drop 1) p p false false with _ | c
      · rw [hc] at h; simp at h
      · rw [hc, Option.bind_some] at h
        simp only [Option.pure_def, Option.some.injEq, Prod.mk.injEq] at h
        exact ⟨rinv, c, rfl, hc, h.1.symm, h.2.symm⟩

theorem fitAcf_length (p : Nat) (data : List (Fl M)) : (TS.fitAcf p data).length = p + 1 := by
  simp [TS.fitAcf]

/-- entries of the Toeplitz matrix of the first `p` computed autocorrelations -/
theorem toeplitz_ev (ac : List (Fl M)) (p i j : Nat) (hl : p ≤ ac.length) (hi : i < p) (hj : j < p) :
    (TS.toeplitz (ac.take p)).length = p * p ∧
      ev p (TS.toeplitz (ac.take p)) i j = vv ac (if j ≤ i then i - j else j - i) := by
  have htl : (ac.take p).length = p := by simp [hl]
  obtain ⟨h1, h2⟩ := C13.toeplitz_get (ac.take p) i j (by rw [htl]; exact hi) (by rw [htl]; exact hj)
  rw [htl] at h1 h2
  refine ⟨h1, ?_⟩
  unfold ev vv
  rw [← bang_eq_rd, h2, bang_eq_rd]
  have hk : (if j ≤ i then i - j else j - i) < p := by split <;> omega
  simp only [rd, List.getD_eq_getElem?_getD]
  rw [List.getElem?_take_of_lt hk]

end parts

/-! ### `invert_matrix` does return on the Cholesky route (used by the non-vacuity examples) -/

section total
open Cv.Rounding3

theorem choleskySolve_length (l b x : List (Fl M)) (n : Nat) (hl : l.length = n * n)
    (h : choleskySolve l b = some x) : x.length = n := by
  unfold choleskySolve at h
  rw [hl, isSquare_sq] at h
  simp only [Option.bind_eq_bind, Option.bind_some] at h
  by_cases hb : b.length = n
  · simp only [hb, ne_eq, not_true_eq_false, if_false] at h
    rcases hy : forwardSubstitution l b with _ | y
    · simp [hy] at h
    · rcases ht : LA.transpose l n with _ | lt
      · simp [hy, ht] at h
      · simp only [hy, ht, Option.bind_some] at h
        obtain ⟨hltl, _⟩ := transpose_square l lt n hl ht
        exact (backwardSubstitution_rows lt y x n hltl h).2.1
  · simp [hb] at h

theorem solveCols_some' (n : Nat) (solver : List (Fl M) → Option (List (Fl M))) (bc : List (Fl M))
    (k : Nat)
    (h : ∀ c, c < k → ∃ sol, solver ((bc.drop (c * n)).take n) = some sol ∧ sol.length = n) :
    ∃ sols, solveCols n solver bc k = some sols := by
  induction k with
  | zero => exact ⟨[], rfl⟩
  | succ k ih =>
    obtain ⟨acc, hacc⟩ := ih (fun c hc => h c (by omega))
    obtain ⟨sol, hsol, hlen⟩ := h k (by omega)
    exact ⟨acc ++ sol, by simp [solveCols, hacc, hsol, hlen]⟩

theorem invertMatrix_some_chol (g l : List (Fl M)) (n : Nat) (hn : n ≠ 0) (hg : g.length = n * n)
    (hr : route g = some (some l)) (hl : l.length = n * n) : ∃ X, invertMatrix g = some X := by
  have hIl : (identity n : List (Fl M)).length = n * n := by simp [identity]
  have hm : LA.isMatrix (identity n : List (Fl M)).length n = some n :=
    isMatrix_eq_some_iff.mpr ⟨hn, hIl.symm⟩
  obtain ⟨bc, hbc, hbcl⟩ : ∃ bc, rowToColMajor (identity n : List (Fl M)) n = some bc ∧
      bc.length = n * n := by
    refine ⟨(List.range (identity n : List (Fl M)).length).map fun k =>
      rd (identity n : List (Fl M)) ((k % n) * n + k / n),
      by simp only [rowToColMajor, hm, Option.bind_eq_bind, Option.bind_some, Option.pure_def], ?_⟩
    simp [hIl]
  have hcols : ∀ c, c < n → ∃ sol, choleskySolve l ((bc.drop (c * n)).take n) = some sol ∧
      sol.length = n := by
    intro c hc
    have hseg : ((bc.drop (c * n)).take n).length = n := by
      have : (c + 1) * n ≤ n * n := Nat.mul_le_mul_right n hc
      rw [Nat.add_mul] at this
      simp [hbcl]; omega
    obtain ⟨x, hx⟩ := RoundingLU.Examples.choleskySolve_isSome l _ n hn hl hseg
    exact ⟨x, hx, choleskySolve_length l _ x n hl hx⟩
  obtain ⟨sols, hsols⟩ := solveCols_some' n (choleskySolve l) bc n hcols
  have hsl : sols.length = n * n := (C01.solveCols_spec n _ bc n sols hsols).1
  have hm2 : LA.isMatrix sols.length n = some n := isMatrix_eq_some_iff.mpr ⟨hn, hsl.symm⟩
  rw [C01.invertMatrix_eq_solveSys, hg, isSquare_sq]
  simp only [Option.bind_some, solveSys, hg, isSquare_sq, hm, hbc, hr, hsols, Option.bind_eq_bind,
    colToRowMajor, hm2, Option.pure_def]
  exact ⟨_, rfl⟩

end total

/-! ### C08: the online covariance — comparison of the computed running means with the exact ones -/

section online
open Cv.C08 Cv.Rounding2

omit [FlSqrt M] in
/-- the initial state `(0., 0., 0., 0.)` of the online loop -/
abbrev s0 : Fl M × Fl M × Fl M × Fl M := ((0 : Fl M), (0 : Fl M), (0 : Fl M), (0 : Fl M))

omit [FlSqrt M] in
theorem online_snoc_fl (P : List (Fl M × Fl M)) (p : Fl M × Fl M) (s : Fl M × Fl M × Fl M × Fl M) :
    (P ++ [p]).foldl onlineStep s = onlineStep (P.foldl onlineStep s) p := by
  simp [List.foldl_append]

omit [FlSqrt M] in
theorem onlineTerms_snoc (s : Fl M × Fl M × Fl M × Fl M) (P : List (Fl M × Fl M)) (p : Fl M × Fl M) :
    Rounding5.onlineTerms s (P ++ [p]) = Rounding5.onlineTerms s P ++
      [(p.1.val - (P.foldl onlineStep s).1.val) * (p.2.val - ((P ++ [p]).foldl onlineStep s).2.1.val)] := by
  induction P generalizing s with
  | nil => simp [Rounding5.onlineTerms]
  | cons q P ih =>
    simp only [List.cons_append, Rounding5.onlineTerms, List.foldl_cons]
    rw [ih]

/-- exact recurrence of the co-moment: `C(X⧺[x], Y⧺[y]) = C(X,Y) + (x − μ_X)(y − μ_{Y⧺[y]})` -/
theorem comoment_snoc (X Y : List ℝ) (h : X.length = Y.length) (x y : ℝ) :
    comoment (X ++ [x]) (Y ++ [y]) = comoment X Y + (x - mu X) * (y - mu (Y ++ [y])) := by
  rw [comoment_raw _ _ (by simp [h]), comoment_raw _ _ h, List.zip_append h]
  simp only [List.map_append, List.sum_append, List.zip_cons_cons, List.zip_nil_right, List.map_cons,
    List.map_nil, List.sum_cons, List.sum_nil, add_zero, List.length_append, List.length_cons,
    List.length_nil, mu]
  by_cases hn : X.length = 0
  · have hX : X = [] := List.eq_nil_of_length_eq_zero hn
    have hY : Y = [] := List.eq_nil_of_length_eq_zero (by rw [← h]; exact hn)
    subst hX; subst hY; simp
  · have h0 : (X.length : ℝ) ≠ 0 := by exact_mod_cast hn
    have h1 : ((X.length : ℝ) + 1) ≠ 0 := by positivity
    rw [← h]
    push_cast
    field_simp
    ring

omit [FlSqrt M] in
/-- with an exact counter the two running means of the online loop are Welford's running means -/
theorem online_means (P : List (Fl M × Fl M)) (hN : ∀ k : Nat, k ≤ P.length → M.rnd (k : ℝ) = k) :
    (P.foldl onlineStep s0).1 = (welfordStatistics (P.map Prod.fst)).2.1 ∧
    (P.foldl onlineStep s0).2.1 = (welfordStatistics (P.map Prod.snd)).2.1 := by
  induction P using List.reverseRecOn with
  | nil => exact ⟨rfl, rfl⟩
  | append_singleton P p ih =>
    obtain ⟨ih1, ih2⟩ := ih (fun k hk => hN k (by simp; omega))
    have hcnt := Rounding5.online_count P s0 0 (by simp)
      (fun k hk => hN k (by simp at hk ⊢; omega))
    rw [Nat.zero_add] at hcnt
    have hc : ((P.foldl onlineStep s0).2.2.2 + 1 : Fl M) = ((P.length + 1 : Nat) : Fl M) := by
      apply Fl.ext
      show M.rnd ((P.foldl onlineStep s0).2.2.2.val + 1) = M.rnd ((P.length + 1 : Nat) : ℝ)
      rw [hcnt]; push_cast; rfl
    rw [online_snoc_fl, List.map_append, List.map_append, List.map_singleton, List.map_singleton,
      Rounding.welfordStatistics_snoc, Rounding.welfordStatistics_snoc]
    have c1 := welford_count (P.map Prod.fst)
    have c2 := welford_count (P.map Prod.snd)
    rw [List.length_map] at c1 c2
    constructor
    · show (P.foldl onlineStep s0).1 + (p.1 - (P.foldl onlineStep s0).1) /
          ((P.foldl onlineStep s0).2.2.2 + 1) = _
      rw [hc, ih1]
      show _ = (welfordStatistics (P.map Prod.fst)).2.1 + (p.1 - (welfordStatistics (P.map Prod.fst)).2.1) /
        (((welfordStatistics (P.map Prod.fst)).1 + 1 : Nat) : Fl M)
      rw [c1]
    · show (P.foldl onlineStep s0).2.1 + (p.2 - (P.foldl onlineStep s0).2.1) /
          ((P.foldl onlineStep s0).2.2.2 + 1) = _
      rw [hc, ih2]
      show _ = (welfordStatistics (P.map Prod.snd)).2.1 + (p.2 - (welfordStatistics (P.map Prod.snd)).2.1) /
        (((welfordStatistics (P.map Prod.snd)).1 + 1 : Nat) : Fl M)
      rw [c2]

omit [FlSqrt M] in
/-- **the terms of the online loop are close to the exact co-moment increments**: exact terms `es` with
`Σ es = C(x,y)`, `Σ|es| ≤ n·R_x·R_y`, and `Σ|t̂ₖ − eₖ| ≤ n·(R_x·E_y + R_y·E_x + E_x·E_y)` where `E_x`, `E_y`
bound the errors of all computed running means -/
theorem onlineC_invariant (Rx Ry Ex Ey : ℝ) (h1 : M.rnd 1 = 1) (P : List (Fl M × Fl M)) :
    (∀ p ∈ P, p.1.Rep ∧ p.2.Rep) →
    (∀ k : Nat, k ≤ P.length → M.rnd (k : ℝ) = k) →
    (∀ p ∈ P, ∀ q ∈ P, |p.1.val - q.1.val| ≤ Rx ∧ |p.2.val - q.2.val| ≤ Ry) →
    (∀ Q : List (Fl M × Fl M), Q <+: P → Q ≠ [] →
      |(Q.foldl onlineStep s0).1.val - mu (vals (Q.map Prod.fst))| ≤ Ex ∧
      |(Q.foldl onlineStep s0).2.1.val - mu (vals (Q.map Prod.snd))| ≤ Ey) →
    ∃ es : List ℝ, (Rounding5.onlineTerms s0 P).length = es.length ∧
      es.sum = comoment (vals (P.map Prod.fst)) (vals (P.map Prod.snd)) ∧
      (es.map (|·|)).sum ≤ P.length * (Rx * Ry) ∧
      (List.zipWith (fun a b => |a - b|) (Rounding5.onlineTerms s0 P) es).sum ≤
        P.length * (Rx * Ey + Ry * Ex + Ex * Ey) := by
  induction P using List.reverseRecOn with
  | nil =>
    intro _ _ _ _
    exact ⟨[], rfl, by simp [comoment, vals], by simp, by simp [Rounding5.onlineTerms]⟩
  | append_singleton P p ih =>
    intro hrep hN hR hE
    obtain ⟨es, hl, hsum, habs, hclose⟩ := ih (fun q hq => hrep q (by simp [hq]))
      (fun k hk => hN k (by simp; omega))
      (fun a ha b hb => hR a (by simp [ha]) b (by simp [hb]))
      (fun Q hQ hne => hE Q (hQ.trans (List.prefix_append P [p])) hne)
    set X := vals (P.map Prod.fst) with hX
    set Y := vals (P.map Prod.snd) with hY
    have hXY : X.length = Y.length := by simp [hX, hY, vals]
    have hXs : vals ((P ++ [p]).map Prod.fst) = X ++ [p.1.val] := by simp [hX, vals]
    have hYs : vals ((P ++ [p]).map Prod.snd) = Y ++ [p.2.val] := by simp [hY, vals]
    set mx := (P.foldl onlineStep s0).1.val with hmx
    set my' := ((P ++ [p]).foldl onlineStep s0).2.1.val with hmy'
    obtain ⟨_, hEy'⟩ := hE (P ++ [p]) (List.prefix_refl _) (by simp)
    rw [hYs] at hEy'
    have hEy0 : 0 ≤ Ey := le_trans (abs_nonneg _) hEy'
    obtain ⟨hEx'', _⟩ := hE (P ++ [p]) (List.prefix_refl _) (by simp)
    have hEx0 : 0 ≤ Ex := le_trans (abs_nonneg _) hEx''
    obtain ⟨hRx0, hRy0⟩ : 0 ≤ Rx ∧ 0 ≤ Ry := by
      have := hR p (by simp) p (by simp)
      simpa using this
    refine ⟨es ++ [(p.1.val - mu X) * (p.2.val - mu (Y ++ [p.2.val]))], ?_, ?_, ?_, ?_⟩
    · rw [onlineTerms_snoc]; simp [hl]
    · rw [List.sum_append, hsum, hXs, hYs, comoment_snoc X Y hXY, List.sum_singleton]
    · -- |e_k| ≤ Rx·Ry
      rw [List.map_append, List.sum_append]
      simp only [List.map_cons, List.map_nil, List.sum_cons, List.sum_nil, add_zero,
        List.length_append, List.length_cons, List.length_nil]
      push_cast
      suffices hs : |(p.1.val - mu X) * (p.2.val - mu (Y ++ [p.2.val]))| ≤ Rx * Ry by linarith
      by_cases hpn : P = []
      · subst hpn
        have : mu ((vals (([] : List (Fl M × Fl M)).map Prod.snd)) ++ [p.2.val]) = p.2.val := by
          simp [vals, mu]
        simp only [hY, this, sub_self, mul_zero, abs_zero]
        exact mul_nonneg hRx0 hRy0
      · have ha : |p.1.val - mu X| ≤ Rx := by
          apply abs_sub_mu_le X p.1.val Rx (by simpa [hX, vals] using hpn)
          intro q hq
          obtain ⟨b, hb, rfl⟩ := List.mem_map.mp hq
          obtain ⟨c, hc, rfl⟩ := List.mem_map.mp hb
          exact (hR p (by simp) c (by simp [hc])).1
        have hb0 : |p.2.val - mu Y| ≤ Ry := by
          apply abs_sub_mu_le Y p.2.val Ry (by simpa [hY, vals] using hpn)
          intro q hq
          obtain ⟨b, hb, rfl⟩ := List.mem_map.mp hq
          obtain ⟨c, hc, rfl⟩ := List.mem_map.mp hb
          exact (hR p (by simp) c (by simp [hc])).2
        have hb : |p.2.val - mu (Y ++ [p.2.val])| ≤ Ry := le_trans (abs_sub_mu_snoc_le Y p.2.val) hb0
        rw [abs_mul]
        exact mul_le_mul ha hb (abs_nonneg _) hRx0
    · rw [onlineTerms_snoc, List.zipWith_append hl, List.sum_append]
      simp only [List.zipWith_cons_cons, List.zipWith_nil_right, List.sum_cons, List.sum_nil, add_zero,
        List.length_append, List.length_cons, List.length_nil]
      push_cast
      have hB0 : 0 ≤ Rx * Ey + Ry * Ex + Ex * Ey := by positivity
      suffices hstepB : |(p.1.val - mx) * (p.2.val - my') -
          (p.1.val - mu X) * (p.2.val - mu (Y ++ [p.2.val]))| ≤ Rx * Ey + Ry * Ex + Ex * Ey by
        linarith
      by_cases hpn : P = []
      · subst hpn
        -- first point: absorbed exactly
        have hmeans := online_means ([p] : List (Fl M × Fl M)) (fun k hk => hN k (by simpa using hk))
        have hf := welford_first p.2 h1 (hrep p (by simp)).2
        have hmy1 : my' = p.2.val := by
          rw [hmy']
          show (([] ++ [p] : List (Fl M × Fl M)).foldl onlineStep s0).2.1.val = _
          rw [List.nil_append, hmeans.2]
          exact hf.1
        have hμ1 : mu (Y ++ [p.2.val]) = p.2.val := by simp [hY, vals, mu]
        rw [hmy1, hμ1]
        simpa using hB0
      · obtain ⟨hex, _⟩ := hE P (List.prefix_append P [p]) hpn
        have ha : |p.1.val - mu X| ≤ Rx := by
          apply abs_sub_mu_le X p.1.val Rx (by simpa [hX, vals] using hpn)
          intro q hq
          obtain ⟨b, hb, rfl⟩ := List.mem_map.mp hq
          obtain ⟨c, hc, rfl⟩ := List.mem_map.mp hb
          exact (hR p (by simp) c (by simp [hc])).1
        have hb0 : |p.2.val - mu Y| ≤ Ry := by
          apply abs_sub_mu_le Y p.2.val Ry (by simpa [hY, vals] using hpn)
          intro q hq
          obtain ⟨b, hb, rfl⟩ := List.mem_map.mp hq
          obtain ⟨c, hc, rfl⟩ := List.mem_map.mp hb
          exact (hR p (by simp) c (by simp [hc])).2
        have hb : |p.2.val - mu (Y ++ [p.2.val])| ≤ Ry := le_trans (abs_sub_mu_snoc_le Y p.2.val) hb0
        have key : (p.1.val - mx) * (p.2.val - my') - (p.1.val - mu X) * (p.2.val - mu (Y ++ [p.2.val])) =
            -((p.1.val - mu X) * (my' - mu (Y ++ [p.2.val]))) - (mx - mu X) * (p.2.val - mu (Y ++ [p.2.val]))
              + (mx - mu X) * (my' - mu (Y ++ [p.2.val])) := by ring
        rw [key]
        have a1 : |(p.1.val - mu X) * (my' - mu (Y ++ [p.2.val]))| ≤ Rx * Ey := by
          rw [abs_mul]; exact mul_le_mul ha hEy' (abs_nonneg _) hRx0
        have a2 : |(mx - mu X) * (p.2.val - mu (Y ++ [p.2.val]))| ≤ Ex * Ry := by
          rw [abs_mul]; exact mul_le_mul hex hb (abs_nonneg _) hEx0
        have a3 : |(mx - mu X) * (my' - mu (Y ++ [p.2.val]))| ≤ Ex * Ey := by
          rw [abs_mul]; exact mul_le_mul hex hEy' (abs_nonneg _) hEx0
        have b1 := abs_add_le (-((p.1.val - mu X) * (my' - mu (Y ++ [p.2.val])))
          - (mx - mu X) * (p.2.val - mu (Y ++ [p.2.val]))) ((mx - mu X) * (my' - mu (Y ++ [p.2.val])))
        have b2 := abs_sub (-((p.1.val - mu X) * (my' - mu (Y ++ [p.2.val]))))
          ((mx - mu X) * (p.2.val - mu (Y ++ [p.2.val])))
        rw [abs_neg] at b2
        nlinarith

end online

end Cv.Rounding6

/-! ### C20: the matrix forms of the kernels -/

namespace Cv.Rounding6
open Cv Cv.FlModel Cv.Rounding Cv.Rounding3 Cv.Rounding5

variable {M : FlModel}

/-- the library exponential does not exceed `1` on non-positive arguments (true of every monotone `exp`
with `exp(0) = 1`; a hypothesis separate from the relative-accuracy class `ExpLnStd`, used only by the
upper bound `k̂ ≤ σ²(1+u)`) -/
class ExpLeOne (M : FlModel) [ExpLnStd M] : Prop where
  exp_le_one : ∀ x : ℝ, x ≤ 0 → ExpLnStd.expR (M := M) x ≤ 1

/-- with idempotent rounding `z.powi(2)` (`= 1.0 * (z*z)`) is the single product `z*z` — the premise of
`C20.rbf_matrix_form_eq_scalar` / `C20.rq_matrix_form_eq_scalar` at `Fl M` -/
theorem powi_two_idem (hid : M.Idem) (a : Fl M) : powi a 2 = a * a := by
  rw [Rounding5.powi_two_fl]
  apply Fl.ext
  show M.rnd (1 * M.rnd (a.val * a.val)) = M.rnd (a.val * a.val)
  rw [one_mul]; exact hid _

theorem sq_fac_idem (hid : M.Idem) (z : Fl M) : ∃ g, M.Fac 1 g ∧ (powi z 2).val = z.val ^ 2 * g := by
  obtain ⟨g, hg, h⟩ := mul_fac z z
  exact ⟨g, hg, by rw [powi_two_idem hid, h]; ring⟩

/-- the exponent of the RBF kernel with idempotent rounding (the matrix route: broadcast subtraction,
`x*x`, negation, division by `2.*l.powi(2)`): seven rounding factors -/
theorem rbfArg_fac_idem (hid : M.Idem) (k : Gp.RBF (Fl M)) (x y : Fl M) :
    ∃ g, M.Fac 7 g ∧ ((-(powi (x - y) 2)) / k.denom).val = -(rbfArg k x y) * g := by
  obtain ⟨g0, hg0, h0⟩ := sub_fac x y
  obtain ⟨g1, hg1, h1⟩ := sq_fac_idem hid (x - y)
  obtain ⟨g2, hg2, h2⟩ := gpTwo_fac (M := M)
  obtain ⟨g3, hg3, h3⟩ := sq_fac_idem hid k.ls
  obtain ⟨g4, hg4, h4⟩ := mul_fac (Gp.two : Fl M) (powi k.ls 2)
  obtain ⟨g5, hg5, h5⟩ := div_fac (-(powi (x - y) 2)) k.denom
  refine ⟨g0 * g0 * g1 * g5 * (g2 * g3 * g4)⁻¹,
    (((hg0.mul hg0).mul hg1).mul hg5).mul ((hg2.mul hg3).mul hg4).inv, ?_⟩
  rw [h5, Fl.neg_val, h1, h0, show k.denom = Gp.two * powi k.ls 2 from rfl, h4, h2, h3, rbfArg,
    div_eq_mul_inv, div_eq_mul_inv, mul_inv, mul_inv, mul_inv, mul_inv]
  ring

/-- `rbf_near` for any count `K` of rounding factors on the exponent -/
theorem rbf_near_gen [ExpLnStd M] [PowStd M] (k : Gp.RBF (Fl M)) (x y : Fl M) (K : Nat)
    (hfac : ∃ g, M.Fac K g ∧ ((-(powi (x - y) 2)) / k.denom).val = -(rbfArg k x y) * g)
    (hv : 0 ≤ k.var.val) (h : ((K : Nat) : ℝ) * M.u < 1) :
    Near (Real.exp (-(M.γ K * rbfArg k x y)) * ((1 - uF M) * (1 - M.u)))
      (rbfExact k x y) (k.fwd x y).val := by
  obtain ⟨g, hg, ha⟩ := hfac
  obtain ⟨ε, hε, he⟩ := ExpLnStd.exp_std (M := M) ((-(powi (x - y) 2)) / k.denom).val
  obtain ⟨δ, hδ, hr⟩ := M.std (ExpLnStd.expR (M := M) ((-(powi (x - y) 2)) / k.denom).val * k.var.val)
  set A := rbfArg k x y with hA
  have hA0 : 0 ≤ A := rbfArg_nonneg k x y
  have hτ : |(-A) * (g - 1)| ≤ M.γ K * A := by
    rw [abs_mul, abs_neg, abs_of_nonneg hA0, mul_comm]
    exact mul_le_mul_of_nonneg_right (hg.abs_sub_one_le h) hA0
  have n1 : Near (Real.exp (-(M.γ K * A))) (Real.exp (-A)) (Real.exp (-A + (-A) * (g - 1))) :=
    Near.exp hτ
  have n2 := Rounding5.Near.mul_right n1 hv
  have n3 : Near ((1 - uF M) * (1 - M.u)) (Real.exp (-A + (-A) * (g - 1)) * k.var.val)
      (Real.exp (-A + (-A) * (g - 1)) * k.var.val * ((1 + ε) * (1 + δ))) :=
    Rounding5.Near.libm_rnd (mul_nonneg (Real.exp_pos _).le hv) hε hδ
  have hc2 : 0 ≤ (1 - uF M) * (1 - M.u) :=
    mul_nonneg (by linarith [ExpLnStd.uf_lt_one (M := M)]) M.one_sub_u_pos.le
  have := Near.trans (Real.exp_pos _).le hc2 n2 n3
  have hval : (k.fwd x y).val = Real.exp (-A + (-A) * (g - 1)) * k.var.val * ((1 + ε) * (1 + δ)) := by
    rw [rbf_unfold]
    show M.rnd (ExpLnStd.expR (M := M) ((-(powi (x - y) 2)) / k.denom).val * k.var.val) = _
    rw [hr, he, ha]
    have : -A * g = -A + -A * (g - 1) := by ring
    rw [this]; ring
  rw [hval]
  exact this

/-- one rounding of a non-negative number is at most `(1+u)` times it -/
theorem rnd_le_of_nonneg {w : ℝ} (hw : 0 ≤ w) : M.rnd w ≤ w * (1 + M.u) := by
  obtain ⟨δ, hδ, h⟩ := M.std w
  rw [h]
  exact mul_le_mul_of_nonneg_left (by linarith [(abs_le.mp hδ).2]) hw

/-- **the computed RBF value does not exceed `σ²(1+u)`** when the library `exp` is `≤ 1` on non-positive
arguments -/
theorem rbf_le_var [ExpLnStd M] [PowStd M] [ExpLeOne M] (k : Gp.RBF (Fl M)) (x y : Fl M)
    (hv : 0 ≤ k.var.val) : (k.fwd x y).val ≤ k.var.val * (1 + M.u) := by
  obtain ⟨g, hg, ha⟩ := rbfArg_fac k x y
  have harg : ((-(powi (x - y) 2)) / k.denom).val ≤ 0 := by
    rw [ha]
    have := rbfArg_nonneg k x y
    have := hg.pos
    nlinarith
  have he := ExpLeOne.exp_le_one (M := M) _ harg
  have hpos := expR_pos_stdmodel (M := M) ((-(powi (x - y) 2)) / k.denom).val
  rw [rbf_unfold]
  show M.rnd (ExpLnStd.expR (M := M) ((-(powi (x - y) 2)) / k.denom).val * k.var.val) ≤ _
  refine le_trans (rnd_le_of_nonneg (mul_nonneg hpos.le hv)) ?_
  exact mul_le_mul_of_nonneg_right (by nlinarith) (by linarith [M.u_nonneg])

end Cv.Rounding6
