import Compute.Model.Stats
import Compute.Generated.SrcC08Loops
import Compute.Lemmas.SrcLoops
/-
Source tie for C08, loops and iterator chains (`src/statistics/{moments,covariance,order,hist}.rs`).

`Compute/Generated/SrcC08Loops.lean` is regenerated from the Rust source on every run by `tools/rs2lean.py`
(option `loops`): every function of the four files is transcribed WHOLE — the Welford update and its `for` loop,
the index loops and `zip` loop of the covariances, the `fold`s of `min` / `max` / `argmin` / `argmax`, the
`windows(2)` map of `hist_bin_centers` — with the order of operations of the source.  This file proves each
regenerated definition equal to the hand-written model of `Compute/Model/Stats.lean`, as functions, for every
scalar type (so at `Float`).  No algebra on the scalar is used anywhere: the proofs are `rfl`, case splits on
`Nat` conditions / list shapes, and the list-combinator lemmas of `Compute/Lemmas/SrcLoops.lean`.

Where the model is not syntactically the source (what exactly is proved):
* index loops (`for i in 0..n { .. x[i] .. y[i] .. }`, `(0..n).map(|i| ..)`) are modelled over the elements
  (`List.zip`, `List.zipWith`): equal by `SrcLoops.map_range_idx₂` / `foldl_range_idx₂` under the length equality
  that the source asserts first (the `assert_eq!` is part of both sides);
* `usize` underflow: the source panics in `(count - 1)` / `(n - 1)`; the translator emits the guard `1 ≤ n`,
  the model tests `n = 0` — the same `Nat` condition;
* `sample_covariance_onepass` reads `x[0]`, `y[0]` inside the loop; the model binds the heads by a `match`
  (empty input: the loop does not run and `n - 1` underflows on both sides);
* `argmin` / `argmax`: the model is a structural recursion carrying the index, the source a fold over
  `.enumerate()` (`SrcLoops.idxRec_eq_foldl_zipIdx`); `hist_bin_centers`: structural recursion on successive pairs
  vs `windows(2).map(..)` (`SrcLoops.pairRec_eq_map_zip_tail`).
-/
set_option linter.unusedSectionVars false
set_option linter.unusedSimpArgs false
namespace Cv.SrcTie.C08Loops

variable {α : Type} [Add α] [Sub α] [Mul α] [Div α] [Neg α] [Zero α] [One α] [NatCast α] [IntCast α]
  [LT α] [DecidableLT α] [LE α] [DecidableLE α] [BEq α] [Cv.Transc α] [Inhabited α] [Cv.HasNaN α]

open Cv.SrcLoops

/-! ### moments.rs -/

/-- `welford_update`: the five statements of the source, in order. -/
theorem welfordUpdate_eq (agg : Nat × α × α) (x : α) :
    Cv.Src.C08Loops.welfordUpdate agg x = Cv.welfordUpdate agg x := rfl

/-- `welford_statistics`: `for i in data { aggregate = welford_update(aggregate, i) }` from `(0, 0., 0.)`. -/
theorem welfordStatistics_eq (data : List α) :
    Cv.Src.C08Loops.welfordStatistics data = Cv.welfordStatistics data := rfl

/-- `mean`: `sum(data) / data.len() as f64` with the unrolled kernel `sum8`. -/
theorem mean_eq (data : List α) : Cv.Src.C08Loops.mean data = Cv.mean data := rfl

theorem welfordMean_eq (data : List α) : Cv.Src.C08Loops.welfordMean data = Cv.welfordMean data := rfl

theorem var_eq (data : List α) : Cv.Src.C08Loops.var data = Cv.var data := rfl

/-- `sample_var`: `(count - 1) as f64` panics exactly when `count = 0`. -/
theorem sampleVar_eq (data : List α) : Cv.Src.C08Loops.sampleVar data = Cv.sampleVar data := by
  unfold Cv.Src.C08Loops.sampleVar Cv.sampleVar
  rw [show Cv.Src.C08Loops.welfordStatistics data = Cv.welfordStatistics data from rfl]
  by_cases h : (Cv.welfordStatistics data).1 = 0
  · have h' : ¬ 1 ≤ (Cv.welfordStatistics data).1 := by omega
    rw [if_neg h', if_pos h]
  · have h' : 1 ≤ (Cv.welfordStatistics data).1 := by omega
    rw [if_pos h', if_neg h]

theorem std_eq (data : List α) : Cv.Src.C08Loops.std data = Cv.std data := rfl

/-- `sample_std`: `sample_var(data).sqrt()`; a panic of `sample_var` propagates. -/
theorem sampleStd_eq (data : List α) : Cv.Src.C08Loops.sampleStd data = Cv.sampleStd data := by
  unfold Cv.Src.C08Loops.sampleStd Cv.sampleStd
  rw [sampleVar_eq]
  cases Cv.sampleVar data <;> rfl

/-! ### covariance.rs -/

/-- The index map `(0..n).map(|i| (x[i] - mean_x) * (y[i] - mean_y)).sum::<f64>()` of the source is the model's
`coMoment` (over the zipped elements) when the lengths agree. -/
theorem coMoment_src (x y : List α) (h : x.length = y.length) :
    Cv.iterSum (List.map (fun (i : Nat) => (x[i]! - Cv.Src.C08Loops.mean x) * (y[i]! - Cv.Src.C08Loops.mean y))
      (List.range x.length)) = Cv.coMoment x y := by
  unfold Cv.coMoment
  rw [map_range_idx₂ (fun a b => (a - Cv.Src.C08Loops.mean x) * (b - Cv.Src.C08Loops.mean y)) x y h]
  rfl

/-- The same sum written over the zipped elements (`x.iter().zip(y).map(|(xi, yi)| ..)`): the model's `coMoment` directly. -/
theorem coMoment_src_zip (x y : List α) :
    Cv.iterSum (List.map (fun (p : α × α) => (p.1 - Cv.Src.C08Loops.mean x) * (p.2 - Cv.Src.C08Loops.mean y)) (List.zip x y))
      = Cv.coMoment x y := by
  unfold Cv.coMoment
  rw [zipWith_map_fun (fun a b => (a - Cv.Src.C08Loops.mean x) * (b - Cv.Src.C08Loops.mean y)) x y]
  rfl

theorem covariance_eq (x y : List α) : Cv.Src.C08Loops.covariance x y = Cv.covariance x y := by
  unfold Cv.Src.C08Loops.covariance Cv.covariance
  by_cases h : x.length = y.length
  · simp only [h, if_true]
    -- shape-tolerant: the index map `(0..n).map(|i| ..)` or the `zip` map
    first
      | (rw [← h, coMoment_src x y h])
      | (rw [coMoment_src_zip x y])
      | (rw [← h, coMoment_src_zip x y])
  · simp only [h, if_false]

theorem sampleCovariance_eq (x y : List α) :
    Cv.Src.C08Loops.sampleCovariance x y = Cv.sampleCovariance x y := by
  unfold Cv.Src.C08Loops.sampleCovariance Cv.sampleCovariance
  by_cases h : x.length = y.length
  · simp only [h, if_true]
    first
      | rw [← h, coMoment_src x y h]
      | rw [coMoment_src_zip x y]
      | rw [← h, coMoment_src_zip x y]
    first
      | (by_cases h0 : x.length = 0
         · have h' : ¬ 1 ≤ x.length := by omega
           rw [if_neg h', if_pos h0]
         · have h' : 1 ≤ x.length := by omega
           rw [if_pos h', if_neg h0])
      | (rw [← h]
         by_cases h0 : x.length = 0
         · have h' : ¬ 1 ≤ x.length := by omega
           rw [if_neg h', if_pos h0]
         · have h' : 1 ≤ x.length := by omega
           rw [if_pos h', if_neg h0])
  · simp only [h, if_false]

/-- `sample_covariance_onepass`: the index loop with the shifts `x[0]`, `y[0]` read inside the body. -/
theorem sampleCovarianceOnepass_eq (x y : List α) :
    Cv.Src.C08Loops.sampleCovarianceOnepass x y = Cv.sampleCovarianceOnepass x y := by
  unfold Cv.Src.C08Loops.sampleCovarianceOnepass Cv.sampleCovarianceOnepass
  by_cases h : x.length = y.length
  · simp only [h, if_true]
    rw [← h]
    have key := foldl_range_idx₂ (Cv.onepassStep x[0]! y[0]!) ((0 : α), (0 : α), (0 : α)) x y h
    cases x with
    | nil =>
      cases y with
      | nil => simp
      | cons b ys => simp at h
    | cons a xs =>
      cases y with
      | nil => simp at h
      | cons b ys =>
        have h1 : 1 ≤ (a :: xs).length := by simp
        simp only [h1, if_true]
        have ea : (a :: xs)[0]! = a := by simp
        have eb : (b :: ys)[0]! = b := by simp
        rw [ea, eb] at key
        -- shape-tolerant: the index loop (bridged to the `zip` fold by `foldl_range_idx₂`) or the `zip` loop itself
        first
          | (rw [← key]
             simp only [ea, eb]
             rfl)
          | (simp only [ea, eb]
             rfl)
  · simp only [h, if_false]

/-- `sample_covariance_online`: the `zip` loop with the four accumulators `(meanx, meany, c, n)`. -/
theorem sampleCovarianceOnline_eq (x y : List α) :
    Cv.Src.C08Loops.sampleCovarianceOnline x y = Cv.sampleCovarianceOnline x y := rfl

/-! ### order.rs -/

theorem minFold_eq (data : List α) : Cv.Src.C08Loops.minFold data = Cv.minFold data := rfl

theorem maxFold_eq (data : List α) : Cv.Src.C08Loops.maxFold data = Cv.maxFold data := rfl

/-- `argmin`: `.enumerate().fold((0, f64::MAX), |acc, (i, j)| if acc.1 > *j { (i, *j) } else { acc }).0`. -/
theorem argmin_eq (big : α) (data : List α) : Cv.Src.C08Loops.argmin big data = Cv.argmin big data := by
  unfold Cv.Src.C08Loops.argmin Cv.argmin
  rw [idxRec_eq_foldl_zipIdx Cv.argminGo
    (fun (acc : Nat × α) (p : α × Nat) => if acc.2 > p.1 then (p.2, p.1) else acc)
    (fun _ _ => rfl) (fun _ _ _ _ => rfl)]

/-- `argmax`: the same fold with `acc.1 < *j` from `(0, f64::MIN)`. -/
theorem argmax_eq (small : α) (data : List α) : Cv.Src.C08Loops.argmax small data = Cv.argmax small data := by
  unfold Cv.Src.C08Loops.argmax Cv.argmax
  rw [idxRec_eq_foldl_zipIdx Cv.argmaxGo
    (fun (acc : Nat × α) (p : α × Nat) => if acc.2 < p.1 then (p.2, p.1) else acc)
    (fun _ _ => rfl) (fun _ _ _ _ => rfl)]

/-! ### hist.rs -/

/-- `hist_bin_centers`: `edges.windows(2).map(|w| (w[0] + w[1]) / 2.).collect()`. -/
theorem histBinCenters_eq (edges : List α) :
    Cv.Src.C08Loops.histBinCenters edges = Cv.histBinCenters edges := by
  unfold Cv.Src.C08Loops.histBinCenters
  rw [pairRec_eq_map_zip_tail Cv.histBinCenters (fun a b => (a + b) / ((2 : Nat) : α))
    rfl (fun _ => rfl) (fun _ _ _ => rfl)]

end Cv.SrcTie.C08Loops
